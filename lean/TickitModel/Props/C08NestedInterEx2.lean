/-
Non-vacuity of `Props/C08NestedInter.lean` at nesting depth 2: a system simulation INSIDE a system
simulation, ticking concurrently with a sibling of its parent.

Master level: system simulations `s`, `s2` and device `z` (`s.y → z.i`, `s2.y → z.j`).  Inside `s`:
devices `a`, `b`, `expose.y ← a.o`.  Inside `s2`: device `c` and the system simulation `u`,
`expose.y ← u.w`.  Inside `u`: device `e`, `expose.w ← e.o`.  In the execution `interEx2` three inner
ticks are open at the same time (`s`; `s2`; `u` inside `s2`) and take their steps in turn; `u`
returns into `s2` while `s` is still ticking, `s` returns before `s2`.  The observations are made in
the order `a, e, c, b, z`.
-/
import TickitModel.Props.C08NestedInterEx

namespace Tickit.InterEx2

open Tickit.AnyEx Tickit.InterEx

def s2Inv' : InvWiring := [("c", []), ("u", []), ("external", []), ("expose", [("y", ("u", "w"))])]
def uInv : InvWiring := [("e", []), ("external", []), ("expose", [("w", ("e", "o"))])]
def s2W' : Wiring := Wiring.fromInverse s2Inv'
def uW : Wiring := Wiring.fromInverse uInv

def S2 : Static :=
  { levels := [⟨"", topW1⟩, ⟨"s", sW⟩, ⟨"s2", s2W'⟩, ⟨"u", uW⟩]
    systems := ["s", "s2", "u"]
    parent := [("s", ""), ("s2", ""), ("z", ""), ("a", "s"), ("b", "s"), ("c", "s2"), ("u", "s2"),
      ("e", "u")] }

def orc2 : Oracle :=
  [("a", [⟨[("o", 7)], none, false⟩]),
   ("b", [⟨[("o", 1)], some 5, false⟩]),
   ("c", [⟨[("o", 3)], none, false⟩]),
   ("e", [⟨[("o", 9)], none, false⟩]),
   ("z", [⟨[], none, false⟩])]

/-- **the depth-2 configuration is valid** -/
theorem S2_valid : S2.Valid where
  parent_level := by
    intro c p h
    have hm := mem_of_alookup_eq_some h
    simp only [S2, List.mem_cons, Prod.mk.injEq, List.not_mem_nil, or_false] at hm
    rcases hm with ⟨rfl, rfl⟩ | ⟨rfl, rfl⟩ | ⟨rfl, rfl⟩ | ⟨rfl, rfl⟩ | ⟨rfl, rfl⟩ | ⟨rfl, rfl⟩ |
      ⟨rfl, rfl⟩ | ⟨rfl, rfl⟩
    · exact ⟨⟨"", topW1⟩, rfl, by decide, Or.inl rfl⟩
    · exact ⟨⟨"", topW1⟩, rfl, by decide, Or.inl rfl⟩
    · exact ⟨⟨"", topW1⟩, rfl, by decide, Or.inl rfl⟩
    · exact ⟨⟨"s", sW⟩, rfl, by decide, Or.inr rfl⟩
    · exact ⟨⟨"s", sW⟩, rfl, by decide, Or.inr rfl⟩
    · exact ⟨⟨"s2", s2W'⟩, rfl, by decide, Or.inr rfl⟩
    · exact ⟨⟨"s2", s2W'⟩, rfl, by decide, Or.inr rfl⟩
    · exact ⟨⟨"u", uW⟩, rfl, by decide, Or.inr rfl⟩
  members := by decide
  sys_level := by
    intro c h
    have hc : c = "s" ∨ c = "s2" ∨ c = "u" := by simpa [Static.isSys, S2] using h
    rcases hc with rfl | rfl | rfl
    · exact ⟨⟨"s", sW⟩, rfl, rfl⟩
    · exact ⟨⟨"s2", s2W'⟩, rfl, rfl⟩
    · exact ⟨⟨"u", uW⟩, rfl, rfl⟩
  pseudo_fresh := by decide
  sys_parent := by
    intro c h
    have hc : c = "s" ∨ c = "s2" ∨ c = "u" := by simpa [Static.isSys, S2] using h
    rcases hc with rfl | rfl | rfl <;> rfl
  nesting := by
    refine ⟨fun c => if c = "e" then 2 else if c = "a" ∨ c = "b" ∨ c = "c" ∨ c = "u" then 1 else 0, ?_⟩
    intro c p h hp
    have hm := mem_of_alookup_eq_some h
    simp only [S2, List.mem_cons, Prod.mk.injEq, List.not_mem_nil, or_false] at hm
    rcases hm with ⟨rfl, rfl⟩ | ⟨rfl, rfl⟩ | ⟨rfl, rfl⟩ | ⟨rfl, rfl⟩ | ⟨rfl, rfl⟩ | ⟨rfl, rfl⟩ |
      ⟨rfl, rfl⟩ | ⟨rfl, rfl⟩
    · exact absurd rfl hp
    · exact absurd rfl hp
    · exact absurd rfl hp
    · decide
    · decide
    · decide
    · decide
    · decide
  ups_defined := by decide
  level_names := by decide
  wiring_wf := by
    intro L hL
    simp only [S2, List.mem_cons, List.not_mem_nil, or_false] at hL
    rcases hL with rfl | rfl | rfl | rfl
    · exact ⟨Wiring.wf_fromInverse' _, Wiring.oneSource_fromInverse _ (by unfold InvWiring.WF DictWF; decide)⟩
    · exact ⟨Wiring.wf_fromInverse' _, Wiring.oneSource_fromInverse _ (by unfold InvWiring.WF DictWF; decide)⟩
    · exact ⟨Wiring.wf_fromInverse' _, Wiring.oneSource_fromInverse _ (by unfold InvWiring.WF DictWF; decide)⟩
    · exact ⟨Wiring.wf_fromInverse' _, Wiring.oneSource_fromInverse _ (by unfold InvWiring.WF DictWF; decide)⟩
  acyclic := by
    intro L hL
    simp only [S2, List.mem_cons, List.not_mem_nil, or_false] at hL
    rcases hL with rfl | rfl | rfl | rfl
    · exact acyclic_of_check _ (fun c => if c = "z" then 1 else 0) (by decide)
    · exact acyclic_of_check _ (fun c => if c = "expose" then 1 else 0) (by decide)
    · exact acyclic_of_check _ (fun c => if c = "expose" then 1 else 0) (by decide)
    · exact acyclic_of_check _ (fun c => if c = "expose" then 1 else 0) (by decide)
  parent_unique := by decide
  pseudo_dir := by
    intro L hL
    simp only [S2, List.mem_cons, List.not_mem_nil, or_false] at hL
    rcases hL with rfl | rfl | rfl | rfl
    · exact pseudo_dir_of_check _ (by decide)
    · exact pseudo_dir_of_check _ (by decide)
    · exact pseudo_dir_of_check _ (by decide)
    · exact pseudo_dir_of_check _ (by decide)
  master_fresh := by decide

/-- **three inner ticks open at once, at depths 1 and 2**: `s`, `s2` and — inside `s2` — `u` take their
steps in turn.  The observations are made in the order `a, e, c, b, z`. -/
theorem interEx2 : ∃ r, TickInter S2 orc2 "" 0 ["z", "s", "s2"] [] {} r ∧
    r.1.obs.map (·.comp) = ["a", "e", "c", "b", "z"] := by
  refine ⟨_, .mk (L := ⟨"", topW1⟩) rfl rfl
    (-- deliver the Inputs of `s`, of `s2`, and inside `s2` of `u`
     .step (.opn (i := 0) (Lc := ⟨"s", sW⟩) rfl rfl rfl rfl (by simp) rfl rfl)
    (.step (.opn (i := 1) (Lc := ⟨"s2", s2W'⟩) rfl rfl rfl rfl (by decide) rfl rfl)
    (.step (.inner (j := 1) rfl (.opn (i := 1) (Lc := ⟨"u", uW⟩) rfl rfl rfl rfl (by simp) rfl rfl))
     -- `a` in `s`
    (.step (.inner (j := 0) rfl
      (.answer (i := 1) rfl (.dev (resp := ⟨[("o", 7)], none, false⟩) rfl rfl rfl rfl rfl) rfl))
     -- `e` in `u` (depth 2)
    (.step (.inner (j := 1) rfl (.inner (j := 0) rfl
      (.answer (i := 1) rfl (.dev (resp := ⟨[("o", 9)], none, false⟩) rfl rfl rfl rfl rfl) rfl)))
     -- `c` in `s2`
    (.step (.inner (j := 1) rfl
      (.answer (i := 2) rfl (.dev (resp := ⟨[("o", 3)], none, false⟩) rfl rfl rfl rfl rfl) rfl))
     -- `external` in `s`, `external` in `u`
    (.step (.inner (j := 0) rfl (.answer (i := 0) rfl (.external rfl) rfl))
    (.step (.inner (j := 1) rfl (.inner (j := 0) rfl (.answer (i := 0) rfl (.external rfl) rfl)))
     -- `b` in `s`
    (.step (.inner (j := 0) rfl
      (.answer (i := 0) rfl (.dev (resp := ⟨[("o", 1)], some 5, false⟩) rfl rfl rfl rfl rfl) rfl))
     -- `expose` in `u`; `u` returns into `s2`
    (.step (.inner (j := 1) rfl (.inner (j := 0) rfl (.answer (i := 0) rfl (.expose rfl rfl) rfl)))
    (.step (.inner (j := 1) rfl (.close (j := 0) (i := 1) rfl rfl rfl rfl rfl))
     -- `expose` in `s`, `external` in `s2`; `s` returns
    (.step (.inner (j := 0) rfl (.answer (i := 0) rfl (.expose rfl rfl) rfl))
    (.step (.inner (j := 1) rfl (.answer (i := 0) rfl (.external rfl) rfl))
    (.step (.close (j := 0) (i := 0) rfl rfl rfl rfl rfl)
     -- `expose` in `s2` (now the only open inner level); `s2` returns; `z`
    (.step (.inner (j := 0) rfl (.answer (i := 0) rfl (.expose rfl rfl) rfl))
    (.step (.close (j := 0) (i := 0) rfl rfl rfl rfl rfl)
    (.step (.answer (i := 0) rfl (.dev (resp := ⟨[], none, false⟩) rfl rfl rfl rfl rfl) rfl)
    .refl)))))))))))))))))  rfl rfl, ?_⟩
  rfl

/-- the theorems applied at depth 2: the execution has an atomic counterpart with the same view
under every key, every other interleaved execution gives every device the same observations, the
FIFO model completes the tick with an equivalent result, and `e` (two levels down, driving `z.j`
through `expose` of `u` and `expose` of `s2`) was updated before `z`. -/
example : ∃ r, TickInter S2 orc2 "" 0 ["z", "s", "s2"] [] {} r ∧
    (∃ st'', TickLevelAny S2 orc2 "" 0 ["z", "s", "s2"] [] {} (st'', r.2) ∧ st''.Equiv r.1) ∧
    (∀ r', TickInter S2 orc2 "" 0 ["z", "s", "s2"] [] {} r' → ∀ d, ObsEq (r.1.obsOf d) (r'.1.obsOf d)) ∧
    (∃ F, ∀ fuel, F ≤ fuel → ∃ rf, tickLevel S2 orc2 fuel "" 0 ["z", "s", "s2"] [] {} = .ok rf ∧
      r.1.Equiv rf.1 ∧ MapEq r.2 rf.2) := by
  obtain ⟨r, h, _⟩ := interEx2
  refine ⟨r, h, interleaved_equiv_atomic S2 S2_valid orc2 "" 0 _ [] {} wf_empty r h, ?_,
    interleaved_fifo_exists S2 S2_valid orc2 "" 0 _ [] (by simp) {} wf_empty r h⟩
  intro r' h' d
  exact interleaved_same_observations S2 S2_valid orc2 "" 0 _ _ [] [] {} {} r r' (fun _ => Iff.rfl)
    (mapEq_refl _) (by simp) (by simp) (.refl wf_empty) h h' d

example : (Wiring.fromInverse (S2.flatInverse 9)).Conn "e" "o" "z" "j" := by decide

example : ∃ r, TickInter S2 orc2 "" 0 ["z", "s", "s2"] [] {} r ∧
    ∃ new, r.1.obs = ({} : SimSt).obs ++ new ∧
      ∀ pre oy post, new = pre ++ oy :: post → ∀ ox ∈ new, ∀ p q,
        (Wiring.fromInverse (S2.flatInverse 9)).Conn ox.comp p oy.comp q → ox ∈ pre := by
  obtain ⟨r, h, _⟩ := interEx2
  exact ⟨r, h, interleaved_update_after_resolved_sources S2 S2_valid orc2 9 "" 0 _ [] {} r h⟩

end Tickit.InterEx2
