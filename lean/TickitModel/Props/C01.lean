/-
C01 — in a tick a component updates only after its in-tick upstreams; at most once.
Property theorems only; helper lemmas live in `Lemmas/TickerLemmas.lean`.

All statements quantify over every wiring `w`, every time, every root set, every reaction
function and every order in which pending dispatches are answered (`Reachable`).
-/
import TickitModel.Lemmas.TickerLemmas

namespace Tickit

variable {Val : Type}

/-- Gate invariant: whatever has been dispatched and not yet answered has no first-order
upstream that is still unresolved in this tick. -/
theorem gate_inv (w : Wiring) (react : React Val) (t : SimTime) (roots : List Comp)
    (s : TickSys Val) (hs : s.Reachable w react t roots) :
    ∀ d ∈ s.pending, ∀ us, w.ups d.comp = some us → ∀ u ∈ us, alookup s.tk.toUpdate u = none := by
  intro d hd us hus u hu
  have hi := hs.inv.pre
  exact hi.gate d.comp ((hi.pend_flag _).1 ⟨d, hd, rfl⟩) us hus u hu

/-- pending = dispatched and unresolved (flag `true` in `to_update`), exactly. -/
theorem pending_iff_flag (w : Wiring) (react : React Val) (t : SimTime) (roots : List Comp)
    (s : TickSys Val) (hs : s.Reachable w react t roots) (c : Comp) :
    (∃ d ∈ s.pending, d.comp = c) ↔ alookup s.tk.toUpdate c = some true := by
  exact hs.inv.pre.pend_flag c

/-- everything ever dispatched or still to update belongs to the tick's extent, carries the
tick's time, and the unresolved set only shrinks. -/
theorem within_extent (w : Wiring) (react : React Val) (t : SimTime) (roots : List Comp)
    (s : TickSys Val) (hs : s.Reachable w react t roots) :
    (∀ c, alookup s.tk.toUpdate c ≠ none → c ∈ extent w roots) ∧
    (∀ d, Ev.dispatch d ∈ s.trace → d.comp ∈ extent w roots ∧ d.time = t) ∧
    s.tk.time = t := by
  exact ⟨hs.inv.pre.keys_ext, hs.inv.pre.disp_ext, hs.inv.time⟩

/-- **C01, ordering.** In every run of a tick, when a component is dispatched every
first-order upstream of it that takes part in the tick has already answered. -/
theorem update_after_upstreams (w : Wiring) (react : React Val) (t : SimTime) (roots : List Comp)
    (s : TickSys Val) (hs : s.Reachable w react t roots)
    (pre post : List (Ev Val)) (d : Dispatch Val) (htr : s.trace = pre ++ Ev.dispatch d :: post)
    (us : List Comp) (hus : w.ups d.comp = some us) (u : Comp) (hu : u ∈ us) (hext : u ∈ extent w roots) :
    ∃ ch, Ev.answer u ch ∈ pre := by
  exact hs.inv.pre.order pre d post htr us hus u hu hext

/-- **C01, at most once.** No component is dispatched twice in a tick, and every answer
follows its own dispatch. -/
theorem dispatch_at_most_once (w : Wiring) (react : React Val) (t : SimTime) (roots : List Comp)
    (s : TickSys Val) (hs : s.Reachable w react t roots) (c : Comp) :
    (s.trace.filter (Ev.isDispatchOf c)).length ≤ 1 ∧
    (s.trace.filter (Ev.isAnswerOf c)).length ≤ (s.trace.filter (Ev.isDispatchOf c)).length := by
  exact hs.inv.pre.count c

/-- resolved = answered: a member of the extent is out of `to_update` iff it has answered. -/
theorem resolved_iff_answered (w : Wiring) (react : React Val) (t : SimTime) (roots : List Comp)
    (s : TickSys Val) (hs : s.Reachable w react t roots) (c : Comp) (hc : c ∈ extent w roots) :
    alookup s.tk.toUpdate c = none ↔ ∃ ch, Ev.answer c ch ∈ s.trace := by
  exact hs.inv.pre.resolved c hc

/-- no failure: with roots that are components of the wiring, the tick starts and every
step of every run succeeds (no `KeyError`, no failed assertion). -/
theorem init_ok (w : Wiring) (t : SimTime) (roots : List Comp)
    (hroots : ∀ c ∈ extent w roots, (w.ups c).isSome) :
    ∃ s : TickSys Val, TickSys.init w t roots = .ok s := by
  exact TickSys.init_ok_of t hroots

theorem step_ok (w : Wiring) (react : React Val) (t : SimTime) (roots : List Comp)
    (hroots : ∀ c ∈ extent w roots, (w.ups c).isSome)
    (s : TickSys Val) (hs : s.Reachable w react t roots) (i : Nat) (hi : i < s.pending.length) :
    ∃ s', s.step w react i = some (.ok s') := by
  exact hs.inv.step_ok hroots hi

/-- **progress / no stall.** On an acyclic wiring, while anything is unresolved some
dispatch is pending, so some step is enabled; each step resolves exactly one component.
Hence every run finishes after exactly `|extent|` answers, whatever their order. -/
theorem progress (w : Wiring) (hacyc : w.Acyclic) (react : React Val) (t : SimTime) (roots : List Comp)
    (hroots : ∀ c ∈ extent w roots, (w.ups c).isSome)
    (s : TickSys Val) (hs : s.Reachable w react t roots) (hne : s.tk.toUpdate ≠ []) :
    s.pending ≠ [] := by
  have _ := hroots -- not needed: success of the run so far already gives `ups` for every member
  exact hs.inv.progress hacyc hne

theorem step_measure (w : Wiring) (react : React Val) (s s' : TickSys Val) (i : Nat)
    (h : s.step w react i = some (.ok s')) :
    s'.tk.toUpdate.length + 1 = s.tk.toUpdate.length := by
  exact TickSys.step_measure' h

/-- `finished` is raised exactly when nothing is left (after at least one answer). -/
theorem finished_iff (w : Wiring) (react : React Val) (t : SimTime) (roots : List Comp)
    (s s' : TickSys Val) (i : Nat) (hs : s.Reachable w react t roots)
    (h : s.step w react i = some (.ok s')) :
    s'.tk.finished = true ↔ s'.tk.toUpdate = [] := by
  exact hs.inv.finished_iff h

/-! non-vacuity: a diamond, answered in the order c, b, d after a -/
def exW : Wiring :=
  [("a", [("o", [("b", "i"), ("c", "i")])]), ("b", [("o", [("d", "i1")])]), ("c", [("o", [("d", "i2")])]), ("d", [])]

example : extent exW ["a"] = ["a", "b", "c", "d"] := by decide

/-- the hypothesis of `init_ok`/`step_ok`/`progress` holds for the diamond. -/
example : ∀ c ∈ extent exW ["a"], (exW.ups c).isSome := by decide

/-- the diamond is acyclic. -/
example : exW.Acyclic := by
  refine ⟨fun c => if c = "d" then 2 else if c = "b" ∨ c = "c" then 1 else 0, ?_⟩
  have hinv : exW.inverseTree = [("b", ["a"]), ("c", ["a"]), ("d", ["b", "c"]), ("a", [])] := by
    decide
  intro c us u hus hu
  simp only [Wiring.ups, hinv, alookup] at hus
  split at hus
  · cases hus; simp at hu; subst_vars; decide
  · split at hus
    · cases hus; simp at hu; subst_vars; decide
    · split at hus
      · cases hus; simp at hu; rcases hu with rfl | rfl <;> subst_vars <;> decide
      · split at hus
        · cases hus; simp at hu
        · cases hus

def exReact : React Unit := fun _ _ => [("o", ())]

/-- a complete run (a; then c, b; then d) is `Reachable`, ends `finished`, and its trace has
the 4 dispatches and 4 answers. -/
example : ∃ s : TickSys Unit, s.Reachable exW exReact 0 ["a"] ∧ s.tk.finished = true ∧
    s.tk.toUpdate = [] ∧ s.pending = [] ∧ s.trace.length = 8 := by
  refine ⟨_, .step (i := 0) (.step (i := 0) (.step (i := 1) (.step (i := 0) (.init rfl) rfl) rfl)
    rfl) rfl, rfl, rfl, rfl, rfl⟩

end Tickit
