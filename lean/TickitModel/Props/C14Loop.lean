/-
C14 (master run loop) — long runs use bounded scheduler resources: the tasks and the timer
which `MasterScheduler._do_tick` creates for the sleep / new-wakeup race, and the entries of
`wakeups` and `_pending_interrupts` (`Core/MasterLoopRes.lean`).

The annotated machine `MResSt` carries the flag protocol `MLoopSt` of `Core/MasterLoop.lean`
(tied to the Python code by the driver's trace acceptor) plus counters for live tasks and
pending timers.  For EVERY history of `add_wakeup` / `schedule_interrupt` calls, runs of the
waiter task, expiries of the sleep and moves of `_do_tick`:
  * with the loser of the race cancelled (the code as it is): at most 2 tasks and 1 timer,
    none at all outside the race; `len(wakeups)` ≤ the number of distinct components which
    ever asked, `len(_pending_interrupts) ≤ len(wakeups)`;
  * without the cancellation (the code before commit 8a9136c): `n` interrupts pre-empting a
    far sleep leave `n` sleeping tasks and `n` timers pending, for every `n`.
-/
import TickitModel.Lemmas.MasterLoopResLemmas

namespace Tickit

/-! ### the annotated machine refines the flag protocol -/

/-- **erasure.** Dropping the resource counters from any step of the annotated machine —
with or without cancellation of the loser — gives exactly the step `MLoopSt.step true` of the
repaired flag protocol for the same action (enabledness included).  So whatever the trace
acceptor establishes about `MLoopSt` against the running Python code holds of the control
part of the annotated machine, and the counters are pure observers. -/
theorem res_step_erases (cancelLoser : Bool) (s : MResSt) (a : MResAct) (b : MLoopAct)
    (h : a.erase = some b) : (s.step cancelLoser a).map (·.st) = s.st.step true b :=
  MResSt.step_erase cancelLoser s a b h

/-- the only action without a counterpart in the flag protocol (the timer of an abandoned
sleep fires) does not touch the flag protocol's state. -/
theorem res_step_invisible (cancelLoser : Bool) (s s' : MResSt) (a : MResAct)
    (h : a.erase = none) (hs : s.step cancelLoser a = some s') : s'.st = s.st :=
  MResSt.step_erase_none h hs

/-- erasure for whole histories. -/
theorem res_run_erases (cancelLoser : Bool) (s : MResSt) (acts : List MResAct) :
    (s.run cancelLoser acts).st = s.st.run true (acts.filterMap MResAct.erase) :=
  MResSt.run_erase cancelLoser s acts

/-- conversely every history of the flag protocol is the erasure of a history of the
annotated machine: the counters never block a step. -/
theorem res_run_lifts (cancelLoser : Bool) (acts : List MLoopAct) :
    (({} : MResSt).run cancelLoser (acts.map .loop)).st = ({} : MLoopSt).run true acts := by
  rw [MResSt.run_erase]
  congr 1
  induction acts with
  | nil => rfl
  | cons a as ih => simpa [MResAct.erase] using ih

/-! ### the invariant -/

/-- the inductive resource invariant, with and without cancellation: the counters of the race
in progress are a function of the control state — `current` and its timer exist exactly while
the loop is in `sleeping`, `new` exactly while the loop is racing and `new` has not run with
the flag set; every key of `wakeups` was added by somebody; `_pending_interrupts ⊆ wakeups`. -/
theorem res_invariant (cancelLoser : Bool) (acts : List MResAct) :
    ResBase (({} : MResSt).run cancelLoser acts) :=
  ResBase.init.run acts

theorem res_invariant_step (cancelLoser : Bool) (s s' : MResSt) (a : MResAct) (h : ResBase s)
    (hs : s.step cancelLoser a = some s') : ResBase s' :=
  h.step hs

/-- **C14, master loop, tasks and timers.** After ANY history (any number of wakeups,
interrupts, pre-emptions, ticks), the run loop of the code as it is now (`cancelLoser = true`)
holds at most two live tasks and one pending timer, and none whatsoever when it is not inside
the sleep / new-wakeup race (waiting for work, or inside a tick): nothing is left behind by
earlier iterations. -/
theorem loop_tasks_bounded (acts : List MResAct) :
    let s := ({} : MResSt).run true acts
    s.tasks ≤ 2 ∧ s.timers ≤ 1 ∧ (s.st.pc.isRacing = false → s.tasks = 0 ∧ s.timers = 0) := by
  intro s
  have hb : ResBase s := res_invariant true acts
  have ho := MResSt.run_orphans_true {} acts
  have h1 : s.orphanNew = 0 := Nat.le_zero.mp ho.1
  have h2 : s.orphanCur = 0 := Nat.le_zero.mp ho.2.1
  have h3 : s.orphanTimer = 0 := Nat.le_zero.mp ho.2.2
  have hle := hb.race_le
  refine ⟨?_, ?_, ?_⟩
  · simp only [MResSt.tasks]; omega
  · simp only [MResSt.timers]; omega
  · intro hr
    have hz := hb.race_zero hr
    simp only [MResSt.tasks, MResSt.timers]
    omega

/-- the exact count: `tasks = [sleep running] + [waiter not finished]`. -/
theorem loop_tasks_exact (acts : List MResAct) :
    let s := ({} : MResSt).run true acts
    s.tasks = s.st.pc.curLive + s.st.newLive ∧ s.timers = s.st.pc.curLive := by
  intro s
  have hb : ResBase s := res_invariant true acts
  have ho := MResSt.run_orphans_true {} acts
  have h1 : s.orphanNew = 0 := Nat.le_zero.mp ho.1
  have h2 : s.orphanCur = 0 := Nat.le_zero.mp ho.2.1
  have h3 : s.orphanTimer = 0 := Nat.le_zero.mp ho.2.2
  simp only [MResSt.tasks, MResSt.timers, hb.cur, hb.timer, hb.new, h1, h2, h3]
  omega

/-- **C14, master loop, bookkeeping entries.** After any history `len(self.wakeups)` is at
most the number of DISTINCT components named by the `add_wakeup` / `schedule_interrupt` calls
of the history (not the number of calls), `len(self._pending_interrupts) ≤ len(self.wakeups)`,
so both dicts together hold at most two entries per component that ever asked.  (Holds with
and without cancellation of the loser.) -/
theorem loop_entries_bounded (cancelLoser : Bool) (acts : List MResAct) :
    let s := ({} : MResSt).run cancelLoser acts
    s.st.wake.length ≤ (addedComps acts).length ∧ s.irq.length ≤ s.st.wake.length ∧
    s.entries ≤ 2 * (addedComps acts).length := by
  intro s
  have hb : ResBase s := res_invariant cancelLoser acts
  have h1 : s.everAdded.length ≤ (addedComps acts).length :=
    List.Nodup.length_le_of_subset hb.addedNodup (fun x hx => by
      rcases MResSt.run_everAdded cancelLoser {} acts x hx with h | h
      · simp at h
      · exact h)
  have h2 := hb.wake_le
  have h3 := hb.irq_le
  refine ⟨by omega, h3, ?_⟩
  simp only [MResSt.entries]
  omega

/-- the number of distinct components named in a history is at most the number of components
of any set `comps` that contains them (e.g. the components of the configuration). -/
theorem addedComps_le (acts : List MResAct) (comps : List Comp)
    (h : ∀ c ∈ addedComps acts, c ∈ comps) : (addedComps acts).length ≤ comps.length :=
  List.Nodup.length_le_of_subset (addedComps_nodup acts) h

/-- `add_wakeup` itself: one entry per component (restated from C06). -/
theorem loop_addWakeup_length (w : Wakeups) (c : Comp) (t : SimTime) :
    (addWakeup w c t).length = if (alookup w c).isSome then w.length else w.length + 1 :=
  addWakeup_length w c t

/-! ### without the cancellation the bound fails -/

/-- one pre-emption abandons one sleeping task and its timer: in the code before commit
8a9136c (`cancelLoser = false`) the step "`new` finished first: return" moves the task
`current` and its timer to the abandoned ones. -/
theorem old_loop_preemption_leaks (s s' : MResSt) (cs : List Comp) (w : SimTime)
    (hpc : s.st.pc = .sleeping cs w) (hs : s.step false (.loop .step) = some s') :
    s'.orphanCur = s.orphanCur + 1 ∧ s'.orphanTimer = s.orphanTimer + 1 := by
  simp only [MResSt.step, hpc] at hs
  split at hs
  · simp only [Option.some.injEq] at hs; subst hs; simp [MResSt.loseCurrent]
  · simp at hs

/-- **unbounded growth before the repair.** For every `n`: a callback of `far` at `T`, then
`n` interrupts of another component `dev` stamped `t < T`, each pre-empting the sleep for
`T`.  Before commit 8a9136c the loop is then back at the top of `_do_tick` with `n` sleeping
tasks and `n` timers still pending (≥ `n` live tasks) — no bound independent of the number of
interrupts exists. -/
theorem old_loop_resources_grow (far dev : Comp) (T t : SimTime) (hne : far ≠ dev) (hlt : t < T)
    (n : Nat) :
    let s := ({} : MResSt).run false (preemptHistory far dev T t n)
    s.st.pc = .top ∧ n ≤ s.tasks ∧ n ≤ s.timers := by
  obtain ⟨h1, h2, h3⟩ := preemptHistory_run far dev T t hne hlt n
  refine ⟨h3, ?_, ?_⟩
  · simp only [MResSt.tasks]; omega
  · simp only [MResSt.timers]; omega

/-- the counters are observers: the control state after a history does not depend on whether
the loser is cancelled. -/
theorem res_control_independent (s : MResSt) (acts : List MResAct) :
    (s.run true acts).st = (s.run false acts).st := by
  rw [MResSt.run_erase, MResSt.run_erase]

/-- the same histories on the code as it is: nothing is pending afterwards. -/
theorem new_loop_same_history_clean (far dev : Comp) (T t : SimTime) (hne : far ≠ dev)
    (hlt : t < T) (n : Nat) :
    let s := ({} : MResSt).run true (preemptHistory far dev T t n)
    s.st.pc = .top ∧ s.tasks = 0 ∧ s.timers = 0 := by
  intro s
  have hpc : s.st.pc = .top := by
    show (MResSt.run true {} (preemptHistory far dev T t n)).st.pc = .top
    rw [res_control_independent]
    exact (preemptHistory_run far dev T t hne hlt n).2.2
  exact ⟨hpc, (loop_tasks_bounded (preemptHistory far dev T t n)).2.2
    (by show (MResSt.run true {} _).st.pc.isRacing = false
        rw [show (MResSt.run true {} (preemptHistory far dev T t n)).st.pc = .top from hpc]
        rfl)⟩

/-! ### non-vacuity -/

/-- the bound 2 tasks / 1 timer is attained (inside the race) … -/
example : (({} : MResSt).run true [.loop (.addWakeup "X" 10), .loop .step]).tasks = 2 ∧
    (({} : MResSt).run true [.loop (.addWakeup "X" 10), .loop .step]).timers = 1 := by decide

/-- … and after the tick everything is released, `wakeups` is empty again. -/
example :
    let s := ({} : MResSt).run true
      [.loop (.addWakeup "X" 10), .loop .step, .loop .sleepExpires, .loop .step, .loop .step]
    s.tasks = 0 ∧ s.timers = 0 ∧ s.entries = 0 ∧ s.st.pc = .top := by decide

/-- five pre-emptions: clean with cancellation, five abandoned sleeps without. -/
example : (({} : MResSt).run true (preemptHistory "far" "dev" 1000 1 5)).tasks = 0 ∧
    (({} : MResSt).run false (preemptHistory "far" "dev" 1000 1 5)).timers = 5 ∧
    (({} : MResSt).run false (preemptHistory "far" "dev" 1000 1 5)).tasks = 6 ∧
    (({} : MResSt).run false (preemptHistory "far" "dev" 1000 1 5)).entries = 1 ∧
    addedComps (preemptHistory "far" "dev" 1000 1 5) = ["dev", "far"] := by decide

/-- the hypotheses of `old_loop_resources_grow` are satisfiable. -/
example : ("far" : Comp) ≠ "dev" ∧ (1 : SimTime) < 1000 := by decide

end Tickit
