/-
Non-vacuity of `Props/AnyTransfer*.lean`: every main theorem applied to the concrete valid nested
configuration `S0` of `Props/C08NestedAnyEx.lean` (master = system `s` + device `z`, `s.y → z.i`;
inside `s` the independent devices `a`, `b`, `expose.y ← a.o`; `b` asks at 0 to be called back at 5)
and to executions that do NOT answer first-in first-out (inside `s`: `b`, `a`, `external`, `expose`).
All hypotheses are discharged by closed terms (`rfl`, `decide`, constructor applications).
-/
import TickitModel.Props.AnyTransfer
import TickitModel.Props.AnyTransferC02
import TickitModel.Props.AnyTransferC06
import TickitModel.Props.AnyTransferStim
import TickitModel.Props.C08NestedAnyEx

namespace Tickit.AnyEx

/-! ### concrete executions (with what the hypotheses of the theorems need to know about them) -/

/-- the inner tick of `s` in the initial tick, answer order `b`, `a`, `external`, `expose` -/
theorem inner2 : ∃ r, TickLevelAny S0 orc0 "s" 0 (sysRoots S0 {} "s" 0) [] (sysPre {} "s" 0) r ∧
    runNoPastB orc0 r.1 = true ∧ sysCallAt r.1 "s" 0 = some 5 := by
  refine ⟨_, .mk (L := ⟨"s", sW⟩) rfl rfl
    (.step (i := 2) rfl (.dev (resp := ⟨[("o", 1)], some 5, false⟩) rfl rfl rfl rfl rfl) rfl
    (.step (i := 1) rfl (.dev (resp := ⟨[("o", 7)], none, false⟩) rfl rfl rfl rfl rfl) rfl
    (.step (i := 0) rfl (.external rfl) rfl
    (.step (i := 0) rfl (.expose rfl rfl) rfl
    (.done rfl rfl))))), ?_, ?_⟩
  · rfl
  · rfl

/-- the initial tick of the master with that inner tick (`exec2`), as an execution of the tick … -/
theorem exec2' : ∃ r, TickLevelAny S0 orc0 "" 0 ["z", "s"] [] {} r ∧ runNoPastB orc0 r.1 = true := by
  refine ⟨_, .mk (L := ⟨"", topW⟩) rfl rfl
    (.step (i := 0) rfl
      (.sys rfl rfl rfl
        (.mk (L := ⟨"s", sW⟩) rfl rfl
          (.step (i := 2) rfl (.dev (resp := ⟨[("o", 1)], some 5, false⟩) rfl rfl rfl rfl rfl) rfl
          (.step (i := 1) rfl (.dev (resp := ⟨[("o", 7)], none, false⟩) rfl rfl rfl rfl rfl) rfl
          (.step (i := 0) rfl (.external rfl) rfl
          (.step (i := 0) rfl (.expose rfl rfl) rfl
          (.done rfl rfl))))))) rfl
    (.step (i := 0) rfl (.dev (resp := ⟨[], none, false⟩) rfl rfl rfl rfl rfl) rfl
    (.done rfl rfl))), ?_⟩
  rfl

/-- … and as the initial tick of a run: afterwards the master has `s` pending for 5, which is the
wakeup of `b` inside `s` -/
theorem init2 : ∃ r0, MasterInitialAny S0 orc0 0 0 r0 ∧
    (firstWakeups (r0.1.sim.sched "").wake).2 = some 5 ∧
    (firstWakeups (r0.1.sim.sched "s").wake).2 = some 5 ∧ runNoPastB orc0 r0.1.sim = true := by
  refine ⟨_, .mk (L := ⟨"", topW⟩) rfl
    (.mk (L := ⟨"", topW⟩) rfl rfl
      (.step (i := 0) rfl
        (.sys rfl rfl rfl
          (.mk (L := ⟨"s", sW⟩) rfl rfl
            (.step (i := 2) rfl (.dev (resp := ⟨[("o", 1)], some 5, false⟩) rfl rfl rfl rfl rfl) rfl
            (.step (i := 1) rfl (.dev (resp := ⟨[("o", 7)], none, false⟩) rfl rfl rfl rfl rfl) rfl
            (.step (i := 0) rfl (.external rfl) rfl
            (.step (i := 0) rfl (.expose rfl rfl) rfl
            (.done rfl rfl))))))) rfl
      (.step (i := 0) rfl (.dev (resp := ⟨[], none, false⟩) rfl rfl rfl rfl rfl) rfl
      (.done rfl rfl)))), ?_, ?_, ?_⟩
  · rfl
  · rfl
  · rfl

/-- the two-tick any-order run `run2` (ticks at 0 and 5), with `RunNoPast` checked on its final state -/
theorem run2' : ∃ r0 r, MasterInitialAny S0 orc0 0 0 r0 ∧
    MasterRunAny S0 orc0 10 ⟨1, 1⟩ 5 1 r0.1 [] [r0.2] r ∧ r.2.map (·.time) = [0, 5] ∧
    runNoPastB orc0 r.1.sim = true := by
  refine ⟨_, _, .mk (L := ⟨"", topW⟩) rfl
    (.mk (L := ⟨"", topW⟩) rfl rfl
      (.step (i := 0) rfl
        (.sys rfl rfl rfl
          (.mk (L := ⟨"s", sW⟩) rfl rfl
            (.step (i := 2) rfl (.dev (resp := ⟨[("o", 1)], some 5, false⟩) rfl rfl rfl rfl rfl) rfl
            (.step (i := 1) rfl (.dev (resp := ⟨[("o", 7)], none, false⟩) rfl rfl rfl rfl rfl) rfl
            (.step (i := 0) rfl (.external rfl) rfl
            (.step (i := 0) rfl (.expose rfl rfl) rfl
            (.done rfl rfl))))))) rfl
      (.step (i := 0) rfl (.dev (resp := ⟨[], none, false⟩) rfl rfl rfl rfl rfl) rfl
      (.done rfl rfl)))),
    .tick (comps := ["s"]) (w := 5) rfl rfl
      (.mk (L := ⟨"", topW⟩) rfl rfl
        (.step (i := 0) rfl
          (.sys rfl rfl rfl
            (.mk (L := ⟨"s", sW⟩) rfl rfl
              (.step (i := 1) rfl (.external rfl) rfl
              (.step (i := 0) rfl (.dev (resp := ⟨[("o", 2)], none, false⟩) rfl rfl rfl rfl rfl) rfl
              (.done rfl rfl))))) rfl
        (.step (i := 0) rfl .skip rfl
        (.done rfl rfl))))
      .ticksDone, ?_, ?_⟩
  · rfl
  · rfl

/-- a run with an external stimulus: after the initial tick, at real time 3 (= simulation time 3 at
speed 1) device `b` inside `s` raises an interrupt; it is queued in `s`'s scheduler, the master
stamps `s` with 3, and the tick at 3 updates `b` (inside `s`: `external` answered before `b`). -/
theorem runStim : ∃ r0 r, MasterInitialAny S0 orc0 0 0 r0 ∧
    MasterRunAny S0 orc0 10 ⟨1, 1⟩ 5 1 r0.1 [⟨3, "b"⟩] [r0.2] r ∧ r.2.map (·.time) = [0, 3] ∧
    runNoPastB orc0 r.1.sim = true := by
  refine ⟨_, _, .mk (L := ⟨"", topW⟩) rfl
    (.mk (L := ⟨"", topW⟩) rfl rfl
      (.step (i := 0) rfl
        (.sys rfl rfl rfl
          (.mk (L := ⟨"s", sW⟩) rfl rfl
            (.step (i := 2) rfl (.dev (resp := ⟨[("o", 1)], some 5, false⟩) rfl rfl rfl rfl rfl) rfl
            (.step (i := 1) rfl (.dev (resp := ⟨[("o", 7)], none, false⟩) rfl rfl rfl rfl rfl) rfl
            (.step (i := 0) rfl (.external rfl) rfl
            (.step (i := 0) rfl (.expose rfl rfl) rfl
            (.done rfl rfl))))))) rfl
      (.step (i := 0) rfl (.dev (resp := ⟨[], none, false⟩) rfl rfl rfl rfl rfl) rfl
      (.done rfl rfl)))),
    .stim (st := ⟨3, "b"⟩) (rest := []) rfl
      (.tick (comps := ["s"]) (w := 3) rfl rfl
        (.mk (L := ⟨"", topW⟩) rfl rfl
          (.step (i := 0) rfl
            (.sys rfl rfl rfl
              (.mk (L := ⟨"s", sW⟩) rfl rfl
                (.step (i := 1) rfl (.external rfl) rfl
                (.step (i := 0) rfl (.dev (resp := ⟨[("o", 2)], none, false⟩) rfl rfl rfl rfl rfl) rfl
                (.done rfl rfl))))) rfl
          (.step (i := 0) rfl .skip rfl
          (.done rfl rfl))))
        .ticksDone), ?_, ?_⟩
  · rfl
  · rfl

theorem isDevice_a : S0.isDevice "a" := ⟨rfl, rfl⟩
theorem isDevice_b : S0.isDevice "b" := ⟨rfl, rfl⟩

/-- every component of `S0` lies at most 10 (in fact 2) scheduler levels below the master -/
theorem S0_depth : S0.DepthLe 10 := by
  intro c k h
  have hpar : ∀ x p, alookup S0.parent x = some p → p = "" ∨ p = "s" := by
    intro x p hx
    have hm := mem_of_alookup_eq_some hx
    simp only [S0, List.mem_cons, Prod.mk.injEq, List.not_mem_nil, or_false] at hm
    rcases hm with ⟨_, rfl⟩ | ⟨_, rfl⟩ | ⟨_, rfl⟩ | ⟨_, rfl⟩ <;> simp
  cases h with
  | direct _ => omega
  | step hp hne h' =>
    cases h' with
    | direct _ => omega
    | step hp' hne' _ =>
      exfalso
      rcases hpar _ _ hp with rfl | rfl
      · exact hne rfl
      · have : alookup S0.parent "s" = some "" := rfl
        rw [this] at hp'
        exact hne' (Option.some.inj hp').symm

/-! ### C05 -/

/-- C05 applied: after the (non-FIFO) initial tick `a`, deep inside `s`, has exactly one observation,
at time 0, and `s`'s scheduler has done its initial tick. -/
example : ∃ r0, MasterInitialAny S0 orc0 0 0 r0 ∧ (∃ ins, r0.1.sim.obsOf "a" = [(0, ins)]) ∧
    r0.1.sim.updates "b" = 1 ∧ (r0.1.sim.sched "s").firstDone = true := by
  obtain ⟨r0, h, _⟩ := init2
  obtain ⟨c1, c2, _, c4, _⟩ := any_order_initial_tick_complete S0 S0_valid orc0 0 0 r0 h
  exact ⟨r0, h, c1 "a" isDevice_a, c2 "b" isDevice_b, c4 "s" rfl⟩

/-- one tick, one time: every observation the non-FIFO execution appends is stamped 0 -/
example : ∃ r, TickLevelAny S0 orc0 "" 0 ["z", "s"] [] {} r ∧
    ∃ new, r.1.obs = ({} : SimSt).obs ++ new ∧ ∀ o ∈ new, o.time = 0 ∧ S0.Below "" o.comp := by
  obtain ⟨r, h, _⟩ := exec2'
  exact ⟨r, h, (any_order_tick_one_time S0 S0_valid orc0 "" 0 _ [] (by simp) {} r h).2⟩

/-! ### C09 -/

/-- C09 applied: the flattening of `S0` (resolution fuel 20) has an any-order run of the same length
as `run2`, and EVERY such run has the tick times 0, 5 and gives every device the observations of
`run2`. -/
example : ∃ r0 r, MasterInitialAny S0 orc0 0 0 r0 ∧
    MasterRunAny S0 orc0 10 ⟨1, 1⟩ 5 1 r0.1 [] [r0.2] r ∧
    (∃ fuel2 q0 q, MasterInitialAny (S0.flatten 20) orc0 0 0 q0 ∧
      MasterRunAny (S0.flatten 20) orc0 fuel2 ⟨1, 1⟩ 5 1 q0.1 [] [q0.2] q) ∧
    ∀ fuel2 q0 q, MasterInitialAny (S0.flatten 20) orc0 0 0 q0 →
      MasterRunAny (S0.flatten 20) orc0 fuel2 ⟨1, 1⟩ 5 1 q0.1 [] [q0.2] q →
      q.2.map (·.time) = [0, 5] ∧ ∀ d, ObsEq (r.1.sim.obsOf d) (q.1.sim.obsOf d) := by
  obtain ⟨r0, r, h1, h2, ht, _⟩ := run2'
  have hr : S0.ResolveStable 20 := S0_valid.resolveStable (by decide)
  refine ⟨r0, r, h1, h2,
    any_order_flatten_run_exists S0 S0_valid orc0 10 20 hr 0 0 ⟨1, 1⟩ 5 1 r0 r h1 h2, ?_⟩
  intro fuel2 q0 q g1 g2
  obtain ⟨e1, _, e3⟩ := any_order_nesting_transparent_run_fuel S0 S0_valid orc0 10 fuel2 20 (by decide)
    0 0 ⟨1, 1⟩ 5 1 r0 q0 r q h1 h2 g1 g2
  exact ⟨by rw [← e1, ht], e3⟩

/-! ### C04 -/

/-- C04 applied to the any-order run `run2` (hypothesis `RunNoPast` checked by `runNoPastB`) -/
example : ∃ r0 r, MasterInitialAny S0 orc0 0 0 r0 ∧
    MasterRunAny S0 orc0 10 ⟨1, 1⟩ 5 1 r0.1 [] [r0.2] r ∧ RunNoPast orc0 r.1.sim ∧
    (r.2.map (·.time)).Pairwise (· ≤ ·) ∧ r.1.sim.Good := by
  obtain ⟨r0, r, h1, h2, _, hnp⟩ := run2'
  have hnp' := runNoPastB_implies orc0 _ hnp
  have := any_order_wake_not_before S0 S0_valid orc0 10 0 0 ⟨1, 1⟩ 5 1 r0 r h1 h2 hnp'
  exact ⟨r0, r, h1, h2, hnp', this.2.2.2, this.1⟩

/-- C04 with an external stimulus applied to `runStim` (ticks at 0 and 3) -/
example : ∃ r0 r, MasterInitialAny S0 orc0 0 0 r0 ∧
    MasterRunAny S0 orc0 10 ⟨1, 1⟩ 5 1 r0.1 [⟨3, "b"⟩] [r0.2] r ∧ r.2.map (·.time) = [0, 3] ∧
    (r.2.map (·.time)).Pairwise (· ≤ ·) := by
  obtain ⟨r0, r, h1, h2, ht, hnp⟩ := runStim
  exact ⟨r0, r, h1, h2, ht, any_order_time_monotone_stims S0 S0_valid orc0 10 S0_depth 0 0 ⟨1, 1⟩ 5 1 _
    r0 r h1 h2 (runNoPastB_implies orc0 _ hnp)⟩

/-- C04 inside a tick: the non-FIFO execution of the master's initial tick adds no wakeup before 0 -/
example : ∃ r, TickLevelAny S0 orc0 "" 0 ["z", "s"] [] {} r ∧ r.1.Good ∧
    ∀ l e, e ∈ (r.1.sched l).wake → e ∈ (({} : SimSt).sched l).wake ∨ (0 : SimTime) ≤ e.2 := by
  obtain ⟨r, h, hnp⟩ := exec2'
  obtain ⟨g1, g2, _⟩ := any_order_system_callAt_not_past S0 S0_valid orc0 "" 0 _ [] (by simp) {} r h
    SimSt.good_empty (runNoPastB_implies orc0 _ hnp)
  exact ⟨r, h, g1, g2⟩

/-- … and the `call_at` reported by `s` after its (non-FIFO) inner tick, 5, is not before the tick -/
example : ∃ r, TickLevelAny S0 orc0 "s" 0 (sysRoots S0 {} "s" 0) [] (sysPre {} "s" 0) r ∧
    sysCallAt r.1 "s" 0 = some 5 ∧ ∀ w, sysCallAt r.1 "s" 0 = some w → (0 : SimTime) ≤ w := by
  obtain ⟨r, h, hnp, hca⟩ := inner2
  exact ⟨r, h, hca, (any_order_nested_tick_callAt_not_past S0 S0_valid orc0 "s" 0 _ [] (by simp) {} r
    SimSt.good_empty h (runNoPastB_implies orc0 _ hnp)).2⟩

/-! ### C06 -/

/-- C06 applied to the answer of the system component `s` in the initial tick: what `s` reports, 5,
is the minimum of its inner wakeups. -/
example : ∃ st2 o ch ca, AnswerAny S0 orc0 ⟨"", topW⟩ [] {} [] (.input "s" 0 []) (st2, o, ch, ca) ∧
    ca = some 5 ∧ (∃ x, alookup (st2.sched "s").wake x = some 5) ∧
    ∀ x t', alookup (st2.sched "s").wake x = some t' → (5 : SimTime) ≤ t' := by
  obtain ⟨⟨st2, out⟩, h, _, hca⟩ := inner2
  have ha : AnswerAny S0 orc0 ⟨"", topW⟩ [] {} [] (.input "s" 0 []) (st2, [], out, sysCallAt st2 "s" 0) :=
    .sys rfl rfl rfl h
  obtain ⟨_, hq, hmin⟩ := any_order_system_callback_is_min S0 S0_valid orc0 ⟨"", topW⟩ [] {}
    SimSt.wakeWF_empty [] "s" 0 [] rfl rfl rfl st2 [] out _ ha
  have hint : (st2.sched "s").interrupts = [] := by
    cases hi : (st2.sched "s").interrupts with
    | nil => rfl
    | cons x xs =>
      have := hq (by rw [hi]; simp)
      simp only at hca
      rw [hca] at this
      cases this
  exact ⟨st2, [], out, _, ha, hca, (hmin hint).1 5 hca⟩

/-- run-level C06 applied after the non-FIFO initial tick (a run of zero callback ticks): the
bookkeeping invariant holds, and the master's next tick time, 5, is a device's own pending callback
(`b` in the scheduler of `s`), the earliest one. -/
example : ∃ r0, MasterInitialAny S0 orc0 0 0 r0 ∧ SchedOK S0 r0.1.sim ∧
    (∃ d P, S0.isDevice d ∧ alookup S0.parent d = some P ∧ alookup (r0.1.sim.sched P).wake d = some 5) ∧
    ∀ x, x ∈ sysRoots S0 r0.1.sim "s" 5 ↔ x ∈ (r0.1.sim.sched "s").interrupts ∨
      alookup (r0.1.sim.sched "s").wake x = some 5 ∨ x = pseudoExternal ∨
        ((r0.1.sim.sched "s").firstDone = false ∧ ∃ Lc, S0.level "s" = some Lc ∧ x ∈ Lc.wiring.components) := by
  obtain ⟨r0, h, hw, hws, _⟩ := init2
  have hrun : MasterRunAny S0 orc0 10 ⟨1, 1⟩ 5 0 r0.1 [] [r0.2] (r0.1, [r0.2]) := .ticksDone
  refine ⟨r0, h, any_order_run_schedOK S0 S0_valid orc0 10 0 0 ⟨1, 1⟩ 5 0 r0 _ h hrun, ?_, ?_⟩
  · exact ((any_order_next_tick_is_min_device_callback S0 S0_valid orc0 10 0 0 ⟨1, 1⟩ 5 0 r0 _ h hrun).1
      5 hw).1
  · exact any_order_nestedDue_exact S0 r0.1.sim
      (any_order_run_wakeWF S0 S0_valid orc0 10 0 0 ⟨1, 1⟩ 5 0 [] r0 _ h hrun) "s" 5 hws

/-- the strengthened refinement and R4 applied to `run2`: its latest tick, at 5, was asked for by a
component whose recorded response says `call_at = 5`, which had been updated at tick time 0 and is
updated at 5. -/
example : ∃ r0 r, MasterInitialAny S0 orc0 0 0 r0 ∧
    MasterRunAny S0 orc0 10 ⟨1, 1⟩ 5 1 r0.1 [] [r0.2] r ∧
    ∃ (c : Comp) (j : Nat) (resp : DevResp), (agetD orc0 c [])[j]? = some resp ∧ resp.callAt = some 5 ∧
      (∃ ins, (0, ins) ∈ r.1.sim.obsOf c) ∧ ∃ init g, r.1.sim.obsOf c = init ++ [(5, g)] := by
  obtain ⟨r0, r, h1, h2, ht, _⟩ := run2'
  obtain ⟨x, y, hxy⟩ : ∃ x y, r.2 = [x] ++ [y] := by
    have hlen : r.2.length = 2 := by
      have := congrArg List.length ht
      simpa using this
    cases h : r.2 with
    | nil => rw [h] at hlen; cases hlen
    | cons x l =>
      cases l with
      | nil => rw [h] at hlen; cases hlen
      | cons y l' =>
        cases l' with
        | nil => exact ⟨x, y, rfl⟩
        | cons z l'' => rw [h] at hlen; simp at hlen
  have hx : x.time = 0 ∧ y.time = 5 := by
    rw [hxy] at ht
    simpa using ht
  obtain ⟨c, j, resp, e1, e2, ⟨t_req, ins, e3, e4⟩, e5⟩ := any_order_last_tick_requested S0 S0_valid orc0
    10 0 0 ⟨1, 1⟩ 5 1 r0 r h1 h2 [x] y hxy (by simp)
  rw [hx.2] at e2 e5
  have : t_req = 0 := by simpa [hx.1] using e4
  subst this
  exact ⟨r0, r, h1, h2, c, j, resp, e1, e2, ⟨ins, e3⟩, e5⟩

/-! ### C02 -/

/-- C02 applied: `a` lives INSIDE the system `s`; in the non-FIFO execution it is handed a dispatch
(through the `Input` of `s`), hence in the other execution (`exec1`) it is handed an equivalent one;
and the dispatches of the master level obey the C02 characterisation. -/
example : ∃ r r', TickLevelAny S0 orc0 "" 0 ["z", "s"] [] {} r ∧
    TickLevelAny S0 orc0 "" 0 ["z", "s"] [] {} r' ∧
    r.1.obs.map (·.comp) ≠ r'.1.obs.map (·.comp) ∧
    ∃ d d', Recv S0 orc0 "" 0 ["z", "s"] [] {} r "a" d ∧ Recv S0 orc0 "" 0 ["z", "s"] [] {} r' "a" d' ∧
      Dispatch.Equiv d d' ∧ d.time = 0 := by
  obtain ⟨r, h2, ho2, _⟩ := exec2
  obtain ⟨r', h1, ho1, _⟩ := exec1
  obtain ⟨d, hd⟩ := Recv.inside_of_root S0_valid (by simp) h2 (L := ⟨"", topW⟩) rfl (s := "s") (by decide)
    rfl rfl rfl (Ls := ⟨"s", sW⟩) rfl (x := "a") (by decide)
  obtain ⟨d', hd', he⟩ := any_order_same_dispatch S0 S0_valid orc0 "" 0 _ _ [] [] {} {} r r'
    (fun _ => Iff.rfl) (mapEq_refl _) (by simp) (by simp) (.refl SimSt.wakeWF_empty) h1 "a" d hd
  exact ⟨r, r', h2, h1, by rw [ho1, ho2]; decide, d, d', hd, hd', he,
    ((any_order_dispatch_time S0 S0_valid orc0 "" 0 _ [] (by simp) {} r).1 "a" d hd).1⟩

/-- the C02 characterisation on the trace of the master level of the non-FIFO execution: `s` and `z`
are roots, so both get an `Input`. -/
example : ∃ r L tr recs, LevelExec S0 orc0 "" 0 ["z", "s"] [] {} r L tr recs ∧
    (∃ ins, dispatchOf tr "s" = some (.input "s" 0 ins)) := by
  obtain ⟨r, h2, _⟩ := exec2
  obtain ⟨L, tr, recs, he⟩ := (any_order_trace_exists S0 orc0 "" 0 _ [] {} r).1 h2
  obtain ⟨k1, k2, _⟩ := any_order_input_iff_root_or_changed S0 S0_valid orc0 "" 0 _ [] (by simp) {} r L tr
    recs he
  have hL : L = ⟨"", topW⟩ := by
    obtain ⟨_, _, hl, _⟩ := he
    exact (Option.some.inj hl).symm
  subst hL
  refine ⟨r, _, tr, recs, he, ?_⟩
  cases hd : dispatchOf tr "s" with
  | none => exact absurd (by decide) ((k1 "s").1 hd)
  | some d =>
    obtain ⟨ins, hins⟩ := ((k2 "s" d hd).1).2 (Or.inl (by decide))
    exact ⟨ins, by rw [hins]⟩

/-- C02 at observation level: in both executions `b` is updated once, with the same inputs -/
example : ∃ r r', TickLevelAny S0 orc0 "" 0 ["z", "s"] [] {} r ∧
    TickLevelAny S0 orc0 "" 0 ["z", "s"] [] {} r' ∧
    ((r.1.obsOf "b" = ({} : SimSt).obsOf "b" ∧ r'.1.obsOf "b" = ({} : SimSt).obsOf "b") ∨
      ∃ m m', r.1.obsOf "b" = ({} : SimSt).obsOf "b" ++ [(0, m)] ∧
        r'.1.obsOf "b" = ({} : SimSt).obsOf "b" ++ [(0, m')] ∧ MapEq m m') := by
  obtain ⟨r, h2, _⟩ := exec2
  obtain ⟨r', h1, _⟩ := exec1
  exact ⟨r, r', h2, h1, any_order_same_updates S0 S0_valid orc0 "" 0 _ _ [] [] {} {} r r'
    (fun _ => Iff.rfl) (mapEq_refl _) (by simp) (by simp) (.refl SimSt.wakeWF_empty) h2 h1 "b"⟩

end Tickit.AnyEx
