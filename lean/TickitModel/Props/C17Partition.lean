/-
C17 / C05 — a configuration DIVIDED over several simulations (`build_simulation(..., components_to_run=...)`,
`tickit components NAME...`): the selections of a division host every component exactly once.

`selectComponents` is the model of the selection in `build_simulation`; the scheduler's wiring does not take the
selection as an argument at all (`wiring_from_configs_exact` is about the whole configuration) - that the code
agrees is what the divided runs of C05 / C13 / C17 and the configuration-file path of the generic checks compare.
-/
import TickitModel.Core.Config
import TickitModel.Props.C17

namespace Tickit

/-- a request made of available names is served, with exactly the requested components, in configuration order -/
theorem select_subset (available req : List Comp) (h : ∀ c ∈ req, c ∈ available) :
    selectComponents available (some req) = some (available.filter (· ∈ req)) := by
  simp only [selectComponents]
  have : (req.all fun x => decide (x ∈ available)) = true := by
    simp only [List.all_eq_true, decide_eq_true_eq]; exact h
  simp [this]

/-- dividing a configuration in two: what one simulation hosts and what the other hosts are disjoint and together are
the whole configuration (as a permutation: nothing lost, nothing doubled) -/
theorem two_part_division (available req : List Comp) (h : ∀ c ∈ req, c ∈ available) :
    ∃ s1 s2, selectComponents available (some req) = some s1 ∧
      selectComponents available (some (available.filter (fun c => decide (c ∉ req)))) = some s2 ∧
      (s1 ++ s2).Perm available ∧ (∀ c, c ∈ s1 → c ∉ s2) := by
  refine ⟨available.filter (· ∈ req), available.filter (fun c => decide (c ∉ req)), select_subset _ _ h, ?_, ?_, ?_⟩
  · rw [select_subset]
    · congr 1
      apply List.filter_congr
      intro c hc
      simp [List.mem_filter, hc]
    · intro c hc
      exact (List.mem_filter.mp hc).1
  · have := List.filter_append_perm (fun c => decide (c ∈ req)) available
    simpa using this
  · intro c h1 h2
    simp only [List.mem_filter, decide_eq_true_eq] at h1 h2
    exact h2.2 h1.2

/-- any division: if every component is named by exactly one of the requests, every component is hosted by exactly one
of the selections -/
theorem division_hosts_once (available : List Comp) (reqs : List (List Comp))
    (hsub : ∀ r ∈ reqs, ∀ c ∈ r, c ∈ available) (c : Comp) (hc : c ∈ available) :
    ((reqs.map (fun r => available.filter (· ∈ r))).filter (fun s => decide (c ∈ s))).length
      = (reqs.filter (fun r => decide (c ∈ r))).length := by
  induction reqs with
  | nil => simp
  | cons r rs ih =>
    have ih' := ih (fun r' hr' => hsub r' (List.mem_cons_of_mem _ hr'))
    simp only [List.map_cons, List.filter_cons]
    by_cases hr : c ∈ r
    · simp [hr, hc, List.mem_filter, ih']
    · simp [hr, List.mem_filter, ih']

/-- non-vacuity -/
example : selectComponents ["src", "sys", "sink"] (some ["sink", "src"]) = some ["src", "sink"] ∧
    selectComponents ["src", "sys", "sink"] (some ["sys"]) = some ["sys"] ∧
    selectComponents ["src", "sys", "sink"] (some ["ghost"]) = none := by decide

end Tickit
