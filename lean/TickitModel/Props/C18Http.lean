/-
C18, HTTP path — a request reaches exactly the matched endpoint's own handler, once; the interrupt
is raised iff that endpoint is declared interrupting, after the effect and before the reply; an
unmatched request runs nothing.  (Model: Core/Http.lean.  aiohttp's route resolution is a
parameter: the trace statements are proved for every resolver that returns only registered,
accepting routes, and instantiated for registration-order resolution `httpRequest` and for the
indexed resolution of the installed aiohttp 3.14.3 `httpRequestIdx`.)
-/
import TickitModel.Lemmas.HttpPermLemmas

namespace Tickit
namespace Http

/-! ### which endpoint serves a request -/

/-- `firstMatch` is the FIRST endpoint, in registration order, whose method serves the request's
method and whose path template matches the whole path; `a` are the `{name}` segments it captures. -/
theorem firstMatch_spec (eps : List Endpoint) (m : Method) (p : Path) (e : Endpoint) (a : Args) :
    firstMatch eps m p = some (e, a) ↔
      ∃ i : Nat, eps[i]? = some e ∧ e.accepts m p = some a ∧
        ∀ j : Nat, j < i → ∀ e' : Endpoint, eps[j]? = some e' → e'.accepts m p = none := by
  unfold firstMatch
  rw [findSome?_eq_some_iff_idx]
  constructor
  · rintro ⟨i, e0, hi, hf, hall⟩
    cases hacc : e0.accepts m p with
    | none => simp [hacc] at hf
    | some a0 =>
      simp [hacc] at hf
      obtain ⟨h1, h2⟩ := hf
      subst h1 h2
      exact ⟨i, hi, hacc, fun j hj e' he' => by simpa using hall j hj e' he'⟩
  · rintro ⟨i, hi, hacc, hall⟩
    exact ⟨i, e, hi, by simp [hacc], fun j hj e' he' => by simp [hall j hj e' he']⟩

theorem firstMatch_none_iff (eps : List Endpoint) (m : Method) (p : Path) :
    firstMatch eps m p = none ↔ ∀ e ∈ eps, e.accepts m p = none := by
  unfold firstMatch
  rw [List.findSome?_eq_none_iff]
  constructor
  · intro h e he; simpa using h e he
  · intro h e he; simp [h e he]

/-- registration-order resolution over the route definitions that `create_route_definitions`
builds picks the route of the first matching endpoint. -/
theorem resolveFirst_createRouteDefinitions (eps : List Endpoint) (m : Method) (p : Path) :
    resolveFirst (createRouteDefinitions eps) m p =
      (firstMatch eps m p).map (fun ea => (ea.1.define, ea.2)) := by
  unfold resolveFirst firstMatch createRouteDefinitions
  rw [List.findSome?_map]
  induction eps with
  | nil => rfl
  | cons e t ih =>
    simp only [List.findSome?_cons, Function.comp]
    rw [Endpoint.define_accepts]
    cases e.accepts m p with
    | none => simpa using ih
    | some a => simp

/-! ### the trace of one request -/

/-- **matched request.**  For every endpoint table and every request: if `e` is the first
endpoint that matches, the trace is exactly: `e`'s own adapter method runs once with the captured
path variables, then — iff `e` is declared interrupting — `raise_interrupt()` is awaited, then the
response that this method returned is sent. -/
theorem httpRequest_matched (eps : List Endpoint) (m : Method) (p : Path) (e : Endpoint) (a : Args)
    (h : firstMatch eps m p = some (e, a)) :
    httpRequest eps m p =
      [.effect e.handler a] ++ (if e.interrupt then [.interrupt] else []) ++ [.reply e.handler] := by
  have hr : resolveFirst (createRouteDefinitions eps) m p = some (e.define, a) := by
    rw [resolveFirst_createRouteDefinitions, h]; rfl
  obtain ⟨e', _, hdef, _, htr⟩ := httpRequestWith_some resolveFirst_sound eps m p _ _ hr
  unfold httpRequest
  rw [htr]
  have h1 : e'.handler = e.handler := by
    rw [← e'.wrapped_target, ← e.wrapped_target]
    exact (congrArg (fun r => r.handler.target) hdef).symm
  have h2 : e'.interrupt = e.interrupt := by
    have hw : e.wrapped = e'.wrapped := congrArg RouteDef.handler hdef
    unfold Endpoint.wrapped at hw
    cases hi : e.interrupt <;> cases hi' : e'.interrupt <;> simp [hi, hi'] at hw ⊢
  simp [Endpoint.trace, h1, h2]

/-- **unmatched request.**  No endpoint matches ⇒ the trace is a single error response
(405 if some template matches the path under another method, else 404): no adapter method runs,
no interrupt is raised. -/
theorem httpRequest_unmatched (eps : List Endpoint) (m : Method) (p : Path)
    (h : ∀ e ∈ eps, e.accepts m p = none) :
    httpRequest eps m p =
      [.error (if pathKnown (createRouteDefinitions eps) p then 405 else 404)] := by
  have hr : resolveFirst (createRouteDefinitions eps) m p = none := by
    rw [resolveFirst_createRouteDefinitions, (firstMatch_none_iff eps m p).mpr h]; rfl
  exact httpRequestWith_none eps m p hr

def Event.isEffect : Event → Bool
  | .effect _ _ => true
  | _ => false

/-- **exactly once.**  The number of adapter-method runs caused by a request is 1 if some endpoint
matches and 0 otherwise, and the number of interrupts is 1 if the first matching endpoint is
declared interrupting and 0 otherwise. -/
theorem httpRequest_counts (eps : List Endpoint) (m : Method) (p : Path) :
    ((httpRequest eps m p).filter Event.isEffect).length =
        (if (firstMatch eps m p).isSome then 1 else 0) ∧
    (httpRequest eps m p).count .interrupt =
        (match firstMatch eps m p with
         | some (e, _) => if e.interrupt then 1 else 0
         | none => 0) := by
  cases h : firstMatch eps m p with
  | none =>
    rw [httpRequest_unmatched eps m p ((firstMatch_none_iff eps m p).mp h)]
    simp [Event.isEffect]
  | some ea =>
    obtain ⟨e, a⟩ := ea
    rw [httpRequest_matched eps m p e a h]
    cases hi : e.interrupt <;> simp [Event.isEffect, List.filter_cons, hi]

/-- **interrupt iff declared.**  An interrupt occurs in the trace of a request iff the first
matching endpoint is declared interrupting. -/
theorem httpRequest_interrupt_iff (eps : List Endpoint) (m : Method) (p : Path) :
    Event.interrupt ∈ httpRequest eps m p ↔
      ∃ e a, firstMatch eps m p = some (e, a) ∧ e.interrupt = true := by
  cases h : firstMatch eps m p with
  | none =>
    rw [httpRequest_unmatched eps m p ((firstMatch_none_iff eps m p).mp h)]
    simp
  | some ea =>
    obtain ⟨e, a⟩ := ea
    rw [httpRequest_matched eps m p e a h]
    cases hi : e.interrupt <;> simp [hi]

/-- **interrupt placement.**  Whenever an interrupt occurs, the trace is exactly
`[effect, interrupt, reply]`: one interrupt, strictly after the effect of the matched endpoint's
own method and strictly before its reply. -/
theorem httpRequest_interrupt_between (eps : List Endpoint) (m : Method) (p : Path)
    (h : Event.interrupt ∈ httpRequest eps m p) :
    ∃ e a, firstMatch eps m p = some (e, a) ∧
      httpRequest eps m p = [.effect e.handler a, .interrupt, .reply e.handler] := by
  obtain ⟨e, a, hfm, hi⟩ := (httpRequest_interrupt_iff eps m p).mp h
  exact ⟨e, a, hfm, by rw [httpRequest_matched eps m p e a hfm]; simp [hi]⟩

/-- **no match ⇒ nothing happens**, stated on the trace: if no endpoint accepts the request then
the trace contains no effect and no interrupt. -/
theorem httpRequest_unmatched_quiet (eps : List Endpoint) (m : Method) (p : Path)
    (h : ∀ e ∈ eps, e.accepts m p = none) :
    (∀ ev ∈ httpRequest eps m p, ev.isEffect = false) ∧ Event.interrupt ∉ httpRequest eps m p := by
  rw [httpRequest_unmatched eps m p h]
  simp [Event.isEffect]

/-- **aiohttp as a parameter.**  Whatever rule the router uses, as long as it returns only
registered routes that accept the request (`Sound`) and reports no route only when none accepts
(`Complete`): the trace is either the full, correctly ordered trace of ONE endpoint of the table
that accepts the request, or — when no endpoint accepts it — a single error response. -/
theorem httpRequestWith_shape {R : Resolver} (hs : R.Sound) (hc : R.Complete)
    (eps : List Endpoint) (m : Method) (p : Path) :
    (∃ e ∈ eps, ∃ a, e.accepts m p = some a ∧
        httpRequestWith R eps m p =
          [.effect e.handler a] ++ (if e.interrupt then [.interrupt] else []) ++ [.reply e.handler]) ∨
    ((∀ e ∈ eps, e.accepts m p = none) ∧ ∃ s, httpRequestWith R eps m p = [.error s]) := by
  cases h : R (createRouteDefinitions eps) m p with
  | none =>
    right
    exact ⟨complete_none hc eps m p h, _, httpRequestWith_none eps m p h⟩
  | some ra =>
    left
    obtain ⟨r, a⟩ := ra
    obtain ⟨e, he, _, hacc, htr⟩ := httpRequestWith_some hs eps m p r a h
    exact ⟨e, he, a, hacc, htr⟩

/-! ### each wrapper calls its own endpoint's handler -/

/-- **own handler (what a late-binding closure would break).**  The `i`-th route definition that
`create_route_definitions` yields carries the method and path of the `i`-th endpoint and a
callable that invokes THAT endpoint's adapter method — for every position of every table, however
many interrupting endpoints there are: awaiting it runs the `i`-th endpoint's method once, raises the
interrupt afterwards iff the `i`-th endpoint is declared interrupting, and returns that method's
response. -/
theorem route_calls_own_handler (eps : List Endpoint) (i : Nat) (e : Endpoint)
    (h : eps[i]? = some e) :
    ∃ r, (createRouteDefinitions eps)[i]? = some r ∧ r.method = e.method ∧ r.path = e.path ∧
      r.handler.target = e.handler ∧
      ∀ a, r.handler.call a =
        ([.effect e.handler a] ++ (if e.interrupt then [.interrupt] else []), e.handler) := by
  refine ⟨e.define, by rw [createRouteDefinitions_getElem?, h]; rfl, rfl, rfl, e.wrapped_target, ?_⟩
  intro a
  exact e.wrapped_call a

/-- the same on the trace: every effect and every reply event of a request names the handler stored
with the first matching endpoint — never another endpoint's. -/
theorem httpRequest_handler_is_matched (eps : List Endpoint) (m : Method) (p : Path) (e : Endpoint)
    (a : Args) (h : firstMatch eps m p = some (e, a)) :
    (∀ h' a', Event.effect h' a' ∈ httpRequest eps m p → h' = e.handler ∧ a' = a) ∧
    (∀ h', Event.reply h' ∈ httpRequest eps m p → h' = e.handler) := by
  rw [httpRequest_matched eps m p e a h]
  cases e.interrupt <;> simp

/-- three interrupting endpoints (and two that are not), as in the IoBox-like valve adapter used
by the seeded change C18-m6. -/
def exValve : List Endpoint :=
  [ ⟨[.lit "close"], "PUT", true, 10⟩,
    ⟨[.lit "open"], "PUT", true, 11⟩,
    ⟨[.lit "state"], "GET", false, 12⟩,
    ⟨[.lit "vent"], "PUT", true, 13⟩,
    ⟨[.lit "zero", .var "ch"], "POST", false, 14⟩ ]

example : startsOk exValve = true ∧ nonOverlapping exValve = true := by decide

/-- every one of the three interrupting endpoints runs its own method and replies with its own
response; the non-interrupting ones raise no interrupt; an unknown path or method runs nothing. -/
example :
    httpRequest exValve "PUT" ["close"] = [.effect 10 [], .interrupt, .reply 10] ∧
    httpRequest exValve "PUT" ["open"] = [.effect 11 [], .interrupt, .reply 11] ∧
    httpRequest exValve "PUT" ["vent"] = [.effect 13 [], .interrupt, .reply 13] ∧
    httpRequest exValve "GET" ["state"] = [.effect 12 [], .reply 12] ∧
    httpRequest exValve "HEAD" ["state"] = [.effect 12 [], .reply 12] ∧
    httpRequest exValve "POST" ["zero", "3"] = [.effect 14 [("ch", "3")], .reply 14] ∧
    httpRequest exValve "GET" ["open"] = [.error 405] ∧
    httpRequest exValve "PUT" ["shut"] = [.error 404] := by decide

/-- the late-binding variant (seeded change C18-m6: the wrapper is defined inside the loop and
refers to a variable of the enclosing generator frame): every interrupting endpoint's wrapper
calls the method of the LAST interrupting endpoint.  NOT the code; a counter-model. -/
def createRouteDefinitionsLateBound (eps : List Endpoint) : List RouteDef :=
  let last := ((eps.filter (·.interrupt)).getLast?.map (·.handler)).getD 0
  eps.map (fun e => ⟨e.method, e.path, if e.interrupt then .posthoc (.bound last) else .bound e.handler⟩)

/-- `route_calls_own_handler` is what separates the code from the late-binding variant: there the
route of `/close` (position 0) invokes `/vent`'s method 13, and `PUT /close` has `/vent`'s effect
and reply.  (With a single interrupting endpoint the two coincide.) -/
example :
    ((createRouteDefinitionsLateBound exValve)[0]?.map (·.handler.target)) = some 13 ∧
    ((createRouteDefinitions exValve)[0]?.map (·.handler.target)) = some 10 ∧
    serve resolveFirst (createRouteDefinitionsLateBound exValve) "PUT" ["close"] =
      [.effect 13 [], .interrupt, .reply 13] := by decide

/-! ### order of registration -/

/-- **permuting non-overlapping routes changes nothing.**  If no request is accepted by two
entries of the table (`nonOverlapping`, a decidable syntactic test that is exact, see
`overlaps_exact`), then every request has the same trace under every arrangement of the table. -/
theorem httpRequest_perm (eps eps' : List Endpoint) (hp : eps.Perm eps')
    (hno : nonOverlapping eps = true) (m : Method) (p : Path) :
    httpRequest eps m p = httpRequest eps' m p :=
  httpRequestWith_perm resolveFirst_sound resolveFirst_complete resolveFirst_sound
    resolveFirst_complete eps eps' hp hno m p

/-- the overlap test means what it says: two endpoints overlap iff some request (method and
path) is accepted by both. -/
theorem overlaps_exact (e f : Endpoint) :
    e.overlaps f = true ↔ ∃ m p, (e.accepts m p).isSome ∧ (f.accepts m p).isSome :=
  Endpoint.overlaps_iff e f

/-- … and it changes nothing under the indexed resolution of aiohttp 3.14.3 either, which on
such a table serves every request exactly as registration-order resolution does. -/
theorem httpRequestIdx_perm (eps eps' : List Endpoint) (hp : eps.Perm eps')
    (hno : nonOverlapping eps = true) (m : Method) (p : Path) :
    httpRequestIdx eps m p = httpRequestIdx eps' m p ∧ httpRequestIdx eps m p = httpRequest eps' m p :=
  ⟨httpRequestWith_perm resolveIndexed_sound resolveIndexed_complete resolveIndexed_sound
      resolveIndexed_complete eps eps' hp hno m p,
   httpRequestWith_perm resolveIndexed_sound resolveIndexed_complete resolveFirst_sound
      resolveFirst_complete eps eps' hp hno m p⟩

example : httpRequest exValve.reverse "PUT" ["open"] = httpRequest exValve "PUT" ["open"] :=
  (httpRequest_perm exValve exValve.reverse (List.reverse_perm exValve).symm (by decide) _ _).symm

/-- discovery: `get_endpoints` visits the adapter's members in name order, so the table is a
rearrangement of the marked methods that does not depend on the order in which the class body
declares them; for non-overlapping routes the method NAMES are therefore irrelevant too. -/
theorem getEndpoints_perm (members members' : List (String × Option Endpoint))
    (hp : members.Perm members') : (getEndpoints members).Perm (getEndpoints members') := by
  unfold getEndpoints
  exact ((List.mergeSort_perm _ _).trans (hp.trans (List.mergeSort_perm _ _).symm)).filterMap _

theorem getEndpoints_names_irrelevant (members : List (String × Option Endpoint))
    (hno : nonOverlapping (members.filterMap (·.2)) = true) (m : Method) (p : Path) :
    httpRequest (getEndpoints members) m p = httpRequest (members.filterMap (·.2)) m p := by
  have hp : (getEndpoints members).Perm (members.filterMap (·.2)) :=
    (List.mergeSort_perm _ _).filterMap _
  exact (httpRequest_perm _ _ hp.symm hno m p).symm

/-! ### the installed aiohttp: most specific template first -/

/-- **indexed resolution (aiohttp 3.14.3).**  The endpoint that serves a request is a matching
endpoint whose template has a literal prefix of maximal length, and among those the first
registered; the trace is that endpoint's, in the same order as above. -/
theorem httpRequestIdx_matched (eps : List Endpoint) (m : Method) (p : Path) (i : Nat) (e : Endpoint)
    (a : Args) (hi : eps[i]? = some e) (hacc : e.accepts m p = some a)
    (hbest : ∀ (j : Nat) (e' : Endpoint), eps[j]? = some e' → (e'.accepts m p).isSome →
      e'.spec < e.spec ∨ (e'.spec = e.spec ∧ i ≤ j)) :
    httpRequestIdx eps m p =
      [.effect e.handler a] ++ (if e.interrupt then [.interrupt] else []) ++ [.reply e.handler] := by
  have hr : resolveIndexed (createRouteDefinitions eps) m p = some (e.define, a) := by
    rw [resolveIndexed_eq_some_iff]
    refine ⟨i, by rw [createRouteDefinitions_getElem?, hi]; rfl, hacc, ?_⟩
    intro j r' hr' hacc'
    rw [createRouteDefinitions_getElem?] at hr'
    cases hj : eps[j]? with
    | none => simp [hj] at hr'
    | some e' =>
      simp [hj] at hr'
      subst hr'
      exact hbest j e' hj hacc'
  unfold httpRequestIdx httpRequestWith serve
  rw [hr]
  exact e.define_serve a

theorem httpRequestIdx_unmatched (eps : List Endpoint) (m : Method) (p : Path)
    (h : ∀ e ∈ eps, e.accepts m p = none) :
    httpRequestIdx eps m p =
      [.error (if pathKnown (createRouteDefinitions eps) p then 405 else 404)] := by
  cases hr : resolveIndexed (createRouteDefinitions eps) m p with
  | none => exact httpRequestWith_none eps m p hr
  | some ra =>
    obtain ⟨e, he, _, hacc, _⟩ := httpRequestWith_some resolveIndexed_sound eps m p ra.1 ra.2 hr
    rw [h e he] at hacc
    cases hacc

/-- **when registration order IS what aiohttp does.**  If overlapping routes are registered most
specific first (`specificityOrdered`, decidable; in particular if no routes overlap), the installed
aiohttp serves every request exactly as registration-order resolution does. -/
theorem httpRequestIdx_eq_httpRequest (eps : List Endpoint) (hord : specificityOrdered eps = true)
    (m : Method) (p : Path) : httpRequestIdx eps m p = httpRequest eps m p := by
  cases hfm : firstMatch eps m p with
  | none =>
    have hn := (firstMatch_none_iff eps m p).mp hfm
    rw [httpRequestIdx_unmatched eps m p hn, httpRequest_unmatched eps m p hn]
  | some ea =>
    obtain ⟨e, a⟩ := ea
    obtain ⟨i, hi, hacc, hbefore⟩ := (firstMatch_spec eps m p e a).mp hfm
    rw [httpRequest_matched eps m p e a hfm]
    apply httpRequestIdx_matched eps m p i e a hi hacc
    intro j e' hj hacc'
    have hij : i ≤ j := by
      by_cases h : j < i
      · have := hbefore j h e' hj
        simp [this] at hacc'
      · omega
    by_cases heq : i = j
    · subst heq
      rw [hi] at hj
      cases hj
      exact Or.inr ⟨rfl, Nat.le_refl _⟩
    · have hov : e.overlaps e' = true :=
        (Endpoint.overlaps_iff e e').mpr ⟨m, p, by simp [hacc], hacc'⟩
      have := specificityOrdered_idx eps hord i j e e' (by omega) hi hj hov
      rcases Nat.lt_or_eq_of_le this with h | h
      · exact Or.inl h
      · exact Or.inr ⟨h, hij⟩

example : specificityOrdered exValve = true ∧
    specificityOrdered [⟨[.lit "a", .lit "b"], "GET", false, 1⟩, ⟨[.lit "a", .var "x"], "GET", false, 0⟩] = true ∧
    nonOverlapping [⟨[.lit "a", .lit "b"], "GET", false, 1⟩, ⟨[.lit "a", .var "x"], "GET", false, 0⟩] = false := by
  decide

/-- the two resolutions differ only on overlapping routes of different specificity: `/a/{x}`
registered before `/a/b`.  Registration order serves `GET /a/b` from the first, the installed
aiohttp from the second (observed on aiohttp 3.14.3). -/
example :
    let eps : List Endpoint := [⟨[.lit "a", .var "x"], "GET", false, 0⟩, ⟨[.lit "a", .lit "b"], "GET", true, 1⟩]
    httpRequest eps "GET" ["a", "b"] = [.effect 0 [("x", "b")], .reply 0] ∧
    httpRequestIdx eps "GET" ["a", "b"] = [.effect 1 [], .interrupt, .reply 1] ∧
    nonOverlapping eps = false := by decide

end Http
end Tickit
