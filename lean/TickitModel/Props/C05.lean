/-
C05 — the initial tick updates every device at every depth exactly once
(whole-simulation model with nested schedulers at any depth).
-/
import TickitModel.Lemmas.SimLemmas

namespace Tickit

/-- **C05.** If the initial tick of the master completes, every device of the configuration,
at whatever nesting depth and whether or not it is fed from outside its system, has been
updated exactly once, at the initial time — and nothing else was updated. -/
theorem initial_tick_complete (S : Static) (hS : S.WF) (orc : Oracle) (fuel : Nat) (t0 : SimTime) (now : Int)
    (m : MasterSt) (tr : TickRec) (h : masterInitial S orc fuel t0 now = .ok (m, tr)) :
    (∀ d, S.isDevice d → m.sim.updates d = 1) ∧
    (∀ o ∈ m.sim.obs, o.time = t0 ∧ S.isDevice o.comp) ∧
    tr.time = t0 := by
  sorry

/-- after the initial tick every nested scheduler has done its own initial tick. -/
theorem initial_tick_marks_systems (S : Static) (hS : S.WF) (orc : Oracle) (fuel : Nat) (t0 : SimTime) (now : Int)
    (m : MasterSt) (tr : TickRec) (h : masterInitial S orc fuel t0 now = .ok (m, tr))
    (s : Comp) (hs : S.isSys s = true) (hp : (alookup S.parent s).isSome) :
    (m.sim.sched s).firstDone = true := by
  sorry

/-- a tick of any level updates each device below it at most once, all at the tick's time
(the inner tick lies inside the outer tick, at the same time — C04's nesting clause). -/
theorem tickLevel_once (S : Static) (hS : S.WF) (orc : Oracle) (fuel : Nat) (lvl : Comp) (t : SimTime)
    (roots : List Comp) (inCh : List (Port × V)) (st st' : SimSt) (out : List (Port × V))
    (h : tickLevel S orc fuel lvl t roots inCh st = .ok (st', out)) :
    (∀ d, st'.updates d ≤ st.updates d + 1) ∧
    (∃ new, st'.obs = st.obs ++ new ∧ ∀ o ∈ new, o.time = t) := by
  sorry

end Tickit
