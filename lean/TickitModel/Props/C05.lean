/-
C05 — the initial tick updates every device at every depth exactly once
(whole-simulation model with nested schedulers at any depth).
-/
import TickitModel.Lemmas.SimLoop

namespace Tickit

/-- **C05.** If the initial tick of the master completes, every device of the configuration,
at whatever nesting depth and whether or not it is fed from outside its system, has been
updated exactly once, at the initial time — and nothing else was updated. -/
theorem initial_tick_complete (S : Static) (hS : S.WF) (orc : Oracle) (fuel : Nat) (t0 : SimTime) (now : Int)
    (m : MasterSt) (tr : TickRec) (h : masterInitial S orc fuel t0 now = .ok (m, tr)) :
    (∀ d, S.isDevice d → m.sim.updates d = 1) ∧
    (∀ o ∈ m.sim.obs, o.time = t0 ∧ S.isDevice o.comp) ∧
    tr.time = t0 := by
  unfold masterInitial at h
  split at h
  · cases h
  · rename_i L hL
    simp only [] at h
    split at h
    · cases h
    · rename_i st out hr
      simp only [Except.ok.injEq, Prod.mk.injEq] at h
      obtain ⟨rfl, rfl⟩ := h
      obtain ⟨new, hobs, hnd, hown, _, hdone⟩ := tickLevel_post hS orc _ _ _ _ _ _ _ _ hr
      obtain ⟨hdev, _⟩ := hdone
        (fun L' hL' c hc => by rw [hL] at hL'; cases hL'; exact hc)
        (fun s _ _ => SimSt.sched_empty s)
      refine ⟨?_, ?_, rfl⟩
      · intro d hd
        have hmem := hdev d (Static.below_master hS hd.1) hd
        show st.updates d = 1
        rw [SimSt.updates_of_obs hobs d, sim_filter_comp_eq_one hnd hmem]
        rfl
      · intro o ho
        have ho' : o ∈ new := by
          have : st.obs = new := by simpa using hobs
          exact this ▸ ho
        exact ⟨(hown o ho').1, (hown o ho').2.1⟩

/-- after the initial tick every nested scheduler has done its own initial tick. -/
theorem initial_tick_marks_systems (S : Static) (hS : S.WF) (orc : Oracle) (fuel : Nat) (t0 : SimTime) (now : Int)
    (m : MasterSt) (tr : TickRec) (h : masterInitial S orc fuel t0 now = .ok (m, tr))
    (s : Comp) (hs : S.isSys s = true) (hp : (alookup S.parent s).isSome) :
    (m.sim.sched s).firstDone = true := by
  unfold masterInitial at h
  split at h
  · cases h
  · rename_i L hL
    simp only [] at h
    split at h
    · cases h
    · rename_i st out hr
      simp only [Except.ok.injEq, Prod.mk.injEq] at h
      obtain ⟨rfl, _⟩ := h
      obtain ⟨new, _, _, _, _, hdone⟩ := tickLevel_post hS orc _ _ _ _ _ _ _ _ hr
      obtain ⟨_, hsys⟩ := hdone
        (fun L' hL' c hc => by rw [hL] at hL'; cases hL'; exact hc)
        (fun s _ _ => SimSt.sched_empty s)
      exact hsys s (Static.below_master hS hp) hs

/-- a tick of any level updates each device below it at most once, all at the tick's time
(the inner tick lies inside the outer tick, at the same time — C04's nesting clause). -/
theorem tickLevel_once (S : Static) (hS : S.WF) (orc : Oracle) (fuel : Nat) (lvl : Comp) (t : SimTime)
    (roots : List Comp) (inCh : List (Port × V)) (st st' : SimSt) (out : List (Port × V))
    (h : tickLevel S orc fuel lvl t roots inCh st = .ok (st', out)) :
    (∀ d, st'.updates d ≤ st.updates d + 1) ∧
    (∃ new, st'.obs = st.obs ++ new ∧ ∀ o ∈ new, o.time = t) := by
  obtain ⟨new, hobs, hnd, hown, _, _⟩ := tickLevel_post hS orc _ _ _ _ _ _ _ _ h
  refine ⟨fun d => ?_, new, hobs, fun o ho => (hown o ho).1⟩
  rw [SimSt.updates_of_obs hobs d]
  have := sim_filter_comp_le_one hnd d
  omega

end Tickit
