/-
C03 / C07 / C08 through system boundaries WITH INTERRUPTS — the whole-simulation model with
external stimuli refines the flat multi-tick system with interrupts `FlatRunI`
(`Core/FlatInt.lean`) over the RESOLVED device-level wiring.

`Props/C03Nested.lean` closes the gap between the whole-simulation model (`masterInitial` /
`masterRun`) and the nondeterministic flat system for CALLBACK histories.  This file does the same
for histories with stimuli (`List Stim`, interrupts raised between ticks):

* B1 `flat_sim_is_flatRunI` — a run of the whole-simulation model on a FLAT configuration, with
  any stimuli on its components, is a `FlatRunI`: same observation log, same tick times, and the
  script's interrupts are exactly the handled stimuli (`Pacing.runLog`), at the same points of the
  history (`interruptsAt`), with the stamps the master computed; the stamps are timely
  (`StampsTimely`).
* B2 `nested_refines_flatRunI` — with C09 (`nesting_transparent_run_stims`): a completed NESTED run
  with timely stimuli on interrupt-safe devices has, device by device, the observations and the
  tick times of a `FlatRunI` over `Wiring.fromInverse (S.flatInverse rfuel)` whose script's
  interrupts are the stimuli handled by the NESTED run, with the nested run's stamps
  (`RefineStim.runLog_agree`: the handled stimuli are determined by the tick records).
* B3 `nested_inputs_synced_int` (C03), `nested_schedule_independent_int` (C08) — the flat theorems
  `synced_runI`, `schedule_independentI` through system boundaries, with interrupts.

Helper lemmas: `Lemmas/RefineStim.lean`.
-/
import TickitModel.Props.C03Nested
import TickitModel.Props.FlatInt
import TickitModel.Lemmas.RefineStim

namespace Tickit

open Pacing

/-! ### B1: a flat whole-simulation run with stimuli is a `FlatRunI` -/

/-- **B1, core form**: the only thing needed about the stimuli is that every interrupting component
is a component of the (only) wiring and a child of the master in `S.parent` — so that
`raiseInterrupt` reports the component itself.  (`S.IsFlat` does not mention `S.parent`; see
`raiseInterrupt_needs_parent` below.) -/
theorem flat_sim_is_flatRunI_core (S : Static) (hflat : S.IsFlat) (L : Level)
    (hL : S.level "" = some L) (orc : Oracle) (fuel : Nat) (t0 : SimTime) (now : Int) (sp : Speed)
    (steps nTicks : Nat) (stims : List Stim)
    (hst : ∀ st ∈ stims, st.comp ∈ L.wiring.components ∧ alookup S.parent st.comp = some "")
    (m m2 : MasterSt) (tr : TickRec) (ticks : List TickRec)
    (h : masterInitial S orc fuel t0 now = .ok (m, tr))
    (h2 : masterRun S orc fuel sp steps nTicks m stims [tr] = .ok (m2, ticks)) :
    ∃ (devs : DevSeq V) (sc : List FAct) (fl : FlatSt V) (times : List SimTime),
      (∀ k, DevExt (devs k)) ∧
      FlatRunI L.wiring devs t0 sc (ticks.length - 1) fl times ∧
      fl.obs = m2.sim.obsList ∧ times = (ticks.map (·.time)).reverse ∧
      interruptsAt sc 1 = (runLog S orc fuel sp steps nTicks m stims 1).map
        (fun ev => (ev.k, ev.st.comp, ev.stamp sp)) ∧
      StampsTimely sc times := by
  obtain ⟨hsys, _⟩ := hflat
  obtain ⟨fl, hinv⟩ := RefineStim.masterInitial_flatI hsys hL h
  have hrun := masterRun_runLog S orc fuel sp steps nTicks m stims [tr] m2 ticks h2
  obtain ⟨devs, sc, fl', times, hinv', hlog⟩ :=
    RefineStim.run_flatI hsys hL (t0 := t0) hrun _ [] 0 fl [t0] hinv hst
  rw [List.nil_append] at hinv'
  exact ⟨devs, sc, fl', times, hinv'.ext, hinv'.run, hinv'.rel.obs, hinv'.times_eq, hlog,
    hinv'.timely⟩

/-- **B1: a flat whole-simulation run with stimuli is a `FlatRunI`.**  For a flat, structurally
valid configuration (`S.WF`: the components of the wiring are the children of the master), a
completed initial tick followed by any history of callback ticks and of stimuli on components of
the wiring is a run of the flat multi-tick system with interrupts over the same wiring, for
suitable (oracle-derived, extensional) device functions and a script `sc` with

* the same observation log and the same tick times (`ticks.length - 1` ticks after the initial
  one);
* the script's interrupts are exactly the stimuli the master handled (`Pacing.runLog`, in order):
  the stimulus handled when `ev.k` tick records had been written is an `.interrupt ev.st.comp
  (ev.stamp sp)` after `ev.k - 1` `.tick`s of the script (`interruptsAt sc 1`), with the stamp
  `interruptStamp tickerTime now lastReal` the master computed;
* the stamps are timely: never before the time of the last tick (`StampsTimely`, the hypothesis of
  `time_monotoneI`, `wake_not_beforeI`, `pending_not_overtakenI`). -/
theorem flat_sim_is_flatRunI (S : Static) (hS : S.WF) (hflat : S.IsFlat) (L : Level)
    (hL : S.level "" = some L) (orc : Oracle) (fuel : Nat) (t0 : SimTime) (now : Int) (sp : Speed)
    (steps nTicks : Nat) (stims : List Stim)
    (hst : ∀ st ∈ stims, st.comp ∈ L.wiring.components)
    (m m2 : MasterSt) (tr : TickRec) (ticks : List TickRec)
    (h : masterInitial S orc fuel t0 now = .ok (m, tr))
    (h2 : masterRun S orc fuel sp steps nTicks m stims [tr] = .ok (m2, ticks)) :
    ∃ (devs : DevSeq V) (sc : List FAct) (fl : FlatSt V) (times : List SimTime),
      (∀ k, DevExt (devs k)) ∧
      FlatRunI L.wiring devs t0 sc (ticks.length - 1) fl times ∧
      fl.obs = m2.sim.obsList ∧ times = (ticks.map (·.time)).reverse ∧
      interruptsAt sc 1 = (runLog S orc fuel sp steps nTicks m stims 1).map
        (fun ev => (ev.k, ev.st.comp, ev.stamp sp)) ∧
      StampsTimely sc times := by
  obtain ⟨hLm, hname⟩ := Static.level_some hL
  refine flat_sim_is_flatRunI_core S hflat L hL orc fuel t0 now sp steps nTicks stims
    (fun st hs => ⟨hst st hs, ?_⟩) m m2 tr ticks h h2
  rcases hS.members L hLm st.comp (hst st hs) with hp | ⟨hne, _⟩
  · rw [hp, hname]
  · exact absurd hname hne

/-- forgetting the positions: the interrupts of the script, in order, are the handled stimuli with
their stamps -/
theorem script_interrupts_of_interruptsAt {sc : List FAct} {k0 : Nat} {log : List StimEv}
    {sp : Speed} (h : interruptsAt sc k0 = log.map (fun ev => (ev.k, ev.st.comp, ev.stamp sp))) :
    sc.filterMap FAct.interruptOf = log.map (fun ev => (ev.st.comp, ev.stamp sp)) := by
  rw [interruptsAt_forget sc k0, h, List.map_map]
  rfl

/-- the handled stimuli are an initial segment of the given ones, in order -/
theorem runLog_stims (S : Static) (orc : Oracle) (fuel : Nat) (sp : Speed) (steps nTicks : Nat)
    (m : MasterSt) (stims : List Stim) (acc : List TickRec) (m2 : MasterSt) (ticks : List TickRec)
    (h2 : masterRun S orc fuel sp steps nTicks m stims acc = .ok (m2, ticks)) :
    ∃ rest, stims = (runLog S orc fuel sp steps nTicks m stims acc.length).map (·.st) ++ rest :=
  (masterRun_runLog S orc fuel sp steps nTicks m stims acc m2 ticks h2).log_stims

/-- why B1 asks for `S.WF` (or the parent entries of the stimuli): `S.IsFlat` says nothing about
`S.parent`, and with a stray parent entry the master sees ANOTHER component interrupting. -/
theorem raiseInterrupt_needs_parent :
    let S : Static := ⟨[⟨"", Wiring.fromInverse [("a", [])]⟩], [], [("a", "x")]⟩
    S.IsFlat ∧ "a" ∈ (Wiring.fromInverse [("a", [])]).components ∧
      (raiseInterrupt S 2 "a" {}).2 = "x" := by
  refine ⟨⟨rfl, _, rfl, rfl⟩, by decide, by decide⟩

/-! ### B2: the nested model with stimuli refines `FlatRunI` over the resolved wiring -/

/-- **B2: the nested model refines the flat system with interrupts over the resolved wiring.**
Every completed nested run — initial tick, callback ticks, and timely stimuli on interrupt-safe
devices at any depth (the hypotheses of C09 `nesting_transparent_run_stims`) — has the tick times
and, device by device, the observations of a `FlatRunI` over the wiring of the flattened
configuration, with extensional device functions, whose script's interrupts are exactly the
stimuli handled by the NESTED run (`Pacing.runLog` of the nested run), each on the interrupted
DEVICE itself, at the same point of the history and with the stamp the nested master computed; the
stamps are timely. -/
theorem nested_refines_flatRunI (S : Static) (hS : S.Valid) (orc : Oracle) (fuel rfuel : Nat)
    (hr : S.resolveFuel ≤ rfuel) (t0 : SimTime) (now : Int) (sp : Speed) (steps nTicks : Nat)
    (stims : List Stim) (hdev : ∀ st ∈ stims, S.isDevice st.comp) (hsafe : orc.InterruptSafe stims)
    (m m2 : MasterSt) (tr : TickRec) (ticks : List TickRec)
    (h : masterInitial S orc fuel t0 now = .ok (m, tr))
    (htimely : stimsTimely S orc fuel sp steps nTicks false m stims = true)
    (h2 : masterRun S orc fuel sp steps nTicks m stims [tr] = .ok (m2, ticks)) :
    ∃ (devs : DevSeq V) (sc : List FAct) (st : FlatSt V) (times : List SimTime),
      (∀ k, DevExt (devs k)) ∧
      FlatRunI (Wiring.fromInverse (S.flatInverse rfuel)) devs t0 sc (ticks.length - 1) st times ∧
      times = (ticks.map (·.time)).reverse ∧
      (∀ d, ObsEq (m2.sim.obsOf d) (st.obsOf d)) ∧
      interruptsAt sc 1 = (runLog S orc fuel sp steps nTicks m stims 1).map
        (fun ev => (ev.k, ev.st.comp, ev.stamp sp)) ∧
      StampsTimely sc times := by
  obtain ⟨fuel', m', tr', m2', ticks', h', hrun', ht, hre, hobs⟩ :=
    nesting_transparent_run_stims S hS orc fuel rfuel hr t0 now sp steps nTicks stims hdev hsafe
      m m2 tr ticks h htimely h2
  obtain ⟨hS', hflat, hL⟩ := flatten_facts S hS orc fuel rfuel hr t0 now m tr h
  have hst' : ∀ st ∈ stims, st.comp ∈ (Wiring.fromInverse (S.flatInverse rfuel)).components :=
    fun st hs => (S.flatW_components hS rfuel st.comp).2 (Static.mem_devices_iff.2 (hdev st hs))
  obtain ⟨devs, sc, st, times, hext, hfr, hob, htm, hlog, hty⟩ :=
    flat_sim_is_flatRunI (S.flatten rfuel) hS'.toWF hflat _ hL orc fuel' t0 now sp steps nTicks
      stims hst' m' m2' tr' ticks' h' hrun'
  have hlen : ticks.length = ticks'.length := by
    have := congrArg List.length ht
    simpa using this
  obtain ⟨c1, c2, c3, _, _⟩ := masterInitial_clock h
  obtain ⟨c1', c2', c3', _, _⟩ := masterInitial_clock h'
  have hagree := RefineStim.runLog_agree sp steps nTicks m m' stims [tr] [tr'] m2 m2' ticks ticks'
    ⟨c1.trans c1'.symm, c2.trans c2'.symm, c3.trans c3'.symm⟩ rfl h2 hrun' ht hre
  refine ⟨devs, sc, st, times, hext, ?_, ?_, fun d => ?_, ?_, hty⟩
  · rw [hlen]; exact hfr
  · rw [htm, ht]
  · rw [obsOf_of_obs_eq hob d]; exact hobs d
  · rw [hlog]
    exact hagree.symm

/-! ### B3: the flat theorems through system boundaries, with interrupts -/

/-- **C03 through system boundaries, with interrupts.**  In a completed nested run with timely
stimuli on interrupt-safe devices every observation of every device, at whatever depth — whether
made in a tick that serves a callback or an interrupt — is explained by a flat run with the same
interrupts over the resolved wiring that is `Synced`: the inputs it was given are, port by port,
the latest values reported on the resolved source outputs. -/
theorem nested_inputs_synced_int (S : Static) (hS : S.Valid) (orc : Oracle) (fuel rfuel : Nat)
    (hr : S.resolveFuel ≤ rfuel) (t0 : SimTime) (now : Int) (sp : Speed) (steps nTicks : Nat)
    (stims : List Stim) (hdev : ∀ st ∈ stims, S.isDevice st.comp) (hsafe : orc.InterruptSafe stims)
    (m m2 : MasterSt) (tr : TickRec) (ticks : List TickRec)
    (h : masterInitial S orc fuel t0 now = .ok (m, tr))
    (htimely : stimsTimely S orc fuel sp steps nTicks false m stims = true)
    (h2 : masterRun S orc fuel sp steps nTicks m stims [tr] = .ok (m2, ticks)) :
    ∃ (devs : DevSeq V) (sc : List FAct) (st : FlatSt V) (times : List SimTime),
      FlatRunI (Wiring.fromInverse (S.flatInverse rfuel)) devs t0 sc (ticks.length - 1) st times ∧
      Synced (Wiring.fromInverse (S.flatInverse rfuel)) st ∧
      (∀ d, ObsEq (m2.sim.obsOf d) (st.obsOf d)) ∧
      interruptsAt sc 1 = (runLog S orc fuel sp steps nTicks m stims 1).map
        (fun ev => (ev.k, ev.st.comp, ev.stamp sp)) := by
  obtain ⟨devs, sc, st, times, _, hfr, _, hobs, hlog, _⟩ :=
    nested_refines_flatRunI S hS orc fuel rfuel hr t0 now sp steps nTicks stims hdev hsafe
      m m2 tr ticks h htimely h2
  obtain ⟨hS', _, hL⟩ := flatten_facts S hS orc fuel rfuel hr t0 now m tr h
  have hLm := (Static.level_some hL).1
  have hwf := hS'.wiring_wf _ hLm
  have hsy := synced_runI _ (routerOK_of_wf _ hwf.1 hwf.2) devs t0 sc _ st times hfr
  exact ⟨devs, sc, st, times, hfr, hsy, hobs, hlog⟩

/-- **C08 through system boundaries, with interrupts.**  The observations of a completed nested
run with stimuli are those of EVERY run of the flat system over the resolved wiring with the run's
(extensional, oracle-derived) device functions and the run's script — the same stimuli at the same
points of the history with the same stamps — whatever the answer orders inside the ticks: there are
device functions `devs` and a script `sc` (whose interrupts are the stimuli handled by the nested
run) such that some `FlatRunI` exists and every `FlatRunI` with this script has the nested run's
number of ticks, tick times and, device by device, observations. -/
theorem nested_schedule_independent_int (S : Static) (hS : S.Valid) (orc : Oracle)
    (fuel rfuel : Nat) (hr : S.resolveFuel ≤ rfuel) (t0 : SimTime) (now : Int) (sp : Speed)
    (steps nTicks : Nat) (stims : List Stim) (hdev : ∀ st ∈ stims, S.isDevice st.comp)
    (hsafe : orc.InterruptSafe stims) (m m2 : MasterSt) (tr : TickRec) (ticks : List TickRec)
    (h : masterInitial S orc fuel t0 now = .ok (m, tr))
    (htimely : stimsTimely S orc fuel sp steps nTicks false m stims = true)
    (h2 : masterRun S orc fuel sp steps nTicks m stims [tr] = .ok (m2, ticks)) :
    ∃ (devs : DevSeq V) (sc : List FAct), (∀ k, DevExt (devs k)) ∧
      interruptsAt sc 1 = (runLog S orc fuel sp steps nTicks m stims 1).map
        (fun ev => (ev.k, ev.st.comp, ev.stamp sp)) ∧
      (∃ st times,
        FlatRunI (Wiring.fromInverse (S.flatInverse rfuel)) devs t0 sc (ticks.length - 1) st times) ∧
      ∀ n st times, FlatRunI (Wiring.fromInverse (S.flatInverse rfuel)) devs t0 sc n st times →
        n = ticks.length - 1 ∧ times = (ticks.map (·.time)).reverse ∧
        ∀ d, ObsEq (m2.sim.obsOf d) (st.obsOf d) := by
  obtain ⟨devs, sc, st, times, hext, hfr, htm, hobs, hlog, _⟩ :=
    nested_refines_flatRunI S hS orc fuel rfuel hr t0 now sp steps nTicks stims hdev hsafe
      m m2 tr ticks h htimely h2
  obtain ⟨hS', _, hL⟩ := flatten_facts S hS orc fuel rfuel hr t0 now m tr h
  have hLm := (Static.level_some hL).1
  have hwf := hS'.wiring_wf _ hLm
  refine ⟨devs, sc, hext, hlog, ⟨st, times, hfr⟩, fun n2 st2 times2 hfr2 => ?_⟩
  obtain ⟨e0, e1, e2, _⟩ := schedule_independentI _ (routerOK_of_wf _ hwf.1 hwf.2)
    (hS'.acyclic _ hLm) devs hext t0 sc _ _ st st2 times times2 hfr hfr2
  exact ⟨e0.symm, by rw [← e1, htm], fun d => Refine.obsEq_trans (hobs d) (e2 d)⟩

/-! ### non-vacuity (checked at build time)

The three-level configuration `C09StimCex.S1` with the four stimuli of the sanity check of
`Lemmas/FlattenStimCex.lean` (timely, interrupt-safe devices at depths 0, 1, 2; both runs complete
with the tick times `[0, 3, 4, 7, 8, 10, 12, 14, 20]`): the log of the NESTED run — what the
interrupts of the script of B2 are — has four entries, and it is the log of the run of the
flattened configuration (`RefineStim.runLog_agree`). -/

section NonVacuity
open C09StimCex

/-- the `(position, device, stamp)` triples of the stimuli handled by a run of 8 ticks -/
def exHandled (S : Static) (fuel : Nat) (stims : List Stim) : List (Nat × Comp × SimTime) :=
  match masterInitial S orc1 fuel 0 0 with
  | .ok (m, _) => (runLog S orc1 fuel ⟨1, 1⟩ 200 8 m stims 1).map (RefineStim.evKey ⟨1, 1⟩)
  | .error _ => []

#guard timely S1 orc1 ⟨1,1⟩ 8 [⟨3, "d5"⟩, ⟨4, "d1"⟩, ⟨8, "d4"⟩, ⟨12, "d3"⟩]
#guard exHandled S1 10 [⟨3, "d5"⟩, ⟨4, "d1"⟩, ⟨8, "d4"⟩, ⟨12, "d3"⟩] ==
  [(1, "d5", 3), (2, "d1", 4), (4, "d4", 8), (6, "d3", 12)]
#guard exHandled (S1.flatten 30) 1 [⟨3, "d5"⟩, ⟨4, "d1"⟩, ⟨8, "d4"⟩, ⟨12, "d3"⟩] ==
  [(1, "d5", 3), (2, "d1", 4), (4, "d4", 8), (6, "d3", 12)]

end NonVacuity

/-
NOT DONE — `nested_time_monotone_int` (C04 through `time_monotoneI`).  `time_monotoneI` needs
`NoPastCallbacks devs` (`∀ k c t ins w, (devs k c t ins).callAt = some w → t ≤ w`, for EVERY time
`t`).  The device functions of the refinement (`Refine.devOf`: the next recorded response of the
oracle) ignore the time they are called at, so for them `NoPastCallbacks` holds only if no recorded
response ever requests a callback: the transferred statement would be (nearly) vacuous.  An honest
version needs device functions that answer only at the time of their tick plus a congruence lemma
for `TickRun` (a tick at `t` consults its device function at time `t` only); that is not cheap, and
`sim_time_monotone` (`Props/C04Mono.lean`) already proves monotonicity of the whole-simulation
model directly, with stimuli, under a hypothesis on the recorded responses.  What IS delivered for
C04: the refined script satisfies `StampsTimely` (B1, B2) — the interrupt-side hypothesis of
`time_monotoneI`, `wake_not_beforeI`, `pending_not_overtakenI`.
-/

end Tickit
