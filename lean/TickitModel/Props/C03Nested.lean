/-
C03 / C08 through system boundaries — the nested whole-simulation model refines the flat
multi-tick system of `Core/Flat.lean` over the RESOLVED device-level wiring.

`Core/Flat.lean` (`FlatRun`) is the system for which C03 (`inputs_latest`, `synced_run`), C04
(`time_monotone`) and C08 (`schedule_independent`: every answer order gives the same observations)
are proved.  C09 (`nesting_transparent_run`) relates the nested model to the SAME model run on the
flattened configuration.  This file closes the gap: a run of the whole-simulation model on a FLAT
configuration is a `FlatRun` (with the devices' recorded responses as device functions), so that a
nested run has exactly the observations of some — hence, by C08, of every — `FlatRun` over the
resolved wiring, and all flat theorems transfer through system boundaries.
-/
import TickitModel.Lemmas.FlattenCorr
import TickitModel.Props.C09
import TickitModel.Props.C03
import TickitModel.Props.C08
import TickitModel.Lemmas.RefineRun

namespace Tickit

/-- the observation log of the whole-simulation model in the format of `FlatSt.obs` -/
def SimSt.obsList (st : SimSt) : List (Comp × SimTime × List (Port × V)) :=
  st.obs.map (fun o => (o.comp, o.time, o.inputs))

/-- a configuration without system simulations: one level -/
def Static.IsFlat (S : Static) : Prop :=
  S.systems = [] ∧ ∃ L, S.levels = [L] ∧ L.name = ""

/-- **a flat whole-simulation run is a `FlatRun`**, with extensional device functions (`DevExt`,
the hypothesis of C08): the stronger form of `flat_sim_is_flatRun` below. -/
theorem flat_sim_is_flatRun_ext (S : Static) (hflat : S.IsFlat) (L : Level) (hL : S.level "" = some L)
    (orc : Oracle) (fuel : Nat) (t0 : SimTime) (now : Int) (sp : Speed) (steps nTicks : Nat)
    (m m2 : MasterSt) (tr : TickRec) (ticks : List TickRec)
    (h : masterInitial S orc fuel t0 now = .ok (m, tr))
    (h2 : masterRun S orc fuel sp steps nTicks m [] [tr] = .ok (m2, ticks)) :
    ∃ (devs : DevSeq V) (st : FlatSt V) (times : List SimTime),
      FlatRun L.wiring devs t0 (ticks.length - 1) st times ∧
      st.obs = m2.sim.obsList ∧ times = (ticks.map (·.time)).reverse ∧ ∀ k, DevExt (devs k) := by
  obtain ⟨hsys, _⟩ := hflat
  obtain ⟨fl, hrun, hR, htr, hext⟩ := Refine.masterInitial_flat hsys hL h
  obtain ⟨devs, fl', times, hrun', hR', ht, hext'⟩ := Refine.masterRun_flat hsys hL sp steps nTicks m [tr]
    _ 0 fl [t0] hrun hext hR rfl (by simp [htr]) h2
  exact ⟨devs, fl', times, hrun', hR'.obs, ht, hext'⟩

/-- **a flat whole-simulation run is a `FlatRun`.**  For a flat valid configuration, a completed
initial tick followed by any number of callback ticks of the whole-simulation model is a run of the
flat multi-tick system over the same wiring, for suitable (oracle-derived) device functions, with
the same observation log and the same tick times. -/
theorem flat_sim_is_flatRun (S : Static) (hS : S.Valid) (hflat : S.IsFlat) (L : Level) (hL : S.level "" = some L)
    (orc : Oracle) (fuel : Nat) (t0 : SimTime) (now : Int) (sp : Speed) (steps nTicks : Nat)
    (m m2 : MasterSt) (tr : TickRec) (ticks : List TickRec)
    (h : masterInitial S orc fuel t0 now = .ok (m, tr))
    (h2 : masterRun S orc fuel sp steps nTicks m [] [tr] = .ok (m2, ticks)) :
    ∃ (devs : DevSeq V) (st : FlatSt V) (times : List SimTime),
      FlatRun L.wiring devs t0 (ticks.length - 1) st times ∧
      st.obs = m2.sim.obsList ∧ times = (ticks.map (·.time)).reverse := by
  have _ := hS -- not needed: on a flat configuration the loop is in lockstep with the flat system
  obtain ⟨devs, st, times, h1, h2, h3, _⟩ :=
    flat_sim_is_flatRun_ext S hflat L hL orc fuel t0 now sp steps nTicks m m2 tr ticks h h2
  exact ⟨devs, st, times, h1, h2, h3⟩

/-- the per-device observation sequences of corresponding logs -/
theorem obsOf_of_obs_eq {st : FlatSt V} {sim : SimSt} (h : st.obs = sim.obsList) (d : Comp) :
    st.obsOf d = sim.obsOf d := by
  unfold FlatSt.obsOf SimSt.obsOf
  rw [h]
  unfold SimSt.obsList
  generalize sim.obs = l
  induction l with
  | nil => rfl
  | cons o l ih =>
    simp only [List.map_cons, List.filter_cons]
    by_cases ho : o.comp = d
    · simp only [ho, beq_self_eq_true, if_true, List.map_cons, ih]
    · have : (o.comp == d) = false := by simpa using ho
      simp only [this, Bool.false_eq_true, if_false, ih]

/-- the facts about the flattened configuration used below -/
theorem flatten_facts (S : Static) (hS : S.Valid) (orc : Oracle) (fuel rfuel : Nat)
    (hr : S.resolveFuel ≤ rfuel) (t0 : SimTime) (now : Int) (m : MasterSt) (tr : TickRec)
    (h : masterInitial S orc fuel t0 now = .ok (m, tr)) :
    (S.flatten rfuel).Valid ∧ (S.flatten rfuel).IsFlat ∧
      (S.flatten rfuel).level "" = some ⟨"", Wiring.fromInverse (S.flatInverse rfuel)⟩ := by
  have hrank := (masterInitial_facts hS (hS.resolveStable hr) h).flatRank
  exact ⟨hS.flatten hrank, ⟨rfl, _, rfl, rfl⟩, rfl⟩

/-- **the nested model refines the flat system over the resolved wiring**: every completed nested
run (initial tick + callback ticks) has, device by device, the observations of a `FlatRun` over the
wiring of the flattened configuration. -/
theorem nested_refines_flatRun (S : Static) (hS : S.Valid) (orc : Oracle) (fuel rfuel : Nat)
    (hr : S.resolveFuel ≤ rfuel) (t0 : SimTime) (now : Int) (sp : Speed) (steps nTicks : Nat)
    (m m2 : MasterSt) (tr : TickRec) (ticks : List TickRec)
    (h : masterInitial S orc fuel t0 now = .ok (m, tr))
    (h2 : masterRun S orc fuel sp steps nTicks m [] [tr] = .ok (m2, ticks)) :
    ∃ (devs : DevSeq V) (st : FlatSt V) (times : List SimTime),
      FlatRun (Wiring.fromInverse (S.flatInverse rfuel)) devs t0 (ticks.length - 1) st times ∧
      times = (ticks.map (·.time)).reverse ∧
      ∀ d, ObsEq (m2.sim.obsOf d) (st.obsOf d) := by
  obtain ⟨fuel', m', tr', m2', ticks', h', hrun', ht, _, hobs⟩ :=
    nesting_transparent_run_fuel S hS orc fuel rfuel hr t0 now sp steps nTicks m m2 tr ticks h h2
  obtain ⟨hS', hflat, hL⟩ := flatten_facts S hS orc fuel rfuel hr t0 now m tr h
  obtain ⟨devs, st, times, hfr, hob, htm⟩ := flat_sim_is_flatRun (S.flatten rfuel) hS' hflat _ hL
    orc fuel' t0 now sp steps nTicks m' m2' tr' ticks' h' hrun'
  have hlen : ticks.length = ticks'.length := by
    have := congrArg List.length ht
    simpa using this
  refine ⟨devs, st, times, ?_, ?_, fun d => ?_⟩
  · rw [hlen]; exact hfr
  · rw [htm, ht]
  · rw [obsOf_of_obs_eq hob d]; exact hobs d

/-- **C03 through system boundaries.**  In a completed nested run every observation of every device,
at whatever depth, is explained by a flat run over the resolved wiring that is `Synced`: the inputs
it was given are, port by port, the latest values reported on the resolved source outputs. -/
theorem nested_inputs_synced (S : Static) (hS : S.Valid) (orc : Oracle) (fuel rfuel : Nat)
    (hr : S.resolveFuel ≤ rfuel) (t0 : SimTime) (now : Int) (sp : Speed) (steps nTicks : Nat)
    (m m2 : MasterSt) (tr : TickRec) (ticks : List TickRec)
    (h : masterInitial S orc fuel t0 now = .ok (m, tr))
    (h2 : masterRun S orc fuel sp steps nTicks m [] [tr] = .ok (m2, ticks)) :
    ∃ (devs : DevSeq V) (st : FlatSt V) (times : List SimTime),
      FlatRun (Wiring.fromInverse (S.flatInverse rfuel)) devs t0 (ticks.length - 1) st times ∧
      Synced (Wiring.fromInverse (S.flatInverse rfuel)) st ∧
      ∀ d, ObsEq (m2.sim.obsOf d) (st.obsOf d) := by
  obtain ⟨devs, st, times, hfr, _, hobs⟩ :=
    nested_refines_flatRun S hS orc fuel rfuel hr t0 now sp steps nTicks m m2 tr ticks h h2
  obtain ⟨hS', _, hL⟩ := flatten_facts S hS orc fuel rfuel hr t0 now m tr h
  have hLm := (Static.level_some hL).1
  have hwf := hS'.wiring_wf _ hLm
  have hsy := synced_run _ (routerOK_of_wf _ hwf.1 hwf.2) (hS'.acyclic _ hLm) devs
    (hS'.ups_defined _ hLm) t0 _ st times hfr
  exact ⟨devs, st, times, hfr, hsy, hobs⟩

/-- **C08 through system boundaries.**  The observations of a completed nested run are those of
EVERY run of the flat system over the resolved wiring with the run's (extensional, oracle-derived)
device functions — whatever the answer orders inside the ticks: there are device functions `devs`
such that some `FlatRun` exists and every `FlatRun` of the same length has the nested run's tick
times and, device by device, its observations. -/
theorem nested_schedule_independent (S : Static) (hS : S.Valid) (orc : Oracle) (fuel rfuel : Nat)
    (hr : S.resolveFuel ≤ rfuel) (t0 : SimTime) (now : Int) (sp : Speed) (steps nTicks : Nat)
    (m m2 : MasterSt) (tr : TickRec) (ticks : List TickRec)
    (h : masterInitial S orc fuel t0 now = .ok (m, tr))
    (h2 : masterRun S orc fuel sp steps nTicks m [] [tr] = .ok (m2, ticks)) :
    ∃ (devs : DevSeq V), (∀ k, DevExt (devs k)) ∧
      (∃ st times, FlatRun (Wiring.fromInverse (S.flatInverse rfuel)) devs t0 (ticks.length - 1) st times) ∧
      ∀ st times, FlatRun (Wiring.fromInverse (S.flatInverse rfuel)) devs t0 (ticks.length - 1) st times →
        times = (ticks.map (·.time)).reverse ∧ ∀ d, ObsEq (m2.sim.obsOf d) (st.obsOf d) := by
  obtain ⟨fuel', m', tr', m2', ticks', h', hrun', ht, _, hobs⟩ :=
    nesting_transparent_run_fuel S hS orc fuel rfuel hr t0 now sp steps nTicks m m2 tr ticks h h2
  obtain ⟨hS', hflat, hL⟩ := flatten_facts S hS orc fuel rfuel hr t0 now m tr h
  obtain ⟨devs, st, times, hfr, hob, htm, hext⟩ := flat_sim_is_flatRun_ext (S.flatten rfuel) hflat _ hL
    orc fuel' t0 now sp steps nTicks m' m2' tr' ticks' h' hrun'
  have hlen : ticks.length = ticks'.length := by
    have := congrArg List.length ht
    simpa using this
  rw [← hlen] at hfr
  have hLm := (Static.level_some hL).1
  have hwf := hS'.wiring_wf _ hLm
  refine ⟨devs, hext, ⟨st, times, hfr⟩, fun st2 times2 hfr2 => ?_⟩
  obtain ⟨e1, e2⟩ := schedule_independent _ (routerOK_of_wf _ hwf.1 hwf.2) (hS'.acyclic _ hLm) devs hext
    t0 _ st st2 times times2 hfr hfr2
  refine ⟨by rw [← e1, htm, ht], fun d => ?_⟩
  have hd := hobs d
  rw [← obsOf_of_obs_eq hob d] at hd
  exact Refine.obsEq_trans hd (e2 d)

end Tickit
