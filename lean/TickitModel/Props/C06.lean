/-
C06 — callbacks are honoured exactly, merged when simultaneous, never invented
(scheduler bookkeeping part: `wakeups`, `get_first_wakeups`, removal of served entries,
nested due-selection).
-/
import TickitModel.Lemmas.MiscLemmas

namespace Tickit

/-- `add_wakeup` overwrites the component's single entry and touches no other. -/
theorem addWakeup_lookup (w : Wakeups) (c c' : Comp) (t : SimTime) :
    alookup (addWakeup w c t) c' = if c' = c then some t else alookup w c' := by
  sorry

theorem addWakeup_unique (w : Wakeups) (h : UniqueKeys w) (c : Comp) (t : SimTime) :
    UniqueKeys (addWakeup w c t) := by
  sorry

/-- at most one entry per component: the bookkeeping never exceeds the number of distinct
components that ever asked. -/
theorem addWakeup_length (w : Wakeups) (c : Comp) (t : SimTime) :
    (addWakeup w c t).length = if (alookup w c).isSome then w.length else w.length + 1 := by
  sorry

/-- `get_first_wakeups` returns the minimum requested time and exactly the components
holding it; nothing is invented. -/
theorem firstWakeups_spec (w : Wakeups) (h : UniqueKeys w) (cs : List Comp) (m : SimTime)
    (hf : firstWakeups w = (cs, some m)) :
    (∀ c, c ∈ cs ↔ alookup w c = some m) ∧
    (∀ c t, alookup w c = some t → m ≤ t) ∧
    (∃ c, alookup w c = some m) ∧ cs.Nodup := by
  sorry

theorem firstWakeups_none (w : Wakeups) : (firstWakeups w).2 = none ↔ w = [] := by
  sorry

/-- serving removes exactly the served entries: a served callback is not served again,
an unserved one stays pending. -/
theorem delWakeups_lookup (w : Wakeups) (h : UniqueKeys w) (cs : List Comp) (c : Comp) :
    alookup (delWakeups w cs) c = if c ∈ cs then none else alookup w c := by
  sorry

theorem delWakeups_unique (w : Wakeups) (h : UniqueKeys w) (cs : List Comp) :
    UniqueKeys (delWakeups w cs) := by
  sorry

/-- **pending callbacks are never overtaken**: after serving the first wakeups at time `m`,
every remaining entry is strictly later than `m`; so a callback pending for time `t` is
served by a tick at exactly `t` (with all others due at `t`) unless its owner answers
again first. -/
theorem served_then_later (w : Wakeups) (h : UniqueKeys w) (cs : List Comp) (m : SimTime)
    (hf : firstWakeups w = (cs, some m)) (c : Comp) (t : SimTime)
    (hc : alookup (delWakeups w cs) c = some t) : m < t := by
  sorry

/-- nested scheduler: the components selected as due at tick time `t` are exactly those
whose entry is `≤ t`; with the invariant "entries ≥ the system's reported minimum = t" these
are exactly the entries equal to `t`. -/
theorem nestedDue_spec (w : Wakeups) (h : UniqueKeys w) (t : SimTime) (c : Comp) :
    c ∈ nestedDue w t ↔ ∃ t', alookup w c = some t' ∧ t' ≤ t := by
  sorry

theorem nestedDue_exact (w : Wakeups) (h : UniqueKeys w) (t : SimTime)
    (hmin : (firstWakeups w).2 = some t) (c : Comp) :
    c ∈ nestedDue w t ↔ alookup w c = some t := by
  sorry

/-- what a system component reports upward is the minimum inner wakeup. -/
theorem system_callback_is_min (w : Wakeups) (h : UniqueKeys w) (m : SimTime)
    (hf : (firstWakeups w).2 = some m) :
    (∃ c, alookup w c = some m) ∧ ∀ c t, alookup w c = some t → m ≤ t := by
  sorry

example : firstWakeups [("a", 5), ("b", 3), ("c", 3)] = (["b", "c"], some 3) := by decide

end Tickit
