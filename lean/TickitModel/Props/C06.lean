/-
C06 — callbacks are honoured exactly, merged when simultaneous, never invented
(scheduler bookkeeping part: `wakeups`, `get_first_wakeups`, removal of served entries,
nested due-selection).
-/
import TickitModel.Lemmas.MiscLemmas

namespace Tickit

/-- `add_wakeup` overwrites the component's single entry and touches no other. -/
theorem addWakeup_lookup (w : Wakeups) (c c' : Comp) (t : SimTime) :
    alookup (addWakeup w c t) c' = if c' = c then some t else alookup w c' := by
  exact ms_alookup_upsert w c c' t

theorem addWakeup_unique (w : Wakeups) (h : UniqueKeys w) (c : Comp) (t : SimTime) :
    UniqueKeys (addWakeup w c t) := by
  exact h.upsert c t

/-- at most one entry per component: the bookkeeping never exceeds the number of distinct
components that ever asked. -/
theorem addWakeup_length (w : Wakeups) (c : Comp) (t : SimTime) :
    (addWakeup w c t).length = if (alookup w c).isSome then w.length else w.length + 1 := by
  exact length_upsert w c t

/-- `get_first_wakeups` returns the minimum requested time and exactly the components
holding it; nothing is invented. -/
theorem firstWakeups_spec (w : Wakeups) (h : UniqueKeys w) (cs : List Comp) (m : SimTime)
    (hf : firstWakeups w = (cs, some m)) :
    (∀ c, c ∈ cs ↔ alookup w c = some m) ∧
    (∀ c t, alookup w c = some t → m ≤ t) ∧
    (∃ c, alookup w c = some m) ∧ cs.Nodup := by
  exact firstWakeups_spec' w h cs m hf

theorem firstWakeups_none (w : Wakeups) : (firstWakeups w).2 = none ↔ w = [] := by
  rw [firstWakeups_snd, minTime_eq_none]; simp

/-- serving removes exactly the served entries: a served callback is not served again,
an unserved one stays pending. -/
theorem delWakeups_lookup (w : Wakeups) (h : UniqueKeys w) (cs : List Comp) (c : Comp) :
    alookup (delWakeups w cs) c = if c ∈ cs then none else alookup w c := by
  exact delWakeups_lookup' w h cs c

theorem delWakeups_unique (w : Wakeups) (h : UniqueKeys w) (cs : List Comp) :
    UniqueKeys (delWakeups w cs) := by
  exact delWakeups_unique' w h cs

/-- **pending callbacks are never overtaken**: after serving the first wakeups at time `m`,
every remaining entry is strictly later than `m`; so a callback pending for time `t` is
served by a tick at exactly `t` (with all others due at `t`) unless its owner answers
again first. -/
theorem served_then_later (w : Wakeups) (h : UniqueKeys w) (cs : List Comp) (m : SimTime)
    (hf : firstWakeups w = (cs, some m)) (c : Comp) (t : SimTime)
    (hc : alookup (delWakeups w cs) c = some t) : m < t := by
  obtain ⟨hcs, hle, _, _⟩ := firstWakeups_spec' w h cs m hf
  rw [delWakeups_lookup' w h] at hc
  split at hc
  · simp at hc
  · rename_i hmem
    have h1 : m ≤ t := hle c t hc
    have h2 : m ≠ t := fun he => hmem ((hcs c).mpr (he ▸ hc))
    exact Int.lt_iff_le_and_ne.mpr ⟨h1, h2⟩

/-- nested scheduler: the components selected as due at tick time `t` are exactly those
whose entry is `≤ t`; with the invariant "entries ≥ the system's reported minimum = t" these
are exactly the entries equal to `t`. -/
theorem nestedDue_spec (w : Wakeups) (h : UniqueKeys w) (t : SimTime) (c : Comp) :
    c ∈ nestedDue w t ↔ ∃ t', alookup w c = some t' ∧ t' ≤ t := by
  exact nestedDue_spec' w h t c

theorem nestedDue_exact (w : Wakeups) (h : UniqueKeys w) (t : SimTime)
    (hmin : (firstWakeups w).2 = some t) (c : Comp) :
    c ∈ nestedDue w t ↔ alookup w c = some t := by
  have hf : firstWakeups w = ((firstWakeups w).1, some t) := by rw [← hmin]
  obtain ⟨_, hle, _, _⟩ := firstWakeups_spec' w h _ t hf
  rw [nestedDue_spec' w h]
  constructor
  · rintro ⟨t', hl, ht⟩
    have := hle c t' hl
    have : t' = t := Int.le_antisymm ht this
    rw [hl, this]
  · intro hl; exact ⟨t, hl, Int.le_refl _⟩

/-- what a system component reports upward is the minimum inner wakeup. -/
theorem system_callback_is_min (w : Wakeups) (h : UniqueKeys w) (m : SimTime)
    (hf : (firstWakeups w).2 = some m) :
    (∃ c, alookup w c = some m) ∧ ∀ c t, alookup w c = some t → m ≤ t := by
  have hf' : firstWakeups w = ((firstWakeups w).1, some m) := by rw [← hf]
  obtain ⟨_, hle, hex, _⟩ := firstWakeups_spec' w h _ m hf'
  exact ⟨hex, hle⟩

example : firstWakeups [("a", 5), ("b", 3), ("c", 3)] = (["b", "c"], some 3) := by decide

end Tickit
