/-
C10, EPICS adapters — every adapter is notified exactly once per update of its own device and
never for another device's update; with per-instance record tables (the code since 1b72c96) the
records an adapter sets are its own, carry its own device's value, and the whole sequence of events
of a component's adapters depends only on the updates of that component — whatever other components,
adapters and updates there are.  With the class-level table of the code before the repair this
fails, in general and on an explicit two-adapter witness.  (Model: Core/Epics.lean.)
-/
import TickitModel.Lemmas.EpicsLemmas

namespace Tickit
namespace Epics

variable {St Val : Type}

/-! ### notifications -/

/-- **exactly once per own update.**  For every configuration, every history of updates and every
adapter position `i` of the component named `c`: the number of times `after_update` of that adapter
is called during the history equals the number of updates of `c` in the history (and is 0 if there
is no such adapter).  Holds for both variants of the record table. -/
theorem notified_once_per_own_update (shared : Bool) (cfg : Config St Val) (σ : Comp → St)
    (h : List (Comp × St)) (c : Comp) (i : Nat) :
    ((run shared cfg σ h).filter (Ev.isNotify (c, i))).length =
      match cfg.lookup c with
      | some d => if i < d.adapters.length then (h.filter (fun u => u.1 == c)).length else 0
      | none => 0 := by
  induction h generalizing σ with
  | nil => cases cfg.lookup c <;> simp [run]
  | cons u h ih =>
    obtain ⟨c1, s⟩ := u
    simp only [run, List.filter_append, List.length_append, ih]
    have hfirst : ((updateOf shared cfg (setState σ c1 s) c1).filter (Ev.isNotify (c, i))).length =
        match cfg.lookup c1 with
        | some d => if c1 = c ∧ i < d.adapters.length then 1 else 0
        | none => 0 := by
      unfold updateOf
      cases hl : cfg.lookup c1 with
      | none => simp
      | some d => simp only [count_notify_onTick, Config.lookup_name hl]
    rw [hfirst]
    by_cases hc : c1 = c
    · subst hc
      cases hl : cfg.lookup c1 with
      | none => simp
      | some d =>
        by_cases hi : i < d.adapters.length <;> simp [hi]
        omega
    · have hfilt : (List.filter (fun u : Comp × St => u.1 == c) ((c1, s) :: h)) =
          List.filter (fun u : Comp × St => u.1 == c) h := by
        simp [hc]
      rw [hfilt]
      cases hl : cfg.lookup c1 <;> simp [hc]

/-- **never for another device's update.**  Every `after_update` call made during the tick of
component `c` is on an adapter of `c`. -/
theorem notified_only_by_own_device (shared : Bool) (cfg : Config St Val) (σ : Comp → St)
    (c : Comp) (a : AdapterRef) (h : Ev.notify a ∈ updateOf shared cfg σ c) : a.1 = c := by
  unfold updateOf at h
  cases hl : cfg.lookup c with
  | none => simp [hl] at h
  | some d =>
    simp only [hl, onTick, List.mem_append, List.mem_singleton, List.mem_flatMap] at h
    rcases h with (h | ⟨ai, _, h⟩) | h
    · cases h
    · unfold afterUpdate at h
      rcases List.mem_cons.mp h with h | h
      · cases h
        exact Config.lookup_name hl
      · obtain ⟨e, _, he⟩ := List.mem_map.mp h
        cases he
    · cases h

example :
    let cfg : Config Nat Nat := [⟨"a", [⟨[("A:V", id)]⟩, ⟨[]⟩]⟩, ⟨"b", [⟨[("B:V", id)]⟩]⟩]
    let h := [("a", 1), ("b", 2), ("a", 3), ("zz", 9)]
    ((runFixed cfg (fun _ => 0) h).filter (Ev.isNotify ("a", 1))).length = 2 ∧
    ((runFixed cfg (fun _ => 0) h).filter (Ev.isNotify ("b", 0))).length = 1 ∧
    ((runFixed cfg (fun _ => 0) h).filter (Ev.isNotify ("b", 1))).length = 0 := by decide

/-! ### noninterference of the records (the code: per-instance tables) -/

/-- **noninterference.**  Take any two configurations `cfg`, `cfg'` that agree on the component
named `c` (they may differ in every other component, adapter and record), any history `h` and any
initial device states.  The events of `c` — its device updates, the notifications of its adapters,
every record set by or belonging to one of its adapters, with the values written, and its outputs —
during `h` in `cfg` are exactly the events of running, in `cfg'`, only the updates of `c`.
So adding or removing other components, their adapters, or their updates changes nothing for `c`. -/
theorem records_noninterference (cfg cfg' : Config St Val) (c : Comp)
    (hsame : cfg.lookup c = cfg'.lookup c) (σ σ' : Comp → St) (h : List (Comp × St)) :
    (runFixed cfg σ h).filter (Ev.concerns c) =
      runFixed cfg' σ' (h.filter (fun u => u.1 == c)) := by
  unfold runFixed
  induction h generalizing σ σ' with
  | nil => simp [run]
  | cons u h ih =>
    obtain ⟨c1, s⟩ := u
    simp only [run, List.filter_append]
    rw [updateOf_fixed]
    by_cases hc : c1 = c
    · subst hc
      rw [ih (setState σ c1 s) (setState σ' c1 s)]
      simp only [List.filter_cons, beq_self_eq_true, if_true, run]
      rw [updateOf_fixed, ← hsame]
      cases hl : cfg.lookup c1 with
      | none => simp
      | some d => simp [filter_ownEvents, Config.lookup_name hl]
    · have hfilt : (List.filter (fun u : Comp × St => u.1 == c) ((c1, s) :: h)) =
          List.filter (fun u : Comp × St => u.1 == c) h := by
        simp [hc]
      rw [hfilt, ih (setState σ c1 s) σ']
      cases hl : cfg.lookup c1 with
      | none => simp
      | some d =>
        have : d.name ≠ c := by rw [Config.lookup_name hl]; exact hc
        simp [filter_ownEvents, this]

/-- the hypothesis of `records_noninterference` holds when ONE other component is added or removed
anywhere in the configuration … -/
theorem lookup_insert (pre post : Config St Val) (x : DevComp St Val) (c : Comp) (hx : x.name ≠ c) :
    Config.lookup (pre ++ x :: post) c = Config.lookup (pre ++ post) c := by
  unfold Config.lookup
  simp [List.find?_append, hx]

/-- … hence for any number of them: the events of `c` in the configuration with the extra
component equal those without it. -/
theorem records_unchanged_by_other_component (pre post : Config St Val) (x : DevComp St Val)
    (c : Comp) (hx : x.name ≠ c) (σ : Comp → St) (h : List (Comp × St)) :
    (runFixed (pre ++ x :: post) σ h).filter (Ev.concerns c) =
      (runFixed (pre ++ post) σ h).filter (Ev.concerns c) := by
  rw [records_noninterference _ (pre ++ post) c (lookup_insert pre post x c hx) σ σ,
    records_noninterference (pre ++ post) (pre ++ post) c rfl σ σ]

/-- **own table, own device's value.**  With per-instance tables every `record.set` that happens
during any history is executed by the adapter that linked the record (`owner = by`), the record is
an entry of THAT adapter's table (and stems from one of its `link_input_on_interrupt` calls), and
the value written is that entry's getter applied to the state its own device was left in by an update
of its own component that is part of the history. -/
theorem record_set_own (cfg : Config St Val) (σ : Comp → St) (h : List (Comp × St))
    (b o : AdapterRef) (r : RecName) (v : Val)
    (hev : Ev.recordSet b o r v ∈ runFixed cfg σ h) :
    o = b ∧ ∃ d a g s, cfg.lookup b.1 = some d ∧ d.adapters[b.2]? = some a ∧
      (r, g) ∈ a.table ∧ (r, g) ∈ a.links ∧ (b.1, s) ∈ h ∧ v = g s := by
  obtain ⟨c, s, d, hm, hl, he⟩ := mem_run_fixed hev
  have hn := Config.lookup_name hl
  rcases mem_ownEvents he with he | he | ⟨i, a, ha, he | ⟨r', g, hg, he⟩⟩
  · cases he
  · cases he
  · cases he
  · cases he
    subst hn
    exact ⟨rfl, d, a, g, s, hl, ha, hg, Adapter.mem_table hg, hm, rfl⟩

/-- **closed form per adapter (adapter-level noninterference).**  Everything adapter number `i`
of component `c` does during a history — its notifications and the records it sets, with values —
is: for each update `(c, s)` of its OWN component in the history, in order, one notification
followed by one `set` of every record of its own table with its getter applied to `s`.  Nothing
else enters: not the other components, not the other adapters of the same component, not the other
updates, not the initial states.  In particular adding or removing any other adapter (on another
device, or further down the adapter list of the same device) leaves this sequence unchanged. -/
theorem adapter_events_closed_form (cfg : Config St Val) (σ : Comp → St) (h : List (Comp × St))
    (c : Comp) (i : Nat) :
    (runFixed cfg σ h).filter (Ev.byAdapter (c, i)) =
      match (cfg.lookup c).bind (fun d => d.adapters[i]?) with
      | some a => (h.filter (fun u => u.1 == c)).flatMap (fun u => adapterEvents (c, i) a u.2)
      | none => [] := by
  unfold runFixed
  induction h generalizing σ with
  | nil => cases (cfg.lookup c).bind (fun d => d.adapters[i]?) <;> simp [run]
  | cons u h ih =>
    obtain ⟨c1, s⟩ := u
    simp only [run, List.filter_append]
    rw [updateOf_fixed, ih]
    by_cases hc : c1 = c
    · subst hc
      cases hl : cfg.lookup c1 with
      | none => simp
      | some d =>
        simp only [filter_byAdapter_ownEvents, Config.lookup_name hl, if_true, Option.bind_some]
        cases d.adapters[i]? <;> simp
    · have hfilt : (List.filter (fun u : Comp × St => u.1 == c) ((c1, s) :: h)) =
          List.filter (fun u : Comp × St => u.1 == c) h := by
        simp [hc]
      rw [hfilt]
      cases hl : cfg.lookup c1 with
      | none => simp
      | some d =>
        have : d.name ≠ c := by rw [Config.lookup_name hl]; exact hc
        simp [filter_byAdapter_ownEvents, this]

example :
    let cfg : Config Nat Nat :=
      [⟨"a", [⟨[("A:V", id), ("A:W", fun s => 2 * s), ("A:V", fun s => s + 1)]⟩, ⟨[("A2:V", id)]⟩]⟩,
       ⟨"b", [⟨[("B:V", id)]⟩]⟩]
    (runFixed cfg (fun _ => 0) [("a", 1), ("b", 2), ("a", 3)]).filter (Ev.byAdapter ("a", 0)) =
      [.notify ("a", 0), .recordSet ("a", 0) ("a", 0) "A:V" 2, .recordSet ("a", 0) ("a", 0) "A:W" 2,
       .notify ("a", 0), .recordSet ("a", 0) ("a", 0) "A:V" 4, .recordSet ("a", 0) ("a", 0) "A:W" 6] := by
  decide

/-- a table is a dict: each record occurs once, so one notification sets each record of the
adapter at most once. -/
theorem table_is_dict (a : Adapter St Val) : (akeys a.table).Nodup := a.table_nodup

/-- two devices with one EPICS adapter and one record each (`examples/devices/isolated_device.py`
twice), and a third component with an adapter that links nothing. -/
def exTwo : Config Nat Nat :=
  [⟨"a", [⟨[("A:VALUE_RBV", id)]⟩]⟩, ⟨"b", [⟨[("B:VALUE_RBV", fun s => s + 100)]⟩]⟩, ⟨"c", [⟨[]⟩]⟩]

example :
    runFixed exTwo (fun _ => 0) [("a", 5), ("b", 7), ("c", 1)] =
      [.deviceUpdate "a", .notify ("a", 0), .recordSet ("a", 0) ("a", 0) "A:VALUE_RBV" 5, .output "a",
       .deviceUpdate "b", .notify ("b", 0), .recordSet ("b", 0) ("b", 0) "B:VALUE_RBV" 107, .output "b",
       .deviceUpdate "c", .notify ("c", 0), .output "c"] := by decide

/-- instance of `records_noninterference`: dropping `b`, `c` and their updates leaves `a`'s events. -/
example :
    (runFixed exTwo (fun _ => 0) [("a", 5), ("b", 7), ("a", 6), ("c", 1)]).filter (Ev.concerns "a") =
      runFixed [⟨"a", [⟨[("A:VALUE_RBV", id)]⟩]⟩] (fun _ => 0) [("a", 5), ("a", 6)] := by decide

/-! ### the class-level table (before 1b72c96) -/

/-- **with the shared table the property fails, in general.**  Every record in the class-level
table — whichever adapter linked it — is set during EVERY update of EVERY component that has an
adapter, with the value of the record owner's device at that moment. -/
theorem shared_sets_foreign_records (cfg : Config St Val) (σ : Comp → St) (b : Comp)
    (d : DevComp St Val) (a0 : Adapter St Val) (rest : List (Adapter St Val))
    (hl : cfg.lookup b = some d) (ha : d.adapters = a0 :: rest)
    (o : AdapterRef) (r : RecName) (g : St → Val) (hmem : ((o, r), g) ∈ sharedTable cfg) :
    Ev.recordSet (b, 0) o r (g (σ o.1)) ∈ updateOf true cfg σ b := by
  unfold updateOf
  rw [hl]
  simp only [onTick, List.mem_append, List.mem_singleton, List.mem_flatMap]
  left; right
  refine ⟨(a0, 0), ?_, ?_⟩
  · rw [ha, List.zipIdx_cons]; exact List.mem_cons_self
  · unfold afterUpdate
    apply List.mem_cons_of_mem
    rw [Config.lookup_name hl]
    exact List.mem_map.mpr ⟨((o, r), g), by simpa [tableSeenBy] using hmem, rfl⟩

/-- **two-adapter witness.**  Devices `a` and `b`, one adapter and one record each.  A single
update of `b`: with the class-level table the record of `a` is set (by `b`'s adapter, with `a`'s
stale value); with per-instance tables it is not. -/
example :
    Ev.recordSet ("b", 0) ("a", 0) "A:VALUE_RBV" 0 ∈ runShared exTwo (fun _ => 0) [("b", 7)] ∧
    runShared exTwo (fun _ => 0) [("b", 7)] =
      [.deviceUpdate "b", .notify ("b", 0),
       .recordSet ("b", 0) ("a", 0) "A:VALUE_RBV" 0,
       .recordSet ("b", 0) ("b", 0) "B:VALUE_RBV" 107, .output "b"] ∧
    runFixed exTwo (fun _ => 0) [("b", 7)] =
      [.deviceUpdate "b", .notify ("b", 0),
       .recordSet ("b", 0) ("b", 0) "B:VALUE_RBV" 107, .output "b"] := by decide

def Ev.setsRecord (r : RecName) : Ev Nat → Bool
  | .recordSet _ _ r' _ => r' == r
  | _ => false

/-- the figures of the defect report F8: 6 updates of `a` and 6 of `b`; `a`'s record is set 12 times
with the class-level table, 6 times with per-instance tables; noninterference fails for the former
(the events concerning `a` are not those of `a`'s own updates). -/
example :
    let h := [("a", 1), ("b", 1), ("a", 2), ("b", 2), ("a", 3), ("b", 3),
              ("a", 4), ("b", 4), ("a", 5), ("b", 5), ("a", 6), ("b", 6)]
    ((runShared exTwo (fun _ => 0) h).filter (Ev.setsRecord "A:VALUE_RBV")).length = 12 ∧
    ((runFixed exTwo (fun _ => 0) h).filter (Ev.setsRecord "A:VALUE_RBV")).length = 6 ∧
    (runShared exTwo (fun _ => 0) h).filter (Ev.concerns "a") ≠
      runShared exTwo (fun _ => 0) (h.filter (fun u => u.1 == "a")) := by decide

end Epics
end Tickit
