/-
C01 through nesting — FULLY CONCURRENT (`Core/SimInter.lean`): the inner ticks of sibling system
components interleave step by step, and the global observation list is written in real-time order
by all active scheduler levels.  Still, in every complete interleaved execution of a tick

 * no device, at whatever depth, is updated more than once (`interleaved_updates_le`, from
   `interleaved_update_at_most_once` of `Props/C08NestedInter.lean`);
 * a device is updated only AFTER every device that feeds it and is updated in the tick
   (`interleaved_update_order` for `S.Feeds`, `interleaved_update_after_resolved_sources` for the
   wires of the resolved = flattened device-level wiring).

The order is NOT inherited from the atomic counterpart of the execution (which has a different
global observation list); it is proved directly on the small-step semantics
(`Lemmas/InterOrder.lean`, `Lemmas/InterOrderStep.lean`): when a device is updated, the component
holding it at the level where the two places in the nesting tree separate has been dispatched, so by
C01 of that level's ticker the component holding the feeding device has left `to_update` — and a
device can only be updated while all levels on its path still have its component in `to_update`.
-/
import TickitModel.Lemmas.InterOrderStep
import TickitModel.Props.C08NestedInter

namespace Tickit

/-- in terms of update counts: no device is updated twice in a tick, however the inner ticks of
system components interleave -/
theorem interleaved_updates_le (S : Static) (hS : S.Valid) (orc : Oracle) (lvl : Comp)
    (t : SimTime) (roots : List Comp) (inCh : List (Port × V)) (hn : (akeys inCh).Nodup) (st : SimSt)
    (r : SimSt × List (Port × V)) (h : TickInter S orc lvl t roots inCh st r) (x : Comp) :
    (r.1.obsOf x).length ≤ (st.obsOf x).length + 1 := by
  rcases interleaved_update_at_most_once S hS orc lvl t roots inCh hn st r h x with h | ⟨m, h⟩
  · rw [h]; omega
  · rw [h]; simp

/-- **C01 through nesting, order, fully concurrent (structural form).**  In every complete
interleaved execution of a tick: the new observations are made by components below the level, and
whenever `x` feeds `y` (`S.Feeds x y`: `x` belongs to a component that is wired — directly or
through other components — into the component `y` belongs to, at the level where their places in
the nesting tree separate) and both are updated in the tick, the update of `x` comes before the
update of `y` in the global (real-time) observation list — also when `x` and `y` live in different
system simulations whose inner ticks overlapped in time. -/
theorem interleaved_update_order (S : Static) (hS : S.Valid) (orc : Oracle) (lvl : Comp)
    (t : SimTime) (roots : List Comp) (inCh : List (Port × V)) (st : SimSt)
    (r : SimSt × List (Port × V)) (h : TickInter S orc lvl t roots inCh st r) :
    ∃ new, r.1.obs = st.obs ++ new ∧ (∀ o ∈ new, S.Below lvl o.comp) ∧
      ∀ pre oy post, new = pre ++ oy :: post → ∀ ox ∈ new, S.Feeds ox.comp oy.comp → ox ∈ pre :=
  tickInter_ordered hS h

/-- **C01 through nesting, order, fully concurrent (resolved wiring).**  In every complete
interleaved execution of a tick a device is updated only AFTER every device that feeds it through
the resolved (flattened) wiring and is updated in the same tick, at whatever depths the two devices
live: if output `p` of `ox.comp` is (after resolving `expose` / `external`) wired to input `q` of
`oy.comp` and both made an observation in this tick, the observation of `ox.comp` comes first. -/
theorem interleaved_update_after_resolved_sources (S : Static) (hS : S.Valid) (orc : Oracle)
    (rfuel : Nat) (lvl : Comp) (t : SimTime) (roots : List Comp) (inCh : List (Port × V))
    (st : SimSt) (r : SimSt × List (Port × V)) (h : TickInter S orc lvl t roots inCh st r) :
    ∃ new, r.1.obs = st.obs ++ new ∧
      ∀ pre oy post, new = pre ++ oy :: post → ∀ ox ∈ new, ∀ p q,
        (Wiring.fromInverse (S.flatInverse rfuel)).Conn ox.comp p oy.comp q → ox ∈ pre := by
  obtain ⟨new, h1, _, h3⟩ := tickInter_ordered hS h
  exact ⟨new, h1, fun pre oy post hsp ox hox p q hc =>
    h3 pre oy post hsp ox hox (flat_wire_feeds hS rfuel hc)⟩

end Tickit
