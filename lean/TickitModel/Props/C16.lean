/-
C16 — the two wiring representations and the routing derived from them agree.
Property theorems only; helper lemmas live in `Lemmas/RouterLemmas.lean`.
-/
import TickitModel.Lemmas.RouterLemmas

namespace Tickit

/-- reachability along wires (reflexive, transitive). -/
inductive Reach (w : Wiring) : Comp → Comp → Prop
  | refl (a : Comp) : Reach w a a
  | tail {a b c : Comp} : Reach w a b → w.Edge b c → Reach w a c

/-- connections are preserved by inverse → wiring. -/
theorem conn_fromInverse (iw : InvWiring) (h : iw.WF) (a : Comp) (p : Port) (b : Comp) (q : Port) :
    (Wiring.fromInverse iw).Conn a p b q ↔ iw.Conn a p b q := by
  sorry

/-- unconnected components are preserved, sources become known components. -/
theorem keys_fromInverse (iw : InvWiring) (h : iw.WF) (c : Comp) :
    c ∈ akeys (Wiring.fromInverse iw) ↔ c ∈ akeys iw ∨ ∃ p b q, iw.Conn c p b q := by
  sorry

theorem wf_fromInverse (iw : InvWiring) (h : iw.WF) : (Wiring.fromInverse iw).WF := by
  sorry

/-- connections are preserved by wiring → inverse (one source per input port). -/
theorem conn_fromWiring (w : Wiring) (h : w.WF) (h1 : w.OneSource) (a : Comp) (p : Port) (b : Comp) (q : Port) :
    (InvWiring.fromWiring w).Conn a p b q ↔ w.Conn a p b q := by
  sorry

theorem keys_fromWiring (w : Wiring) (h : w.WF) (c : Comp) :
    c ∈ akeys (InvWiring.fromWiring w) ↔ c ∈ akeys w ∨ ∃ a p q, w.Conn a p c q := by
  sorry

theorem wf_fromWiring (w : Wiring) (h : w.WF) : (InvWiring.fromWiring w).WF := by
  sorry

/-- inverse → wiring → inverse: the original set of connections, none lost or invented. -/
theorem inverse_roundtrip (iw : InvWiring) (h : iw.WF) (a : Comp) (p : Port) (b : Comp) (q : Port) :
    (InvWiring.fromWiring (Wiring.fromInverse iw)).Conn a p b q ↔ iw.Conn a p b q := by
  sorry

/-- … and the same set of components (keys and sources). -/
theorem inverse_roundtrip_components (iw : InvWiring) (h : iw.WF) (c : Comp) :
    c ∈ akeys (InvWiring.fromWiring (Wiring.fromInverse iw)) ↔
      c ∈ akeys iw ∨ ∃ p b q, iw.Conn c p b q := by
  sorry

/-- wiring → inverse → wiring. -/
theorem wiring_roundtrip (w : Wiring) (h : w.WF) (h1 : w.OneSource) (a : Comp) (p : Port) (b : Comp) (q : Port) :
    (Wiring.fromInverse (InvWiring.fromWiring w)).Conn a p b q ↔ w.Conn a p b q := by
  sorry

theorem wiring_roundtrip_components (w : Wiring) (h : w.WF) (h1 : w.OneSource) (c : Comp) :
    c ∈ akeys (Wiring.fromInverse (InvWiring.fromWiring w)) ↔
      c ∈ akeys w ∨ ∃ a p q, w.Conn a p c q := by
  sorry

/-- an output change is routed to exactly the input ports wired to that output. -/
theorem route_exact {Val : Type} (w : Wiring) (h : w.WF) (h1 : w.OneSource) (a : Comp)
    (ch : List (Port × Val)) (hch : DictWF ch) (b : Comp) (q : Port) (v : Val) :
    (∃ m, alookup (w.route a ch) b = some m ∧ alookup m q = some v) ↔
      ∃ p, alookup ch p = some v ∧ w.Conn a p b q := by
  sorry

/-- a component appears in the routing result only with at least one changed port. -/
theorem route_nonempty {Val : Type} (w : Wiring) (a : Comp) (ch : List (Port × Val)) (b : Comp)
    (m : List (Port × Val)) (hm : alookup (w.route a ch) b = some m) : m ≠ [] := by
  sorry

theorem route_wf {Val : Type} (w : Wiring) (a : Comp) (ch : List (Port × Val)) :
    DictWF (w.route a ch) ∧ ∀ e ∈ w.route a ch, DictWF e.2 := by
  sorry

/-- the component set is the keys plus everything that is wired to. -/
theorem mem_components_iff (w : Wiring) (h : w.WF) (c : Comp) :
    c ∈ w.components ↔ c ∈ akeys w ∨ ∃ a p q, w.Conn a p c q := by
  sorry

/-- first-order dependants are the wire targets. -/
theorem mem_children_iff (w : Wiring) (h : w.WF) (a : Comp) (ch : List Comp) (hc : w.children a = some ch) (b : Comp) :
    b ∈ ch ↔ w.Edge a b := by
  sorry

/-- the inverse tree is the converse of the tree, defined on every component. -/
theorem mem_ups_iff (w : Wiring) (h : w.WF) (b : Comp) (us : List Comp) (hu : w.ups b = some us) (a : Comp) :
    a ∈ us ↔ w.Edge a b := by
  sorry

theorem ups_isSome_iff (w : Wiring) (h : w.WF) (b : Comp) : (w.ups b).isSome ↔ b ∈ w.components := by
  sorry

/-- the dependants of a component are exactly the components reachable from it along
wires, itself included. -/
theorem mem_dependants_iff (w : Wiring) (h : w.WF) (r c : Comp) :
    c ∈ w.dependants r ↔ Reach w r c := by
  sorry

theorem dependants_nodup (w : Wiring) (r : Comp) : (w.dependants r).Nodup := by
  sorry

/-! non-vacuity: a concrete well-formed, one-source diamond -/
def exDiamond : Wiring :=
  [("a", [("o", [("b", "i"), ("c", "i")])]), ("b", [("o", [("d", "i1")])]), ("c", [("o", [("d", "i2")])]), ("d", [])]

example : exDiamond.dependants "a" = ["a", "b", "c", "d"] := by decide
example : exDiamond.dependants "b" = ["b", "d"] := by decide

end Tickit
