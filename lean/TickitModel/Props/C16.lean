/-
C16 — the two wiring representations and the routing derived from them agree.
Property theorems only; helper lemmas live in `Lemmas/RouterLemmas.lean`.
-/
import TickitModel.Lemmas.RouterLemmas

namespace Tickit

/-- reachability along wires (reflexive, transitive). -/
inductive Reach (w : Wiring) : Comp → Comp → Prop
  | refl (a : Comp) : Reach w a a
  | tail {a b c : Comp} : Reach w a b → w.Edge b c → Reach w a c

/-- connections are preserved by inverse → wiring. -/
theorem conn_fromInverse (iw : InvWiring) (h : iw.WF) (a : Comp) (p : Port) (b : Comp) (q : Port) :
    (Wiring.fromInverse iw).Conn a p b q ↔ iw.Conn a p b q :=
  Wiring.conn_fromInverse' iw h a p b q

/-- unconnected components are preserved, sources become known components. -/
theorem keys_fromInverse (iw : InvWiring) (h : iw.WF) (c : Comp) :
    c ∈ akeys (Wiring.fromInverse iw) ↔ c ∈ akeys iw ∨ ∃ p b q, iw.Conn c p b q :=
  Wiring.keys_fromInverse' iw h c

theorem wf_fromInverse (iw : InvWiring) (h : iw.WF) : (Wiring.fromInverse iw).WF := by
  have _ := h -- hypothesis not needed: holds for every `iw`
  exact Wiring.wf_fromInverse' iw

/-- connections are preserved by wiring → inverse (one source per input port). -/
theorem conn_fromWiring (w : Wiring) (h : w.WF) (h1 : w.OneSource) (a : Comp) (p : Port) (b : Comp) (q : Port) :
    (InvWiring.fromWiring w).Conn a p b q ↔ w.Conn a p b q :=
  InvWiring.conn_fromWiring' w h h1 a p b q

theorem keys_fromWiring (w : Wiring) (h : w.WF) (c : Comp) :
    c ∈ akeys (InvWiring.fromWiring w) ↔ c ∈ akeys w ∨ ∃ a p q, w.Conn a p c q :=
  InvWiring.keys_fromWiring' w h c

theorem wf_fromWiring (w : Wiring) (h : w.WF) : (InvWiring.fromWiring w).WF := by
  have _ := h -- hypothesis not needed: holds for every `w`
  exact InvWiring.wf_fromWiring' w

/-- inverse → wiring → inverse: the original set of connections, none lost or invented. -/
theorem inverse_roundtrip (iw : InvWiring) (h : iw.WF) (a : Comp) (p : Port) (b : Comp) (q : Port) :
    (InvWiring.fromWiring (Wiring.fromInverse iw)).Conn a p b q ↔ iw.Conn a p b q := by
  rw [InvWiring.conn_fromWiring' _ (Wiring.wf_fromInverse' iw) (Wiring.oneSource_fromInverse iw h),
    Wiring.conn_fromInverse' iw h]

/-- … and the same set of components (keys and sources). -/
theorem inverse_roundtrip_components (iw : InvWiring) (h : iw.WF) (c : Comp) :
    c ∈ akeys (InvWiring.fromWiring (Wiring.fromInverse iw)) ↔
      c ∈ akeys iw ∨ ∃ p b q, iw.Conn c p b q := by
  rw [InvWiring.keys_fromWiring' _ (Wiring.wf_fromInverse' iw), Wiring.keys_fromInverse' iw h]
  constructor
  · rintro (hk | ⟨a, p, q, hc⟩)
    · exact hk
    · rw [Wiring.conn_fromInverse' iw h] at hc
      exact Or.inl (InvWiring.mem_akeys_of_conn hc)
  · exact Or.inl

/-- wiring → inverse → wiring. -/
theorem wiring_roundtrip (w : Wiring) (h : w.WF) (h1 : w.OneSource) (a : Comp) (p : Port) (b : Comp) (q : Port) :
    (Wiring.fromInverse (InvWiring.fromWiring w)).Conn a p b q ↔ w.Conn a p b q := by
  rw [Wiring.conn_fromInverse' _ (InvWiring.wf_fromWiring' w), InvWiring.conn_fromWiring' w h h1]

theorem wiring_roundtrip_components (w : Wiring) (h : w.WF) (h1 : w.OneSource) (c : Comp) :
    c ∈ akeys (Wiring.fromInverse (InvWiring.fromWiring w)) ↔
      c ∈ akeys w ∨ ∃ a p q, w.Conn a p c q := by
  rw [Wiring.keys_fromInverse' _ (InvWiring.wf_fromWiring' w), InvWiring.keys_fromWiring' w h]
  constructor
  · rintro (hk | ⟨p, b, q, hc⟩)
    · exact hk
    · rw [InvWiring.conn_fromWiring' w h h1] at hc
      exact Or.inl (Wiring.mem_akeys_of_conn hc)
  · exact Or.inl

/-- an output change is routed to exactly the input ports wired to that output. -/
theorem route_exact {Val : Type} (w : Wiring) (h : w.WF) (h1 : w.OneSource) (a : Comp)
    (ch : List (Port × Val)) (hch : DictWF ch) (b : Comp) (q : Port) (v : Val) :
    (∃ m, alookup (w.route a ch) b = some m ∧ alookup m q = some v) ↔
      ∃ p, alookup ch p = some v ∧ w.Conn a p b q := by
  have _ := h -- hypothesis not needed: only `OneSource` and `DictWF ch` are needed
  exact Wiring.route_exact' w h1 a ch hch b q v

/-- a component appears in the routing result only with at least one changed port. -/
theorem route_nonempty {Val : Type} (w : Wiring) (a : Comp) (ch : List (Port × Val)) (b : Comp)
    (m : List (Port × Val)) (hm : alookup (w.route a ch) b = some m) : m ≠ [] :=
  Wiring.route_noEmpty w a ch b m hm

theorem route_wf {Val : Type} (w : Wiring) (a : Comp) (ch : List (Port × Val)) :
    DictWF (w.route a ch) ∧ ∀ e ∈ w.route a ch, DictWF e.2 :=
  Wiring.route_wf2 w a ch

/-- the component set is the keys plus everything that is wired to. -/
theorem mem_components_iff (w : Wiring) (h : w.WF) (c : Comp) :
    c ∈ w.components ↔ c ∈ akeys w ∨ ∃ a p q, w.Conn a p c q :=
  Wiring.mem_components_iff' h c

/-- first-order dependants are the wire targets. -/
theorem mem_children_iff (w : Wiring) (h : w.WF) (a : Comp) (ch : List Comp) (hc : w.children a = some ch) (b : Comp) :
    b ∈ ch ↔ w.Edge a b :=
  Wiring.mem_children_iff' h hc b

/-- the inverse tree is the converse of the tree, defined on every component. -/
theorem mem_ups_iff (w : Wiring) (h : w.WF) (b : Comp) (us : List Comp) (hu : w.ups b = some us) (a : Comp) :
    a ∈ us ↔ w.Edge a b :=
  Wiring.mem_ups_iff' h hu a

theorem ups_isSome_iff (w : Wiring) (h : w.WF) (b : Comp) : (w.ups b).isSome ↔ b ∈ w.components := by
  have _ := h -- hypothesis not needed: holds for every `w`
  exact Wiring.ups_isSome_iff' w b

/-- the dependants of a component are exactly the components reachable from it along
wires, itself included. -/
theorem mem_dependants_iff (w : Wiring) (h : w.WF) (r c : Comp) :
    c ∈ w.dependants r ↔ Reach w r c := by
  constructor
  · exact Wiring.dependants_sound h r (Reach w r) (Reach.refl r) (fun _ _ hab he => Reach.tail hab he) c
  · intro hr
    induction hr with
    | refl => exact (Wiring.dependants_closed w r).1
    | tail _ he ih => exact (Wiring.dependants_closed w r).2 _ ih _ he

theorem dependants_nodup (w : Wiring) (r : Comp) : (w.dependants r).Nodup :=
  Wiring.dependants_nodup' w r

/-! non-vacuity: a concrete well-formed, one-source diamond -/
def exDiamond : Wiring :=
  [("a", [("o", [("b", "i"), ("c", "i")])]), ("b", [("o", [("d", "i1")])]), ("c", [("o", [("d", "i2")])]), ("d", [])]

example : exDiamond.dependants "a" = ["a", "b", "c", "d"] := by decide
example : exDiamond.dependants "b" = ["b", "d"] := by decide

end Tickit
