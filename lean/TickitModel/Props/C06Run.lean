/-
C06 at RUN level — a callback requested for simulation time `t` is honoured: a tick occurs at
exactly `t` with the requester as a root, unless the requester is updated earlier; callbacks due at
the same instant are served by ONE tick; no tick happens at a time nobody asked for; and
(LIVENESS) under "callbacks lie strictly in the future" a pending request IS served after finitely
many ticks of every continuation.

Property theorems only; helper lemmas and the definitions used in the statements
(`FlatExt`, `StillPending`, `FirstUpdate`, `StrictFuture`) live in `Lemmas/CallbackLemmas.lean`
(namespace `Tickit.Callback`).  They are repeated here informally:

* `FlatExt w devs n st times n' st' times'` — a CONTINUATION: from `(n, st, times)` (tick count,
  state, tick times latest first) further scheduler steps, each exactly a `FlatRun.tick` step, lead
  to `(n', st', times')`.  `continuation_is_run` / `run_is_continuation` relate it to `FlatRun`.
* `StillPending st times st' times' c t` — `st'.obsOf c = st.obsOf c` (no new observation of `c`),
  `alookup st'.wake c = some t`, and `times' = newT ++ times` with every `m ∈ newT` `< t`.
* `FirstUpdate w devs n st times n' st' times' c t` — the continuation splits as
  `(n, st, times) ⟶* (k, stA, timesA) ⟶tick at t1, roots cs⟶ (k+1, stB, t1 :: timesA) ⟶* (n', st', times')`
  where the request is `StillPending` at `stA`, `t1 ≤ t`, `c ∈ cs ↔ t1 = t`,
  `stB.obsOf c = st.obsOf c ++ [(t1, given)]` and `st'.obsOf c = st.obsOf c ++ (t1, given) :: rest`.
* `StrictFuture devs` — `((devs k) c t ins).callAt = some x → t < x`.

Adaptations with respect to the informal property (all forced by the code, see the theorems):
* "unless the device is updated earlier (which replaces or clears its request)": an earlier
  update REPLACES the request if the device asks for a new callback and KEEPS the old entry if it
  asks for none (`handle_message`: `if message.call_at is not None: add_wakeup`); only being a
  root of a tick removes the entry.  R1 therefore speaks about the FIRST update after the
  request; see `callback_kept_by_silent_update` for the checked example of the kept entry, which
  is also the counterexample to "a wakeup entry stems from the LAST observation" in R4.
* the hypothesis `∀ c ∈ w.components, (w.ups c).isSome` is a theorem (`Wiring.ups_isSome_iff'`), so
  it does not appear; `NoPastCallbacks` is not needed for R1 (the bound `< t` holds regardless).
-/
import TickitModel.Lemmas.CallbackLemmas
import TickitModel.Props.C02

namespace Tickit

open Callback

variable {Val : Type} [DecidableEq Val]

/-! ### continuations -/

/-- a continuation of a run is a run … -/
theorem continuation_is_run (w : Wiring) (devs : DevSeq Val) (t0 : SimTime) (n n' : Nat)
    (st st' : FlatSt Val) (times times' : List SimTime) (hrun : FlatRun w devs t0 n st times)
    (hext : FlatExt w devs n st times n' st' times') : FlatRun w devs t0 n' st' times' := by
  exact hext.flatRun hrun

/-- … and every run of `n'` ticks is a continuation of its first `n ≤ n'` ticks, so quantifying
over continuations is quantifying over all longer runs with the given beginning. -/
theorem run_is_continuation (w : Wiring) (devs : DevSeq Val) (t0 : SimTime) (n n' : Nat)
    (hn : n ≤ n') (st' : FlatSt Val) (times' : List SimTime)
    (hrun : FlatRun w devs t0 n' st' times') :
    ∃ st times, FlatRun w devs t0 n st times ∧ FlatExt w devs n st times n' st' times' := by
  exact flatRun_split hrun n hn

/-! ### R1: exactness (safety) -/

/-- **R1.**  Let `c` have a pending request for `t` after a run.  For EVERY continuation exactly
one of the following holds: (i) `StillPending`: `c` has no new observation, the entry `(c, t)` is
still in `wake`, and every new tick time is `< t` (strictly: a tick at `t` would have `c` as a
root and update it); (ii) `FirstUpdate`: `c` was updated; its first new observation is at a time
`t1 ≤ t`, made by a tick at `t1` before which the request was still pending, and `c` is a root of
that tick iff `t1 = t`.  No hypothesis on the devices is needed. -/
theorem callback_exact (w : Wiring) (hw : RouterOK w) (devs : DevSeq Val) (t0 : SimTime) (n : Nat)
    (st : FlatSt Val) (times : List SimTime) (hrun : FlatRun w devs t0 n st times)
    (c : Comp) (t : SimTime) (hc : alookup st.wake c = some t)
    (n' : Nat) (st' : FlatSt Val) (times' : List SimTime)
    (hext : FlatExt w devs n st times n' st' times') :
    (StillPending st times st' times' c t ∨ FirstUpdate w devs n st times n' st' times' c t) ∧
    ¬ (StillPending st times st' times' c t ∧ FirstUpdate w devs n st times n' st' times' c t) := by
  exact ⟨pending_or_served hw hrun hc hext, fun h => not_both h.1 h.2⟩

/-- **never overtaken**: as long as `c` has not been updated since its request for `t`, the
request is still pending and no tick at a time `≥ t` has happened. -/
theorem callback_never_overtaken (w : Wiring) (hw : RouterOK w) (devs : DevSeq Val) (t0 : SimTime)
    (n : Nat) (st : FlatSt Val) (times : List SimTime) (hrun : FlatRun w devs t0 n st times)
    (c : Comp) (t : SimTime) (hc : alookup st.wake c = some t)
    (n' : Nat) (st' : FlatSt Val) (newT : List SimTime)
    (hext : FlatExt w devs n st times n' st' (newT ++ times))
    (hobs : st'.obsOf c = st.obsOf c) :
    alookup st'.wake c = some t ∧ ∀ m ∈ newT, m < t := by
  rcases pending_or_served hw hrun hc hext with hp | hfu
  · obtain ⟨newT', heq, hall⟩ := hp.earlier
    have : newT = newT' := List.append_cancel_right heq
    subst this
    exact ⟨hp.pending, hall⟩
  · obtain ⟨_, _, _, _, _, _, _, rest, _, _, _, _, _, _, _, _, hob⟩ := hfu
    have := congrArg List.length (hobs.symm.trans hob)
    simp at this

/-- **the first update after a request is not late, and is "because of the request" only at
`t`**: if `c`'s first new observation in a continuation is at `t1` then `t1 ≤ t`, a tick at `t1`
is part of the continuation, and in the tick that made it `c` is a root iff `t1 = t`
(the latter is part of `FirstUpdate`, repeated here in terms of that tick). -/
theorem callback_first_update (w : Wiring) (hw : RouterOK w) (devs : DevSeq Val) (t0 : SimTime)
    (n : Nat) (st : FlatSt Val) (times : List SimTime) (hrun : FlatRun w devs t0 n st times)
    (c : Comp) (t : SimTime) (hc : alookup st.wake c = some t)
    (n' : Nat) (st' : FlatSt Val) (times' : List SimTime)
    (hext : FlatExt w devs n st times n' st' times')
    (t1 : SimTime) (given : List (Port × Val)) (rest : List (SimTime × List (Port × Val)))
    (hobs : st'.obsOf c = st.obsOf c ++ (t1, given) :: rest) :
    t1 ≤ t ∧ (∃ newT, times' = newT ++ times ∧ t1 ∈ newT) ∧
    ∃ (k : Nat) (stA stB : FlatSt Val) (timesA : List SimTime) (cs : List Comp),
      FlatExt w devs n st times k stA timesA ∧ alookup stA.wake c = some t ∧
      stA.obsOf c = st.obsOf c ∧ firstWakeups stA.wake = (cs, some t1) ∧
      TickRun w (devs (k + 1)) { stA with wake := delWakeups stA.wake cs } t1 cs stB ∧
      FlatExt w devs (k + 1) stB (t1 :: timesA) n' st' times' ∧ (c ∈ cs ↔ t1 = t) := by
  rcases pending_or_served hw hrun hc hext with hp | hfu
  · have := congrArg List.length (hp.no_new_obs.symm.trans hobs)
    simp at this
  · obtain ⟨k, stA, stB, timesA, cs, t1', given', rest', hA, hpA, hfA, htA, hB, hle, hroot, _,
      hob⟩ := hfu
    have heq := List.append_cancel_left (hob.symm.trans hobs)
    simp only [List.cons.injEq, Prod.mk.injEq] at heq
    obtain ⟨⟨rfl, _⟩, _⟩ := heq
    refine ⟨hle, ?_, k, stA, stB, timesA, cs, hA, hpA.pending, hpA.no_new_obs, hfA, htA, hB, hroot⟩
    obtain ⟨n1, h1, _⟩ := hA.times_eq
    obtain ⟨n2, h2, _⟩ := hB.times_eq
    refine ⟨n2 ++ t1' :: n1, by rw [h2, h1]; simp, by simp⟩

/-! ### R2: merging -/

/-- **R2.**  In a scheduler step (`FlatRun.tick`) at time `m`, the roots `cs` are exactly the
components whose pending request equals `m` (the minimum), and every one of them is really
updated by this ONE tick: it gets exactly one new observation, at time `m`; its request is
consumed, and its wakeup entry afterwards is what the device asked for in this update. -/
theorem callback_served_one_tick (w : Wiring) (hw : RouterOK w) (devs : DevSeq Val) (t0 : SimTime)
    (n : Nat) (st : FlatSt Val) (times : List SimTime) (hrun : FlatRun w devs t0 n st times)
    (cs : List Comp) (m : SimTime) (hf : firstWakeups st.wake = (cs, some m)) (st' : FlatSt Val)
    (htick : TickRun w (devs (n + 1)) { st with wake := delWakeups st.wake cs } m cs st') :
    (∀ c, alookup st.wake c = some m ↔ c ∈ cs) ∧ cs.Nodup ∧
    ∀ c, alookup st.wake c = some m →
      ∃ given, st'.obsOf c = st.obsOf c ++ [(m, given)] ∧ (c, m, given) ∈ st'.obs ∧
        alookup st'.wake c = ((devs (n + 1)) c m given).callAt := by
  have huk := Det.flatRun_uniqueKeys hrun
  obtain ⟨hcs, _, _, hnd⟩ := firstWakeups_spec _ huk cs m hf
  refine ⟨fun c => (hcs c).symm, hnd, fun c hc => ?_⟩
  have hmem : c ∈ cs := (hcs c).2 hc
  obtain ⟨given, hob, hwk⟩ := tickRun_root hw htick hmem
  refine ⟨given, hob, ?_, ?_⟩
  · rw [← mem_obsOf, hob]
    simp
  · rw [hwk]
    have hdel : alookup (delWakeups st.wake cs) c = none := by
      rw [delWakeups_lookup _ huk, if_pos hmem]
    cases hcall : ((devs (n + 1)) c m given).callAt with
    | none => exact hdel
    | some x => rfl

/-! ### R3: liveness -/

/-- under `StrictFuture` tick times strictly increase along a run. -/
theorem time_strictly_increases (w : Wiring) (devs : DevSeq Val) (hfut : StrictFuture devs)
    (t0 : SimTime) (n : Nat) (st : FlatSt Val) (times : List SimTime)
    (hrun : FlatRun w devs t0 n st times) :
    times.Pairwise (fun later earlier => earlier < later) := by
  induction hrun with
  | initial _ => simp
  | @tick n st0 st1 times0 cs m hprev hf _ ih =>
    obtain ⟨tl, rest, hti, _⟩ := flatRun_wake_gt hfut hprev
    subst hti
    have htl : tl < m := next_tick_later hfut hprev hf
    refine List.pairwise_cons.2 ⟨fun t' ht' => ?_, ih⟩
    rcases List.mem_cons.1 ht' with rfl | ht'
    · exact htl
    · exact Int.lt_trans ((List.pairwise_cons.1 ih).1 t' ht') htl

/-- **a run can always be continued while a request is pending**: the scheduler finds the next
wakeups and the tick it starts can be completed (`tickRun_exists`). -/
theorem flatRun_can_continue (w : Wiring) (hacyc : w.Acyclic) (devs : DevSeq Val) (t0 : SimTime)
    (n : Nat) (st : FlatSt Val) (times : List SimTime) (hrun : FlatRun w devs t0 n st times)
    (hne : st.wake ≠ []) : ∃ st' m, FlatRun w devs t0 (n + 1) st' (m :: times) := by
  obtain ⟨cs, m, st', hf, htick⟩ := can_step hacyc hrun hne
  exact ⟨st', m, .tick hrun hf htick⟩

/-- **R3, every continuation.**  If callbacks are requested strictly in the future and `c` has a
pending request for `t` after a run whose latest tick was at `tl`, then EVERY continuation by at
least `(t - tl).toNat` further ticks contains an update of `c` (`FirstUpdate`: at a time `≤ t`,
and at `t` itself only with `c` as a root).  (Time is an integer and strictly increases, so
`t - tl` ticks cannot all fit strictly between `tl` and `t`.) -/
theorem callback_eventually_served (w : Wiring) (hw : RouterOK w) (devs : DevSeq Val)
    (hfut : StrictFuture devs) (t0 : SimTime) (n : Nat) (st : FlatSt Val) (tl : SimTime)
    (rest : List SimTime) (hrun : FlatRun w devs t0 n st (tl :: rest))
    (c : Comp) (t : SimTime) (hc : alookup st.wake c = some t)
    (n' : Nat) (st' : FlatSt Val) (times' : List SimTime)
    (hext : FlatExt w devs n st (tl :: rest) n' st' times')
    (hlen : n + (t - tl).toNat ≤ n') :
    FirstUpdate w devs n st (tl :: rest) n' st' times' c t := by
  rcases pending_or_served hw hrun hc hext with hp | hfu
  · exfalso
    obtain ⟨tl0, rest0, hti0, hgt⟩ := flatRun_wake_gt hfut hrun
    cases hti0
    have htl : @LT.lt Int _ tl t := hgt c t hc
    obtain ⟨k, tl', rest', hn', hti', hle⟩ := ext_head_ge hfut hrun hext
    have hle' : @LE.le Int _ (tl + (k : Int)) tl' := hle
    obtain ⟨newT, hti, hall⟩ := hp.earlier
    obtain ⟨newT2, hti2, hlen2⟩ := hext.times_eq
    have hnn : newT = newT2 := List.append_cancel_right (hti.symm.trans hti2)
    subst hnn
    have hk : k = newT.length := by omega
    have h1 : ((t - tl).toNat : Int) = t - tl := Int.toNat_of_nonneg (by omega)
    have hkge : (t - tl).toNat ≤ k := by omega
    have h2 : ((t - tl).toNat : Int) ≤ (k : Int) := Int.ofNat_le.2 hkge
    cases newT with
    | nil =>
      simp only [List.length_nil] at hk
      omega
    | cons x xs =>
      rw [hti'] at hti
      simp only [List.cons_append, List.cons.injEq] at hti
      have hx : @LT.lt Int _ x t := hall x (by simp)
      have hx' : @Eq Int tl' x := hti.1
      omega
  · exact hfu

/-- R3 in terms of observations only: such a continuation contains a new observation of `c` at a
time `≤ t`. -/
theorem callback_eventually_observed (w : Wiring) (hw : RouterOK w) (devs : DevSeq Val)
    (hfut : StrictFuture devs) (t0 : SimTime) (n : Nat) (st : FlatSt Val) (tl : SimTime)
    (rest : List SimTime) (hrun : FlatRun w devs t0 n st (tl :: rest))
    (c : Comp) (t : SimTime) (hc : alookup st.wake c = some t)
    (n' : Nat) (st' : FlatSt Val) (times' : List SimTime)
    (hext : FlatExt w devs n st (tl :: rest) n' st' times')
    (hlen : n + (t - tl).toNat ≤ n') :
    ∃ t1 given more, st'.obsOf c = st.obsOf c ++ (t1, given) :: more ∧ t1 ≤ t ∧
      (c, t1, given) ∈ st'.obs := by
  obtain ⟨_, _, _, _, _, t1, given, more, _, _, _, _, _, hle, _, _, hob⟩ :=
    callback_eventually_served w hw devs hfut t0 n st tl rest hrun c t hc n' st' times' hext hlen
  refine ⟨t1, given, more, hob, hle, ?_⟩
  rw [← mem_obsOf, hob]
  simp

/-- **R3, existence.**  Such a continuation exists: the run can be continued until `c` is
updated — by the tick at exactly `t` with `c` as a root, or earlier. -/
theorem callback_served_exists (w : Wiring) (hw : RouterOK w) (hacyc : w.Acyclic)
    (devs : DevSeq Val) (hfut : StrictFuture devs) (t0 : SimTime) (n : Nat) (st : FlatSt Val)
    (times : List SimTime) (hrun : FlatRun w devs t0 n st times)
    (c : Comp) (t : SimTime) (hc : alookup st.wake c = some t) :
    ∃ n' st' times', FlatExt w devs n st times n' st' times' ∧
      FirstUpdate w devs n st times n' st' times' c t := by
  obtain ⟨tl, rest, hti, _⟩ := flatRun_wake_gt hfut hrun
  subst hti
  obtain ⟨n', st', times', hext, hcase⟩ := ext_exists hw hacyc hrun hc (t - tl).toNat
  refine ⟨n', st', times', hext, ?_⟩
  rcases hcase with hn | hfu
  · exact callback_eventually_served w hw devs hfut t0 n st tl rest hrun c t hc n' st' times' hext
      (by omega)
  · exact hfu

/-! ### R4: no invented tick -/

/-- every entry `(c, m)` of the wakeups of a run state stems from an observation of `c`: `c` was
updated in tick `k ≤ n` — at that tick's time `t_req = times[n - k]`, with the logged inputs
`ins` — and the device function of that tick returned `callAt = some m`; every LATER observation
of `c` (the list `post`, made in ticks `k' > k`) returned `callAt = none`.

The stronger "… which is `c`'s LAST observation" is FALSE: an update that asks for no callback
keeps the old entry (`callback_kept_by_silent_update` below is the checked counterexample); the
statement here is the strongest true variant: the entry stems from the last observation of `c`
that asked for a callback. -/
theorem wake_entry_was_requested (w : Wiring) (devs : DevSeq Val) (t0 : SimTime) (n : Nat)
    (st : FlatSt Val) (times : List SimTime) (hrun : FlatRun w devs t0 n st times)
    (c : Comp) (m : SimTime) (hm : alookup st.wake c = some m) :
    ∃ (k : Nat) (t_req : SimTime) (ins : List (Port × Val))
      (pre post : List (SimTime × List (Port × Val))),
      k ≤ n ∧ times[n - k]? = some t_req ∧ st.obsOf c = pre ++ (t_req, ins) :: post ∧
      (c, t_req, ins) ∈ st.obs ∧ ((devs k) c t_req ins).callAt = some m ∧
      ∀ o ∈ post, ∃ k', k < k' ∧ k' ≤ n ∧ times[n - k']? = some o.1 ∧
        ((devs k') c o.1 o.2).callAt = none := by
  obtain ⟨k, t_req, ins, pre, post, h1, h2, h3, h4, h5⟩ := wake_requested hrun c m hm
  refine ⟨k, t_req, ins, pre, post, h1, h2, h3, ?_, h4, h5⟩
  rw [← mem_obsOf, h3]
  simp

/-- **R4.**  Every tick time of a run other than the initial one was requested: the tick at `m`
is a scheduler step from a state `st` of the run whose minimal wakeup is `m`; it has a root `c`
with `alookup st.wake c = some m`, and that entry was requested by an update of `c` in an earlier
tick `k ≤ n` of the run (time `t_req = times[n - k]`, inputs `ins`) whose device call returned
`callAt = some m`. -/
theorem no_invented_tick (w : Wiring) (devs : DevSeq Val) (t0 : SimTime) (n : Nat)
    (st' : FlatSt Val) (m : SimTime) (times : List SimTime)
    (hrun : FlatRun w devs t0 (n + 1) st' (m :: times)) :
    ∃ (st : FlatSt Val) (cs : List Comp) (c : Comp),
      FlatRun w devs t0 n st times ∧ firstWakeups st.wake = (cs, some m) ∧
      TickRun w (devs (n + 1)) { st with wake := delWakeups st.wake cs } m cs st' ∧
      c ∈ cs ∧ alookup st.wake c = some m ∧
      ∃ (k : Nat) (t_req : SimTime) (ins : List (Port × Val)),
        k ≤ n ∧ times[n - k]? = some t_req ∧ (c, t_req, ins) ∈ st.obs ∧
        ((devs k) c t_req ins).callAt = some m := by
  cases hrun with
  | @tick _ st _ _ cs _ hprev hf htick =>
    obtain ⟨hcs, _, ⟨c, hc⟩, _⟩ := firstWakeups_spec _ (Det.flatRun_uniqueKeys hprev) cs m hf
    obtain ⟨k, t_req, ins, _, _, h1, h2, _, h4, h5, _⟩ :=
      wake_entry_was_requested w devs t0 n st times hprev c m hc
    exact ⟨st, cs, c, hprev, hf, htick, (hcs c).2 hc, hc, k, t_req, ins, h1, h2, h4, h5⟩

/-! ### non-vacuity

Device `a` (reports its update time on port `o`, callback every 2 ns) is wired into `a2`; device
`b` has a callback every 3 ns.  All callbacks are strictly in the future. -/

def exCW : Wiring := [("a", [("o", [("a2", "i")])]), ("a2", []), ("b", [])]

/-- `exCW` as the code builds it: from the inverse wiring given by the configuration. -/
def exCInv : InvWiring := [("a", []), ("a2", [("i", ("a", "o"))]), ("b", [])]

def exCDev : DevFn Int := fun c t _ =>
  if c = "a" then ⟨[("o", t)], some (t + 2)⟩
  else if c = "b" then ⟨[], some (t + 3)⟩
  else ⟨[], none⟩

theorem exCW_routerOK : RouterOK exCW := by
  refine routerOK_of_wf exCW (by unfold Wiring.WF DictWF akeys; decide) ?_
  have h : exCW = Wiring.fromInverse exCInv := by decide
  rw [h]
  exact Wiring.oneSource_fromInverse _ (by unfold InvWiring.WF DictWF akeys; decide)

theorem exCW_acyclic : exCW.Acyclic := by
  refine ⟨fun c => if c = "a2" then 1 else 0, ?_⟩
  have hinv : exCW.inverseTree = [("a2", ["a"]), ("a", []), ("b", [])] := by decide
  intro c us u hus hu
  simp only [Wiring.ups, hinv, alookup] at hus
  split at hus
  · cases hus; simp at hu; subst_vars; decide
  · split at hus
    · cases hus; simp at hu
    · split at hus
      · cases hus; simp at hu
      · cases hus

theorem exCDev_strict : StrictFuture (fun _ => exCDev : DevSeq Int) := by
  intro k c t ins x h
  simp only [exCDev] at h
  show @LT.lt Int _ t x
  split at h
  · have h' : @Eq Int (t + 2) x := Option.some.inj h
    omega
  · split at h
    · have h' : @Eq Int (t + 3) x := Option.some.inj h
      omega
    · cases h

/-- a run: initial tick at 0 (roots `a2`, `a`, `b`), callback tick at 2 (root `a`; `a2` is updated
because its input changed), callback tick at 3 (root `b` only).  Afterwards `a` has a pending
request for 4 and `b` one for 6. -/
theorem exC_run : ∃ st, FlatRun exCW (fun _ => exCDev) 0 2 st [3, 2, 0] ∧
    st.obsOf "a" = [(0, []), (2, [])] ∧
    st.obsOf "a2" = [(0, [("i", 0)]), (2, [("i", 2)])] ∧ st.obsOf "b" = [(0, []), (3, [])] ∧
    st.wake = [("a", 4), ("b", 6)] := by
  refine ⟨_, .tick (cs := ["b"]) (m := 3) (.tick (cs := ["a"]) (m := 2) (.initial
      ⟨_, .step (i := 0) (.step (i := 0) (.step (i := 0) (.init rfl) rfl) rfl) rfl, rfl, rfl⟩)
      rfl ⟨_, .step (i := 0) (.step (i := 0) (.init rfl) rfl) rfl, rfl, rfl⟩)
      rfl ⟨_, .step (i := 0) (.init rfl) rfl, rfl, rfl⟩, ?_, ?_, ?_, ?_⟩ <;> decide

/-- R1 and R3 applied to the run above and `b`'s request for 6 (latest tick at 3): in every
continuation exactly one of `StillPending`/`FirstUpdate` holds; every continuation by at least
`(6 - 3).toNat = 3` further ticks contains a new observation of `b` at a time `≤ 6`; and a
continuation in which `b` is updated exists. -/
example : ∃ st, FlatRun exCW (fun _ => exCDev) 0 2 st [3, 2, 0] ∧ alookup st.wake "b" = some 6 ∧
    (∀ n' st' times', FlatExt exCW (fun _ => exCDev) 2 st [3, 2, 0] n' st' times' →
      (StillPending st [3, 2, 0] st' times' "b" 6 ∨
        FirstUpdate exCW (fun _ => exCDev) 2 st [3, 2, 0] n' st' times' "b" 6) ∧
      ¬ (StillPending st [3, 2, 0] st' times' "b" 6 ∧
        FirstUpdate exCW (fun _ => exCDev) 2 st [3, 2, 0] n' st' times' "b" 6)) ∧
    (∀ n' st' times', FlatExt exCW (fun _ => exCDev) 2 st [3, 2, 0] n' st' times' → 5 ≤ n' →
      ∃ t1 given more, st'.obsOf "b" = st.obsOf "b" ++ (t1, given) :: more ∧ t1 ≤ 6 ∧
        ("b", t1, given) ∈ st'.obs) ∧
    (∃ n' st' times', FlatExt exCW (fun _ => exCDev) 2 st [3, 2, 0] n' st' times' ∧
      FirstUpdate exCW (fun _ => exCDev) 2 st [3, 2, 0] n' st' times' "b" 6) := by
  obtain ⟨st, hrun, _, _, _, hwk⟩ := exC_run
  have hc : alookup st.wake "b" = some 6 := by rw [hwk]; decide
  refine ⟨st, hrun, hc, ?_, ?_, ?_⟩
  · intro n' st' times' hext
    exact callback_exact exCW exCW_routerOK _ 0 2 st _ hrun "b" 6 hc n' st' times' hext
  · intro n' st' times' hext hn
    exact callback_eventually_observed exCW exCW_routerOK _ exCDev_strict 0 2 st 3 [2, 0] hrun
      "b" 6 hc n' st' times' hext (by simpa using hn)
  · exact callback_served_exists exCW exCW_routerOK exCW_acyclic _ exCDev_strict 0 2 st _ hrun
      "b" 6 hc

/-- like `exCDev`, but `a2` asks once (at time 0) for a callback at 5 and never again. -/
def exKeepDev : DevFn Int := fun c t _ =>
  if c = "a" then ⟨[("o", t)], some (t + 2)⟩
  else if c = "a2" then ⟨[], if t = 0 then some 5 else none⟩
  else ⟨[], none⟩

/-- **checked counterexample** to "a wakeup entry stems from the component's LAST observation"
(and to "an earlier update clears the request"): `a2` requests a callback for 5 in the initial
tick; the tick at 2 (root `a`) updates `a2` because its input changed, and this update asks for no
callback; afterwards the entry `(a2, 5)` is still pending although the device call of `a2`'s last
observation `(2, [("i", 2)])` returned `callAt = none` (for every tick index). -/
theorem callback_kept_by_silent_update :
    ∃ st, FlatRun exCW (fun _ => exKeepDev) 0 1 st [2, 0] ∧
      st.obsOf "a2" = [(0, [("i", 0)]), (2, [("i", 2)])] ∧ alookup st.wake "a2" = some 5 ∧
      ∀ k : Nat, (((fun _ => exKeepDev : DevSeq Int) k) "a2" 2 [("i", 2)]).callAt = none := by
  refine ⟨_, .tick (cs := ["a"]) (m := 2) (.initial
      ⟨_, .step (i := 0) (.step (i := 0) (.step (i := 0) (.init rfl) rfl) rfl) rfl, rfl, rfl⟩)
      rfl ⟨_, .step (i := 0) (.step (i := 0) (.init rfl) rfl) rfl, rfl, rfl⟩, ?_, ?_, ?_⟩
  · decide
  · decide
  · intro k
    show (exKeepDev "a2" 2 [("i", 2)]).callAt = none
    decide

end Tickit
