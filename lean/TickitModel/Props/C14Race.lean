/-
C14 (system component, TCP io) — long runs use bounded scheduler resources: the two tasks of
`SystemComponent.on_tick` (inner tick against the error flag) and the reply tasks of `TcpIo`
(`Core/RaceRes.lean`).

For EVERY history:
  * a system component holds at most 2 tasks, none between ticks — a constant per system
    component, whatever the number of ticks (code as it is, commit f518297);
  * the TCP io stores a task handle only while that reply task is unfinished, and nothing for
    a closed connection: handles stored = replies in flight on open connections, whatever the
    number of chunks received (code as it is, commit 9447ad9).
The code before these commits grows by one task per tick / one stored handle per chunk.
-/
import TickitModel.Lemmas.RaceResLemmas

namespace Tickit

/-! ### the system component's tick / error race -/

/-- the inductive invariant, with and without cancellation: `on_tick` (the task) is live
exactly while the race is on and it has not finished, likewise `error_state`. -/
theorem system_race_invariant (fixed : Bool) (acts : List SysRaceAct) :
    SysInv (({} : SysRaceSt).run fixed acts) :=
  SysInv.init.run acts

theorem system_race_invariant_step (fixed : Bool) (s s' : SysRaceSt) (a : SysRaceAct)
    (h : SysInv s) (hs : s.step fixed a = some s') : SysInv s' :=
  h.step hs

/-- **C14, system component.** After ANY history of `Input`s, completions of the inner tick,
errors raised by the inner scheduler and resumptions — any number of ticks — a system
component (code as it is) holds at most two live tasks, and none at all when it is not inside
`on_tick`: every tick releases what it created (the loser of the race is cancelled). -/
theorem system_race_bounded (acts : List SysRaceAct) :
    let s := ({} : SysRaceSt).run true acts
    s.tasks ≤ 2 ∧ (s.pc = .idle → s.tasks = 0) := by
  intro s
  have hg : SysGood s := SysGood.init.run acts
  refine ⟨hg.tasks_le, fun hpc => ?_⟩
  have := hg.1.idle_zero hpc
  have h1 := hg.2.1
  have h2 := hg.2.2
  simp only [SysRaceSt.tasks]; omega

/-- **a constant per system component.** `k` system components side by side, any interleaving
of their actions: at most `2 * k` tasks in total. -/
theorem system_farm_bounded (k : Nat) (acts : List (Nat × SysRaceAct)) :
    sysFarmTasks (sysFarmRun true (List.replicate k {}) acts) ≤ 2 * k := by
  have h0 : ∀ s ∈ List.replicate k ({} : SysRaceSt), SysGood s := by
    intro s hs
    rw [List.eq_of_mem_replicate hs]
    exact SysGood.init
  obtain ⟨h1, h2⟩ := SysGood.farmRun h0 acts
  have := rr_sum_map_le SysRaceSt.tasks 2 _ (fun s hs => (h1 s hs).tasks_le)
  rw [h2, List.length_replicate] at this
  exact this

/-- **growth before the repair.** `n` ordinary ticks (called, inner tick completes, `on_tick`
returns) of the code before commit f518297 leave `n` tasks waiting on the error flag — which
is never set in normal operation: one task leaked per tick, for every `n`. -/
theorem old_system_race_grows (n : Nat) :
    let s := ({} : SysRaceSt).run false (List.replicate n sysTickRound).flatten
    s.pc = .idle ∧ s.ticks = n ∧ s.tasks = n := by
  intro s
  obtain ⟨h1, h2, h3, h4, h5, h6⟩ := sysTickRounds_run false n {} rfl rfl rfl
  refine ⟨h1, by simpa using h5, ?_⟩
  simp only [SysRaceSt.tasks]
  rw [h2, h3, h4, h6]
  simp

/-- the same ticks on the code as it is: nothing is left. -/
theorem new_system_race_clean (n : Nat) :
    let s := ({} : SysRaceSt).run true (List.replicate n sysTickRound).flatten
    s.pc = .idle ∧ s.ticks = n ∧ s.tasks = 0 := by
  intro s
  obtain ⟨h1, h2, h3, h4, h5, h6⟩ := sysTickRounds_run true n {} rfl rfl rfl
  refine ⟨h1, by simpa using h5, ?_⟩
  simp only [SysRaceSt.tasks]
  rw [h2, h3, h4, h6]
  simp

/-! ### the TCP io's reply tasks -/

/-- **C14, TCP io.** After ANY history of connections, chunks, finished replies, ends of
stream and returns of `handle` (code as it is):
  * every connection's set holds exactly the handles of its unfinished reply tasks — no
    finished task is retained — and a closed connection has neither tasks nor handles;
  * so the handles stored by the io = the reply tasks in flight on the OPEN connections, and
    the live tasks = one `handle` per open connection + those replies;
  * nothing is stored server-wide.
None of this depends on the number of chunks received (`chunksSeen`). -/
theorem tcp_bounded (acts : List TcpAct) :
    let s := ({} : TcpSt).run true acts
    (∀ c ∈ s.conns, c.held = c.inFlight ∧ (c.pc = .closed → c.inFlight = 0 ∧ c.held = 0)) ∧
    s.retained = s.replyLiveOpen ∧ s.tasks = s.openConns + s.replyLiveOpen ∧
    s.legacyHeld = 0 := by
  intro s
  have hg : TcpGood s := TcpGood.init.run acts
  refine ⟨?_, ?_, ?_, hg.2⟩
  · intro c hc
    have := hg.1 c hc
    exact ⟨this.1, fun hcl => ⟨this.2 hcl, by rw [this.1]; exact this.2 hcl⟩⟩
  · rw [hg.retained_eq, hg.replyLive_eq]
  · simp only [TcpSt.tasks]; rw [hg.replyLive_eq]

theorem tcp_invariant_step (s s' : TcpSt) (a : TcpAct) (h : TcpGood s)
    (hs : s.step true a = some s') : TcpGood s' :=
  h.step hs

/-- once every reply has been sent, the io stores nothing and runs one task per open
connection — however many chunks it has processed. -/
theorem tcp_quiescent (acts : List TcpAct) :
    let s := ({} : TcpSt).run true acts
    s.replyLive = 0 → s.retained = 0 ∧ s.tasks = s.openConns := by
  intro s h0
  have hg : TcpGood s := TcpGood.init.run acts
  exact ⟨by rw [hg.retained_eq, h0], by simp only [TcpSt.tasks]; omega⟩

/-- **growth before the repair.** One client, `n` chunks, each answered before the next: the
server-wide list of the code before commit 9447ad9 holds `n + 1` handles of FINISHED tasks
(no reply is in flight), for every `n`; the code as it is holds none after the same history. -/
theorem old_tcp_grows (n : Nat) :
    let s := ({} : TcpSt).run false (tcpChatter n)
    s.replyLive = 0 ∧ s.openConns = 1 ∧ s.chunksSeen = n ∧ s.retained = n + 1 := by
  intro s
  have : s = _ := tcpChatter_old n
  rw [this]
  simp [TcpSt.replyLive, TcpSt.openConns, TcpSt.chunksSeen, TcpSt.retained]

theorem new_tcp_same_history_clean (n : Nat) :
    let s := ({} : TcpSt).run true (tcpChatter n)
    s.replyLive = 0 ∧ s.openConns = 1 ∧ s.chunksSeen = n ∧ s.retained = 0 := by
  intro s
  have : s = _ := tcpChatter_new n
  rw [this]
  simp [TcpSt.replyLive, TcpSt.openConns, TcpSt.chunksSeen, TcpSt.retained]

/-! ### non-vacuity -/

/-- inside a tick the bound 2 is attained; after an error the inner tick is cancelled. -/
example : (({} : SysRaceSt).run true [.input]).tasks = 2 := by decide
example : (({} : SysRaceSt).run true [.input, .raiseError, .errTaskRuns, .resume]).tasks = 0 ∧
    (({} : SysRaceSt).run false [.input, .raiseError, .errTaskRuns, .resume]).tasks = 1 := by
  decide

/-- three system components, interleaved ticks. -/
example : sysFarmTasks (sysFarmRun true (List.replicate 3 {})
    [(0, .input), (2, .input), (0, .innerTickDone), (1, .input), (0, .resume)]) = 4 := by decide

/-- two clients; replies in flight on both; one closes after its replies are out. -/
example :
    let s := ({} : TcpSt).run true
      [.connect, .connect, .chunk 0, .chunk 1, .chunk 1, .replyDone 0, .eof 0, .replyDone 0,
       .finish 0, .replyDone 1]
    s.openConns = 1 ∧ s.replyLiveOpen = 2 ∧ s.retained = 2 ∧ s.tasks = 3 ∧ s.chunksSeen = 3 := by
  decide

example : (({} : TcpSt).run false (tcpChatter 7)).retained = 8 ∧
    (({} : TcpSt).run true (tcpChatter 7)).retained = 0 := by decide

end Tickit
