/-
C14 — long runs use bounded scheduler resources (ledger model).
-/
import TickitModel.Core.Ledger
import TickitModel.Lemmas.LedgerLemmas

namespace Tickit

/-- **bounded**: after any history of operations — any number of ticks, pre-emptions,
interrupts, system ticks and TCP chunks — the live tasks, retained finished tasks and timers
are back at their baseline, and the bookkeeping entries never exceed two per component. -/
theorem resources_bounded (ncomp : Nat) (ops : List LOp) (l : Ledger) (h : l.entries ≤ 2 * ncomp) :
    (Ledger.run ncomp l ops).live = l.live ∧ (Ledger.run ncomp l ops).retained = l.retained ∧
    (Ledger.run ncomp l ops).timers = l.timers ∧ (Ledger.run ncomp l ops).entries ≤ 2 * ncomp := by
  exact Ledger.run_inv ncomp ops l h

/-- inside an operation the excess is bounded by the number of components taking part -/
theorem peak_bounded (ncomp : Nat) (op : LOp)
    (hd : match op with | .tickSleepWins d _ _ => d ≤ ncomp | .systemTick d => d ≤ ncomp | _ => True) :
    op.peakLive ≤ 2 + ncomp := by
  cases op <;> simp [LOp.peakLive] at hd ⊢ <;> omega

/-- the behaviour before the repairs grows without bound: `n` system ticks leave `n` tasks -/
theorem leaky_grows (n : Nat) (l : Ledger) :
    ((List.replicate n (LOp.systemTick 1)).foldl Ledger.applyLeaky l).live = l.live + n := by
  induction n generalizing l with
  | zero => simp
  | succ n ih => simp [List.replicate_succ, ih, Ledger.applyLeaky]; omega

theorem leaky_tcp_grows (n : Nat) (l : Ledger) :
    ((List.replicate n LOp.tcpChunk).foldl Ledger.applyLeaky l).retained = l.retained + n := by
  induction n generalizing l with
  | zero => simp
  | succ n ih => simp [List.replicate_succ, ih, Ledger.applyLeaky]; omega

end Tickit
