/-
C02 for EVERY any-order execution, at every nesting level: who is handed an `Input`, who a `Skip`,
what the `Input` carries — and that all of this is the same in every execution.

`Props/C02.lean` states C02 for the closed tick system `TickSys` of ONE level whose components answer
by a function.  In the nested any-order semantics (`Core/SimAny.lean`) the answer of a system
component is a whole inner execution; `Lemmas/AnyDispatch.lean` threads the ghost trace of each
level's ticker through the relation (`LevelExec`: an execution with its trace and answer records)
and defines `Recv … c d`: "there is an execution of this tick in which component `c`, at whatever
depth below the level, is handed dispatch `d` by the ticker of its own level":

    # core/management/ticker.py, schedule_possible_updates
    if self.inputs[component] or component in self.roots:
        updating[component] = asyncio.create_task(self.update_component(Input(component, self.time, self.inputs[component])))
    else:
        updating[component] = asyncio.create_task(self.skip_component(Skip(component, self.time, Changes(Map()))))

The determinism statement is a consequence of `tickLevelAny_det` at trace level (`recv_det`), not of
the FIFO model; the observation-level statements follow from `nested_any_order_deterministic`.
-/
import TickitModel.Lemmas.AnyDispatch
import TickitModel.Props.C08NestedAny
import TickitModel.Props.C01NestedAny
import TickitModel.Lemmas.AnyTransferLemmas

namespace Tickit

/-- executions and traced executions are the same thing: every `TickLevelAny` execution has a ticker
trace and answer records (`LevelExec`), and forgetting them gives back the execution. -/
theorem any_order_trace_exists (S : Static) (orc : Oracle) (lvl : Comp) (t : SimTime)
    (roots : List Comp) (inCh : List (Port × V)) (st : SimSt) (r : SimSt × List (Port × V)) :
    TickLevelAny S orc lvl t roots inCh st r ↔
      ∃ L tr recs, LevelExec S orc lvl t roots inCh st r L tr recs :=
  ⟨fun h => h.levelExec, fun ⟨_, _, _, h⟩ => h.toAny⟩

/-- **C02 at every level of every any-order execution: who is updated, who is skipped, what it is
given.**  Let `tr` be the ticker trace of an execution of a tick of level `lvl` (wiring `L.wiring`,
time `t`, roots `roots`) — the master's tick or the inner tick of a system simulation at any depth,
any answer order.  Then
 * a component gets no dispatch at all iff it is not downstream of a root;
 * otherwise it gets exactly one dispatch, carrying the tick's time: an `Input` iff it is a root or at
   least one of its wired input ports was reported changed by an answer of this tick, and then the
   `Input` carries EXACTLY the changed wired ports (port `q` carries `v` iff the output wired to `q`
   was reported with value `v`); a `Skip` otherwise;
 * the answers in the trace are those of the addressed components (device: its recorded response,
   system: an any-order execution of its inner level, to which this theorem applies again). -/
theorem any_order_input_iff_root_or_changed (S : Static) (hS : S.Valid) (orc : Oracle) (lvl : Comp)
    (t : SimTime) (roots : List Comp) (inCh : List (Port × V)) (hn : (akeys inCh).Nodup) (st : SimSt)
    (r : SimSt × List (Port × V)) (L : Level) (tr : List (Ev V)) (recs : List AnsRec)
    (h : LevelExec S orc lvl t roots inCh st r L tr recs) :
    (∀ c, dispatchOf tr c = none ↔ c ∉ extent L.wiring roots) ∧
    (∀ c d, dispatchOf tr c = some d →
      ((∃ ins, d = .input c t ins) ↔ (c ∈ roots ∨ ∃ q v, Changed L.wiring tr c q v)) ∧
      (∀ ins, d = .input c t ins → ∀ q v, alookup ins q = some v ↔ Changed L.wiring tr c q v) ∧
      (d = .skip c t ∨ ∃ ins, d = .input c t ins)) ∧
    (∀ a ch, Ev.answer a ch ∈ tr → ∃ d σ σ' ca, dispatchOf tr a = some d ∧
      AnsP S orc (TickLevelAny S orc) L inCh σ d (σ', ch, ca)) := by
  obtain ⟨h1, h2, h3, h4⟩ := h.dispatch_spec hS hn
  refine ⟨h1, fun c d hd => ?_, fun a ch hm => ?_⟩
  · rcases h2 c d hd with ⟨ins, rfl, hrc, hch⟩ | ⟨rfl, hnr, hnc⟩
    · refine ⟨⟨fun _ => hrc, fun _ => ⟨ins, rfl⟩⟩, ?_, Or.inr ⟨ins, rfl⟩⟩
      intro ins' he
      cases he
      exact hch
    · refine ⟨⟨?_, ?_⟩, ?_, Or.inl rfl⟩
      · rintro ⟨ins, he⟩
        cases he
      · rintro (hr | ⟨q, v, hc⟩)
        · exact absurd hr hnr
        · exact absurd hc (hnc q v)
      · intro ins he
        cases he
  · obtain ⟨rec, hrec, rfl, rfl⟩ := (h3 a ch).1 hm
    obtain ⟨hd, ha⟩ := h4 rec hrec
    exact ⟨rec.d, rec.pre, rec.post, rec.ca, hd, ha⟩

/-- **C02, schedule independence at every depth.**  On a valid configuration: if in SOME execution of
a tick (any answer order at every level) component `c` — a component of the level, or of a system
simulation at any depth below it — is handed the dispatch `d`, then in EVERY execution of the same
tick (same time, root sets equal as sets, input changes equal as mappings) from an equivalent state
`c` is handed an equivalent dispatch: an `Input` in both or a `Skip` in both, with the same time and,
for an `Input`, the same changes as a mapping.  For the code: which components' devices are invoked
in a tick, and with which changes, does not depend on the order in which the bus delivers messages —
also inside system simulations. -/
theorem any_order_same_dispatch (S : Static) (hS : S.Valid) (orc : Oracle) (lvl : Comp) (t : SimTime)
    (roots roots' : List Comp) (inCh inCh' : List (Port × V)) (st st' : SimSt)
    (r r' : SimSt × List (Port × V))
    (hroots : ∀ c, c ∈ roots ↔ c ∈ roots') (hin : MapEq inCh inCh')
    (hn : (akeys inCh).Nodup) (hn' : (akeys inCh').Nodup) (hst : st.Equiv st')
    (h2 : TickLevelAny S orc lvl t roots' inCh' st' r') (c : Comp) (d : Dispatch V)
    (h : Recv S orc lvl t roots inCh st r c d) :
    ∃ d', Recv S orc lvl t roots' inCh' st' r' c d' ∧ Dispatch.Equiv d d' :=
  recv_det hS h roots' inCh' st' r' hroots hin hn hn' (fun x _ => hst x) h2

/-- the same component set is dispatched in every execution, at every depth: `c` is handed a dispatch
in an execution ending in `r` iff it is handed one in an execution ending in `r'`. -/
theorem any_order_dispatched_iff (S : Static) (hS : S.Valid) (orc : Oracle) (lvl : Comp) (t : SimTime)
    (roots roots' : List Comp) (inCh inCh' : List (Port × V)) (st st' : SimSt)
    (r r' : SimSt × List (Port × V))
    (hroots : ∀ c, c ∈ roots ↔ c ∈ roots') (hin : MapEq inCh inCh')
    (hn : (akeys inCh).Nodup) (hn' : (akeys inCh').Nodup) (hst : st.Equiv st')
    (h1 : TickLevelAny S orc lvl t roots inCh st r)
    (h2 : TickLevelAny S orc lvl t roots' inCh' st' r') (c : Comp) :
    (∃ d, Recv S orc lvl t roots inCh st r c d) ↔ (∃ d', Recv S orc lvl t roots' inCh' st' r' c d') := by
  constructor
  · rintro ⟨d, h⟩
    obtain ⟨d', h', _⟩ := any_order_same_dispatch S hS orc lvl t roots roots' inCh inCh' st st' r r'
      hroots hin hn hn' hst h2 c d h
    exact ⟨d', h'⟩
  · rintro ⟨d, h⟩
    obtain ⟨d', h', _⟩ := any_order_same_dispatch S hS orc lvl t roots' roots inCh' inCh st' st r' r
      (fun x => (hroots x).symm) hin.symm hn' hn hst.symm h1 c d h
    exact ⟨d', h'⟩

/-- every dispatch handed out in a tick, at whatever depth, is addressed to the component that
receives it and carries the tick's time; every component downstream of a root of the level gets one. -/
theorem any_order_dispatch_time (S : Static) (hS : S.Valid) (orc : Oracle) (lvl : Comp) (t : SimTime)
    (roots : List Comp) (inCh : List (Port × V)) (hn : (akeys inCh).Nodup) (st : SimSt)
    (r : SimSt × List (Port × V)) :
    (∀ c d, Recv S orc lvl t roots inCh st r c d → d.time = t ∧ d.comp = c) ∧
    (TickLevelAny S orc lvl t roots inCh st r → ∀ L, S.level lvl = some L →
      ∀ c ∈ extent L.wiring roots, ∃ d, Recv S orc lvl t roots inCh st r c d) :=
  ⟨fun _ _ h => h.time_eq hS hn, fun h _ hL _ hc => Recv.of_extent hS hn h hL hc⟩

/-- **C02 at observation level** (what the devices see): in two executions of the same tick from
equivalent states, a device — at whatever depth — is updated in one iff it is updated in the other,
at most once, at the tick's time, and with the same (merged) inputs as a mapping. -/
theorem any_order_same_updates (S : Static) (hS : S.Valid) (orc : Oracle) (lvl : Comp) (t : SimTime)
    (roots roots' : List Comp) (inCh inCh' : List (Port × V)) (st st' : SimSt)
    (r r' : SimSt × List (Port × V))
    (hroots : ∀ c, c ∈ roots ↔ c ∈ roots') (hin : MapEq inCh inCh')
    (hn : (akeys inCh).Nodup) (hn' : (akeys inCh').Nodup) (hst : st.Equiv st')
    (h1 : TickLevelAny S orc lvl t roots inCh st r)
    (h2 : TickLevelAny S orc lvl t roots' inCh' st' r') (x : Comp) :
    (r.1.obsOf x = st.obsOf x ∧ r'.1.obsOf x = st'.obsOf x) ∨
      ∃ m m', r.1.obsOf x = st.obsOf x ++ [(t, m)] ∧ r'.1.obsOf x = st'.obsOf x ++ [(t, m')] ∧
        MapEq m m' := by
  have hob := any_order_same_observations S hS orc lvl t roots roots' inCh inCh' st st' r r' hroots hin
    hn hn' hst h1 h2 x
  have hob0 : ObsEq (st.obsOf x) (st'.obsOf x) := (hst x).ob
  have hl := obsEq_length hob
  have hl0 := obsEq_length hob0
  rcases any_order_update_at_most_once S hS orc lvl t roots inCh hn st r h1 x with e1 | ⟨m, e1⟩ <;>
    rcases any_order_update_at_most_once S hS orc lvl t roots' inCh' hn' st' r' h2 x with e2 | ⟨m', e2⟩
  · exact Or.inl ⟨e1, e2⟩
  · rw [e1, e2] at hl; simp at hl; omega
  · rw [e1, e2] at hl; simp at hl; omega
  · refine Or.inr ⟨m, m', e1, e2, ?_⟩
    rw [e1, e2] at hob
    have hk : (st.obsOf x ++ [(t, m)])[(st.obsOf x).length]? = some (t, m) := by simp
    obtain ⟨y, hy, _, hm⟩ := obsEq_getElem? hob _ hk
    rw [hl0] at hy
    simp at hy
    subst hy
    exact hm

end Tickit
