/-
C19 with CANCELLATION — the ZeroMQ push stream (`adapters/io/zeromq_push_io.py`) when any
suspended sender task may be cancelled at any suspension point (`Core/ZmqCancel.lean`).

All theorems are about `ZmqC.init.run acts` for an ARBITRARY list `acts` of actions: queueing,
spawning direct sequences, the `_ensure_socket` of `setup`, moves of senders in any order, and
any number of `cancel k` at any place (lock queue, inside the factory, inside `drain()`,
inside `queue.get()`).
-/
import TickitModel.Lemmas.ZmqCancelMono
import TickitModel.Lemmas.ZmqCancelErase
import TickitModel.Lemmas.ZmqCancelLive
import TickitModel.Lemmas.ZmqSharedLemmas

namespace Tickit

/-! ## 1. one socket -/

/-- **at most one socket is ever created.**  "Created" means: a call of the socket factory
RETURNED, i.e. the assignment `self._socket = await self._socket_factory(..)` was executed
(`completed` counts exactly these).  A factory call that is cancelled raises at the `await`,
never reaches the assignment and hands no socket to the io; such calls are counted in
`aborted` and there can be any number of them — the factory must be called again afterwards,
otherwise no socket would ever exist, so "calls started ≤ 1" is NOT the property.
For every history:
 * `completed ≤ 1`, and `completed = 1` exactly when `_socket` is set;
 * calls started = completed + aborted + (1 if a call is running now, which is exactly when
   the lock is held) — in particular at most one call runs at any moment;
 * the lock is never held once the socket exists;
 * once anything has been written a call has completed. -/
theorem one_socket_cancel (acts : List ZCAct) :
    let c := ZmqC.init.run acts
    c.completed ≤ 1 ∧
    c.completed = (if c.base.socket then 1 else 0) ∧
    c.base.factoryCalls = c.completed + c.aborted + (if c.base.lockHeld.isSome then 1 else 0) ∧
    (c.base.socket = true → c.base.lockHeld = none) ∧
    (c.base.writes ≠ [] → c.completed = 1) := by
  intro c
  have h : CInv c := CInv.run_init acts
  refine ⟨by rw [h.comp]; split <;> omega, h.comp, h.calls, fun hs => ?_, fun hw => ?_⟩
  · cases hl : c.base.lockHeld with
    | none => rfl
    | some x => have := h.excl (by simp [hl]); rw [hs] at this; cases this
  · rw [h.comp, if_pos (h.wsock hw)]

/-- **a completed factory call is never repeated**: once the socket is stored it stays
stored, and no factory call is even STARTED any more, whatever happens afterwards (more
senders, more cancellations). -/
theorem socket_never_replaced (acts more : List ZCAct)
    (hs : (ZmqC.init.run acts).base.socket = true) :
    let c := ZmqC.init.run acts
    let c' := ZmqC.init.run (acts ++ more)
    c'.base.socket = true ∧ c'.base.factoryCalls = c.base.factoryCalls ∧
      c'.completed = 1 ∧ c.completed = 1 := by
  intro c c'
  have h : CInv c := CInv.run_init acts
  have h' : CInv c' := CInv.run_init _
  obtain ⟨m1, m2, _, _⟩ := ZmqC.run_mono h more
  have e : c' = c.run more := ZmqC.run_append _ _ _
  have hs' : c'.base.socket = true := by rw [e]; exact m1 hs
  refine ⟨hs', by rw [e]; exact m2 hs, ?_, ?_⟩
  · rw [h'.comp, if_pos hs']
  · rw [h.comp, if_pos hs]

/-- **the lock is never orphaned**: in every reachable state, if the lock is held its holder
is a task that was NOT cancelled and sits inside the factory, every task queued on the lock is
a task that was not cancelled and sits in `acquire()`, and nobody queues twice.  (A cancelled
holder released in `__aexit__`, a cancelled waiter left the queue.)  This is why no pattern of
cancellations can dead-lock `_ensure_socket`. -/
theorem lock_never_orphaned (acts : List ZCAct) :
    let c := ZmqC.init.run acts
    (∀ h, c.base.lockHeld = some h →
      h ∉ c.cancelled ∧ ∃ s, c.base.senders[h]? = some s ∧ s.pc = .inFactory) ∧
    (∀ w ∈ c.base.waiters, w ∉ c.cancelled ∧ ∃ s, c.base.senders[w]? = some s ∧ s.pc = .wantLock) ∧
    c.base.waiters.Nodup ∧
    (∀ k ∈ c.cancelled, c.base.lockHeld ≠ some k ∧ k ∉ c.base.waiters) := by
  intro c
  have h : CInv c := CInv.run_init acts
  refine ⟨fun x hx => ⟨(h.held x hx).1, get_of_pcAt (h.held x hx).2⟩,
    fun w hw => ⟨(h.wait w hw).1, get_of_pcAt (h.wait w hw).2⟩, h.nodup,
    fun k hk => ⟨fun hl => (h.held k hl).1 hk, fun hw => (h.wait k hw).1 hk⟩⟩

/-! ## 2. a cancellation never blocks the others -/

/-- **progress**: take ANY reachable state (any cancellations so far, anywhere) and any task
`k` that was not cancelled and is inside `send_message` before its write — about to take the
lock, queued on it behind any number of waiters, behind a holder, or inside the factory —
holding message `m`.  Then there is a finite schedule consisting only of sender moves (no
further cancellation, no new task, no new message), every move of which is enabled, after
which `k` has written `m` (the writes of `k` grew by exactly `[m]`), the socket exists and
nobody else was cancelled.  So no pattern of cancellations of OTHER tasks can leave `k`
without the socket. -/
theorem cancel_does_not_block (acts : List ZCAct) (k : Nat) (s : Sender) (m : Nat) :
    let c := ZmqC.init.run acts
    c.base.senders[k]? = some s → k ∉ c.cancelled →
    (s.pc = .wantLock ∨ s.pc = .inFactory ∨ s.pc = .ready) → s.cur = some m →
    ∃ sched c', c.exec (zsteps sched) = some c' ∧ c'.base.wr k = c.base.wr k ++ [m] ∧
      c'.base.socket = true ∧ c'.cancelled = c.cancelled := by
  intro c hk hlive hpc hcur
  have h : CInv c := CInv.run_init acts
  obtain ⟨sched, c', he, hs⟩ := zlive_send h hk hlive hpc
  have hwr : c'.base.wr k = c.base.wr k ++ [m] := by rw [hs.wr, hcur]; rfl
  refine ⟨sched, c', he, hwr, ?_, hs.dead⟩
  apply (h.exec he).wsock
  intro hnil
  have : c'.base.wr k = [] := by simp [Zmq.wr, hnil]
  rw [this] at hwr
  exact absurd hwr.symm (by simp)

/-- the same for the bare `_ensure_socket()` of `setup` (no message): a live caller leaves
`_ensure_socket` with the socket. -/
theorem ensure_gets_socket (acts : List ZCAct) (k : Nat) (s : Sender) :
    let c := ZmqC.init.run acts
    c.base.senders[k]? = some s → k ∉ c.cancelled → (s.pc = .wantLock ∨ s.pc = .inFactory) →
    ∃ sched c', c.exec (zsteps sched) = some c' ∧ c'.base.socket = true ∧
      c'.base.senders[k]? = some { s with pc := .ready } ∧ c'.cancelled = c.cancelled := by
  intro c hk hlive hpc
  have h : CInv c := CInv.run_init acts
  obtain ⟨sched, c', he, hm⟩ := zlive_ensure h hk hlive hpc
  exact ⟨sched, c', he, (h.exec he).sock k (Or.inl (by rw [pcAt_of_get hm.snd])), hm.snd, hm.dead⟩

/-! ## 3. exactly once, in order -/

/-- **queue order, at most once — whatever is cancelled**: what the queue loop (sender 0) has
written, followed by the one message it may hold, followed by the remaining queue, is exactly
the sequence of all messages ever queued.  So the written messages are a prefix of the queued
ones: none twice, none out of order, none invented.  (If the loop is cancelled while holding
a message, that message is `inflight` for ever: lost, not duplicated.) -/
theorem queued_in_order_once_cancel (acts : List ZCAct) :
    let c := ZmqC.init.run acts
    ∃ inflight : List Nat, inflight.length ≤ 1 ∧
      c.base.wr 0 ++ inflight ++ c.base.queue = c.base.queued := by
  obtain ⟨s0, _, hq⟩ := (CInv.run_init acts).acc.q
  exact ⟨s0.infl, s0.infl_length_le, hq⟩

/-- **direct sequences, at most once in order — for cancelled and non-cancelled senders
alike**: written ++ (message in hand) ++ (not yet started) = the sequence given to
`send_message_sequence_soon`. -/
theorem direct_in_order_cancel (acts : List ZCAct) (i : Nat) (hi : 0 < i) (s : Sender)
    (hs : (ZmqC.init.run acts).base.senders[i]? = some s) :
    ∃ inflight : List Nat, inflight.length ≤ 1 ∧
      (ZmqC.init.run acts).base.wr i ++ inflight ++ s.todo = s.orig :=
  ⟨s.infl, s.infl_length_le, (CInv.run_init acts).acc.d i s hi hs⟩

/-- **a cancelled task is finished**: it stays cancelled, its record is frozen and it never
writes again, whatever happens later.  With the two theorems above: a cancelled sender's
message is written at most once. -/
theorem cancelled_never_writes (acts more : List ZCAct) (k : Nat)
    (hk : k ∈ (ZmqC.init.run acts).cancelled) :
    let c := ZmqC.init.run acts
    let c' := ZmqC.init.run (acts ++ more)
    k ∈ c'.cancelled ∧ c'.base.wr k = c.base.wr k ∧ c'.base.senders[k]? = c.base.senders[k]? := by
  intro c c'
  have e : c' = c.run more := ZmqC.run_append _ _ _
  obtain ⟨_, _, m3, m4⟩ := ZmqC.run_mono (CInv.run_init acts) more
  rw [e]
  exact ⟨m3 k hk, (m4 k hk).2, (m4 k hk).1⟩

/-- **a non-cancelled direct sender gets its whole sequence written, exactly once each, in
order**: from any reachable state, for any sequence task `k` that was not cancelled, there is
a finite schedule of sender moves (no further cancellation) after which the messages written
by `k` are exactly the list it was spawned with. -/
theorem direct_all_written_cancel (acts : List ZCAct) (k : Nat) (hk0 : k ≠ 0) (s : Sender) :
    let c := ZmqC.init.run acts
    c.base.senders[k]? = some s → k ∉ c.cancelled →
    ∃ sched c', c.exec (zsteps sched) = some c' ∧ c'.cancelled = c.cancelled ∧ c'.base.wr k = s.orig := by
  intro c hk hlive
  exact zlive_direct_done (CInv.run_init acts) hk0 hk hlive

/-- **while the forwarding task is not cancelled every queued message gets written, exactly
once each, in queue order**: from any reachable state in which sender 0 was not cancelled
there is a finite schedule of sender moves after which the queue is empty and the messages
written by sender 0 are exactly the messages ever queued. -/
theorem queue_all_written_cancel (acts : List ZCAct) :
    let c := ZmqC.init.run acts
    0 ∉ c.cancelled →
    ∃ sched c', c.exec (zsteps sched) = some c' ∧ c'.cancelled = c.cancelled ∧
      c'.base.wr 0 = c.base.queued ∧ c'.base.queue = [] := by
  intro c hlive
  exact zlive_queue_done (CInv.run_init acts) hlive

/-! ## 4. consistency with `Core/Zmq.lean` -/

/-- **erasure**: a history without `cancel` actions is a history of the system of
`Core/Zmq.lean` — same shared state at the end, nobody cancelled, no call aborted.  Hence
`one_socket`, `queued_in_order_once`, `direct_in_order` of `Props/C19.lean` are the
cancel-free special cases of the theorems here. -/
theorem cancel_free_is_base (acts : List ZCAct) (hno : ∀ a ∈ acts, a.isCancel = false) :
    (ZmqC.init.run acts).base = Zmq.init.run (eraseCancel acts) ∧
      (ZmqC.init.run acts).cancelled = [] ∧ (ZmqC.init.run acts).aborted = 0 :=
  ZmqC.run_erase rfl acts hno

/-- conversely every history of `Core/Zmq.lean` is a history of the new system. -/
theorem base_is_cancel_free (acts : List ZAct) :
    (ZmqC.init.run (acts.map .base)).base = Zmq.init.run acts := by
  have := (ZmqC.run_erase (c := ZmqC.init) rfl (acts.map .base)
    (by intro a ha; simp at ha; obtain ⟨_, _, rfl⟩ := ha; rfl)).1
  rwa [eraseCancel_map_base] at this

/-- a strict execution (every action enabled) is a history, so everything above also holds
after the schedules produced by the progress theorems. -/
theorem exec_is_run (acts sched : List ZCAct) (c' : ZmqC)
    (h : (ZmqC.init.run acts).exec sched = some c') : ZmqC.init.run (acts ++ sched) = c' := by
  rw [ZmqC.run_append]; exact ZmqC.run_of_exec h

/-! ## 5. the seeded variant: a shared future awaited without `shield` -/

/-- the start-up race: `setup` (task 1), the queue loop holding message 5 (task 0) and a direct
send of message 7 (task 2) are all inside `_ensure_socket` while the socket connects. -/
def zmqRaceF : List ZFAct :=
  [.base .ensure, .base (.enqueue 5), .base (.spawn [7]), .base (.step 0), .base (.step 2),
   .base (.step 1), .base (.step 0), .base (.step 2)]

/-- the same race in the real code: task 1 holds the lock inside the factory, tasks 0 and 2
queue on the lock. -/
def zmqRaceC : List ZCAct :=
  [.base .ensure, .base (.enqueue 5), .base (.spawn [7]), .base (.step 0), .base (.step 2),
   .base (.step 1), .base (.step 0), .base (.step 2)]

/-- **seeded variant: ONE cancellation kills the stream for everybody, for ever.**  In the
variant (`Core/ZmqSharedFuture.lean`) cancel the direct send (task 2) during the race.  Then
for EVERY continuation — any scheduling, new messages, new senders, the connection coming up,
no further cancellation needed — nothing is ever written, no socket is ever stored, and
nobody ever gets past `_ensure_socket`. -/
theorem seeded_one_cancel_kills_stream (more : List ZFAct) :
    let z := ZmqF.init.run (zmqRaceF ++ [.cancel 2] ++ more)
    z.writes = [] ∧ z.socket = false ∧ z.fut = .cancelled ∧
      ∀ s ∈ z.senders, s.pc ≠ .ready ∧ s.pc ≠ .draining := by
  intro z
  have h0 : FDead (ZmqF.init.run (zmqRaceF ++ [.cancel 2])) := by
    refine ⟨by decide, by decide, by decide, by decide⟩
  have : FDead z := by
    show FDead (ZmqF.init.run (zmqRaceF ++ [.cancel 2] ++ more))
    rw [ZmqF.run_append]; exact h0.run more
  exact ⟨this.wr, this.sock, this.fut, this.pcs⟩

/-- in the variant the two tasks nobody cancelled are thrown out with a `CancelledError` as
soon as they are scheduled: `setup` (1) and the queue loop (0), whose message 5 is lost. -/
example :
    let z := ZmqF.init.run (zmqRaceF ++ [.cancel 2, .base (.step 0), .base (.step 1)])
    z.cancelled = [2] ∧ z.failed = [1, 0] ∧ z.writes = [] ∧ z.queued = [5] := by
  decide

/-- without the cancellation the variant behaves: one factory call, both messages written. -/
example :
    let z := ZmqF.init.run (zmqRaceF ++ [.connected, .base (.step 0), .base (.step 1), .base (.step 2),
      .base (.step 0), .base (.step 1), .base (.step 2)])
    z.factoryCalls = 1 ∧ z.writes = [(0, 5), (2, 7)] ∧ z.failed = [] := by
  decide

/-- **the real code, same incident**: cancelling the queued direct send (task 2) only removes
it from the lock queue; the holder finishes, the queue loop writes message 5. -/
example :
    let c := ZmqC.init.run (zmqRaceC ++ [.cancel 2] ++ zsteps [1, 0, 0, 1])
    c.base.writes = [(0, 5)] ∧ c.cancelled = [2] ∧ c.completed = 1 ∧ c.aborted = 0 ∧
      c.base.waiters = [] ∧ c.base.lockHeld = none := by
  decide

/-! ## non-vacuity of the theorems about the real code -/

/-- the HOLDER (task 1, `setup`) is cancelled inside the factory: `_socket` stays `None`, the
lock is released, the call is counted as aborted; the next waiter (task 0) calls the factory
again and this call completes.  Two calls started, ONE socket created, both messages written. -/
example :
    let c := ZmqC.init.run (zmqRaceC ++ [.cancel 1] ++ zsteps [0, 0, 0, 2, 2])
    c.base.factoryCalls = 2 ∧ c.completed = 1 ∧ c.aborted = 1 ∧ c.base.socket = true ∧
      c.base.writes = [(0, 5), (2, 7)] ∧ c.cancelled = [1] := by
  decide

/-- the state right after that cancellation: no socket, lock free, tasks 0 and 2 still queued
(the hypotheses of `cancel_does_not_block` hold for `k = 2`, `m = 7`, behind waiter 0). -/
example :
    let c := ZmqC.init.run (zmqRaceC ++ [.cancel 1])
    c.base.socket = false ∧ c.base.lockHeld = none ∧ c.base.waiters = [0, 2] ∧ c.aborted = 1 ∧
      2 ∉ c.cancelled ∧ (c.base.senders[2]?).map (fun s => (s.pc, s.cur)) = some (.wantLock, some 7) := by
  decide

/-- ... and a schedule as promised by `cancel_does_not_block`: waiter 0 goes through (creating
the socket), then task 2 writes 7. -/
example :
    let c := ZmqC.init.run (zmqRaceC ++ [.cancel 1])
    ∃ c', c.exec (zsteps [0, 0, 2, 2]) = some c' ∧ c'.base.wr 2 = c.base.wr 2 ++ [7] ∧
      c'.base.socket = true ∧ c'.cancelled = c.cancelled := by
  refine ⟨_, rfl, ?_, ?_, ?_⟩ <;> decide

/-- every waiter but one cancelled, then the holder cancelled too (two cancelled factory
calls in a row are possible as well): the survivor still creates the socket and writes. -/
example :
    let c := ZmqC.init.run (zmqRaceC ++ [.cancel 0, .cancel 1] ++ zsteps [2, 2, 2])
    c.base.writes = [(2, 7)] ∧ c.completed = 1 ∧ c.aborted = 1 ∧ c.base.factoryCalls = 2 ∧
      c.base.wr 0 = [] ∧ c.base.queued = [5] := by
  decide

/-- the queue loop cancelled inside `drain()` after its first message: the later messages stay
in the queue (`queued_in_order_once_cancel` with `inflight = []`), nothing is written twice. -/
example :
    let c := ZmqC.init.run ([.base (.enqueue 1), .base (.enqueue 2)] ++ zsteps [0, 0, 0, 0] ++
      [.cancel 0] ++ zsteps [0, 0, 0])
    c.base.writes = [(0, 1)] ∧ c.base.queue = [2] ∧ c.base.queued = [1, 2] ∧ c.cancelled = [0] := by
  decide

/-- a finished task cannot be cancelled (`Task.cancel()` returns `False`): the action is skipped. -/
example :
    let c := ZmqC.init.run ([.base (.spawn [7])] ++ zsteps [1, 1, 1, 1, 1] ++ [.cancel 1])
    c.base.writes = [(1, 7)] ∧ c.cancelled = [] := by
  decide

/-- a history with cancellations for `socket_never_replaced` / `cancelled_never_writes`. -/
example :
    let acts := zmqRaceC ++ [.cancel 1] ++ zsteps [0, 0]
    (ZmqC.init.run acts).base.socket = true ∧ 1 ∈ (ZmqC.init.run acts).cancelled := by
  decide

end Tickit
