/-
C10 over many ticks — an unconnected part of a flat simulation is never influenced by the rest:
in EVERY run of the whole (any answer orders, devices that may change from tick to tick) every
component of the part makes exactly the observations it makes in a run of the part alone; the
rest only adds ticks in which nothing of the part is updated.

Helper lemmas: `Lemmas/PartRunLemmas.lean` (namespace `Tickit.PartRun`).  One tick:
`Props/C10.lean`.
-/
import TickitModel.Lemmas.PartRunLemmas
import TickitModel.Props.C10
import TickitModel.Props.C08
import TickitModel.Props.C02

namespace Tickit

variable {Val : Type} [DecidableEq Val]

/-- **multi-tick noninterference of a disconnected part.**  Let `A` be the set of components of
`wa`, and let no wire of `w` connect `A` to the rest (`IsPart w wa A`).  Take ANY run of the whole
flat system over `w`: initial tick plus `n` callback ticks, any answer orders, device behaviours
`devs k` possibly different at every tick `k` (extensional).  Then there is a run of the part
alone over `wa` — its `j`-th tick uses the device behaviours `devs (idx j)` of the corresponding
tick of the whole, `idx` strictly increasing with `idx 0 = 0` — whose ticks are ticks of the whole
(`timesA.Sublist times`), in which every component of `A` has THE SAME OBSERVATION SEQUENCE as in
the whole run.  Adding the rest never changes, adds, removes or reorders an observation of `A`.

Differences to the planned statement: `[DecidablePred A]` is not needed; added hypotheses are
`RouterOK w`, `RouterOK wa`, `w.WF`, `wa.WF`, `wa.Acyclic` (not `w.Acyclic`: the run of the whole
is given) and `hA` (the part consists of the components of `wa` — `IsPart` alone does not tie `A`
to `wa.components`, and the initial tick of the part has roots `wa.components`: for
`w = [("a", [])]`, `wa = [("a", []), ("x", [])]`, `A = (· = "a")` one has `IsPart w wa A`, but a
run of `wa` also ticks for the callbacks of `x`, at times that are no tick times of `w`). -/
theorem part_run_same (w wa : Wiring) (A : Comp → Prop) (hp : IsPart w wa A)
    (hw : RouterOK w) (hwa : RouterOK wa) (hwf : w.WF) (hwfa : wa.WF) (hacyca : wa.Acyclic)
    (hA : ∀ c, A c ↔ c ∈ wa.components)
    (devs : DevSeq Val) (hext : ∀ k, DevExt (devs k)) (t0 : SimTime) (n : Nat) (st : FlatSt Val)
    (times : List SimTime) (h : FlatRun w devs t0 n st times) :
    ∃ (idx : Nat → Nat) (m : Nat) (sa : FlatSt Val) (timesA : List SimTime),
      idx 0 = 0 ∧ (∀ j, j < m → idx j < idx (j + 1)) ∧ idx m ≤ n ∧
      FlatRun wa (fun j => devs (idx j)) t0 m sa timesA ∧
      timesA.Sublist times ∧
      ∀ c, A c → ObsEq (st.obsOf c) (sa.obsOf c) := by
  obtain ⟨idx, m, sa, timesA, h0, hmono, hle, hrun, hsub, hloc, _⟩ :=
    PartRun.run_inv_components hp hw hwa hwf hwfa hacyca hA hext h
  exact ⟨idx, m, sa, timesA, h0, hmono, hle, hrun, hsub, fun c hc => (hloc c hc).ob⟩

/-- … and the run of the part is THE run of the part: by schedule independence (C08) every other
run of `wa` with the same device behaviours and the same number of ticks has the same tick times
and the same observations.  So whatever the rest does, `A` observes what it observes alone. -/
theorem part_run_same_any (w wa : Wiring) (A : Comp → Prop) (hp : IsPart w wa A)
    (hw : RouterOK w) (hwa : RouterOK wa) (hwf : w.WF) (hwfa : wa.WF) (hacyca : wa.Acyclic)
    (hA : ∀ c, A c ↔ c ∈ wa.components)
    (devs : DevSeq Val) (hext : ∀ k, DevExt (devs k)) (t0 : SimTime) (n : Nat) (st : FlatSt Val)
    (times : List SimTime) (h : FlatRun w devs t0 n st times) :
    ∃ (idx : Nat → Nat) (m : Nat) (timesA : List SimTime),
      idx 0 = 0 ∧ (∀ j, j < m → idx j < idx (j + 1)) ∧ idx m ≤ n ∧ timesA.Sublist times ∧
      (∃ sa, FlatRun wa (fun j => devs (idx j)) t0 m sa timesA) ∧
      ∀ sa timesA', FlatRun wa (fun j => devs (idx j)) t0 m sa timesA' →
        timesA' = timesA ∧ ∀ c, A c → ObsEq (st.obsOf c) (sa.obsOf c) := by
  obtain ⟨idx, m, sa, timesA, h0, hmono, hle, hrun, hsub, hloc, _⟩ :=
    PartRun.run_inv_components hp hw hwa hwf hwfa hacyca hA hext h
  refine ⟨idx, m, timesA, h0, hmono, hle, hsub, ⟨sa, hrun⟩, fun sa' timesA' hrun' => ?_⟩
  obtain ⟨ht, hl⟩ := Det.flatRun_loc_equiv hwa hacyca (fun j => hext (idx j)) hrun hrun'
  exact ⟨ht.symm, fun c hc => PartRun.obsEq_trans (hloc c hc).ob (hl c).ob⟩

/-- **a configuration extended by a disconnected part.**  `wa` and `wb` are well-formed wirings
(Python dicts of dicts of sets, one source per input port) over disjoint component sets, `wa`
acyclic.  In every run of the union `wa ++ wb` the components of `wa` observe exactly what they
observe in a run of `wa` alone; the hypotheses speak about `wa` and `wb` only (nothing is
required of `wb` beyond well-formedness: it may even be cyclic — then the whole has fewer runs). -/
theorem part_run_same_append (wa wb : Wiring) (hwfa : wa.WF) (hwfb : wb.WF)
    (h1a : wa.OneSource) (h1b : wb.OneSource) (hacyca : wa.Acyclic)
    (hdisj : ∀ c, c ∈ wa.components → c ∉ wb.components)
    (devs : DevSeq Val) (hext : ∀ k, DevExt (devs k)) (t0 : SimTime) (n : Nat) (st : FlatSt Val)
    (times : List SimTime) (h : FlatRun (wa ++ wb) devs t0 n st times) :
    ∃ (idx : Nat → Nat) (m : Nat) (sa : FlatSt Val) (timesA : List SimTime),
      idx 0 = 0 ∧ (∀ j, j < m → idx j < idx (j + 1)) ∧ idx m ≤ n ∧
      FlatRun wa (fun j => devs (idx j)) t0 m sa timesA ∧
      timesA.Sublist times ∧
      ∀ c, c ∈ wa.components → ObsEq (st.obsOf c) (sa.obsOf c) := by
  have hkeys : ∀ c, c ∈ akeys wa → c ∉ akeys wb := fun c hc hc' =>
    hdisj c (Wiring.mem_components_of_mem_akeys hc) (Wiring.mem_components_of_mem_akeys hc')
  have hwf : (wa ++ wb).WF := Wiring.WF_append hwfa hwfb hkeys
  exact part_run_same (wa ++ wb) wa (fun c => c ∈ wa.components)
    (IsPart.append wa wb hwfa hwfb hdisj)
    (routerOK_of_wf _ hwf (PartRun.oneSource_append hwfb hwfa hdisj h1a h1b))
    (routerOK_of_wf _ hwfa h1a) hwf hwfa hacyca (fun _ => Iff.rfl) devs hext t0 n st times h

/-! ### non-vacuity: a concrete instance

The part `exPa`: device `a` (reports its update time on port `o`, asks to be called back every
2 ns) wired to device `a2`.  The rest `exPb`: device `b` with a callback every 3 ns.  All
hypotheses of `part_run_same_append` hold, a run of the whole with two callback ticks exists (the
tick at time 3 is caused by `b` alone: the part does not tick), and the theorem applies to it. -/

def exPa : Wiring := [("a", [("o", [("a2", "i")])]), ("a2", [])]
def exPb : Wiring := [("b", [])]

/-- `exPa`, `exPb` as the code builds them: from the inverse wiring given by the configuration. -/
def exPaInv : InvWiring := [("a", []), ("a2", [("i", ("a", "o"))])]
def exPbInv : InvWiring := [("b", [])]

def exPDev : DevFn Int := fun c t _ =>
  if c = "a" then ⟨[("o", t)], some (t + 2)⟩
  else if c = "b" then ⟨[], some (t + 3)⟩
  else ⟨[], none⟩

theorem exPa_wf : exPa.WF := by unfold Wiring.WF DictWF akeys; decide
theorem exPb_wf : exPb.WF := by unfold Wiring.WF DictWF akeys; decide

theorem exPa_oneSource : exPa.OneSource := by
  have h : exPa = Wiring.fromInverse exPaInv := by decide
  rw [h]
  exact Wiring.oneSource_fromInverse _ (by unfold InvWiring.WF DictWF akeys; decide)

theorem exPb_oneSource : exPb.OneSource := by
  have h : exPb = Wiring.fromInverse exPbInv := by decide
  rw [h]
  exact Wiring.oneSource_fromInverse _ (by unfold InvWiring.WF DictWF akeys; decide)

theorem exPa_acyclic : exPa.Acyclic := by
  refine ⟨fun c => if c = "a2" then 1 else 0, ?_⟩
  have hinv : exPa.inverseTree = [("a2", ["a"]), ("a", [])] := by decide
  intro c us u hus hu
  simp only [Wiring.ups, hinv, alookup] at hus
  split at hus
  · cases hus; simp at hu; subst_vars; decide
  · split at hus
    · cases hus; simp at hu
    · cases hus

theorem exP_disjoint : ∀ c, c ∈ exPa.components → c ∉ exPb.components := by decide

theorem exPDev_ext : ∀ k : Nat, DevExt ((fun _ => exPDev : DevSeq Int) k) :=
  fun _ _ _ _ _ _ => rfl

/-- a run of the whole: initial tick at 0 (roots `a2`, `a`, `b`), callback tick at 2 (root `a`,
`a2` is updated because its input changed), callback tick at 3 (root `b` only). -/
theorem exP_run : ∃ st times, FlatRun (exPa ++ exPb) (fun _ => exPDev) 0 2 st times ∧
    times = [3, 2, 0] ∧ st.obsOf "a" = [(0, []), (2, [])] ∧
    st.obsOf "a2" = [(0, [("i", 0)]), (2, [("i", 2)])] ∧ st.obsOf "b" = [(0, []), (3, [])] ∧
    st.wake = [("a", 4), ("b", 6)] := by
  refine ⟨_, _, .tick (cs := ["b"]) (m := 3) (.tick (cs := ["a"]) (m := 2) (.initial
      ⟨_, .step (i := 0) (.step (i := 0) (.step (i := 0) (.init rfl) rfl) rfl) rfl, rfl, rfl⟩)
      rfl ⟨_, .step (i := 0) (.step (i := 0) (.init rfl) rfl) rfl, rfl, rfl⟩)
      rfl ⟨_, .step (i := 0) (.init rfl) rfl, rfl, rfl⟩, rfl, ?_, ?_, ?_, ?_⟩ <;> decide

/-- the statement is not vacuous: for the run above (and every other run of `exPa ++ exPb`) the
hypotheses hold and the part `exPa` has a run of its own with the same observations. -/
example : ∃ st times, FlatRun (exPa ++ exPb) (fun _ => exPDev) 0 2 st times ∧
    ∃ (idx : Nat → Nat) (m : Nat) (sa : FlatSt Int) (timesA : List SimTime),
      idx 0 = 0 ∧ (∀ j, j < m → idx j < idx (j + 1)) ∧ idx m ≤ 2 ∧
      FlatRun exPa (fun j => (fun _ => exPDev : DevSeq Int) (idx j)) 0 m sa timesA ∧
      timesA.Sublist times ∧
      ∀ c, c ∈ exPa.components → ObsEq (st.obsOf c) (sa.obsOf c) := by
  obtain ⟨st, times, hrun, _⟩ := exP_run
  exact ⟨st, times, hrun, part_run_same_append exPa exPb exPa_wf exPb_wf exPa_oneSource
    exPb_oneSource exPa_acyclic exP_disjoint _ exPDev_ext 0 2 st times hrun⟩

end Tickit
