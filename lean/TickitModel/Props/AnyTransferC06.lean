/-
C06 at RUN level for EVERY any-order run, through nesting.

`Props/C06Run.lean` proves callback exactness for `FlatRun` (one scheduler, devices as functions);
`Props/C08NestedAnyRun.lean` (`any_order_run_refines_flatRun`) shows that every any-order nested run
has the observations of a `FlatRun` over the resolved wiring — but exposes neither the wakeups of
that `FlatRun` nor where its device functions come from, which is what C06 talks about.  This file

 1. transfers the scheduler bookkeeping invariant of the FIFO proof of C09 (`SchedOK`, part of `Corr`,
    `Lemmas/FlattenCorrDef.lean`) to every any-order run: between ticks, at every depth, a system's
    pending callback at its parent IS the minimum of its inner wakeups, no interrupt is queued,
    every nested scheduler is past its initial tick (`any_order_run_schedOK`);
 2. derives C06 through nesting in terms of the run's own state: the master's next tick time is the
    EARLIEST callback that any device, at any depth, has pending in its own scheduler — exactly that
    time, never earlier, never later, and none if no device has one
    (`any_order_next_tick_is_min_device_callback`);
 3. strengthens the refinement: the `FlatRun` can be chosen such that its wakeups are the devices'
    pending callbacks in their own (nested) schedulers, and every value of its device functions is a
    recorded response of that component (`any_order_run_refines_flatRun_wake`); so the C06Run theorems
    with a hypothesis on `st.wake` apply with the nested run's own bookkeeping;
 4. transfers `no_invented_tick` + `callback_served_one_tick` (R4 / R2) to the observations of an
    any-order run: its latest callback tick happened at a time `m` that a component `c`, updated at an
    earlier tick of the run, asked for (`m` is the `call_at` of one of `c`'s recorded responses), and
    `c` is updated by that tick (`any_order_last_tick_requested`).

Everything is obtained from the FIFO theorems through existence of the FIFO counterpart
(`masterRunAny_fifo`) and invariance under `SimSt.Equiv`; nothing is assumed about the FIFO model.

NOT transferred (see REPORT): `callback_exact` / `callback_never_overtaken` / `callback_eventually_served`
quantify over CONTINUATIONS (`FlatExt`) of a flat run; `MasterRunAny` has no continuation relation yet,
and the `FlatRun`s obtained for a run and for a longer run are only known to exist separately.
-/
import TickitModel.Lemmas.AnyTransferFlat
import TickitModel.Props.AnyTransfer
import TickitModel.Props.C03Nested
import TickitModel.Props.C06Run

namespace Tickit

open Callback

/-- `ObsEq` against a sequence that ends in a given entry -/
theorem obsEq_append_singleton {a b : List (SimTime × List (Port × V))} {t : SimTime}
    {i : List (Port × V)} (h : ObsEq a (b ++ [(t, i)])) :
    ∃ a' i', a = a' ++ [(t, i')] ∧ ObsEq a' b ∧ MapEq i' i := by
  induction b generalizing a with
  | nil =>
    obtain ⟨i', h1, h2⟩ := obsEq_singleton h
    exact ⟨[], i', h1, trivial, h2⟩
  | cons y b ih =>
    cases a with
    | nil => simp [ObsEq] at h
    | cons x a =>
      obtain ⟨t1, i1⟩ := x
      obtain ⟨t2, i2⟩ := y
      simp only [List.cons_append, ObsEq] at h
      obtain ⟨a', i', h1, h2, h3⟩ := ih h.2.2
      exact ⟨(t1, i1) :: a', i', by rw [h1]; rfl, ⟨h.1, h.2.1, h2⟩, h3⟩

/-- **1. C06 through nesting, the bookkeeping between ticks.**  After EVERY any-order run (initial
tick + callback ticks; every tick any execution) of a valid configuration: every system
simulation's scheduler, at every depth, is past its initial tick and has no queued interrupt; the
callback a system component has pending at its parent's scheduler is exactly the minimum of the
wakeups of its own scheduler (`SystemComponent.on_tick` returns `get_first_wakeups()[1]`, the parent
stores it with `add_wakeup`), and none if it has none; every scheduler keeps wakeups only for its
own components, one entry per component. -/
theorem any_order_run_schedOK (S : Static) (hS : S.Valid) (orc : Oracle) (fuel0 : Nat) (t0 : SimTime)
    (now : Int) (sp : Speed) (steps nTicks : Nat) (r0 : MasterSt × TickRec)
    (r : MasterSt × List TickRec) (h1 : MasterInitialAny S orc t0 now r0)
    (h2 : MasterRunAny S orc fuel0 sp steps nTicks r0.1 [] [r0.2] r) : SchedOK S r.1.sim := by
  obtain ⟨F, hF⟩ := masterRunAny_fifo hS h1 h2
  obtain ⟨m, tr, m2, ticks, hmi, hmr, _, _, heq, _⟩ := hF F (Nat.le_refl _)
  obtain ⟨m2', _, _, _, hc, _⟩ :=
    fifo_run_corr_flat hS (hS.resolveStable (Nat.le_refl S.resolveFuel)) hmi hmr
  exact SchedOK.of_equiv heq.sim hc.schedOK

/-- **2. C06 through nesting: the next tick is the earliest pending device callback.**  In the final
state of every any-order run, let `W` be the master's next tick time (`get_first_wakeups()[1]` of the
master scheduler).  If `W = some w`: some device, at some depth, has a callback pending for exactly
`w` in its own scheduler (the tick is not invented), and no device at any depth has one pending for
an earlier time (no callback is overtaken or lost on the way up through the system simulations).
If `W = none`, no device has a pending callback. -/
theorem any_order_next_tick_is_min_device_callback (S : Static) (hS : S.Valid) (orc : Oracle)
    (fuel0 : Nat) (t0 : SimTime) (now : Int) (sp : Speed) (steps nTicks : Nat)
    (r0 : MasterSt × TickRec) (r : MasterSt × List TickRec) (h1 : MasterInitialAny S orc t0 now r0)
    (h2 : MasterRunAny S orc fuel0 sp steps nTicks r0.1 [] [r0.2] r) :
    (∀ w, (firstWakeups (r.1.sim.sched "").wake).2 = some w →
      (∃ d P, S.isDevice d ∧ alookup S.parent d = some P ∧
        alookup (r.1.sim.sched P).wake d = some w) ∧
      ∀ d P w', S.isDevice d → alookup S.parent d = some P →
        alookup (r.1.sim.sched P).wake d = some w' → w ≤ w') ∧
    ((firstWakeups (r.1.sim.sched "").wake).2 = none →
      ∀ d P, S.isDevice d → alookup S.parent d = some P → alookup (r.1.sim.sched P).wake d = none) := by
  obtain ⟨F, hF⟩ := masterRunAny_fifo hS h1 h2
  obtain ⟨m, tr, m2, ticks, hmi, hmr, _, _, heq, _⟩ := hF F (Nat.le_refl _)
  obtain ⟨m2', _, _, _, hc, _⟩ :=
    fifo_run_corr_flat hS (hS.resolveStable (Nat.le_refl S.resolveFuel)) hmi hmr
  have h0 := heq.sim.sched ""
  have hW : (firstWakeups (r.1.sim.sched "").wake).2 = (firstWakeups (m2'.sim.sched "").wake).2 := by
    rw [firstWakeups_snd_congr h0.ua h0.ub h0.wake]
    exact hc.firstWakeups_eq hS
  -- a device's entry in its own scheduler, in the any-order state, is its entry in the flat master
  have hdev : ∀ d P, S.isDevice d → alookup S.parent d = some P →
      alookup (r.1.sim.sched P).wake d = alookup (m2'.sim.sched "").wake d := by
    intro d P hd hP
    rw [(heq.sim.sched P).wake d, hc.wake_dev d P hd hP]
  refine ⟨fun w hw => ?_, fun hn d P hd hP => ?_⟩
  · rw [hW] at hw
    obtain ⟨⟨d, hd⟩, hle⟩ := system_callback_is_min _ hc.wake_unique' w hw
    have hdd := hc.wake_keys' d (mem_akeys_of_alookup_eq_some hd)
    obtain ⟨P, hP⟩ := Option.isSome_iff_exists.1 hdd.1
    refine ⟨⟨d, P, hdd, hP, by rw [hdev d P hdd hP]; exact hd⟩, fun d' P' w' hd' hP' hw' => ?_⟩
    rw [hdev d' P' hd' hP'] at hw'
    exact hle d' w' hw'
  · rw [hW, firstWakeups_none] at hn
    rw [hdev d P hd hP, hn]
    rfl

/-- **3. the refinement with the bookkeeping kept.**  Every any-order run of a valid nested
configuration has, device by device, the observations of a `Synced` `FlatRun` over the resolved
wiring with the run's tick times (`any_order_run_refines_flatRun`) — and that `FlatRun` can be chosen
such that
 * its pending wakeups are the devices' pending callbacks in their own schedulers in the any-order
   run's final state (so "`c` has a pending request for `t`", the hypothesis of the C06Run theorems,
   can be read off the nested run), only devices have entries, one entry per device;
 * its device functions are extensional and every `call_at` they return is the `call_at` of a
   recorded response of that component. -/
theorem any_order_run_refines_flatRun_wake (S : Static) (hS : S.Valid) (orc : Oracle)
    (fuel0 rfuel : Nat) (hr : S.ResolveStable rfuel) (t0 : SimTime) (now : Int) (sp : Speed)
    (steps nTicks : Nat) (r0 : MasterSt × TickRec) (r : MasterSt × List TickRec)
    (h1 : MasterInitialAny S orc t0 now r0)
    (h2 : MasterRunAny S orc fuel0 sp steps nTicks r0.1 [] [r0.2] r) :
    ∃ (devs : DevSeq V) (st : FlatSt V) (times : List SimTime),
      FlatRun (Wiring.fromInverse (S.flatInverse rfuel)) devs t0 (r.2.length - 1) st times ∧
      Synced (Wiring.fromInverse (S.flatInverse rfuel)) st ∧
      RouterOK (Wiring.fromInverse (S.flatInverse rfuel)) ∧
      times = (r.2.map (·.time)).reverse ∧
      (∀ d, ObsEq (r.1.sim.obsOf d) (st.obsOf d)) ∧
      (∀ d P, S.isDevice d → alookup S.parent d = some P →
        alookup st.wake d = alookup (r.1.sim.sched P).wake d) ∧
      (∀ c, c ∈ akeys st.wake → S.isDevice c) ∧ UniqueKeys st.wake ∧
      (∀ k, DevExt (devs k)) ∧ (∀ k, OrcResp orc (devs k)) := by
  obtain ⟨F, hF⟩ := masterRunAny_fifo hS h1 h2
  obtain ⟨m, tr, m2, ticks, hmi, hmr, _, _, heq, hticks⟩ := hF F (Nat.le_refl _)
  obtain ⟨m2', devs, fl, times, hc, hR, hfr, htimes, hext, horc, hS'⟩ := fifo_run_corr_flat hS hr hmi hmr
  have hL : (S.flatten rfuel).level "" = some ⟨"", Wiring.fromInverse (S.flatInverse rfuel)⟩ := rfl
  have hLm := (Static.level_some hL).1
  have hwf := hS'.wiring_wf _ hLm
  have hw := routerOK_of_wf _ hwf.1 hwf.2
  have hsy := synced_run _ hw (hS'.acyclic _ hLm) devs (hS'.ups_defined _ hLm) t0 _ fl times hfr
  refine ⟨devs, fl, times, by rw [hticks.length_eq]; exact hfr, hsy, hw, ?_, ?_, ?_, ?_, ?_, hext, horc⟩
  · rw [htimes, hticks.times.1]
  · intro d
    have hfl : fl.obsOf d = m2'.sim.obsOf d := obsOf_of_obs_eq hR.obs d
    rw [hfl]
    exact obsEq_trans (heq.sim d).ob (hc.obs d)
  · intro d P hd hP
    rw [hR.wake, hc.wake_dev d P hd hP, (heq.sim.sched P).wake d]
  · intro c hcm
    rw [hR.wake] at hcm
    exact hc.wake_keys' c hcm
  · rw [hR.wake]; exact hc.wake_unique'

/-- **4. C06Run R4 + R2 for the observations of an any-order run: the latest tick was asked for.**
Let an any-order run (any answer order at every level in every tick) have done at least one callback
tick; `last` is its latest tick, `pre` the ticks before.  Then there is a component `c` such that
 * `last.time` is the `call_at` of one of the recorded responses of `c` (no tick at a time nobody
   asked for),
 * `c` was updated at an earlier tick of the run (time `t_req ∈ pre`), and
 * `c` is updated by this tick: its latest observation is stamped `last.time` (the requester is
   served by the tick at exactly the requested time). -/
theorem any_order_last_tick_requested (S : Static) (hS : S.Valid) (orc : Oracle) (fuel0 : Nat)
    (t0 : SimTime) (now : Int) (sp : Speed) (steps nTicks : Nat) (r0 : MasterSt × TickRec)
    (r : MasterSt × List TickRec) (h1 : MasterInitialAny S orc t0 now r0)
    (h2 : MasterRunAny S orc fuel0 sp steps nTicks r0.1 [] [r0.2] r)
    (pre : List TickRec) (last : TickRec) (hsplit : r.2 = pre ++ [last]) (hpre : pre ≠ []) :
    ∃ (c : Comp) (j : Nat) (resp : DevResp),
      (agetD orc c [])[j]? = some resp ∧ resp.callAt = some last.time ∧
      (∃ t_req ins, (t_req, ins) ∈ r.1.sim.obsOf c ∧ t_req ∈ pre.map (·.time)) ∧
      ∃ init g, r.1.sim.obsOf c = init ++ [(last.time, g)] := by
  obtain ⟨devs, st, times, hfr, _, hw, htimes, hobs, _, _, _, _, horc⟩ :=
    any_order_run_refines_flatRun_wake S hS orc fuel0 S.resolveFuel
      (hS.resolveStable (Nat.le_refl _)) t0 now sp steps nTicks r0 r h1 h2
  obtain ⟨n, hn⟩ : ∃ n, pre.length = n + 1 := by
    cases pre with
    | nil => exact absurd rfl hpre
    | cons x xs => exact ⟨xs.length, rfl⟩
  have hlen : r.2.length - 1 = n + 1 := by rw [hsplit]; simp [hn]
  have htm : times = last.time :: (pre.map (·.time)).reverse := by
    rw [htimes, hsplit]; simp
  rw [hlen, htm] at hfr
  obtain ⟨st0, cs, c, hfr0, hfw, htick, hcm, _, k, t_req, ins, hk, htk, hob, hca⟩ :=
    no_invented_tick _ devs t0 n st last.time _ hfr
  obtain ⟨given, hgiven, _⟩ := tickRun_root hw htick hcm
  have hoe := hobs c
  rw [hgiven] at hoe
  obtain ⟨init, g, hinit, hie, _⟩ := obsEq_append_singleton hoe
  rcases horc k c t_req ins with hnone | ⟨j, resp, hj, hresp⟩
  · rw [hnone] at hca; cases hca
  · refine ⟨c, j, resp, hj, by rw [← hresp]; exact hca, ?_, init, g, hinit⟩
    have hm0 : (t_req, ins) ∈ st0.obsOf c := mem_obsOf.2 hob
    obtain ⟨y, hy, h1', _⟩ := obsEq_mem (obsEq_symm hie) hm0
    refine ⟨t_req, y.2, ?_, ?_⟩
    · rw [hinit]
      simp only at h1'
      rw [h1']
      exact List.mem_append_left _ hy
    · have := List.mem_of_getElem? htk
      simpa using this

end Tickit
