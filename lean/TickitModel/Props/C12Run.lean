/-
C12, run level — simulation time is paced against real time by the configured speed, over the
whole-simulation model (`masterInitial` / `masterRun`, nested schedulers at any depth, external
stimuli).  Speed = `sp.num / sp.den`; times are integer nanoseconds; processing cost is zero in
this model (a tick recorded at real time `d` ends at `d`).  One-step versions: `Props/C12.lean`.

"simulation time = t0 + speed × elapsed real time" reads, without division,
`(time - t0) * sp.den = (real - now0) * sp.num`.

* P1 `run_never_early` — any stimuli: between consecutive tick records real time does not go back
  and advances by at least `(b.time - a.time)/speed`; cumulatively simulation time never runs
  ahead of real time.
* P2 `run_linear_law` — callbacks only, no callback in the past: simulation time does not lag
  either, up to the rounding of each sleep UP to a whole nanosecond: the k-th tick is late by at
  most `k * (sp.num - 1)` in units of `1/sp.num` ns, i.e. by less than `k` ns.  The bound is
  attained (speed 3/2, period 2: below).  `run_linear_exact_of_dvd`, `run_linear_exact`: no lag
  at all when every wait is a whole number of nanoseconds, e.g. `sp.num = 1`.
* P3 `run_stamp_law` — every stimulus handled by the run is stamped with the simulation time that
  corresponds to the real time `now` at which it is handled, is never ahead of real time, and
  the next tick record is started at that very real time `now`, for a simulation time `≤` stamp.
-/
import TickitModel.Lemmas.PacingLemmas
import TickitModel.Props.C12
import TickitModel.Props.C04Mono

namespace Tickit

open Pacing

/-! ## P1 — never early (any stimuli) -/

/-- **P1.**  Whole simulation, any stimuli, any positive `sp.num` (no hypothesis on the
configuration, the devices or `sp.den`).  For every two consecutive tick records `a`, `b`
(`ticks[i]`, `ticks[i+1]`): real time does not decrease, and the tick for `b.time` is not started
before real time has advanced by `(b.time - a.time)/speed` since the previous tick (which, at
zero cost, ended when it started).  Cumulatively, for every tick record `x`: real time is not
before the initial real time and simulation time never runs ahead of real time. -/
theorem run_never_early (S : Static) (orc : Oracle) (fuel : Nat) (t0 : SimTime) (now0 : Int)
    (sp : Speed) (steps nTicks : Nat) (stims : List Stim) (m m2 : MasterSt) (tr : TickRec)
    (ticks : List TickRec)
    (h : masterInitial S orc fuel t0 now0 = .ok (m, tr))
    (h2 : masterRun S orc fuel sp steps nTicks m stims [tr] = .ok (m2, ticks))
    (hn : 0 < sp.num) :
    (∀ (i : Nat) (a b : TickRec), ticks[i]? = some a → ticks[i + 1]? = some b →
      a.real ≤ b.real ∧ (b.time - a.time) * sp.den ≤ (b.real - a.real) * sp.num) ∧
    (∀ x ∈ ticks, now0 ≤ x.real ∧ (x.time - t0) * sp.den ≤ (x.real - now0) * sp.num) := by
  obtain ⟨log, _, hlinks, h0, ht, hr⟩ := initial_run h h2
  have hstep : ∀ (i : Nat) (a b : TickRec), ticks[i]? = some a → ticks[i + 1]? = some b →
      a.real ≤ b.real ∧ (b.time - a.time) * sp.den ≤ (b.real - a.real) * sp.num :=
    fun i a b ha hb => (hlinks i a b ha hb).never_early hn
  refine ⟨hstep, fun x hx => ?_⟩
  obtain ⟨k, hk⟩ := ticks_index hx
  have t1 := telescope ticks (fun x => -x.real) 0
    (fun i a b ha hb => by have := (hstep i a b ha hb).1; show -b.real ≤ -a.real + 0; omega)
    k tr x h0 hk
  have t2 := telescope ticks (fun x => x.time * sp.den - x.real * sp.num) 0
    (fun i a b ha hb => by
      have := (hstep i a b ha hb).2
      show b.time * (sp.den : Int) - b.real * sp.num ≤ a.time * sp.den - a.real * sp.num + 0
      simp only [SimTime] at *
      simp only [Int.sub_mul] at this
      omega)
    k tr x h0 hk
  simp only [Int.mul_zero, Int.add_zero] at t1 t2
  rw [ht, hr] at t2
  rw [hr] at t1
  refine ⟨by omega, ?_⟩
  simp only [SimTime] at *
  simp only [Int.sub_mul]
  omega

/-! ## P2 — the linear law (callbacks only) -/

/-- **P2, one tick.**  Callbacks only, tick times non-decreasing: each tick is started less than
one nanosecond after the ideal real time `a.real + (b.time - a.time)/speed` (and not before it:
P1) — the sleep is rounded up to a whole nanosecond. -/
theorem run_step_law (S : Static) (orc : Oracle) (fuel : Nat) (t0 : SimTime) (now0 : Int)
    (sp : Speed) (steps nTicks : Nat) (m m2 : MasterSt) (tr : TickRec) (ticks : List TickRec)
    (h : masterInitial S orc fuel t0 now0 = .ok (m, tr))
    (h2 : masterRun S orc fuel sp steps nTicks m [] [tr] = .ok (m2, ticks))
    (hn : 0 < sp.num)
    (hmono : (ticks.map (·.time)).Pairwise (· ≤ ·)) :
    ∀ (i : Nat) (a b : TickRec), ticks[i]? = some a → ticks[i + 1]? = some b →
      (b.time - a.time) * sp.den ≤ (b.real - a.real) * sp.num ∧
      (b.real - a.real) * sp.num < (b.time - a.time) * sp.den + sp.num := by
  obtain ⟨log, _, hlinks, h0, ht, hr⟩ := initial_run h h2
  intro i a b ha hb
  have h1 := (hlinks i a b ha hb).never_early hn
  have h3 := (hlinks i a b ha hb).lag hn rfl (pairwise_consec ticks hmono i a b ha hb)
  exact ⟨h1.2, by omega⟩

/-- **P2**, from non-decreasing tick times.  Callbacks only.  For the k-th tick record `x`
(`ticks[k]`; the initial tick has index 0):
`(x.time - t0)/speed ≤ x.real - now0 ≤ (x.time - t0)/speed + k·(1 - 1/sp.num)`. -/
theorem run_linear_law_of_mono (S : Static) (orc : Oracle) (fuel : Nat) (t0 : SimTime) (now0 : Int)
    (sp : Speed) (steps nTicks : Nat) (m m2 : MasterSt) (tr : TickRec) (ticks : List TickRec)
    (h : masterInitial S orc fuel t0 now0 = .ok (m, tr))
    (h2 : masterRun S orc fuel sp steps nTicks m [] [tr] = .ok (m2, ticks))
    (hn : 0 < sp.num)
    (hmono : (ticks.map (·.time)).Pairwise (· ≤ ·)) :
    ∀ (k : Nat) (x : TickRec), ticks[k]? = some x →
      (x.time - t0) * sp.den ≤ (x.real - now0) * sp.num ∧
      (x.real - now0) * sp.num ≤ (x.time - t0) * sp.den + k * (sp.num - 1) := by
  obtain ⟨log, _, hlinks, h0, ht, hr⟩ := initial_run h h2
  intro k x hk
  have hmem : x ∈ ticks := List.mem_of_getElem? hk
  refine ⟨((run_never_early S orc fuel t0 now0 sp steps nTicks [] m m2 tr ticks h h2 hn).2 x hmem).2, ?_⟩
  have t2 := telescope ticks (fun x => x.real * sp.num - x.time * sp.den) (sp.num - 1)
    (fun i a b ha hb => by
      have := (hlinks i a b ha hb).lag hn rfl (pairwise_consec ticks hmono i a b ha hb)
      show b.real * (sp.num : Int) - b.time * sp.den ≤ a.real * sp.num - a.time * sp.den + (sp.num - 1)
      simp only [SimTime] at *
      simp only [Int.sub_mul] at this
      omega)
    k tr x h0 hk
  simp only [] at t2
  rw [ht, hr] at t2
  generalize (k : Int) * ((sp.num : Int) - 1) = K at *
  simp only [SimTime] at *
  simp only [Int.sub_mul]
  omega

/-- **P2.**  Callbacks only, no device asks to be called back in the past (`RunNoPast`): at the
k-th tick, simulation time is not ahead of `t0 + speed × elapsed real time` and lags behind it by
at most `k * (sp.num - 1)` in units of `1/sp.num` ns of real time — strictly less than one
nanosecond per tick.  For any positive speed. -/
theorem run_linear_law (S : Static) (orc : Oracle) (fuel : Nat) (t0 : SimTime) (now0 : Int)
    (sp : Speed) (steps nTicks : Nat) (m m2 : MasterSt) (tr : TickRec) (ticks : List TickRec)
    (h : masterInitial S orc fuel t0 now0 = .ok (m, tr))
    (h2 : masterRun S orc fuel sp steps nTicks m [] [tr] = .ok (m2, ticks))
    (hn : 0 < sp.num)
    (hnp : RunNoPast orc m2.sim) :
    ∀ (k : Nat) (x : TickRec), ticks[k]? = some x →
      (x.time - t0) * sp.den ≤ (x.real - now0) * sp.num ∧
      (x.real - now0) * sp.num ≤ (x.time - t0) * sp.den + k * (sp.num - 1) :=
  run_linear_law_of_mono S orc fuel t0 now0 sp steps nTicks m m2 tr ticks h h2 hn
    (sim_time_monotone S orc fuel t0 now0 sp steps nTicks [] m m2 tr ticks h h2 hnp)

/-- **P2, exact.**  Callbacks only, no callback in the past, and every wait a whole number of
nanoseconds (`sp.num ∣ (b.time - a.time) * sp.den` for consecutive ticks): simulation time EQUALS
`t0 + speed × elapsed real time` at every tick. -/
theorem run_linear_exact_of_dvd (S : Static) (orc : Oracle) (fuel : Nat) (t0 : SimTime) (now0 : Int)
    (sp : Speed) (steps nTicks : Nat) (m m2 : MasterSt) (tr : TickRec) (ticks : List TickRec)
    (h : masterInitial S orc fuel t0 now0 = .ok (m, tr))
    (h2 : masterRun S orc fuel sp steps nTicks m [] [tr] = .ok (m2, ticks))
    (hn : 0 < sp.num)
    (hnp : RunNoPast orc m2.sim)
    (hdiv : ∀ (i : Nat) (a b : TickRec), ticks[i]? = some a → ticks[i + 1]? = some b →
      (sp.num : Int) ∣ (b.time - a.time) * sp.den) :
    ∀ x ∈ ticks, (x.time - t0) * sp.den = (x.real - now0) * sp.num := by
  obtain ⟨log, _, hlinks, h0, ht, hr⟩ := initial_run h h2
  have hmono := sim_time_monotone S orc fuel t0 now0 sp steps nTicks [] m m2 tr ticks h h2 hnp
  intro x hx
  obtain ⟨k, hk⟩ := ticks_index hx
  have h1 := ((run_never_early S orc fuel t0 now0 sp steps nTicks [] m m2 tr ticks h h2 hn).2 x hx).2
  have t2 := telescope ticks (fun x => x.real * sp.num - x.time * sp.den) 0
    (fun i a b ha hb => by
      have := (hlinks i a b ha hb).exact rfl (pairwise_consec ticks hmono i a b ha hb)
        (hdiv i a b ha hb)
      show b.real * (sp.num : Int) - b.time * sp.den ≤ a.real * sp.num - a.time * sp.den + 0
      simp only [SimTime] at *
      simp only [Int.sub_mul] at this
      omega)
    k tr x h0 hk
  simp only [Int.mul_zero, Int.add_zero] at t2
  rw [ht, hr] at t2
  simp only [SimTime] at *
  simp only [Int.sub_mul] at *
  omega

/-- **P2, exact, speeds `1/den`.**  With `sp.num = 1` (speed `1/sp.den`: slower than or equal to
real time by a whole factor) every wait is a whole number of nanoseconds: the linear law is
exact at every tick, `x.time - t0 = speed × (x.real - now0)`. -/
theorem run_linear_exact (S : Static) (orc : Oracle) (fuel : Nat) (t0 : SimTime) (now0 : Int)
    (sp : Speed) (steps nTicks : Nat) (m m2 : MasterSt) (tr : TickRec) (ticks : List TickRec)
    (h : masterInitial S orc fuel t0 now0 = .ok (m, tr))
    (h2 : masterRun S orc fuel sp steps nTicks m [] [tr] = .ok (m2, ticks))
    (hn : sp.num = 1)
    (hnp : RunNoPast orc m2.sim) :
    ∀ x ∈ ticks, (x.time - t0) * sp.den = (x.real - now0) * sp.num :=
  run_linear_exact_of_dvd S orc fuel t0 now0 sp steps nTicks m m2 tr ticks h h2 (by omega) hnp
    (fun _ _ _ _ _ => by rw [hn]; exact Int.one_dvd _)

/-! ## P3 — stimuli are stamped with the simulation time of their arrival -/

/-- the time at which a stimulus is handled is `max st.real m.now` -/
theorem StimEv.now_eq_max (ev : StimEv) : ev.now = max ev.st.real ev.m.now := by
  unfold StimEv.now
  rw [Int.max_def]
  split <;> split <;> omega

/-- what handling a stimulus writes: the interrupting top-level component `top` (the component
itself or the outermost system component containing it) gets the wakeup `ev.stamp sp`, unless an
earlier wakeup of `top` is still pending, which is kept (`stimWhen`). -/
theorem stamp_written (S : Static) (fuel : Nat) (sp : Speed) (ev : StimEv) :
    ((stimStep S fuel sp ev.m ev.st).sim.sched "").wake =
      addWakeup (ev.m.sim.sched "").wake (raiseInterrupt S fuel ev.st.comp ev.m.sim).2
        (stimWhen (ev.m.sim.sched "").wake (raiseInterrupt S fuel ev.st.comp ev.m.sim).2 (ev.stamp sp)) ∧
    (stimStep S fuel sp ev.m ev.st).now = ev.now ∧
    (stimStep S fuel sp ev.m ev.st).tickerTime = ev.m.tickerTime ∧
    (stimStep S fuel sp ev.m ev.st).lastReal = ev.m.lastReal :=
  ⟨stimStep_wake S fuel sp ev.m ev.st, rfl, rfl, rfl⟩

/-- **P3.**  Whole simulation with stimuli.  The run is a `Pacing.Run` (the branches of
`masterRun` as a relation) whose `log` lists the stimuli it handled, in order — an initial segment
of `stims` — each with the master state `ev.m` in which it was handled and the number `ev.k` of
tick records written before.  For every handled stimulus, with `now = ev.now = max st.real m.now`
the real time at which it is handled and `stamp = ev.stamp sp = interruptStamp m.tickerTime now
m.lastReal sp` the time written for it (`stamp_written`):
* `(m.tickerTime, m.lastReal)` is the last tick record before it, `ticks[k-1]`, and `now` is not
  before that tick;
* **stamp law**: `stamp - tickerTime = ⌊(now - lastReal) × speed⌋`;
* the stamp is never ahead of real time: `(stamp - t0)/speed ≤ now - now0`;
* a tick for `stamp` is due at once (`dueReal … stamp = now`);
* the next tick record `ticks[k]`, if there is one, is started at that very real time `now`, for
  a simulation time `≤ stamp` (`< stamp` only if an earlier wakeup is served first). -/
theorem run_stamp_law (S : Static) (orc : Oracle) (fuel : Nat) (t0 : SimTime) (now0 : Int)
    (sp : Speed) (steps nTicks : Nat) (stims : List Stim) (m m2 : MasterSt) (tr : TickRec)
    (ticks : List TickRec)
    (h : masterInitial S orc fuel t0 now0 = .ok (m, tr))
    (h2 : masterRun S orc fuel sp steps nTicks m stims [tr] = .ok (m2, ticks))
    (hn : 0 < sp.num) (hd : 0 < sp.den) :
    ∃ log : List StimEv, Run S orc fuel sp m stims [tr] m2 ticks log ∧
      (∃ rest, stims = log.map (·.st) ++ rest) ∧
      ∀ ev ∈ log,
        (1 ≤ ev.k ∧ ∃ z, ticks[ev.k - 1]? = some z ∧ z.time = ev.m.tickerTime ∧
          z.real = ev.m.lastReal) ∧
        ev.m.lastReal ≤ ev.m.now ∧ ev.m.now ≤ ev.now ∧
        ((ev.stamp sp - ev.m.tickerTime) * sp.den ≤ (ev.now - ev.m.lastReal) * sp.num ∧
          (ev.now - ev.m.lastReal) * sp.num < (ev.stamp sp - ev.m.tickerTime + 1) * sp.den) ∧
        (ev.stamp sp - t0) * sp.den ≤ (ev.now - now0) * sp.num ∧
        dueReal { ev.m with now := ev.now } sp (ev.stamp sp) = ev.now ∧
        ∀ x, ticks[ev.k]? = some x → x.real = ev.now ∧ x.time ≤ ev.stamp sp := by
  obtain ⟨log, hrun, _, h0, ht, hr⟩ := initial_run h h2
  obtain ⟨_, _, h3, h4, h5⟩ := masterInitial_shape h
  refine ⟨log, hrun, hrun.log_stims, fun ev hev => ?_⟩
  obtain ⟨e1, e2, e3, e4⟩ := hrun.events hn t0 now0 tr rfl (by rw [ht, h3]) (by rw [hr, h4])
    (by omega) (by rw [h3, h4]; simp) ev hev
  have hserved := hrun.served hd (by omega) ev hev
  have hnow : ev.m.now ≤ ev.now := by unfold StimEv.now; split <;> omega
  have hlast : ev.m.lastReal ≤ ev.now := Int.le_trans e1 hnow
  have hstamp := stamp_law ev.m.tickerTime ev.now ev.m.lastReal sp hd hlast
  refine ⟨⟨e3, e4⟩, e1, hnow, hstamp, ?_, ?_, hserved⟩
  · have h1 := hstamp.1
    show (interruptStamp ev.m.tickerTime ev.now ev.m.lastReal sp - t0) * (sp.den : Int) ≤ _
    generalize interruptStamp ev.m.tickerTime ev.now ev.m.lastReal sp = X at *
    generalize ev.now = N at *
    simp only [SimTime] at *
    simp only [Int.sub_mul] at *
    omega
  · exact interrupt_due_now { ev.m with now := ev.now } sp hd hn hlast

end Tickit
