/-
C12, run level — simulation time is paced against real time by the configured speed, over the
whole-simulation model (`masterInitial` / `masterRun`, nested schedulers at any depth, external
stimuli).  Speed = `sp.num / sp.den`; times are integer nanoseconds; processing cost is zero in
this model (a tick recorded at real time `d` ends at `d`).  One-step versions: `Props/C12.lean`.

"simulation time = t0 + speed × elapsed real time" reads, without division,
`(time - t0) * sp.den = (real - now0) * sp.num`.

* P1 `run_never_early` — any stimuli: between consecutive tick records real time does not go back
  and advances by at least `(b.time - a.time)/speed`; cumulatively simulation time never runs
  ahead of real time.
* P2 `run_linear_law` — callbacks only, no callback in the past: simulation time does not lag
  either, up to the rounding of each sleep UP to a whole nanosecond: the k-th tick is late by at
  most `k * (sp.num - 1)` in units of `1/sp.num` ns, i.e. by less than `k` ns.  The bound is
  attained (speed 3/2, period 2: below).  `run_linear_exact_of_dvd`, `run_linear_exact`: no lag
  at all when every wait is a whole number of nanoseconds, e.g. `sp.num = 1`.
* P3 `run_stamp_law` — every stimulus handled by the run is stamped with the simulation time that
  corresponds to the real time `now` at which it is handled, is never ahead of real time, and
  the next tick record is started at that very real time `now`, for a simulation time `≤` stamp:
  it is the tick of the wakeup written for the interrupt, unless an earlier wakeup is served first.
  The handled stimuli are given by the executable log `Pacing.runLog`.
-/
import TickitModel.Lemmas.PacingLemmas
import TickitModel.Props.C12
import TickitModel.Props.C04Mono

namespace Tickit

open Pacing TimeMono

/-! ## P1 — never early (any stimuli) -/

/-- **P1.**  Whole simulation, any stimuli, any positive `sp.num` (no hypothesis on the
configuration, the devices or `sp.den`).  For every two consecutive tick records `a`, `b`
(`ticks[i]`, `ticks[i+1]`): real time does not decrease, and the tick for `b.time` is not started
before real time has advanced by `(b.time - a.time)/speed` since the previous tick (which, at
zero cost, ended when it started).  Cumulatively, for every tick record `x`: real time is not
before the initial real time and simulation time never runs ahead of real time. -/
theorem run_never_early (S : Static) (orc : Oracle) (fuel : Nat) (t0 : SimTime) (now0 : Int)
    (sp : Speed) (steps nTicks : Nat) (stims : List Stim) (m m2 : MasterSt) (tr : TickRec)
    (ticks : List TickRec)
    (h : masterInitial S orc fuel t0 now0 = .ok (m, tr))
    (h2 : masterRun S orc fuel sp steps nTicks m stims [tr] = .ok (m2, ticks))
    (hn : 0 < sp.num) :
    (∀ (i : Nat) (a b : TickRec), ticks[i]? = some a → ticks[i + 1]? = some b →
      a.real ≤ b.real ∧ (b.time - a.time) * sp.den ≤ (b.real - a.real) * sp.num) ∧
    (∀ x ∈ ticks, now0 ≤ x.real ∧ (x.time - t0) * sp.den ≤ (x.real - now0) * sp.num) := by
  obtain ⟨log, _, hlinks, h0, ht, hr⟩ := initial_run h h2
  have hstep : ∀ (i : Nat) (a b : TickRec), ticks[i]? = some a → ticks[i + 1]? = some b →
      a.real ≤ b.real ∧ (b.time - a.time) * sp.den ≤ (b.real - a.real) * sp.num :=
    fun i a b ha hb => (hlinks i a b ha hb).never_early hn
  refine ⟨hstep, fun x hx => ?_⟩
  obtain ⟨k, hk⟩ := ticks_index hx
  have t1 := telescope ticks (fun x => -x.real) 0
    (fun i a b ha hb => by have := (hstep i a b ha hb).1; show -b.real ≤ -a.real + 0; omega)
    k tr x h0 hk
  have t2 := telescope ticks (fun x => x.time * sp.den - x.real * sp.num) 0
    (fun i a b ha hb => by
      have := (hstep i a b ha hb).2
      show b.time * (sp.den : Int) - b.real * sp.num ≤ a.time * sp.den - a.real * sp.num + 0
      simp only [SimTime] at *
      simp only [Int.sub_mul] at this
      omega)
    k tr x h0 hk
  simp only [Int.mul_zero, Int.add_zero] at t1 t2
  rw [ht, hr] at t2
  rw [hr] at t1
  refine ⟨by omega, ?_⟩
  simp only [SimTime] at *
  simp only [Int.sub_mul]
  omega

/-! ## P2 — the linear law (callbacks only) -/

/-- **P2, one tick.**  Callbacks only, tick times non-decreasing: each tick is started less than
one nanosecond after the ideal real time `a.real + (b.time - a.time)/speed` (and not before it:
P1) — the sleep is rounded up to a whole nanosecond. -/
theorem run_step_law (S : Static) (orc : Oracle) (fuel : Nat) (t0 : SimTime) (now0 : Int)
    (sp : Speed) (steps nTicks : Nat) (m m2 : MasterSt) (tr : TickRec) (ticks : List TickRec)
    (h : masterInitial S orc fuel t0 now0 = .ok (m, tr))
    (h2 : masterRun S orc fuel sp steps nTicks m [] [tr] = .ok (m2, ticks))
    (hn : 0 < sp.num)
    (hmono : (ticks.map (·.time)).Pairwise (· ≤ ·)) :
    ∀ (i : Nat) (a b : TickRec), ticks[i]? = some a → ticks[i + 1]? = some b →
      (b.time - a.time) * sp.den ≤ (b.real - a.real) * sp.num ∧
      (b.real - a.real) * sp.num < (b.time - a.time) * sp.den + sp.num := by
  obtain ⟨log, _, hlinks, h0, ht, hr⟩ := initial_run h h2
  intro i a b ha hb
  have h1 := (hlinks i a b ha hb).never_early hn
  have h3 := (hlinks i a b ha hb).lag hn rfl (pairwise_consec ticks hmono i a b ha hb)
  exact ⟨h1.2, by omega⟩

/-- **P2**, from non-decreasing tick times.  Callbacks only.  For the k-th tick record `x`
(`ticks[k]`; the initial tick has index 0):
`(x.time - t0)/speed ≤ x.real - now0 ≤ (x.time - t0)/speed + k·(1 - 1/sp.num)`. -/
theorem run_linear_law_of_mono (S : Static) (orc : Oracle) (fuel : Nat) (t0 : SimTime) (now0 : Int)
    (sp : Speed) (steps nTicks : Nat) (m m2 : MasterSt) (tr : TickRec) (ticks : List TickRec)
    (h : masterInitial S orc fuel t0 now0 = .ok (m, tr))
    (h2 : masterRun S orc fuel sp steps nTicks m [] [tr] = .ok (m2, ticks))
    (hn : 0 < sp.num)
    (hmono : (ticks.map (·.time)).Pairwise (· ≤ ·)) :
    ∀ (k : Nat) (x : TickRec), ticks[k]? = some x →
      (x.time - t0) * sp.den ≤ (x.real - now0) * sp.num ∧
      (x.real - now0) * sp.num ≤ (x.time - t0) * sp.den + k * (sp.num - 1) := by
  obtain ⟨log, _, hlinks, h0, ht, hr⟩ := initial_run h h2
  intro k x hk
  have hmem : x ∈ ticks := List.mem_of_getElem? hk
  refine ⟨((run_never_early S orc fuel t0 now0 sp steps nTicks [] m m2 tr ticks h h2 hn).2 x hmem).2, ?_⟩
  have t2 := telescope ticks (fun x => x.real * sp.num - x.time * sp.den) (sp.num - 1)
    (fun i a b ha hb => by
      have := (hlinks i a b ha hb).lag hn rfl (pairwise_consec ticks hmono i a b ha hb)
      show b.real * (sp.num : Int) - b.time * sp.den ≤ a.real * sp.num - a.time * sp.den + (sp.num - 1)
      simp only [SimTime] at *
      simp only [Int.sub_mul] at this
      omega)
    k tr x h0 hk
  rw [ht, hr] at t2
  generalize (k : Int) * ((sp.num : Int) - 1) = K at *
  simp only [SimTime] at *
  simp only [Int.sub_mul]
  omega

/-- **P2.**  Callbacks only, no device asks to be called back in the past (`RunNoPast`): at the
k-th tick, simulation time is not ahead of `t0 + speed × elapsed real time` and lags behind it by
at most `k * (sp.num - 1)` in units of `1/sp.num` ns of real time — strictly less than one
nanosecond per tick.  For any positive speed. -/
theorem run_linear_law (S : Static) (orc : Oracle) (fuel : Nat) (t0 : SimTime) (now0 : Int)
    (sp : Speed) (steps nTicks : Nat) (m m2 : MasterSt) (tr : TickRec) (ticks : List TickRec)
    (h : masterInitial S orc fuel t0 now0 = .ok (m, tr))
    (h2 : masterRun S orc fuel sp steps nTicks m [] [tr] = .ok (m2, ticks))
    (hn : 0 < sp.num)
    (hnp : RunNoPast orc m2.sim) :
    ∀ (k : Nat) (x : TickRec), ticks[k]? = some x →
      (x.time - t0) * sp.den ≤ (x.real - now0) * sp.num ∧
      (x.real - now0) * sp.num ≤ (x.time - t0) * sp.den + k * (sp.num - 1) :=
  run_linear_law_of_mono S orc fuel t0 now0 sp steps nTicks m m2 tr ticks h h2 hn
    (sim_time_monotone S orc fuel t0 now0 sp steps nTicks [] m m2 tr ticks h h2 hnp)

/-- **P2, exact.**  Callbacks only, no callback in the past, and every wait a whole number of
nanoseconds (`sp.num ∣ (b.time - a.time) * sp.den` for consecutive ticks): simulation time EQUALS
`t0 + speed × elapsed real time` at every tick. -/
theorem run_linear_exact_of_dvd (S : Static) (orc : Oracle) (fuel : Nat) (t0 : SimTime) (now0 : Int)
    (sp : Speed) (steps nTicks : Nat) (m m2 : MasterSt) (tr : TickRec) (ticks : List TickRec)
    (h : masterInitial S orc fuel t0 now0 = .ok (m, tr))
    (h2 : masterRun S orc fuel sp steps nTicks m [] [tr] = .ok (m2, ticks))
    (hn : 0 < sp.num)
    (hnp : RunNoPast orc m2.sim)
    (hdiv : ∀ (i : Nat) (a b : TickRec), ticks[i]? = some a → ticks[i + 1]? = some b →
      (sp.num : Int) ∣ (b.time - a.time) * sp.den) :
    ∀ x ∈ ticks, (x.time - t0) * sp.den = (x.real - now0) * sp.num := by
  obtain ⟨log, _, hlinks, h0, ht, hr⟩ := initial_run h h2
  have hmono := sim_time_monotone S orc fuel t0 now0 sp steps nTicks [] m m2 tr ticks h h2 hnp
  intro x hx
  obtain ⟨k, hk⟩ := ticks_index hx
  have h1 := ((run_never_early S orc fuel t0 now0 sp steps nTicks [] m m2 tr ticks h h2 hn).2 x hx).2
  have t2 := telescope ticks (fun x => x.real * sp.num - x.time * sp.den) 0
    (fun i a b ha hb => by
      have := (hlinks i a b ha hb).exact rfl (pairwise_consec ticks hmono i a b ha hb)
        (hdiv i a b ha hb)
      show b.real * (sp.num : Int) - b.time * sp.den ≤ a.real * sp.num - a.time * sp.den + 0
      simp only [SimTime] at *
      simp only [Int.sub_mul] at this
      omega)
    k tr x h0 hk
  simp only [Int.mul_zero, Int.add_zero] at t2
  rw [ht, hr] at t2
  simp only [SimTime] at *
  simp only [Int.sub_mul] at *
  omega

/-- **P2, exact, speeds `1/den`.**  With `sp.num = 1` (speed `1/sp.den`: slower than or equal to
real time by a whole factor) every wait is a whole number of nanoseconds: the linear law is
exact at every tick, `x.time - t0 = speed × (x.real - now0)`. -/
theorem run_linear_exact (S : Static) (orc : Oracle) (fuel : Nat) (t0 : SimTime) (now0 : Int)
    (sp : Speed) (steps nTicks : Nat) (m m2 : MasterSt) (tr : TickRec) (ticks : List TickRec)
    (h : masterInitial S orc fuel t0 now0 = .ok (m, tr))
    (h2 : masterRun S orc fuel sp steps nTicks m [] [tr] = .ok (m2, ticks))
    (hn : sp.num = 1)
    (hnp : RunNoPast orc m2.sim) :
    ∀ x ∈ ticks, (x.time - t0) * sp.den = (x.real - now0) * sp.num :=
  run_linear_exact_of_dvd S orc fuel t0 now0 sp steps nTicks m m2 tr ticks h h2 (by omega) hnp
    (fun _ _ _ _ _ => by rw [hn]; exact Int.one_dvd _)

/-! ## P3 — stimuli are stamped with the simulation time of their arrival -/

/-- the time at which a stimulus is handled is `max st.real m.now` -/
theorem Pacing.StimEv.now_eq_max (ev : StimEv) : ev.now = max ev.st.real ev.m.now := by
  unfold StimEv.now
  rw [Int.max_def]
  split <;> split <;> omega

/-- what handling a stimulus writes: the interrupting top-level component `ev.top` (the component
itself or the outermost system component containing it) gets the wakeup `ev.when`, which is
`ev.stamp sp` unless an earlier wakeup of `top` is still pending, which is kept; real time moves
to `ev.now`; the ticker time and the real time of the last tick are untouched. -/
theorem stamp_written (S : Static) (fuel : Nat) (sp : Speed) (ev : StimEv) :
    ((stimStep S fuel sp ev.m ev.st).sim.sched "").wake =
      addWakeup (ev.m.sim.sched "").wake (ev.top S fuel) (ev.when S fuel sp) ∧
    ev.when S fuel sp = (match alookup (ev.m.sim.sched "").wake (ev.top S fuel) with
      | some w => if w < ev.stamp sp then w else ev.stamp sp
      | none => ev.stamp sp) ∧
    ev.when S fuel sp ≤ ev.stamp sp ∧
    (stimStep S fuel sp ev.m ev.st).now = ev.now ∧
    (stimStep S fuel sp ev.m ev.st).tickerTime = ev.m.tickerTime ∧
    (stimStep S fuel sp ev.m ev.st).lastReal = ev.m.lastReal :=
  ⟨stimStep_wake S fuel sp ev.m ev.st, rfl, stimWhen_le_stamp _ _ _, rfl, rfl, rfl⟩

/-- what P3 says about one handled stimulus `ev` (handled in master state `ev.m`, after `ev.k`
tick records), with `now = ev.now = max st.real m.now` the real time at which it is handled and
`stamp = ev.stamp sp = interruptStamp m.tickerTime now m.lastReal sp` the time stamped on it
(`stamp_written`). -/
structure Pacing.StimEv.Lawful (S : Static) (fuel : Nat) (sp : Speed) (t0 : SimTime) (now0 : Int)
    (ticks : List TickRec) (ev : StimEv) : Prop where
  /-- `(m.tickerTime, m.lastReal)` is the last tick record before the stimulus, `ticks[k-1]` -/
  last_tick : 1 ≤ ev.k ∧ ∃ z, ticks[ev.k - 1]? = some z ∧ z.time = ev.m.tickerTime ∧
    z.real = ev.m.lastReal
  /-- real time has not run backwards since that tick, and handling does not move it back -/
  real_mono : ev.m.lastReal ≤ ev.m.now ∧ ev.m.now ≤ ev.now
  /-- **stamp law**: `stamp - tickerTime = ⌊(now - lastReal) × speed⌋` -/
  stamp_law : (ev.stamp sp - ev.m.tickerTime) * sp.den ≤ (ev.now - ev.m.lastReal) * sp.num ∧
    (ev.now - ev.m.lastReal) * sp.num < (ev.stamp sp - ev.m.tickerTime + 1) * sp.den
  /-- the stamp is never ahead of real time: `(stamp - t0)/speed ≤ now - now0` -/
  not_ahead : (ev.stamp sp - t0) * sp.den ≤ (ev.now - now0) * sp.num
  /-- a tick for `stamp` is due at once -/
  due_now : dueReal { ev.m with now := ev.now } sp (ev.stamp sp) = ev.now
  /-- the wakeup written for the interrupting top-level component is not after the stamp -/
  when_le : ev.when S fuel sp ≤ ev.stamp sp
  /-- the next tick record `ticks[k]`, if there is one, is started at that very real time `now`,
  for a simulation time `≤ ev.when`; it is either the tick for `ev.when`, and then it serves the
  interrupt (`ev.top ∈ roots`), or the tick of an earlier wakeup that is served first. -/
  served : ∀ x, ticks[ev.k]? = some x → x.real = ev.now ∧ x.time ≤ ev.when S fuel sp ∧
    (x.time = ev.when S fuel sp → ev.top S fuel ∈ x.roots)

/-- **P3, for any decomposition of the run.**  `Pacing.Run` spells out the branches of `masterRun`
as a relation; its `log` lists the stimuli handled, in order.  They are an initial segment of
`stims`, and every one of them is `Lawful`. -/
theorem run_stamp_law_of_run (S : Static) (orc : Oracle) (fuel : Nat) (t0 : SimTime) (now0 : Int)
    (sp : Speed) (stims : List Stim) (m m2 : MasterSt) (tr : TickRec)
    (ticks : List TickRec) (log : List StimEv)
    (h : masterInitial S orc fuel t0 now0 = .ok (m, tr))
    (hrun : Run S orc fuel sp m stims [tr] m2 ticks log)
    (hn : 0 < sp.num) (hd : 0 < sp.den) :
    (∃ rest, stims = log.map (·.st) ++ rest) ∧
    ∀ ev ∈ log, ev.Lawful S fuel sp t0 now0 ticks := by
  obtain ⟨ht, hr, h3, h4, h5⟩ := masterInitial_shape h
  refine ⟨hrun.log_stims, fun ev hev => ?_⟩
  obtain ⟨e1, e2, e3, e4⟩ := hrun.events hn t0 now0 tr rfl (by rw [ht, h3]) (by rw [hr, h4])
    (by omega) (by rw [h3, h4]; simp) ev hev
  have hserved := hrun.served hd (by omega) ev hev
  have hnow : ev.m.now ≤ ev.now := by unfold StimEv.now; split <;> omega
  have hlast : ev.m.lastReal ≤ ev.now := Int.le_trans e1 hnow
  have hstamp := stamp_law ev.m.tickerTime ev.now ev.m.lastReal sp hd hlast
  refine ⟨⟨e3, e4⟩, ⟨e1, hnow⟩, hstamp, ?_, ?_, stimWhen_le_stamp _ _ _, hserved⟩
  · have h1 := hstamp.1
    show (interruptStamp ev.m.tickerTime ev.now ev.m.lastReal sp - t0) * (sp.den : Int) ≤ _
    generalize interruptStamp ev.m.tickerTime ev.now ev.m.lastReal sp = X at *
    generalize ev.now = N at *
    simp only [SimTime] at *
    simp only [Int.sub_mul] at *
    omega
  · exact interrupt_due_now { ev.m with now := ev.now } sp hd hn hlast

/-- **P3.**  Whole simulation with stimuli.  `Pacing.runLog … m stims 1` is the list of stimuli
that `masterRun … m stims [tr]` handles, in order, computed alongside it: each with the master
state `ev.m` in which it is handled and the number `ev.k` of tick records written before.  The run
is the `Pacing.Run` with this log; the handled stimuli are an initial segment of `stims`; and every
handled stimulus is `Lawful`: it is stamped with the simulation time that corresponds to the real
time `now` at which it is handled (stamp law, relative to the last tick), the stamp is never
ahead of real time, and the next tick record is started at that very real time `now`, for the
wakeup written for the interrupt unless an earlier wakeup is served first. -/
theorem run_stamp_law (S : Static) (orc : Oracle) (fuel : Nat) (t0 : SimTime) (now0 : Int)
    (sp : Speed) (steps nTicks : Nat) (stims : List Stim) (m m2 : MasterSt) (tr : TickRec)
    (ticks : List TickRec)
    (h : masterInitial S orc fuel t0 now0 = .ok (m, tr))
    (h2 : masterRun S orc fuel sp steps nTicks m stims [tr] = .ok (m2, ticks))
    (hn : 0 < sp.num) (hd : 0 < sp.den) :
    Run S orc fuel sp m stims [tr] m2 ticks (runLog S orc fuel sp steps nTicks m stims 1) ∧
    (∃ rest, stims = (runLog S orc fuel sp steps nTicks m stims 1).map (·.st) ++ rest) ∧
    ∀ ev ∈ runLog S orc fuel sp steps nTicks m stims 1, ev.Lawful S fuel sp t0 now0 ticks := by
  have hrun := masterRun_runLog S orc fuel sp steps nTicks m stims [tr] m2 ticks h2
  exact ⟨hrun, run_stamp_law_of_run S orc fuel t0 now0 sp stims m m2 tr ticks _ h hrun hn hd⟩

/-! ## non-vacuity and tightness (evaluated at build time)

Master level with two devices: `d` asks to be called back periodically, `e` never does. -/

namespace C12RunEx

def S : Static :=
  { levels := [⟨"", Wiring.fromInverse [("d", []), ("e", [])]⟩], systems := [],
    parent := [("d", ""), ("e", "")] }

/-- `d`'s i-th update asks for a callback at `period * (i+1)` -/
def per (period : Int) (k : Nat) : List DevResp :=
  (List.range k).map (fun (i : Nat) => (⟨[], some (period * ((i : Int) + 1)), false⟩ : DevResp))

def quiet (k : Nat) : List DevResp := List.replicate k ⟨[], none, false⟩

/-- the tick records `(time, real, roots)` of a run from `t0 = 0`, `now0 = 0`, whether
`RunNoPast` holds in the final state, and the lag `real * num - time * den` of every tick
(in units of `1/num` ns of real time) -/
def run (orc : Oracle) (sp : Speed) (stims : List Stim) (k : Nat) :
    Option (List (Int × Int × List Comp) × Bool × List Int) :=
  match masterInitial S orc 10 0 0 with
  | .ok (m, tr) =>
    match masterRun S orc 10 sp 200 k m stims [tr] with
    | .ok (m2, ticks) =>
      some (ticks.map (fun x => (x.time, x.real, x.roots)), runNoPastB orc m2.sim,
        ticks.map (fun x => x.real * sp.num - x.time * sp.den))
    | .error _ => none
  | .error _ => none

/-- the handled stimuli: `(st.real, st.comp, k, now, stamp, top, when)` -/
def log (orc : Oracle) (sp : Speed) (stims : List Stim) (k : Nat) :
    Option (List (Int × Comp × Nat × Int × SimTime × Comp × SimTime)) :=
  match masterInitial S orc 10 0 0 with
  | .ok (m, _) =>
    some ((runLog S orc 10 sp 200 k m stims 1).map
      (fun ev => (ev.st.real, ev.st.comp, ev.k, ev.now, ev.stamp sp, ev.top S 10, ev.when S 10 sp)))
  | .error _ => none

-- speed 3/2, period 2: each wait is 4/3 ns, slept as 2 ns; the k-th tick lags by exactly
-- `k * (num - 1) = 2k` thirds of a nanosecond: the bound of `run_linear_law` is attained
#guard run [("d", per 2 30), ("e", quiet 30)] ⟨3, 2⟩ [] 5 ==
  some ([(0, 0, ["d", "e"]), (2, 2, ["d"]), (4, 4, ["d"]), (6, 6, ["d"]), (8, 8, ["d"]), (10, 10, ["d"])],
    true, [0, 2, 4, 6, 8, 10])
-- speed 2/3, period 1: each wait is 3/2 ns, slept as 2 ns; the bound `k * (num - 1) = k` is attained
#guard run [("d", per 1 30), ("e", quiet 30)] ⟨2, 3⟩ [] 5 ==
  some ([(0, 0, ["d", "e"]), (1, 2, ["d"]), (2, 4, ["d"]), (3, 6, ["d"]), (4, 8, ["d"]), (5, 10, ["d"])],
    true, [0, 1, 2, 3, 4, 5])
-- speed 3/2, period 3: every wait is a whole number of nanoseconds (2): no lag
-- (`run_linear_exact_of_dvd`)
#guard run [("d", per 3 30), ("e", quiet 30)] ⟨3, 2⟩ [] 5 ==
  some ([(0, 0, ["d", "e"]), (3, 2, ["d"]), (6, 4, ["d"]), (9, 6, ["d"]), (12, 8, ["d"]), (15, 10, ["d"])],
    true, [0, 0, 0, 0, 0, 0])
-- speed 1/3 (`num = 1`), period 7: exact (`run_linear_exact`)
#guard run [("d", per 7 30), ("e", quiet 30)] ⟨1, 3⟩ [] 5 ==
  some ([(0, 0, ["d", "e"]), (7, 21, ["d"]), (14, 42, ["d"]), (21, 63, ["d"]), (28, 84, ["d"]), (35, 105, ["d"])],
    true, [0, 0, 0, 0, 0, 0])
-- the hypothesis "no callback in the past" of P2 is needed, even at speed 1: at time 6 `d` asks
-- for time 5; real time does not go back, so the tick for 5 is 1 ns late (P1 still holds)
#guard run [("d", [⟨[], some 6, false⟩, ⟨[], some 5, false⟩, ⟨[], none, false⟩]), ("e", quiet 30)] ⟨1, 1⟩ [] 5 ==
  some ([(0, 0, ["d", "e"]), (6, 6, ["d"]), (5, 6, ["d"])], false, [0, 0, 1])
-- P3, speed 3/2, `d` waits for 10.  At real time 3 `e` and `d` are interrupted: stamp
-- `0 + ⌊3 * 3/2⌋ = 4` (for `d`: `min 10 4`), served at once, at real time 3.  At real time 5 `e`
-- again: stamp `4 + ⌊2 * 3/2⌋ = 7`, served at real time 5.  (`d` then asks for 20, 30, …)
#guard run [("d", per 10 30), ("e", quiet 30)] ⟨3, 2⟩ [⟨3, "e"⟩, ⟨3, "d"⟩, ⟨5, "e"⟩] 5 ==
  some ([(0, 0, ["d", "e"]), (4, 3, ["d", "e"]), (7, 5, ["e"]), (20, 14, ["d"]), (30, 21, ["d"]), (40, 28, ["d"])],
    true, [0, 1, 1, 2, 3, 4])
#guard log [("d", per 10 30), ("e", quiet 30)] ⟨3, 2⟩ [⟨3, "e"⟩, ⟨3, "d"⟩, ⟨5, "e"⟩] 5 ==
  some [(3, "e", 1, 3, 4, "e", 4), (3, "d", 1, 3, 4, "d", 4), (5, "e", 2, 5, 7, "e", 7)]
-- P3, "unless an earlier wakeup is served first": speed 3/2, `d` has period 2 (its tick for 2 is
-- due at real time ⌈4/3⌉ = 2).  `e` is interrupted at real time 2: stamp `⌊2 * 3/2⌋ = 3 > 2`.
-- The next tick record is started at real time 2 as `run_stamp_law` says, but it is `d`'s (time
-- 2 < 3); `e`'s own tick (time 3) is paced from that one and starts at real time 2 + ⌈2/3⌉ = 3.
#guard run [("d", per 2 30), ("e", quiet 30)] ⟨3, 2⟩ [⟨2, "e"⟩] 4 ==
  some ([(0, 0, ["d", "e"]), (2, 2, ["d"]), (3, 3, ["e"]), (4, 4, ["d"]), (6, 6, ["d"])],
    true, [0, 2, 3, 4, 6])
#guard log [("d", per 2 30), ("e", quiet 30)] ⟨3, 2⟩ [⟨2, "e"⟩] 4 == some [(2, "e", 1, 2, 3, "e", 3)]

end C12RunEx

/-
Not covered here:
* an upper bound on the lag (the converse of P1's cumulative bound) for runs WITH stimuli: each
  interrupt tick rounds the stamp DOWN to a whole simulated nanosecond (`truncDiv`), and an
  interrupt whose stamp lies after a wakeup that is due at the same real instant is served only
  after that wakeup's tick and paced from it (last example above: arrival at real time 2, own
  tick at real time 3), so the callbacks-only bound `k * (sp.num - 1)` does not carry over as it
  stands;
* `run_stamp_law` says at which real time the NEXT tick record after a stimulus is started and
  when that tick is the interrupt's own; when an earlier wakeup goes first, the real time of the
  interrupt's own later tick is only bounded below (P1).
-/

end Tickit
