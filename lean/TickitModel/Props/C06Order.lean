/-
C06 / C10 — `get_first_wakeups` depends only on the ORDER of the requested times.

For every strictly increasing re-labelling `f` of simulation times (a change of time scale, a shift of
the epoch, nanoseconds that become minutes), selecting the first wakeups commutes with `f`: the same
components are selected and the selected time is the image of the original one.  In particular two
requests are served together iff they are EQUAL - however close two distinct times are (25 ns apart
after an hour of simulated time), they are never merged, and requests that are equal stay merged at
every scale.  This is the statement behind running the same scenarios at several time scales in the
correspondence (`scenario.rescale_times`): the model's behaviour is scale-free, so a difference between
scales can only come from the code.
-/
import TickitModel.Core.Sched
import TickitModel.Lemmas.MiscLemmas

namespace Tickit

/-- re-label the times of a wakeup table -/
def mapTimes (f : Int → Int) (w : Wakeups) : Wakeups := w.map (fun e => (e.1, f e.2))

theorem minTime_map (f : Int → Int) (hf : ∀ a b, a ≤ b ↔ f a ≤ f b) (l : List SimTime) :
    minTime (l.map f) = (minTime l).map f := by
  induction l with
  | nil => simp [minTime]
  | cons t ts ih =>
    simp only [List.map_cons, minTime, ih]
    cases h : minTime ts with
    | none => simp
    | some m =>
      simp only [Option.map_some]
      by_cases htm : t ≤ m
      · have : f t ≤ f m := (hf t m).1 htm
        simp [htm, this]
      · have : ¬ f t ≤ f m := fun h' => htm ((hf t m).2 h')
        simp [htm, this]

theorem filter_mapTimes (f : Int → Int) (hinj : ∀ a b, f a = f b → a = b) (m : Int) (w : Wakeups) :
    ((w.map (fun e => (e.1, f e.2))).filter (fun e => e.2 == f m)).map (·.1)
      = (w.filter (fun e => e.2 == m)).map (·.1) := by
  induction w with
  | nil => simp
  | cons e es ih =>
    simp only [List.map_cons, List.filter_cons]
    by_cases hem : e.2 = m
    · simp [hem, ih]
    · have hne : ¬ f e.2 = f m := fun h' => hem (hinj _ _ h')
      simp [hem, hne, ih]

/-- **order-only dependence**: for a strictly increasing `f` (stated as: `f` reflects and preserves `≤`),
`get_first_wakeups` of the re-labelled table selects the same components, at the image of the same time. -/
theorem firstWakeups_mapTimes (f : Int → Int) (hf : ∀ a b, a ≤ b ↔ f a ≤ f b) (w : Wakeups) :
    firstWakeups (mapTimes f w) = ((firstWakeups w).1, (firstWakeups w).2.map f) := by
  have hinj : ∀ a b, f a = f b → a = b := by
    intro a b h
    have h1 : a ≤ b := (hf a b).2 (Int.le_of_eq h)
    have h2 : b ≤ a := (hf b a).2 (Int.le_of_eq h.symm)
    exact Int.le_antisymm h1 h2
  unfold firstWakeups mapTimes
  have hm : (List.map (fun e => (e.1, f e.2)) w).map (·.2) = (w.map (·.2)).map f := by
    simp [List.map_map, Function.comp_def]
  rw [hm, minTime_map f hf]
  cases h : minTime (w.map (·.2)) with
  | none => simp
  | some m =>
    simp only [Option.map_some]
    rw [filter_mapTimes f hinj m w]

/-- scaling by a positive factor and shifting the epoch are such re-labellings -/
theorem scale_shift_order (k d : Int) (hk : 0 < k) (a b : Int) : a ≤ b ↔ k * a + d ≤ k * b + d := by
  constructor
  · intro h
    have := Int.mul_le_mul_of_nonneg_left h (Int.le_of_lt hk)
    omega
  · intro h
    have h' : k * a ≤ k * b := by omega
    exact Int.le_of_mul_le_mul_left h' hk

/-- the first wakeups at another time scale / epoch: same components, scaled time -/
theorem firstWakeups_scale (k d : Int) (hk : 0 < k) (w : Wakeups) :
    firstWakeups (mapTimes (fun t => k * t + d) w) = ((firstWakeups w).1, (firstWakeups w).2.map (fun t => k * t + d)) :=
  firstWakeups_mapTimes _ (scale_shift_order k d hk) w

/-- close is not simultaneous: a request that is later than the earliest one - by however little - is not served with it -/
theorem later_not_first (w : Wakeups) (h : UniqueKeys w) (cs : List Comp) (m : SimTime) (c : Comp) (t : SimTime)
    (hf : firstWakeups w = (cs, some m)) (hc : alookup w c = some t) (hlt : m < t) : c ∉ cs := by
  intro hin
  have := (firstWakeups_spec' w h cs m hf).1 c
  rw [this.1 hin] at hc
  injection hc with hc
  rw [hc] at hlt
  exact absurd hlt (Int.lt_irrefl _)

/-- the nested scheduler's choice of due components (`when <= time`) depends only on the order too -/
theorem nestedDue_mapTimes (f : Int → Int) (hf : ∀ a b, a ≤ b ↔ f a ≤ f b) (w : Wakeups) (t : SimTime) :
    nestedDue (mapTimes f w) (f t) = nestedDue w t := by
  unfold nestedDue mapTimes
  induction w with
  | nil => simp
  | cons e es ih =>
    simp only [List.map_cons, List.filter_cons]
    by_cases h : e.2 ≤ t
    · have h' : f e.2 ≤ f t := (hf _ _).1 h
      simp [h, h', ih]
    · have h' : ¬ f e.2 ≤ f t := fun x => h ((hf _ _).2 x)
      simp [h, h', ih]

/-- a wakeup 1 ns after the tick time is not due, however large the times -/
example : nestedDue [("a", 3600000000000), ("b", 3600000000001)] 3600000000000 = ["a"] := by decide

/-- non-vacuity: after an hour of simulated time, 25 ns apart is apart; equal is together -/
example : firstWakeups [("sens", 3600000000025), ("pump", 3600000000000), ("same", 3600000000000)]
    = (["pump", "same"], some 3600000000000) := by decide

end Tickit
