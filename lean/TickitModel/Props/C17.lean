/-
C17 — configuration entries are dispatched by type tag; component selection.
(pydantic / PyYAML are parameters of the model: see the trusted base.)
-/
import TickitModel.Lemmas.MiscLemmas

namespace Tickit

/-- the class chosen is the registered class named by the tag — never a different class
whose fields happen to fit. -/
theorem dispatch_by_tag (reg : List ClassSig) (tag : String) (c : ClassSig)
    (h : dispatch reg tag = some c) : c ∈ reg ∧ c.tag = tag := by
  exact dispatch_some_mem reg tag c h

/-- a tag naming no known class is rejected, and only then. -/
theorem dispatch_none_iff (reg : List ClassSig) (tag : String) :
    dispatch reg tag = none ↔ ∀ c ∈ reg, c.tag ≠ tag := by
  exact dispatch_eq_none_iff reg tag

/-- the choice does not depend on declaration / import order (distinct tags). -/
theorem dispatch_perm_invariant (reg reg' : List ClassSig) (hp : reg.Perm reg')
    (hd : (reg.map (·.tag)).Nodup) (tag : String) : dispatch reg tag = dispatch reg' tag := by
  exact dispatch_perm reg reg' hp hd tag

/-- … nor on the presence of other classes, even with an identical field signature. -/
theorem dispatch_ignores_others (reg : List ClassSig) (extra : ClassSig) (tag : String)
    (hne : extra.tag ≠ tag) :
    dispatch (extra :: reg) tag = dispatch reg tag ∧ dispatch (reg ++ [extra]) tag = dispatch reg tag := by
  have hb : (extra.tag == tag) = false := by simpa using hne
  constructor
  · simp [dispatch, hb]
  · simp only [dispatch, List.find?_append]
    cases List.find? (fun c => c.tag == tag) reg <;> simp [hb]

/-- requested subset ⇒ exactly those components; unknown name ⇒ error; no request ⇒ all. -/
theorem select_exact (available : List Comp) (req : List Comp) (sel : List Comp)
    (h : selectComponents available (some req) = some sel) (c : Comp) :
    c ∈ sel ↔ c ∈ req ∧ c ∈ available := by
  simp only [selectComponents] at h
  split at h
  · simp only [Option.some.injEq] at h
    subst h
    simp [List.mem_filter, and_comm]
  · simp at h

theorem select_unknown (available : List Comp) (req : List Comp) :
    selectComponents available (some req) = none ↔ ∃ c ∈ req, c ∉ available := by
  simp only [selectComponents]
  split
  · rename_i hall
    simp only [List.all_eq_true, decide_eq_true_eq] at hall
    simp only [reduceCtorEq, false_iff, not_exists, not_and, Decidable.not_not]
    exact hall
  · rename_i hall
    simp only [List.all_eq_true, decide_eq_true_eq] at hall
    simp only [true_iff]
    exact Classical.not_forall.mp hall |>.elim fun c hc => ⟨c, Classical.not_imp.mp hc⟩

theorem select_all (available : List Comp) : selectComponents available none = some available := by
  rfl

/-- the wiring handed to the scheduler contains exactly the connections declared under
`inputs` (component names unique). -/
theorem wiring_from_configs_exact (cfgs : List (Comp × List (Port × CPort))) (h : UniqueKeys cfgs)
    (a : Comp) (p : Port) (b : Comp) (q : Port) :
    (InvWiring.fromConfigs cfgs).Conn a p b q ↔ ∃ e ∈ cfgs, e.1 = b ∧ alookup e.2 q = some (a, p) := by
  simp only [InvWiring.Conn, alookup_fromConfigs]
  constructor
  · rintro ⟨ports, hl, hq⟩
    exact ⟨(b, ports), (lastWrite_eq_some_iff cfgs h b ports).mp hl, rfl, hq⟩
  · rintro ⟨⟨b', ports⟩, hm, hb, hq⟩
    simp only at hb hq
    subst hb
    exact ⟨ports, (lastWrite_eq_some_iff cfgs h b' ports).mpr hm, hq⟩

theorem keys_from_configs (cfgs : List (Comp × List (Port × CPort))) (c : Comp) :
    c ∈ akeys (InvWiring.fromConfigs cfgs) ↔ c ∈ akeys cfgs := by
  unfold akeys
  rw [← ms_alookup_isSome_iff, alookup_fromConfigs, lastWrite_isSome_iff]

example : dispatch [⟨"m.A", ["x"]⟩, ⟨"m.B", ["x"]⟩] "m.B" = some ⟨"m.B", ["x"]⟩ := by decide

end Tickit
