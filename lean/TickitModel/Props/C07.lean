/-
C07 — every interrupt is served promptly whenever it arrives (scheduler bookkeeping:
no interrupt is lost, none waits for an unrelated callback, interrupts coalesce).
-/
import TickitModel.Lemmas.MasterLemmas

namespace Tickit

/-- the invariant holds initially and is preserved by every action — whenever the interrupt
arrives: idle, during a tick, after an answer, before or after other interrupts. -/
theorem minv_init : MInv {} := by
  exact MInv.init

theorem minv_step (s s' : MSt) (a : MAct) (h : MInv s) (hs : s.step a = some s') : MInv s' := by
  exact h.step a hs

/-- **no interrupt is lost**, for every history of interrupts, answers, tick starts, update
beginnings and tick ends, in any order. -/
theorem no_interrupt_lost (acts : List MAct) : MInv (({} : MSt).run acts) := by
  exact MInv.init.run acts

/-- **never displaced by a callback**: while `c` has an unserved interrupt stamped `i`, its
wakeup entry is never later than `i`, whatever its answers ask for. -/
theorem not_displaced (acts : List MAct) (c : Comp) (i : SimTime)
    (hp : alookup (({} : MSt).run acts).pend c = some i) :
    ∃ w, alookup (({} : MSt).run acts).wake c = some w ∧ w ≤ i := by
  exact (MInv.init.run acts).pend_wake c i hp

/-- **promptness**: when no tick is running and `c` is owed an update, the next tick is at a
simulation time no later than the interrupt's stamp — which (C12 `interrupt_due_now`,
`never_early`/`late_immediate`) is already due: the master does not sleep, in particular it
does not wait for an unrelated later callback. -/
theorem next_tick_not_after_stamp (acts : List MAct) (c : Comp)
    (hidle : (({} : MSt).run acts).ticking = none) (hc : c ∈ (({} : MSt).run acts).owed) :
    ∃ cs m i, firstWakeups (({} : MSt).run acts).wake = (cs, some m) ∧
      alookup (({} : MSt).run acts).pend c = some i ∧ m ≤ i := by
  have h := MInv.init.run acts
  generalize ({} : MSt).run acts = s at h hidle hc
  rcases h.owed c hc with ⟨rem, hr, _⟩ | ⟨i, hi⟩
  · rw [hidle] at hr; cases hr
  · obtain ⟨w, hw, hwi⟩ := h.pend_wake c i hi
    cases hm : (firstWakeups s.wake).2 with
    | none =>
      rw [firstWakeups_none] at hm
      rw [hm] at hw
      simp [alookup] at hw
    | some m =>
      have hf : firstWakeups s.wake = ((firstWakeups s.wake).1, some m) := by rw [← hm]
      obtain ⟨_, hle, _, _⟩ := firstWakeups_spec s.wake h.wakeU _ m hf
      have := hle c w hw
      exact ⟨_, m, i, hf, hi, Int.le_trans this hwi⟩

/-- **served as a root**: when the tick for the owed component's wakeup time starts, the
component is among its roots; and a tick cannot end before every root has begun its update,
so the update begins after the interrupt was raised and before that tick ends. -/
theorem served_as_root (s s' : MSt) (h : MInv s) (c : Comp) (hc : c ∈ s.owed) (hidle : s.ticking = none)
    (w : SimTime) (hw : alookup s.wake c = some w) (hmin : (firstWakeups s.wake).2 = some w)
    (hs : s.step .startTick = some s') : ∃ rem, s'.ticking = some rem ∧ c ∈ rem := by
  obtain ⟨cs, m, _, hf, rfl⟩ := s.step_startTick_eq s' hs
  refine ⟨cs, rfl, ?_⟩
  rw [hf] at hmin
  obtain ⟨hcs, _, _, _⟩ := firstWakeups_spec s.wake h.wakeU cs m hf
  rw [hcs c, hw]
  exact hmin.symm

theorem tick_ends_after_roots (s s' : MSt) (hs : s.step .endTick = some s') : s.ticking = some [] := by
  exact (s.step_endTick_eq s' hs).1

/-- once the update has begun the debt is cleared, and only then. -/
theorem owed_cleared_only_by_update (s s' : MSt) (a : MAct) (hs : s.step a = some s') (c : Comp)
    (hc : c ∈ s.owed) (hn : c ∉ s'.owed) : a = .beginUpdate c := by
  cases a with
  | interrupt c' stamp =>
    simp only [MSt.step, Option.some.injEq] at hs
    subst hs
    exact absurd ((mem_sinsert _ _ _).mpr (Or.inl hc)) hn
  | output c' callAt =>
    cases callAt <;> simp only [MSt.step, Option.some.injEq] at hs <;> subst hs <;> exact absurd hc hn
  | startTick =>
    obtain ⟨cs, m, _, _, rfl⟩ := s.step_startTick_eq s' hs
    exact absurd hc hn
  | beginUpdate c' =>
    obtain ⟨rem, _, rfl⟩ := s.step_beginUpdate_eq s' c' hs
    have hn' : c ∉ s.owed.filter (· != c') := hn
    rw [List.mem_filter] at hn'
    have : c = c' := by
      apply Classical.byContradiction
      intro hne
      exact hn' ⟨hc, by simpa using hne⟩
    rw [this]
  | endTick =>
    obtain ⟨_, rfl⟩ := s.step_endTick_eq s' hs
    exact absurd hc hn

/-- **coalescing**: interrupts of one component raised before it is served share one wakeup
entry, recorded for the first of them.

Statement adapted to the repaired `schedule_interrupt` (an interrupt no longer displaces an EARLIER
wakeup of the same component): the old conclusion `alookup s2.pend c = some i1` is now false when
`c` already had a wakeup before `i1` — what is recorded is `s.intWhen c i1 = min(existing wakeup, i1)`,
never later than the stamp `i1` of the first interrupt (and exactly `i1` when `c` had no wakeup,
`interrupts_coalesce_fresh`). -/
theorem interrupts_coalesce (s s1 s2 : MSt) (h : MInv s) (c : Comp) (i1 i2 : SimTime)
    (hfresh : alookup s.pend c = none)
    (h1 : s.step (.interrupt c i1) = some s1) (h2 : s1.step (.interrupt c i2) = some s2) :
    alookup s2.pend c = some (s.intWhen c i1) ∧ s.intWhen c i1 ≤ i1 ∧
      (s2.wake.filter (fun e => e.1 == c)).length = 1 := by
  have hI1 := h.step _ h1
  have hI2 := hI1.step _ h2
  have hp1 : alookup s1.pend c = some (s.intWhen c i1) := by
    rw [MSt.step_interrupt_eq] at h1
    simp only [Option.some.injEq] at h1
    subst h1
    simp [hfresh, ms_alookup_upsert]
  have hp2 : alookup s2.pend c = some (s.intWhen c i1) := by
    rw [MSt.step_interrupt_eq] at h2
    simp only [Option.some.injEq] at h2
    subst h2
    simp [hp1]
  refine ⟨hp2, s.intWhen_le c i1, ?_⟩
  obtain ⟨w, hw, _⟩ := hI2.pend_wake c _ hp2
  apply filter_key_length_one _ hI2.wakeU
  rw [← ms_alookup_isSome_iff, hw]
  rfl

/-- the old form of `interrupts_coalesce`: when `c` has no wakeup at all, the record is the stamp of
the first interrupt. -/
theorem interrupts_coalesce_fresh (s s1 s2 : MSt) (h : MInv s) (c : Comp) (i1 i2 : SimTime)
    (hfresh : alookup s.pend c = none) (hnw : alookup s.wake c = none)
    (h1 : s.step (.interrupt c i1) = some s1) (h2 : s1.step (.interrupt c i2) = some s2) :
    alookup s2.pend c = some i1 ∧ (s2.wake.filter (fun e => e.1 == c)).length = 1 := by
  obtain ⟨hp, _, hl⟩ := interrupts_coalesce s s1 s2 h c i1 i2 hfresh h1 h2
  rw [s.intWhen_none c i1 hnw] at hp
  exact ⟨hp, hl⟩

/-- **the tick serving an interrupt is not later than its stamp**: right after
`schedule_interrupt(c)` stamped `stamp`, the wakeup entry of `c` is at most `stamp` — whether or
not an earlier interrupt or an earlier callback of `c` is still pending.  (With `not_displaced`
this stays so until the interrupt is served.) -/
theorem interrupt_wake_le_stamp (s s' : MSt) (c : Comp) (stamp : SimTime)
    (hs : s.step (.interrupt c stamp) = some s') :
    ∃ w', alookup s'.wake c = some w' ∧ w' ≤ stamp := by
  rw [MSt.step_interrupt_eq] at hs
  simp only [Option.some.injEq] at hs
  subst hs
  have hle := s.intWhen_le c stamp
  show ∃ w', alookup (MSt.addWakeup _ c (s.intWhen c stamp)) c = some w' ∧ w' ≤ stamp
  unfold MSt.addWakeup
  simp only [SimTime] at *
  split
  · refine ⟨_, by rw [ms_alookup_upsert, if_pos rfl], ?_⟩
    split <;> omega
  · exact ⟨_, by rw [ms_alookup_upsert, if_pos rfl], hle⟩

/-- the record of a fresh interrupt is not later than its stamp. -/
theorem interrupt_record_le_stamp (s s' : MSt) (c : Comp) (stamp : SimTime)
    (hfresh : alookup s.pend c = none) (hs : s.step (.interrupt c stamp) = some s') :
    ∃ i, alookup s'.pend c = some i ∧ i ≤ stamp := by
  rw [MSt.step_interrupt_eq] at hs
  simp only [Option.some.injEq] at hs
  subst hs
  exact ⟨s.intWhen c stamp, by simp [hfresh, ms_alookup_upsert], s.intWhen_le c stamp⟩

/-- with the invariant, the wakeup entry of a component whose callback is due not later than the
stamp stays exactly `w` (a pending interrupt of `c` is
recorded no earlier than `c`'s wakeup, so it cannot lower the entry either). -/
theorem interrupt_keeps_earlier_callback_eq (s s' : MSt) (h : MInv s) (c : Comp) (w stamp : SimTime)
    (hw : alookup s.wake c = some w) (hle : w ≤ stamp)
    (hs : s.step (.interrupt c stamp) = some s') :
    alookup s'.wake c = some w := by
  rw [MSt.step_interrupt_eq, s.intWhen_of_le c w stamp hw hle] at hs
  simp only [Option.some.injEq] at hs
  subst hs
  show alookup (MSt.addWakeup _ c w) c = some w
  unfold MSt.addWakeup
  cases hp : alookup s.pend c with
  | none =>
    simp [ms_alookup_upsert]
  | some i =>
    obtain ⟨w0, hw0, hwi⟩ := h.pend_wake c i hp
    rw [hw] at hw0
    cases hw0
    have hni : ¬ i < w := by simp only [SimTime] at *; omega
    simp [hp, ms_alookup_upsert, hni]

/-- **an already due callback is never displaced by an interrupt** (the repaired
`schedule_interrupt`, `when = min(existing wakeup, stamp)`): if `c` has a wakeup at `w ≤ stamp`
when its interrupt stamped `stamp` is scheduled, the wakeup entry of `c` afterwards is still not
later than `w`. -/
theorem interrupt_keeps_earlier_callback (s s' : MSt) (h : MInv s) (c : Comp) (w stamp : SimTime)
    (hw : alookup s.wake c = some w) (hle : w ≤ stamp)
    (hs : s.step (.interrupt c stamp) = some s') :
    ∃ w', alookup s'.wake c = some w' ∧ w' ≤ w := by
  exact ⟨w, interrupt_keeps_earlier_callback_eq s s' h c w stamp hw hle hs, Int.le_refl _⟩

/-- exact form without the invariant: a strictly earlier wakeup and no pending interrupt recorded
for `c` — the entry stays exactly `w`, and `w` (not the stamp) is what is recorded as pending. -/
theorem interrupt_keeps_earlier_callback_exact (s s' : MSt) (c : Comp) (w stamp : SimTime)
    (hw : alookup s.wake c = some w) (hlt : w < stamp) (hfresh : alookup s.pend c = none)
    (hs : s.step (.interrupt c stamp) = some s') :
    alookup s'.wake c = some w ∧ alookup s'.pend c = some w := by
  have hle : w ≤ stamp := by simp only [SimTime] at *; omega
  rw [MSt.step_interrupt_eq, s.intWhen_of_le c w stamp hw hle] at hs
  simp only [Option.some.injEq] at hs
  subst hs
  refine ⟨?_, by simp [hfresh, ms_alookup_upsert]⟩
  show alookup (MSt.addWakeup _ c w) c = some w
  unfold MSt.addWakeup
  simp [hfresh, ms_alookup_upsert]

/-- conversely, a wakeup LATER than the stamp is replaced by the stamp (the interrupt is served
promptly, it does not wait for the later callback). -/
theorem interrupt_replaces_later_callback (s s' : MSt) (c : Comp) (w stamp : SimTime)
    (hw : alookup s.wake c = some w) (hlt : stamp ≤ w) (hfresh : alookup s.pend c = none)
    (hs : s.step (.interrupt c stamp) = some s') :
    alookup s'.wake c = some stamp ∧ alookup s'.pend c = some stamp := by
  rw [MSt.step_interrupt_eq, s.intWhen_of_ge c w stamp hw hlt] at hs
  simp only [Option.some.injEq] at hs
  subst hs
  refine ⟨?_, by simp [hfresh, ms_alookup_upsert]⟩
  show alookup (MSt.addWakeup _ c stamp) c = some stamp
  unfold MSt.addWakeup
  simp [hfresh, ms_alookup_upsert]

/-- without the pending-interrupt record the property fails (the behaviour before the repair):
an interrupt followed by the stale answer of the running tick is displaced. -/
theorem displaced_without_record :
    let wake0 : Wakeups := upsert [] "sys" 100          -- interrupt stamped 100
    let wake1 : Wakeups := upsert wake0 "sys" 5000      -- stale Output(call_at = 5000) overwrites
    alookup wake1 "sys" = some 5000 := by
  decide

example : (({} : MSt).run [.interrupt "sys" 100, .output "sys" (some 5000)]).wake = [("sys", 100)] := by decide

-- a callback due at 50 is kept by an interrupt stamped 100; one due at 5000 is replaced
example : (({} : MSt).run [.output "sys" (some 50), .interrupt "sys" 100]).wake = [("sys", 50)] := by decide
example : (({} : MSt).run [.output "sys" (some 5000), .interrupt "sys" 100]).wake = [("sys", 100)] := by decide

end Tickit
