/-
C08 / C13 at MESSAGE level over MANY ticks (`Core/MsgFlatRun.lean`): a flat simulation whose
messages are in flight on the contract bus, whose components carry their own state and start
late by any number of steps, whose scheduler begins the next tick from its wakeups — refines
`FlatRun`, the multi-tick model with atomic answers on which C01–C08 are proved.

* `msg_run_refines_flatRun`: at the end of every tick the message-level state is equivalent
  (per component: same device inputs / last outputs as mappings, same pending wakeup, same
  observation sequence) to the state of a `FlatRun` with the same number of ticks and the same
  tick times.
* `msg_run_schedule_independent`: two message-level runs — any interleavings, any start
  patterns — agree on tick times and per-device observations after the same number of ticks.
* `msg_run_tick_is_msg_tick`: inside a tick every reachable state is a state of the single-tick
  model of `Core/MsgFlat.lean` (so all theorems of `Props/C08Msg.lean` apply to it).
* `msg_run_can_complete_tick`, `msg_run_next_tick_enabled`: no start pattern blocks the run.
-/
import TickitModel.Lemmas.MsgRunLive
import TickitModel.Props.C08

set_option autoImplicit false

namespace Tickit

open Tickit.Det

set_option linter.unusedSectionVars false

variable {Val : Type} [DecidableEq Val]

theorem msgObsEq_symm {a b : List (SimTime × List (Port × Val))} (h : ObsEq a b) : ObsEq b a := by
  induction a generalizing b with
  | nil => cases b <;> simp_all [ObsEq]
  | cons x a ih =>
    cases b with
    | nil => simp [ObsEq] at h
    | cons y b =>
      obtain ⟨t1, i1⟩ := x
      obtain ⟨t2, i2⟩ := y
      simp only [ObsEq] at h ⊢
      exact ⟨h.1.symm, fun k => (h.2.1 k).symm, ih h.2.2⟩

theorem msgObsEq_trans {a b c : List (SimTime × List (Port × Val))} (h : ObsEq a b)
    (h' : ObsEq b c) : ObsEq a c := by
  induction a generalizing b c with
  | nil =>
    cases b with
    | nil => exact h'
    | cons y b => simp [ObsEq] at h
  | cons x a ih =>
    cases b with
    | nil => simp [ObsEq] at h
    | cons y b =>
      cases c with
      | nil => obtain ⟨t2, i2⟩ := y; simp [ObsEq] at h'
      | cons z c =>
        obtain ⟨t1, i1⟩ := x
        obtain ⟨t2, i2⟩ := y
        obtain ⟨t3, i3⟩ := z
        simp only [ObsEq] at h h' ⊢
        exact ⟨h.1.trans h'.1, fun k => (h.2.1 k).trans (h'.2.1 k), ih h.2.2 h'.2.2⟩

/-- **Refinement of `FlatRun`.**  Whenever a tick of the message-level run has completed — after
ANY interleaving of component starts, `Input` deliveries, `Output`/`Skip` deliveries and tick
starts, with ANY set of components started before the scheduler and the others starting any
number of steps late — the state of the simulation (each component's `device_inputs` and
`last_outputs`, the scheduler's `wakeups`, every device's sequence of `(time, inputs)`
observations) is equivalent to the state of a `FlatRun` with the same number of ticks, and the
tick times are the same. -/
theorem msg_run_refines_flatRun (w : Wiring) (hw : RouterOK w) (hacyc : w.Acyclic)
    (devs : DevSeq Val) (hdev : ∀ k, DevExt (devs k)) (t0 : SimTime) (M : MsgRunSt Val)
    (h : MsgRunSt.Reach w devs t0 M) (hc : M.bus.Complete) :
    ∃ n st, M.ticks = n + 1 ∧ FlatRun w devs t0 n st M.times ∧ M.flat.Equiv st := by
  rcases h.inv hw hacyc hdev with ⟨S, rfl⟩ | ⟨n, F, t, roots, b0, hticks, hb0, hwake, huniq, htr, hlink⟩
  · obtain ⟨tk, htk, _⟩ := hc; cases htk
  · obtain ⟨st, hrun, heq, _⟩ := tick_boundary hw hacyc hdev hb0 hwake huniq htr hlink hc
    exact ⟨n, st, hticks, hrun, ⟨fun c => ⟨(heq c).ins, (heq c).outs⟩, fun c => (heq c).wk,
      fun c => (heq c).ob⟩⟩

/-- **C08 / C13 over many ticks.**  Two message-level runs of the same simulation (same wiring,
same deterministic devices, same initial time) that have both completed the same number of
ticks have the same tick times, and every device has made the same sequence of
`(time, inputs)` observations — whatever the delivery orders and latencies were, whichever
components had started before the scheduler, however late the others started. -/
theorem msg_run_schedule_independent (w : Wiring) (hw : RouterOK w) (hacyc : w.Acyclic)
    (devs : DevSeq Val) (hdev : ∀ k, DevExt (devs k)) (t0 : SimTime) (M1 M2 : MsgRunSt Val)
    (h1 : MsgRunSt.Reach w devs t0 M1) (h2 : MsgRunSt.Reach w devs t0 M2)
    (hc1 : M1.bus.Complete) (hc2 : M2.bus.Complete) (hn : M1.ticks = M2.ticks) :
    M1.times = M2.times ∧ ∀ c, ObsEq (M1.flat.obsOf c) (M2.flat.obsOf c) := by
  obtain ⟨n1, st1, ht1, hr1, he1⟩ := msg_run_refines_flatRun w hw hacyc devs hdev t0 M1 h1 hc1
  obtain ⟨n2, st2, ht2, hr2, he2⟩ := msg_run_refines_flatRun w hw hacyc devs hdev t0 M2 h2 hc2
  have : n1 = n2 := by omega
  subst this
  obtain ⟨htimes, hobs⟩ := schedule_independent w hw hacyc devs hdev t0 n1 st1 st2 _ _ hr1 hr2
  exact ⟨htimes, fun c => msgObsEq_trans (he1.obs c) (msgObsEq_trans (hobs c)
    (msgObsEq_symm (he2.obs c)))⟩

/-- **Inside a tick the run IS the single-tick model.**  In every reachable state in which
the scheduler has started, the bus is a reachable state of the message-level tick model
(`MsgSt.Reach`) for the current tick's time and roots, begun from an idle bus, with the reaction
function of the components' PRE-TICK state (each component reacts at most once per tick, so it
is still in its pre-tick state when its `Input` arrives).  Hence every theorem of
`Props/C08Msg.lean` (refinement to `TickSys`, at most one reaction, reaction after upstreams,
no failed assertion, exactly-once delivery to late starters) holds for every tick of the run. -/
theorem msg_run_tick_is_msg_tick (w : Wiring) (hw : RouterOK w) (hacyc : w.Acyclic)
    (devs : DevSeq Val) (hdev : ∀ k, DevExt (devs k)) (t0 : SimTime) (M : MsgRunSt Val)
    (h : MsgRunSt.Reach w devs t0 M) (hst : M.ticks ≠ 0) :
    ∃ (n : Nat) (F : FlatSt Val) (b0 : MsgSt Val), M.ticks = n + 1 ∧ b0.Idle ∧
      MsgSt.Reach w (rxOf F.comps (devs n)) M.tickTime M.tickRoots b0 M.bus ∧
      (∀ r ∈ M.tickRoots, r ∈ w.components) ∧
      ∀ c, reactsOf c M.bus.hist = [] → M.flat.comp c = F.comp c := by
  rcases h.inv hw hacyc hdev with ⟨S, rfl⟩ | ⟨n, F, t, roots, b0, hticks, hb0, _, _, htr, hlink⟩
  · exact absurd rfl hst
  · refine ⟨n, F, b0, hticks, hb0, ?_, ?_, fun c hc => ?_⟩
    · rw [htr.time, htr.roots]; exact htr.reach
    · rw [htr.roots]; exact hlink.roots_components
    · have := htr.comp c
      rw [hc] at this
      exact (Prod.ext_iff.1 this).1

/-- **No start pattern blocks a tick** (C13): from every reachable state of the run — in
particular with any subset of the components not started yet, and messages for them waiting in
their logs — some continuation (start the scheduler, start components, deliver) completes the
tick in progress. -/
theorem msg_run_can_complete_tick (w : Wiring) (hw : RouterOK w) (hacyc : w.Acyclic)
    (devs : DevSeq Val) (hdev : ∀ k, DevExt (devs k)) (t0 : SimTime) (M : MsgRunSt Val)
    (h : MsgRunSt.Reach w devs t0 M) :
    ∃ acts M', MsgRunSt.run w devs t0 M acts = some M' ∧ M'.bus.Complete ∧
      MsgRunSt.Reach w devs t0 M' := by
  obtain ⟨acts, M', hrun, hc⟩ := h.can_complete_tick hw hacyc hdev
  exact ⟨acts, M', hrun, hc, h.run hrun⟩

/-- **The run proceeds**: when a tick has completed and some wakeup is pending, the scheduler
can begin the next tick, and it does not fail. -/
theorem msg_run_next_tick_enabled (w : Wiring) (hw : RouterOK w) (hacyc : w.Acyclic)
    (devs : DevSeq Val) (hdev : ∀ k, DevExt (devs k)) (t0 : SimTime) (M : MsgRunSt Val)
    (h : MsgRunSt.Reach w devs t0 M) (hc : M.bus.Complete) (hne : M.bus.wake ≠ []) :
    ∃ M', M.step w devs t0 .nextTick = some (.ok M') ∧ M'.ticks = M.ticks + 1 := by
  rcases h.inv hw hacyc hdev with ⟨S, rfl⟩ | ⟨n, F, t, roots, b0, hticks, hb0, hwake, huniq, htr, hlink⟩
  · obtain ⟨tk, htk, _⟩ := hc; cases htk
  · obtain ⟨st, hrun, heq, hu⟩ := tick_boundary hw hacyc hdev hb0 hwake huniq htr hlink hc
    obtain ⟨tk, htk, hnil⟩ := hc
    have hsome : (firstWakeups M.bus.wake).2 ≠ none := fun h => hne ((firstWakeups_none _).1 h)
    obtain ⟨when, hwhen⟩ := Option.ne_none_iff_exists'.1 hsome
    have hf : firstWakeups M.bus.wake = ((firstWakeups M.bus.wake).1, some when) := by rw [← hwhen]
    generalize (firstWakeups M.bus.wake).1 = cs at hf
    -- the roots are components of the wiring
    have hcomp : ∀ r ∈ cs, r ∈ w.components := by
      intro r hr
      have hk := Sync.firstWakeups_sub hf r hr
      obtain ⟨x, hx⟩ := Option.isSome_iff_exists.1 (alookup_isSome_iff.2 hk)
      have : alookup st.wake r = some x := ((heq r).wk).symm.trans hx
      exact Callback.wake_keys_components hrun r (mem_akeys_of_alookup_eq_some this)
    have hroots := Sync.hroots_of_components hcomp
    obtain ⟨s, hs⟩ := TickSys.init_ok_of (Val := Val) when hroots
    simp only [TickSys.init] at hs
    cases hcall : (Ticker.call w when cs : Except TickErr (Ticker Val × List (Dispatch Val))) with
    | error e => simp [hcall, Except.map] at hs
    | ok r =>
      simp only [MsgRunSt.step, htk, hnil, List.isEmpty_nil, if_true, hf, MsgSt.step, hcall,
        Except.map, Option.map_some]
      exact ⟨_, rfl, rfl⟩

/-! ## non-vacuity: `a` feeds `b` and `c`; `a` asks to be called back every 100 ns until 200 -/

/-- `a` reports its update time and asks for a callback 100 ns later (until 200); `b` and `c`
report their input plus one. -/
def msgDev3 : DevFn Int := fun c t ins =>
  if c = "a" then ⟨[("o", t)], if t < 200 then some (t + 100) else none⟩
  else ⟨[("o", agetD ins "i" 0 + 1)], none⟩

theorem msgW3_routerOK : RouterOK msgW3 := by
  refine routerOK_of_wf msgW3 (by unfold Wiring.WF DictWF akeys; decide) ?_
  have h : msgW3 = Wiring.fromInverse
      [("a", []), ("b", [("i", ("a", "o"))]), ("c", [("i", ("a", "o"))])] := by decide
  rw [h]
  exact Wiring.oneSource_fromInverse _ (by unfold InvWiring.WF DictWF akeys; decide)

theorem msgW3_acyclic : msgW3.Acyclic := by
  refine ⟨fun c => if c = "a" then 0 else 1, ?_⟩
  have hinv : msgW3.inverseTree = [("b", ["a"]), ("c", ["a"]), ("a", [])] := by decide
  intro c us u hus hu
  simp only [Wiring.ups, hinv, alookup] at hus
  split at hus
  · cases hus; simp at hu; subst_vars; decide
  · split at hus
    · cases hus; simp at hu; subst_vars; decide
    · split at hus
      · cases hus; simp at hu
      · cases hus

theorem msgDev3_ext : ∀ k : Nat, DevExt ((fun _ => msgDev3 : DevSeq Int) k) := by
  intro _ c t i1 i2 h
  simp only [msgDev3, agetD, h "i"]

/-- three ticks (0, 100, 200): `b` starts before the scheduler, `a` after it, `c` LATE — after
its first `Input` has been produced and `b` has already reacted; in the later ticks the answers
of `b` and `c` arrive in different orders. -/
def msgRunActs : List MsgRunAct :=
  [.bus (.startComp "b"), .bus .startSched, .bus (.startComp "a"), .bus (.deliverIn "a"),
   .bus (.deliverOut "a"), .bus (.deliverIn "b"), .bus (.startComp "c"), .bus (.deliverIn "c"),
   .bus (.deliverOut "c"), .bus (.deliverOut "b"),
   .nextTick, .bus (.deliverIn "a"), .bus (.deliverOut "a"), .bus (.deliverIn "c"),
   .bus (.deliverIn "b"), .bus (.deliverOut "b"), .bus (.deliverOut "c"),
   .nextTick, .bus (.deliverIn "a"), .bus (.deliverOut "a"), .bus (.deliverIn "b"),
   .bus (.deliverOut "b"), .bus (.deliverIn "c"), .bus (.deliverOut "c")]

/-- the run is an execution of the message-level model; it ends at a tick boundary after three
ticks, with these observations. -/
theorem msgRun_example : ∃ M, MsgRunSt.run msgW3 (fun _ => msgDev3) 0 (MsgRunSt.initial [])
      msgRunActs = some M ∧ M.bus.Complete ∧ M.ticks = 3 ∧ M.times = [200, 100, 0] ∧
    M.flat.obsOf "a" = [(0, []), (100, []), (200, [])] ∧
    M.flat.obsOf "c" = [(0, [("i", 0)]), (100, [("i", 100)]), (200, [("i", 200)])] :=
  ⟨_, rfl, ⟨_, rfl, rfl⟩, rfl, rfl, rfl, rfl⟩

/-- … and so (by `msg_run_refines_flatRun`) there is a `FlatRun` with two callback ticks, the
same times and the same observations. -/
example : ∃ st, FlatRun msgW3 (fun _ => msgDev3) 0 2 st [200, 100, 0] ∧
    ObsEq [(0, [("i", 0)]), (100, [("i", 100)]), (200, [("i", 200)])] (st.obsOf "c") := by
  obtain ⟨M, hrun, hc, hticks, htimes, _, hobs⟩ := msgRun_example
  have hreach := MsgRunSt.Reach.run (MsgRunSt.Reach.init []) hrun
  obtain ⟨n, st, hn, hfr, heq⟩ :=
    msg_run_refines_flatRun msgW3 msgW3_routerOK msgW3_acyclic _ msgDev3_ext 0 M hreach hc
  have : n = 2 := by omega
  subst this
  exact ⟨st, htimes ▸ hfr, hobs ▸ heq.obs "c"⟩

end Tickit
