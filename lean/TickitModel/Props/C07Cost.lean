/-
C07, run level, ARBITRARY PROCESSING COSTS — every interrupt is served promptly.

The model: `Core/SimCost.lean` (`masterInitialC` / `masterRunC`): the master loop of
`tickit/core/management/schedulers/master.py` with pacing, nested schedulers at any depth below the
master, external stimuli (interrupts) between ticks AND in the middle of a tick, the k-th tick
taking `cost k` ns of real time for an ARBITRARY `cost : Nat → Nat`.  Speed = `sp.num / sp.den`.

    async def schedule_interrupt(self, source):
        when = SimTime(self.ticker.time + int((time_ns() - self.last_time) * self.simulation_speed))
        pending = self.wakeups.get(source)
        if pending is not None and pending < when:
            when = pending                      # an earlier wakeup of `source` is kept
        self._pending_interrupts.setdefault(source, when)
        self.add_wakeup(source, when)           # sets `new_wakeup`: the sleep is computed afresh

    async def _do_tick(self):
        ...
        components, when = self.get_first_wakeups()      # the EARLIEST wakeups: one tick for all of them
        for component in components:
            del self.wakeups[component]
        self.last_time = time_ns()                       # start of the tick
        await self.ticker(when, {component for component in components})
        self.last_time = time_ns()                       # end of the tick

Every handled stimulus `ev` is an element of the log
`initLogC … ++ runLogC …` (`Props/C12Cost.lean`): `ev.st` the stimulus, `ev.top` the top-level
component the master sees interrupting (the component itself, or the outermost system component
that contains it), `ev.now` the real time at which it is handled, `ev.stamp` the simulation time
stamped on it, `ev.when ≤ ev.stamp` the wakeup written for `ev.top`, `ev.k` the number of tick
records written so far (`ticks[ev.k - 1]` is the last tick started before the stimulus — the tick
IN PROGRESS if `ev.mid` —, `ticks[ev.k]` the next one).

* S  `c07C_served_or_pending` — NEVER LOST, NEVER OVERTAKEN: for every handled stimulus, EITHER
  there is a first tick record `x = ticks[j]`, `j ≥ ev.k`, that SERVES it (`ServedAt`): `x.time ≤
  ev.when ≤ ev.stamp`, `ev.top` is one of its roots (or `ev.top` is wired downstream of one of its
  roots and has replaced the wakeup by its answer, see below), every tick record in between is for
  a simulation time strictly before `ev.when` (no LATER callback is served first), and a device
  `ev.top` has been updated in tick `j` (a new observation at `x.time`, appended after the
  stimulus was handled); OR the wakeup is still pending in the final state of the run and all
  later ticks were for strictly earlier times.
  `c07C_served` — the second case is excluded when the run is long enough: fewer than `nTicks`
  ticks and fewer than `steps` iterations used (`c07C_run_complete`: then no wakeup is left);
  `c07C_served_of_reached` — or, for simulations that never run out of wakeups, when some tick
  record after the stimulus is for a time `≥ ev.when`.
  `c07C_served_root` — if `ev.top` is wired downstream of no other top-level component, the serving
  tick has `ev.top` among its ROOTS.
* P  promptness (in the same theorem, `PromptAt`):
  - a stimulus handled BETWEEN ticks at `ev.now`: the next tick starts AT `ev.now`;
  - a stimulus handled in the MIDDLE of tick `z = ticks[ev.k-1]` (started `z.real`, cost `c`):
    the next tick starts no later than `z.real + c + sleepFor (ev.when - z.time)`, exactly then if it
    is the tick for `ev.when`, and `sleepFor (ev.when - z.time) ≤ ev.now - z.real < c`: the extra
    delay beyond the end of the tick in progress is at most the part of that tick that had elapsed
    when the interrupt was raised, hence less than its duration (`c07C_mid_gap`);
  - every tick in between (an earlier wakeup served first) delays the serving tick by its cost
    plus the sleep for the simulated time that separates it from `ev.when`:
    `ticks[i+1].real ≤ ticks[i].real + cost i + sleepFor (ev.when - ticks[i].time)`; summed up:
    `x.real ≤ (first tick bound) + Σ_{ev.k ≤ i < j} (cost i + sleepFor (ev.when - ticks[i].time))`.
  `sleepFor Δ = max 0 ⌈Δ·den/num⌉` is the sleep the code computes for `Δ` ns of simulation time at
  the end of a tick.  All these bounds are attained (examples at the end).
* K  coalescing (same theorem; `c07C_coalesce`): every later stimulus of the same top-level
  component handled before the serving tick `j` (`ev'.k ≤ j`) is served by the SAME tick record.

What "serves" means in THIS model, and why the second alternative of `ServesC` is there: the tick
of `Core/Sim.lean` writes the answer of a component with plain `add_wakeup` (`wakeups[c] = call_at`);
the guard `_pending_interrupts` of `MasterScheduler.add_wakeup` is not part of it.  So when a tick
for an EARLIER time updates `ev.top` as a dependant of one of its roots and `ev.top` answers with a
callback request, that request replaces the pending interrupt wakeup in the model (in the code
the smaller of the two is kept).  In that case `ev.top` has been updated after the interrupt was
raised, in a tick for a time `< ev.when` — which is what C07 asks for — but it was not a root.
`c07C_served_root` excludes the case by a hypothesis on the wiring.
-/
import TickitModel.Lemmas.C07CostEvents
import TickitModel.Props.C12Cost

namespace Tickit

open Pacing TimeMono CostRun

/-! ## definitions used in the statements -/

/-- tick record `x = ticks[j]` serves the handled stimulus `ev`: it comes after the stimulus, it is
for a time `≤ ev.when ≤ ev.stamp`, it serves the wakeup of `ev.top` (`ServesC`), and every tick
record between the stimulus and `x` is for a time strictly before `ev.when` and does not have
`ev.top` among its roots. -/
structure CostRun.StimEvC.ServedAt (S : Static) (fuel : Nat) (sp : Speed) (L : Level)
    (ticks : List TickRec) (ev : StimEvC) (j : Nat) (x : TickRec) : Prop where
  idx : ev.k ≤ j ∧ ticks[j]? = some x
  serves : ServesC L (ev.top S fuel) (ev.when S fuel sp) x
  not_after_stamp : x.time ≤ ev.stamp sp
  between : ∀ i y, ev.k ≤ i → i < j → ticks[i]? = some y →
    y.time < ev.when S fuel sp ∧ y.time < ev.stamp sp ∧ ev.top S fuel ∉ y.roots

/-- `Σ_{k ≤ i < k+n} (cost i + sleepFor (B - ticks[i].time))`: the processing costs of the tick
records number `k … k+n-1` plus the sleeps for the simulated time that separates each from `B` -/
def delayBetween (sp : Speed) (cost : Nat → Nat) (B : SimTime) (ticks : List TickRec) (k : Nat) :
    Nat → Int
  | 0 => 0
  | n + 1 => delayBetween sp cost B ticks k n +
      (match ticks[k + n]? with
        | some y => (cost (k + n) : Int) + sleepFor sp (B - y.time)
        | none => 0)

/-- how promptly the serving tick `x = ticks[j]` of the handled stimulus `ev` is started. -/
structure CostRun.StimEvC.PromptAt (S : Static) (fuel : Nat) (sp : Speed) (cost : Nat → Nat)
    (ticks : List TickRec) (ev : StimEvC) (j : Nat) (x : TickRec) : Prop where
  /-- a stimulus handled between ticks: the next tick starts at the very real time `ev.now` -/
  first_between : ev.mid = false → ∀ x0, ticks[ev.k]? = some x0 → x0.real = ev.now
  /-- a stimulus handled in the middle of tick `z`: the next tick starts when `z` has ended, no
  later than the sleep for `ev.when - z.time` after that, exactly then if it is the tick for
  `ev.when` -/
  first_mid : ev.mid = true → ∀ z x0, ticks[ev.k - 1]? = some z → ticks[ev.k]? = some x0 →
    z.real + cost (ev.k - 1) ≤ x0.real ∧
    x0.real ≤ z.real + cost (ev.k - 1) + sleepFor sp (ev.when S fuel sp - z.time) ∧
    (x0.time = ev.when S fuel sp →
      x0.real = z.real + cost (ev.k - 1) + sleepFor sp (ev.when S fuel sp - z.time))
  /-- every tick served first delays the next one by its cost plus the sleep for the simulated
  time that separates it from `ev.when`, and by nothing else -/
  chain : ∀ i y b, ev.k ≤ i → i < j → ticks[i]? = some y → ticks[i + 1]? = some b →
    y.real + cost i ≤ b.real ∧ b.real ≤ y.real + cost i + sleepFor sp (ev.when S fuel sp - y.time)
  /-- summed up, between ticks -/
  total_between : ev.mid = false → ev.now ≤ x.real ∧
    x.real ≤ ev.now + delayBetween sp cost (ev.when S fuel sp) ticks ev.k (j - ev.k)
  /-- summed up, mid-tick -/
  total_mid : ev.mid = true → ∀ z, ticks[ev.k - 1]? = some z →
    z.real + cost (ev.k - 1) ≤ x.real ∧
    x.real ≤ z.real + cost (ev.k - 1) + sleepFor sp (ev.when S fuel sp - z.time) +
      delayBetween sp cost (ev.when S fuel sp) ticks ev.k (j - ev.k)
  /-- the serving tick begins after the interrupt was raised (and handled) -/
  after : ev.st.real ≤ ev.now ∧ ev.now ≤ x.real

/-! ## the first tick after a stimulus -/

/-- telescoping the chain of ticks between a stimulus and its serving tick -/
theorem delay_telescope (sp : Speed) (cost : Nat → Nat) (B : SimTime) (ticks : List TickRec)
    (k j : Nat)
    (hchain : ∀ i y b, k ≤ i → i < j → ticks[i]? = some y → ticks[i + 1]? = some b →
      y.real + cost i ≤ b.real ∧ b.real ≤ y.real + cost i + sleepFor sp (B - y.time)) :
    ∀ n a b, k + n ≤ j → ticks[k]? = some a → ticks[k + n]? = some b →
      a.real ≤ b.real ∧ b.real ≤ a.real + delayBetween sp cost B ticks k n := by
  intro n
  induction n with
  | zero =>
    intro a b _ ha hb
    rw [Nat.add_zero, ha] at hb
    cases hb
    simp [delayBetween]
  | succ n ih =>
    intro a b hle ha hb
    have hlen : k + n + 1 < ticks.length := (List.getElem?_eq_some_iff.1 hb).1
    have hy : ticks[k + n]? = some ticks[k + n] := List.getElem?_eq_getElem (by omega)
    obtain ⟨i1, i2⟩ := ih a _ (by omega) ha hy
    obtain ⟨c1, c2⟩ := hchain (k + n) _ b (by omega) (by omega) hy hb
    rw [delayBetween, hy]
    simp only []
    have : (0 : Int) ≤ (cost (k + n) : Int) := by omega
    exact ⟨by omega, by omega⟩

/-- **the first tick after a stimulus.**  For every handled stimulus `ev` and the next tick record
`x0 = ticks[ev.k]` (if there is one): it is for a time `≤ ev.when`; if the stimulus was handled
between ticks, it starts AT `ev.now`; if it was handled in the middle of tick `z = ticks[ev.k - 1]`,
it starts when `z` has ended and no later than `sleepFor (ev.when - z.time)` after that — exactly
then if it is the tick for `ev.when`. -/
theorem c07C_first_tick (S : Static) (orc : Oracle) (fuel : Nat) (t0 : SimTime) (now0 : Int)
    (sp : Speed) (cost : Nat → Nat) (steps nTicks : Nat) (stims0 stims : List Stim)
    (m m2 : MasterSt) (tr : TickRec) (ticks : List TickRec)
    (h : masterInitialC S orc fuel sp cost t0 now0 stims0 = .ok (m, tr, stims))
    (h2 : masterRunC S orc fuel sp cost steps nTicks m stims [tr] = .ok (m2, ticks))
    (hn : 0 < sp.num) (hd : 0 < sp.den) :
    ∀ ev ∈ initLogC S orc fuel sp cost t0 now0 stims0 ++
        runLogC S orc fuel sp cost steps nTicks m stims 1,
      ∀ x0, ticks[ev.k]? = some x0 →
        x0.time ≤ ev.when S fuel sp ∧
        (ev.mid = false → x0.real = ev.now) ∧
        (ev.mid = true → ∀ z, ticks[ev.k - 1]? = some z →
          z.real + cost (ev.k - 1) ≤ x0.real ∧
          x0.real ≤ z.real + cost (ev.k - 1) + sleepFor sp (ev.when S fuel sp - z.time) ∧
          (x0.time = ev.when S fuel sp →
            x0.real = z.real + cost (ev.k - 1) + sleepFor sp (ev.when S fuel sp - z.time))) := by
  intro ev hev x0 hx0
  obtain ⟨pre, post, hsplit⟩ := List.append_of_mem hev
  obtain ⟨m', stims', acc', mids, post', hrun, _, hlen, hp, _, _, hT, hbet, hmid⟩ :=
    c07C_after_all h h2 pre ev post hsplit
  have hlaw := (runC_stamp_law S orc fuel t0 now0 sp cost steps nTicks stims0 stims m m2 tr ticks
    h h2 hn hd).2 ev hev
  obtain ⟨_, z', hz', hzt, hzl, _⟩ := hlaw.last_tick
  rw [← hlen] at hx0
  refine ⟨?_, fun hm => ?_, fun hm z hz => ?_⟩
  · cases hm : ev.mid with
    | false =>
      obtain ⟨_, rfl⟩ := hbet hm
      exact (hrun.c07_next hn _ _ (by
        show ev.m.lastReal ≤ ev.now
        exact Int.le_trans hlaw.real_mono.1 hlaw.real_mono.2) hp x0 hx0).1
    | true =>
      obtain ⟨hl, hnw⟩ := hmid hm
      exact (hrun.c07_next hn _ _ (by rw [hl, hnw]; exact Int.le_refl _) hp x0 hx0).1
  · rw [hlen] at hx0
    exact (hlaw.served hm).2 x0 hx0 |>.1
  · obtain ⟨hl, hnw⟩ := hmid hm
    obtain ⟨_, r2, r3, r4⟩ :=
      hrun.c07_next hn _ _ (by rw [hl, hnw]; exact Int.le_refl _) hp x0 hx0
    rw [hz] at hz'
    cases hz'
    rw [hm] at hzl
    simp only [if_true] at hzl
    rw [dueReal_at_end m' sp _ (by rw [hl, hnw]), hnw, hT, hzl, ← hzt] at r3 r4
    rw [hnw, hzl] at r2
    exact ⟨r2, r3, r4⟩

/-- **the elapsed part of the tick in progress.**  For a stimulus handled in the middle of tick
`z = ticks[ev.k - 1]`: the sleep for `ev.when - z.time` is at most the sleep for
`ev.stamp - z.time`, which is at most `ev.now - z.real`, the part of the tick that had elapsed when
the interrupt was handled, which is less than the cost of the tick. -/
theorem c07C_mid_gap (S : Static) (orc : Oracle) (fuel : Nat) (t0 : SimTime) (now0 : Int)
    (sp : Speed) (cost : Nat → Nat) (steps nTicks : Nat) (stims0 stims : List Stim)
    (m m2 : MasterSt) (tr : TickRec) (ticks : List TickRec)
    (h : masterInitialC S orc fuel sp cost t0 now0 stims0 = .ok (m, tr, stims))
    (h2 : masterRunC S orc fuel sp cost steps nTicks m stims [tr] = .ok (m2, ticks))
    (hn : 0 < sp.num) (hd : 0 < sp.den) :
    ∀ ev ∈ initLogC S orc fuel sp cost t0 now0 stims0 ++
        runLogC S orc fuel sp cost steps nTicks m stims 1,
      ev.mid = true → ∀ z, ticks[ev.k - 1]? = some z →
        0 ≤ sleepFor sp (ev.when S fuel sp - z.time) ∧
        sleepFor sp (ev.when S fuel sp - z.time) ≤ sleepFor sp (ev.stamp sp - z.time) ∧
        sleepFor sp (ev.stamp sp - z.time) ≤ ev.now - z.real ∧
        ev.now - z.real < cost (ev.k - 1) := by
  intro ev hev hm z hz
  have hlaw := (runC_stamp_law S orc fuel t0 now0 sp cost steps nTicks stims0 stims m m2 tr ticks
    h h2 hn hd).2 ev hev
  obtain ⟨_, z', hz', hzt, hzl, hin⟩ := hlaw.last_tick
  rw [hz] at hz'
  cases hz'
  rw [hm] at hzl
  simp only [if_true] at hzl
  have hle := Int.le_trans hlaw.real_mono.1 hlaw.real_mono.2
  refine ⟨sleepFor_nonneg sp hn _, sleepFor_mono sp hn _ _ ?_, ?_, ?_⟩
  · have := hlaw.when_le
    simp only [SimTime] at *
    omega
  · have hst := hlaw.stamp_eq
    have : ev.stamp sp - z.time = ((ev.now - z.real) * sp.num) / sp.den := by
      rw [hst, hzt, hzl]
      simp only [SimTime] at *
      omega
    rw [this]
    exact sleepFor_floor_le sp hn hd _ (by omega)
  · have := (hin hm).2.2
    omega

/-! ## S, P, K — served, promptly, together -/

/-- **C07 at run level with processing costs.**  Whole simulation (master level with nested
schedulers below it), any oracle, any speed `num/den` with `num, den > 0`, any cost function, any
list of stimuli, any budget `steps`, `nTicks`; `L` is the master level and the name `""` of the
master level is not the name of a system component.  For EVERY handled stimulus `ev` (at any
position `pre ++ ev :: post` of the log: in the middle of the initial tick, between ticks, in the
middle of a later tick), with `top = ev.top`, the observations of the final state extend those
made when the stimulus was handled by `new`, and

* EITHER (served) there are `j ≥ ev.k` and `x = ticks[j]` such that
  - `ServedAt`: `x.time ≤ ev.when ≤ ev.stamp`; `top` is one of the roots of `x`, or `top` is wired
    downstream of a root of `x`, `x.time < ev.when` and the answer of `top` in that tick has
    replaced the wakeup; every tick record `ticks[i]`, `ev.k ≤ i < j`, is for a time `< ev.when`
    (no later callback is served before the interrupt) and does not have `top` among its roots;
  - if `top` is a device, `new` contains an observation of `top` at time `x.time`: the device is
    updated in tick `j`, which began after the interrupt was handled;
  - `PromptAt`: `x` starts after the interrupt was raised (`ev.st.real ≤ ev.now ≤ x.real`), and
    the real time at which it starts is bounded as described in the file header;
  - every LATER handled stimulus `ev'` of the same `top` with `ev'.k ≤ j` is served by the same
    tick record (`ServedAt` for `ev'` with the same `j`, `x`): interrupts raised before the
    component is served share one update;
* OR (not yet served) the final master state still holds a wakeup of `top` not after `ev.when`,
  and every tick record after the stimulus is for a time `< ev.when` and does not have `top`
  among its roots: the interrupt is NOT LOST, the run was stopped before its turn. -/
theorem c07C_served_or_pending (S : Static) (orc : Oracle) (fuel : Nat) (t0 : SimTime) (now0 : Int)
    (sp : Speed) (cost : Nat → Nat) (steps nTicks : Nat) (stims0 stims : List Stim)
    (m m2 : MasterSt) (tr : TickRec) (ticks : List TickRec) (L : Level)
    (h : masterInitialC S orc fuel sp cost t0 now0 stims0 = .ok (m, tr, stims))
    (h2 : masterRunC S orc fuel sp cost steps nTicks m stims [tr] = .ok (m2, ticks))
    (hroot : S.isSys "" = false) (hL : S.level "" = some L) (hn : 0 < sp.num) (hd : 0 < sp.den) :
    ∀ pre ev post, initLogC S orc fuel sp cost t0 now0 stims0 ++
        runLogC S orc fuel sp cost steps nTicks m stims 1 = pre ++ ev :: post →
      ∃ new, m2.sim.obs = ev.m.sim.obs ++ new ∧
        ((∃ j x, ev.ServedAt S fuel sp L ticks j x ∧
            (S.isSys (ev.top S fuel) = false →
              ∃ o ∈ new, o.comp = ev.top S fuel ∧ o.time = x.time) ∧
            ev.PromptAt S fuel sp cost ticks j x ∧
            (∀ ev' ∈ post, ev'.top S fuel = ev.top S fuel → ev'.k ≤ j →
              ev'.ServedAt S fuel sp L ticks j x)) ∨
         (PendC m2 (ev.top S fuel) (ev.when S fuel sp) ∧
            ∀ i y, ev.k ≤ i → ticks[i]? = some y →
              y.time < ev.when S fuel sp ∧ ev.top S fuel ∉ y.roots)) := by
  intro pre ev post hsplit
  have hev : ev ∈ initLogC S orc fuel sp cost t0 now0 stims0 ++
      runLogC S orc fuel sp cost steps nTicks m stims 1 := by rw [hsplit]; simp
  obtain ⟨m', stims', acc', mids, post', hrun, hpost, hlen, ⟨e, he, hew⟩, hmids, hobs, _, _, _⟩ :=
    c07C_after_all h h2 pre ev post hsplit
  have hws : ev.when S fuel sp ≤ ev.stamp sp := stimWhen_le_stamp _ _ _
  obtain ⟨new, hnew, hcase⟩ := hrun.c07_serve hroot hL hn (ev.top S fuel) e he
  refine ⟨new, by rw [hnew, hobs], ?_⟩
  rw [hlen] at hcase
  rcases hcase with ⟨j, x, hj, hx, hs, hdev, hbet, hlog⟩ | ⟨⟨e', h1, h2'⟩, hall⟩
  · left
    have hfirst := c07C_first_tick S orc fuel t0 now0 sp cost steps nTicks stims0 stims m m2 tr
      ticks h h2 hn hd ev hev
    have hchain : ∀ i y b, ev.k ≤ i → i < j → ticks[i]? = some y → ticks[i + 1]? = some b →
        y.real + cost i ≤ b.real ∧
        b.real ≤ y.real + cost i + sleepFor sp (ev.when S fuel sp - y.time) := by
      intro i y b hi hij hy hb
      obtain ⟨c1, c2⟩ := (hbet i y hi hij hy).2.2 b hb
      have := sleepFor_mono sp hn (e - y.time) (ev.when S fuel sp - y.time)
        (by simp only [SimTime] at *; omega)
      exact ⟨c1, by omega⟩
    have hk0 : ∃ x0, ticks[ev.k]? = some x0 := by
      have hlt : j < ticks.length := (List.getElem?_eq_some_iff.1 hx).1
      exact ⟨ticks[ev.k], List.getElem?_eq_getElem (by omega)⟩
    obtain ⟨x0, hx0⟩ := hk0
    have htel := delay_telescope sp cost (ev.when S fuel sp) ticks ev.k j hchain (j - ev.k) x0 x
      (by omega) hx0 (by rw [show ev.k + (j - ev.k) = j by omega]; exact hx)
    have hlaw := (runC_stamp_law S orc fuel t0 now0 sp cost steps nTicks stims0 stims m m2 tr ticks
      h h2 hn hd).2 ev hev
    have hstnow : ev.st.real ≤ ev.now := by
      show ev.st.real ≤ (if ev.st.real < ev.m.now then ev.m.now else ev.st.real)
      split <;> omega
    refine ⟨j, x, ⟨⟨hj, hx⟩, hs.mono hew, Int.le_trans (hs.mono hew).1 hws, fun i y hi hij hy => ?_⟩,
      hdev, ⟨fun hm x0' hx0' => ((hfirst x0' hx0').2.1 hm), fun hm z x0' hz hx0' =>
        ((hfirst x0' hx0').2.2 hm z hz), hchain, fun hm => ?_, fun hm z hz => ?_, hstnow, ?_⟩,
      fun ev' hev' htop hk' => ?_⟩
    · obtain ⟨b1, b2, _⟩ := hbet i y hi hij hy
      have : y.time < ev.when S fuel sp := Int.lt_of_lt_of_le b1 hew
      exact ⟨this, Int.lt_of_lt_of_le this hws, b2⟩
    · have := (hfirst x0 hx0).2.1 hm
      rw [← this]
      exact htel
    · obtain ⟨f1, f2, _⟩ := (hfirst x0 hx0).2.2 hm z hz
      exact ⟨by omega, by omega⟩
    · cases hm : ev.mid with
      | false =>
        have := (hfirst x0 hx0).2.1 hm
        omega
      | true =>
        obtain ⟨_, z, hz, _, _, hin⟩ := hlaw.last_tick
        obtain ⟨f1, _, _⟩ := (hfirst x0 hx0).2.2 hm z hz
        have := (hin hm).2.2
        omega
    · -- a later stimulus of the same component, handled before tick `j`
      have hws' : ev'.when S fuel sp ≤ ev'.stamp sp := stimWhen_le_stamp _ _ _
      rw [hpost] at hev'
      have key : ev.k ≤ ev'.k ∧ ServesC L (ev.top S fuel) (ev'.when S fuel sp) x ∧
          ∀ i y, ev'.k ≤ i → i < j → ticks[i]? = some y → y.time < ev'.when S fuel sp := by
        rcases List.mem_append.1 hev' with hm' | hm'
        · obtain ⟨hk, e'', he'', hew''⟩ := hmids ev' hm'
          rw [htop, he] at he''
          cases he''
          exact ⟨by omega, hs.mono hew'', fun i y hi hij hy =>
            Int.lt_of_lt_of_le (hbet i y (by omega) hij hy).1 hew''⟩
        · have hk := hrun.log_k_ge ev' hm'
          obtain ⟨l1, l2⟩ := hlog ev' hm' htop hk'
          exact ⟨by omega, l1, l2⟩
      obtain ⟨hk, hs', hb'⟩ := key
      refine ⟨⟨hk', hx⟩, by rw [htop]; exact hs', Int.le_trans hs'.1 hws', fun i y hi hij hy => ?_⟩
      have := hb' i y hi hij hy
      exact ⟨this, Int.lt_of_lt_of_le this hws', by
        rw [htop]; exact (hbet i y (by omega) hij hy).2.1⟩
  · right
    exact ⟨⟨e', h1, Int.le_trans h2' hew⟩, fun i y hi hy =>
      ⟨Int.lt_of_lt_of_le (hall i y hi hy).1 hew, (hall i y hi hy).2⟩⟩

/-- **the run is long enough.**  If the run has written fewer than `nTicks` tick records after
the initial one (`ticks.length ≤ nTicks`) and has made fewer than `steps` iterations — one per
tick, one per stimulus handled between ticks (`betweenCount`) — it has stopped because the master
had no wakeup left. -/
theorem c07C_run_complete (S : Static) (orc : Oracle) (fuel : Nat) (sp : Speed) (cost : Nat → Nat)
    (steps nTicks : Nat) (stims : List Stim) (m m2 : MasterSt) (tr : TickRec) (ticks : List TickRec)
    (h2 : masterRunC S orc fuel sp cost steps nTicks m stims [tr] = .ok (m2, ticks))
    (hticks : ticks.length ≤ nTicks)
    (hsteps : ticks.length + betweenCount (runLogC S orc fuel sp cost steps nTicks m stims 1) ≤ steps) :
    (firstWakeups (m2.sim.sched "").wake).2 = none := by
  obtain ⟨_, _, h3⟩ := masterRunC_budget S orc fuel sp cost steps nTicks m stims [tr] m2 ticks h2
  simp only [List.length_singleton] at h3
  exact h3 (by omega) (by omega)

/-- **served, if the run is long enough.**  If the run stopped because the master had no wakeup
left (which is so when neither budget was used up, `c07C_run_complete`), EVERY handled stimulus has
been served: the first alternative of `c07C_served_or_pending` holds. -/
theorem c07C_served (S : Static) (orc : Oracle) (fuel : Nat) (t0 : SimTime) (now0 : Int)
    (sp : Speed) (cost : Nat → Nat) (steps nTicks : Nat) (stims0 stims : List Stim)
    (m m2 : MasterSt) (tr : TickRec) (ticks : List TickRec) (L : Level)
    (h : masterInitialC S orc fuel sp cost t0 now0 stims0 = .ok (m, tr, stims))
    (h2 : masterRunC S orc fuel sp cost steps nTicks m stims [tr] = .ok (m2, ticks))
    (hroot : S.isSys "" = false) (hL : S.level "" = some L) (hn : 0 < sp.num) (hd : 0 < sp.den)
    (hend : (firstWakeups (m2.sim.sched "").wake).2 = none) :
    ∀ pre ev post, initLogC S orc fuel sp cost t0 now0 stims0 ++
        runLogC S orc fuel sp cost steps nTicks m stims 1 = pre ++ ev :: post →
      ∃ new, m2.sim.obs = ev.m.sim.obs ++ new ∧
        ∃ j x, ev.ServedAt S fuel sp L ticks j x ∧
          (S.isSys (ev.top S fuel) = false →
            ∃ o ∈ new, o.comp = ev.top S fuel ∧ o.time = x.time) ∧
          ev.PromptAt S fuel sp cost ticks j x ∧
          (∀ ev' ∈ post, ev'.top S fuel = ev.top S fuel → ev'.k ≤ j →
            ev'.ServedAt S fuel sp L ticks j x) := by
  intro pre ev post hsplit
  obtain ⟨new, hnew, hcase⟩ := c07C_served_or_pending S orc fuel t0 now0 sp cost steps nTicks stims0
    stims m m2 tr ticks L h h2 hroot hL hn hd pre ev post hsplit
  refine ⟨new, hnew, ?_⟩
  rcases hcase with hs | ⟨hp, _⟩
  · exact hs
  · exact absurd hend hp.firstWakeups_ne_none

/-- **served as a root.**  If the interrupting top-level component is wired downstream of no
OTHER top-level component (`hsrc`: a decidable condition on the master wiring; it holds in
particular for every component without wired inputs), the tick that serves a stimulus has the
component among its ROOTS, and it is for a simulation time `≤ ev.when ≤ ev.stamp`. -/
theorem c07C_served_root (S : Static) (fuel : Nat) (sp : Speed) (L : Level) (ticks : List TickRec)
    (ev : StimEvC) (j : Nat) (x : TickRec) (hs : ev.ServedAt S fuel sp L ticks j x)
    (hsrc : ∀ r ∈ L.wiring.components, ev.top S fuel ∈ L.wiring.dependants r → r = ev.top S fuel) :
    ev.top S fuel ∈ x.roots ∧ x.time ≤ ev.when S fuel sp ∧ ev.when S fuel sp ≤ ev.stamp sp :=
  ⟨hs.serves.root hsrc, hs.serves.1, stimWhen_le_stamp _ _ _⟩

/-- **served, once the run has reached the time of the interrupt.**  For simulations that never
run out of wakeups (a device that asks to be called back periodically): if some tick record after
the stimulus is for a simulation time `≥ ev.when` — the run has been carried on up to the time of
the interrupt — the stimulus has been served: the first alternative of `c07C_served_or_pending`
holds (in the second one every later tick is for a time `< ev.when`). -/
theorem c07C_served_of_reached (S : Static) (orc : Oracle) (fuel : Nat) (t0 : SimTime) (now0 : Int)
    (sp : Speed) (cost : Nat → Nat) (steps nTicks : Nat) (stims0 stims : List Stim)
    (m m2 : MasterSt) (tr : TickRec) (ticks : List TickRec) (L : Level)
    (h : masterInitialC S orc fuel sp cost t0 now0 stims0 = .ok (m, tr, stims))
    (h2 : masterRunC S orc fuel sp cost steps nTicks m stims [tr] = .ok (m2, ticks))
    (hroot : S.isSys "" = false) (hL : S.level "" = some L) (hn : 0 < sp.num) (hd : 0 < sp.den) :
    ∀ pre ev post, initLogC S orc fuel sp cost t0 now0 stims0 ++
        runLogC S orc fuel sp cost steps nTicks m stims 1 = pre ++ ev :: post →
      (∃ i y, ev.k ≤ i ∧ ticks[i]? = some y ∧ ev.when S fuel sp ≤ y.time) →
      ∃ new, m2.sim.obs = ev.m.sim.obs ++ new ∧
        ∃ j x, ev.ServedAt S fuel sp L ticks j x ∧
          (S.isSys (ev.top S fuel) = false →
            ∃ o ∈ new, o.comp = ev.top S fuel ∧ o.time = x.time) ∧
          ev.PromptAt S fuel sp cost ticks j x ∧
          (∀ ev' ∈ post, ev'.top S fuel = ev.top S fuel → ev'.k ≤ j →
            ev'.ServedAt S fuel sp L ticks j x) := by
  intro pre ev post hsplit ⟨i, y, hi, hy, hle⟩
  obtain ⟨new, hnew, hcase⟩ := c07C_served_or_pending S orc fuel t0 now0 sp cost steps nTicks stims0
    stims m m2 tr ticks L h h2 hroot hL hn hd pre ev post hsplit
  refine ⟨new, hnew, ?_⟩
  rcases hcase with hs | ⟨_, hall⟩
  · exact hs
  · have := (hall i y hi hy).1
    simp only [SimTime] at *
    omega

/-- **K, coalescing.**  Two handled stimuli `ev` (earlier) and `ev'` (later in the log) of the
same top-level component: if `ev'` is handled before `ev` is served (`ev'.k ≤ j` for the serving
tick `ticks[j]` of `ev`), ONE tick record serves both — unless the run was stopped before `ev` was
served, and then the wakeup is still pending. -/
theorem c07C_coalesce (S : Static) (orc : Oracle) (fuel : Nat) (t0 : SimTime) (now0 : Int)
    (sp : Speed) (cost : Nat → Nat) (steps nTicks : Nat) (stims0 stims : List Stim)
    (m m2 : MasterSt) (tr : TickRec) (ticks : List TickRec) (L : Level)
    (h : masterInitialC S orc fuel sp cost t0 now0 stims0 = .ok (m, tr, stims))
    (h2 : masterRunC S orc fuel sp cost steps nTicks m stims [tr] = .ok (m2, ticks))
    (hroot : S.isSys "" = false) (hL : S.level "" = some L) (hn : 0 < sp.num) (hd : 0 < sp.den) :
    ∀ pre ev post, initLogC S orc fuel sp cost t0 now0 stims0 ++
        runLogC S orc fuel sp cost steps nTicks m stims 1 = pre ++ ev :: post →
      (∃ j x, ev.ServedAt S fuel sp L ticks j x ∧
        ∀ ev' ∈ post, ev'.top S fuel = ev.top S fuel → ev'.k ≤ j →
          ev'.ServedAt S fuel sp L ticks j x) ∨
      PendC m2 (ev.top S fuel) (ev.when S fuel sp) := by
  intro pre ev post hsplit
  obtain ⟨_, _, hcase⟩ := c07C_served_or_pending S orc fuel t0 now0 sp cost steps nTicks stims0
    stims m m2 tr ticks L h h2 hroot hL hn hd pre ev post hsplit
  rcases hcase with ⟨j, x, h1, _, _, h4⟩ | ⟨hp, _⟩
  · exact Or.inl ⟨j, x, h1, h4⟩
  · exact Or.inr hp

/-! ## non-vacuity and tightness (evaluated at build time)

`S`: a flat master level with three devices: `a` (no inputs), `b` whose input `i` is wired to the
output `o` of `a`, and `e` (no inputs).  `SN`: a master level with a device `d` and a system
component `sys` that contains the devices `a` and `b`.  Non-zero costs, speeds `≠ 1`. -/

namespace C07CostEx

open C12RunEx C12CostEx

def W : Wiring := Wiring.fromInverse [("a", []), ("b", [("i", ("a", "o"))]), ("e", [])]
def L : Level := ⟨"", W⟩
def S : Static := { levels := [L], systems := [], parent := [("a", ""), ("b", ""), ("e", "")] }

def WN : Wiring := Wiring.fromInverse [("d", []), ("sys", [])]
def LN : Level := ⟨"", WN⟩
def SN : Static :=
  { levels := [LN, ⟨"sys", Wiring.fromInverse [("external", []), ("a", []), ("b", []), ("expose", [])]⟩]
    systems := ["sys"]
    parent := [("d", ""), ("sys", ""), ("a", "sys"), ("b", "sys")] }

/-- the tick records `(time, real, roots)` of a run from `t0 = 0`, `now0 = 0` -/
def run (S : Static) (orc : Oracle) (sp : Speed) (cost : Nat → Nat) (stims : List Stim)
    (steps k : Nat) : Option (List (Int × Int × List Comp)) :=
  match masterInitialC S orc 10 sp cost 0 0 stims with
  | .ok (m, tr, rest) =>
    match masterRunC S orc 10 sp cost steps k m rest [tr] with
    | .ok (_, ticks) => some (ticks.map (fun x => (x.time, x.real, x.roots)))
    | .error _ => none
  | .error _ => none

/-- Boolean version of `ServesC` -/
def servesB (L : Level) (top : Comp) (e : SimTime) (x : TickRec) : Bool :=
  decide (x.time ≤ e) && (decide (top ∈ x.roots) ||
    (decide (x.time < e) && x.roots.any (fun r =>
      decide (r ∈ L.wiring.components) && decide (top ∈ L.wiring.dependants r))))

/-- first index `≥ k` (among the next `n` records) whose tick record serves `(top, e)` -/
def findServe (L : Level) (ticks : List TickRec) (top : Comp) (e : SimTime) : Nat → Nat → Option Nat
  | _, 0 => none
  | k, n + 1 => match ticks[k]? with
    | some x => if servesB L top e x then some k else findServe L ticks top e (k + 1) n
    | none => none

/-- for every handled stimulus `(st.real, comp, mid, k, now, stamp, top, when)`, and for the first
tick record that serves it: `(j, time, real, top is a root, top has an observation at that time
made after the stimulus, the upper bound of PromptAt.total_between / total_mid)`; `none` if the
run ends before it is served -/
def report (S : Static) (L : Level) (orc : Oracle) (sp : Speed) (cost : Nat → Nat)
    (stims : List Stim) (steps k : Nat) :
    Option (List ((Int × Comp × Bool × Nat × Int × SimTime × Comp × SimTime) ×
      Option (Nat × Int × Int × Bool × Bool × Int))) :=
  match masterInitialC S orc 10 sp cost 0 0 stims with
  | .ok (m, tr, rest) =>
    match masterRunC S orc 10 sp cost steps k m rest [tr] with
    | .ok (m2, ticks) =>
      some ((initLogC S orc 10 sp cost 0 0 stims ++ runLogC S orc 10 sp cost steps k m rest 1).map
        (fun ev =>
          let top := ev.top S 10
          let wh := ev.when S 10 sp
          ((ev.st.real, ev.st.comp, ev.mid, ev.k, ev.now, ev.stamp sp, top, wh),
            match findServe L ticks top wh ev.k ticks.length with
            | some j => match ticks[j]?, ticks[ev.k - 1]? with
              | some x, some z =>
                let first : Int :=
                  if ev.mid then z.real + cost (ev.k - 1) + sleepFor sp (wh - z.time) else ev.now
                some (j, x.time, x.real, decide (top ∈ x.roots),
                  (m2.sim.obs.drop ev.m.sim.obs.length).any (fun o => o.comp == top && o.time == x.time),
                  first + delayBetween sp cost wh ticks ev.k (j - ev.k))
              | _, _ => none
            | none => none)))
    | .error _ => none
  | .error _ => none

def outs (v : Int) (c : Option Int) : DevResp := ⟨[("o", v)], c, false⟩

/-- the budget used by a run: number of tick records, number of stimuli handled between ticks,
and the time of the first wakeup left in the final state -/
def budget (S : Static) (orc : Oracle) (sp : Speed) (cost : Nat → Nat) (stims : List Stim)
    (steps k : Nat) : Option (Nat × Nat × Option SimTime) :=
  match masterInitialC S orc 10 sp cost 0 0 stims with
  | .ok (m, tr, rest) =>
    match masterRunC S orc 10 sp cost steps k m rest [tr] with
    | .ok (m2, ticks) =>
      some (ticks.length, betweenCount (runLogC S orc 10 sp cost steps k m rest 1),
        (firstWakeups (m2.sim.sched "").wake).2)
    | .error _ => none
  | .error _ => none

-- the hypotheses on the configuration, for `S` and for `SN`
example : S.isSys "" = false ∧ S.level "" = some L ∧ SN.isSys "" = false ∧ SN.level "" = some LN :=
  ⟨by decide, rfl, by decide, rfl⟩
-- `hsrc` of `c07C_served_root`: `a` and `e` are downstream of no other component; `b` is (of `a`)
example : ∀ r ∈ L.wiring.components, "e" ∈ L.wiring.dependants r → r = "e" := by decide
example : ∀ r ∈ L.wiring.components, "a" ∈ L.wiring.dependants r → r = "a" := by decide
example : ¬ ∀ r ∈ L.wiring.components, "b" ∈ L.wiring.dependants r → r = "b" := by decide
example : ∀ r ∈ LN.wiring.components, "sys" ∈ LN.wiring.dependants r → r = "sys" := by decide
-- the theorem for every run of `S` at speed 3/2
example (orc : Oracle) (fuel : Nat) (t0 : SimTime) (now0 : Int) (cost : Nat → Nat)
    (steps nTicks : Nat) (stims0 stims : List Stim) (m m2 : MasterSt) (tr : TickRec)
    (ticks : List TickRec)
    (h : masterInitialC S orc fuel ⟨3, 2⟩ cost t0 now0 stims0 = .ok (m, tr, stims))
    (h2 : masterRunC S orc fuel ⟨3, 2⟩ cost steps nTicks m stims [tr] = .ok (m2, ticks)) :=
  c07C_served_or_pending S orc fuel t0 now0 ⟨3, 2⟩ cost steps nTicks stims0 stims m m2 tr ticks L
    h h2 (by decide) rfl (by decide) (by decide)

-- (1) speed 3/2, costs 4, 3, 2, 6, then 1; `a` waits for 10, 20, …
-- * real 2, `e`: in the MIDDLE of the initial tick [0, 4): stamp `⌊2 · 3/2⌋ = 3`; the next tick is
--   the tick for 3, started at `0 + 4 + sleepFor 3 = 4 + ⌈3 · 2/3⌉ = 6`: the bound of `first_mid` /
--   `total_mid` is attained, and so is `c07C_mid_gap`: `sleepFor 3 = 2 = ev.now - z.real`.
-- * real 9, `e`: BETWEEN ticks (tick 1 is [6, 9)): stamp 3, served at once, at real time 9.
-- * real 10, `b`: in the middle of tick 2 = [9, 11): stamp `3 + ⌊1 · 3/2⌋ = 4`, served at
--   `9 + 2 + sleepFor (4 - 3) = 11 + ⌈2/3⌉ = 12`.
-- * real 30, `e`: between ticks; stamp 20: served at once by the tick for `a`'s callback at 20
--   (`e` raised its interrupt simultaneously with a due callback: one tick, both are roots).
#guard run S [("a", per 10 30), ("b", quiet 30), ("e", quiet 30)] ⟨3, 2⟩ (costOf [4, 3, 2, 6] 1)
    [⟨2, "e"⟩, ⟨9, "e"⟩, ⟨10, "b"⟩, ⟨30, "e"⟩] 200 6 ==
  some [(0, 0, ["b", "a", "e"]), (3, 6, ["e"]), (3, 9, ["e"]), (4, 12, ["b"]), (10, 22, ["a"]),
    (20, 30, ["a", "e"]), (30, 38, ["a"])]
#guard report S L [("a", per 10 30), ("b", quiet 30), ("e", quiet 30)] ⟨3, 2⟩ (costOf [4, 3, 2, 6] 1)
    [⟨2, "e"⟩, ⟨9, "e"⟩, ⟨10, "b"⟩, ⟨30, "e"⟩] 200 6 ==
  some [((2, "e", true, 1, 2, 3, "e", 3), some (1, 3, 6, true, true, 6)),
    ((9, "e", false, 2, 9, 3, "e", 3), some (2, 3, 9, true, true, 9)),
    ((10, "b", true, 3, 10, 4, "b", 4), some (3, 4, 12, true, true, 12)),
    ((30, "e", false, 5, 30, 20, "e", 20), some (5, 20, 30, true, true, 30))]
example : sleepFor ⟨3, 2⟩ 3 = 2 ∧ sleepFor ⟨3, 2⟩ (4 - 3) = 1 ∧ sleepFor ⟨3, 2⟩ 0 = 0 := by decide

-- (2) COALESCING, same system: `e` is interrupted at real 2 (mid-tick, stamp 3) and again at
-- real 5, between ticks, before it is served: stamp `⌊(5 - 4) · 3/2⌋ = 1`, which LOWERS the wakeup
-- to 1.  ONE tick record, number 1 = (1, 5, [e]), serves both (`c07C_coalesce`); for the first
-- stimulus it comes before the bound 6 of `total_mid`, for the second it starts at `ev.now = 5`.
#guard report S L [("a", per 10 30), ("b", quiet 30), ("e", quiet 30)] ⟨3, 2⟩ (costOf [4, 3, 2, 6] 1)
    [⟨2, "e"⟩, ⟨5, "e"⟩] 200 3 ==
  some [((2, "e", true, 1, 2, 3, "e", 3), some (1, 1, 5, true, true, 6)),
    ((5, "e", false, 1, 5, 1, "e", 1), some (1, 1, 5, true, true, 5))]

-- (3) AN EARLIER WAKEUP IS SERVED FIRST, speed 3: `a` asks for time 1; the initial tick is [0, 4),
-- so the tick for 1 is due at `4 + ⌈1/3⌉ = 5`.  At real 5 `e` is interrupted: stamp
-- `⌊(5 - 4) · 3⌋ = 3`.  The tick for 1 goes first, AT `ev.now = 5` (`first_between`), takes 3 ns;
-- the tick for 3 follows at `5 + 3 + sleepFor (3 - 1) = 8 + ⌈2/3⌉ = 9`: the bounds of `chain`
-- and `total_between` are attained.
#guard run S [("a", [⟨[], some 1, false⟩, ⟨[], none, false⟩]), ("b", quiet 30), ("e", quiet 30)] ⟨3, 1⟩
    (costOf [4, 3, 2] 1) [⟨5, "e"⟩] 200 8 ==
  some [(0, 0, ["b", "a", "e"]), (1, 5, ["a"]), (3, 9, ["e"])]
#guard report S L [("a", [⟨[], some 1, false⟩, ⟨[], none, false⟩]), ("b", quiet 30), ("e", quiet 30)] ⟨3, 1⟩
    (costOf [4, 3, 2] 1) [⟨5, "e"⟩] 200 8 ==
  some [((5, "e", false, 1, 5, 3, "e", 3), some (2, 3, 9, true, true, 9))]
example : delayBetween ⟨3, 1⟩ (costOf [4, 3, 2] 1) 3 [⟨0, 0, []⟩, ⟨1, 5, ["a"]⟩, ⟨3, 9, ["e"]⟩] 1 1 = 4 := by
  decide
-- this run is complete (`c07C_run_complete`): 3 tick records `≤ nTicks = 8`, `3 + 1 ≤ steps = 200`
-- iterations, and no wakeup is left; with `nTicks = 1` it is cut: the wakeup 3 of `e` is left
#guard budget S [("a", [⟨[], some 1, false⟩, ⟨[], none, false⟩]), ("b", quiet 30), ("e", quiet 30)] ⟨3, 1⟩
    (costOf [4, 3, 2] 1) [⟨5, "e"⟩] 200 8 == some (3, 1, none)
#guard budget S [("a", [⟨[], some 1, false⟩, ⟨[], none, false⟩]), ("b", quiet 30), ("e", quiet 30)] ⟨3, 1⟩
    (costOf [4, 3, 2] 1) [⟨5, "e"⟩] 200 1 == some (2, 1, some 3)

-- (4) two interrupts in the middle of the same tick [0, 4), speed 1: `a` at real 1 (stamp 1), `e`
-- at real 3 (stamp 3).  The tick for 1 starts at `4 + 1 = 5` and takes 3 ns; the tick for 3 at
-- `5 + 3 + sleepFor (3 - 1) = 10` (`chain` attained; `total_mid` gives 12: the first tick came
-- before its own bound `4 + sleepFor 3 = 7`).  `e` waits until `10 = ev.now + cost 0 + cost 1`:
-- the end of the tick in progress, the part of it that had elapsed, and the earlier tick.
#guard report S L [("a", quiet 30), ("b", quiet 30), ("e", quiet 30)] ⟨1, 1⟩ (costOf [4, 3, 2] 1)
    [⟨1, "a"⟩, ⟨3, "e"⟩] 200 8 ==
  some [((1, "a", true, 1, 1, 1, "a", 1), some (1, 1, 5, true, true, 5)),
    ((3, "e", true, 1, 3, 3, "e", 3), some (2, 3, 10, true, true, 12))]

-- (5) THE SECOND ALTERNATIVE OF `ServesC` (model only).  `a` asks for 5; `b` is interrupted at
-- real 8 in the initial tick [0, 10): stamp 8.  The tick for 5 (root `a`, started at 15) changes
-- the output of `a`, so `b` is updated in it, at time `5 < 8`, after the interrupt; `b` answers
-- with a callback request for 50, which in the model replaces its wakeup 8 (the code keeps 8:
-- `_pending_interrupts`).  The serving tick record is number 1; `b` is not one of its roots.
#guard run S [("a", [outs 0 (some 5), outs 1 none]),
    ("b", [⟨[], none, false⟩, ⟨[], some 50, false⟩, ⟨[], none, false⟩]), ("e", quiet 30)] ⟨1, 1⟩
    (costOf [10, 3, 2] 1) [⟨8, "b"⟩] 200 8 ==
  some [(0, 0, ["b", "a", "e"]), (5, 15, ["a"]), (50, 63, ["b"])]
#guard report S L [("a", [outs 0 (some 5), outs 1 none]),
    ("b", [⟨[], none, false⟩, ⟨[], some 50, false⟩, ⟨[], none, false⟩]), ("e", quiet 30)] ⟨1, 1⟩
    (costOf [10, 3, 2] 1) [⟨8, "b"⟩] 200 8 ==
  some [((8, "b", true, 1, 8, 8, "b", 8), some (1, 5, 15, false, true, 18))]

-- (6) NOT LOST: the same stimulus as in (1) with `nTicks = 0`: the run stops before the interrupt
-- is served (second alternative of `c07C_served_or_pending`); with `nTicks = 1` it is served.
#guard report S L [("a", per 10 30), ("b", quiet 30), ("e", quiet 30)] ⟨3, 2⟩ (costOf [4, 3, 2, 6] 1)
    [⟨2, "e"⟩] 200 0 == some [((2, "e", true, 1, 2, 3, "e", 3), none)]
#guard report S L [("a", per 10 30), ("b", quiet 30), ("e", quiet 30)] ⟨3, 2⟩ (costOf [4, 3, 2, 6] 1)
    [⟨2, "e"⟩] 200 1 == some [((2, "e", true, 1, 2, 3, "e", 3), some (1, 3, 6, true, true, 6))]

-- (7) INSIDE A NESTED SYSTEM, speed 2/3, costs 6, 2, 5, then 1: device `a` inside `sys` is
-- interrupted at real 3, in the middle of the initial tick [0, 6) (stamp `⌊3 · 2/3⌋ = 2`), and
-- device `b` inside `sys` at real 12, between ticks (stamp `2 + ⌊(12 - 11) · 2/3⌋ = 2`).  The master
-- sees `sys` interrupting (`ev.top`); the serving ticks have `sys` among their roots: the first at
-- `6 + sleepFor 2 = 6 + ⌈2 · 3/2⌉ = 9`, the second at once, at real 12.
#guard run SN [("d", quiet 30), ("a", quiet 30), ("b", quiet 30)] ⟨2, 3⟩ (costOf [6, 2, 5] 1)
    [⟨3, "a"⟩, ⟨12, "b"⟩] 200 8 ==
  some [(0, 0, ["d", "sys"]), (2, 9, ["sys"]), (2, 12, ["sys"])]
#guard report SN LN [("d", quiet 30), ("a", quiet 30), ("b", quiet 30)] ⟨2, 3⟩ (costOf [6, 2, 5] 1)
    [⟨3, "a"⟩, ⟨12, "b"⟩] 200 8 ==
  some [((3, "a", true, 1, 3, 2, "sys", 2), some (1, 2, 9, true, false, 9)),
    ((12, "b", false, 2, 12, 2, "sys", 2), some (2, 2, 12, true, false, 12))]

end C07CostEx

/-
Not covered here:
* the tick itself is atomic in the model (`tickLevel`): an interrupt raised in the middle of a tick
  is applied to the wakeups the tick leaves behind (`Core/SimCost.lean`), and the answer of a
  component is written with plain `add_wakeup`.  The guard `_pending_interrupts` of
  `MasterScheduler.add_wakeup` (a pending interrupt is not displaced by a later callback request of
  the same component) is therefore not modelled, which is why `ServesC` has its second alternative;
  at the bookkeeping level the guard is covered by `Props/C07.lean` / `C07Loop.lean`.
* what happens INSIDE the system component once the master has started the serving tick (the inner
  interrupt queue, the inner roots) is the subject of `Props/C07Nested.lean`, `C07TwoLevel.lean`.
* a closed form for the total delay without the sleeps `sleepFor (ev.when - ticks[i].time)` would
  need "no callback in the past" and a bound on how overdue the earlier wakeups are; the chain
  inequality holds without any such hypothesis.
-/

end Tickit
