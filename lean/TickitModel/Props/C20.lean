/-
C20 — the IoBox device behaves as a memory.
-/
import TickitModel.Lemmas.MiscLemmas

namespace Tickit

variable {A V : Type} [DecidableEq A]

/-- writes stay invisible to reads until the next update. -/
theorem read_write (b : IoBox A V) (a a' : A) (v : V) : (b.write a v).read a' = b.read a' := by
  rfl

/-- after an update each address holds the most recent write to it — input-port writes
first, then pending adapter writes, each in issue order — or its previous content. -/
theorem read_update (b : IoBox A V) (ins : List (A × V)) (a : A) :
    (b.update ins).1.read a = (lastWrite (ins ++ b.buf) a).orElse (fun _ => b.read a) := by
  simp only [IoBox.update, IoBox.read]
  exact alookup_applyWrites _ _ _

/-- the update's output lists the writes applied, in application order, and the buffer is
emptied (a second update applies nothing). -/
theorem update_output (b : IoBox A V) (ins : List (A × V)) :
    (b.update ins).2 = ins ++ b.buf ∧ (b.update ins).1.buf = [] := by
  exact ⟨rfl, rfl⟩

/-- reading a never-written address fails, whatever else happened. -/
theorem read_never_written (ops : List (IoOp A V)) (a : A)
    (hw : ∀ op ∈ ops, match op with
      | .write a' _ => a' ≠ a
      | .update ins => ∀ w ∈ ins, w.1 ≠ a) :
    (runBox ops ({} : IoBox A V)).read a = none := by
  exact runBox_read_none ops a _ rfl (by simp) hw

/-- a second IoBox fed from the first one's update outputs ends up with identical contents,
for every history. -/
theorem chained_equal (ops : List (IoOp A V)) :
    (runChained ops (({} : IoBox A V), ({} : IoBox A V))).1.mem =
    (runChained ops (({} : IoBox A V), ({} : IoBox A V))).2.mem := by
  exact runChained_inv ops _ _ rfl rfl

/-- and the first box of the chained run is just the box run on its own. -/
theorem chained_fst (ops : List (IoOp A V)) (b1 b2 : IoBox A V) :
    (runChained ops (b1, b2)).1 = runBox ops b1 := by
  exact runChained_fst ops b1 b2

/-! non-vacuity: two writes to one address between two updates — the later one wins -/
example : ((({} : IoBox Nat Nat).write 1 10).write 1 20 |>.update [(1, 5)]).1.read 1 = some 20 := by decide
example : ((({} : IoBox Nat Nat).write 1 10).write 1 20 |>.update [(1, 5)]).2 = [(1, 5), (1, 10), (1, 20)] := by decide

end Tickit
