/-
C08 / C13 at MESSAGE level — one scheduler level (a flat simulation) over the state-interface
contract, with messages in flight and participants that start late, refines the atomic model
`TickSys` of a tick (`Core/MsgFlat.lean`).

1. REFINEMENT.  `MsgSim` is the simulation relation (same ticker, same scheduler-side trace,
   pending dispatch of `c` = the message of `c` in flight: an unconsumed `Input`, an unconsumed
   `Skip`, or an unconsumed `Output` whose `Input` the component has already handled).  Every
   message-level step is a stutter or exactly one `TickSys.step` (`msg_step_refines`), every
   message-level execution maps to a `TickSys` run (`msg_tick_refines`), by the explicit
   abstraction function `MsgSt.abs` (`msg_abs_is_abstraction`).  Consequences, through the
   existing theorems about `TickSys`: no failed assertion (`msg_no_failure`), at most one
   reaction per component (`msg_react_at_most_once`), only after the in-tick upstreams
   (`msg_react_after_upstreams`), with exactly the inputs `tick_deterministic` prescribes, for
   every interleaving and every start pattern (`msg_observations_exact`,
   `msg_tick_deterministic`).
2. COMPLETION (C13).  Every reachable state has a continuation that completes the tick
   (`msg_tick_can_complete`); a tick cannot complete while a component that was sent an `Input`
   has not started — the `Input` waits in the log (`msg_not_complete_while_unstarted`); once
   started it receives that `Input` exactly once (`msg_input_exactly_once`).
-/
import TickitModel.Lemmas.MsgFlatLive
import TickitModel.Props.C02
import TickitModel.Props.C15
import TickitModel.Core.Flat

set_option autoImplicit false

namespace Tickit

variable {Val : Type}

/-! ## 1. refinement -/

/-- **Every message-level step is a stutter or one atomic step.**  If the message-level state
`m` is related to the reachable `TickSys` state `s`, then after any enabled action — a component
starting, a component consuming its `Input` and producing its `Output`, the scheduler consuming
an `Output` or a `Skip` — the new state is related to `s` itself (the first two: invisible to
the scheduler) or to `s.step i` for the index `i` of the pending dispatch that was answered
(the third).  For the Python code: delivering messages one at a time over any conforming bus,
in any interleaving, never makes the scheduler do anything but answer pending dispatches in
some order, which is what `TickSys` models. -/
theorem msg_step_refines (w : Wiring) (rx : MsgReact Val) (t : SimTime) (roots : List Comp)
    (m m' : MsgSt Val) (s : TickSys Val) (hs : MsgSim rx m s)
    (hr : s.Reachable w (rx.at t) t roots) (a : MsgAct)
    (h : m.step w rx t roots a = some (.ok m')) :
    MsgSim rx m' s ∨ ∃ i s', s.step w (rx.at t) i = some (.ok s') ∧ MsgSim rx m' s' :=
  hs.step hr h

/-- **Every message-level execution of a tick maps to an execution of `TickSys`.**  From an
idle bus (everything consumed; ANY set of components already started), after any sequence of
starts and deliveries: either the scheduler has not started yet — then nothing at all has been
produced or consumed — or the state is related by `MsgSim` to a state that `TickSys` reaches
from `TickSys.init` by a sequence of `TickSys.step`s. -/
theorem msg_tick_refines (w : Wiring) (rx : MsgReact Val) (t : SimTime) (roots : List Comp)
    (m0 m : MsgSt Val) (h0 : m0.Idle) (h : MsgSt.Reach w rx t roots m0 m) :
    (m.Idle ∧ (∀ T, m.log T = m0.log T) ∧ (∀ T, m.cur T = m0.cur T)) ∨
      ∃ s, s.Reachable w (rx.at t) t roots ∧ MsgSim rx m s :=
  h.sim h0

/-- **The explicit abstraction function.**  `MsgSt.abs m` — the scheduler's ticker, the
dispatches in flight computed from logs and cursors (`MsgSt.inflight`), the scheduler-side
history — IS the related `TickSys` state, up to the order in which the pending dispatches are
listed (which `TickSys` does not observe: `step` takes an index). -/
theorem msg_abs_is_abstraction (w : Wiring) (rx : MsgReact Val) (t : SimTime) (roots : List Comp)
    (m : MsgSt Val) (s : TickSys Val) (hs : MsgSim rx m s) (hr : s.Reachable w (rx.at t) t roots) :
    ∃ a, m.abs = some a ∧ a.tk = s.tk ∧ a.trace = s.trace ∧ a.pending.Perm s.pending ∧
      ∀ d, d ∈ s.pending ↔ m.inflight d.comp = some d := by
  refine ⟨⟨s.tk, (akeys s.tk.toUpdate).filterMap m.inflight, m.trace⟩, by simp [MsgSt.abs, hs.tk],
    rfl, hs.trace, ?_, hs.pending_iff⟩
  show ((akeys s.tk.toUpdate).filterMap m.inflight).Perm s.pending
  have hinv := hr.inv.pre
  have hcomp : ∀ c d, m.inflight c = some d → d.comp = c ∧ d ∈ s.pending := by
    intro c d hd
    obtain ⟨o, ho, hp⟩ := hs.slot c
    rw [ho.inflight_eq] at hd
    subst hd
    exact ⟨ho.comp_eq, ((hp d).2 rfl).1⟩
  refine (List.perm_ext_iff_of_nodup ?_ ?_).2 ?_
  rotate_left 2
  · intro d
    simp only [List.mem_filterMap]
    constructor
    · rintro ⟨c, _, hd⟩; exact (hcomp c d hd).2
    · intro hd
      refine ⟨d.comp, ?_, (hs.pending_iff d).1 hd⟩
      exact mem_akeys_of_alookup_eq_some ((hinv.pend_flag d.comp).1 ⟨d, hd, rfl⟩)
  · refine List.Pairwise.filterMap _ ?_ hinv.nodup
    intro c c' hne d hd d' hd' heq
    subst heq
    exact hne ((hcomp c d hd).1.symm.trans (hcomp c' d hd').1)
  · exact List.Pairwise.of_map Dispatch.comp (fun a b hab he => hab (he ▸ rfl)) hinv.pend_nodup

/-- **Whatever holds of every `TickSys` trace holds of every message-level scheduler trace.**
The transfer principle behind the corollaries: C01–C04 are stated over `s.trace` for reachable
`s`; the scheduler-side history of any message-level execution is such a trace. -/
theorem msg_trace_transfer (w : Wiring) (rx : MsgReact Val) (t : SimTime) (roots : List Comp)
    (P : List (Ev Val) → Prop)
    (hP : ∀ s : TickSys Val, s.Reachable w (rx.at t) t roots → P s.trace)
    (hnil : P []) (m0 m : MsgSt Val) (h0 : m0.Idle) (h : MsgSt.Reach w rx t roots m0 m) :
    P m.trace := by
  rcases h.sim h0 with ⟨hI, _, _⟩ | ⟨s, hr, hs⟩
  · simpa [MsgSt.trace, hI.2.1] using hnil
  · rw [hs.trace]; exact hP s hr

/-- **No failure.**  With roots that are components of the wiring, no message-level execution
ever makes the scheduler fail (no `KeyError`, neither `assert` of `Ticker.propagate`): an
`Output`/`Skip` that arrives is always from a component still in `to_update`, with the tick's
time. -/
theorem msg_no_failure (w : Wiring) (rx : MsgReact Val) (t : SimTime) (roots : List Comp)
    (hroots : ∀ c ∈ extent w roots, (w.ups c).isSome)
    (m0 m : MsgSt Val) (h0 : m0.Idle) (h : MsgSt.Reach w rx t roots m0 m) (a : MsgAct)
    (e : TickErr) : m.step w rx t roots a ≠ some (.error e) := by
  intro herr
  cases a with
  | startSched =>
    obtain ⟨s, hs⟩ := TickSys.init_ok_of (Val := Val) t hroots
    simp only [TickSys.init] at hs
    cases hcall : (Ticker.call w t roots : Except TickErr (Ticker Val × List (Dispatch Val))) with
    | error e' => simp [hcall, Except.map] at hs
    | ok r =>
      simp only [MsgSt.step, hcall, Except.map] at herr
      split at herr <;> cases herr
  | startComp c =>
    simp only [MsgSt.step] at herr
    split at herr <;> cases herr
  | deliverIn c =>
    simp only [MsgSt.step] at herr
    split at herr
    · split at herr <;> cases herr
    · cases herr
  | deliverOut c =>
    rcases h.sim h0 with ⟨hI, _, _⟩ | ⟨s, hr, hs⟩
    · simp [MsgSt.step, hI.1] at herr
    · cases hμ : m.next (.outT c) with
      | none => simp [MsgSt.step, hs.tk, hμ] at herr
      | some μ =>
        obtain ⟨m', hok⟩ := hs.deliverOut_ok hroots hr hμ
        rw [hok] at herr
        cases herr

/-! ### corollaries: C01 / C02 / C08 for the components' reactions -/

/-- **At most one reaction per component and tick**, in every message-level execution: what
`c` has handled is a prefix of the `Input`s sent to it, and at most one was sent (C01). -/
theorem msg_react_at_most_once (w : Wiring) (rx : MsgReact Val) (t : SimTime) (roots : List Comp)
    (m0 m : MsgSt Val) (h0 : m0.Idle) (h : MsgSt.Reach w rx t roots m0 m) (c : Comp) :
    (reactsOf c m.hist).length ≤ 1 := by
  have hpre := (h.inv h0).reacts_prefix c
  have hlen := hpre.length_le
  have hcount : (m.trace.filter (Ev.isDispatchOf c)).length ≤ 1 := by
    refine msg_trace_transfer w rx t roots (fun tr => (tr.filter (Ev.isDispatchOf c)).length ≤ 1)
      (fun s hs => (hs.inv.pre.count c).1) (by simp) m0 m h0 h
  rw [inputsTo_eq_dispatchOf hcount] at hlen
  simp only [reactMsgs, List.length_map] at hlen
  refine Nat.le_trans hlen ?_
  split <;> simp

/-- **A component reacts only after its in-tick upstreams.**  When `c` handles its `Input`,
the scheduler has already consumed the answer of every first-order upstream of `c` that takes
part in the tick (so that upstream has reacted, or was skipped), and the `Input` that `c`
handles is the one the scheduler dispatched. -/
theorem msg_react_after_upstreams (w : Wiring) (rx : MsgReact Val) (t : SimTime)
    (roots : List Comp) (m0 m : MsgSt Val) (h0 : m0.Idle)
    (h : MsgSt.Reach w rx t roots m0 m)
    (pre post : List (MsgEv Val)) (c : Comp) (t' : SimTime) (ins : List (Port × Val))
    (hh : m.hist = pre ++ MsgEv.react c t' ins :: post) :
    MsgEv.dispatch (.input c t' ins) ∈ pre ∧ t' = t ∧
    ∀ us, w.ups c = some us → ∀ u ∈ us, u ∈ extent w roots → ∃ ch, MsgEv.answer u ch ∈ pre := by
  have hd := (h.inv h0).reactAfter pre c t' ins post hh
  rcases h.sim h0 with ⟨hI, _, _⟩ | ⟨s, hr, hs⟩
  · rw [hI.2.1] at hh; simp at hh
  · obtain ⟨p1, p2, rfl⟩ := List.append_of_mem hd
    have htr : s.trace = p1.filterMap MsgEv.toEv ++ Ev.dispatch (.input c t' ins) ::
        (p2 ++ MsgEv.react c t' ins :: post).filterMap MsgEv.toEv := by
      rw [← hs.trace, MsgSt.trace, hh]
      simp [List.filterMap_append, MsgEv.toEv]
    refine ⟨hd, ?_, fun us hus u hu hext => ?_⟩
    · have := (hr.inv.pre.disp_ext (.input c t' ins) (by rw [htr]; simp)).2
      exact this
    · obtain ⟨ch, hch⟩ := hr.inv.pre.order _ _ _ htr us hus u hu hext
      refine ⟨ch, ?_⟩
      simp only [List.mem_filterMap] at hch
      obtain ⟨e, he, heq⟩ := hch
      cases e with
      | answer a ch' =>
        simp only [MsgEv.toEv, Option.some.injEq, Ev.answer.injEq] at heq
        obtain ⟨rfl, rfl⟩ := heq
        exact List.mem_append_left _ he
      | dispatch d => simp [MsgEv.toEv] at heq
      | react a b c => simp [MsgEv.toEv] at heq

/-- what a component observes in a tick, given the dispatch it received -/
def obsOfDispatch : Option (Dispatch Val) → List (SimTime × List (Port × Val))
  | some (.input _ t ins) => [(t, ins)]
  | _ => []

/-- in a complete message-level tick nothing is in flight: every log is consumed. -/
theorem msg_complete_all_consumed (w : Wiring) (rx : MsgReact Val) (t : SimTime)
    (roots : List Comp) (m : MsgSt Val) (s : TickSys Val) (hs : MsgSim rx m s)
    (hr : s.Reachable w (rx.at t) t roots) (hc : s.tk.toUpdate = []) (c : Comp) :
    m.cur (.inT c) = (m.log (.inT c)).length ∧ m.cur (.outT c) = (m.log (.outT c)).length := by
  have hp : s.pending = [] := by
    cases hpd : s.pending with
    | nil => rfl
    | cons d ds =>
      have := (hr.inv.pre.pend_flag d.comp).1 ⟨d, by simp [hpd], rfl⟩
      simp [hc] at this
  obtain ⟨o, ho, hpo⟩ := hs.slot c
  cases o with
  | some d => have := ((hpo d).2 rfl).1; simp [hp] at this
  | none => cases ho with | idle a b => exact ⟨a, b⟩

theorem MsgSt.Complete.sim {w : Wiring} {rx : MsgReact Val} {t : SimTime} {roots : List Comp}
    {m0 m : MsgSt Val} (h0 : m0.Idle) (h : MsgSt.Reach w rx t roots m0 m) (hc : m.Complete) :
    ∃ s, s.Reachable w (rx.at t) t roots ∧ MsgSim rx m s ∧ s.tk.toUpdate = [] := by
  obtain ⟨tk, htk, hnil⟩ := hc
  rcases h.sim h0 with ⟨hI, _, _⟩ | ⟨s, hr, hs⟩
  · rw [hI.1] at htk; cases htk
  · refine ⟨s, hr, hs, ?_⟩
    have := hs.tk
    rw [htk] at this
    cases this
    exact hnil

/-- **In a complete tick every component has observed exactly what its dispatch prescribes**:
a component that was sent `Input(t, ins)` has handled `(t, ins)` exactly once, a skipped or
untouched component has handled nothing — whatever the interleaving and the start order. -/
theorem msg_observations_exact (w : Wiring) (rx : MsgReact Val) (t : SimTime) (roots : List Comp)
    (m0 m : MsgSt Val) (h0 : m0.Idle) (h : MsgSt.Reach w rx t roots m0 m) (hc : m.Complete)
    (c : Comp) : reactsOf c m.hist = obsOfDispatch (dispatchOf m.trace c) := by
  obtain ⟨s, hr, hs, hnil⟩ := hc.sim h0 h
  have hall := (h.inv h0).reacts_all c (msg_complete_all_consumed w rx t roots m s hs hr hnil c).1
  have hcount : (m.trace.filter (Ev.isDispatchOf c)).length ≤ 1 := by
    rw [hs.trace]; exact (hr.inv.pre.count c).1
  rw [inputsTo_eq_dispatchOf hcount] at hall
  cases hd : dispatchOf m.trace c with
  | none =>
    rw [hd] at hall
    simpa [reactMsgs, obsOfDispatch] using hall
  | some d =>
    rw [hd] at hall
    cases d with
    | skip c' t' => simpa [reactMsgs, obsOfDispatch] using hall
    | input c' t' ins =>
      have hc' : c' = c := (dispatchOf_eq_some hd).2
      subst hc'
      simp only [obsOfDispatch]
      exact reactMsgs_injective (c := c') (l2 := [(t', ins)]) (by simpa [reactMsgs] using hall)

/-- **C08 at message level: the observations of a tick do not depend on message timing or on
the start order.**  Two complete message-level executions of the same tick — any two
interleavings of deliveries, any two sets of components started before the scheduler, any
two start delays of the others — give every component the same dispatch and hence the same
observation `(time, inputs)` (inputs compared as mappings). -/
theorem msg_tick_deterministic (w : Wiring) (hw : RouterOK w) (hacyc : w.Acyclic)
    (rx : MsgReact Val) (t : SimTime) (hrw : ReactWF (rx.at t)) (hext : ReactExt (rx.at t))
    (roots : List Comp) (m01 m02 m1 m2 : MsgSt Val)
    (h01 : m01.Idle) (h02 : m02.Idle)
    (h1 : MsgSt.Reach w rx t roots m01 m1) (h2 : MsgSt.Reach w rx t roots m02 m2)
    (hc1 : m1.Complete) (hc2 : m2.Complete) (c : Comp) :
    ObsEq (reactsOf c m1.hist) (reactsOf c m2.hist) := by
  obtain ⟨s1, hr1, hs1, hn1⟩ := hc1.sim h01 h1
  obtain ⟨s2, hr2, hs2, hn2⟩ := hc2.sim h02 h2
  rw [msg_observations_exact w rx t roots m01 m1 h01 h1 hc1 c,
    msg_observations_exact w rx t roots m02 m2 h02 h2 hc2 c, hs1.trace, hs2.trace]
  have := tick_deterministic w hw hacyc (rx.at t) hrw hext t roots s1 s2 hr1 hr2 hn1 hn2 c
  cases hd1 : dispatchOf s1.trace c with
  | none =>
    cases hd2 : dispatchOf s2.trace c with
    | none => simp [obsOfDispatch, ObsEq]
    | some d2 => simp [hd1, hd2] at this
  | some d1 =>
    cases hd2 : dispatchOf s2.trace c with
    | none => simp [hd1, hd2] at this
    | some d2 =>
      simp only [hd1, hd2] at this
      cases d1 <;> cases d2 <;> simp_all [Dispatch.Equiv, obsOfDispatch, ObsEq, MapEq]

/-! ## 2. completion (C13) -/

/-- **Every message-level tick can be completed** (C13, C01): on an acyclic wiring, from every
state that any interleaving of starts and deliveries can reach — whatever subset of the
participants has started so far — there is a continuation (start the scheduler if it has not
started, start a component when its `Input` waits, deliver what is in flight) after which the
tick is complete; everything that happened so far stays a prefix of the history. -/
theorem msg_tick_can_complete (w : Wiring) (hacyc : w.Acyclic) (rx : MsgReact Val) (t : SimTime)
    (roots : List Comp) (hroots : ∀ c ∈ extent w roots, (w.ups c).isSome)
    (m0 m : MsgSt Val) (h0 : m0.Idle) (h : MsgSt.Reach w rx t roots m0 m) :
    ∃ acts m', MsgSt.run w rx t roots m acts = some m' ∧ m'.Complete ∧
      MsgSt.Reach w rx t roots m0 m' ∧ ∃ post, m'.hist = m.hist ++ post := by
  suffices hsuf : ∃ acts m', MsgSt.run w rx t roots m acts = some m' ∧ m'.Complete by
    obtain ⟨acts, m', hrun, hc⟩ := hsuf
    exact ⟨acts, m', hrun, hc, h.run hrun, MsgSt.run_hist_extends hrun⟩
  rcases h.sim h0 with ⟨hI, _, _⟩ | ⟨s, hr, hs⟩
  · -- the scheduler starts
    obtain ⟨s, hs⟩ := TickSys.init_ok_of (Val := Val) t hroots
    have hstart : ∃ m1, m.step w rx t roots .startSched = some (.ok m1) := by
      simp only [TickSys.init] at hs
      cases hcall : (Ticker.call w t roots : Except TickErr (Ticker Val × List (Dispatch Val))) with
      | error e => simp [hcall, Except.map] at hs
      | ok r =>
        simp only [MsgSt.step, hI.1, hcall, Except.map]
        exact ⟨_, rfl⟩
    obtain ⟨m1, hm1⟩ := hstart
    obtain ⟨s1, hinit, hs1⟩ := MsgSim.start hI hm1
    obtain ⟨acts, m', hrun, hc⟩ := MsgSim.can_complete hacyc hroots _ hs1 (.init hinit) rfl
    exact ⟨.startSched :: acts, m', by rw [MsgSt.run_cons_ok hm1]; exact hrun, hc⟩
  · exact MsgSim.can_complete hacyc hroots _ hs hr rfl

/-- **A tick cannot complete while a component that takes part has not started; its `Input`
waits in the log.**  If the scheduler has dispatched an `Input` to `c` and `c` has not started,
then the tick is not complete, `c` has handled nothing, and that very `Input` is the next
message `c` will be delivered once it subscribes (replay from the beginning of what it has
not consumed). -/
theorem msg_not_complete_while_unstarted (w : Wiring) (rx : MsgReact Val) (t : SimTime)
    (roots : List Comp) (m0 m : MsgSt Val) (h0 : m0.Idle)
    (h : MsgSt.Reach w rx t roots m0 m) (c : Comp) (t' : SimTime) (ins : List (Port × Val))
    (hns : c ∉ m.started) (hd : Ev.dispatch (.input c t' ins) ∈ m.trace) :
    ¬ m.Complete ∧ reactsOf c m.hist = [] ∧ m.next (.inT c) = some (.disp (.input c t' ins)) := by
  have hinv := h.inv h0
  have hre : reactsOf c m.hist = [] :=
    reactsOf_eq_nil_iff.2 (fun t'' ins' hm => hns (hinv.reactStarted c t'' ins' hm))
  have hcount : (m.trace.filter (Ev.isDispatchOf c)).length ≤ 1 :=
    msg_trace_transfer w rx t roots (fun tr => (tr.filter (Ev.isDispatchOf c)).length ≤ 1)
      (fun s hs => (hs.inv.pre.count c).1) (by simp) m0 m h0 h
  have hdo := dispatchOf_eq_of_mem (d := .input c t' ins) hcount hd
  have hin : inputsTo c m.trace = [.disp (.input c t' ins)] := by
    rw [inputsTo_eq_dispatchOf hcount]
    simp only [Dispatch.comp] at hdo
    rw [hdo]
  have hnext : m.next (.inT c) = some (.disp (.input c t' ins)) := by
    have hcur : m.cur (.inT c) = (m0.log (.inT c)).length := by
      rw [hinv.notStarted c hns]; exact h0.2.2 _
    simp [MsgSt.next, hinv.inLog c, hin, hcur]
  refine ⟨fun hc => ?_, hre, hnext⟩
  obtain ⟨s, hr, hs, hnil⟩ := hc.sim h0 h
  have := (msg_complete_all_consumed w rx t roots m s hs hr hnil c).1
  simp [MsgSt.next, this] at hnext

/-- **Once started, a component receives its `Input` exactly once.**  In every state a
component has handled at most one `Input`; in every complete tick a component that was sent
`Input(t', ins)` — whether it started before the scheduler, before the `Input` was produced,
or any number of steps after — has handled exactly `[(t', ins)]`. -/
theorem msg_input_exactly_once (w : Wiring) (rx : MsgReact Val) (t : SimTime) (roots : List Comp)
    (m0 m : MsgSt Val) (h0 : m0.Idle) (h : MsgSt.Reach w rx t roots m0 m) (c : Comp) :
    (reactsOf c m.hist).length ≤ 1 ∧
    (m.Complete → ∀ t' ins, Ev.dispatch (.input c t' ins) ∈ m.trace →
      reactsOf c m.hist = [(t', ins)] ∧ c ∈ m.started) := by
  refine ⟨msg_react_at_most_once w rx t roots m0 m h0 h c, fun hc t' ins hd => ?_⟩
  have hcount : (m.trace.filter (Ev.isDispatchOf c)).length ≤ 1 :=
    msg_trace_transfer w rx t roots (fun tr => (tr.filter (Ev.isDispatchOf c)).length ≤ 1)
      (fun s hs => (hs.inv.pre.count c).1) (by simp) m0 m h0 h
  have hdo := dispatchOf_eq_of_mem (d := .input c t' ins) hcount hd
  simp only [Dispatch.comp] at hdo
  have hobs := msg_observations_exact w rx t roots m0 m h0 h hc c
  rw [hdo] at hobs
  refine ⟨hobs, ?_⟩
  refine (h.inv h0).reactStarted c t' ins (mem_reactsOf.1 ?_)
  rw [hobs]; simp [obsOfDispatch]

/-- the initial tick (all components are roots) reaches every component: each is sent an
`Input`, so by the two theorems above the initial tick completes only when every component has
started, and each handles its `Input` exactly once.  (A root is never skipped: C02.) -/
theorem msg_root_gets_input (w : Wiring) (hw : RouterOK w) (rx : MsgReact Val)
    (t : SimTime) (hrw : ReactWF (rx.at t)) (roots : List Comp)
    (m0 m : MsgSt Val) (h0 : m0.Idle) (h : MsgSt.Reach w rx t roots m0 m) (hc : m.Complete)
    (c : Comp) (hroot : c ∈ roots) (hcomp : c ∈ extent w roots) :
    ∃ ins, Ev.dispatch (.input c t ins) ∈ m.trace := by
  obtain ⟨s, hr, hs, hnil⟩ := hc.sim h0 h
  rw [hs.trace]
  cases hd : dispatchOf s.trace c with
  | none =>
    exact absurd hcomp ((dispatchOf_eq_none_iff_of_complete hw hrw hr hnil c).1 hd)
  | some d =>
    obtain ⟨hmem, hdc⟩ := dispatchOf_eq_some hd
    obtain ⟨pre, post, htr⟩ := List.append_of_mem hmem
    have := (input_iff_root_or_changed w hw (rx.at t) hrw t roots s hr pre post d htr).2
      (Or.inl (hdc ▸ hroot))
    obtain ⟨ins, hins⟩ := this
    rw [hdc] at hins
    exact ⟨ins, hins ▸ hmem⟩

/-! ## the bus obeys the state-interface contract -/

theorem MsgSt.exists_ext_produce (m : MsgSt Val) (B T : MsgTopic) (μ : BusMsg Val) :
    ∃ ext, (m.produce B μ).log T = m.log T ++ ext := by
  by_cases h : B = T
  · subst h; exact ⟨[μ], by simp⟩
  · exact ⟨[], by simp [h]⟩

/-- **The bus of the model is the contract bus of `Core/Contract.lean`**: in every step, every
topic's log only grows at its end; every cursor stays or moves over exactly one existing
message; the cursor of `in c` moves only if component `c` has started (subscribed), the cursor
of `out c` only if the scheduler has started; nobody un-starts.  (Messages produced before a
consumer started are therefore still in front of its cursor: replay.) -/
theorem msg_bus_contract (w : Wiring) (rx : MsgReact Val) (t : SimTime) (roots : List Comp)
    (m m' : MsgSt Val) (a : MsgAct) (h : m.step w rx t roots a = some (.ok m')) (T : MsgTopic) :
    (∃ ext, m'.log T = m.log T ++ ext) ∧
    (m'.cur T = m.cur T ∨ (m'.cur T = m.cur T + 1 ∧ m.cur T < (m.log T).length)) ∧
    (∀ c, T = .inT c → m'.cur T ≠ m.cur T → c ∈ m.started) ∧
    (∀ c, T = .outT c → m'.cur T ≠ m.cur T → m.tk ≠ none) ∧
    (∀ c, c ∈ m.started → c ∈ m'.started) := by
  cases a with
  | startSched =>
    obtain ⟨_, r, _, rfl⟩ := MsgSt.step_startSched_ok h
    refine ⟨⟨_, by rw [MsgSt.log_sendAll]; rfl⟩, Or.inl (by simp), ?_, ?_, by simp⟩ <;> simp
  | startComp c =>
    obtain ⟨_, rfl⟩ := MsgSt.step_startComp_ok h
    exact ⟨⟨[], by simp⟩, Or.inl rfl, by simp, by simp, fun c' hc' => List.mem_cons_of_mem _ hc'⟩
  | deliverIn c =>
    obtain ⟨hc, μ, hμ⟩ := MsgSt.step_deliverIn_enabled h
    have hlt : m.cur (.inT c) < (m.log (.inT c)).length := by
      simp only [MsgSt.next] at hμ
      exact (List.getElem?_eq_some_iff.1 hμ).1
    have hcur : ∀ m1 : MsgSt Val, (∀ T', m1.cur T' = (m.advance (.inT c)).cur T') →
        (m1.cur T = m.cur T ∨ (m1.cur T = m.cur T + 1 ∧ m.cur T < (m.log T).length)) ∧
        (∀ c', T = .inT c' → m1.cur T ≠ m.cur T → c' ∈ m.started) ∧
        (∀ c', T = .outT c' → m1.cur T ≠ m.cur T → m.tk ≠ none) := by
      intro m1 h1
      rw [h1, MsgSt.cur_advance]
      by_cases hT : MsgTopic.inT c = T
      · subst hT
        refine ⟨Or.inr ⟨by simp, hlt⟩, fun c' hc' _ => ?_, fun c' hc' => (by cases hc')⟩
        cases hc'; exact hc
      · simp [hT]
    simp only [MsgSt.step, if_pos hc, hμ] at h
    split at h
    · cases h
    · cases h
      refine ⟨?_, (hcur _ (fun _ => rfl)).1, (hcur _ (fun _ => rfl)).2.1, (hcur _ (fun _ => rfl)).2.2,
        fun _ h => h⟩
      exact MsgSt.exists_ext_produce (m.advance (.inT c)) (.outT c) T _
    · cases h
      exact ⟨⟨[], by simp⟩, (hcur _ (fun _ => rfl)).1, (hcur _ (fun _ => rfl)).2.1,
        (hcur _ (fun _ => rfl)).2.2, fun _ h => h⟩
  | deliverOut c =>
    obtain ⟨tk, μ, htk, hμ, hshape⟩ := MsgSt.step_deliverOut_ok h
    have hlt : m.cur (.outT c) < (m.log (.outT c)).length := by
      simp only [MsgSt.next] at hμ
      exact (List.getElem?_eq_some_iff.1 hμ).1
    have hcur : ∀ m1 : MsgSt Val, (∀ T', m1.cur T' = (m.advance (.outT c)).cur T') →
        (m1.cur T = m.cur T ∨ (m1.cur T = m.cur T + 1 ∧ m.cur T < (m.log T).length)) ∧
        (∀ c', T = .inT c' → m1.cur T ≠ m.cur T → c' ∈ m.started) ∧
        (∀ c', T = .outT c' → m1.cur T ≠ m.cur T → m.tk ≠ none) := by
      intro m1 h1
      rw [h1, MsgSt.cur_advance]
      by_cases hT : MsgTopic.outT c = T
      · subst hT
        exact ⟨Or.inr ⟨by simp, hlt⟩, fun c' hc' => (by cases hc'), fun _ _ _ => (by simp [htk])⟩
      · simp [hT]
    rcases hshape with ⟨src, t', ch, ca, r, _, _, rfl⟩ | ⟨_, rfl⟩
    · have := hcur (((((m.advance (.outT c)).record (.answer src ch)).setTk r.1).sendAll
        r.2).noteWakeup src ca) (fun _ => by simp)
      exact ⟨⟨_, by rw [MsgSt.log_noteWakeup, MsgSt.log_sendAll]; rfl⟩, this.1, this.2.1, this.2.2,
        by simp⟩
    · exact ⟨⟨[], by simp⟩, (hcur _ (fun _ => rfl)).1, (hcur _ (fun _ => rfl)).2.1,
        (hcur _ (fun _ => rfl)).2.2, fun _ h => h⟩

/-! ## topics -/

/-- the names of the topics in the code -/
def MsgTopic.name : MsgTopic → Topic
  | .inT c => inputTopic c
  | .outT c => outputTopic c

/-- the model's topics are the code's topics: distinct model topics have distinct names
(`topic_injective`, re-checked against the topic-naming functions of the code on every run). -/
theorem msgTopic_name_injective (T T' : MsgTopic) (h : T.name = T'.name) : T = T' := by
  cases T with
  | inT a =>
    cases T' with
    | inT b =>
      by_cases hab : a = b
      · rw [hab]
      · exact absurd h (topic_injective a b hab).1
    | outT b => exact absurd h (topic_in_ne_out a b)
  | outT a =>
    cases T' with
    | inT b => exact absurd h.symm (topic_in_ne_out b a)
    | outT b =>
      by_cases hab : a = b
      · rw [hab]
      · exact absurd h (topic_injective a b hab).2.1

end Tickit

namespace Tickit

/-! ## non-vacuity: three components, `a` feeds `b` and `c`; the initial tick (all are roots) -/

theorem MsgSt.idle_empty {Val : Type} : ({} : MsgSt Val).Idle :=
  ⟨rfl, rfl, fun _ => rfl⟩

def msgW3 : Wiring := [("a", [("o", [("b", "i"), ("c", "i")])]), ("b", []), ("c", [])]

/-- `a` reports 7 and asks to be called back at 100; `b` and `c` report the sum of what they are
given plus one. -/
def msgR3 : MsgReact Nat := fun c _ ins =>
  if c = "a" then ([("o", 7)], some 100) else ([("o", (ins.map (·.2)).sum + 1)], none)

/-- the scheduler starts first, every component starts just before it is needed. -/
def msgActs1 : List MsgAct :=
  [.startSched, .startComp "a", .deliverIn "a", .deliverOut "a", .startComp "b", .startComp "c",
   .deliverIn "b", .deliverOut "b", .deliverIn "c", .deliverOut "c"]

/-- `b` and `a` start before the scheduler; `c` starts LATE: its `Input` is produced (and the
answer of `b` is consumed) while it has not subscribed. -/
def msgActs2 : List MsgAct :=
  [.startComp "b", .startComp "a", .startSched, .deliverIn "a", .deliverOut "a", .deliverIn "b",
   .deliverOut "b", .startComp "c", .deliverIn "c", .deliverOut "c"]

/-- everybody starts first; `b` and `c` react concurrently and `c`'s answer overtakes `b`'s. -/
def msgActs3 : List MsgAct :=
  [.startComp "b", .startComp "a", .startComp "c", .startSched, .deliverIn "a", .deliverOut "a",
   .deliverIn "b", .deliverIn "c", .deliverOut "c", .deliverOut "b"]

/-- the hypotheses of the theorems hold for the example -/
example : ∀ c ∈ extent msgW3 ["a", "b", "c"], (msgW3.ups c).isSome := by decide

example : msgW3.Acyclic := by
  refine ⟨fun c => if c = "a" then 0 else 1, ?_⟩
  have hinv : msgW3.inverseTree = [("b", ["a"]), ("c", ["a"]), ("a", [])] := by decide
  intro c us u hus hu
  simp only [Wiring.ups, hinv, alookup] at hus
  split at hus
  · cases hus; simp at hu; subst_vars; decide
  · split at hus
    · cases hus; simp at hu; subst_vars; decide
    · split at hus
      · cases hus; simp at hu
      · cases hus

example : ReactWF (msgR3.at 0) := by
  intro c ins; unfold MsgReact.at msgR3; split <;> simp [akeys]

/-- interleaving 1 is an execution, completes the tick, and maps (by `MsgSt.abs`) to the
`TickSys` run that answers `a`, `b`, `c` in this order; `c` observed `(0, {i: 7})`. -/
example : ∃ m s, MsgSt.run msgW3 msgR3 0 ["a", "b", "c"] {} msgActs1 = some m ∧ m.Complete ∧
    s.Reachable msgW3 (msgR3.at 0) 0 ["a", "b", "c"] ∧ m.abs = some s ∧
    reactsOf "c" m.hist = [(0, [("i", 7)])] :=
  ⟨_, _, rfl, ⟨_, rfl, rfl⟩,
    .step (i := 0) (.step (i := 0) (.step (i := 0) (.init rfl) rfl) rfl) rfl, rfl, rfl⟩

/-- interleaving 2 (late `c`) is an execution and maps to the same `TickSys` run. -/
example : ∃ m s, MsgSt.run msgW3 msgR3 0 ["a", "b", "c"] {} msgActs2 = some m ∧ m.Complete ∧
    s.Reachable msgW3 (msgR3.at 0) 0 ["a", "b", "c"] ∧ m.abs = some s ∧
    reactsOf "c" m.hist = [(0, [("i", 7)])] :=
  ⟨_, _, rfl, ⟨_, rfl, rfl⟩,
    .step (i := 0) (.step (i := 0) (.step (i := 0) (.init rfl) rfl) rfl) rfl, rfl, rfl⟩

/-- interleaving 3 maps to a DIFFERENT `TickSys` run (answers `a`, `c`, `b`); the observations
are the same. -/
example : ∃ m s, MsgSt.run msgW3 msgR3 0 ["a", "b", "c"] {} msgActs3 = some m ∧ m.Complete ∧
    s.Reachable msgW3 (msgR3.at 0) 0 ["a", "b", "c"] ∧ m.abs = some s ∧
    reactsOf "c" m.hist = [(0, [("i", 7)])] ∧ reactsOf "b" m.hist = [(0, [("i", 7)])] :=
  ⟨_, _, rfl, ⟨_, rfl, rfl⟩,
    .step (i := 0) (.step (i := 1) (.step (i := 0) (.init rfl) rfl) rfl) rfl, rfl, rfl, rfl⟩

/-- in the middle of interleaving 2 (`c` not started yet, `a` and `b` done): the tick is not
complete, the `Input` of `c` waits in its log (hypotheses and conclusion of
`msg_not_complete_while_unstarted`), and the state maps to the `TickSys` state in which `c` is
the only pending dispatch. -/
example : ∃ m, MsgSt.run msgW3 msgR3 0 ["a", "b", "c"] {} (msgActs2.take 7) = some m ∧
    m.started = ["a", "b"] ∧
    m.trace = [.dispatch (.input "a" 0 []), .answer "a" [("o", 7)],
      .dispatch (.input "b" 0 [("i", 7)]), .dispatch (.input "c" 0 [("i", 7)]),
      .answer "b" [("o", 8)]] ∧
    m.next (.inT "c") = some (.disp (.input "c" 0 [("i", 7)])) ∧
    m.inflight "c" = some (.input "c" 0 [("i", 7)]) ∧
    (m.abs.map (·.pending)) = some [.input "c" 0 [("i", 7)]] :=
  ⟨_, rfl, rfl, rfl, rfl, rfl, rfl⟩

/-- a tick in which `b` and `c` are SKIPPED (root `a` reports no change) completes although
`b` and `c` never start: a `Skip` is produced and consumed by the scheduler itself. -/
example : ∃ m, MsgSt.run msgW3 (fun _ _ _ => (([] : List (Port × Nat)), none)) 5 ["a"] {}
      [.startSched, .startComp "a", .deliverIn "a", .deliverOut "a", .deliverOut "c",
       .deliverOut "b"] = some m ∧
    m.Complete ∧ m.started = ["a"] ∧ reactsOf "b" m.hist = [] :=
  ⟨_, rfl, ⟨_, rfl, rfl⟩, rfl, rfl⟩

/-- the runs above are `Reach`able states from the empty (idle) bus. -/
example (m : MsgSt Nat) (h : MsgSt.run msgW3 msgR3 0 ["a", "b", "c"] {} msgActs2 = some m) :
    MsgSt.Reach msgW3 msgR3 0 ["a", "b", "c"] {} m :=
  MsgSt.Reach.run .init h

end Tickit
