/-
C04 for EVERY any-order run WITH external stimuli (interrupts raised on any component at any real
time between ticks), nested schedulers at any depth.

`Props/AnyTransfer.lean` transfers `sim_time_monotone` to any-order runs without stimuli (the form in
which `any_order_run_has_fifo` is available).  `Lemmas/AnyTransferStim.lean` extends the existence of
the FIFO counterpart to runs with stimuli, under the explicit hypothesis that the run's
interrupt-propagation fuel covers the nesting depth (`S.DepthLe fuel0`: every component lies at most
`fuel0` scheduler levels below the master — the code has no such bound:

    # core/components/system_component.py / device_component.py
    async def raise_interrupt(self) -> None:
        await self.state_producer.produce(self.get_topic(), Interrupt(self.name))   # goes to the enclosing scheduler
    # core/management/schedulers/nested.py
    async def schedule_interrupt(self, source):
        self.interrupts.add(source)
        await self.raise_interrupt()                                                   # … and on, to the top

so a fuel below the depth describes no behaviour of the code).  With it, B2 of `Props/C04Mono.lean`
holds for every any-order run.
-/
import TickitModel.Lemmas.AnyTransferStim
import TickitModel.Props.AnyTransfer

namespace Tickit

/-- **every any-order run WITH stimuli has a FIFO counterpart** (the run's interrupt fuel covering the
nesting depth): for every sufficiently large fuel the FIFO model completes the same run — the same
stimuli handled at the same points, the same ticks — and ends in an equivalent state. -/
theorem any_order_run_has_fifo_stims (S : Static) (hS : S.Valid) (orc : Oracle) (fuel0 : Nat)
    (hd : S.DepthLe fuel0) (t0 : SimTime) (now : Int) (sp : Speed) (steps nTicks : Nat)
    (stims : List Stim) (r0 : MasterSt × TickRec) (r : MasterSt × List TickRec)
    (h1 : MasterInitialAny S orc t0 now r0)
    (h2 : MasterRunAny S orc fuel0 sp steps nTicks r0.1 stims [r0.2] r) :
    ∃ F, ∀ fuel, F ≤ fuel → ∃ m tr m2 ticks, masterInitial S orc fuel t0 now = .ok (m, tr) ∧
      masterRun S orc fuel sp steps nTicks m stims [tr] = .ok (m2, ticks) ∧
      r.1.Equiv m2 ∧ TicksEquiv r.2 ticks :=
  masterRunAny_fifo_stims hS hd h1 h2

/-- with stimuli: every reached state is well-formed, no master wakeup (callback or interrupt stamp)
lies before the ticker time, no recorded tick after it. -/
theorem any_order_wake_not_before_stims (S : Static) (hS : S.Valid) (orc : Oracle) (fuel0 : Nat)
    (hd : S.DepthLe fuel0) (t0 : SimTime) (now : Int) (sp : Speed) (steps nTicks : Nat)
    (stims : List Stim) (r0 : MasterSt × TickRec) (r : MasterSt × List TickRec)
    (h1 : MasterInitialAny S orc t0 now r0)
    (h2 : MasterRunAny S orc fuel0 sp steps nTicks r0.1 stims [r0.2] r)
    (hnp : RunNoPast orc r.1.sim) :
    r.1.sim.Good ∧ (∀ e ∈ (r.1.sim.sched "").wake, r.1.tickerTime ≤ e.2) ∧
    (∀ x ∈ r.2, x.time ≤ r.1.tickerTime) ∧ (r.2.map (·.time)).Pairwise (· ≤ ·) := by
  obtain ⟨F, hF⟩ := masterRunAny_fifo_stims hS hd h1 h2
  obtain ⟨m, tr, m2, ticks, hmi, hmr, heq, hticks⟩ := hF F (Nat.le_refl _)
  obtain ⟨g1, g2, g3, g4⟩ := sim_wake_not_before S orc F t0 now sp steps nTicks stims m m2 tr ticks hmi
    hmr (RunNoPast.of_equiv heq.sim hnp)
  refine ⟨SimSt.Good.of_equiv heq.sim g1, ?_, ?_, ?_⟩
  · intro e he
    rw [heq.tickerTime]
    exact g2 e (((heq.sim.sched "").mem_wake e).1 he)
  · intro x hx
    have hxm : x.time ∈ r.2.map (·.time) := List.mem_map.2 ⟨x, hx, rfl⟩
    rw [hticks.times.1] at hxm
    obtain ⟨y, hy, hyt⟩ := List.mem_map.1 hxm
    rw [heq.tickerTime, ← hyt]
    exact g3 y hy
  · rw [hticks.times.1]; exact g4

/-- **C04 (B2) for every answer order, with external stimuli.**  Whole simulation, nested schedulers
at any depth, any history of callbacks and of interrupts raised on any component at any real time,
every tick ANY execution (any answer order at every level): provided no device asks to be called
back in the past, successive tick times never decrease.  No assumption on the FIFO model; no
hypothesis on the stimuli or on the speed. -/
theorem any_order_time_monotone_stims (S : Static) (hS : S.Valid) (orc : Oracle) (fuel0 : Nat)
    (hd : S.DepthLe fuel0) (t0 : SimTime) (now : Int) (sp : Speed) (steps nTicks : Nat)
    (stims : List Stim) (r0 : MasterSt × TickRec) (r : MasterSt × List TickRec)
    (h1 : MasterInitialAny S orc t0 now r0)
    (h2 : MasterRunAny S orc fuel0 sp steps nTicks r0.1 stims [r0.2] r)
    (hnp : RunNoPast orc r.1.sim) :
    (r.2.map (·.time)).Pairwise (· ≤ ·) :=
  (any_order_wake_not_before_stims S hS orc fuel0 hd t0 now sp steps nTicks stims r0 r h1 h2 hnp).2.2.2

end Tickit
