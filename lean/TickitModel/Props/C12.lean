/-
C12 — simulation time is paced against real time by the configured speed
(exact arithmetic: speed = num/den > 0, times in integer nanoseconds).
-/
import TickitModel.Lemmas.MiscLemmas
import TickitModel.Core.Sim
import TickitModel.Lemmas.MiscArith

namespace Tickit

/-- **never early**: the real time at which the tick for `whenT` is started is never before
`now`, and real time elapsed since the previous tick ended is at least
`(whenT - tPrev)/speed`, whatever time processing has already cost (`now - lastReal`). -/
theorem never_early (m : MasterSt) (s : Speed) (hs : 0 < s.num) (whenT : SimTime) :
    m.now ≤ dueReal m s whenT ∧
    (whenT - m.tickerTime) * s.den ≤ (dueReal m s whenT - m.lastReal) * s.num := by
  exact never_early' m s hs whenT

/-- **exact when free**: if the wait is a whole number of nanoseconds and not already
overdue, the tick starts exactly `(whenT - tPrev)/speed` after the previous one ended. -/
theorem exact_when_free (m : MasterSt) (s : Speed) (hs : 0 < s.num) (whenT : SimTime)
    (hnn : 0 ≤ sleepNumer whenT m.tickerTime m.now m.lastReal s)
    (hdiv : (s.num : Int) ∣ sleepNumer whenT m.tickerTime m.now m.lastReal s) :
    (dueReal m s whenT - m.lastReal) * s.num = (whenT - m.tickerTime) * s.den := by
  have _ := hs
  exact exact_when_free' m s whenT hnn hdiv

/-- a late tick is started at once, never delayed further. -/
theorem late_immediate (m : MasterSt) (s : Speed) (whenT : SimTime)
    (hlate : sleepNumer whenT m.tickerTime m.now m.lastReal s ≤ 0) : dueReal m s whenT = m.now := by
  exact if_pos hlate

/-- **stamp law**: an interrupt arriving at real time `now ≥ lastReal` is stamped with the
simulation time corresponding to that real time: `tPrev + ⌊(now - lastReal)·speed⌋`. -/
theorem stamp_law (t : SimTime) (now last : Int) (s : Speed) (hs : 0 < s.den) (hnow : last ≤ now) :
    (interruptStamp t now last s - t) * s.den ≤ (now - last) * s.num ∧
    (now - last) * s.num < (interruptStamp t now last s - t + 1) * s.den := by
  exact stamp_law' t now last s hs hnow

/-- an interrupt's own tick is due immediately (it never waits). -/
theorem interrupt_due_now (m : MasterSt) (s : Speed) (hs : 0 < s.den) (hn : 0 < s.num) (hnow : m.lastReal ≤ m.now) :
    dueReal m s (interruptStamp m.tickerTime m.now m.lastReal s) = m.now := by
  have _ := hn
  exact interrupt_due_now' m s hs hnow

/-- **linear law**, one step: if `simTime - t0 = speed·(real - r0)` held when the previous
tick ended, it holds again when the next tick (callback or interrupt) starts, provided the
products are integral. -/
theorem linear_step_callback (m : MasterSt) (s : Speed) (hs : 0 < s.num) (t0 : SimTime) (r0 : Int)
    (hinv : (m.tickerTime - t0) * s.den = (m.lastReal - r0) * s.num)
    (whenT : SimTime)
    (hnn : 0 ≤ sleepNumer whenT m.tickerTime m.now m.lastReal s)
    (hdiv : (s.num : Int) ∣ sleepNumer whenT m.tickerTime m.now m.lastReal s) :
    (whenT - t0) * s.den = (dueReal m s whenT - r0) * s.num := by
  have _ := hs
  exact linear_step_callback' m s t0 r0 hinv whenT hnn hdiv

theorem linear_step_interrupt (m : MasterSt) (s : Speed) (hd : 0 < s.den) (t0 : SimTime) (r0 : Int)
    (hinv : (m.tickerTime - t0) * s.den = (m.lastReal - r0) * s.num)
    (hnow : m.lastReal ≤ m.now)
    (hdiv : (s.den : Int) ∣ (m.now - m.lastReal) * s.num) :
    (interruptStamp m.tickerTime m.now m.lastReal s - t0) * s.den = (m.now - r0) * s.num := by
  have _ := hd
  exact linear_step_interrupt' m s t0 r0 hinv hnow hdiv

example : dueReal { tickerTime := 0, lastReal := 100, now := 130 } ⟨2, 1⟩ 1000 = 600 := by decide
example : interruptStamp 1000 250 100 ⟨2, 1⟩ = 1300 := by decide

end Tickit
