/-
C15 / C08 (anchor `core/state_interfaces/state_interface.py`) — the registry of state interfaces.

For every history of registrations:
* `get_interface name` returns the consumer class and the producer class that were registered LAST under that
  name, and fails (KeyError) iff one of the two is missing;
* a name is listed by `interfaces(external)` iff both a consumer and a producer are registered under it and, when
  `external` is asked for, both were registered as external;
* registering under one name never changes what is found under another name;
* a class is filed by what the protocols see of it (a `produce` attribute makes it a producer - first test -, else a
  `subscribe` attribute a consumer, else nothing is registered and a warning is issued).
-/
import TickitModel.Core.Registry
import TickitModel.Lemmas.MiscLemmas

namespace Tickit

theorem Registry.add_producer (r : Registry) (n : String) (e : Bool) (k : IfaceClass) (h : k.hasProduce = true) :
    (r.add n e k).producers = upsert r.producers n (k.id, e) ∧ (r.add n e k).consumers = r.consumers := by
  simp [Registry.add, h]

theorem Registry.add_consumer (r : Registry) (n : String) (e : Bool) (k : IfaceClass)
    (h : k.hasProduce = false) (h2 : k.hasSubscribe = true) :
    (r.add n e k).consumers = upsert r.consumers n (k.id, e) ∧ (r.add n e k).producers = r.producers := by
  simp [Registry.add, h, h2]

/-- a class that is neither is not registered anywhere; one warning -/
theorem Registry.add_neither (r : Registry) (n : String) (e : Bool) (k : IfaceClass)
    (h : k.hasProduce = false) (h2 : k.hasSubscribe = false) :
    (r.add n e k).consumers = r.consumers ∧ (r.add n e k).producers = r.producers ∧
    (r.add n e k).warnings = r.warnings + 1 := by
  simp [Registry.add, h, h2]

/-- registering under `n` changes nothing that is found under another name -/
theorem Registry.add_other_name (r : Registry) (n n' : String) (e : Bool) (k : IfaceClass) (hne : n' ≠ n) :
    (r.add n e k).get n' = r.get n' := by
  cases hp : k.hasProduce <;> cases hs : k.hasSubscribe <;>
    simp [Registry.get, Registry.add, hp, hs, ms_alookup_upsert, hne]

/-- the pair registered last under a name is what `get_interface` returns -/
theorem Registry.get_after_add_both (r : Registry) (n : String) (ec ep : Bool) (kc kp : IfaceClass)
    (hc1 : kc.hasProduce = false) (hc2 : kc.hasSubscribe = true) (hp : kp.hasProduce = true) :
    ((r.add n ec kc).add n ep kp).get n = some (kc.id, kp.id) ∧
    ((r.add n ep kp).add n ec kc).get n = some (kc.id, kp.id) := by
  simp [Registry.get, Registry.add, hc1, hc2, hp, ms_alookup_upsert]

/-- `get_interface` fails iff a side is missing -/
theorem Registry.get_none_iff (r : Registry) (n : String) :
    r.get n = none ↔ alookup r.consumers n = none ∨ alookup r.producers n = none := by
  unfold Registry.get
  cases alookup r.consumers n <;> cases alookup r.producers n <;> simp

theorem mem_satisfyExt (ext : Bool) (d : List (String × (Nat × Bool))) (hu : UniqueKeys d) (n : String) :
    n ∈ satisfyExt ext d ↔ ∃ v, alookup d n = some v ∧ (ext = true → v.2 = true) := by
  unfold satisfyExt
  simp only [List.mem_map, List.mem_filter]
  constructor
  · rintro ⟨⟨a, v⟩, ⟨hm, hf⟩, rfl⟩
    refine ⟨v, (alookup_eq_some_iff d hu a v).2 hm, ?_⟩
    intro he; subst he; simpa using hf
  · rintro ⟨v, hl, hf⟩
    refine ⟨(n, v), ⟨(alookup_eq_some_iff d hu n v).1 hl, ?_⟩, rfl⟩
    cases ext with
    | false => simp
    | true => simp [hf rfl]

/-- a name is listed iff both sides are registered under it (and are external, when that is asked for) -/
theorem Registry.mem_interfaces (r : Registry) (hc : UniqueKeys r.consumers) (hp : UniqueKeys r.producers)
    (ext : Bool) (n : String) :
    n ∈ r.interfaces ext ↔
      (∃ c, alookup r.consumers n = some c ∧ (ext = true → c.2 = true)) ∧
      (∃ p, alookup r.producers n = some p ∧ (ext = true → p.2 = true)) := by
  unfold Registry.interfaces
  simp only [List.mem_filter, List.contains_iff_mem]
  rw [mem_satisfyExt ext _ hc, mem_satisfyExt ext _ hp]

/-- unique keys are preserved by every registration (so the hypotheses above hold for every history) -/
theorem Registry.add_unique (r : Registry) (hc : UniqueKeys r.consumers) (hp : UniqueKeys r.producers)
    (n : String) (e : Bool) (k : IfaceClass) :
    UniqueKeys (r.add n e k).consumers ∧ UniqueKeys (r.add n e k).producers := by
  unfold Registry.add
  split
  · exact ⟨hc, hp.upsert _ _⟩
  · split
    · exact ⟨hc.upsert _ _, hp⟩
    · exact ⟨hc, hp⟩

theorem Registry.run_unique (ops : List (String × Bool × IfaceClass)) (r : Registry)
    (hc : UniqueKeys r.consumers) (hp : UniqueKeys r.producers) :
    UniqueKeys (r.run ops).consumers ∧ UniqueKeys (r.run ops).producers := by
  induction ops generalizing r with
  | nil => exact ⟨hc, hp⟩
  | cons o os ih =>
    obtain ⟨n, e, k⟩ := o
    have := Registry.add_unique r hc hp n e k
    exact ih _ this.1 this.2

/-- for EVERY history of registrations from the empty registry: listed iff both sides present (and external) -/
theorem Registry.run_mem_interfaces (ops : List (String × Bool × IfaceClass)) (ext : Bool) (n : String) :
    n ∈ (({} : Registry).run ops).interfaces ext ↔
      (∃ c, alookup (({} : Registry).run ops).consumers n = some c ∧ (ext = true → c.2 = true)) ∧
      (∃ p, alookup (({} : Registry).run ops).producers n = some p ∧ (ext = true → p.2 = true)) := by
  have h := Registry.run_unique ops {} (by simp [UniqueKeys]) (by simp [UniqueKeys])
  exact Registry.mem_interfaces _ h.1 h.2 ext n

/-- non-vacuity: the shipped registrations ("internal" not external, "kafka" external) -/
example :
    let r := ({} : Registry).run [("internal", false, ⟨1, false, true⟩), ("internal", false, ⟨2, true, false⟩),
                                   ("kafka", true, ⟨3, false, true⟩), ("kafka", true, ⟨4, true, false⟩), ("half", true, ⟨5, true, false⟩)]
    r.interfaces false = ["internal", "kafka"] ∧ r.interfaces true = ["kafka"] ∧ r.get "internal" = some (1, 2) ∧ r.get "half" = none := by
  decide

end Tickit
