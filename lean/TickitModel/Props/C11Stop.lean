/-
C11 — fail-stop, the stop protocol of the master scheduler under EVERY interleaving and ANY number
of failures (`Core/StopProtocol.lean`).

`Props/C11.lean` follows ONE exception along the configuration tree.  This file is about what
happens at the top once reports arrive: the coroutines `MasterScheduler.run_forever`, any number
of `handle_component_exception` handlers (one per report, interleaving at every `await`, their
`StopComponent` producers running in any order), the bus delivering the stop messages, the
components answering or failing, wakeups arriving at any moment.

`cfg.stopOnce = false` is the code as it is in /repo; `cfg.stopOnce = true` is the seeded change
C11-m7 ("only the first exception starts the shut down"), for which the hang is a theorem.

A state is `StopReach cfg s` when it is reachable from the initial tick by any sequence of
enabled actions.  "Scheduler / bus steps" (`StopAct.isSys`) are: a move of the run loop, a handler
statement, a `StopComponent` producer, a delivery.  Everything else is the environment.
-/
import TickitModel.Lemmas.StopProtocolFair

namespace Tickit

variable {cfg : StopCfg} {s s' : StopSt}

/-! ### safety -/

/-- **the invariant holds in every reachable state** of the code as it is. -/
theorem stop_invariant (hcfg : cfg.stopOnce = false) (h : StopReach cfg s) : StopInv cfg s :=
  h.inv hcfg

/-- **once any report's handler has finished, `error` is set.**  In fact as soon as a handler has
come back from `super().handle_component_exception(...)` - i.e. it is about to execute, or has
executed, `self.ticker.finished.set()` - the master's `error` event is set. -/
theorem error_set_when_handler_finished (hcfg : cfg.stopOnce = false) (h : StopReach cfg s)
    (r : StopReport) (hr : r ∈ s.reports) (hpc : r.pc = .afterSuper ∨ r.pc = .done) :
    s.error = true :=
  (h.inv hcfg).errOfAfter r hr hpc

/-- **the run loop never starts a new tick after `error` is set** - nor after a failure was
merely reported: the step "the sleep expires and `await self.ticker(...)` starts" is not enabled,
for any set of components; the loop is inside the tick in which the failure happened, back at
`while not self.error.is_set()`, or out - never waiting for a wakeup, never sleeping. -/
theorem no_new_tick_after_error (hcfg : cfg.stopOnce = false) (h : StopReach cfg s)
    (he : s.error = true ∨ s.reports ≠ []) :
    (s.pc = .ticking ∨ s.pc = .top ∨ s.pc = .exited) ∧
    ∀ cs left, s.step cfg (.sleepExpires cs left) = none := by
  have hi := h.inv hcfg
  have hp : s.pc = .ticking ∨ s.pc = .top ∨ s.pc = .exited := by
    rcases he with he | he
    · exact hi.errPc he
    · exact hi.pc_of_reports he
  refine ⟨hp, fun cs left => ?_⟩
  simp only [StopSt.step]
  rcases hp with hp | hp | hp <;> simp [hp]

/-- the same as a statement about steps: with `error` set (or a report in flight) no step
whatsoever takes the run loop from outside a tick into a tick. -/
theorem no_step_into_tick_after_error (hcfg : cfg.stopOnce = false) (h : StopReach cfg s)
    (he : s.error = true ∨ s.reports ≠ []) (a : StopAct) (hs : s.step cfg a = some s')
    (hp : s'.pc = .ticking) : s.pc = .ticking := by
  rcases StopSt.step_pc_ticking a hs hp with h1 | ⟨cs, left, rfl⟩
  · exact h1
  · rw [(no_new_tick_after_error hcfg h he).2 cs left] at hs
    cases hs

/-- at `while not self.error.is_set()` with `error` set, the loop's next move is to leave. -/
theorem loop_exits_at_top (hp : s.pc = .top) (he : s.error = true) :
    s.step cfg .loop = some { s with pc := .exited } := by
  simp [StopSt.step, StopSt.loopStep, hp, he]

/-- **the ticker is released only after `error.set()`.**  Whenever a step sets the ticker's
`finished` event, either it is the normal end of a tick (the last awaited component answered and
no failure was reported), or it is the statement `self.ticker.finished.set()` of a handler - and
then `error` is already set. -/
theorem release_only_after_error (hcfg : cfg.stopOnce = false) (h : StopReach cfg s) (a : StopAct)
    (hs : s.step cfg a = some s') (h0 : s.finished = false) (h1 : s'.finished = true) :
    (s.error = true ∧ ∃ i, a = .handler i) ∨
    (s.reports = [] ∧ s'.toUpdate = [] ∧ ∃ c, a = .answer c) := by
  have hi := h.inv hcfg
  rcases StopSt.step_sets_finished a hs h0 h1 with ⟨c, rfl, htu⟩ | ⟨i, r, rfl, hri, hpc⟩
  · refine Or.inr ⟨?_, htu, c, rfl⟩
    -- with a report in flight a failed component stays awaited: the tick cannot complete
    apply Classical.byContradiction
    intro hne
    obtain ⟨x, hx⟩ := List.exists_mem_of_ne_nil _ ((h.step hs).inv hcfg |>.failed_ne_nil (by
      simp only [StopSt.step] at hs
      split at hs <;> cases hs
      exact hne))
    have := ((h.step hs).inv hcfg).failedTu x hx
    rw [htu] at this
    cases this
  · exact Or.inl ⟨hi.errOfAfter r (List.mem_of_getElem? hri) (Or.inl hpc), i, rfl⟩

/-- so the run loop can never observe "tick released, `error` clear" because of a report:
in every reachable state with a report in flight, `finished` set implies `error` set. -/
theorem never_released_with_error_clear (hcfg : cfg.stopOnce = false) (h : StopReach cfg s)
    (hr : s.reports ≠ []) (hf : s.finished = true) : s.error = true := by
  cases he : s.error with
  | true => rfl
  | false =>
    have := ((h.inv hcfg).inTick hr he).2
    rw [hf] at this; cases this

/-- **every component is sent `StopComponent` by the time the first handler finishes**: when a
handler has come back from `super()` (a fortiori when it has returned), and whenever `error` is
set, a `StopComponent` was produced for every component; each of them is still in flight or its
component has run `stop_component()`. -/
theorem all_stops_sent (hcfg : cfg.stopOnce = false) (h : StopReach cfg s)
    (he : s.error = true ∨ ∃ r ∈ s.reports, r.pc = .afterSuper ∨ r.pc = .done) :
    ∀ c ∈ cfg.comps, c ∈ s.stopSent ∧ (c ∈ s.inbox ∨ c ∈ s.stopped) := by
  have hi := h.inv hcfg
  have he' : s.error = true := by
    rcases he with he | ⟨r, hr, hpc⟩
    · exact he
    · exact hi.errOfAfter r hr hpc
  intro c hc
  exact ⟨hi.sentOfErr he' c hc, hi.sentTracked c (hi.sentOfErr he' c hc)⟩

/-- **identity.** The reports the master sees are exactly the failures, one report per failing
component, in order, each carrying the name of the component that failed; those components are
components of the system which the tick was waiting for.  Conversely no `StopComponent` is ever
produced, and no component stopped, unless a failure was reported. -/
theorem reports_are_the_failures (hcfg : cfg.stopOnce = false) (h : StopReach cfg s) :
    s.reports.map (·.src) = s.failed ∧ (∀ c ∈ s.failed, c ∈ s.toUpdate ∧ c ∈ cfg.comps) ∧
    (s.reports = [] → s.error = false ∧ s.stopSent = [] ∧ s.inbox = [] ∧ s.stopped = []) := by
  have hi := h.inv hcfg
  refine ⟨hi.ident, fun c hc => ⟨hi.failedTu c hc, hi.tuComps c (hi.failedTu c hc)⟩, fun hr => ?_⟩
  have hs := hi.noSpurious hr
  refine ⟨(hi.quiet hr).1, hs, ?_, ?_⟩
  · cases hl : s.inbox with
    | nil => rfl
    | cons c l =>
      have := hi.inboxSent c (by rw [hl]; exact List.mem_cons_self ..)
      rw [hs] at this; cases this
  · cases hl : s.stopped with
    | nil => rfl
    | cons c l =>
      have := hi.stoppedSent c (by rw [hl]; exact List.mem_cons_self ..)
      rw [hs] at this; cases this

/-! ### termination -/

/-- **the measure is a bound.**  From any reachable state in which at least one failure was
reported, along ANY execution (any interleaving, any further failures, answers, wakeups):
no step increases `measure`, every scheduler / bus step decreases it; so the number of scheduler
and bus steps in the execution plus the measure of the state reached is at most the measure of
the start.  In particular no execution contains more than `s.measure cfg` such steps. -/
theorem sys_steps_bounded (hcfg : cfg.stopOnce = false) (h : StopReach cfg s)
    (hr : s.reports ≠ []) (as : List StopAct) (hs : s.exec cfg as = some s') :
    stopCountSys as + s'.measure cfg ≤ s.measure cfg :=
  (h.inv hcfg).exec_measure hcfg as hr hs

/-- the single-step form of the bound. -/
theorem measure_decreases (hcfg : cfg.stopOnce = false) (h : StopReach cfg s)
    (hr : s.reports ≠ []) (a : StopAct) (hs : s.step cfg a = some s') :
    s'.measure cfg ≤ s.measure cfg ∧ (a.isSys = true → s'.measure cfg < s.measure cfg) :=
  (h.inv hcfg).measure_step hr a hs

/-- **every maximal execution ends with the run call returned.**  If, after any execution from a
reachable state with a reported failure, no scheduler / bus step is enabled any more, then the
run loop has exited and every component has run `stop_component()`: everything
`TickitSimulation.run()` awaits is finished.  Together with `sys_steps_bounded`: every execution
is either extendable by a scheduler / bus step - at most `measure` times - or has returned. -/
theorem maximal_execution_returns (hcfg : cfg.stopOnce = false) (h : StopReach cfg s)
    (hr : s.reports ≠ []) (as : List StopAct) (hs : s.exec cfg as = some s')
    (hq : s'.quiescent cfg) : s'.runReturned cfg :=
  ((h.inv hcfg).exec hcfg as hs).quiescent_returned (StopSt.exec_reports_ne_nil as hr hs) hq

/-- **under any fair schedule the run call returns, and stays returned.**  Take any infinite
schedule of actions (those not enabled at their turn are skipped) which is weakly fair to the
scheduler and the bus.  From every reachable state with a reported failure there is a moment
from which on the run loop has exited and all components are stopped. -/
theorem fair_run_returns (hcfg : cfg.stopOnce = false) (h : StopReach cfg s) (hr : s.reports ≠ [])
    (σ : Nat → StopAct) (hfair : s.fair cfg σ) :
    ∃ n, ∀ k, (s.sched cfg σ (n + k)).runReturned cfg := by
  obtain ⟨m, _, hm⟩ := (h.inv hcfg).fair_returns_aux hcfg hr σ hfair _ 0 (Nat.le_refl _)
  exact ⟨m, StopSt.runReturned_sched σ m hm⟩

/-- the goal is not only forced but attainable: some execution consisting of at most `measure`
scheduler / bus steps ends in a state where none of them is enabled and the run call has returned. -/
theorem some_execution_returns (hcfg : cfg.stopOnce = false) (h : StopReach cfg s)
    (hr : s.reports ≠ []) :
    ∃ as s', as.length ≤ s.measure cfg ∧ (∀ a ∈ as, a.isSys = true) ∧ s.exec cfg as = some s' ∧
      s'.quiescent cfg ∧ s'.runReturned cfg :=
  (h.inv hcfg).exists_exec_quiescent hcfg _ hr (Nat.le_refl _)

/-- the fairness hypothesis of `fair_run_returns` is satisfiable from every reachable state with
a reported failure: play the execution of `some_execution_returns`, then wakeups for ever. -/
theorem fair_schedule_exists (hcfg : cfg.stopOnce = false) (h : StopReach cfg s)
    (hr : s.reports ≠ []) : ∃ σ, s.fair cfg σ := by
  obtain ⟨as, s', _, hsys, he, hq, hret⟩ := some_execution_returns hcfg h hr
  exact ⟨stopSchedOf as, StopSt.fair_of_exec as hsys he hq hret.1⟩

/-- once returned, always returned. -/
theorem returned_is_stable (a : StopAct) (hs : s.step cfg a = some s') (h : s.runReturned cfg) :
    s'.runReturned cfg :=
  StopSt.runReturned_step a hs h

/-- **the bound in closed form**, at the moment of the FIRST failure of a tick: if no failure
was reported yet, the tick waits for `m` components (of a system of `n`) and one of them fails,
then `measure ≤ 1 + m·(2n+4)`: at most that many scheduler / bus steps - `2n+3` per handler that
can ever exist, i.e. one per awaited component, plus the two moves of the run loop - separate the
first failure from the return of the run call, whatever else fails meanwhile. -/
theorem first_failure_bound (hcfg : cfg.stopOnce = false) (h : StopReach cfg s)
    (hr : s.reports = []) (c : Comp) (hs : s.step cfg (.fail c) = some s') :
    s'.reports ≠ [] ∧ s'.measure cfg ≤ 1 + s.toUpdate.length * (2 * cfg.comps.length + 4) := by
  have hi := h.inv hcfg
  simp only [StopSt.step] at hs
  split at hs
  · rename_i hc
    cases hs
    refine ⟨by simp, ?_⟩
    have hq := (hi.quiet hr).2.1 (List.ne_nil_of_mem hc.1)
    have hin : s.inbox = [] := ((reports_are_the_failures hcfg h).2.2 hr).2.2.1
    have h1 := stop_filter_fail_lt c s.failed s.toUpdate hc.1 hc.2
    have h2 : (s.toUpdate.filter (· ∉ s.failed)).length ≤ s.toUpdate.length :=
      List.length_filter_le _ _
    have h3 := Nat.mul_le_mul_right (2 * cfg.comps.length + 4)
      (Nat.le_trans (Nat.succ_le_of_lt h1) h2)
    rw [Nat.succ_mul] at h3
    simp only [StopSt.measure, StopSt.unfailed, hr, hin, hq.1, SLoopPc.cost, List.nil_append,
      List.map_cons, List.map_nil, List.sum_cons, List.sum_nil, StopReport.cost, HPc.cost,
      List.length_nil]
    omega
  · cases hs

/-! ### the seeded variant: the bug is a theorem -/

/-- **`stopOnce = true` hangs.**  Components a, b, w; a and b fail in the initial tick, w answers.
The interleaving `stopOnceHistory` is executable in the variant and ends in `stopOnceBad`:
`error` is set, both handlers have returned, every component has been stopped - and the run loop
sits in `await self.new_wakeup.wait()` with no wakeup and the flag clear.  In that state NO
action other than a new wakeup is enabled: nothing the scheduler, the bus or the components can
still do leads anywhere, let alone to the exit. -/
theorem stopOnce_hangs :
    (StopSt.init (stopOnceCfg true)).exec (stopOnceCfg true) stopOnceHistory = some stopOnceBad ∧
    StopReach (stopOnceCfg true) stopOnceBad ∧
    stopOnceBad.error = true ∧ (∀ r ∈ stopOnceBad.reports, r.pc = .done) ∧
    (∀ c ∈ (stopOnceCfg true).comps, c ∈ stopOnceBad.stopped) ∧
    stopOnceBad.pc = .waiting ∧ stopOnceBad.hasWakeups = false ∧
    ¬ stopOnceBad.runReturned (stopOnceCfg true) ∧
    ∀ a, a ≠ .wakeup → stopOnceBad.step (stopOnceCfg true) a = none :=
  ⟨stopOnce_exec_bad, StopReach.exec _ .init stopOnce_exec_bad, rfl, by decide, by decide, rfl, rfl,
    by decide, stopOnceBad_dead⟩

/-- **it waits forever**: under any schedule without a new wakeup, finite or infinite, the run
loop of the variant stays where it is; `TickitSimulation.run()` never returns. -/
theorem stopOnce_waits_forever :
    (∀ as s', StopAct.wakeup ∉ as → stopOnceBad.exec (stopOnceCfg true) as = some s' →
      s'.pc = .waiting ∧ ¬ s'.runReturned (stopOnceCfg true)) ∧
    (∀ σ : Nat → StopAct, (∀ n, σ n ≠ .wakeup) → ∀ n,
      (stopOnceBad.sched (stopOnceCfg true) σ n).pc = .waiting ∧
      ¬ (stopOnceBad.sched (stopOnceCfg true) σ n).runReturned (stopOnceCfg true)) := by
  have hp : stopOnceBad.parked := ⟨rfl, rfl⟩
  refine ⟨fun as s' hw hs => ?_, fun σ hσ n => ?_⟩
  · have := StopSt.parked_exec as hw hs hp
    exact ⟨this.1, fun hr => by have h1 := hr.1; rw [this.1] at h1; cases h1⟩
  · have := StopSt.parked_sched (cfg := stopOnceCfg true) σ hσ hp n
    exact ⟨this.1, fun hr => by have h1 := hr.1; rw [this.1] at h1; cases h1⟩

/-- what goes wrong, as a violation of the safety property: after the first six actions of the
history the ticker is released (`finished` set) by the second report's handler while `error` is
still clear and the first handler is in the middle of its fan-out - in the code as it is this is
impossible (`never_released_with_error_clear`). -/
theorem stopOnce_releases_before_error :
    ∃ s, (StopSt.init (stopOnceCfg true)).exec (stopOnceCfg true) (stopOnceHistory.take 6) = some s ∧
      s.reports ≠ [] ∧ s.finished = true ∧ s.error = false ∧ s.pc = .ticking := by
  refine ⟨_, (by decide : _ = some
    { pc := .ticking, error := false, finished := true, stopping := true, hasWakeups := false,
      newWakeup := false, toUpdate := ["a", "b"], failed := ["a", "b"],
      reports := [⟨"a", .fanout ["a", "b", "w"]⟩, ⟨"b", .done⟩], inbox := [], stopSent := [],
      stopped := [] }), by decide, rfl, rfl, rfl⟩

/-- **the hang does not depend on the example**: in EVERY system with at least two components
`a ≠ b`, the variant has an interleaving of seven actions (both fail in the initial tick; the
first handler starts its fan-out; the second returns early and releases the ticker; the run loop
leaves the tick, finds `error` clear and no wakeup) after which - whatever the handlers, the bus
and the components do afterwards, for ever - the run loop does not move without a new wakeup and
the run call does not return. -/
theorem stopOnce_hangs_in_every_system (hcfg : cfg.stopOnce = true) (a b : Comp)
    (ha : a ∈ cfg.comps) (hb : b ∈ cfg.comps) (hab : a ≠ b) :
    ∃ s, (StopSt.init cfg).exec cfg (stopOncePrefix a b) = some s ∧ StopReach cfg s ∧
      s.reports ≠ [] ∧
      (∀ as s', StopAct.wakeup ∉ as → s.exec cfg as = some s' →
        s'.pc = .waiting ∧ ¬ s'.runReturned cfg) ∧
      (∀ σ : Nat → StopAct, (∀ n, σ n ≠ .wakeup) → ∀ n,
        (s.sched cfg σ n).pc = .waiting ∧ ¬ (s.sched cfg σ n).runReturned cfg) := by
  have he := stopOnce_parks cfg hcfg a b ha hb hab
  have hp : (stopOnceParked cfg a b).parked := ⟨rfl, rfl⟩
  refine ⟨_, he, StopReach.exec _ .init he, by simp [stopOnceParked], fun as s' hw hs => ?_,
    fun σ hσ n => ?_⟩
  · have := StopSt.parked_exec as hw hs hp
    exact ⟨this.1, fun hr => by have h1 := hr.1; rw [this.1] at h1; cases h1⟩
  · have := StopSt.parked_sched (cfg := cfg) σ hσ hp n
    exact ⟨this.1, fun hr => by have h1 := hr.1; rw [this.1] at h1; cases h1⟩

/-- the parking lemma behind the hang holds for both variants: `_do_tick` does not look at
`error` while it waits, so a run loop parked in `new_wakeup.wait()` is moved by nothing but
`add_wakeup`.  The code as it is relies on never being parked while a report is in flight
(`no_new_tick_after_error`). -/
theorem parked_needs_wakeup (a : StopAct) (ha : a ≠ .wakeup) (hs : s.step cfg a = some s')
    (h : s.parked) : s'.parked :=
  StopSt.parked_step a ha hs h

/-! ### concrete instances (the hypotheses are satisfiable) -/

/-- in the code as it is the second handler cannot return early: the history of the variant is
not executable. -/
example : (StopSt.init (stopOnceCfg false)).exec (stopOnceCfg false) stopOnceHistory = none := by
  decide

/-- the same two failures in the code as it is, handlers interleaved (both fan-outs overlap): a
reachable state with two reports ... -/
def twoFailures : List StopAct := [ .fail "a", .fail "b", .answer "w", .handler 0, .handler 1 ]

def twoFailuresMid : StopSt :=
  { pc := .ticking, error := false, finished := false, stopping := false, hasWakeups := false,
    newWakeup := false, toUpdate := ["a", "b"], failed := ["a", "b"],
    reports := [⟨"a", .fanout ["a", "b", "w"]⟩, ⟨"b", .fanout ["a", "b", "w"]⟩], inbox := [],
    stopSent := [], stopped := [] }

theorem twoFailures_exec :
    (StopSt.init (stopOnceCfg false)).exec (stopOnceCfg false) twoFailures = some twoFailuresMid := by
  decide

theorem twoFailures_reach : StopReach (stopOnceCfg false) twoFailuresMid :=
  StopReach.exec twoFailures .init twoFailures_exec

example : twoFailuresMid.reports ≠ [] ∧ twoFailuresMid.measure (stopOnceCfg false) = 18 := by
  decide

/-- ... from which one complete interleaving (18 scheduler / bus steps, as many as the measure:
the bound is attained; the second handler overtakes the first) ends with the run call returned. -/
def twoFailuresRest : List StopAct :=
  [ .produceStop 1 "w", .produceStop 0 "a", .produceStop 1 "b", .deliverStop "a", .produceStop 1 "a"
  , .handler 1            -- second report: `error.set()`
  , .produceStop 0 "b", .produceStop 0 "w"
  , .handler 1            -- second report: `finished.set()`
  , .loop                 -- the tick returns
  , .handler 0            -- first report: `error.set()` (again)
  , .loop                 -- `while not self.error.is_set()`: leave
  , .deliverStop "w", .deliverStop "b", .deliverStop "a", .deliverStop "b", .deliverStop "w"
  , .handler 0 ]          -- first report: `finished.set()` - nobody waits, harmless

def twoFailuresEnd : StopSt :=
  { pc := .exited, error := true, finished := true, stopping := false, hasWakeups := false,
    newWakeup := false, toUpdate := ["a", "b"], failed := ["a", "b"],
    reports := [⟨"a", .done⟩, ⟨"b", .done⟩], inbox := [],
    stopSent := ["w", "a", "b", "a", "b", "w"], stopped := ["w", "b", "a", "b", "w", "a"] }

theorem twoFailuresRest_exec :
    twoFailuresMid.exec (stopOnceCfg false) twoFailuresRest = some twoFailuresEnd := by
  decide

theorem twoFailuresEnd_quiescent : twoFailuresEnd.quiescent (stopOnceCfg false) := by
  intro a ha
  cases a with
  | loop => rfl
  | handler i =>
    match i with
    | 0 => rfl
    | 1 => rfl
    | n + 2 => simp [StopSt.step, StopSt.handlerStep, twoFailuresEnd]
  | produceStop i c =>
    match i with
    | 0 => rfl
    | 1 => rfl
    | n + 2 => simp [StopSt.step, StopSt.produceStep, twoFailuresEnd]
  | deliverStop c => simp [StopSt.step, twoFailuresEnd]
  | _ => cases ha

example : twoFailuresEnd.runReturned (stopOnceCfg false) ∧ stopCountSys twoFailuresRest = 18 := by
  decide

/-- instance of `sys_steps_bounded` / `maximal_execution_returns` -/
example : twoFailuresEnd.runReturned (stopOnceCfg false) :=
  maximal_execution_returns rfl twoFailures_reach (by decide) _ twoFailuresRest_exec
    twoFailuresEnd_quiescent

/-- a concrete fair schedule from the state with two overlapping fan-outs: the 18 steps above,
then wakeups for ever; so `fair_run_returns` applies to it. -/
example : twoFailuresMid.fair (stopOnceCfg false) (stopSchedOf twoFailuresRest) ∧
    ∃ n, ∀ k, (twoFailuresMid.sched (stopOnceCfg false) (stopSchedOf twoFailuresRest)
      (n + k)).runReturned (stopOnceCfg false) := by
  have hfair : twoFailuresMid.fair (stopOnceCfg false) (stopSchedOf twoFailuresRest) :=
    StopSt.fair_of_exec twoFailuresRest (by decide) twoFailuresRest_exec twoFailuresEnd_quiescent rfl
  exact ⟨hfair, fair_run_returns rfl twoFailures_reach (by decide) _ hfair⟩

/-- instance of `first_failure_bound`: the initial tick of three components, first failure:
at most 1 + 3·(2·3+4) = 31 scheduler / bus steps to go. -/
example : ∃ s, (StopSt.init (stopOnceCfg false)).step (stopOnceCfg false) (.fail "a") = some s ∧
    s.measure (stopOnceCfg false) ≤ 31 := by
  have hs : (StopSt.init (stopOnceCfg false)).step (stopOnceCfg false) (.fail "a") =
      some { StopSt.init (stopOnceCfg false) with failed := ["a"], reports := [⟨"a", .start⟩] } := by
    decide
  exact ⟨_, hs, (first_failure_bound (cfg := stopOnceCfg false) rfl .init rfl "a" hs).2⟩

end Tickit
