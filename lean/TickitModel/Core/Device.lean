/-
M3 — the device component (`core/components/device_component.py`): input merge and
output change detection.  The device itself is a parameter: its response to an update is
given (oracle) as `(outputs, call_at)`.
-/
import TickitModel.Core.Basic

namespace Tickit

variable {Val : Type} [DecidableEq Val]

structure DevComp (Val : Type) where
  deviceInputs : List (Port × Val) := []
  lastOutputs : List (Port × Val) := []
  deriving Repr

/-- `self.device_inputs = {**self.device_inputs, **changes}` -/
def DevComp.merge (dc : DevComp Val) (changes : List (Port × Val)) : List (Port × Val) :=
  aupdate dc.deviceInputs changes

/-- change detection against `last_outputs` -/
def outChanges (last outs : List (Port × Val)) : List (Port × Val) :=
  outs.filter (fun kv => match alookup last kv.1 with
    | none => true
    | some v => !(v == kv.2))

/-- a Python dict literal / mapping given as an item list: later duplicates win, position of the first. -/
def normDict (items : List (Port × Val)) : List (Port × Val) := aupdate [] items

/-- `on_tick` given the device's response `outs`. Returns new state and the `Output.changes`. -/
def DevComp.onTick (dc : DevComp Val) (changes : List (Port × Val)) (outs : List (Port × Val)) :
    DevComp Val × List (Port × Val) :=
  let ins := dc.merge changes
  ({ deviceInputs := ins, lastOutputs := outs }, outChanges dc.lastOutputs outs)

end Tickit
