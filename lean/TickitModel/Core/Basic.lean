/-
M0 — values and association maps.

Python dicts are modelled as association lists with unique keys in insertion order
(`upsert` replaces in place, else appends — exactly what `d[k] = v` does to iteration
order).  Python sets are modelled as duplicate-free lists (`sinsert`); every consumer of
a set in the model is insensitive to its order.
-/

namespace Tickit

abbrev Comp := String
abbrev Port := String
abbrev CPort := Comp × Port
abbrev SimTime := Int

/-- association-list lookup (first match). -/
def alookup {κ β : Type} [DecidableEq κ] : List (κ × β) → κ → Option β
  | [], _ => none
  | (k, v) :: t, x => if k = x then some v else alookup t x

/-- `d[k] = v` on an insertion ordered dict. -/
def upsert {κ β : Type} [DecidableEq κ] : List (κ × β) → κ → β → List (κ × β)
  | [], x, v => [(x, v)]
  | (k, w) :: t, x, v => if k = x then (k, v) :: t else (k, w) :: upsert t x v

/-- `del d[k]` / `d.pop(k)` -/
def aerase {κ β : Type} [DecidableEq κ] : List (κ × β) → κ → List (κ × β)
  | [], _ => []
  | (k, w) :: t, x => if k = x then t else (k, w) :: aerase t x

def akeys {κ β : Type} (m : List (κ × β)) : List κ := m.map (·.1)

/-- `d.update(other)` : upsert every item of `other` in its order. -/
def aupdate {κ β : Type} [DecidableEq κ] (m other : List (κ × β)) : List (κ × β) :=
  other.foldl (fun acc kv => upsert acc kv.1 kv.2) m

/-- `set.add` -/
def sinsert {α : Type} [DecidableEq α] (s : List α) (x : α) : List α :=
  if x ∈ s then s else s ++ [x]

def sunion {α : Type} [DecidableEq α] (s t : List α) : List α :=
  t.foldl sinsert s

/-- the "defaultdict touch": make sure key exists. -/
def atouch {κ β : Type} [DecidableEq κ] (m : List (κ × β)) (k : κ) (dflt : β) : List (κ × β) :=
  match alookup m k with
  | some _ => m
  | none => m ++ [(k, dflt)]

/-- defaultdict `m[k]` read with default (no mutation). -/
def agetD {κ β : Type} [DecidableEq κ] (m : List (κ × β)) (k : κ) (dflt : β) : β :=
  (alookup m k).getD dflt

end Tickit
