/-
M4 — scheduler bookkeeping (`schedulers/base.py`, `master.py`, `nested.py`):
wakeups, first wakeups, pacing arithmetic, nested root selection.
-/
import TickitModel.Core.Basic

namespace Tickit

abbrev Wakeups := List (Comp × SimTime)

/-- `add_wakeup` -/
def addWakeup (w : Wakeups) (c : Comp) (t : SimTime) : Wakeups := upsert w c t

def minTime : List SimTime → Option SimTime
  | [] => none
  | t :: ts => match minTime ts with
    | none => some t
    | some m => some (if t ≤ m then t else m)

/-- `get_first_wakeups` -/
def firstWakeups (w : Wakeups) : List Comp × Option SimTime :=
  match minTime (w.map (·.2)) with
  | none => ([], none)
  | some m => ((w.filter (fun e => e.2 == m)).map (·.1), some m)

/-- remove served components: `for component in components: del self.wakeups[component]` -/
def delWakeups (w : Wakeups) (cs : List Comp) : Wakeups := cs.foldl aerase w

/-- Python `int(x)` for a rational `n/d` with `d > 0`: truncation toward zero. -/
def truncDiv (n : Int) (d : Int) : Int := Int.tdiv n d

/-- speed as a positive rational `num/den`. -/
structure Speed where
  num : Nat
  den : Nat
  deriving Repr, DecidableEq

/-- interrupt stamp: `ticker.time + int((now - last_time) * speed)` -/
def interruptStamp (tickerTime : SimTime) (now last : Int) (s : Speed) : SimTime :=
  tickerTime + truncDiv ((now - last) * s.num) s.den

/-- `sleep_time(when)` in nanoseconds as an exact rational `n / s.num`:
    `(when - ticker.time)/speed - (now - last)` = `((when - t)*den - (now-last)*num)/num`. -/
def sleepNumer (whenT tickerTime : SimTime) (now last : Int) (s : Speed) : Int :=
  (whenT - tickerTime) * s.den - (now - last) * s.num

/-- nested `on_tick` root selection: due wakeups (`when ≤ time`), queued interrupts, `external`. -/
def nestedDue (w : Wakeups) (t : SimTime) : List Comp := (w.filter (fun e => decide (e.2 ≤ t))).map (·.1)

end Tickit
