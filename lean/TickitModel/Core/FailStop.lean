/-
M5' — the exception path (`component.py` handle_input, `schedulers/base.py`
handle_component_exception, `nested.py`, `system_component.py` on_tick, `master.py`):

a device or adapter hook raising during an update makes its component publish a
`ComponentException(name, error)`; the scheduler that receives it sends `StopComponent` to
every component it manages and raises its error flag; a nested scheduler keeps the message
and its system component forwards *that same message* to the enclosing scheduler; the
master additionally releases the running tick and leaves its loop.
-/
import TickitModel.Core.Basic

namespace Tickit

inductive Tree where
  | dev (name : Comp)
  | sys (name : Comp) (children : List Tree)
  deriving Repr

def Tree.name : Tree → Comp
  | .dev n => n
  | .sys n _ => n

structure Exc where
  source : Comp
  error : String
  deriving Repr, DecidableEq

structure Report where
  /-- the `ComponentException` as received by the scheduler of this level -/
  exc : Exc
  /-- components that were sent `StopComponent`, innermost level first -/
  stopped : List Comp
  /-- scheduler levels whose error flag was raised, innermost first (`""` = master) -/
  errored : List Comp
  deriving Repr

mutual
/-- failure of device `target` with error `err` somewhere below the scheduler of `level`
managing `comps`; `none` = the target is not below this level. -/
def failIn (level : Comp) (comps : List Tree) (target : Comp) (err : String) : Option Report :=
  match findChild comps target err with
  | none => none
  | some r => some { exc := r.exc, stopped := r.stopped ++ comps.map Tree.name, errored := r.errored ++ [level] }
/-- the child whose update raised (directly, or forwarded from its own nested scheduler) -/
def findChild (comps : List Tree) (target : Comp) (err : String) : Option Report :=
  match comps with
  | [] => none
  | .dev n :: rest =>
    if n = target then some { exc := ⟨n, err⟩, stopped := [], errored := [] }
    else findChild rest target err
  | .sys n children :: rest =>
    match failIn n children target err with
    | some r => some r     -- SystemComponent.on_tick forwards scheduler.component_error unchanged
    | none => findChild rest target err
end

mutual
def Tree.devices : Tree → List Comp
  | .dev n => [n]
  | .sys _ ch => devicesOf ch
def devicesOf : List Tree → List Comp
  | [] => []
  | t :: ts => t.devices ++ devicesOf ts
end

mutual
/-- the schedulers on the path from this level down to the device `target`, with the
components each of them manages -/
def pathTo (level : Comp) (comps : List Tree) (target : Comp) : Option (List (Comp × List Comp)) :=
  match pathChild comps target with
  | none => none
  | some p => some (p ++ [(level, comps.map Tree.name)])
def pathChild (comps : List Tree) (target : Comp) : Option (List (Comp × List Comp)) :=
  match comps with
  | [] => none
  | .dev n :: rest => if n = target then some [] else pathChild rest target
  | .sys n children :: rest =>
    match pathTo n children target with
    | some p => some p
    | none => pathChild rest target
end

/-- the master's loop: `while not self.error.is_set(): await self._do_tick()`; returns the
number of further ticks started once the error flag is up -/
def masterTicksAfterError (errorSet : Bool) (budget : Nat) : Nat :=
  if errorSet then 0 else budget

end Tickit
