/-
M10 — a flat simulation at MESSAGE level over MANY ticks: the bus of `Core/MsgFlat.lean`
(messages in flight, participants that start late), device components that carry their state
from tick to tick, the master scheduler's wakeup bookkeeping between ticks.

  core/components/device_component.py        (`Core/Device.lean`)
      async def on_tick(self, time, changes) -> None:
          self.device_inputs = {**self.device_inputs, **changes}
          device_update = self.device.update(SimTime(time), self.device_inputs)
          out_changes = {k: v for k, v in device_update.outputs.items()
                         if k not in self.last_outputs or not self.last_outputs[k] == v}
          self.last_outputs = device_update.outputs
          await self.output(time, out_changes, device_update.call_at)

  core/management/schedulers/master.py       (`Core/Sched.lean`, `Core/Flat.lean`)
      async def run_forever(self) -> None:
          await self.setup()
          await self._do_initial_tick()        # ticker(initial_time, ticker.components)
          while not self.error.is_set():
              await self._do_tick()
      async def _do_tick(self):
          ...                                   # wait until a wakeup exists and is due
          components, when = self.get_first_wakeups()
          for component in components:
              del self.wakeups[component]
          await self.ticker(when, {component for component in components})

A tick is begun only when the previous one has finished (`await self.ticker(...)` returns
after `finished.wait()`).  Real time (the sleep) is not modelled: C12.  No interrupts: C07.

Inside a tick the bus steps are those of `MsgSt.step`, with the reaction function computed from
the CURRENT state of the components (`rxOf`) and the time taken from the `Input` message; a
component that handles an `Input` updates its own state (`device_inputs`, `last_outputs`).
-/
import TickitModel.Core.MsgFlat
import TickitModel.Core.Flat

set_option autoImplicit false

namespace Tickit

variable {Val : Type} [DecidableEq Val]

/-- `DeviceComponent.on_tick` as seen from the bus: given `Input(time = t', changes = ins)` the
component with state `comps[c]` produces `Output(changes, call_at)`. -/
def rxOf (comps : List (Comp × DevComp Val)) (dev : DevFn Val) : MsgReact Val := fun c t' ins =>
  let dc := agetD comps c {}
  let r := dev c t' (dc.merge ins)
  (outChanges dc.lastOutputs (normDict r.outs), r.callAt)

structure MsgRunSt (Val : Type) where
  /-- logs, cursors, who has started, the scheduler's ticker and wakeups, history of the tick -/
  bus : MsgSt Val := {}
  /-- the components' own state -/
  comps : List (Comp × DevComp Val) := []
  /-- ghost: one entry per device update (device, time, inputs given), as `FlatSt.obs` -/
  obs : List (Comp × SimTime × List (Port × Val)) := []
  /-- number of ticks begun -/
  ticks : Nat := 0
  /-- time and roots of the tick in progress (locals of `_do_tick`) -/
  tickTime : SimTime := 0
  tickRoots : List Comp := []
  /-- ghost: the tick times, latest first -/
  times : List SimTime := []

inductive MsgRunAct where
  /-- a bus action: `startSched` = the scheduler starts and begins the INITIAL tick; a component
  starts; a delivery -/
  | bus (a : MsgAct)
  /-- the scheduler begins the next tick (`_do_tick` after the wait) -/
  | nextTick
  deriving Repr, DecidableEq

/-- the state of the components after component `c` was delivered message `μ` from `in c` -/
def MsgRunSt.handle (M : MsgRunSt Val) (dev : DevFn Val) (c : Comp) (b : MsgSt Val) :
    Option (BusMsg Val) → MsgRunSt Val
  | some (.disp (.input _ t' ins)) =>
    let dc := agetD M.comps c {}
    let given := dc.merge ins
    { M with bus := b
             comps := upsert M.comps c
               { deviceInputs := given, lastOutputs := normDict (dev c t' given).outs }
             obs := M.obs ++ [(c, t', given)] }
  | _ => { M with bus := b }

/-- one action of the whole simulation.  `devs k` is the device function during tick `k`. -/
def MsgRunSt.step (w : Wiring) (devs : DevSeq Val) (t0 : SimTime) (M : MsgRunSt Val) :
    MsgRunAct → Option (Except TickErr (MsgRunSt Val))
  | .bus .startSched =>
    (M.bus.step w (rxOf M.comps (devs 0)) t0 w.components .startSched).map (fun r => r.map (fun b =>
      { M with bus := b, ticks := 1, tickTime := t0, tickRoots := w.components, times := [t0] }))
  | .bus (.deliverIn c) =>
    let dev := devs (M.ticks - 1)
    (M.bus.step w (rxOf M.comps dev) M.tickTime M.tickRoots (.deliverIn c)).map (fun r => r.map
      (fun b => M.handle dev c b (M.bus.next (.inT c))))
  | .bus a =>
    (M.bus.step w (rxOf M.comps (devs (M.ticks - 1))) M.tickTime M.tickRoots a).map (fun r =>
      r.map (fun b => { M with bus := b }))
  | .nextTick =>
    match M.bus.tk with
    | none => none
    | some tk =>
      if tk.toUpdate.isEmpty then
        match firstWakeups M.bus.wake with
        | (cs, some when) =>
          let b0 : MsgSt Val :=
            { M.bus with tk := none, hist := [], wake := delWakeups M.bus.wake cs }
          (b0.step w (rxOf M.comps (devs M.ticks)) when cs .startSched).map (fun r => r.map (fun b =>
            { M with bus := b, ticks := M.ticks + 1, tickTime := when, tickRoots := cs,
                     times := when :: M.times }))
        | _ => none
      else none

/-- run a list of actions (`none` = some action was not enabled or failed) -/
def MsgRunSt.run (w : Wiring) (devs : DevSeq Val) (t0 : SimTime) :
    MsgRunSt Val → List MsgRunAct → Option (MsgRunSt Val)
  | M, [] => some M
  | M, a :: as =>
    match M.step w devs t0 a with
    | some (.ok M') => MsgRunSt.run w devs t0 M' as
    | _ => none

/-- the initial state: nothing produced; the components in `S` have already started. -/
def MsgRunSt.initial (S : List Comp) : MsgRunSt Val := { bus := { started := S } }

/-- every interleaving of starts, deliveries and tick starts. -/
inductive MsgRunSt.Reach (w : Wiring) (devs : DevSeq Val) (t0 : SimTime) : MsgRunSt Val → Prop
  | init (S : List Comp) : Reach w devs t0 (MsgRunSt.initial S)
  | step {M M' : MsgRunSt Val} {a : MsgRunAct} : Reach w devs t0 M →
      M.step w devs t0 a = some (.ok M') → Reach w devs t0 M'

/-- the simulation state as a `FlatSt` (components, wakeups, observation log) -/
def MsgRunSt.flat (M : MsgRunSt Val) : FlatSt Val :=
  { comps := M.comps, wake := M.bus.wake, obs := M.obs }

end Tickit
