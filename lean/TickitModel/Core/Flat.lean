/-
M8 — a flat simulation over many ticks: device components driven by the ticker of M2 with
*any* answer order inside each tick, the scheduler's wakeup bookkeeping between ticks.

Devices are arbitrary: `dev c t inputs` is what device `c` returns when updated at time `t`
with (merged) inputs `inputs`; it may differ from tick to tick (`DevSeq k`), which covers
devices with internal state.  Everything else is the code's logic: merge of input changes
(M3), change detection against the previous report (M3), routing and sequencing (M1/M2),
wakeups (M4).
-/
import TickitModel.Core.TickSys
import TickitModel.Core.Device
import TickitModel.Core.Sched

namespace Tickit

structure DevOut (Val : Type) where
  outs : List (Port × Val)
  callAt : Option SimTime

abbrev DevFn (Val : Type) := Comp → SimTime → List (Port × Val) → DevOut Val

structure FlatSt (Val : Type) where
  comps : List (Comp × DevComp Val) := []
  wake : Wakeups := []
  /-- ghost: the latest value ever reported on each output port -/
  reported : List ((Comp × Port) × Val) := []
  /-- ghost: the observation log, one entry per device update: (device, time, inputs given) -/
  obs : List (Comp × SimTime × List (Port × Val)) := []

variable {Val : Type} [DecidableEq Val]

def FlatSt.comp (st : FlatSt Val) (c : Comp) : DevComp Val := agetD st.comps c {}

/-- what component `c` answers (its `Output.changes`) when given `ins` at time `t`, from the
pre-tick state `st`. -/
def FlatSt.react (st : FlatSt Val) (dev : DevFn Val) (t : SimTime) : React Val := fun c ins =>
  let dc := st.comp c
  outChanges dc.lastOutputs (normDict (dev c t (dc.merge ins)).outs)

/-- the effect of one dispatch on the component states, the scheduler's wakeups and the
ghost logs (a `Skip` changes nothing). -/
def FlatSt.absorb (st : FlatSt Val) (dev : DevFn Val) (d : Dispatch Val) : FlatSt Val :=
  match d with
  | .skip _ _ => st
  | .input c t ins =>
    let dc := st.comp c
    let given := dc.merge ins
    let r := dev c t given
    let outs := normDict r.outs
    { comps := upsert st.comps c { deviceInputs := given, lastOutputs := outs }
      wake := match r.callAt with
        | some w => addWakeup st.wake c w
        | none => st.wake
      reported := outs.foldl (fun acc pv => upsert acc (c, pv.1) pv.2) st.reported
      obs := st.obs ++ [(c, t, given)] }

/-- state after a tick whose event trace was `trace` -/
def FlatSt.afterTick (st : FlatSt Val) (dev : DevFn Val) (trace : List (Ev Val)) : FlatSt Val :=
  trace.foldl (fun st e => match e with
    | .dispatch d => st.absorb dev d
    | .answer _ _ => st) st

/-- one complete tick at time `t` for `roots`, with some answer order. -/
def TickRun (w : Wiring) (dev : DevFn Val) (st : FlatSt Val) (t : SimTime) (roots : List Comp)
    (st' : FlatSt Val) : Prop :=
  ∃ s : TickSys Val, s.Reachable w (st.react dev t) t roots ∧ s.tk.toUpdate = [] ∧
    st' = st.afterTick dev s.trace

/-- the device functions may change from tick to tick -/
abbrev DevSeq (Val : Type) := Nat → DevFn Val

/-- `FlatRun w devs t0 n st times`: after the initial tick and `n` further callback ticks the
state is `st`; `times` lists the tick times (latest first). -/
inductive FlatRun (w : Wiring) (devs : DevSeq Val) (t0 : SimTime) : Nat → FlatSt Val → List SimTime → Prop
  | initial {st : FlatSt Val} : TickRun w (devs 0) {} t0 w.components st → FlatRun w devs t0 0 st [t0]
  | tick {n : Nat} {st st' : FlatSt Val} {times : List SimTime} {cs : List Comp} {m : SimTime} :
      FlatRun w devs t0 n st times → firstWakeups st.wake = (cs, some m) →
      TickRun w (devs (n + 1)) { st with wake := delWakeups st.wake cs } m cs st' →
      FlatRun w devs t0 (n + 1) st' (m :: times)

/-- per-device observation sequence -/
def FlatSt.obsOf (st : FlatSt Val) (c : Comp) : List (SimTime × List (Port × Val)) :=
  (st.obs.filter (fun o => o.1 == c)).map (·.2)

/-- two association lists denote the same mapping -/
def MapEq {κ β : Type} [DecidableEq κ] (a b : List (κ × β)) : Prop := ∀ k, alookup a k = alookup b k

/-- two observation sequences are the same (inputs compared as mappings) -/
def ObsEq : List (SimTime × List (Port × Val)) → List (SimTime × List (Port × Val)) → Prop
  | [], [] => True
  | (t1, i1) :: r1, (t2, i2) :: r2 => t1 = t2 ∧ MapEq i1 i2 ∧ ObsEq r1 r2
  | _, _ => False

/-- devices are deterministic functions of time and of their inputs *as a mapping* -/
def DevExt (dev : DevFn Val) : Prop :=
  ∀ c t i1 i2, MapEq i1 i2 → dev c t i1 = dev c t i2

end Tickit
