/-
M4' — the master scheduler's bookkeeping as a transition system in which interrupts may
arrive at ANY point: before a tick, while it is running, between the end of an inner tick
and the system component's answer, together with other interrupts or callbacks.

`wake` is `wakeups` (one entry per component, overwritten by every answer that carries a
`call_at`), `pend` is `_pending_interrupts` (stamp of interrupts not served yet): a later
callback request never displaces a pending interrupt.
`owed` is a ghost: components that raised an interrupt and whose device has not begun an
update since.
-/
import TickitModel.Core.Sched

namespace Tickit

structure MSt where
  wake : Wakeups := []
  pend : Wakeups := []
  tickerTime : SimTime := 0
  /-- roots of the tick in progress whose update has not begun yet; `none` = no tick running -/
  ticking : Option (List Comp) := none
  owed : List Comp := []
  deriving Repr

inductive MAct where
  /-- `schedule_interrupt(c)`; `stamp` is what the pacing law (C12) yields at that moment -/
  | interrupt (c : Comp) (stamp : SimTime)
  /-- an `Output` of `c` is handled: `add_wakeup` iff it carries a `call_at` -/
  | output (c : Comp) (callAt : Option SimTime)
  /-- `_do_tick` gets past its sleep and serves the first wakeups -/
  | startTick
  /-- the device update of `c` begins (a root, or a downstream participant of the tick) -/
  | beginUpdate (c : Comp)
  /-- the tick finishes (only once every root has begun — in fact finished — its update) -/
  | endTick
  deriving Repr

/-- `MasterScheduler.add_wakeup` -/
def MSt.addWakeup (s : MSt) (c : Comp) (w : SimTime) : Wakeups :=
  match alookup s.pend c with
  | some i => upsert s.wake c (if i < w then i else w)
  | none => upsert s.wake c w

def MSt.step (s : MSt) : MAct → Option MSt
  | .interrupt c stamp =>
    -- a callback that is already due but not served yet is not displaced by the interrupt
    let when := match alookup s.wake c with
      | some w => if w < stamp then w else stamp
      | none => stamp
    let s1 := { s with pend := if (alookup s.pend c).isSome then s.pend else upsert s.pend c when }
    some { s1 with wake := s1.addWakeup c when, owed := sinsert s.owed c }
  | .output c callAt =>
    match callAt with
    | some w => some { s with wake := s.addWakeup c w }
    | none => some s
  | .startTick =>
    match s.ticking, firstWakeups s.wake with
    | none, (cs, some m) =>
      some { s with wake := delWakeups s.wake cs, pend := delWakeups s.pend cs, tickerTime := m, ticking := some cs }
    | _, _ => none
  | .beginUpdate c =>
    match s.ticking with
    | some rem => some { s with ticking := some (rem.filter (· != c)), owed := s.owed.filter (· != c) }
    | none => none
  | .endTick =>
    match s.ticking with
    | some [] => some { s with ticking := none }
    | _ => none

/-- run a history; actions that are not enabled are ignored -/
def MSt.run (s : MSt) : List MAct → MSt
  | [] => s
  | a :: as => match s.step a with
    | some s' => MSt.run s' as
    | none => MSt.run s as

end Tickit
