/-
M8' — the mechanical flattening of a nested configuration: every device at top level, the
`external` / exposed ports of system simulations replaced by direct wires from the device
that ultimately drives them (C09's reference configuration).
-/
import TickitModel.Core.Sim

namespace Tickit

/-- the output wired to input `q` of `c` in `w` (inputs have one source) -/
def Wiring.sourceOf (w : Wiring) (c : Comp) (q : Port) : Option CPort :=
  alookup (agetD (InvWiring.fromWiring w) c []) q

/-- the device output that ultimately drives the output `(a, p)` named inside level `lvl`:
`external` ports are followed outwards through the enclosing system's inputs, exposed ports of
a system inwards through its `expose` wiring. `none` = dangling. -/
def Static.resolve (S : Static) : Nat → Comp → Comp → Port → Option CPort
  | 0, _, _, _ => none
  | fuel + 1, lvl, a, p =>
    if a == pseudoExternal then
      if lvl == "" then none
      else match alookup S.parent lvl with
        | none => none
        | some P => match S.level P with
          | none => none
          | some LP => match LP.wiring.sourceOf lvl p with
            | none => none
            | some (a', p') => S.resolve fuel P a' p'
    else if S.isSys a then
      match S.level a with
      | none => none
      | some La => match La.wiring.sourceOf pseudoExpose p with
        | none => none
        | some (a', p') => S.resolve fuel a a' p'
    else some (a, p)

/-- all devices, in configuration order -/
def Static.devices (S : Static) : List Comp :=
  (S.parent.filter (fun e => !S.isSys e.1)).map (·.1)

/-- resolved inputs of device `c` -/
def Static.flatInputs (S : Static) (fuel : Nat) (c : Comp) : List (Port × CPort) :=
  match alookup S.parent c with
  | none => []
  | some lvl => match S.level lvl with
    | none => []
    | some L => (agetD (InvWiring.fromWiring L.wiring) c []).filterMap (fun e =>
        (S.resolve fuel lvl e.2.1 e.2.2).map (fun src => (e.1, src)))

def Static.flatInverse (S : Static) (fuel : Nat) : InvWiring :=
  S.devices.map (fun c => (c, S.flatInputs fuel c))

/-- the flat configuration -/
def Static.flatten (S : Static) (fuel : Nat) : Static :=
  { levels := [{ name := "", wiring := Wiring.fromInverse (S.flatInverse fuel) }]
    systems := []
    parent := S.devices.map (fun c => (c, "")) }

/-- per-device observation sequence of a whole-simulation state -/
def SimSt.obsOf (st : SimSt) (c : Comp) : List (SimTime × List (Port × V)) :=
  (st.obs.filter (fun o => o.comp == c)).map (fun o => (o.time, o.inputs))

end Tickit
