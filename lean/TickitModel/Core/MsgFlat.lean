/-
M9 — one scheduler level (a flat simulation) at MESSAGE level, over the state-interface contract.

`Core/TickSys.lean` answers a pending dispatch atomically.  Here the messages are in flight:
per-topic append-only logs, one cursor per (consumer, topic), participants that start
(= subscribe) at any moment and then consume their topic from offset 0 (`Core/Contract.lean`).
Who sends what, from the code:

  core/management/schedulers/base.py
      async def update_component(self, input: Input) -> None:
          await self.state_producer.produce(input_topic(input.target), input)
      async def skip_component(self, skip: Skip) -> None:        # "Sends a message to itself"
          await self.state_producer.produce(output_topic(skip.source), skip)
      async def handle_message(self, message):                   # consumer of every output topic
          if isinstance(message, Output):
              await self.ticker.propagate(message) ...
          elif isinstance(message, Skip):
              await self.ticker.propagate(message)
      async def setup(self) -> None:
          self.ticker = Ticker(self._wiring, self.update_component, self.skip_component)
          self.state_consumer = self._state_consumer_cls(self.handle_message)
          await self.state_consumer.subscribe(
              {output_topic(component) for component in self.ticker.components})
          self.state_producer = self._state_producer_cls()

  core/management/schedulers/master.py
      async def run_forever(self) -> None:
          await self.setup()
          self.running.set()
          await self._do_initial_tick()          # self.ticker(self._initial_time, self.ticker.components)

  core/management/ticker.py   (`Core/Ticker.lean`)
      async def __call__(self, time, update_components):
          await self._start_tick(time, update_components)
          await self.schedule_possible_updates()   # -> update_component(Input) / skip_component(Skip)
          await self.finished.wait()
      async def propagate(self, output: Union[Output, Skip]) -> None:
          assert output.source in self.to_update.keys()
          assert output.time == self.time
          self.to_update.pop(output.source)
          ... route, accumulate inputs ...
          await self.schedule_possible_updates()
          if not self.to_update: self.finished.set()

  core/components/component.py
      async def handle_input(self, message: ComponentInput):     # consumer of input_topic(self.name)
          if isinstance(message, Input):
              await asyncio.gather(self.on_tick(message.time, message.changes), ...)
      async def output(self, time, changes, call_at) -> None:     # called at the end of on_tick
          await self.state_producer.produce(
              output_topic(self.name), Output(self.name, time, changes, call_at))
      async def run_forever(self, state_consumer, state_producer) -> None:
          self.state_producer = state_producer()
          self.state_consumer = state_consumer(self.handle_input)
          await self.state_consumer.subscribe([input_topic(self.name)])

So: an `Input` for `c` travels on `in c` to component `c`, which answers with an `Output` on
`out c`; a `Skip` for `c` is produced BY THE SCHEDULER on `out c` and consumed by the scheduler
itself — the skipped component never sees it.  The scheduler consumes every `out c`.

Within one tick the pre-tick state of every component is fixed and (C01) it is updated at most
once, so what `c` answers to an `Input(time = t', changes = ins)` is a function `rx c t' ins` =
(`Output.changes`, `Output.call_at`); at the tick's time `t` its first component is the `react`
of `TickSys` (`MsgReact.at`).  (`Core/MsgFlatRun.lean` removes this: there the components carry
their state across ticks and `rx` is computed from it.)

      # base.py, handle_message
      if isinstance(message, Output):
          await self.ticker.propagate(message)
          if message.call_at is not None:
              self.add_wakeup(message.source, message.call_at)

Not modelled here: `Interrupt`, `ComponentException`, `StopComponent` messages (C07, C11).
-/
import TickitModel.Core.TickSys
import TickitModel.Core.Sched

set_option autoImplicit false

namespace Tickit

variable {Val : Type}

/-- the two topics of a component (`input_topic(c)`, `output_topic(c)`); distinct components
have distinct topics and no input topic is an output topic (`topic_injective`, C15). -/
inductive MsgTopic where
  | inT (c : Comp)
  | outT (c : Comp)
  deriving Repr, DecidableEq

/-- what travels: the scheduler's `Input` / `Skip` (exactly a `Dispatch`), or a component's
`Output`. -/
inductive BusMsg (Val : Type) where
  | disp (d : Dispatch Val)
  | output (source : Comp) (time : SimTime) (changes : List (Port × Val)) (callAt : Option SimTime)
  deriving Repr

/-- what a component answers to `Input(time, changes)`: (`Output.changes`, `Output.call_at`) -/
abbrev MsgReact (Val : Type) :=
  Comp → SimTime → List (Port × Val) → List (Port × Val) × Option SimTime

/-- the reaction function of `TickSys` for a tick at time `t` -/
def MsgReact.at (rx : MsgReact Val) (t : SimTime) : React Val := fun c ins => (rx c t ins).1

/-- where the scheduler produces a dispatch: `update_component` / `skip_component`. -/
def Dispatch.topic : Dispatch Val → MsgTopic
  | .input c _ _ => .inT c
  | .skip c _ => .outT c

/-- message-level events (ghost history, in the order they happen):
the scheduler produced a dispatch; component `c` handled an `Input` (`on_tick(t, ins)` ran);
the scheduler consumed the `Output`/`Skip` of `c` and propagated it. -/
inductive MsgEv (Val : Type) where
  | dispatch (d : Dispatch Val)
  | react (c : Comp) (t : SimTime) (ins : List (Port × Val))
  | answer (c : Comp) (changes : List (Port × Val))
  deriving Repr

/-- the scheduler-side events are the events of `TickSys`. -/
def MsgEv.toEv : MsgEv Val → Option (Ev Val)
  | .dispatch d => some (.dispatch d)
  | .react _ _ _ => none
  | .answer c ch => some (.answer c ch)

structure MsgSt (Val : Type) where
  /-- per-topic append-only logs -/
  logs : List (MsgTopic × List (BusMsg Val)) := []
  /-- per-topic cursor of the topic's only consumer (component `c` for `in c`, the scheduler
  for `out c`); a consumer that has not subscribed is at offset 0 -/
  cursors : List (MsgTopic × Nat) := []
  /-- the components that have started (subscribed to their input topic) -/
  started : List Comp := []
  /-- the scheduler: `none` = not started (no `setup()` yet), else its ticker -/
  tk : Option (Ticker Val) := none
  /-- the scheduler's `wakeups` dict -/
  wake : Wakeups := []
  /-- ghost: what happened, in order -/
  hist : List (MsgEv Val) := []
  deriving Repr

def MsgSt.log (m : MsgSt Val) (T : MsgTopic) : List (BusMsg Val) := agetD m.logs T []

def MsgSt.cur (m : MsgSt Val) (T : MsgTopic) : Nat := agetD m.cursors T 0

/-- the next message the consumer of `T` would be delivered -/
def MsgSt.next (m : MsgSt Val) (T : MsgTopic) : Option (BusMsg Val) := (m.log T)[m.cur T]?

/-- `produce(T, μ)` -/
def MsgSt.produce (m : MsgSt Val) (T : MsgTopic) (μ : BusMsg Val) : MsgSt Val :=
  { m with logs := upsert m.logs T (m.log T ++ [μ]) }

/-- the consumer of `T` has taken one message -/
def MsgSt.advance (m : MsgSt Val) (T : MsgTopic) : MsgSt Val :=
  { m with cursors := upsert m.cursors T (m.cur T + 1) }

def MsgSt.record (m : MsgSt Val) (e : MsgEv Val) : MsgSt Val :=
  { m with hist := m.hist ++ [e] }

/-- the scheduler's ticker is (re)placed -/
def MsgSt.setTk (m : MsgSt Val) (tk : Ticker Val) : MsgSt Val := { m with tk := some tk }

/-- `if message.call_at is not None: self.add_wakeup(message.source, message.call_at)` -/
def MsgSt.noteWakeup (m : MsgSt Val) (c : Comp) : Option SimTime → MsgSt Val
  | some x => { m with wake := addWakeup m.wake c x }
  | none => m

/-- the scheduler sends one dispatch (`update_component` / `skip_component`) -/
def MsgSt.send (m : MsgSt Val) (d : Dispatch Val) : MsgSt Val :=
  (m.produce d.topic (.disp d)).record (.dispatch d)

def MsgSt.sendAll (m : MsgSt Val) (ds : List (Dispatch Val)) : MsgSt Val :=
  ds.foldl MsgSt.send m

/-- the scheduler-side trace: the events of `TickSys` -/
def MsgSt.trace (m : MsgSt Val) : List (Ev Val) := m.hist.filterMap MsgEv.toEv

inductive MsgAct where
  /-- the scheduler starts: `setup()` then the tick is begun (`Ticker.__call__` up to the wait) -/
  | startSched
  /-- component `c` starts: subscribes to `in c` -/
  | startComp (c : Comp)
  /-- component `c` is delivered the next message of `in c` -/
  | deliverIn (c : Comp)
  /-- the scheduler is delivered the next message of `out c` -/
  | deliverOut (c : Comp)
  deriving Repr, DecidableEq

/-- `handle_message` for an `Output`/`Skip` from `src` read from `out c`: `Ticker.propagate`,
whose `schedule_possible_updates` sends the newly possible dispatches. -/
def MsgSt.absorb (w : Wiring) (m : MsgSt Val) (tk : Ticker Val) (c src : Comp) (t' : SimTime)
    (ch : List (Port × Val)) (callAt : Option SimTime) : Except TickErr (MsgSt Val) :=
  (tk.propagate w src t' ch).map (fun r =>
    ((((m.advance (.outT c)).record (.answer src ch)).setTk r.1).sendAll r.2).noteWakeup src callAt)

/-- one action of the tick at time `t` for `roots`.  `none` = not enabled;
`some (.error e)` = the scheduler fails (`KeyError` / `assert` of the ticker). -/
def MsgSt.step (w : Wiring) (rx : MsgReact Val) (t : SimTime) (roots : List Comp) (m : MsgSt Val) :
    MsgAct → Option (Except TickErr (MsgSt Val))
  | .startSched =>
    match m.tk with
    | some _ => none
    | none => some ((Ticker.call w t roots).map (fun r => (m.setTk r.1).sendAll r.2))
  | .startComp c =>
    if c ∈ m.started then none else some (.ok { m with started := c :: m.started })
  | .deliverIn c =>
    if c ∈ m.started then
      match m.next (.inT c) with
      | none => none
      | some (.disp (.input _ t' ins)) =>
        -- `handle_input` → `on_tick(time, changes)` → `output(time, out_changes, call_at)`
        some (.ok (((m.advance (.inT c)).produce (.outT c)
          (.output c t' (rx c t' ins).1 (rx c t' ins).2)).record (.react c t' ins)))
      | some _ => some (.ok (m.advance (.inT c)))  -- not an `Input`: ignored by `handle_input`
    else none
  | .deliverOut c =>
    match m.tk with
    | none => none
    | some tk =>
      match m.next (.outT c) with
      | none => none
      | some (.output src t' ch ca) => some (m.absorb w tk c src t' ch ca)
      | some (.disp (.skip src t')) => some (m.absorb w tk c src t' [] none)
      | some (.disp (.input _ _ _)) => some (.ok (m.advance (.outT c)))  -- never produced there

/-- run a list of actions (`none` = some action was not enabled or failed) -/
def MsgSt.run (w : Wiring) (rx : MsgReact Val) (t : SimTime) (roots : List Comp) :
    MsgSt Val → List MsgAct → Option (MsgSt Val)
  | m, [] => some m
  | m, a :: as =>
    match m.step w rx t roots a with
    | some (.ok m') => MsgSt.run w rx t roots m' as
    | _ => none

/-- a state between ticks: the scheduler is not in a tick and everything produced so far has
been consumed.  Which components have started is arbitrary. -/
def MsgSt.Idle (m : MsgSt Val) : Prop :=
  m.tk = none ∧ m.hist = [] ∧ ∀ T, m.cur T = (m.log T).length

/-- the message-level states of one tick (time `t`, roots `roots`) begun from `m0`: every
interleaving of deliveries and starts. -/
inductive MsgSt.Reach (w : Wiring) (rx : MsgReact Val) (t : SimTime) (roots : List Comp)
    (m0 : MsgSt Val) : MsgSt Val → Prop
  | init : Reach w rx t roots m0 m0
  | step {m m' : MsgSt Val} {a : MsgAct} : Reach w rx t roots m0 m →
      m.step w rx t roots a = some (.ok m') → Reach w rx t roots m0 m'

/-- the tick is complete: the scheduler has started and nothing is left to update
(`finished` is set). -/
def MsgSt.Complete (m : MsgSt Val) : Prop := ∃ tk, m.tk = some tk ∧ tk.toUpdate = []

/-! ### the abstraction to `TickSys` -/

/-- **the dispatch in flight for component `c`**: an `Input` that `c` has not consumed yet; or
a `Skip` the scheduler has not consumed yet; or the `Input` whose `Output` the scheduler has
not consumed yet (the component has reacted, `propagate` has not been applied). -/
def MsgSt.inflight (m : MsgSt Val) (c : Comp) : Option (Dispatch Val) :=
  match m.next (.inT c) with
  | some (.disp d) => some d
  | some (.output _ _ _ _) => none
  | none =>
    match m.next (.outT c) with
    | some (.disp d) => some d
    | some (.output _ _ _ _) =>
      match (m.log (.inT c)).getLast? with
      | some (.disp d) => some d
      | _ => none
    | none => none

/-- **the abstraction function**: the scheduler's ticker, the dispatches in flight (listed in
the order of `to_update`), the scheduler-side trace.  `none` before the scheduler starts. -/
def MsgSt.abs (m : MsgSt Val) : Option (TickSys Val) :=
  m.tk.map (fun tk => ⟨tk, (akeys tk.toUpdate).filterMap m.inflight, m.trace⟩)

/-- the observations of component `c`: the `(time, changes)` of the `Input`s it handled -/
def reactsOf (c : Comp) (h : List (MsgEv Val)) : List (SimTime × List (Port × Val)) :=
  h.filterMap (fun e => match e with
    | .react c' t ins => if c' = c then some (t, ins) else none
    | _ => none)

end Tickit
