/-
M1 — wiring representations and the event router (`core/management/event_router.py`).
-/
import TickitModel.Core.Basic

namespace Tickit

/-- `Wiring`: out component ↦ out port ↦ set of (in component, in port). -/
abbrev Wiring := List (Comp × List (Port × List CPort))
/-- `InverseWiring`: in component ↦ in port ↦ (out component, out port). -/
abbrev InvWiring := List (Comp × List (Port × CPort))

/-- `wiring[c]` on the defaultdict: creates an empty port map when missing. -/
def Wiring.touch (w : Wiring) (c : Comp) : Wiring := atouch w c []

/-- `wiring[a][p].add((b,q))` -/
def Wiring.add (w : Wiring) (a : Comp) (p : Port) (bq : CPort) : Wiring :=
  let ports := agetD w a []
  let ins := agetD ports p []
  upsert w a (upsert ports p (sinsert ins bq))

/-- `inverse_wiring[c]` touch. -/
def InvWiring.touch (w : InvWiring) (c : Comp) : InvWiring := atouch w c []

/-- `inverse_wiring[b][q] = (a,p)` -/
def InvWiring.set (w : InvWiring) (b : Comp) (q : Port) (ap : CPort) : InvWiring :=
  upsert w b (upsert (agetD w b []) q ap)

/-- `Wiring.from_inverse_wiring` -/
def Wiring.fromInverse (iw : InvWiring) : Wiring :=
  iw.foldl (fun w (ent : Comp × List (Port × CPort)) =>
    ent.2.foldl (fun w (pe : Port × CPort) => w.add pe.2.1 pe.2.2 (ent.1, pe.1)) (w.touch ent.1)) []

/-- `InverseWiring.from_wiring` -/
def InvWiring.fromWiring (w : Wiring) : InvWiring :=
  w.foldl (fun iw (ent : Comp × List (Port × List CPort)) =>
    ent.2.foldl (fun iw (pe : Port × List CPort) =>
      pe.2.foldl (fun iw (bq : CPort) => iw.set bq.1 bq.2 (ent.1, pe.1)) iw) (iw.touch ent.1)) []

/-- `InverseWiring.from_component_configs`: `{config.name: config.inputs}` (a dict
comprehension: later duplicates of a name overwrite). -/
def InvWiring.fromConfigs (cfgs : List (Comp × List (Port × CPort))) : InvWiring :=
  cfgs.foldl (fun iw c => upsert iw c.1 c.2) []

/-- the relational reading of a wiring: output `p` of `a` is wired to input `q` of `b`. -/
def Wiring.Conn (w : Wiring) (a : Comp) (p : Port) (b : Comp) (q : Port) : Prop :=
  ∃ ports ins, alookup w a = some ports ∧ alookup ports p = some ins ∧ (b, q) ∈ ins

def InvWiring.Conn (iw : InvWiring) (a : Comp) (p : Port) (b : Comp) (q : Port) : Prop :=
  ∃ ports, alookup iw b = some ports ∧ alookup ports q = some (a, p)

instance (w : Wiring) (a p b q) : Decidable (w.Conn a p b q) := by
  unfold Wiring.Conn
  cases h : alookup w a with
  | none => exact isFalse (by rintro ⟨_, _, h', _⟩; simp at h')
  | some ports =>
    cases h2 : alookup ports p with
    | none => exact isFalse (by rintro ⟨_, _, h', h'', _⟩; simp at h'; subst h'; simp [h2] at h'')
    | some ins =>
      exact if hm : (b, q) ∈ ins then isTrue ⟨ports, ins, rfl, h2, hm⟩
        else isFalse (by rintro ⟨_, _, h', h'', hm'⟩; simp at h'; subst h'; simp [h2] at h''; subst h''; exact hm hm')

/-! ### EventRouter -/

/-- `output_components`: keys whose port map is non-empty (Python truthiness of the dict). -/
def Wiring.outputComponents (w : Wiring) : List Comp :=
  (w.filter (fun e => !e.2.isEmpty)).map (·.1)

/-- `input_components` -/
def Wiring.inputComponents (w : Wiring) : List Comp :=
  w.foldl (fun acc e => e.2.foldl (fun acc pe => pe.2.foldl (fun acc bq => sinsert acc bq.1) acc) acc) []

/-- `isolated_components` -/
def Wiring.isolatedComponents (w : Wiring) : List Comp :=
  (akeys w).filter (fun c => c ∉ w.inputComponents ∧ c ∉ w.outputComponents)

/-- `components` -/
def Wiring.components (w : Wiring) : List Comp :=
  sunion (sunion w.inputComponents w.outputComponents) w.isolatedComponents

/-- `component_tree[c]` (first-order dependants), for keys of the wiring. -/
def Wiring.children (w : Wiring) (c : Comp) : Option (List Comp) :=
  (alookup w c).map (fun ports => ports.foldl (fun acc pe => pe.2.foldl (fun acc bq => sinsert acc bq.1) acc) [])

def Wiring.componentTree (w : Wiring) : List (Comp × List Comp) :=
  w.map (fun e => (e.1, (w.children e.1).getD []))

/-- `inverse_component_tree`: for every component the set of its first-order upstreams. -/
def Wiring.inverseTree (w : Wiring) : List (Comp × List Comp) :=
  let init : List (Comp × List Comp) := w.components.map (fun c => (c, []))
  w.componentTree.foldl (fun acc e =>
    e.2.foldl (fun acc dep => upsert acc dep (sinsert (agetD acc dep []) e.1)) acc) init

/-- first-order upstreams of `c`; `none` is Python's `KeyError`. -/
def Wiring.ups (w : Wiring) (c : Comp) : Option (List Comp) := alookup w.inverseTree c

/-- the BFS loop of `dependants`, with explicit fuel. -/
def bfs (children : Comp → Option (List Comp)) : Nat → List Comp → List Comp → List Comp
  | 0, _, vis => vis
  | _ + 1, [], vis => vis
  | fuel + 1, d :: q, vis =>
    if d ∈ vis then bfs children fuel q vis
    else
      let vis' := vis ++ [d]
      match children d with
      | some ch => bfs children fuel (q ++ ch.filter (· ∉ vis')) vis'
      | none => bfs children fuel q vis'

/-- number of (component, child) pairs plus slack: enough fuel for `bfs` from one root. -/
def Wiring.bfsFuel (w : Wiring) : Nat :=
  let n := (akeys w).length + w.inputComponents.length + 1
  n * (n + 1) + 2

/-- `EventRouter.dependants(root)` -/
def Wiring.dependants (w : Wiring) (root : Comp) : List Comp :=
  bfs w.children w.bfsFuel [root] []

/-- `EventRouter.route(source, changes)`: for every changed output port, every wired input. -/
def Wiring.route {Val : Type} (w : Wiring) (src : Comp) (changes : List (Port × Val)) :
    List (Comp × List (Port × Val)) :=
  changes.foldl (fun routed (pv : Port × Val) =>
    (agetD (agetD w src []) pv.1 []).foldl (fun routed (bq : CPort) =>
      upsert routed bq.1 (upsert (agetD routed bq.1 []) bq.2 pv.2)) routed) []

/-- an edge of the first-order tree. -/
def Wiring.Edge (w : Wiring) (a b : Comp) : Prop := ∃ p q, w.Conn a p b q

end Tickit
