/-
The master scheduler's run loop WITH its resources (`schedulers/master.py`): the asynchronous
tasks and the timer which `_do_tick` creates for the race between the sleep and the
`new_wakeup` event, the entries of `wakeups` and of `_pending_interrupts`.

    async def _do_tick(self):
        while not self.wakeups:
            self.new_wakeup.clear()
            await self.new_wakeup.wait()
        components, when = self.get_first_wakeups()
        assert when is not None
        self.new_wakeup.clear()

        new = asyncio.create_task(self.new_wakeup.wait())                     # +1 task
        current = asyncio.create_task(asyncio.sleep(self.sleep_time(when)))   # +1 task, +1 timer
        which, _ = await asyncio.wait([current, new], return_when=FIRST_COMPLETED)

        if new in which:
            current.cancel()        # commit 8a9136c; before it: `return` only — the sleeping
            return                  # task and its timer stayed until the sleep expired
        new.cancel()                # commit 8a9136c; before it the waiter stayed until the
                                    # next `new_wakeup.set()`
        components, when = self.get_first_wakeups()
        for component in components:
            del self.wakeups[component]
            self._pending_interrupts.pop(component, None)
        ...
        await self.ticker(when, {component for component in components})

    def add_wakeup(self, component, when):
        ...
        super().add_wakeup(component, when)        # self.wakeups[component] = when
        self.new_wakeup.set()                      # wakes EVERY task waiting on the event

    async def schedule_interrupt(self, source):
        ...
        self._pending_interrupts.setdefault(source, when)
        self.add_wakeup(source, when)

The control state is `MLoopSt` of `Core/MasterLoop.lean` and every step below performs
exactly `MLoopSt.step true` (the repaired flag protocol) on it; the other fields are ghost
counters which are incremented where the code creates a task / a timer and decremented where
the task finishes, the timer fires, or `cancel()` is called.  `cancelLoser = true` is the code
as it is now, `cancelLoser = false` the code before commit 8a9136c (the loser is abandoned).

Conventions: a task is *live* from `create_task` until it finishes or is cancelled; a timer is
*pending* from `asyncio.sleep(d)` until it fires or the sleeping task is cancelled (`sleep`
cancels its timer handle in its `finally`).  `asyncio.sleep(d)` with `d ≤ 0` creates no timer;
the model counts one for every sleep (an upper bound).
-/
import TickitModel.Core.MasterLoop

namespace Tickit

structure MResSt where
  /-- the control state and `self.wakeups` -/
  st : MLoopSt := {}
  /-- live `new` task of the race in progress -/
  raceNew : Nat := 0
  /-- live `current` task of the race in progress -/
  raceCur : Nat := 0
  /-- pending timer of the `asyncio.sleep` of the race in progress -/
  raceTimer : Nat := 0
  /-- live `new` tasks of earlier races which lost and were not cancelled -/
  orphanNew : Nat := 0
  /-- live `current` tasks of earlier races which lost and were not cancelled -/
  orphanCur : Nat := 0
  /-- the pending timers of the abandoned `current` tasks -/
  orphanTimer : Nat := 0
  /-- keys of `self._pending_interrupts` -/
  irq : List Comp := []
  /-- ghost: the distinct components for which `add_wakeup` has ever been called -/
  everAdded : List Comp := []
  deriving Repr, DecidableEq

/-- live tasks created by the run loop -/
def MResSt.tasks (s : MResSt) : Nat := s.raceNew + s.raceCur + s.orphanNew + s.orphanCur

/-- pending timers created by the run loop -/
def MResSt.timers (s : MResSt) : Nat := s.raceTimer + s.orphanTimer

/-- per-component bookkeeping entries: `len(wakeups) + len(_pending_interrupts)` -/
def MResSt.entries (s : MResSt) : Nat := s.st.wake.length + s.irq.length

inductive MResAct
  /-- an action of the flag protocol -/
  | loop (a : MLoopAct)
  /-- `schedule_interrupt(c)`: `_pending_interrupts.setdefault(c, t); add_wakeup(c, t)` -/
  | interrupt (c : Comp) (t : SimTime)
  /-- the timer of an abandoned sleep fires: the abandoned task finishes -/
  | orphanSleepExpires
  deriving Repr, DecidableEq

/-- what an action is for the flag protocol; `none` = invisible (no step of `MLoopSt`) -/
def MResAct.erase : MResAct → Option MLoopAct
  | .loop a => some a
  | .interrupt c t => some (.addWakeup c t)
  | .orphanSleepExpires => none

/-- `add_wakeup(c, t)`: the dict entry, `set()` — which releases every abandoned waiter. -/
def MResSt.addWakeup (s : MResSt) (c : Comp) (t : SimTime) : MResSt :=
  { s with st := { s.st with wake := Tickit.addWakeup s.st.wake c t, flag := true }
           orphanNew := 0
           everAdded := sinsert s.everAdded c }

/-- `get_first_wakeups(); assert; clear(); new = create_task(..); current = create_task(..)` -/
def MResSt.choose (s : MResSt) : MResSt :=
  match firstWakeups s.st.wake with
  | (_, some _) =>
    { s with st := s.st.choose, raceNew := s.raceNew + 1, raceCur := s.raceCur + 1,
             raceTimer := s.raceTimer + 1 }
  | (_, none) => { s with st := s.st.choose }

/-- the task `current` lost (only `new` completed): `current.cancel()` or nothing -/
def MResSt.loseCurrent (cancelLoser : Bool) (s : MResSt) : MResSt :=
  if cancelLoser then { s with raceCur := s.raceCur - 1, raceTimer := s.raceTimer - 1 }
  else { s with raceCur := s.raceCur - 1, raceTimer := s.raceTimer - 1,
                orphanCur := s.orphanCur + 1, orphanTimer := s.orphanTimer + 1 }

/-- the task `new` lost: `new.cancel()` or nothing.  (In the window in which the flag is set
but `new` has not run yet, an abandoned `new` is already woken and finishes by itself.) -/
def MResSt.loseNew (cancelLoser : Bool) (s : MResSt) : MResSt :=
  if cancelLoser || s.st.flag then { s with raceNew := s.raceNew - 1 }
  else { s with raceNew := s.raceNew - 1, orphanNew := s.orphanNew + 1 }

/-- `for component in components: del self.wakeups[component];
    self._pending_interrupts.pop(component, None)` for the re-evaluated first wakeups -/
def MResSt.serveFirst (s : MResSt) : MResSt :=
  match firstWakeups s.st.wake with
  | (cs, some _) => { s with st := s.st.serveFirst, irq := s.irq.filter (fun c => c ∉ cs) }
  | (_, none) => { s with st := s.st.serveFirst }

/-- one transition; `none` = the action is not enabled. -/
def MResSt.step (cancelLoser : Bool) (s : MResSt) : MResAct → Option MResSt
  | .loop (.addWakeup c t) =>
    if s.st.pc = .dead then none else some (s.addWakeup c t)
  | .interrupt c t =>
    if s.st.pc = .dead then none
    else some { s.addWakeup c t with irq := sinsert s.irq c }
  | .loop .newTaskRuns =>
    if s.st.pc.isRacing && s.st.flag then
      -- the task `new` finishes the first time it runs with the flag set
      some { s with st := { s.st with flagTaskDone := true }
                    raceNew := if s.st.flagTaskDone then s.raceNew else s.raceNew - 1 }
    else none
  | .loop .sleepExpires =>
    match s.st.pc with
    | .sleeping cs w =>
      -- the timer fires, the task `current` finishes
      some { s with st := { s.st with pc := .sleptNotResumed cs w }
                    raceCur := s.raceCur - 1, raceTimer := s.raceTimer - 1 }
    | _ => none
  | .loop .step =>
    match s.st.pc with
    | .top =>
      if s.st.wake = [] then some { s with st := { s.st with flag := false, pc := .waiting } }
      else some s.choose
    | .waiting =>
      if s.st.flag then some { s with st := { s.st with pc := .top } } else none
    | .sleeping _ _ =>
      -- `if new in which: current.cancel(); return`
      if s.st.flagTaskDone then
        some (MResSt.loseCurrent cancelLoser { s with st := { s.st with pc := .top } })
      else none
    | .sleptNotResumed _ _ =>
      if s.st.flagTaskDone then
        -- both finished: `current.cancel()` on a finished task does nothing
        some { s with st := { s.st with pc := .top } }
      else
        -- `new.cancel()`, then the deletion loop and the tick
        some (MResSt.loseNew cancelLoser s).serveFirst
    | .ticking _ _ => some { s with st := { s.st with pc := .top } }
    | .dead => none
  | .orphanSleepExpires =>
    if 0 < s.orphanCur then
      some { s with orphanCur := s.orphanCur - 1, orphanTimer := s.orphanTimer - 1 }
    else none

/-- a history; actions that are not enabled are skipped. -/
def MResSt.run (cancelLoser : Bool) (s : MResSt) : List MResAct → MResSt
  | [] => s
  | a :: as => match s.step cancelLoser a with
    | some s' => MResSt.run cancelLoser s' as
    | none => MResSt.run cancelLoser s as

/-- the set of components named by the `add_wakeup` / `schedule_interrupt` calls of a history -/
def addedComps : List MResAct → List Comp
  | [] => []
  | .loop (.addWakeup c _) :: as => sinsert (addedComps as) c
  | .interrupt c _ :: as => sinsert (addedComps as) c
  | _ :: as => addedComps as

/-- one pre-emption of a far sleep by an interrupt, from `top` to `top`: the loop starts to
sleep for the far callback of `far`; an interrupt of `dev` arrives; the waiter runs; `_do_tick`
returns (`current` is the loser); the next `_do_tick` sleeps for the interrupt, the sleep
expires, the tick for `dev` runs and ends. -/
def preemptRound (dev : Comp) (t : SimTime) : List MResAct :=
  [ .loop .step, .interrupt dev t, .loop .newTaskRuns, .loop .step,
    .loop .step, .loop .sleepExpires, .loop .step, .loop .step ]

/-- a far callback of `far` at `T`, then `n` interrupts of `dev` stamped `t`. -/
def preemptHistory (far dev : Comp) (T t : SimTime) (n : Nat) : List MResAct :=
  .loop (.addWakeup far T) :: (List.replicate n (preemptRound dev t)).flatten

end Tickit
