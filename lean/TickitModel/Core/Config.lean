/-
M9d — configuration dispatch (`utils/configuration/tagged_union.py`, `loading.py`,
`core/simulation.py`): entries are dispatched by type tag over a registry of classes.
pydantic and PyYAML are parameters of this model (see trusted base).
-/
import TickitModel.Core.Router

namespace Tickit

structure ClassSig where
  tag : String
  fields : List String      -- required field names (beyond name/inputs)
  deriving Repr, DecidableEq

inductive Entry where
  | mk (tag : String) (name : Comp) (inputs : List (Port × CPort)) (fields : List (String × Int))
       (children : List Entry)
  deriving Repr

def Entry.tag : Entry → String | .mk t _ _ _ _ => t
def Entry.name : Entry → Comp | .mk _ n _ _ _ => n
def Entry.inputs : Entry → List (Port × CPort) | .mk _ _ i _ _ => i
def Entry.fields : Entry → List (String × Int) | .mk _ _ _ f _ => f
def Entry.children : Entry → List Entry | .mk _ _ _ _ c => c

/-- the class chosen for an entry: the registered class whose tag equals the entry's
`type`; `none` = rejected (unknown tag). -/
def dispatch (registry : List ClassSig) (tag : String) : Option ClassSig :=
  registry.find? (fun c => c.tag == tag)

/-- field check of the chosen class: exactly the declared fields are given. -/
def fieldsOk (c : ClassSig) (e : Entry) : Bool :=
  c.fields.all (fun f => (alookup e.fields f).isSome) && e.fields.all (fun kv => kv.1 ∈ c.fields)

/-- `build_simulation` component selection: `none` = ValueError. -/
def selectComponents (available : List Comp) (requested : Option (List Comp)) : Option (List Comp) :=
  match requested with
  | none => some available
  | some req => if req.all (· ∈ available) then some (available.filter (· ∈ req)) else none

end Tickit
