/-
The master scheduler's run loop as a flag protocol (`schedulers/master.py`, `_do_tick` and
`add_wakeup`): the `new_wakeup` event, the race between the sleep and the event, and the
window between the expiry of the sleep and the resumption of `_do_tick` (defect F16).

    async def _do_tick(self):                       # while not error: await self._do_tick()
        while not self.wakeups:                     # OLD: `if not self.wakeups:` and no clear
            self.new_wakeup.clear()
            await self.new_wakeup.wait()
        components, when = self.get_first_wakeups()
        assert when is not None
        self.new_wakeup.clear()
        new = create_task(self.new_wakeup.wait()); current = create_task(sleep(...))
        which, _ = await asyncio.wait([current, new], return_when=FIRST_COMPLETED)
        if new in which: current.cancel(); return
        new.cancel()
        components, when = self.get_first_wakeups() # NEW (second repair): re-evaluated — a wakeup
        assert when is not None                     # may have been added while the sleep expired
        for c in components: del self.wakeups[c]
        await self.ticker(when, components)

    def add_wakeup(self, component, when):          # at ANY moment
        self.wakeups[component] = when'
        self.new_wakeup.set()

This file is self-contained (it is not part of the driver's model); the parameter
`fixed : Bool` of `MLoopSt.step` selects the repaired (`true`) or the original (`false`) loop.
-/
import TickitModel.Core.Sched

namespace Tickit

/-- where the coroutine `_do_tick` stands. -/
inductive MLoopPc
  /-- about to evaluate `while not self.wakeups` -/
  | top
  /-- inside `await self.new_wakeup.wait()` of the while loop -/
  | waiting
  /-- after `get_first_wakeups` and `clear`: the sleep races against the flag -/
  | sleeping (cs : List Comp) (w : SimTime)
  /-- the sleep has expired, `asyncio.wait` has not resumed `_do_tick` yet (the window) -/
  | sleptNotResumed (cs : List Comp) (w : SimTime)
  /-- inside `await self.ticker(when, components)` -/
  | ticking (cs : List Comp) (w : SimTime)
  /-- `assert when is not None` failed: the scheduler is gone -/
  | dead
  deriving Repr, DecidableEq

/-- the components chosen by `get_first_wakeups` and not served yet. -/
def MLoopPc.chosen : MLoopPc → List Comp
  | .sleeping cs _ => cs
  | .sleptNotResumed cs _ => cs
  | _ => []

/-- the tasks `current` and `new` exist. -/
def MLoopPc.isRacing : MLoopPc → Bool
  | .sleeping _ _ => true
  | .sleptNotResumed _ _ => true
  | _ => false

structure MLoopSt where
  /-- `self.wakeups` -/
  wake : Wakeups := []
  /-- `self.new_wakeup.is_set()` -/
  flag : Bool := false
  pc : MLoopPc := .top
  /-- the task `new` has observed the flag (one loop iteration after `set()`) -/
  flagTaskDone : Bool := false
  deriving Repr, DecidableEq

inductive MLoopAct
  /-- environment: `add_wakeup` (an interrupt, or an answer carrying `call_at`) -/
  | addWakeup (c : Comp) (t : SimTime)
  /-- the event loop runs the task `new`: it completes iff the flag is set -/
  | newTaskRuns
  /-- the sleep expires (at any time: it may be `sleep(0)`) -/
  | sleepExpires
  /-- the next move of `_do_tick` itself -/
  | step
  deriving Repr, DecidableEq

/-- `components, when = self.get_first_wakeups(); assert when is not None;
    self.new_wakeup.clear(); new = ...; current = ...` -/
def MLoopSt.choose (s : MLoopSt) : MLoopSt :=
  match firstWakeups s.wake with
  | (cs, some w) => { s with flag := false, flagTaskDone := false, pc := .sleeping cs w }
  | (_, none) => { s with pc := .dead }

/-- the second repair: `components, when = self.get_first_wakeups()` re-evaluated right before
the deletion loop and the tick ("serve what is first now"); the flag is NOT cleared. -/
def MLoopSt.serveFirst (s : MLoopSt) : MLoopSt :=
  match firstWakeups s.wake with
  | (cs, some w) => { s with wake := delWakeups s.wake cs, pc := .ticking cs w }
  | (_, none) => { s with pc := .dead }

/-- one transition; `none` = the action is not enabled.  `fixed = true`: the repaired loop,
`fixed = false`: the original one. -/
def MLoopSt.step (fixed : Bool) (s : MLoopSt) : MLoopAct → Option MLoopSt
  | .addWakeup c t =>
    if s.pc = .dead then none
    else some { s with wake := addWakeup s.wake c t, flag := true }
  | .newTaskRuns =>
    if s.pc.isRacing && s.flag then some { s with flagTaskDone := true } else none
  | .sleepExpires =>
    match s.pc with
    | .sleeping cs w => some { s with pc := .sleptNotResumed cs w }
    | _ => none
  | .step =>
    match s.pc with
    | .top =>
      if s.wake = [] then
        -- NEW: `self.new_wakeup.clear()` before waiting; OLD: no clear
        some (if fixed then { s with flag := false, pc := .waiting } else { s with pc := .waiting })
      else some s.choose
    | .waiting =>
      if s.flag then
        -- NEW: `while` re-evaluates the condition; OLD: `if` falls through
        some (if fixed then { s with pc := .top } else s.choose)
      else none
    | .sleeping _ _ =>
      -- only `new` completed: `if new in which: current.cancel(); return`
      if s.flagTaskDone then some { s with pc := .top } else none
    | .sleptNotResumed cs w =>
      if s.flagTaskDone then some { s with pc := .top }
      else
        -- `new.cancel(); for c in components: del self.wakeups[c]` — the flag is NOT cleared.
        -- NEW: the first wakeups are re-evaluated; OLD: the stale `components` are served
        some (if fixed then s.serveFirst
              else { s with wake := delWakeups s.wake cs, pc := .ticking cs w })
    | .ticking _ _ => some { s with pc := .top }
    | .dead => none

/-- a history; actions that are not enabled are skipped. -/
def MLoopSt.run (fixed : Bool) (s : MLoopSt) : List MLoopAct → MLoopSt
  | [] => s
  | a :: as => match s.step fixed a with
    | some s' => MLoopSt.run fixed s' as
    | none => MLoopSt.run fixed s as

/-- the history of defect F16: an interrupt for the component being served arrives between
the expiry of the sleep and the resumption of `_do_tick`. -/
def f16History : List MLoopAct :=
  [ .addWakeup "X" 10   -- a callback of X
  , .step               -- top → sleeping [X] 10
  , .sleepExpires
  , .addWakeup "X" 10   -- the interrupt in the window: flag set, `new` has not run
  , .step               -- the stale tick goes ahead and deletes X's entry
  , .step               -- the tick ends
  , .step               -- top, no wakeup: → waiting (OLD: the flag stays set)
  , .step ]             -- waiting: OLD falls through to the assertion

/-- a wakeup for ANOTHER component with the same time arrives in the window: the original
loop serves the stale set. -/
def staleSetHistory : List MLoopAct :=
  [ .addWakeup "X" 10, .step, .sleepExpires, .addWakeup "Y" 10 ]

end Tickit
