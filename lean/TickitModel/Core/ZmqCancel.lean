/-
M9c+ — ZeroMQ push stream WITH TASK CANCELLATION (`adapters/io/zeromq_push_io.py`).

`Core/Zmq.lean` models the push io as a transition system with explicit yield points and a
FIFO lock, but every task runs to completion.  In asyncio every task that is suspended can be
cancelled (`asyncio.wait_for(io.send_message(m), timeout)` expiring, `task.cancel()`, `setup`
being cancelled).  This file extends the system by one action, `cancel k`.

The code (unchanged from `Core/Zmq.lean`):

    async def send_message(self, message):
        socket = await self._ensure_socket()          # suspension: lock queue / factory
        serialized = self._serialize(message)
        socket.write(serialized)
        await socket.drain()                          # suspension: drain

    async def _ensure_socket(self):
        async with self._socket_lock:                 # asyncio.Lock (FIFO)
            if self._socket is None:
                self._socket = await self._socket_factory(self._host, self._port)
        return self._socket

    async def send_messages_forever(self, adapter):   # sender 0
        while True:
            message = await adapter.next_message()    # suspension: queue.get()
            await self.send_message(message)

    async def setup(self, adapter, raise_interrupt):  # the `ensure` sender
        try:
            await self._ensure_socket()
            self._task = asyncio.create_task(self.send_messages_forever(adapter))
        except asyncio.CancelledError:
            await self.shutdown()

and what `asyncio.Lock` does on cancellation (CPython 3.11 and 3.12 `asyncio/locks.py`, identical;
the project venv runs 3.12.1):

    async def acquire(self):
        if (not self._locked and (self._waiters is None or
                all(w.cancelled() for w in self._waiters))):
            self._locked = True
            return True
        ...
        fut = self._get_loop().create_future()
        self._waiters.append(fut)
        try:
            try:
                await fut
            finally:
                self._waiters.remove(fut)             # a cancelled waiter LEAVES THE QUEUE
        except exceptions.CancelledError:
            if not self._locked:
                self._wake_up_first()                 # ... and passes the wake-up on
            raise
        self._locked = True
        return True

    async def __aexit__(self, exc_type, exc, tb):     # also runs when the body raised
        self.release()                                # CancelledError: the HOLDER RELEASES

What `cancel k` does, by the place where task `k` is suspended (`Zmq.cancelSender`):

 * `idle`      (sender 0 inside `queue.get()`, a sequence task not yet started): the task ends;
               `asyncio.Queue.get` leaves the queue content untouched.
 * `wantLock`  (inside `acquire()`, or about to call it): the task leaves the lock queue
               (`self._waiters.remove(fut)`); the message it had taken (`cur`) is never written.
               The wake-up is "passed on" automatically: in `Core/Zmq.lean` being woken is not a
               stored flag, the HEAD of `waiters` may take a free lock.
 * `inFactory` (holds the lock, inside `await self._socket_factory(..)`): the `CancelledError`
               is raised at the `await`, the assignment `self._socket = ...` is NOT executed
               (`_socket` stays `None`), `__aexit__` releases the lock; the call is counted in
               `aborted`.
 * `ready` / `draining`: the task ends (`ready` is not a real suspension point in the code;
               allowing it only adds histories, so the theorems get stronger).

A task whose coroutine has returned (`Sender.finished`) cannot be cancelled (`Task.cancel()`
returns `False`), a cancelled task cannot be cancelled again, and a cancelled task never moves
again (`step k` is disabled).  The record of a cancelled sender is frozen, so what it had
written / taken / still to do stays visible.

Atomicity: in asyncio `task.cancel()` only REQUESTS the cancellation, the `CancelledError` is
delivered when the task is next scheduled.  `cancel k` here is the linearisation point: the
moment of delivery or, if earlier, the moment another task calling `acquire()` skips the
waiter because its future `w.cancelled()` (the `all(w.cancelled() ...)` test above).  Between
request and that point the task is suspended and behaves like a non-cancelled waiter, which
the model covers by scheduling `cancel k` later.

Ghost counters: `base.factoryCalls` = factory calls STARTED, `completed` = factory calls that
returned a socket, i.e. executions of the assignment `self._socket = <new socket>`,
`aborted` = factory calls ended by a `CancelledError`.

Not modelled: `shutdown()` closing the stored socket (the socket object stays in `_socket`),
a factory that swallows `CancelledError`, exceptions other than `CancelledError`.
-/
import TickitModel.Core.Zmq

namespace Tickit

/-- the coroutine of task `i` has returned (a sequence task with nothing left to do, the
`_ensure_socket` of `setup` after it returned).  Sender 0 (`while True`) never returns. -/
def Sender.finished (i : Nat) (s : Sender) : Bool :=
  i != 0 && s.pc == .idle && s.todo.isEmpty

structure ZmqC where
  base : Zmq := Zmq.init
  /-- tasks ended by `cancel` -/
  cancelled : List Nat := []
  /-- ghost: factory calls that returned (= assignments `self._socket = <new socket>`) -/
  completed : Nat := 0
  /-- ghost: factory calls ended by a `CancelledError` -/
  aborted : Nat := 0
  deriving Repr

inductive ZCAct where
  | base (a : ZAct)                 -- an action of `Core/Zmq.lean`
  | cancel (k : Nat)                -- a `CancelledError` is delivered to task `k`
  deriving Repr

/-- effect of a `CancelledError` delivered to task `k` on the shared state; the flag says
whether a factory call was aborted.  `none` = not enabled (no such task / already returned). -/
def Zmq.cancelSender (z : Zmq) (k : Nat) : Option (Zmq × Bool) :=
  match z.senders[k]? with
  | none => none
  | some s =>
    if s.finished k then none
    else match s.pc with
      | .wantLock => some ({ z with waiters := z.waiters.filter (· != k) }, false)
      | .inFactory => some ({ z with lockHeld := none }, true)
      | .idle | .ready | .draining => some (z, false)

/-- `true` iff the next move of sender `i` is the return of the socket factory -/
def Zmq.inFactory (z : Zmq) (i : Nat) : Bool :=
  match z.senders[i]? with
  | some s => s.pc == .inFactory
  | none => false

def ZmqC.act (z : ZmqC) : ZCAct → Option ZmqC
  | .base (.step i) =>
    if i ∈ z.cancelled then none
    else match z.base.stepSender i with
      | none => none
      | some b => some { z with base := b,
                                completed := z.completed + (if z.base.inFactory i then 1 else 0) }
  | .base a =>
    match z.base.act a with
    | none => none
    | some b => some { z with base := b }
  | .cancel k =>
    if k ∈ z.cancelled then none
    else match z.base.cancelSender k with
      | none => none
      | some (b, ab) => some { z with base := b, cancelled := k :: z.cancelled,
                                      aborted := z.aborted + (if ab then 1 else 0) }

def ZmqC.init : ZmqC := {}

/-- histories: actions that are not enabled are skipped (as in `Zmq.run`). -/
def ZmqC.run (z : ZmqC) : List ZCAct → ZmqC
  | [] => z
  | a :: as => match z.act a with
    | some z' => ZmqC.run z' as
    | none => ZmqC.run z as

/-- strict execution: `none` as soon as one action is not enabled. -/
def ZmqC.exec (z : ZmqC) : List ZCAct → Option ZmqC
  | [] => some z
  | a :: as => match z.act a with
    | some z' => ZmqC.exec z' as
    | none => none

/-- a schedule: the listed senders move one after the other; nothing else happens. -/
def zsteps (is : List Nat) : List ZCAct := is.map (fun i => .base (.step i))

def ZCAct.isCancel : ZCAct → Bool
  | .cancel _ => true
  | .base _ => false

/-- forget the cancel actions -/
def eraseCancel : List ZCAct → List ZAct
  | [] => []
  | .base a :: as => a :: eraseCancel as
  | .cancel _ :: as => eraseCancel as

end Tickit
