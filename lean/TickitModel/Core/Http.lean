/-
M9c — the HTTP adapter path (`adapters/http.py`, `adapters/specifications/http_endpoint.py`,
`adapters/io/http_io.py`).

```python
# adapters/specifications/http_endpoint.py
@dataclass(frozen=True)
class HttpEndpoint(Generic[AnyStr]):
    path: str
    method: str
    interrupt: bool = False
    func: Optional[Callable[[web.Request], web.Response]] = None
    def __call__(self, func):                     # decorator: marks the adapter method
        setattr(func, "__endpoint__", self); return func
    def define(self, func) -> RouteDef:
        return RouteDef(self.method, self.path, func, {})
    @classmethod
    def get(cls, url, interrupt=False):  return cls(url, "GET", interrupt)
    def put(cls, url, interrupt=False):  return cls(url, "PUT", interrupt)
    def post(cls, url, interrupt=False): return cls(url, "POST", interrupt)

# adapters/http.py
class HttpAdapter:
    def get_endpoints(self) -> Iterable[Tuple[HttpEndpoint, Callable]]:
        for _, func in getmembers(self):                      # sorted by member name
            endpoint = getattr(func, "__endpoint__", None)
            if endpoint is not None and isinstance(endpoint, HttpEndpoint):
                yield endpoint, func

# adapters/io/http_io.py
    async def _start_server(self, endpoints, raise_interrupt):
        self.app = web.Application()
        definitions = self.create_route_definitions(endpoints, raise_interrupt)
        self.app.add_routes(list(definitions))
        ...
    def create_route_definitions(self, endpoints, raise_interrupt) -> Iterable[RouteDef]:
        for endpoint, func in endpoints:
            if endpoint.interrupt:
                func = _with_posthoc_task(func, raise_interrupt)
            yield endpoint.define(func)

def _with_posthoc_task(func, afterwards):
    async def wrapped(request: web.Request) -> web.Response:
        response = await func(request)
        await afterwards()
        return response
    return wrapped
```

What is modelled: the endpoint table, discovery order (`getmembers` = sorted by member name),
`create_route_definitions` (one callable PER endpoint: the endpoint's own bound method, wrapped by
`_with_posthoc_task` iff the endpoint is declared interrupting), the events of one call of such a
callable (`effect`, then `interrupt`, then the response is handed back) and the selection of the
route for a request.

What is a parameter: aiohttp.  tickit hands a list of `RouteDef(method, path, handler)` to
`web.Application.add_routes`; which route serves a request is decided by aiohttp's `UrlDispatcher`.
The model is restricted to SIMPLE templates: `/seg/seg/...` where every segment is either a literal
or a whole `{name}` (aiohttp: `{name}` ≙ `[^{}/]+`; no `{name:regex}`, no partial-segment variables,
no percent-escapes, no `*` method).  For those, two resolvers are given:

* `resolveFirst` — the first registered route that matches method and path (the
  "routes are tried in registration order" rule; a linear search as in older aiohttp releases).
* `resolveIndexed` — what the installed aiohttp (3.14.3, `UrlDispatcher.resolve` with its
  `_resource_index`) does: resources are indexed by the literal prefix of their template; the URL is
  walked from the full path towards `/` and, at each prefix, the resources indexed there are tried
  in registration order.  So a MORE SPECIFIC template (longer literal prefix) wins over an earlier
  registered, less specific one (`/a/{x}` registered before `/a/b`: `GET /a/b` is served by `/a/b`).
  Observed on the installed aiohttp with `UrlDispatcher.resolve` + `make_mocked_request`.

Both agree whenever overlapping routes are registered most specific first (`specificityOrdered`), in
particular when at most one registered route matches any request (`Props/C18Http`), and every
statement about the event trace is proved for ANY resolver that only returns a registered route
accepting the request (`Resolver.Sound`), so aiohttp stays a parameter.

Further aiohttp facts built in: a `RouteDef` whose method is `"GET"` is registered through `add_get`,
which also adds a `HEAD` route to the same handler (`RouteDef.serves`); a request whose path matches a
registered template but under no registered method is answered 405, any other unmatched request 404;
registration itself fails (the server does not start) when a template repeats a variable name or when
a method is registered twice on one resource (`startsOk`; consecutive route definitions with the same
path string share a resource).
-/
import TickitModel.Core.Basic

namespace Tickit
namespace Http

abbrev Method := String
/-- identity of the adapter method (`func`) that `getmembers` paired with an endpoint -/
abbrev HandlerId := Nat

/-- one `/`-separated segment of a path template -/
inductive Seg where
  | lit (s : String)
  | var (name : String)
  deriving Repr, DecidableEq

/-- a request path `/s1/s2/.../sn` is the list `[s1, …, sn]`; `/` is `[]`
(`/a/` is `["a", ""]`).  Segments never contain `/`. -/
abbrev Path := List String

/-- `request.match_info`: the captured `{name}` segments, in template order -/
abbrev Args := List (String × String)

/-- aiohttp's `DynamicResource.GOOD = r"[^{}/]+"` -/
def segOk (s : String) : Bool :=
  !s.toList.isEmpty && s.toList.all (fun c => c != '{' && c != '}' && c != '/')

/-- `PlainResource._match` / `DynamicResource._match` (`pattern.fullmatch(path)`) for a simple
template: the captured variables when the WHOLE path matches. -/
def matchPath : List Seg → Path → Option Args
  | [], [] => some []
  | .lit l :: t, s :: p => if l = s then matchPath t p else none
  | .var n :: t, s :: p => if segOk s then (matchPath t p).map ((n, s) :: ·) else none
  | [], _ :: _ => none
  | _ :: _, [] => none

/-- `HttpEndpoint` together with the method `getmembers` found it on. -/
structure Endpoint where
  path : List Seg
  method : Method
  interrupt : Bool := false
  handler : HandlerId
  deriving Repr, DecidableEq

/-- what the outside can see of one HTTP request -/
inductive Event where
  /-- adapter method `h` ran (once) with `request.match_info = args` -/
  | effect (h : HandlerId) (args : Args)
  /-- `raise_interrupt()` awaited -/
  | interrupt
  /-- the response returned by adapter method `h` is sent -/
  | reply (h : HandlerId)
  /-- no handler ran; aiohttp answers with this status (404 / 405) -/
  | error (status : Nat)
  deriving Repr, DecidableEq

/-- the callable stored in a `RouteDef` -/
inductive Wrapped where
  /-- the adapter's bound method itself -/
  | bound (h : HandlerId)
  /-- `_with_posthoc_task(inner, raise_interrupt)` -/
  | posthoc (inner : Wrapped)
  deriving Repr, DecidableEq

/-- `await w(request)`: the events it causes, and whose response it returns.
`wrapped`: `response = await func(request); await afterwards(); return response`. -/
def Wrapped.call : Wrapped → Args → List Event × HandlerId
  | .bound h, a => ([.effect h a], h)
  | .posthoc inner, a => ((inner.call a).1 ++ [.interrupt], (inner.call a).2)

/-- the adapter method a callable ends up invoking -/
def Wrapped.target : Wrapped → HandlerId
  | .bound h => h
  | .posthoc inner => inner.target

/-- aiohttp's `RouteDef(method, path, handler, {})` -/
structure RouteDef where
  method : Method
  path : List Seg
  handler : Wrapped
  deriving Repr, DecidableEq

/-- the `func` that `create_route_definitions` passes to `endpoint.define` -/
def Endpoint.wrapped (e : Endpoint) : Wrapped :=
  if e.interrupt then .posthoc (.bound e.handler) else .bound e.handler

/-- `endpoint.define(func)` -/
def Endpoint.define (e : Endpoint) : RouteDef := ⟨e.method, e.path, e.wrapped⟩

/-- `HttpIo.create_route_definitions`: one route definition per endpoint, in order. -/
def createRouteDefinitions (eps : List Endpoint) : List RouteDef := eps.map Endpoint.define

/-- does a route registered for method `rm` serve a request with method `m`?
(`RouteDef.register`: `"GET"` goes through `add_get(..., allow_head=True)`.) -/
def methodServes (rm m : Method) : Bool := rm == m || (rm == "GET" && m == "HEAD")

/-- route accepts the request: the captured variables -/
def RouteDef.accepts (r : RouteDef) (m : Method) (p : Path) : Option Args :=
  if methodServes r.method m then matchPath r.path p else none

def Endpoint.accepts (e : Endpoint) (m : Method) (p : Path) : Option Args :=
  if methodServes e.method m then matchPath e.path p else none

/-- aiohttp's part: which registered route (and captured variables) serves a request. -/
abbrev Resolver := List RouteDef → Method → Path → Option (RouteDef × Args)

/-- registration order: the first route that accepts the request. -/
def resolveFirst : Resolver := fun routes m p =>
  routes.findSome? (fun r => (r.accepts m p).map (fun a => (r, a)))

/-- `str.rstrip("/")` on segment lists: drop trailing empty segments -/
def stripTrailingEmpty (l : List String) : List String :=
  (l.reverse.dropWhile (· == "")).reverse

def Seg.isLit : Seg → Bool
  | .lit _ => true
  | .var _ => false

def Seg.text : Seg → String
  | .lit s => s
  | .var n => n

/-- `UrlDispatcher._get_resource_index_key`: the literal segments before the first variable,
without trailing slashes (`canonical.partition("{")[0].rpartition("/")[0].rstrip("/") or "/"`). -/
def indexKey (t : List Seg) : List String :=
  stripTrailingEmpty ((t.takeWhile Seg.isLit).map Seg.text)

/-- the resources indexed under `key`, in registration order, tried in turn -/
def resolveAt (routes : List RouteDef) (m : Method) (p : Path) (key : List String) :
    Option (RouteDef × Args) :=
  (routes.filter (fun r => indexKey r.path == key)).findSome?
    (fun r => (r.accepts m p).map (fun a => (r, a)))

/-- `UrlDispatcher.resolve` (aiohttp 3.14.3): walk `url_part` from the whole path down to `/`
(`url_part.rpartition("/")[0] or "/"`), at each step try the resources indexed under it. -/
def resolveIndexed : Resolver := fun routes m p =>
  ((List.range (p.length + 1)).reverse).findSome? (fun k => resolveAt routes m p (p.take k))

/-- some registered template matches the path (under whatever method): aiohttp's
`allowed_methods` is non-empty. -/
def pathKnown (routes : List RouteDef) (p : Path) : Bool :=
  routes.any (fun r => (matchPath r.path p).isSome)

/-- one request against a started server: the matched route's callable is awaited and its
response sent; otherwise aiohttp's error response. -/
def serve (resolve : Resolver) (routes : List RouteDef) (m : Method) (p : Path) : List Event :=
  match resolve routes m p with
  | some (r, a) => (r.handler.call a).1 ++ [.reply (r.handler.call a).2]
  | none => [.error (if pathKnown routes p then 405 else 404)]

def httpRequestWith (resolve : Resolver) (eps : List Endpoint) (m : Method) (p : Path) : List Event :=
  serve resolve (createRouteDefinitions eps) m p

/-- the event trace of one request, routes tried in registration order. -/
def httpRequest (eps : List Endpoint) (m : Method) (p : Path) : List Event :=
  httpRequestWith resolveFirst eps m p

/-- the event trace of one request under aiohttp 3.14.3's indexed resolution. -/
def httpRequestIdx (eps : List Endpoint) (m : Method) (p : Path) : List Event :=
  httpRequestWith resolveIndexed eps m p

/-! ### endpoint-level view (specification side) -/

/-- the first endpoint of the table, in order, that accepts the request -/
def firstMatch (eps : List Endpoint) (m : Method) (p : Path) : Option (Endpoint × Args) :=
  eps.findSome? (fun e => (e.accepts m p).map (fun a => (e, a)))

/-- specificity of an endpoint for aiohttp's index: length of the literal prefix of its template -/
def Endpoint.spec (e : Endpoint) : Nat := (indexKey e.path).length

/-- the events of a request served by endpoint `e` with captured variables `a` -/
def Endpoint.trace (e : Endpoint) (a : Args) : List Event :=
  [.effect e.handler a] ++ (if e.interrupt then [.interrupt] else []) ++ [.reply e.handler]

/-! ### discovery and registration -/

/-- `HttpAdapter.get_endpoints`: the members of the adapter (name, endpoint mark if any) are
visited in `inspect.getmembers` order, i.e. sorted by name; the marked ones are yielded. -/
def getEndpoints (members : List (String × Option Endpoint)) : List Endpoint :=
  (members.mergeSort (fun a b => decide (a.1 ≤ b.1))).filterMap (·.2)

/-- the methods aiohttp registers for a `RouteDef` method -/
def methodsOf (m : Method) : List Method := if m == "GET" then ["HEAD", "GET"] else [m]

def varNames : List Seg → List String
  | [] => []
  | .lit _ :: t => varNames t
  | .var n :: t => n :: varNames t

def noDup : List String → Bool
  | [] => true
  | x :: t => !t.contains x && noDup t

/-- `add_routes` succeeds.  `cur` = template of the most recently added resource and the methods
already registered on it (`add_resource` reuses only the LAST resource, by equal path string). -/
def startsOkFrom : Option (List Seg × List Method) → List RouteDef → Bool
  | _, [] => true
  | cur, r :: rs =>
    noDup (varNames r.path) &&
    (match cur with
     | some (t, ms) =>
       if t = r.path then
         (methodsOf r.method).all (fun m => !ms.contains m) &&
           startsOkFrom (some (t, ms ++ methodsOf r.method)) rs
       else startsOkFrom (some (r.path, methodsOf r.method)) rs
     | none => startsOkFrom (some (r.path, methodsOf r.method)) rs)

/-- the server starts: no `RuntimeError("Added route will never be executed…")`, no
`ValueError("Bad pattern … redefinition of group name")`. -/
def startsOk (eps : List Endpoint) : Bool := startsOkFrom none (createRouteDefinitions eps)

/-! ### syntactic overlap of two routes (decidable) -/

/-- two simple templates have a common instance -/
def templatesOverlap : List Seg → List Seg → Bool
  | [], [] => true
  | .lit a :: s, .lit b :: t => a == b && templatesOverlap s t
  | .lit a :: s, .var _ :: t => segOk a && templatesOverlap s t
  | .var _ :: s, .lit b :: t => segOk b && templatesOverlap s t
  | .var _ :: s, .var _ :: t => templatesOverlap s t
  | [], _ :: _ => false
  | _ :: _, [] => false

/-- some request method is served by both -/
def methodsOverlap (a b : Method) : Bool :=
  a == b || (a == "GET" && b == "HEAD") || (a == "HEAD" && b == "GET")

/-- some request is accepted by both endpoints -/
def Endpoint.overlaps (e f : Endpoint) : Bool :=
  methodsOverlap e.method f.method && templatesOverlap e.path f.path

/-- no request is accepted by two entries of the table -/
def nonOverlapping : List Endpoint → Bool
  | [] => true
  | e :: t => t.all (fun f => !e.overlaps f) && nonOverlapping t

/-- overlapping routes are registered most specific first (then registration order and aiohttp's
index agree) -/
def specificityOrdered : List Endpoint → Bool
  | [] => true
  | e :: t => t.all (fun f => !e.overlaps f || decide (f.spec ≤ e.spec)) && specificityOrdered t

end Http
end Tickit
