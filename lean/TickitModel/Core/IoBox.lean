/-
M9a — `devices/iobox.py`: memory + change buffer.
-/
import TickitModel.Core.Basic

namespace Tickit

structure IoBox (A V : Type) where
  mem : List (A × V) := []
  buf : List (A × V) := []
  deriving Repr

variable {A V : Type} [DecidableEq A]

/-- `write(addr, value)` -/
def IoBox.write (b : IoBox A V) (a : A) (v : V) : IoBox A V := { b with buf := b.buf ++ [(a, v)] }

/-- `read(addr)`; `none` is the `KeyError`. -/
def IoBox.read (b : IoBox A V) (a : A) : Option V := alookup b.mem a

def applyWrites (mem : List (A × V)) (ws : List (A × V)) : List (A × V) :=
  ws.foldl (fun m w => upsert m w.1 w.2) mem

/-- `update(time, inputs)`: input-port writes first, then pending adapter writes, each in
issue order; returns the new box and the `updates` output. -/
def IoBox.update (b : IoBox A V) (ins : List (A × V)) : IoBox A V × List (A × V) :=
  let pending := ins ++ b.buf
  ({ mem := applyWrites b.mem pending, buf := [] }, pending)

inductive IoOp (A V : Type) where
  | write (a : A) (v : V)
  | update (ins : List (A × V))
  deriving Repr

end Tickit
