/-
M2' — one tick as a closed transition system: the ticker plus the components it drives.

`react c ins` is the `Output.changes` with which component `c` answers an `Input` carrying
`ins` (its pre-tick state is fixed during a tick, and it is updated at most once per tick).
A skipped component answers with no changes.  The environment (bus + event loop) chooses
which pending dispatch is answered next: every order is a run.
-/
import TickitModel.Core.Ticker

namespace Tickit

variable {Val : Type}

inductive Ev (Val : Type) where
  | dispatch (d : Dispatch Val)
  | answer (c : Comp) (changes : List (Port × Val))
  deriving Repr

def Ev.isDispatchOf (c : Comp) : Ev Val → Bool
  | .dispatch d => d.comp == c
  | .answer _ _ => false

def Ev.isAnswerOf (c : Comp) : Ev Val → Bool
  | .dispatch _ => false
  | .answer c' _ => c' == c

abbrev React (Val : Type) := Comp → List (Port × Val) → List (Port × Val)

def answerOf (react : React Val) : Dispatch Val → List (Port × Val)
  | .input c _ ins => react c ins
  | .skip _ _ => []

structure TickSys (Val : Type) where
  tk : Ticker Val
  pending : List (Dispatch Val)
  trace : List (Ev Val)

/-- `Ticker.__call__` up to the wait. -/
def TickSys.init (w : Wiring) (t : SimTime) (roots : List Comp) : Except TickErr (TickSys Val) :=
  (Ticker.call w t roots).map (fun r => ⟨r.1, r.2, r.2.map Ev.dispatch⟩)

/-- the `i`-th pending dispatch is answered and the answer propagated.
`none` = no such pending dispatch. -/
def TickSys.step (w : Wiring) (react : React Val) (s : TickSys Val) (i : Nat) :
    Option (Except TickErr (TickSys Val)) :=
  match s.pending[i]? with
  | none => none
  | some d =>
    some ((s.tk.propagate w d.comp d.time (answerOf react d)).map (fun r =>
      ⟨r.1, s.pending.eraseIdx i ++ r.2,
       s.trace ++ [Ev.answer d.comp (answerOf react d)] ++ r.2.map Ev.dispatch⟩))

/-- states reachable within one tick started at time `t` for `roots`. -/
inductive TickSys.Reachable (w : Wiring) (react : React Val) (t : SimTime) (roots : List Comp) :
    TickSys Val → Prop
  | init {s : TickSys Val} : TickSys.init w t roots = .ok s → Reachable w react t roots s
  | step {s s' : TickSys Val} {i : Nat} : Reachable w react t roots s →
      s.step w react i = some (.ok s') → Reachable w react t roots s'

/-- the extent of a tick: everything `_start_tick` puts into `to_update`. -/
def extent (w : Wiring) (roots : List Comp) : List Comp :=
  akeys ((Ticker.startTick w 0 roots : Ticker Unit).toUpdate)

end Tickit
