/-
M6(b) — the state-interface contract as an abstract bus: per-topic log, per (consumer,
topic) cursor, delivery of any enabled head.  Every conforming backend (the synchronous
internal bus, a broker such as Kafka as tickit uses it) is a refinement: it only restricts
WHEN enabled deliveries happen.  A participant that starts late simply subscribes late.

Also: the start-up sequence of a component (`BaseComponent.run_forever`).
-/
import TickitModel.Core.Basic

namespace Tickit

abbrev CTopic := String

structure CBus where
  logs : List (CTopic × List Int) := []
  cursors : List ((Nat × CTopic) × Nat) := []
  /-- ghost: deliveries in the order they happened -/
  delivered : List (Nat × CTopic × Int) := []
  deriving Repr

inductive CAct where
  | produce (T : CTopic) (v : Int)
  | subscribe (k : Nat) (T : CTopic)
  | deliver (k : Nat) (T : CTopic)
  deriving Repr, DecidableEq

def CBus.log (b : CBus) (T : CTopic) : List Int := agetD b.logs T []

/-- `none` = the action is not enabled -/
def CBus.step (b : CBus) : CAct → Option CBus
  | .produce T v => some { b with logs := upsert b.logs T (b.log T ++ [v]) }
  | .subscribe k T =>
    match alookup b.cursors (k, T) with
    | some _ => none
    | none => some { b with cursors := upsert b.cursors (k, T) 0 }
  | .deliver k T =>
    match alookup b.cursors (k, T) with
    | none => none
    | some i =>
      match (b.log T)[i]? with
      | none => none
      | some v => some { b with cursors := upsert b.cursors (k, T) (i + 1), delivered := b.delivered ++ [(k, T, v)] }

/-- an execution: every action is enabled when it is taken -/
inductive CExec : CBus → List CAct → CBus → Prop
  | nil (b : CBus) : CExec b [] b
  | cons {b b' b'' : CBus} {a : CAct} {as : List CAct} : b.step a = some b' → CExec b' as b'' → CExec b (a :: as) b''

def CBus.deliveredTo (b : CBus) (k : Nat) (T : CTopic) : List Int :=
  (b.delivered.filter (fun e => e.1 == k && e.2.1 == T)).map (·.2.2)

def CAct.isSubscribe : CAct → Bool
  | .subscribe _ _ => true
  | _ => false

/-! ### component start-up (`BaseComponent.run_forever`) -/

inductive StartStep where
  | createProducer
  | subscribe
  deriving Repr, DecidableEq

structure CompSt where
  hasProducer : Bool := false
  subscribed : Bool := false
  /-- ghost: an input was handled while no producer existed (the handler would fail) -/
  crashed : Bool := false
  handled : Nat := 0
  deriving Repr

inductive CompEv where
  | start (s : StartStep)
  /-- an `Input` is delivered (possible only once subscribed; replayed inputs included) -/
  | input
  deriving Repr

def CompSt.step (c : CompSt) : CompEv → CompSt
  | .start .createProducer => { c with hasProducer := true }
  | .start .subscribe => { c with subscribed := true }
  | .input =>
    if !c.subscribed then c
    else if c.hasProducer then { c with handled := c.handled + 1 } else { c with crashed := true }

/-- the order in `run_forever`: producer first, then consumer + subscribe -/
def startOrder : List StartStep := [.createProducer, .subscribe]

/-- an event sequence respects the program order of the start steps -/
def RespectsStartOrder (evs : List CompEv) : Prop :=
  (evs.filterMap (fun e => match e with | .start s => some s | .input => none)) <+: startOrder

end Tickit
