/-
M9b — command adapters (`adapters/tcp.py`, `specifications/regex_command.py`,
`io/tcp_io.py`, `io/http_io.py`).

`Bytes := List UInt8`.  A command's pattern matching is a parameter (`matcher`); the
declared decoding (`convert`) is modelled: bytes commands see the raw bytes, text commands
see `decode('utf-8').strip()` and do not match undecodable input.
-/
import TickitModel.Core.Basic

namespace Tickit

abbrev Bytes := List UInt8

/-- code points for which Python's `str.isspace()` is true (the set `str.strip()` removes). -/
def pyIsSpace (c : Char) : Bool :=
  let n := c.toNat
  (0x09 ≤ n && n ≤ 0x0d) || (0x1c ≤ n && n ≤ 0x20) || n == 0x85 || n == 0xa0 || n == 0x1680 ||
  (0x2000 ≤ n && n ≤ 0x200a) || n == 0x2028 || n == 0x2029 || n == 0x202f || n == 0x205f || n == 0x3000

/-- `str.strip()` -/
def pyStrip (s : List Char) : List Char :=
  ((s.dropWhile pyIsSpace).reverse.dropWhile pyIsSpace).reverse

/-- message as seen by a command after its declared decoding -/
inductive Msg where
  | bytes (b : Bytes)
  | text (s : List Char)
  deriving Repr, DecidableEq

inductive CmdKind where
  | bytes
  | text
  deriving Repr, DecidableEq

/-- `RegexCommand.convert`; `none` when the bytes cannot be decoded. -/
def convert (k : CmdKind) (data : Bytes) : Option Msg :=
  match k with
  | .bytes => some (.bytes data)
  | .text =>
    match String.fromUTF8? (ByteArray.mk data.toArray) with
    | some s => some (.text (pyStrip s.toList))
    | none => none

structure Cmd (Args : Type) where
  kind : CmdKind
  interrupt : Bool
  /-- `pattern.fullmatch(message)`: the captured groups when the whole message matches -/
  matcher : Msg → Option Args

variable {Args : Type}

/-- `RegexCommand.parse` -/
def Cmd.parse (c : Cmd Args) (data : Bytes) : Option Args :=
  match convert c.kind data with
  | none => none
  | some m => c.matcher m

inductive Handled (Args : Type) where
  /-- command number `idx` (in `getmembers` order) invoked once with `args` -/
  | call (idx : Nat) (args : Args) (interrupt : Bool)
  | unknown
  deriving Repr

/-- `CommandAdapter.handle`: first command, in order, whose `parse` matches. -/
def handleFrom (cmds : List (Cmd Args)) (data : Bytes) (i : Nat) : Handled Args :=
  match cmds with
  | [] => .unknown
  | c :: cs => match c.parse data with
    | some a => .call i a c.interrupt
    | none => handleFrom cs data (i + 1)

def handle (cmds : List (Cmd Args)) (data : Bytes) : Handled Args := handleFrom cmds data 0

def unknownReply : String := "Request does not match any known command"

/-- events of one connection as the outside sees them -/
inductive ConnEv (Args : Type) where
  | invoke (idx : Nat) (args : Args)
  | interrupt
  | write (b : Bytes)
  deriving Repr

/-- byte format `pre %b post` -/
def fmt (pre post : Bytes) (reply : Bytes) : Bytes := pre ++ reply ++ post

/-- one received chunk on a TCP connection: handler invoked, then interrupt (if declared),
then every non-`None` reply written once, in order, formatted.  `replies idx args` are the
handler's replies (`none` = the explicit empty marker). -/
def tcpChunk (cmds : List (Cmd Args)) (replies : Nat → Args → List (Option Bytes))
    (pre post : Bytes) (data : Bytes) : List (ConnEv Args) :=
  match handle cmds data with
  | .call i a intr =>
    [.invoke i a] ++ (if intr then [.interrupt] else []) ++
      ((replies i a).filterMap id).map (fun r => .write (fmt pre post r))
  | .unknown => [.write (fmt pre post unknownReply.toUTF8.toList)]

def tcpConn (cmds : List (Cmd Args)) (replies : Nat → Args → List (Option Bytes))
    (pre post : Bytes) (chunks : List Bytes) : List (ConnEv Args) :=
  chunks.flatMap (tcpChunk cmds replies pre post)

end Tickit
