/-
M2 — the ticker (`core/management/ticker.py`): sequencing of one tick.

`toUpdate` is the Python dict `to_update` (key present = still unresolved; flag = "task is
not None", i.e. the update/skip has been dispatched).  The iteration order of Python sets
(roots, dependants) is arbitrary, so everything observable here is a *set* of dispatches.
Errors are explicit: `KeyError` (component unknown to the inverse tree) and the two
`assert`s of `propagate`.
-/
import TickitModel.Core.Router

namespace Tickit

inductive Dispatch (Val : Type) where
  | input (target : Comp) (time : SimTime) (changes : List (Port × Val))
  | skip (source : Comp) (time : SimTime)
  deriving Repr, DecidableEq

def Dispatch.comp {Val : Type} : Dispatch Val → Comp
  | .input c _ _ => c
  | .skip c _ => c

def Dispatch.time {Val : Type} : Dispatch Val → SimTime
  | .input _ t _ => t
  | .skip _ t => t

inductive TickErr where
  | keyError (c : Comp)
  | assertSource (c : Comp)
  | assertTime (c : Comp)
  deriving Repr, DecidableEq

structure Ticker (Val : Type) where
  time : SimTime
  roots : List Comp
  toUpdate : List (Comp × Bool)
  inputs : List (Comp × List (Port × Val))
  finished : Bool
  deriving Repr

variable {Val : Type}

/-- `_start_tick` -/
def Ticker.startTick (w : Wiring) (t : SimTime) (roots : List Comp) : Ticker Val :=
  { time := t
    roots := roots
    toUpdate := roots.foldl (fun acc r => (w.dependants r).foldl (fun acc c => upsert acc c false) acc) []
    inputs := []
    finished := false }

/-- `required_dependencies(component)` is non-empty -/
def Ticker.blocked (tk : Ticker Val) (ups : List Comp) : Bool :=
  ups.any (fun u => (alookup tk.toUpdate u).isSome)

/-- the decision taken for one undispatched, unblocked component. -/
def Ticker.decide (tk : Ticker Val) (c : Comp) : Dispatch Val :=
  let ins := agetD tk.inputs c []
  if !ins.isEmpty || c ∈ tk.roots then .input c tk.time ins else .skip c tk.time

/-- the loop body of `schedule_possible_updates` over the *snapshot* `tk.toUpdate`. -/
def Ticker.scheduleLoop (w : Wiring) (tk : Ticker Val) :
    List (Comp × Bool) → Except TickErr (List (Dispatch Val))
  | [] => .ok []
  | (c, flag) :: rest =>
    if flag then Ticker.scheduleLoop w tk rest
    else match w.ups c with
      | none => .error (.keyError c)
      | some ups =>
        if tk.blocked ups then Ticker.scheduleLoop w tk rest
        else (Ticker.scheduleLoop w tk rest).map (fun ds => tk.decide c :: ds)

def markDispatched (tu : List (Comp × Bool)) (ds : List Comp) : List (Comp × Bool) :=
  tu.map (fun e => if e.1 ∈ ds then (e.1, true) else e)

/-- `schedule_possible_updates` -/
def Ticker.schedule (w : Wiring) (tk : Ticker Val) : Except TickErr (Ticker Val × List (Dispatch Val)) :=
  (Ticker.scheduleLoop w tk tk.toUpdate).map (fun ds =>
    ({ tk with toUpdate := markDispatched tk.toUpdate (ds.map Dispatch.comp) }, ds))

/-- accumulate routed changes: `self.inputs[component].update(change)` -/
def addInputs (inputs : List (Comp × List (Port × Val))) (routed : List (Comp × List (Port × Val))) :
    List (Comp × List (Port × Val)) :=
  routed.foldl (fun acc e => upsert acc e.1 (aupdate (agetD acc e.1 []) e.2)) inputs

/-- `propagate(output)` for an `Output` or `Skip` from `src` stamped `t` with `changes`. -/
def Ticker.propagate (w : Wiring) (tk : Ticker Val) (src : Comp) (t : SimTime)
    (changes : List (Port × Val)) : Except TickErr (Ticker Val × List (Dispatch Val)) :=
  if (alookup tk.toUpdate src).isNone then .error (.assertSource src)
  else if t ≠ tk.time then .error (.assertTime src)
  else
    let tk1 : Ticker Val :=
      { tk with toUpdate := aerase tk.toUpdate src, inputs := addInputs tk.inputs (w.route src changes) }
    (tk1.schedule w).map (fun r =>
      if r.1.toUpdate.isEmpty then ({ r.1 with finished := true }, r.2) else r)

/-- `__call__` up to the wait: start the tick and schedule what is possible. -/
def Ticker.call (w : Wiring) (t : SimTime) (roots : List Comp) :
    Except TickErr (Ticker Val × List (Dispatch Val)) :=
  (Ticker.startTick w t roots : Ticker Val).schedule w

end Tickit
