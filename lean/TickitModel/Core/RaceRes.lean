/-
Two more places where the code creates asynchronous tasks, with their resources:

(1) the tick / error race of a system component (`core/components/system_component.py`):

    async def on_tick(self, time, changes):
        on_tick = asyncio.create_task(self.scheduler.on_tick(time, changes))      # +1 task
        error_state = asyncio.create_task(self.scheduler.error.wait())           # +1 task
        done, _ = await asyncio.wait([on_tick, error_state], return_when=FIRST_COMPLETED)
        if error_state in done:
            on_tick.cancel()             # commit f518297; before it the loser was abandoned
            await self.state_producer.produce(output_topic(self.name), self.scheduler.component_error)
        else:
            error_state.cancel()         # commit f518297; before it the waiter on the error
            output_changes, call_in = on_tick.result()     # flag — which is never set in
            await self.output(time, output_changes, call_in)   # normal operation — stayed

    `on_tick` is awaited by `BaseComponent.handle_input`, once per `Input` message; the ticker
    sends a component at most one `Input` per tick and waits for its answer (C01), so calls of
    `on_tick` of one component do not overlap: `input` is enabled only in `idle`.

(2) the reply tasks of the TCP io (`adapters/io/tcp_io.py`):

    async def handle(reader, writer):                  # one call (one task) per connection
        tasks: Set[asyncio.Task] = set()               # commit 9447ad9; before it ONE list
        def spawn(replies):                            # `tasks` for the whole server, only
            task = asyncio.create_task(reply(replies)) # ever appended to
            tasks.add(task)
            task.add_done_callback(tasks.discard)      # commit 9447ad9
        spawn(on_connect())
        while True:
            data = await reader.read(1024)
            if data == b"": break
            spawn(await handler(data, raise_interrupt))
        if tasks:
            await asyncio.wait(tasks)

Both are small transition systems over counters: a counter is incremented where the code
creates a task (or stores its handle) and decremented where the task finishes, is cancelled,
or its handle is dropped.  `fixed = true` is the code as it is now.
-/
import TickitModel.Core.Basic

namespace Tickit

/-! ## (1) the system component's tick / error race -/

inductive SysPc
  /-- not inside `on_tick` -/
  | idle
  /-- inside `await asyncio.wait([on_tick, error_state], FIRST_COMPLETED)` -/
  | racing
  deriving Repr, DecidableEq

structure SysRaceSt where
  pc : SysPc := .idle
  /-- `self.scheduler.error.is_set()` -/
  errorSet : Bool := false
  /-- the task `on_tick` of the race in progress has finished -/
  tickDone : Bool := false
  /-- the task `error_state` of the race in progress has finished -/
  errDone : Bool := false
  /-- live `on_tick` task of the race in progress -/
  tickLive : Nat := 0
  /-- live `error_state` task of the race in progress -/
  errLive : Nat := 0
  /-- abandoned (not cancelled) inner tick tasks of earlier races -/
  orphanTick : Nat := 0
  /-- abandoned (not cancelled) waiters on the error flag of earlier races -/
  orphanErr : Nat := 0
  /-- ghost: number of calls of `on_tick` so far -/
  ticks : Nat := 0
  deriving Repr, DecidableEq

def SysRaceSt.tasks (s : SysRaceSt) : Nat := s.tickLive + s.errLive + s.orphanTick + s.orphanErr

inductive SysRaceAct
  /-- an `Input` arrives: `on_tick` is called and creates the two tasks -/
  | input
  /-- the nested scheduler's `on_tick` completes -/
  | innerTickDone
  /-- the nested scheduler sets its error flag (`error.set()` wakes every waiter) -/
  | raiseError
  /-- the event loop runs the task `error_state`: it completes iff the flag is set -/
  | errTaskRuns
  /-- `asyncio.wait` returns and `on_tick` goes on to its end -/
  | resume
  /-- an abandoned inner tick task finishes by itself -/
  | orphanTickDone
  deriving Repr, DecidableEq

/-- one transition; `none` = not enabled.  `fixed = true`: the loser is cancelled. -/
def SysRaceSt.step (fixed : Bool) (s : SysRaceSt) : SysRaceAct → Option SysRaceSt
  | .input =>
    match s.pc with
    | .idle =>
      some { s with pc := .racing, tickDone := false, errDone := false,
                    tickLive := s.tickLive + 1, errLive := s.errLive + 1, ticks := s.ticks + 1 }
    | .racing => none
  | .innerTickDone =>
    if s.pc = .racing ∧ s.tickDone = false then
      some { s with tickDone := true, tickLive := s.tickLive - 1 }
    else none
  | .raiseError => some { s with errorSet := true, orphanErr := 0 }
  | .errTaskRuns =>
    if s.pc = .racing ∧ s.errorSet = true ∧ s.errDone = false then
      some { s with errDone := true, errLive := s.errLive - 1 }
    else none
  | .resume =>
    if s.pc = .racing ∧ (s.tickDone = true ∨ s.errDone = true) then
      if s.errDone then
        -- `if error_state in done: on_tick.cancel()` (nothing to do if it has finished too)
        if s.tickDone then some { s with pc := .idle }
        else if fixed then some { s with pc := .idle, tickLive := s.tickLive - 1 }
        else some { s with pc := .idle, tickLive := s.tickLive - 1, orphanTick := s.orphanTick + 1 }
      else
        -- `else: error_state.cancel()`
        if fixed then some { s with pc := .idle, errLive := s.errLive - 1 }
        else some { s with pc := .idle, errLive := s.errLive - 1, orphanErr := s.orphanErr + 1 }
    else none
  | .orphanTickDone =>
    if 0 < s.orphanTick then some { s with orphanTick := s.orphanTick - 1 } else none

/-- a history; actions that are not enabled are skipped. -/
def SysRaceSt.run (fixed : Bool) (s : SysRaceSt) : List SysRaceAct → SysRaceSt
  | [] => s
  | a :: as => match s.step fixed a with
    | some s' => SysRaceSt.run fixed s' as
    | none => SysRaceSt.run fixed s as

/-- one ordinary tick of a system component: called, the inner tick completes, `on_tick` ends. -/
def sysTickRound : List SysRaceAct := [.input, .innerTickDone, .resume]

/-- several system components side by side; an action names its component by position. -/
def sysFarmStep (fixed : Bool) (l : List SysRaceSt) (ia : Nat × SysRaceAct) : List SysRaceSt :=
  match l[ia.1]? with
  | none => l
  | some s => match s.step fixed ia.2 with
    | none => l
    | some s' => l.set ia.1 s'

def sysFarmRun (fixed : Bool) (l : List SysRaceSt) (acts : List (Nat × SysRaceAct)) :
    List SysRaceSt :=
  acts.foldl (sysFarmStep fixed) l

def sysFarmTasks (l : List SysRaceSt) : Nat := (l.map SysRaceSt.tasks).sum

/-! ## (2) the TCP io's reply tasks -/

inductive ConnPc
  /-- inside the `while True` loop (awaiting `reader.read`) -/
  | reading
  /-- end of stream seen: at `if tasks: await asyncio.wait(tasks)` -/
  | draining
  /-- `handle` has returned -/
  | closed
  deriving Repr, DecidableEq

structure TcpConn where
  pc : ConnPc := .reading
  /-- reply tasks of this connection which have not finished -/
  inFlight : Nat := 0
  /-- `len(tasks)` of this connection's own set (code as it is now) -/
  held : Nat := 0
  /-- ghost: number of chunks received on this connection -/
  chunks : Nat := 0
  deriving Repr, DecidableEq

structure TcpSt where
  /-- every connection ever accepted, in order of arrival (closed ones stay, for indexing) -/
  conns : List TcpConn := []
  /-- `len(tasks)` of the server-wide list of the code before commit 9447ad9 -/
  legacyHeld : Nat := 0
  deriving Repr, DecidableEq

inductive TcpAct
  /-- a client connects: `handle` starts and spawns the reply task for `on_connect()` -/
  | connect
  /-- a non-empty chunk arrives on connection `i`: `spawn(await handler(data, ..))` -/
  | chunk (i : Nat)
  /-- a reply task of connection `i` finishes (its done-callbacks run) -/
  | replyDone (i : Nat)
  /-- `reader.read` returns `b""` on connection `i` -/
  | eof (i : Nat)
  /-- the final wait of connection `i` is over, `handle` returns -/
  | finish (i : Nat)
  deriving Repr, DecidableEq

/-- `spawn(..)`: `create_task`, and the handle goes into the set / the server-wide list -/
def TcpConn.spawn (fixed : Bool) (c : TcpConn) : TcpConn :=
  if fixed then { c with inFlight := c.inFlight + 1, held := c.held + 1 }
  else { c with inFlight := c.inFlight + 1 }

/-- a reply task finishes.  NEW: its done-callback `tasks.discard` drops the handle -/
def TcpConn.done (fixed : Bool) (c : TcpConn) : TcpConn :=
  if fixed then { c with inFlight := c.inFlight - 1, held := c.held - 1 }
  else { c with inFlight := c.inFlight - 1 }

def TcpSt.step (fixed : Bool) (s : TcpSt) : TcpAct → Option TcpSt
  | .connect =>
    some { conns := s.conns ++ [TcpConn.spawn fixed {}]
           legacyHeld := if fixed then s.legacyHeld else s.legacyHeld + 1 }
  | .chunk i =>
    match s.conns[i]? with
    | some c =>
      if c.pc = .reading then
        some { conns := s.conns.set i { (TcpConn.spawn fixed c) with chunks := c.chunks + 1 }
               legacyHeld := if fixed then s.legacyHeld else s.legacyHeld + 1 }
      else none
    | none => none
  | .replyDone i =>
    match s.conns[i]? with
    | some c =>
      if 0 < c.inFlight then
        -- NEW: the done-callback `tasks.discard` drops the handle; OLD: the list keeps it
        some { s with conns := s.conns.set i (TcpConn.done fixed c) }
      else none
    | none => none
  | .eof i =>
    match s.conns[i]? with
    | some c =>
      if c.pc = .reading then some { s with conns := s.conns.set i { c with pc := .draining } }
      else none
    | none => none
  | .finish i =>
    match s.conns[i]? with
    | some c =>
      -- NEW: `if tasks: await asyncio.wait(tasks)` over the connection's own unfinished tasks;
      -- OLD: `await asyncio.wait(tasks)` over the server-wide list (under-approximated: every
      -- reply task of the server has finished)
      if c.pc = .draining ∧ (if fixed then c.inFlight = 0 else s.conns.all (fun d => d.inFlight = 0))
      then some { s with conns := s.conns.set i { c with pc := .closed } }
      else none
    | none => none

def TcpSt.run (fixed : Bool) (s : TcpSt) : List TcpAct → TcpSt
  | [] => s
  | a :: as => match s.step fixed a with
    | some s' => TcpSt.run fixed s' as
    | none => TcpSt.run fixed s as

/-- connections whose `handle` task is still running -/
def TcpSt.openConns (s : TcpSt) : Nat := (s.conns.filter (fun c => c.pc ≠ .closed)).length

/-- unfinished reply tasks, all connections -/
def TcpSt.replyLive (s : TcpSt) : Nat := (s.conns.map TcpConn.inFlight).sum

/-- unfinished reply tasks of the connections that are still open -/
def TcpSt.replyLiveOpen (s : TcpSt) : Nat :=
  ((s.conns.filter (fun c => c.pc ≠ .closed)).map TcpConn.inFlight).sum

/-- task handles stored in the containers of the io (sets of the open connections, old list) -/
def TcpSt.retained (s : TcpSt) : Nat := (s.conns.map TcpConn.held).sum + s.legacyHeld

/-- all tasks of the io that are live: one `handle` per open connection + the reply tasks -/
def TcpSt.tasks (s : TcpSt) : Nat := s.openConns + s.replyLive

/-- chunks received so far, all connections -/
def TcpSt.chunksSeen (s : TcpSt) : Nat := (s.conns.map TcpConn.chunks).sum

/-- one connection; the greeting is sent; then `n` chunks, each answered before the next. -/
def tcpChatter (n : Nat) : List TcpAct :=
  [.connect, .replyDone 0] ++ (List.replicate n [TcpAct.chunk 0, .replyDone 0]).flatten

end Tickit
