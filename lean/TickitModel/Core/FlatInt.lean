/-
M8' — the flat multi-tick system of M8 (`Core/Flat.lean`) with EXTERNAL STIMULI between ticks.

After the initial tick a history is a script of `FAct`s: `.tick` is exactly the scheduler step of
`FlatRun.tick` (serve the first wakeups), `.interrupt c stamp` is an adapter of component `c`
raising an interrupt which the master scheduler stamps with the current simulation time `stamp`
and records as a wakeup of `c` at `min (existing wakeup of c) stamp` — the `.interrupt` case of
`MSt.step` (`Core/Master.lean`) and the stimulus branch of `masterRun` (`Core/Sim.lean`).

Definitions only; nothing here is imported by the driver or by an older file.
-/
import TickitModel.Core.Flat

namespace Tickit

/-- what happens after the initial tick: a scheduler step or an interrupt of `c` stamped `stamp` -/
inductive FAct where
  | tick
  | interrupt (c : Comp) (stamp : SimTime)
  deriving DecidableEq, Repr

/-- `schedule_interrupt` + `add_wakeup`: a wakeup of `c` that is already due earlier is kept -/
def intWake (wake : Wakeups) (c : Comp) (stamp : SimTime) : Wakeups :=
  addWakeup wake c (match alookup wake c with
    | some w => if w < stamp then w else stamp
    | none => stamp)

variable {Val : Type} [DecidableEq Val]

/-- `FlatRunI w devs t0 script n st times`: after the initial tick and the actions of `script`
(in chronological order), `n` of which are ticks, the state is `st`; `times` lists the tick times
(latest first).  Tick number `k` (the initial one is number 0) uses the device functions
`devs k`. -/
inductive FlatRunI (w : Wiring) (devs : DevSeq Val) (t0 : SimTime) :
    List FAct → Nat → FlatSt Val → List SimTime → Prop
  | initial {st : FlatSt Val} :
      TickRun w (devs 0) {} t0 w.components st → FlatRunI w devs t0 [] 0 st [t0]
  | tick {sc : List FAct} {n : Nat} {st st' : FlatSt Val} {times : List SimTime} {cs : List Comp}
      {m : SimTime} :
      FlatRunI w devs t0 sc n st times → firstWakeups st.wake = (cs, some m) →
      TickRun w (devs (n + 1)) { st with wake := delWakeups st.wake cs } m cs st' →
      FlatRunI w devs t0 (sc ++ [.tick]) (n + 1) st' (m :: times)
  | interrupt {sc : List FAct} {n : Nat} {st : FlatSt Val} {times : List SimTime} {c : Comp}
      {stamp : SimTime} :
      FlatRunI w devs t0 sc n st times → c ∈ w.components →
      FlatRunI w devs t0 (sc ++ [.interrupt c stamp]) n
        { st with wake := intWake st.wake c stamp } times

/-- a CONTINUATION: from the situation `(n, st, times)` the actions of `script` lead to
`(n', st', times')` (the steps are exactly those of `FlatRunI`). -/
inductive FlatExtI (w : Wiring) (devs : DevSeq Val) (n : Nat) (st : FlatSt Val)
    (times : List SimTime) : List FAct → Nat → FlatSt Val → List SimTime → Prop
  | refl : FlatExtI w devs n st times [] n st times
  | tick {sc : List FAct} {n' : Nat} {st' st'' : FlatSt Val} {times' : List SimTime}
      {cs : List Comp} {m : SimTime} :
      FlatExtI w devs n st times sc n' st' times' → firstWakeups st'.wake = (cs, some m) →
      TickRun w (devs (n' + 1)) { st' with wake := delWakeups st'.wake cs } m cs st'' →
      FlatExtI w devs n st times (sc ++ [.tick]) (n' + 1) st'' (m :: times')
  | interrupt {sc : List FAct} {n' : Nat} {st' : FlatSt Val} {times' : List SimTime} {c : Comp}
      {stamp : SimTime} :
      FlatExtI w devs n st times sc n' st' times' → c ∈ w.components →
      FlatExtI w devs n st times (sc ++ [.interrupt c stamp]) n'
        { st' with wake := intWake st'.wake c stamp } times'

/-! ### timely stamps -/

/-- `script` latest action first, `times` latest tick first -/
def stampsTimelyRev : List FAct → List SimTime → Prop
  | [], _ => True
  | .tick :: rest, times => stampsTimelyRev rest times.tail
  | .interrupt _ stamp :: rest, times =>
    (∀ tl, times.head? = some tl → tl ≤ stamp) ∧ stampsTimelyRev rest times

/-- every interrupt of the script is stamped with a time that is not before the time of the last
tick that precedes it (`times` = the tick times of the run, latest first).  This is what the pacing
law yields: `stamp = ticker.time + int((now - last_time) * speed)` with `now ≥ last_time`. -/
def StampsTimely (script : List FAct) (times : List SimTime) : Prop :=
  stampsTimelyRev script.reverse times

/-! ### a pending wakeup along a continuation with interrupts -/

/-- the effect of one action on the pending entry `t` of `c` as long as `c` is not updated: only an
interrupt of `c` itself changes it, and only downwards -/
def FAct.lower (c : Comp) (t : SimTime) : FAct → SimTime
  | .tick => t
  | .interrupt c' s => if c' = c then (if t < s then t else s) else t

/-- the entry of `c` after `script`, if it was `t` before and `c` has not been updated: the
minimum of `t` and of the stamps of the interrupts of `c` in `script` -/
def lowered (c : Comp) (t : SimTime) (script : List FAct) : SimTime := script.foldl (FAct.lower c) t

/-- after the continuation `script` the wakeup of `c` (which was `t`) is still pending: `c` has
not been updated, its entry is `lowered c t script ≤ t`, and every tick of the continuation
happened strictly before `t`. -/
structure StillPendingI (st : FlatSt Val) (times : List SimTime) (script : List FAct)
    (st' : FlatSt Val) (times' : List SimTime) (c : Comp) (t : SimTime) : Prop where
  no_new_obs : st'.obsOf c = st.obsOf c
  pending : alookup st'.wake c = some (lowered c t script)
  earlier : ∃ newT, times' = newT ++ times ∧ ∀ m ∈ newT, m < t

/-- the continuation contains an update of `c`; the first one happens in the tick (the action
after `scA`) from `(k, stA, timesA)` to `stB`: up to `stA` the wakeup was pending (entry
`lowered c t scA`), that tick is at `t1 ≤ lowered c t scA`, `c` is one of its roots iff
`t1 = lowered c t scA`, it gives `c` exactly one observation (at `t1`), which is the first new
observation of `c` in the final state. -/
def FirstUpdateI (w : Wiring) (devs : DevSeq Val) (n : Nat) (st : FlatSt Val)
    (times : List SimTime) (script : List FAct) (n' : Nat) (st' : FlatSt Val)
    (times' : List SimTime) (c : Comp) (t : SimTime) : Prop :=
  ∃ (scA scB : List FAct) (k : Nat) (stA stB : FlatSt Val) (timesA : List SimTime)
    (cs : List Comp) (t1 : SimTime) (given : List (Port × Val))
    (rest : List (SimTime × List (Port × Val))),
    script = scA ++ FAct.tick :: scB ∧
    FlatExtI w devs n st times scA k stA timesA ∧ StillPendingI st times scA stA timesA c t ∧
    firstWakeups stA.wake = (cs, some t1) ∧
    TickRun w (devs (k + 1)) { stA with wake := delWakeups stA.wake cs } t1 cs stB ∧
    FlatExtI w devs (k + 1) stB (t1 :: timesA) scB n' st' times' ∧
    t1 ≤ lowered c t scA ∧ (c ∈ cs ↔ t1 = lowered c t scA) ∧
    stB.obsOf c = st.obsOf c ++ [(t1, given)] ∧
    st'.obsOf c = st.obsOf c ++ (t1, given) :: rest

end Tickit
