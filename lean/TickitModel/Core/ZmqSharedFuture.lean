/-
M9c× — the SEEDED VARIANT of the ZeroMQ push io: the socket lock replaced by a memoised
"connect" future that every caller awaits directly, without `asyncio.shield`
(seeded change C19-m7).  NOT the code in /repo; kept as a model so that the property that
distinguishes it from the real code (`Core/ZmqCancel.lean`) is stated and proved.

    async def _ensure_socket(self):
        if self._socket_future is None:
            self._socket_future = asyncio.ensure_future(
                self._socket_factory(self._host, self._port))
        self._socket = await self._socket_future
        return self._socket

`await fut` inside a task makes `fut` the task's `_fut_waiter`; `task.cancel()` calls
`self._fut_waiter.cancel()`, so cancelling ONE caller cancels the shared connect task.  A
cancelled future raises `CancelledError` in everybody who awaits it, now or later.

The senders and their places are those of `Core/Zmq.lean` (`Sender`, `Pc`); `inFactory` is
read as "awaiting `self._socket_future`" (any number of tasks can be there, there is no lock).
-/
import TickitModel.Core.ZmqCancel

namespace Tickit

/-- state of `self._socket_future` -/
inductive ZFut where
  | unset        -- `None`
  | pending      -- the connect task runs
  | done         -- it returned a socket
  | cancelled    -- it was cancelled
  deriving Repr, DecidableEq

structure ZmqF where
  fut : ZFut := .unset
  socket : Bool := false            -- `self._socket is not None`
  factoryCalls : Nat := 0
  queue : List Nat := []
  senders : List Sender := [{}]     -- sender 0 is the queue loop
  writes : List (Nat × Nat) := []
  queued : List Nat := []
  /-- tasks on which the environment called `cancel()` -/
  cancelled : List Nat := []
  /-- tasks that ended with a `CancelledError` nobody sent them -/
  failed : List Nat := []
  deriving Repr

inductive ZFAct where
  | base (a : ZAct)
  | connected                       -- the connect task finishes: the future gets its result
  | cancel (k : Nat)
  deriving Repr

def ZmqF.setSender (z : ZmqF) (i : Nat) (s : Sender) : ZmqF := { z with senders := z.senders.set i s }

/-- `await self._socket_future` for sender `i` (record `s`) -/
def ZmqF.awaitFut (z : ZmqF) (i : Nat) (s : Sender) : Option ZmqF :=
  match z.fut with
  | .done => some (({ z with socket := true } : ZmqF).setSender i { s with pc := .ready })
  | .cancelled => some { z with failed := i :: z.failed }      -- CancelledError out of `await`
  | .pending => if s.pc == .inFactory then none else some (z.setSender i { s with pc := .inFactory })
  | .unset => none

def ZmqF.stepSender (z : ZmqF) (i : Nat) : Option ZmqF :=
  if i ∈ z.cancelled ∨ i ∈ z.failed then none
  else match z.senders[i]? with
  | none => none
  | some s =>
    match s.pc with
    | .idle =>
      if i == 0 then
        match z.queue with
        | [] => none
        | m :: q => some (({ z with queue := q } : ZmqF).setSender i { s with pc := .wantLock, cur := some m })
      else
        match s.todo with
        | [] => none
        | m :: t => some (z.setSender i { s with pc := .wantLock, cur := some m, todo := t })
    | .wantLock =>
      match z.fut with
      | .unset =>   -- first caller: start the connect task, then await it
        some (({ z with fut := .pending, factoryCalls := z.factoryCalls + 1 } : ZmqF).setSender i
          { s with pc := .inFactory })
      | _ => z.awaitFut i s
    | .inFactory => z.awaitFut i s
    | .ready =>
      match s.cur with
      | none => some (z.setSender i { s with pc := .idle })
      | some m => some (({ z with writes := z.writes ++ [(i, m)] } : ZmqF).setSender i { s with pc := .draining })
    | .draining => some (z.setSender i { s with pc := .idle, cur := none })

def ZmqF.act (z : ZmqF) : ZFAct → Option ZmqF
  | .base (.enqueue m) => some { z with queue := z.queue ++ [m], queued := z.queued ++ [m] }
  | .base (.spawn msgs) => some { z with senders := z.senders ++ [{ todo := msgs, orig := msgs }] }
  | .base .ensure => some { z with senders := z.senders ++ [{ pc := .wantLock }] }
  | .base (.step i) => z.stepSender i
  | .connected => if z.fut == .pending then some { z with fut := .done } else none
  | .cancel k =>
    if k ∈ z.cancelled ∨ k ∈ z.failed then none
    else match z.senders[k]? with
    | none => none
    | some s =>
      if s.finished k then none
      else if s.pc == .inFactory && z.fut == .pending then
        -- `task.cancel()` cancels what the task awaits: the SHARED connect task
        some { z with fut := .cancelled, cancelled := k :: z.cancelled }
      else some { z with cancelled := k :: z.cancelled }

def ZmqF.init : ZmqF := {}

def ZmqF.run (z : ZmqF) : List ZFAct → ZmqF
  | [] => z
  | a :: as => match z.act a with
    | some z' => ZmqF.run z' as
    | none => ZmqF.run z as

end Tickit
