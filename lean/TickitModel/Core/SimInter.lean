/-
M5'' — one tick of the nested whole-simulation model, SMALL-STEP and INTERLEAVED.

`Core/SimAny.lean` (`TickLevelAny`) lets every scheduler level answer any pending dispatch next, but
the answer of a system component is there ONE step: a whole execution of the inner tick, during which
nothing else happens at the outer level or inside sibling system components.  The code does not
work like that.  Every component is its own asyncio task; a `SystemComponent` answers an `Input` by
awaiting a whole tick of its own `NestedScheduler`, and while it waits the event loop runs whatever
else is ready: the outer scheduler handling the `Output` of another component, a sibling
`SystemComponent` in the middle of ITS inner tick, a device two levels further down.

    # core/components/component.py        (every component, one task per component)
    async def handle_input(self, message: ComponentInput):
        if isinstance(message, Input):
            ...
                await asyncio.gather(self.on_tick(message.time, message.changes), ...)

    # core/components/system_component.py
    async def run_forever(self, state_consumer, state_producer) -> None:
        ...
        self._tasks = [
            asyncio.create_task(component.run_forever(state_consumer, state_producer))
            for component in components.values()
        ] + [asyncio.create_task(self.scheduler.run_forever())]

    async def on_tick(self, time: SimTime, changes: Changes) -> None:
        on_tick = asyncio.create_task(self.scheduler.on_tick(time, changes))
        error_state = asyncio.create_task(self.scheduler.error.wait())
        done, _ = await asyncio.wait([on_tick, error_state], return_when=FIRST_COMPLETED)
        ...
            output_changes, call_in = on_tick.result()
            await self.output(time, output_changes, call_in)

    # core/management/schedulers/nested.py
    async def on_tick(self, time, changes):
        wakeup_components = {c for c, when in self.wakeups.items() if when <= time}
        root_components = {*self.interrupts, *wakeup_components, ComponentID("external")}
        if not self._initial_tick_done:
            root_components |= self.ticker.components
            self._initial_tick_done = True
        for component in wakeup_components:
            del self.wakeups[component]
        self.interrupts.clear()
        self.input_changes = changes
        self.output_changes = Changes(Map())
        await self.ticker(time, root_components)          # <- suspended until the inner tick is over
        _, call_at = self.get_first_wakeups()
        return self.output_changes, call_at

    # core/management/ticker.py
    async def __call__(self, time, update_components) -> None:
        await self._start_tick(time, update_components)
        await self.schedule_possible_updates()
        await self.finished.wait()                        # <- other tasks run meanwhile
        self.finished.clear()

This file states that as a SMALL-STEP relation.  A configuration is the shared simulation state
`SimSt` together with the TREE of the scheduler levels that are inside a tick right now
(`ITree`): the level being ticked and, for every system component whose `Input` has been delivered
and whose inner tick is not over, that inner level, recursively.  Every active level carries the
`LoopSt`-like part of its state (`IFrame`: ticker, pending dispatches, exposed changes, and the
`time` / `changes` its `on_tick` was called with).  One step (`IStep`) picks ANY active level (rule
`inner` descends into the tree) and ANY pending dispatch of it and

* `answer`: answers it completely — skip, mock `external` / `expose`, device (`AnswerNow`, clause
  by clause `AnswerAny` without its `sys` clause) — and propagates the answer in that level's
  ticker (`BaseScheduler.handle_message`), or
* `opn`: for a system component, delivers the `Input`: the first half of
  `NestedScheduler.on_tick` (roots from queued interrupts and due wakeups, `sysRoots`; wakeups
  deleted, interrupts cleared, `sysPre`), `Ticker._start_tick` + `schedule_possible_updates`
  (`Ticker.call`); the inner level becomes active.  The dispatch stays pending at the outer level
  (its `Output` has not been produced); an `Input` is delivered once (no open inner tick of the
  same component), or
* `close`: an active inner level whose tick is over (nothing pending, nothing left to update, no
  open inner tick of its own) returns: the second half of `NestedScheduler.on_tick`
  (`get_first_wakeups`, `sysCallAt`), `SystemComponent.output`, and the outer scheduler's
  `handle_message` (`propagate`, `add_wakeup`) for that `Output`.

Steps of different active levels interleave arbitrarily.  `TickInter` is a complete execution of a
tick: from the configuration in which only the ticked level is active (just after `Ticker.call`)
to one in which only that level is active and its tick is over.  Only successful executions are
described, as in `Core/SimAny.lean`.
-/
import TickitModel.Core.SimAny

namespace Tickit

/-- the part of the state of one scheduler level that exists only while it is inside a tick:
`LoopSt` without the shared `SimSt`, plus the arguments of the `on_tick` that started the tick. -/
structure IFrame where
  L : Level
  /-- `time` of the tick -/
  t : SimTime
  /-- `NestedScheduler.input_changes` (the `changes` of the `Input` that started the tick) -/
  inCh : List (Port × V)
  tk : Ticker V
  /-- dispatches handed out by the ticker whose `Output` / `Skip` has not been propagated yet -/
  pending : List (Dispatch V)
  /-- `NestedScheduler.output_changes` -/
  outCh : List (Port × V)

/-- the tree of the scheduler levels that are inside a tick: a level and the inner levels of its
system components whose `Input` has been delivered and whose inner tick is not over. -/
inductive ITree where
  | node (fr : IFrame) (kids : List ITree)

def ITree.fr : ITree → IFrame
  | .node fr _ => fr

def ITree.kids : ITree → List ITree
  | .node _ kids => kids

/-- the name of the level at the root of the tree (= the name of the system component it is the
inner level of) -/
def ITree.name (T : ITree) : Comp := T.fr.L.name

/-- the answer of a component that answers in ONE step: skip, mock `external`, mock `expose`,
device.  Clause by clause `AnswerAny` without its `sys` clause: new state, new exposed output
changes of the level, the `Output.changes` and the `call_at`. -/
inductive AnswerNow (S : Static) (orc : Oracle) :
    Level → List (Port × V) → SimSt → List (Port × V) → Dispatch V →
      SimSt × List (Port × V) × List (Port × V) × Option SimTime → Prop
  | skip {L : Level} {inCh : List (Port × V)} {st : SimSt} {outCh0 : List (Port × V)}
      {c : Comp} {t : SimTime} :
      AnswerNow S orc L inCh st outCh0 (.skip c t) (st, outCh0, [], none)
  | external {L : Level} {inCh : List (Port × V)} {st : SimSt} {outCh0 : List (Port × V)}
      {c : Comp} {t : SimTime} {ins : List (Port × V)} :
      (L.name != "" && c == pseudoExternal) = true →
      AnswerNow S orc L inCh st outCh0 (.input c t ins) (st, outCh0, inCh, none)
  | expose {L : Level} {inCh : List (Port × V)} {st : SimSt} {outCh0 : List (Port × V)}
      {c : Comp} {t : SimTime} {ins : List (Port × V)} :
      (L.name != "" && c == pseudoExternal) = false →
      (L.name != "" && c == pseudoExpose) = true →
      AnswerNow S orc L inCh st outCh0 (.input c t ins) (st, ins, [], none)
  | dev {L : Level} {inCh : List (Port × V)} {st : SimSt} {outCh0 : List (Port × V)}
      {c : Comp} {t : SimTime} {ins : List (Port × V)} {resp : DevResp} :
      (L.name != "" && c == pseudoExternal) = false →
      (L.name != "" && c == pseudoExpose) = false →
      S.isSys c = false →
      (agetD orc c [])[agetD st.count c 0]? = some resp →
      resp.raises = false →
      AnswerNow S orc L inCh st outCh0 (.input c t ins)
        ((devAfter st c t ins resp).1, outCh0, (devAfter st c t ins resp).2, resp.callAt)

/-- ONE step of the interleaved semantics: some active level (reached by `inner`) answers a pending
dispatch completely, delivers the `Input` of a system component (its inner level becomes active),
or receives the `Output` of a system component whose inner tick is over. -/
inductive IStep (S : Static) (orc : Oracle) : SimSt × ITree → SimSt × ITree → Prop
  | answer {st : SimSt} {fr : IFrame} {kids : List ITree} {i : Nat} {d : Dispatch V}
      {st' : SimSt} {outCh' changes : List (Port × V)} {callAt : Option SimTime}
      {tk' : Ticker V} {ds : List (Dispatch V)} :
      fr.pending[i]? = some d →
      AnswerNow S orc fr.L fr.inCh st fr.outCh d (st', outCh', changes, callAt) →
      fr.tk.propagate fr.L.wiring d.comp d.time changes = .ok (tk', ds) →
      IStep S orc (st, .node fr kids)
        (anyWake st' fr.L.name d.comp callAt,
          .node { fr with tk := tk', pending := fr.pending.eraseIdx i ++ ds, outCh := outCh' } kids)
  | opn {st : SimSt} {fr : IFrame} {kids : List ITree} {i : Nat} {c : Comp} {t : SimTime}
      {ins : List (Port × V)} {Lc : Level} {tk : Ticker V} {ds : List (Dispatch V)} :
      fr.pending[i]? = some (.input c t ins) →
      (fr.L.name != "" && c == pseudoExternal) = false →
      (fr.L.name != "" && c == pseudoExpose) = false →
      S.isSys c = true →
      (∀ k ∈ kids, k.name ≠ c) →
      S.level c = some Lc →
      (Ticker.call Lc.wiring t (sysRoots S st c t) :
        Except TickErr (Ticker V × List (Dispatch V))) = .ok (tk, ds) →
      IStep S orc (st, .node fr kids)
        (sysPre st c t, .node fr (kids ++ [.node ⟨Lc, t, ins, tk, ds, []⟩ []]))
  | close {st : SimSt} {fr : IFrame} {kids : List ITree} {j : Nat} {g : IFrame} {i : Nat}
      {tk' : Ticker V} {ds : List (Dispatch V)} :
      kids[j]? = some (.node g []) →
      g.pending = [] → g.tk.toUpdate.isEmpty = true →
      fr.pending[i]? = some (.input g.L.name g.t g.inCh) →
      fr.tk.propagate fr.L.wiring g.L.name g.t g.outCh = .ok (tk', ds) →
      IStep S orc (st, .node fr kids)
        (anyWake st fr.L.name g.L.name (sysCallAt st g.L.name g.t),
          .node { fr with tk := tk', pending := fr.pending.eraseIdx i ++ ds } (kids.eraseIdx j))
  | inner {st st' : SimSt} {fr : IFrame} {kids : List ITree} {j : Nat} {k k' : ITree} :
      kids[j]? = some k → IStep S orc (st, k) (st', k') →
      IStep S orc (st, .node fr kids) (st', .node fr (kids.set j k'))

/-- any number of interleaved steps -/
inductive IRun (S : Static) (orc : Oracle) : SimSt × ITree → SimSt × ITree → Prop
  | refl {a : SimSt × ITree} : IRun S orc a a
  | step {a b c : SimSt × ITree} : IStep S orc a b → IRun S orc b c → IRun S orc a c

/-- a COMPLETE interleaved execution of one tick of scheduler level `lvl` at time `t` with roots
`roots` (`inCh`: the input changes of the enclosing system component): from "only `lvl` is active,
its ticker has just been called" to "only `lvl` is active, nothing pending, nothing left to
update"; the result is the final shared state and the exposed output changes of `lvl`. -/
inductive TickInter (S : Static) (orc : Oracle) :
    Comp → SimTime → List Comp → List (Port × V) → SimSt → SimSt × List (Port × V) → Prop
  | mk {lvl : Comp} {t : SimTime} {roots : List Comp} {inCh : List (Port × V)} {st st' : SimSt}
      {L : Level} {tk : Ticker V} {ds : List (Dispatch V)} {fr : IFrame} :
      S.level lvl = some L →
      (Ticker.call L.wiring t roots : Except TickErr (Ticker V × List (Dispatch V))) = .ok (tk, ds) →
      IRun S orc (st, .node ⟨L, t, inCh, tk, ds, []⟩ []) (st', .node fr []) →
      fr.pending = [] → fr.tk.toUpdate.isEmpty = true →
      TickInter S orc lvl t roots inCh st (st', fr.outCh)

/-! ### the master loop over interleaved ticks

`MasterInitialAny` / `MasterRunAny` of `Core/SimAny.lean` with every tick replaced by ANY complete
interleaved execution of it (`nextStim`, `stimStep`, `tickStart` are the same functions). -/

/-- the initial tick of the master, interleaved -/
inductive MasterInitialInter (S : Static) (orc : Oracle) (t0 : SimTime) (now : Int) :
    MasterSt × TickRec → Prop
  | mk {L : Level} {st : SimSt} {out : List (Port × V)} :
      S.level "" = some L →
      TickInter S orc "" t0 L.wiring.components [] {} (st, out) →
      MasterInitialInter S orc t0 now
        ({ sim := st, tickerTime := t0, lastReal := now, now := now }, ⟨t0, now, L.wiring.components⟩)

/-- `masterRun` with every tick replaced by any complete interleaved execution of it -/
inductive MasterRunInter (S : Static) (orc : Oracle) (fuel : Nat) (s : Speed) :
    Nat → Nat → MasterSt → List Stim → List TickRec → MasterSt × List TickRec → Prop
  | outOfSteps {nTicks : Nat} {m : MasterSt} {stims : List Stim} {acc : List TickRec} :
      MasterRunInter S orc fuel s 0 nTicks m stims acc (m, acc)
  | ticksDone {steps : Nat} {m : MasterSt} {stims : List Stim} {acc : List TickRec} :
      MasterRunInter S orc fuel s (steps + 1) 0 m stims acc (m, acc)
  | stim {steps nTicks : Nat} {m : MasterSt} {stims : List Stim} {acc : List TickRec} {st : Stim}
      {rest : List Stim} {r : MasterSt × List TickRec} :
      nextStim m s (firstWakeups (m.sim.sched "").wake).2 stims = some (st, rest) →
      MasterRunInter S orc fuel s steps (nTicks + 1) (stimStep S fuel s m st) rest acc r →
      MasterRunInter S orc fuel s (steps + 1) (nTicks + 1) m stims acc r
  | tick {steps nTicks : Nat} {m : MasterSt} {stims : List Stim} {acc : List TickRec}
      {comps : List Comp} {w : SimTime} {sim2 : SimSt} {out : List (Port × V)}
      {r : MasterSt × List TickRec} :
      nextStim m s (firstWakeups (m.sim.sched "").wake).2 stims = none →
      firstWakeups (m.sim.sched "").wake = (comps, some w) →
      TickInter S orc "" w comps [] (tickStart m.sim comps) (sim2, out) →
      MasterRunInter S orc fuel s steps nTicks
        { sim := sim2, tickerTime := w, lastReal := dueReal m s w, now := dueReal m s w } stims
        (acc ++ [⟨w, dueReal m s w, comps⟩]) r →
      MasterRunInter S orc fuel s (steps + 1) (nTicks + 1) m stims acc r
  | idle {steps nTicks : Nat} {m : MasterSt} {stims : List Stim} {acc : List TickRec} :
      nextStim m s (firstWakeups (m.sim.sched "").wake).2 stims = none →
      (firstWakeups (m.sim.sched "").wake).2 = none →
      MasterRunInter S orc fuel s (steps + 1) (nTicks + 1) m stims acc (m, acc)

end Tickit
