/-
M6 — the in-memory bus (`core/state_interfaces/internal.py`).

Synchronous, re-entrant delivery: `push` appends to the topic log and calls each
subscriber's handler inline; a handler may itself publish (to other topics).  Handlers are
a parameter `h : consumer → value → list of (topic, value)` publications.
`recv` is a ghost log of deliveries `(consumer, topic, value)` in delivery order.
-/
import TickitModel.Core.Basic

namespace Tickit

abbrev Topic := String
abbrev Cid := Nat

structure Bus where
  topics : List (Topic × List Int) := []
  subs : List (Topic × List Cid) := []
  recv : List (Cid × Topic × Int) := []
  deriving Repr

/-- what consumer `k` publishes when it is handed value `v` that arrived on topic `T`
(tickit messages identify their origin, so a handler's reaction may depend on it) -/
abbrev Handler := Cid → Topic → Int → List (Topic × Int)

def Bus.log (b : Bus) (T : Topic) : List Int := agetD b.topics T []
def Bus.subsOf (b : Bus) (T : Topic) : List Cid := agetD b.subs T []

mutual
/-- `InternalStateServer.push` (fuel bounds the re-entrancy depth). -/
def Bus.push (h : Handler) : Nat → Bus → Topic → Int → Bus
  | 0, b, _, _ => b
  | n + 1, b, T, v =>
    let b1 := { b with topics := upsert b.topics T (b.log T ++ [v]) }
    Bus.deliverAll h n T v (b1.subsOf T) b1
termination_by n _ _ _ => (n, 0, 0)
/-- the `for subscriber in self._subscribers[topic]` loop -/
def Bus.deliverAll (h : Handler) : Nat → Topic → Int → List Cid → Bus → Bus
  | _, _, _, [], b => b
  | n, T, v, k :: ks, b => Bus.deliverAll h n T v ks (Bus.deliver h n b k T v)
termination_by n _ _ ks _ => (n, 3, ks.length)
/-- `consumer.add_message` → `callback(value)` → the handler's publications -/
def Bus.deliver (h : Handler) : Nat → Bus → Cid → Topic → Int → Bus
  | n, b, k, T, v =>
    let b' := { b with recv := b.recv ++ [(k, T, v)] }
    Bus.pushAll h n (h k T v) b'
termination_by n _ _ _ _ => (n, 2, 0)
def Bus.pushAll (h : Handler) : Nat → List (Topic × Int) → Bus → Bus
  | _, [], b => b
  | 0, _, b => b
  | n + 1, (T, v) :: rest, b => Bus.pushAll h (n + 1) rest (Bus.push h n b T v)
termination_by n ps _ => (n, 1, ps.length)
end

/-- replay of the stored messages of one topic to a new subscriber -/
def Bus.replay (h : Handler) (n : Nat) (k : Cid) (T : Topic) : List Int → Bus → Bus
  | [], b => b
  | v :: vs, b => Bus.replay h n k T vs (Bus.deliver h n b k T v)

/-- `InternalStateServer.subscribe(consumer, topics)` -/
def Bus.subscribe (h : Handler) (n : Nat) (k : Cid) : List Topic → Bus → Bus
  | [], b => b
  | T :: Ts, b =>
    let b1 := { b with subs := upsert b.subs T (sinsert (b.subsOf T) k) }
    Bus.subscribe h n k Ts (Bus.replay h n k T (b1.log T) b1)

inductive BusOp where
  | subscribe (k : Cid) (topics : List Topic)
  | produce (T : Topic) (v : Int)
  deriving Repr

def Bus.apply (h : Handler) (n : Nat) (b : Bus) : BusOp → Bus
  | .subscribe k Ts => Bus.subscribe h n k Ts b
  | .produce T v => Bus.push h n b T v

/-- what consumer `k` received from topic `T`, in order -/
def Bus.received (b : Bus) (k : Cid) (T : Topic) : List Int :=
  (b.recv.filter (fun e => e.1 == k && e.2.1 == T)).map (·.2.2)

/-- what consumer `k` received, all topics, in order -/
def Bus.receivedAll (b : Bus) (k : Cid) : List (Topic × Int) :=
  (b.recv.filter (fun e => e.1 == k)).map (·.2)

end Tickit
