/-
M7' — resource ledger: which asynchronous tasks, timers and bookkeeping entries each
scheduler operation creates and which of them it releases again (by completion or
cancellation), per `master.py` `_do_tick`, `ticker.py` (one task per dispatch, held in
`to_update` until the component answers), `system_component.py` `on_tick` (the tick/error
race), `io/tcp_io.py` (one reply task per chunk, dropped when done).
-/
import TickitModel.Core.Basic

namespace Tickit

structure Ledger where
  /-- tasks not finished yet -/
  live : Nat := 0
  /-- finished tasks still referenced from a long-lived container -/
  retained : Nat := 0
  /-- pending timers -/
  timers : Nat := 0
  /-- entries in `wakeups` + `_pending_interrupts` -/
  entries : Nat := 0
  deriving Repr, DecidableEq

/-- operations of a run, at the granularity at which the code creates and releases resources -/
inductive LOp where
  /-- `_do_tick` whose sleep wins: `new` + `current` tasks, one timer; the tick runs with
  `n` dispatches (each a task held in `to_update` until answered); served wakeups deleted -/
  | tickSleepWins (dispatches served added : Nat)
  /-- `_do_tick` pre-empted by a new wakeup: the sleep task and its timer are cancelled -/
  | tickPreempted
  /-- an interrupt handled between ticks: one bookkeeping entry per component at most -/
  | interrupt (fresh : Bool)
  /-- one tick of a system component: the inner tick task and the error waiter; the loser
  is cancelled; the inner tick itself is a `tickSleepWins`-like body with `n` dispatches -/
  | systemTick (dispatches : Nat)
  /-- one chunk on an open TCP connection: one reply task, dropped from the connection's
  set when it is done -/
  | tcpChunk
  deriving Repr

/-- effect of one complete operation on the ledger; `ncomp` bounds the bookkeeping entries -/
def Ledger.apply (ncomp : Nat) (l : Ledger) : LOp → Ledger
  | .tickSleepWins _ served added =>
    -- +2 tasks +1 timer during the race; sleep finished (timer fired), waiter cancelled;
    -- dispatch tasks finish, their handles leave `to_update` when the component answers
    { l with entries := min (2 * ncomp) (l.entries - min served l.entries + added) }
  | .tickPreempted => l
  | .interrupt fresh => { l with entries := min (2 * ncomp) (l.entries + (if fresh then 2 else 0)) }
  | .systemTick _ => l
  | .tcpChunk => l

def Ledger.run (ncomp : Nat) (l : Ledger) (ops : List LOp) : Ledger := ops.foldl (Ledger.apply ncomp) l

/-- the peak number of live tasks *inside* one operation (on top of the baseline) -/
def LOp.peakLive : LOp → Nat
  | .tickSleepWins d _ _ => 2 + d
  | .tickPreempted => 2
  | .interrupt _ => 0
  | .systemTick d => 2 + d
  | .tcpChunk => 1

/-- the behaviour before the repairs: the loser of each race and every reply task stay -/
def Ledger.applyLeaky (l : Ledger) : LOp → Ledger
  | .tickSleepWins _ _ _ => { l with live := l.live + 1 }
  | .tickPreempted => { l with live := l.live + 1, timers := l.timers + 1 }
  | .interrupt _ => l
  | .systemTick _ => { l with live := l.live + 1 }
  | .tcpChunk => { l with retained := l.retained + 1 }

end Tickit
