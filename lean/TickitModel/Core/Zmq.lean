/-
M9c — ZeroMQ push stream (`adapters/zmq.py`, `io/zeromq_push_io.py`) as a small-step
transition system with explicit yield points.

Senders: sender 0 is the queue loop (`send_messages_forever`), senders 1.. are direct
sequences (`send_message_sequence_soon`), sender `setup` is the `_ensure_socket` in `setup`.
Each sender runs `send_message` for its messages one after the other:
  wantLock → (holds lock) [factory latency] → gotSocket → write → drain latency → next.
The lock is `asyncio.Lock` (FIFO).  The environment chooses which sender moves.
-/
import TickitModel.Core.Basic

namespace Tickit

inductive Pc where
  | idle          -- between messages (queue loop: waiting for the queue)
  | wantLock      -- blocked on / about to enter `async with self._socket_lock`
  | inFactory     -- holds the lock, awaiting the socket factory
  | ready         -- left the lock with a socket; next step writes
  | draining      -- wrote; awaiting `drain()`
  deriving Repr, DecidableEq

structure Sender where
  pc : Pc := .idle
  /-- remaining messages of a direct sequence (sender 0 takes from the queue instead) -/
  todo : List Nat := []
  cur : Option Nat := none
  /-- ghost: the messages this direct sequence was spawned with -/
  orig : List Nat := []
  deriving Repr

structure Zmq where
  socket : Bool := false
  factoryCalls : Nat := 0
  lockHeld : Option Nat := none
  waiters : List Nat := []          -- FIFO lock queue
  queue : List Nat := []
  senders : List Sender := []
  writes : List (Nat × Nat) := []   -- (sender, message)
  queued : List Nat := []           -- ghost: every message ever queued, in order
  deriving Repr

inductive ZAct where
  | enqueue (m : Nat)               -- add_message_to_stream
  | spawn (msgs : List Nat)         -- send_message_sequence_soon
  | ensure                          -- the bare `_ensure_socket()` of `setup` (no message)
  | step (i : Nat)                  -- sender i makes its next move
  deriving Repr

def setSender (z : Zmq) (i : Nat) (s : Sender) : Zmq := { z with senders := z.senders.set i s }

/-- one move of sender `i`; `none` = not enabled. -/
def Zmq.stepSender (z : Zmq) (i : Nat) : Option Zmq :=
  match z.senders[i]? with
  | none => none
  | some s =>
    match s.pc with
    | .idle =>
      if i == 0 then
        match z.queue with
        | [] => none
        | m :: q => some (setSender { z with queue := q } i { s with pc := .wantLock, cur := some m })
      else
        match s.todo with
        | [] => none
        | m :: t => some (setSender z i { s with pc := .wantLock, cur := some m, todo := t })
    | .wantLock =>
      -- acquire when free and (no waiters or first waiter), else enqueue as waiter
      match z.lockHeld with
      | some _ => if i ∈ z.waiters then none else some { z with waiters := z.waiters ++ [i] }
      | none =>
        if z.waiters.head? == some i || z.waiters.isEmpty then
          let z1 := { z with waiters := z.waiters.filter (· != i) }
          if z1.socket then some (setSender z1 i { s with pc := .ready })   -- lock taken and released at once
          else some (setSender { z1 with lockHeld := some i, factoryCalls := z1.factoryCalls + 1 } i { s with pc := .inFactory })
        else if i ∈ z.waiters then none else some { z with waiters := z.waiters ++ [i] }
    | .inFactory =>
      -- factory returns: socket stored, lock released
      some (setSender { z with socket := true, lockHeld := none } i { s with pc := .ready })
    | .ready =>
      match s.cur with
      | none => some (setSender z i { s with pc := .idle })      -- the `setup` call: no message
      | some m => some (setSender { z with writes := z.writes ++ [(i, m)] } i { s with pc := .draining })
    | .draining => some (setSender z i { s with pc := .idle, cur := none })

def Zmq.act (z : Zmq) : ZAct → Option Zmq
  | .enqueue m => some { z with queue := z.queue ++ [m], queued := z.queued ++ [m] }
  | .spawn msgs => some { z with senders := z.senders ++ [{ todo := msgs, orig := msgs }] }
  | .ensure => some { z with senders := z.senders ++ [{ pc := .wantLock }] }
  | .step i => z.stepSender i

/-- initial state: the queue loop (sender 0) exists. -/
def Zmq.init : Zmq := { senders := [{}] }

def Zmq.run (z : Zmq) : List ZAct → Zmq
  | [] => z
  | a :: as => match z.act a with
    | some z' => Zmq.run z' as
    | none => Zmq.run z as

/-! serialisation rule, part by part -/
inductive Part where
  | bytes (b : List UInt8)
  | json (s : String)   -- a str / mapping / model: its `json.dumps` text is supplied
  deriving Repr

def serializePart : Part → List UInt8
  | .bytes b => b
  | .json s => s.toUTF8.toList

def serialize (m : List Part) : List (List UInt8) := m.map serializePart

end Tickit
