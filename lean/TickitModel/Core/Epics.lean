/-
M10 — the EPICS adapter's interrupt records and the adapter notification path
(`adapters/epics.py`, `core/components/device_component.py`, `core/adapter.py`).

```python
# adapters/epics.py  (since commit 1b72c96)
class EpicsAdapter:
    interrupt_records: Dict[InputRecord, Callable[[], Any]]
    interrupt: RaiseInterrupt

    def __init__(self) -> None:
        self.interrupt_records = {}                      # per instance

    def link_input_on_interrupt(self, record: InputRecord, getter: Callable[[], Any]) -> None:
        self.interrupt_records[record] = getter

    def after_update(self) -> None:
        for record, getter in self.interrupt_records.items():
            current_value = getter()
            record.set(current_value)

# before 1b72c96 (and again under the seeded change C10-m2, a mutable default argument):
class EpicsAdapter:
    interrupt_records: Dict[InputRecord, Callable[[], Any]] = {}     # ONE dict for the class

# core/adapter.py
class AdapterContainer(Generic[A]):
    adapter: A
    io: AdapterIo[A]

# core/components/device_component.py
class DeviceComponent(BaseComponent):
    name: ComponentID
    device: Device
    adapters: List[AdapterContainer] = field(default_factory=list)

    async def on_tick(self, time, changes) -> None:
        self.device_inputs = {**self.device_inputs, **changes}
        device_update = self.device.update(SimTime(time), self.device_inputs)
        for adapter in self.adapters:
            adapter.adapter.after_update()
        out_changes = ...
        await self.output(time, out_changes, device_update.call_at)
```

Modelled: a configuration is a list of device components, each with a name and a list of adapters;
an adapter is the sequence of its `link_input_on_interrupt` calls (record name, getter), its table
the insertion-ordered dict these calls build.  A getter is a function of the state of the adapter's
OWN device (in the examples: `self.device.get_value`), so it is modelled as `St → Val` applied to
the current state of the owner's device.  Devices are oracles, as everywhere in the model: a history
is a list of updates `(c, s)` — component `c` is ticked and its device is in state `s` afterwards.
`shared := false` is the code; `shared := true` the pre-repair class-level table: every link call of
every adapter goes into one table and every adapter's `after_update` walks all of it (each getter
still reads its own owner's device).  Adapters that are not EPICS adapters (their `after_update`
does nothing) are adapters without links.

Assumed / not modelled: record objects are identified by (owning adapter, record name) — two
softioc records are different dict keys even if equal by name; softioc itself (`record.set`), the
IOC start-up (`register_adapter` / `notify_adapter_ready`), `EpicsIo`; an exception raised by a
getter.
-/
import TickitModel.Core.Basic

namespace Tickit
namespace Epics

abbrev RecName := String
/-- an adapter is identified by its component and its position in `DeviceComponent.adapters` -/
abbrev AdapterRef := Comp × Nat

variable {St Val : Type}

/-- an adapter: its `link_input_on_interrupt(record, getter)` calls, in order -/
structure Adapter (St Val : Type) where
  links : List (RecName × (St → Val))

/-- `interrupt_records` of one instance: `d[record] = getter` for each link call -/
def Adapter.table (a : Adapter St Val) : List (RecName × (St → Val)) :=
  a.links.foldl (fun t l => upsert t l.1 l.2) []

/-- `DeviceComponent` (device abstracted to its state) -/
structure DevComp (St Val : Type) where
  name : Comp
  adapters : List (Adapter St Val)

abbrev Config (St Val : Type) := List (DevComp St Val)

/-- the component registered under a name -/
def Config.lookup (cfg : Config St Val) (c : Comp) : Option (DevComp St Val) :=
  cfg.find? (fun d => d.name == c)

inductive Ev (Val : Type) where
  /-- `device.update(time, inputs)` of component `c` -/
  | deviceUpdate (c : Comp)
  /-- `after_update()` of adapter `a` is called -/
  | notify (a : AdapterRef)
  /-- `record.set(v)` executed inside `by`'s `after_update`; the record was linked by `owner` -/
  | recordSet (by_ : AdapterRef) (owner : AdapterRef) (record : RecName) (v : Val)
  /-- the component's `Output` is published -/
  | output (c : Comp)
  deriving Repr, DecidableEq

/-- one entry of a table as `after_update` walks it -/
abbrev Entry (St Val : Type) := (AdapterRef × RecName) × (St → Val)

/-- an instance's own table, keys tagged with the owner -/
def ownTable (ref : AdapterRef) (a : Adapter St Val) : List (Entry St Val) :=
  a.table.map (fun rg => ((ref, rg.1), rg.2))

/-- all link calls of a component's adapters, in order, tagged with the owner -/
def compLinks (d : DevComp St Val) : List (Entry St Val) :=
  d.adapters.zipIdx.flatMap (fun ai => ai.1.links.map (fun rg => (((d.name, ai.2), rg.1), rg.2)))

/-- the class-level table: every link call of every adapter of the process -/
def sharedTable (cfg : Config St Val) : List (Entry St Val) :=
  (cfg.flatMap compLinks).foldl (fun t l => upsert t l.1 l.2) []

/-- the table `self.interrupt_records` denotes for adapter `ref` -/
def tableSeenBy (shared : Bool) (cfg : Config St Val) (ref : AdapterRef) (a : Adapter St Val) :
    List (Entry St Val) :=
  if shared then sharedTable cfg else ownTable ref a

/-- `EpicsAdapter.after_update`, given the current state of every device -/
def afterUpdate (shared : Bool) (cfg : Config St Val) (σ : Comp → St) (ref : AdapterRef)
    (a : Adapter St Val) : List (Ev Val) :=
  .notify ref :: (tableSeenBy shared cfg ref a).map
    (fun e => .recordSet ref e.1.1 e.1.2 (e.2 (σ e.1.1.1)))

/-- `DeviceComponent.on_tick`: update, then every adapter of THIS component in order, then Output -/
def onTick (shared : Bool) (cfg : Config St Val) (σ : Comp → St) (d : DevComp St Val) :
    List (Ev Val) :=
  [.deviceUpdate d.name] ++
    d.adapters.zipIdx.flatMap (fun ai => afterUpdate shared cfg σ (d.name, ai.2) ai.1) ++
    [.output d.name]

/-- the events of one update of component `c` (nothing if there is no such component) -/
def updateOf (shared : Bool) (cfg : Config St Val) (σ : Comp → St) (c : Comp) : List (Ev Val) :=
  match cfg.lookup c with
  | some d => onTick shared cfg σ d
  | none => []

def setState (σ : Comp → St) (c : Comp) (s : St) : Comp → St :=
  fun c' => if c' = c then s else σ c'

/-- a history of updates: `(c, s)` = component `c` is ticked, its device is then in state `s`. -/
def run (shared : Bool) (cfg : Config St Val) : (Comp → St) → List (Comp × St) → List (Ev Val)
  | _, [] => []
  | σ, (c, s) :: h =>
    updateOf shared cfg (setState σ c s) c ++ run shared cfg (setState σ c s) h

/-- the code: per-instance tables -/
def runFixed (cfg : Config St Val) (σ : Comp → St) (h : List (Comp × St)) : List (Ev Val) :=
  run false cfg σ h

/-- pre-repair: one class-level table -/
def runShared (cfg : Config St Val) (σ : Comp → St) (h : List (Comp × St)) : List (Ev Val) :=
  run true cfg σ h

/-- the event belongs to component `c`: its device update, a notification of one of its adapters,
a record set by or owned by one of its adapters, its output -/
def Ev.concerns (c : Comp) : Ev Val → Bool
  | .deviceUpdate c' => c' == c
  | .notify a => a.1 == c
  | .recordSet b o _ _ => b.1 == c || o.1 == c
  | .output c' => c' == c

def Ev.isNotify (a : AdapterRef) : Ev Val → Bool
  | .notify a' => a' == a
  | _ => false

/-- the event is an action of adapter `a`: its notification or a record set inside its
`after_update` -/
def Ev.byAdapter (a : AdapterRef) : Ev Val → Bool
  | .notify a' => a' == a
  | .recordSet b _ _ _ => b == a
  | _ => false

/-- what adapter `ref` (with per-instance table) does on one notification when its device is in
state `s`: every record of its table set once, in table order, from its getter -/
def adapterEvents (ref : AdapterRef) (a : Adapter St Val) (s : St) : List (Ev Val) :=
  .notify ref :: a.table.map (fun rg => .recordSet ref ref rg.1 (rg.2 s))

end Epics
end Tickit
