/-
M4''' — the master scheduler (`MSt`, Core/Master.lean) composed with the interrupt queue of ONE
nested scheduler (`NSt`, Core/NestedInt.lean): the top level holds one system component `sys`
and any number of ordinary components; the devices inside `sys` are the "inner" components.

What links the two levels (`schedulers/nested.py`, `components/system_component.py`):

* `NestedScheduler.schedule_interrupt(c)` queues `c` and AWAITS `raise_interrupt()`, which is the
  master's `schedule_interrupt(sys)`: one step changes both states (`innerInterrupt`).
* `SystemComponent.on_tick` is the beginning of `sys`'s update at the master AND the start of an
  inner tick (`beginSys due`; `due` = the inner components whose callbacks are due, they become
  roots together with everything queued).  It is not re-entered while an inner tick runs.
* the system component answers (`output sys _`) only after its inner tick has ended, and a master
  tick does not end while the inner tick it triggered is still running.

Definitions only; nothing here is used by the driver.
-/
import TickitModel.Core.Master
import TickitModel.Core.NestedInt

namespace Tickit

/-- master state and the state of the nested scheduler inside the system component -/
structure TSt where
  m : MSt := {}
  n : NSt := {}
  deriving Repr

inductive TAct where
  /-- a device inside `sys` raises an interrupt: nested `.interrupt c` and, in the same step,
  master `.interrupt sys stamp` -/
  | innerInterrupt (c : Comp) (stamp : SimTime)
  /-- an ordinary top-level component (`c ≠ sys`) raises an interrupt -/
  | topInterrupt (c : Comp) (stamp : SimTime)
  /-- the answer of a top-level component is handled; for `sys` only after its inner tick ended -/
  | output (c : Comp) (callAt : Option SimTime)
  /-- master `.startTick` -/
  | startTick
  /-- the update of an ordinary top-level component (`c ≠ sys`) begins -/
  | beginUpdate (c : Comp)
  /-- `SystemComponent.on_tick`: master `.beginUpdate sys` and nested `.startTick due` -/
  | beginSys (due : List Comp)
  /-- nested `.beginUpdate c` -/
  | innerBegin (c : Comp)
  /-- nested `.endTick` (only once every inner root has begun its update) -/
  | innerEnd
  /-- master `.endTick` (only once every root has begun its update and no inner tick is running) -/
  | endTick
  deriving Repr, DecidableEq

/-- one step of the composed system; `none` = the action is not enabled.  An action is enabled iff
its constituent master / nested steps are, plus the side conditions named above. -/
def TSt.step (s : TSt) (sys : Comp) : TAct → Option TSt
  | .innerInterrupt c stamp =>
    match s.m.step (.interrupt sys stamp), s.n.step (.interrupt c) with
    | some m', some n' => some { m := m', n := n' }
    | _, _ => none
  | .topInterrupt c stamp =>
    if c = sys then none
    else (s.m.step (.interrupt c stamp)).map fun m' => { s with m := m' }
  | .output c callAt =>
    if c = sys ∧ s.n.ticking.isSome = true then none
    else (s.m.step (.output c callAt)).map fun m' => { s with m := m' }
  | .startTick => (s.m.step .startTick).map fun m' => { s with m := m' }
  | .beginUpdate c =>
    if c = sys then none
    else (s.m.step (.beginUpdate c)).map fun m' => { s with m := m' }
  | .beginSys due =>
    match s.m.step (.beginUpdate sys), s.n.step (.startTick due) with
    | some m', some n' => some { m := m', n := n' }
    | _, _ => none
  | .innerBegin c => (s.n.step (.beginUpdate c)).map fun n' => { s with n := n' }
  | .innerEnd => (s.n.step .endTick).map fun n' => { s with n := n' }
  | .endTick =>
    if s.n.ticking.isSome = true then none
    else (s.m.step .endTick).map fun m' => { s with m := m' }

/-- run a history; actions that are not enabled are ignored -/
def TSt.run (s : TSt) (sys : Comp) : List TAct → TSt
  | [] => s
  | a :: as => match s.step sys a with
    | some s' => TSt.run s' sys as
    | none => TSt.run s sys as

/-! ### vocabulary of the property statements -/

/-- `c` is a root of the running inner tick whose update has not begun yet -/
def TSt.InnerRoot (s : TSt) (c : Comp) : Prop :=
  ∃ rem, s.n.ticking = some rem ∧ c ∈ rem

/-- `sys` is a root of the running master tick whose update (`on_tick`) has not begun yet -/
def TSt.SysRoot (s : TSt) (sys : Comp) : Prop :=
  ∃ rem, s.m.ticking = some rem ∧ sys ∈ rem

/-- the master holds an unserved interrupt of `sys` stamped `i` and a wakeup of `sys` no later -/
def TSt.SysPending (s : TSt) (sys : Comp) : Prop :=
  ∃ i w, alookup s.m.pend sys = some i ∧ alookup s.m.wake sys = some w ∧ w ≤ i

/-- somewhere in the history `h` run from `s`, an action satisfying `B` is enabled when its turn
comes (so it is executed, not ignored) -/
def TSt.Executes (s : TSt) (sys : Comp) (h : List TAct) (B : TAct → Prop) : Prop :=
  ∃ h1 a h2, h = h1 ++ a :: h2 ∧ B a ∧ ((s.run sys h1).step sys a).isSome = true

/-- in the history `h` run from `s` the update of the inner component `c` begins (the action
`innerBegin c` is executed), and right after that `c` is no longer owed an update -/
def TSt.Begins (s : TSt) (sys : Comp) (h : List TAct) (c : Comp) : Prop :=
  ∃ h1 h2 s', h = h1 ++ TAct.innerBegin c :: h2 ∧
    (s.run sys h1).step sys (.innerBegin c) = some s' ∧ c ∉ s'.n.owed

end Tickit
