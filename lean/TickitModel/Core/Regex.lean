/-
M9b' — a small regular-expression matcher for the fragment used by command patterns
(literals, character classes, `.`, concatenation, alternation, `?`, `*`, `+`), by Brzozowski
derivatives.  `fullmatch`-style: the whole input must match.  Groups do not influence
whether a pattern matches, so they are not represented.
-/
namespace Tickit

inductive Regex where
  | empty                         -- matches nothing
  | eps                           -- matches the empty string
  | chr (c : Char)
  | cls (ranges : List (Char × Char)) (negated : Bool)   -- [a-z0-9] / [^…]
  | any                           -- `.` (everything but newline)
  | seq (r s : Regex)
  | alt (r s : Regex)
  | star (r : Regex)
  deriving Repr, DecidableEq

def Regex.opt (r : Regex) : Regex := .alt r .eps
def Regex.plus (r : Regex) : Regex := .seq r (.star r)

def inRanges (c : Char) (rs : List (Char × Char)) : Bool := rs.any (fun r => r.1 ≤ c && c ≤ r.2)

/-- does the pattern match the empty string? -/
def Regex.nullable : Regex → Bool
  | .empty => false
  | .eps => true
  | .chr _ => false
  | .cls _ _ => false
  | .any => false
  | .seq r s => r.nullable && s.nullable
  | .alt r s => r.nullable || s.nullable
  | .star _ => true

def Regex.deriv (c : Char) : Regex → Regex
  | .empty => .empty
  | .eps => .empty
  | .chr d => if c = d then .eps else .empty
  | .cls rs neg => if inRanges c rs != neg then .eps else .empty
  | .any => if c = '\n' then .empty else .eps
  | .seq r s => if r.nullable then .alt (.seq (r.deriv c) s) (s.deriv c) else .seq (r.deriv c) s
  | .alt r s => .alt (r.deriv c) (s.deriv c)
  | .star r => .seq (r.deriv c) (.star r)

/-- `re.fullmatch(pattern, s) is not None` -/
def Regex.accepts (r : Regex) : List Char → Bool
  | [] => r.nullable
  | c :: cs => (r.deriv c).accepts cs

/-- the denotational semantics: the language of a pattern -/
inductive Regex.Matches : Regex → List Char → Prop
  | eps : Matches .eps []
  | chr (c : Char) : Matches (.chr c) [c]
  | cls (c : Char) (rs : List (Char × Char)) (neg : Bool) : (inRanges c rs != neg) = true → Matches (.cls rs neg) [c]
  | any (c : Char) : c ≠ '\n' → Matches .any [c]
  | seq {r s : Regex} {u v : List Char} : Matches r u → Matches s v → Matches (.seq r s) (u ++ v)
  | altL {r s : Regex} {u : List Char} : Matches r u → Matches (.alt r s) u
  | altR {r s : Regex} {u : List Char} : Matches s u → Matches (.alt r s) u
  | starNil {r : Regex} : Matches (.star r) []
  | starCons {r : Regex} {u v : List Char} : Matches r u → Matches (.star r) v → Matches (.star r) (u ++ v)

end Tickit
