/-
M5c — the master loop with pacing and ARBITRARY PROCESSING COSTS.

`Core/Sim.lean` runs the master loop at zero processing cost: a tick recorded at real time `d`
also ends at `d`.  Here the k-th tick (k = its index in the list of tick records; the initial
tick is number 0) takes `cost k` nanoseconds of real time, for an arbitrary cost function
`cost : Nat → Nat` (a natural number: real time does not go back while a tick is running).

The code (`tickit/core/management/schedulers/master.py`):

    async def _do_initial_tick(self):
        self.last_time = time_ns()                       # d      (start of the tick)
        await self.ticker(self._initial_time, self.ticker.components)
        self.last_time = time_ns()                       # d + cost 0   (end of the tick)

    async def _do_tick(self):
        ...
        components, when = self.get_first_wakeups()
        ...
        current = asyncio.create_task(asyncio.sleep(self.sleep_time(when)))
        which, _ = await asyncio.wait([current, new], return_when=FIRST_COMPLETED)
        if new in which:            # a new wakeup (an interrupt) arrived during the sleep:
            current.cancel()        # start again, the sleep is computed afresh from time_ns()
            return
        ...
        components, when = self.get_first_wakeups()
        for component in components:
            del self.wakeups[component]
            self._pending_interrupts.pop(component, None)
        # While a tick is in progress interrupts are stamped relative to its start.
        self.last_time = time_ns()                       # d      (start of the tick)
        await self.ticker(when, {component for component in components})
        self.last_time = time_ns()                       # d + cost k   (end of the tick)

    def sleep_time(self, when):
        return ((when - self.ticker.time) / self.simulation_speed
                - (time_ns() - self.last_time)) / 1e9

    async def schedule_interrupt(self, source):
        ...
        when = SimTime(self.ticker.time + int((time_ns() - self.last_time) * self.simulation_speed))
        pending = self.wakeups.get(source)
        if pending is not None and pending < when:
            when = pending
        self._pending_interrupts.setdefault(source, when)
        self.add_wakeup(source, when)

and `Ticker._start_tick` sets `self.time = time` before anything is dispatched, so during the
tick for `when`, `ticker.time == when` already.

What the costs change, and how it is modelled:

* the tick started at real time `d` ends at `e = d + cost k`; then `last_time = e`: the sleep for
  the NEXT tick is counted from the END of this one (`lastReal := e`, `now := e`).  The tick
  record still carries the START `d` (`TickRec.real`), as in `Core/Sim.lean`.
* a stimulus (interrupt) whose real time lies strictly inside the tick, `d < st.real < e`, is
  handled WHILE the tick is in progress: `last_time = d` and `ticker.time = when`, so it is
  stamped `when + int((st.real - d) * speed)`: relative to the START of the tick (`midTick`).
  The tick itself stays atomic in this model (`tickLevel`), so the mid-tick interrupts are
  applied to the state after the tick's own wakeup writes.  For the wakeup of the interrupting
  component this is the value the code produces in either order of arrival: interrupt after the
  component's reply, `schedule_interrupt` keeps the smaller of the pending callback and the
  stamp; interrupt before the reply, `MasterScheduler.add_wakeup` keeps the smaller of the
  pending interrupt and the callback.
* a stimulus with `st.real ≤ d` has been handled before the tick (as in `masterRun`: a stimulus
  not after the due tick goes first); one with `st.real ≥ e` is handled after it, between ticks,
  stamped relative to the END `e` of the tick (`stimStepC`, the stimulus branch of `masterRun`).
  For the initial tick a stimulus with `st.real ≤ d` (raised before the simulation started; the
  code stamps it `initial_time`) is handled right after the tick, with the same stamp
  `initial_time + 0`.
* stimuli are taken in list order; one that lies before the real time already reached is handled
  at that time (`now := max now st.real`), as in `masterRun`.

`masterRunC` is `masterRun` of `Core/Sim.lean`, branch by branch (the three helper functions
`stimFirstC`, `stimStepC`, `delMasterC` are the `let`s of `masterRun` given names), with the end of
the tick changed as described.  With `cost = fun _ => 0` it IS `masterRun`
(`Props/C12Cost.lean`, `masterRunC_zero_cost`).
-/
import TickitModel.Core.Sim

namespace Tickit

/-- total processing time of the ticks number `0 … k-1`: `cost 0 + … + cost (k-1)` -/
def busy (cost : Nat → Nat) : Nat → Nat
  | 0 => 0
  | k + 1 => busy cost k + cost k

/-- which stimulus, if any, is handled before the next tick: a stimulus not after the due tick
(or with nothing due) goes first (`stimFirst` in `masterRun`). -/
def stimFirstC (m : MasterSt) (s : Speed) (whenT : Option SimTime) :
    List Stim → Option (Stim × List Stim)
  | [] => none
  | st :: rest => match whenT.map (dueReal m s) with
    | none => some (st, rest)
    | some d => if st.real ≤ d then some (st, rest) else none

/-- `schedule_interrupt` at real time `max st.real m.now`, in master state `m`
(`m.tickerTime = ticker.time`, `m.lastReal = last_time`): the stimulus branch of `masterRun`. -/
def stimStepC (S : Static) (fuel : Nat) (s : Speed) (m : MasterSt) (st : Stim) : MasterSt :=
  let now := if st.real < m.now then m.now else st.real
  let (sim', top) := raiseInterrupt S fuel st.comp m.sim
  let stamp := interruptStamp m.tickerTime now m.lastReal s
  let sc := sim'.sched ""
  -- a callback that is already due but not served yet is not displaced by the interrupt
  let when := match alookup sc.wake top with
    | some w => if w < stamp then w else stamp
    | none => stamp
  let sim'' := { sim' with scheds := upsert sim'.scheds "" { sc with wake := addWakeup sc.wake top when } }
  { m with sim := sim'', now := now }

/-- `for component in components: del self.wakeups[component]` (as in `masterRun`) -/
def delMasterC (st : SimSt) (cs : List Comp) : SimSt :=
  let sc := st.sched ""
  { st with scheds := upsert st.scheds "" { sc with wake := delWakeups sc.wake cs } }

/-- the stimuli that arrive while a tick is in progress.  `m` is the master DURING the tick:
`m.tickerTime` is the time of the tick, `m.lastReal` its start; `e` is its end.  The leading
stimuli with `m.lastReal < st.real < e` are handled by `schedule_interrupt` in that state, so they
are stamped relative to the start of the tick.  Returns the master and the stimuli left. -/
def midTick (S : Static) (fuel : Nat) (s : Speed) (e : Int) : MasterSt → List Stim → MasterSt × List Stim
  | m, [] => (m, [])
  | m, st :: rest =>
    if m.lastReal < st.real ∧ st.real < e then midTick S fuel s e (stimStepC S fuel s m st) rest
    else (m, st :: rest)

/-- a tick for simulation time `w` started at real time `d` and left the simulation in state
`sim`; it ends at real time `e`: mid-tick stimuli are handled, then `last_time = time_ns()`. -/
def endTick (S : Static) (fuel : Nat) (s : Speed) (sim : SimSt) (w : SimTime) (d e : Int)
    (stims : List Stim) : MasterSt × List Stim :=
  let r := midTick S fuel s e { sim := sim, tickerTime := w, lastReal := d, now := d } stims
  ({ r.1 with lastReal := e, now := e }, r.2)

/-- `_do_initial_tick`: started at real time `now`, it takes `cost 0`.  Returns the master
after the tick, the tick record and the stimuli not handled yet. -/
def masterInitialC (S : Static) (orc : Oracle) (fuel : Nat) (s : Speed) (cost : Nat → Nat)
    (t0 : SimTime) (now : Int) (stims : List Stim) :
    Except SimErr (MasterSt × TickRec × List Stim) :=
  match S.level "" with
  | none => .error (.noLevel "")
  | some L =>
    let roots := L.wiring.components
    match tickLevel S orc fuel "" t0 roots [] {} with
    | .error e => .error e
    | .ok (st, _) =>
      let r := endTick S fuel s st t0 now (now + cost 0) stims
      .ok (r.1, ⟨t0, now, roots⟩, r.2)

/-- run the master until `nTicks` further ticks have happened or nothing is left to do; the
tick whose record gets index `k` in the list of tick records takes `cost k` ns of real time. -/
def masterRunC (S : Static) (orc : Oracle) (fuel : Nat) (s : Speed) (cost : Nat → Nat) :
    Nat → Nat → MasterSt → List Stim → List TickRec → Except SimErr (MasterSt × List TickRec)
  | 0, _, m, _, acc => .ok (m, acc)
  | _, 0, m, _, acc => .ok (m, acc)
  | steps + 1, nTicks + 1, m, stims, acc =>
    match stimFirstC m s (firstWakeups (m.sim.sched "").wake).2 stims with
    | some (st, rest) =>
      masterRunC S orc fuel s cost steps (nTicks + 1) (stimStepC S fuel s m st) rest acc
    | none =>
      match firstWakeups (m.sim.sched "").wake with
      | (comps, some w) =>
        let d := dueReal m s w
        match tickLevel S orc fuel "" w comps [] (delMasterC m.sim comps) with
        | .error e => .error e
        | .ok (sim2, _) =>
          let r := endTick S fuel s sim2 w d (d + cost acc.length) stims
          masterRunC S orc fuel s cost steps nTicks r.1 r.2 (acc ++ [⟨w, d, comps⟩])
      | (_, none) => .ok (m, acc)

end Tickit
