/-
C11, the stop protocol of the master scheduler as a statement-level transition system: the run
loop, the `error` and `finished` events, and ANY number of exception handlers that interleave
at their `await`s.

The code that is modelled (as it is in /repo/src/tickit now):

`core/components/component.py`, `BaseComponent.handle_input`

    if isinstance(message, Input):
        try:
            await asyncio.gather(self.on_tick(message.time, message.changes), return_exceptions=False)
        except Exception as err:
            await self.state_producer.produce(output_topic(self.name),
                ComponentException(self.name, err, traceback.format_exc()))       # action `fail c`
    if isinstance(message, StopComponent):
        await self.stop_component()                                               # action `deliverStop c`

  (`DeviceComponent.on_tick` ends with `await self.output(...)`, `SystemComponent.on_tick` sends
  EITHER the forwarded `scheduler.component_error` OR its Output: a component whose update raised
  does not answer that Input.)

`core/management/schedulers/base.py`

    async def handle_message(self, message):
        if isinstance(message, Output):   await self.ticker.propagate(message); ...   # `answer c`
        elif isinstance(message, Skip):   await self.ticker.propagate(message)        # `answer c`
        elif isinstance(message, Interrupt): await self.schedule_interrupt(message.source)   # `wakeup`
        elif isinstance(message, ComponentException):
            await self.handle_component_exception(message)                            # handler of a report

    async def handle_component_exception(self, message):                  # HPc.start
        # [seeded variant C11-m7 only]  if self._stopping: return
        #                               self._stopping = True
        await asyncio.wait(                                               # HPc.fanout pending
            {asyncio.create_task(self.state_producer.produce(input_topic(component), StopComponent()))
             for component in self.ticker.components},                    # one `produceStop i c` per task,
            return_when=asyncio.tasks.ALL_COMPLETED)                      #   in ANY order
        self.error.set()                                                  # fanout [] -> afterSuper

`core/management/schedulers/master.py`

    async def handle_component_exception(self, message):
        await super().handle_component_exception(message)
        self.ticker.finished.set()                                        # afterSuper -> done

    async def run_forever(self):
        await self.setup(); self.running.set()
        await self._do_initial_tick()                                     # initial state: LoopPc.ticking
        while not self.error.is_set():                                    # LoopPc.top
            await self._do_tick()
        self.running.clear()                                              # LoopPc.exited

    async def _do_tick(self):
        while not self.wakeups:
            self.new_wakeup.clear()
            await self.new_wakeup.wait()                                  # LoopPc.waiting
        ...; self.new_wakeup.clear()
        which, _ = await asyncio.wait([current, new], FIRST_COMPLETED)    # LoopPc.sleeping
        if new in which: current.cancel(); return                         #   -> top
        ...
        await self.ticker(when, components)                               # LoopPc.ticking

    def add_wakeup(self, component, when):                                # action `wakeup`, at any moment
        ...; super().add_wakeup(component, when); self.new_wakeup.set()

`core/management/ticker.py`

    async def __call__(self, time, update_components):
        await self._start_tick(time, update_components)                   # self.to_update = {...}
        await self.schedule_possible_updates()
        await self.finished.wait()                                        # LoopPc.ticking
        self.finished.clear()
    async def propagate(self, output):
        self.to_update.pop(output.source); ...
        if not self.to_update: self.finished.set()

`core/simulation.py`: `TickitSimulation.run` awaits `asyncio.wait(tasks)` over the master's
`run_forever` and every component's `run_forever`; a component's `run_forever` awaits its own
long-running tasks, which `stop_component` cancels.

Granularity.  Every model step is at most one stretch of Python between two `await`s; some
stretches are split further (`error.set()` and `finished.set()` of one handler are two steps,
the return from the tick and the evaluation of `while not self.error.is_set()` are two steps):
the model has MORE interleavings than asyncio, so what is proved for every interleaving of the
model holds for every schedule of the event loop.  The `StopComponent` producers of one fan-out
are separate tasks and run in any order; delivery to the component (`deliverStop`) is a separate
step that may come at any later time (in-process bus: immediately; Kafka: whenever).

Abstractions.  `self.wakeups` is reduced to "non-empty or not" (`hasWakeups`; which wakeups a
tick consumes is a nondeterministic parameter of `sleepExpires`) - the flag protocol itself is
`Core/MasterLoop.lean`.  The wiring is ignored: any awaited component may answer or fail at any
time.  A failure below the top level (nested scheduler, `SystemComponent.on_tick` forwarding the
inner `component_error`) appears here as the failure of the top-level component containing it
(`Core/FailStop.lean` has the identity argument for that path).

Sanity check against the running code (outside the proofs, /tmp/lw/P5/validation/trace_real.py):
the real `MasterScheduler` / `TickitSimulation.run()` on the in-process bus with a randomly
delaying producer, instrumented to log these actions; `StopSt.exec` accepted all 60 logged
histories (1-3 failures, initial and later ticks) and ended in `runReturned`; with the patch of
C11-m7 applied and `stopOnce := true` it accepted all 20, ending parked exactly in the 8 runs
in which `run()` did not return.
-/
import TickitModel.Core.Basic

namespace Tickit

/-- where `MasterScheduler.run_forever` stands. -/
inductive SLoopPc
  /-- about to evaluate `while not self.error.is_set()` (and then `while not self.wakeups`) -/
  | top
  /-- inside `await self.new_wakeup.wait()` -/
  | waiting
  /-- the sleep races against the `new_wakeup` flag -/
  | sleeping
  /-- inside `await self.ticker(...)`, at `await self.finished.wait()` -/
  | ticking
  /-- the loop was left: `run_forever` has returned -/
  | exited
  deriving Repr, DecidableEq

/-- where the handler coroutine of one `ComponentException` message stands. -/
inductive HPc
  /-- the message was published; `handle_component_exception` has not passed its first line -/
  | start
  /-- suspended in `asyncio.wait({...})`; `pending` = the `StopComponent` producers not yet run -/
  | fanout (pending : List Comp)
  /-- `super().handle_component_exception` has returned; next: `self.ticker.finished.set()` -/
  | afterSuper
  /-- the handler has returned -/
  | done
  deriving Repr, DecidableEq

/-- one in-flight exception report: the failing component's identity and its handler's pc. -/
structure StopReport where
  src : Comp
  pc : HPc
  deriving Repr, DecidableEq

structure StopCfg where
  /-- `self.ticker.components`: the top-level components -/
  comps : List Comp
  /-- the seeded variant: "only the first exception starts the shut down" -/
  stopOnce : Bool := false
  deriving Repr

structure StopSt where
  pc : SLoopPc
  /-- `self.error.is_set()` -/
  error : Bool
  /-- `self.ticker.finished.is_set()` -/
  finished : Bool
  /-- `self._stopping` (exists in the seeded variant only; never changes when `stopOnce = false`) -/
  stopping : Bool
  /-- `bool(self.wakeups)` -/
  hasWakeups : Bool
  /-- `self.new_wakeup.is_set()` -/
  newWakeup : Bool
  /-- `self.ticker.to_update`: the components the tick is waiting for -/
  toUpdate : List Comp
  /-- components whose update for the current tick raised (they do not answer it) -/
  failed : List Comp
  /-- the exception reports in order of publication; the index identifies the handler -/
  reports : List StopReport
  /-- `StopComponent` messages produced and not yet handled by their component -/
  inbox : List Comp
  /-- (ghost) every `StopComponent` ever produced -/
  stopSent : List Comp
  /-- components whose `stop_component()` has run -/
  stopped : List Comp
  deriving Repr, DecidableEq

inductive StopAct
  /-- `add_wakeup` (an interrupt, or an answer carrying `call_at`), at any moment -/
  | wakeup
  /-- the sleep expires and the tick for components `cs` starts; `left` = wakeups remain -/
  | sleepExpires (cs : List Comp) (left : Bool)
  /-- the run loop advances to its next suspension point -/
  | loop
  /-- component `c` answers (Output or Skip): `ticker.propagate` -/
  | answer (c : Comp)
  /-- the update of component `c` raises: `ComponentException` published -/
  | fail (c : Comp)
  /-- the handler of report `i` executes its next statement (not a `StopComponent` producer) -/
  | handler (i : Nat)
  /-- the task producing `StopComponent` for `c` on behalf of handler `i` runs -/
  | produceStop (i : Nat) (c : Comp)
  /-- component `c` handles a `StopComponent`: `stop_component()` -/
  | deliverStop (c : Comp)
  deriving Repr, DecidableEq

/-- steps of the scheduler / the bus (as opposed to the environment: wakeups, the sleep timer,
components answering or failing). -/
def StopAct.isSys : StopAct → Bool
  | .loop => true
  | .handler _ => true
  | .produceStop _ _ => true
  | .deliverStop _ => true
  | _ => false

/-- the state in which `_do_initial_tick` waits for every component. -/
def StopSt.init (cfg : StopCfg) : StopSt :=
  { pc := .ticking, error := false, finished := false, stopping := false, hasWakeups := false,
    newWakeup := false, toUpdate := cfg.comps, failed := [], reports := [], inbox := [],
    stopSent := [], stopped := [] }

/-- the run loop up to its next `await`. -/
def StopSt.loopStep (s : StopSt) : Option StopSt :=
  match s.pc with
  | .top =>
    if s.error then some { s with pc := .exited }
    else if s.hasWakeups then some { s with pc := .sleeping, newWakeup := false }
    else some { s with pc := .waiting, newWakeup := false }
  | .waiting =>
    -- resumed by `new_wakeup.set()`; `while not self.wakeups` is re-evaluated, `error` is NOT
    if s.newWakeup then
      if s.hasWakeups then some { s with pc := .sleeping, newWakeup := false }
      else some { s with newWakeup := false }
    else none
  | .sleeping =>
    -- `if new in which: current.cancel(); return`
    if s.newWakeup then some { s with pc := .top } else none
  | .ticking =>
    -- `await self.finished.wait(); self.finished.clear()`; `_do_tick` returns
    if s.finished then some { s with pc := .top, finished := false } else none
  | .exited => none

/-- the next statement of the handler of report `i`. -/
def StopSt.handlerStep (cfg : StopCfg) (s : StopSt) (i : Nat) : Option StopSt :=
  match s.reports[i]? with
  | none => none
  | some r =>
    match r.pc with
    | .start =>
      if cfg.stopOnce && s.stopping then
        -- seeded variant: `if self._stopping: return` - `super()` returns with `error` untouched
        some { s with reports := s.reports.set i ⟨r.src, .afterSuper⟩ }
      else
        some { s with stopping := s.stopping || cfg.stopOnce,
                      reports := s.reports.set i ⟨r.src, .fanout cfg.comps⟩ }
    | .fanout [] =>
      -- all producers completed: `self.error.set()`
      some { s with error := true, reports := s.reports.set i ⟨r.src, .afterSuper⟩ }
    | .fanout (_ :: _) => none
    | .afterSuper =>
      -- `self.ticker.finished.set()`
      some { s with finished := true, reports := s.reports.set i ⟨r.src, .done⟩ }
    | .done => none

/-- one `StopComponent` producer of handler `i` runs. -/
def StopSt.produceStep (s : StopSt) (i : Nat) (c : Comp) : Option StopSt :=
  match s.reports[i]? with
  | some ⟨src, .fanout p⟩ =>
    if c ∈ p then
      some { s with reports := s.reports.set i ⟨src, .fanout (p.erase c)⟩,
                    inbox := s.inbox ++ [c], stopSent := s.stopSent ++ [c] }
    else none
  | _ => none

/-- one transition; `none` = the action is not enabled. -/
def StopSt.step (cfg : StopCfg) (s : StopSt) : StopAct → Option StopSt
  | .wakeup => some { s with hasWakeups := true, newWakeup := true }
  | .sleepExpires cs left =>
    if s.pc = .sleeping ∧ cs ≠ [] ∧ ∀ c ∈ cs, c ∈ cfg.comps then
      -- `_start_tick`: `self.to_update = {...}`; the served wakeups are deleted
      some { s with pc := .ticking, hasWakeups := left, toUpdate := cs, failed := [] }
    else none
  | .loop => s.loopStep
  | .answer c =>
    if c ∈ s.toUpdate ∧ c ∉ s.failed then
      let tu := s.toUpdate.filter (· ≠ c)
      -- `self.to_update.pop(source)`; `if not self.to_update: self.finished.set()`
      some { s with toUpdate := tu, finished := s.finished || tu.isEmpty }
    else none
  | .fail c =>
    if c ∈ s.toUpdate ∧ c ∉ s.failed then
      some { s with failed := s.failed ++ [c], reports := s.reports ++ [⟨c, .start⟩] }
    else none
  | .handler i => s.handlerStep cfg i
  | .produceStop i c => s.produceStep i c
  | .deliverStop c =>
    if c ∈ s.inbox then some { s with inbox := s.inbox.erase c, stopped := c :: s.stopped }
    else none

/-- a strict execution: every action must be enabled. -/
def StopSt.exec (cfg : StopCfg) (s : StopSt) : List StopAct → Option StopSt
  | [] => some s
  | a :: as => match s.step cfg a with
    | some s' => StopSt.exec cfg s' as
    | none => none

/-- the states the protocol can be in: everything reachable from the initial tick. -/
inductive StopReach (cfg : StopCfg) : StopSt → Prop
  | init : StopReach cfg (StopSt.init cfg)
  | step {s s' : StopSt} {a : StopAct} : StopReach cfg s → s.step cfg a = some s' → StopReach cfg s'

/-- an infinite schedule; actions that are not enabled when their turn comes are skipped. -/
def StopSt.sched (cfg : StopCfg) (s : StopSt) (σ : Nat → StopAct) : Nat → StopSt
  | 0 => s
  | n + 1 => ((StopSt.sched cfg s σ n).step cfg (σ n)).getD (StopSt.sched cfg s σ n)

/-- what `TickitSimulation.run()` waits for: the master's `run_forever` has returned and every
component was stopped (its long-running tasks cancelled, so its `run_forever` returns). -/
def StopSt.runReturned (cfg : StopCfg) (s : StopSt) : Prop :=
  s.pc = .exited ∧ ∀ c ∈ cfg.comps, c ∈ s.stopped

instance (cfg : StopCfg) (s : StopSt) : Decidable (s.runReturned cfg) := by
  unfold StopSt.runReturned; infer_instance

/-- remaining statements of a handler (a producer counts twice: produce, then deliver). -/
def HPc.cost (n : Nat) : HPc → Nat
  | .start => 2 * n + 3
  | .fanout p => 2 * p.length + 2
  | .afterSuper => 1
  | .done => 0

def StopReport.cost (n : Nat) (r : StopReport) : Nat := r.pc.cost n

def SLoopPc.cost : SLoopPc → Nat
  | .ticking => 2
  | .top => 1
  | _ => 0

/-- the awaited components that have not failed (each may still fail and start a handler). -/
def StopSt.unfailed (s : StopSt) : List Comp := s.toUpdate.filter (· ∉ s.failed)

/-- the termination measure: remaining statements of the loop and of all handlers, undelivered
stop messages, and a whole handler (plus one) for every component that may still fail. -/
def StopSt.measure (cfg : StopCfg) (s : StopSt) : Nat :=
  s.pc.cost + (s.reports.map (StopReport.cost cfg.comps.length)).sum + s.inbox.length
    + s.unfailed.length * (2 * cfg.comps.length + 4)

/-- the interleaving of the seeded change C11-m7 (`stopOnce = true`), components a, b, w:
a and b fail in the initial tick; the second report returns early and releases the ticker while
the first handler is still in its fan-out. -/
def stopOnceHistory : List StopAct :=
  [ .fail "a", .fail "b"
  , .answer "w"           -- the healthy component answers
  , .handler 0            -- report of a: `_stopping = True`, fan-out starts
  , .handler 1            -- report of b: `if self._stopping: return`
  , .handler 1            --   master: `self.ticker.finished.set()` - `error` is still clear
  , .loop                 -- the tick returns, `finished.clear()`
  , .loop                 -- `while not self.error.is_set()`: clear; no wakeups: wait for one
  , .produceStop 0 "a", .produceStop 0 "b", .produceStop 0 "w"
  , .handler 0            -- `self.error.set()`
  , .handler 0            -- `self.ticker.finished.set()` - nobody is waiting on the ticker
  , .deliverStop "a", .deliverStop "b", .deliverStop "w" ]

/-- the decisive prefix of that interleaving for ANY two distinct components `a`, `b`. -/
def stopOncePrefix (a b : Comp) : List StopAct :=
  [ .fail a, .fail b, .handler 0, .handler 1, .handler 1, .loop, .loop ]

/-- where `stopOncePrefix` leaves the variant: the run loop waits for a wakeup while the first
handler has not even set `error` yet. -/
def stopOnceParked (cfg : StopCfg) (a b : Comp) : StopSt :=
  { pc := .waiting, error := false, finished := false, stopping := true, hasWakeups := false,
    newWakeup := false, toUpdate := cfg.comps, failed := [a, b],
    reports := [⟨a, .fanout cfg.comps⟩, ⟨b, .done⟩], inbox := [], stopSent := [], stopped := [] }

def stopOnceCfg (stopOnce : Bool) : StopCfg := { comps := ["a", "b", "w"], stopOnce := stopOnce }

end Tickit
