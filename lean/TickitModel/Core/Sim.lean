/-
M5/M7/M8 — whole simulation, deterministic (synchronous) schedule.

The executable reference semantics of a tickit simulation: master scheduler, nested
schedulers at any depth, device components; devices are *oracles* (their k-th response is
given).  Every scheduler level runs the ticker model `Ticker` of M2 and answers pending
dispatches first-in first-out; `Props/C08` shows the result does not depend on that choice.

Names are unique over the whole tree, so the state is kept in maps keyed by name.
The master level has the name `""`.
-/
import TickitModel.Core.Ticker
import TickitModel.Core.Device
import TickitModel.Core.Sched
import TickitModel.Gen.Constants

namespace Tickit

abbrev V := Int

/-- a device's response to one `update` call. -/
structure DevResp where
  outs : List (Port × V)
  callAt : Option SimTime
  raises : Bool := false
  deriving Repr

/-- one scheduler level. -/
structure Level where
  name : Comp
  wiring : Wiring
  deriving Repr

structure Static where
  levels : List Level
  systems : List Comp
  /-- parent scheduler level of each component -/
  parent : List (Comp × Comp)
  deriving Repr

def Static.level (s : Static) (n : Comp) : Option Level := s.levels.find? (·.name == n)
def Static.isSys (s : Static) (c : Comp) : Bool := c ∈ s.systems

structure SchedSt where
  wake : Wakeups := []
  interrupts : List Comp := []
  firstDone : Bool := false
  deriving Repr

structure Obs where
  comp : Comp
  time : SimTime
  inputs : List (Port × V)
  deriving Repr

inductive SimErr where
  | tick (lvl : Comp) (e : TickErr)
  | stall (lvl : Comp)
  | fuel
  | noOracle (c : Comp) (k : Nat)
  | deviceRaised (c : Comp)
  | noLevel (c : Comp)
  deriving Repr

structure SimSt where
  devs : List (Comp × DevComp V) := []
  count : List (Comp × Nat) := []
  scheds : List (Comp × SchedSt) := []
  obs : List Obs := []
  deriving Repr

abbrev Oracle := List (Comp × List DevResp)

def pseudoExternal : Comp := Gen.pseudoExternal
def pseudoExpose : Comp := Gen.pseudoExpose

def SimSt.sched (st : SimSt) (n : Comp) : SchedSt := agetD st.scheds n {}

structure LoopSt where
  tk : Ticker V
  pending : List (Dispatch V)
  outCh : List (Port × V)
  st : SimSt

mutual
/-- one tick of scheduler level `lvl` at time `t` with roots `roots`; `inCh` are the
input changes of the enclosing system component (for the `external` pseudo component). -/
def tickLevel (S : Static) (orc : Oracle) : Nat → Comp → SimTime → List Comp → List (Port × V) →
    SimSt → Except SimErr (SimSt × List (Port × V))
  | 0, _, _, _, _, _ => .error .fuel
  | fuel + 1, lvl, t, roots, inCh, st =>
    match S.level lvl with
    | none => .error (.noLevel lvl)
    | some L =>
      match (Ticker.call L.wiring t roots : Except TickErr (Ticker V × List (Dispatch V))) with
      | .error e => .error (.tick lvl e)
      | .ok (tk, ds) => tickLoop S orc fuel ((L.wiring.components.length + 2) * 2) L inCh ⟨tk, ds, [], st⟩
termination_by n _ _ _ _ _ => (2 * n, 0)

/-- answer pending dispatches first-in first-out until none is left. -/
def tickLoop (S : Static) (orc : Oracle) (fuel : Nat) : Nat → Level → List (Port × V) → LoopSt →
    Except SimErr (SimSt × List (Port × V))
  | 0, _, _, _ => .error .fuel
  | steps + 1, L, inCh, ls =>
    match ls.pending with
    | [] => if ls.tk.toUpdate.isEmpty then .ok (ls.st, ls.outCh) else .error (.stall L.name)
    | d :: rest =>
      let isNested := L.name != ""
      let answer : Except SimErr (SimSt × List (Port × V) × List (Port × V) × Option SimTime) :=
        match d with
        | .skip _ _ => .ok (ls.st, ls.outCh, [], none)
        | .input c t ins =>
          if isNested && c == pseudoExternal then .ok (ls.st, ls.outCh, inCh, none)
          else if isNested && c == pseudoExpose then .ok (ls.st, ins, [], none)
          else if S.isSys c then
            -- SystemComponent.on_tick → NestedScheduler.on_tick
            let sc := ls.st.sched c
            let due := nestedDue sc.wake t
            let all := match S.level c with | some Lc => Lc.wiring.components | none => []
            let roots := sunion (sunion (sunion sc.interrupts due) [pseudoExternal]) (if sc.firstDone then [] else all)
            let sc' : SchedSt := { wake := delWakeups sc.wake due, interrupts := [], firstDone := true }
            let st1 := { ls.st with scheds := upsert ls.st.scheds c sc' }
            match tickLevel S orc fuel c t roots ins st1 with
            | .error e => .error e
            | .ok (st2, outCh) =>
              let sc2 := st2.sched c
              let callAt := if sc2.interrupts.isEmpty then (firstWakeups sc2.wake).2 else some t
              .ok (st2, ls.outCh, outCh, callAt)
          else
            -- DeviceComponent.on_tick
            let k := agetD ls.st.count c 0
            match (agetD orc c [])[k]? with
            | none => .error (.noOracle c k)
            | some resp =>
              let dc := agetD ls.st.devs c {}
              let merged := dc.merge ins
              let st1 := { ls.st with obs := ls.st.obs ++ [(⟨c, t, merged⟩ : Obs)], count := upsert ls.st.count c (k + 1) }
              if resp.raises then .error (.deviceRaised c)
              else
                let (dc', ch) := dc.onTick ins (normDict resp.outs)
                .ok ({ st1 with devs := upsert st1.devs c dc' }, ls.outCh, ch, resp.callAt)
      match answer with
      | .error e => .error e
      | .ok (st', outCh', changes, callAt) =>
        match ls.tk.propagate L.wiring d.comp d.time changes with
        | .error e => .error (.tick L.name e)
        | .ok (tk', ds) =>
          let sc := st'.sched L.name
          let sc' := match callAt with
            | some w => { sc with wake := addWakeup sc.wake d.comp w }
            | none => sc
          let st'' := { st' with scheds := upsert st'.scheds L.name sc' }
          tickLoop S orc fuel steps L inCh ⟨tk', rest ++ ds, outCh', st''⟩
termination_by n _ _ _ => (2 * fuel + 1, n)
end


/-- an interrupt raised by component `c`: queued at every nested level on the way up;
returns the top-level component that the master sees interrupting. -/
def raiseInterrupt (S : Static) : Nat → Comp → SimSt → SimSt × Comp
  | 0, c, st => (st, c)
  | fuel + 1, c, st =>
    match alookup S.parent c with
    | none => (st, c)
    | some p =>
      if p == "" then (st, c)
      else
        let sc := st.sched p
        let st' := { st with scheds := upsert st.scheds p { sc with interrupts := sinsert sc.interrupts c } }
        raiseInterrupt S fuel p st'

/-! ### master loop with pacing (zero processing cost) -/

structure MasterSt where
  sim : SimSt := {}
  tickerTime : SimTime := 0
  lastReal : Int := 0
  now : Int := 0
  deriving Repr

structure TickRec where
  time : SimTime
  real : Int
  roots : List Comp
  deriving Repr

/-- external stimulus: at real time `at` (ns) component `c` raises an interrupt. -/
structure Stim where
  real : Int
  comp : Comp
  deriving Repr

def ceilDiv (n : Int) (d : Int) : Int := -((-n) / d)

/-- real time at which the tick for the first wakeup is due (never before `now`). -/
def dueReal (m : MasterSt) (s : Speed) (whenT : SimTime) : Int :=
  let num := sleepNumer whenT m.tickerTime m.now m.lastReal s
  if num ≤ 0 then m.now else m.now + ceilDiv num s.num

def masterInitial (S : Static) (orc : Oracle) (fuel : Nat) (t0 : SimTime) (now : Int) :
    Except SimErr (MasterSt × TickRec) :=
  match S.level "" with
  | none => .error (.noLevel "")
  | some L =>
    let roots := L.wiring.components
    match tickLevel S orc fuel "" t0 roots [] {} with
    | .error e => .error e
    | .ok (st, _) => .ok ({ sim := st, tickerTime := t0, lastReal := now, now := now }, ⟨t0, now, roots⟩)

/-- run the master until `nTicks` further ticks have happened or nothing is left to do. -/
def masterRun (S : Static) (orc : Oracle) (fuel : Nat) (s : Speed) :
    Nat → Nat → MasterSt → List Stim → List TickRec → Except SimErr (MasterSt × List TickRec)
  | 0, _, m, _, acc => .ok (m, acc)
  | _, 0, m, _, acc => .ok (m, acc)
  | steps + 1, nTicks + 1, m, stims, acc =>
    let wake := (m.sim.sched "").wake
    let (comps, whenT) := firstWakeups wake
    let due : Option Int := whenT.map (dueReal m s)
    -- a stimulus not after the due tick (or with nothing due) is handled first
    let stimFirst : Option (Stim × List Stim) := match stims with
      | [] => none
      | st :: rest => match due with
        | none => some (st, rest)
        | some d => if st.real ≤ d then some (st, rest) else none
    match stimFirst with
    | some (st, rest) =>
      let now := if st.real < m.now then m.now else st.real
      let (sim', top) := raiseInterrupt S fuel st.comp m.sim
      let stamp := interruptStamp m.tickerTime now m.lastReal s
      let sc := sim'.sched ""
      -- a callback that is already due but not served yet is not displaced by the interrupt
      let when := match alookup sc.wake top with
        | some w => if w < stamp then w else stamp
        | none => stamp
      let sim'' := { sim' with scheds := upsert sim'.scheds "" { sc with wake := addWakeup sc.wake top when } }
      masterRun S orc fuel s steps (nTicks + 1) { m with sim := sim'', now := now } rest acc
    | none =>
      match whenT, due with
      | some w, some d =>
        let sc := m.sim.sched ""
        let sim1 := { m.sim with scheds := upsert m.sim.scheds "" { sc with wake := delWakeups sc.wake comps } }
        match tickLevel S orc fuel "" w comps [] sim1 with
        | .error e => .error e
        | .ok (sim2, _) =>
          masterRun S orc fuel s steps nTicks { sim := sim2, tickerTime := w, lastReal := d, now := d } stims (acc ++ [⟨w, d, comps⟩])
      | _, _ => .ok (m, acc)

end Tickit
