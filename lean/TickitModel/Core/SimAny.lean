/-
M5' — one tick of the nested whole-simulation model with ARBITRARY answer orders at every level.

`Core/Sim.lean` (`tickLevel` / `tickLoop`) answers the pending dispatches of every scheduler level
first-in first-out.  The code does not: every `Input` / `Skip` the ticker hands out becomes an
independent message on the state interface, and the scheduler's `handle_message` runs for
whichever `Output` / `Skip` the bus delivers next,

    # core/management/ticker.py
    async def schedule_possible_updates(self) -> None:
        ...
        for component, task in self.to_update.items():
            if task is not None or required_dependencies(component):
                continue
            if self.inputs[component] or component in self.roots:
                updating[component] = asyncio.create_task(self.update_component(Input(...)))
            else:
                updating[component] = asyncio.create_task(self.skip_component(Skip(...)))
        self.to_update.update(updating)

    # core/management/schedulers/base.py
    async def handle_message(self, message):
        if isinstance(message, Output):
            await self.ticker.propagate(message)
            if message.call_at is not None:
                self.add_wakeup(message.source, message.call_at)
        elif isinstance(message, Skip):
            await self.ticker.propagate(message)

and a system component answers with the result of a whole inner tick of its own scheduler, in
which the same freedom exists again,

    # core/management/schedulers/nested.py
    async def on_tick(self, time, changes):
        wakeup_components = {c for c, when in self.wakeups.items() if when <= time}
        root_components = {*self.interrupts, *wakeup_components, ComponentID("external")}
        if not self._initial_tick_done:
            root_components |= self.ticker.components
            self._initial_tick_done = True
        for component in wakeup_components:
            del self.wakeups[component]
        self.interrupts.clear()
        self.input_changes = changes
        self.output_changes = Changes(Map())
        await self.ticker(time, root_components)
        _, call_at = self.get_first_wakeups()
        return self.output_changes, call_at

    async def update_component(self, input):
        if input.target == "external":
            await self.ticker.propagate(Output("external", input.time, self.input_changes, None))
        elif input.target == "expose":
            self.output_changes = input.changes
            await self.ticker.propagate(Output("expose", input.time, Changes(Map()), None))
        else:
            await super().update_component(input)

    # core/components/device_component.py
    async def on_tick(self, time, changes):
        self.device_inputs = {**self.device_inputs, **changes}
        device_update = self.device.update(SimTime(time), self.device_inputs)
        self.last_outputs, out_changes = device_update.outputs, <outputs that differ from last_outputs>
        await self.output(time, out_changes, device_update.call_at)

This file states that freedom as a RELATION: `TickLevelAny S orc lvl t roots inCh st (st', out)` —
"one tick of scheduler level `lvl` at time `t` for `roots`, started in `st`, CAN end in `st'` with
the exposed output changes `out`".  It is `tickLevel` / `tickLoop` of `Core/Sim.lean` clause by
clause (same treatment of `external` / `expose`, same device oracle, same wakeup bookkeeping, same
`Ticker.propagate`), except that

* the loop may answer ANY pending dispatch `ls.pending[i]` next (as `TickSys.step` does for one
  level), and
* the answer of a system component is ANY `TickLevelAny` execution of its inner level.

No fuel is needed: the relation is the least one closed under the clauses.  Only successful
executions are described (an execution that would raise has no result).
-/
import TickitModel.Core.Sim

namespace Tickit

/-- `add_wakeup(source, call_at)` of level `lvl` after the answer of `c` (as in `tickLoop`) -/
def anyWake (st : SimSt) (lvl c : Comp) (callAt : Option SimTime) : SimSt :=
  let sc := st.sched lvl
  let sc' := match callAt with
    | some w => { sc with wake := addWakeup sc.wake c w }
    | none => sc
  { st with scheds := upsert st.scheds lvl sc' }

/-- `NestedScheduler.on_tick`: the roots of the inner tick of system `c` at time `t` -/
def sysRoots (S : Static) (st : SimSt) (c : Comp) (t : SimTime) : List Comp :=
  let sc := st.sched c
  let due := nestedDue sc.wake t
  let all := match S.level c with | some Lc => Lc.wiring.components | none => []
  sunion (sunion (sunion sc.interrupts due) [pseudoExternal]) (if sc.firstDone then [] else all)

/-- `NestedScheduler.on_tick`: the state in which the inner tick of system `c` starts (due wakeups
removed, interrupts cleared, initial tick marked done) -/
def sysPre (st : SimSt) (c : Comp) (t : SimTime) : SimSt :=
  let sc := st.sched c
  let due := nestedDue sc.wake t
  let sc' : SchedSt := { wake := delWakeups sc.wake due, interrupts := [], firstDone := true }
  { st with scheds := upsert st.scheds c sc' }

/-- the `call_at` a system component reports after its inner tick -/
def sysCallAt (st2 : SimSt) (c : Comp) (t : SimTime) : Option SimTime :=
  let sc2 := st2.sched c
  if sc2.interrupts.isEmpty then (firstWakeups sc2.wake).2 else some t

/-- `DeviceComponent.on_tick` with the device's response `resp`: new state and `Output.changes` -/
def devAfter (st : SimSt) (c : Comp) (t : SimTime) (ins : List (Port × V)) (resp : DevResp) :
    SimSt × List (Port × V) :=
  let k := agetD st.count c 0
  let dc := agetD st.devs c {}
  let merged := dc.merge ins
  let st1 := { st with obs := st.obs ++ [(⟨c, t, merged⟩ : Obs)], count := upsert st.count c (k + 1) }
  let (dc', ch) := dc.onTick ins (normDict resp.outs)
  ({ st1 with devs := upsert st1.devs c dc' }, ch)

mutual
/-- one tick of scheduler level `lvl` at time `t` with roots `roots`, any answer order at this
level and at every level below; `inCh` are the input changes of the enclosing system component. -/
inductive TickLevelAny (S : Static) (orc : Oracle) :
    Comp → SimTime → List Comp → List (Port × V) → SimSt → SimSt × List (Port × V) → Prop
  | mk {lvl : Comp} {t : SimTime} {roots : List Comp} {inCh : List (Port × V)} {st : SimSt}
      {L : Level} {tk : Ticker V} {ds : List (Dispatch V)} {r : SimSt × List (Port × V)} :
      S.level lvl = some L →
      (Ticker.call L.wiring t roots : Except TickErr (Ticker V × List (Dispatch V))) = .ok (tk, ds) →
      TickLoopAny S orc L inCh ⟨tk, ds, [], st⟩ r →
      TickLevelAny S orc lvl t roots inCh st r

/-- answer pending dispatches in ANY order until none is left. -/
inductive TickLoopAny (S : Static) (orc : Oracle) :
    Level → List (Port × V) → LoopSt → SimSt × List (Port × V) → Prop
  | done {L : Level} {inCh : List (Port × V)} {ls : LoopSt} :
      ls.pending = [] → ls.tk.toUpdate.isEmpty = true →
      TickLoopAny S orc L inCh ls (ls.st, ls.outCh)
  | step {L : Level} {inCh : List (Port × V)} {ls : LoopSt} {i : Nat} {d : Dispatch V}
      {st' : SimSt} {outCh' changes : List (Port × V)} {callAt : Option SimTime}
      {tk' : Ticker V} {ds : List (Dispatch V)} {r : SimSt × List (Port × V)} :
      ls.pending[i]? = some d →
      AnswerAny S orc L inCh ls.st ls.outCh d (st', outCh', changes, callAt) →
      ls.tk.propagate L.wiring d.comp d.time changes = .ok (tk', ds) →
      TickLoopAny S orc L inCh
        ⟨tk', ls.pending.eraseIdx i ++ ds, outCh', anyWake st' L.name d.comp callAt⟩ r →
      TickLoopAny S orc L inCh ls r

/-- the answer of the addressed component to one dispatch: new state, new exposed output
changes of the level, the `Output.changes` and the `call_at`. -/
inductive AnswerAny (S : Static) (orc : Oracle) :
    Level → List (Port × V) → SimSt → List (Port × V) → Dispatch V →
      SimSt × List (Port × V) × List (Port × V) × Option SimTime → Prop
  | skip {L : Level} {inCh : List (Port × V)} {st : SimSt} {outCh0 : List (Port × V)}
      {c : Comp} {t : SimTime} :
      AnswerAny S orc L inCh st outCh0 (.skip c t) (st, outCh0, [], none)
  | external {L : Level} {inCh : List (Port × V)} {st : SimSt} {outCh0 : List (Port × V)}
      {c : Comp} {t : SimTime} {ins : List (Port × V)} :
      (L.name != "" && c == pseudoExternal) = true →
      AnswerAny S orc L inCh st outCh0 (.input c t ins) (st, outCh0, inCh, none)
  | expose {L : Level} {inCh : List (Port × V)} {st : SimSt} {outCh0 : List (Port × V)}
      {c : Comp} {t : SimTime} {ins : List (Port × V)} :
      (L.name != "" && c == pseudoExternal) = false →
      (L.name != "" && c == pseudoExpose) = true →
      AnswerAny S orc L inCh st outCh0 (.input c t ins) (st, ins, [], none)
  | sys {L : Level} {inCh : List (Port × V)} {st : SimSt} {outCh0 : List (Port × V)}
      {c : Comp} {t : SimTime} {ins : List (Port × V)} {st2 : SimSt} {outCh : List (Port × V)} :
      (L.name != "" && c == pseudoExternal) = false →
      (L.name != "" && c == pseudoExpose) = false →
      S.isSys c = true →
      TickLevelAny S orc c t (sysRoots S st c t) ins (sysPre st c t) (st2, outCh) →
      AnswerAny S orc L inCh st outCh0 (.input c t ins) (st2, outCh0, outCh, sysCallAt st2 c t)
  | dev {L : Level} {inCh : List (Port × V)} {st : SimSt} {outCh0 : List (Port × V)}
      {c : Comp} {t : SimTime} {ins : List (Port × V)} {resp : DevResp} :
      (L.name != "" && c == pseudoExternal) = false →
      (L.name != "" && c == pseudoExpose) = false →
      S.isSys c = false →
      (agetD orc c [])[agetD st.count c 0]? = some resp →
      resp.raises = false →
      AnswerAny S orc L inCh st outCh0 (.input c t ins)
        ((devAfter st c t ins resp).1, outCh0, (devAfter st c t ins resp).2, resp.callAt)
end

/-! ### the master loop over any-order ticks

`masterRun` of `Core/Sim.lean` (pacing, external stimuli, wakeup bookkeeping between ticks) with
every tick replaced by ANY `TickLevelAny` execution of it.  The bookkeeping between ticks is the
same code, restated as three functions:

    # core/management/schedulers/master.py
    async def _do_tick(self):
        ...
        components, when = self.get_first_wakeups()
        for component in components:
            del self.wakeups[component]
            self._pending_interrupts.pop(component, None)
        self.last_time = time_ns()
        await self.ticker(when, {component for component in components})
        self.last_time = time_ns()
-/

/-- which stimulus, if any, is handled before the next tick: one that is not after the due tick
(or any, when no tick is due) -/
def nextStim (m : MasterSt) (s : Speed) (whenT : Option SimTime) : List Stim → Option (Stim × List Stim)
  | [] => none
  | st :: rest => match whenT.map (dueReal m s) with
    | none => some (st, rest)
    | some d => if st.real ≤ d then some (st, rest) else none

/-- the master after handling the stimulus `st` (the stimulus branch of `masterRun`) -/
def stimStep (S : Static) (fuel : Nat) (s : Speed) (m : MasterSt) (st : Stim) : MasterSt :=
  let now := if st.real < m.now then m.now else st.real
  let r := raiseInterrupt S fuel st.comp m.sim
  let stamp := interruptStamp m.tickerTime now m.lastReal s
  let sc := r.1.sched ""
  let when := match alookup sc.wake r.2 with
    | some w => if w < stamp then w else stamp
    | none => stamp
  { m with
    sim := { r.1 with scheds := upsert r.1.scheds "" { sc with wake := addWakeup sc.wake r.2 when } }
    now := now }

/-- the state in which the master's tick for `comps` starts: their wakeups are removed -/
def tickStart (sim : SimSt) (comps : List Comp) : SimSt :=
  let sc := sim.sched ""
  { sim with scheds := upsert sim.scheds "" { sc with wake := delWakeups sc.wake comps } }

/-- the initial tick of the master, any answer order -/
inductive MasterInitialAny (S : Static) (orc : Oracle) (t0 : SimTime) (now : Int) :
    MasterSt × TickRec → Prop
  | mk {L : Level} {st : SimSt} {out : List (Port × V)} :
      S.level "" = some L →
      TickLevelAny S orc "" t0 L.wiring.components [] {} (st, out) →
      MasterInitialAny S orc t0 now
        ({ sim := st, tickerTime := t0, lastReal := now, now := now }, ⟨t0, now, L.wiring.components⟩)

/-- `masterRun` with every tick replaced by any `TickLevelAny` execution of it -/
inductive MasterRunAny (S : Static) (orc : Oracle) (fuel : Nat) (s : Speed) :
    Nat → Nat → MasterSt → List Stim → List TickRec → MasterSt × List TickRec → Prop
  | outOfSteps {nTicks : Nat} {m : MasterSt} {stims : List Stim} {acc : List TickRec} :
      MasterRunAny S orc fuel s 0 nTicks m stims acc (m, acc)
  | ticksDone {steps : Nat} {m : MasterSt} {stims : List Stim} {acc : List TickRec} :
      MasterRunAny S orc fuel s (steps + 1) 0 m stims acc (m, acc)
  | stim {steps nTicks : Nat} {m : MasterSt} {stims : List Stim} {acc : List TickRec} {st : Stim}
      {rest : List Stim} {r : MasterSt × List TickRec} :
      nextStim m s (firstWakeups (m.sim.sched "").wake).2 stims = some (st, rest) →
      MasterRunAny S orc fuel s steps (nTicks + 1) (stimStep S fuel s m st) rest acc r →
      MasterRunAny S orc fuel s (steps + 1) (nTicks + 1) m stims acc r
  | tick {steps nTicks : Nat} {m : MasterSt} {stims : List Stim} {acc : List TickRec}
      {comps : List Comp} {w : SimTime} {sim2 : SimSt} {out : List (Port × V)}
      {r : MasterSt × List TickRec} :
      nextStim m s (firstWakeups (m.sim.sched "").wake).2 stims = none →
      firstWakeups (m.sim.sched "").wake = (comps, some w) →
      TickLevelAny S orc "" w comps [] (tickStart m.sim comps) (sim2, out) →
      MasterRunAny S orc fuel s steps nTicks
        { sim := sim2, tickerTime := w, lastReal := dueReal m s w, now := dueReal m s w } stims
        (acc ++ [⟨w, dueReal m s w, comps⟩]) r →
      MasterRunAny S orc fuel s (steps + 1) (nTicks + 1) m stims acc r
  | idle {steps nTicks : Nat} {m : MasterSt} {stims : List Stim} {acc : List TickRec} :
      nextStim m s (firstWakeups (m.sim.sched "").wake).2 stims = none →
      (firstWakeups (m.sim.sched "").wake).2 = none →
      MasterRunAny S orc fuel s (steps + 1) (nTicks + 1) m stims acc (m, acc)

end Tickit
