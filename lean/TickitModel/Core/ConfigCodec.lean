/-
M9d' — writing a configuration out and reading it back (`dataclasses.asdict` + YAML dump, then
`read_configs`): a structural encoder of configuration entries into plain data (mappings, lists,
strings, integers) and the decoder that dispatches on the `type` tag over a registry of classes.
pydantic's validation of field VALUES is a parameter (fields are integers here).
-/
import TickitModel.Core.Config

namespace Tickit

inductive Data where
  | str (s : String)
  | int (n : Int)
  | list (xs : List Data)
  | dict (items : List (String × Data))
  deriving Repr

def encPort (cp : CPort) : Data := .dict [("component", .str cp.1), ("port", .str cp.2)]

mutual
/-- `asdict(config)` -/
def Entry.encode : Entry → Data
  | .mk tag name inputs fields children =>
    .dict ([("type", .str tag), ("name", .str name),
            ("inputs", .dict (inputs.map (fun e => (e.1, encPort e.2))))] ++
           fields.map (fun f => (f.1, Data.int f.2)) ++
           [("components", .list (encodeAll children))])
def encodeAll : List Entry → List Data
  | [] => []
  | e :: es => e.encode :: encodeAll es
end

def Data.getStr : Data → Option String
  | .str s => some s
  | _ => none

def Data.getInt : Data → Option Int
  | .int n => some n
  | _ => none

def decPort : Data → Option CPort
  | .dict items =>
    match alookup items "component", alookup items "port" with
    | some (.str c), some (.str p) => some (c, p)
    | _, _ => none
  | _ => none

def decInputs : List (String × Data) → Option (List (Port × CPort))
  | [] => some []
  | (q, d) :: rest =>
    match decPort d, decInputs rest with
    | some cp, some r => some ((q, cp) :: r)
    | _, _ => none

def decFields (items : List (String × Data)) : List String → Option (List (String × Int))
  | [] => some []
  | f :: fs =>
    match alookup items f, decFields items fs with
    | some (.int n), some r => some ((f, n) :: r)
    | _, _ => none

mutual
/-- `parse_obj_as(ComponentConfig, data)`: dispatch on the tag, take exactly the class's fields -/
def decode (reg : List ClassSig) : Nat → Data → Option Entry
  | 0, _ => none
  | fuel + 1, .dict items =>
    match alookup items "type", alookup items "name", alookup items "inputs", alookup items "components" with
    | some (.str tag), some (.str name), some (.dict ins), some (.list kids) =>
      match dispatch reg tag with
      | none => none
      | some cls =>
        match decInputs ins, decFields items cls.fields, decodeAll reg fuel kids with
        | some inputs, some fields, some children => some (.mk tag name inputs fields children)
        | _, _, _ => none
    | _, _, _, _ => none
  | _ + 1, _ => none
def decodeAll (reg : List ClassSig) : Nat → List Data → Option (List Entry)
  | _, [] => some []
  | fuel, d :: ds =>
    match decode reg fuel d, decodeAll reg fuel ds with
    | some e, some es => some (e :: es)
    | _, _ => none
end

mutual
def Entry.depth : Entry → Nat
  | .mk _ _ _ _ children => depthAll children + 1
def depthAll : List Entry → Nat
  | [] => 0
  | e :: es => max e.depth (depthAll es)
end

/-- an entry is well-formed for a registry: its tag is registered, it carries exactly that class's
fields in declaration order, field names are distinct and not reserved, input ports are distinct;
recursively for nested entries -/
def reserved : List String := ["type", "name", "inputs", "components"]

mutual
def Entry.WFor (reg : List ClassSig) : Entry → Prop
  | .mk tag _ inputs fields children =>
    (∃ cls, dispatch reg tag = some cls ∧ fields.map (·.1) = cls.fields) ∧
    (fields.map (·.1)).Nodup ∧ (∀ f ∈ fields, f.1 ∉ reserved) ∧ (inputs.map (·.1)).Nodup ∧ allWFor reg children
def allWFor (reg : List ClassSig) : List Entry → Prop
  | [] => True
  | e :: es => e.WFor reg ∧ allWFor reg es
end

end Tickit
