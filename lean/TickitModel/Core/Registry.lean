/-
The registry of state interfaces (`core/state_interfaces/state_interface.py`):

    consumers: Dict[str, Tuple[Type[StateConsumer], bool]] = dict()
    producers: Dict[str, Tuple[Type[StateProducer], bool]] = dict()

    def add(name, external):
        def wrap(interface):
            if isinstance(interface, StateProducer):   producers[name] = (interface, external)
            elif isinstance(interface, StateConsumer): consumers[name] = (interface, external)
            else: warn(...)
            return interface
    def interfaces(external=False):
        return satisfy_externality(external, consumers) & satisfy_externality(external, producers)
    def satisfy_externality(external, interfaces):
        return set(name for name, interface in interfaces.items() if not external or interface[1])
    def get_interface(name):
        return consumers[name][0], producers[name][0]          # KeyError if one is missing

A registered class is an identifier plus what the two runtime-checkable protocols see of it: whether it has
a `produce` attribute, whether it has a `subscribe` attribute.  Dicts are association lists with unique keys.
-/
import TickitModel.Core.Basic

namespace Tickit

structure IfaceClass where
  id : Nat
  hasProduce : Bool
  hasSubscribe : Bool
  deriving Repr, DecidableEq

structure Registry where
  consumers : List (String × (Nat × Bool)) := []
  producers : List (String × (Nat × Bool)) := []
  /-- ghost: number of warnings issued -/
  warnings : Nat := 0
  deriving Repr

/-- `add(name, external)(interface)` -/
def Registry.add (r : Registry) (name : String) (ext : Bool) (k : IfaceClass) : Registry :=
  if k.hasProduce then { r with producers := upsert r.producers name (k.id, ext) }
  else if k.hasSubscribe then { r with consumers := upsert r.consumers name (k.id, ext) }
  else { r with warnings := r.warnings + 1 }

/-- `satisfy_externality` (as a duplicate-free list of names) -/
def satisfyExt (ext : Bool) (d : List (String × (Nat × Bool))) : List String :=
  (d.filter (fun e => !ext || e.2.2)).map (·.1)

/-- `interfaces(external)` -/
def Registry.interfaces (r : Registry) (ext : Bool) : List String :=
  (satisfyExt ext r.consumers).filter (fun n => (satisfyExt ext r.producers).contains n)

/-- `get_interface(name)`; `none` = KeyError -/
def Registry.get (r : Registry) (name : String) : Option (Nat × Nat) :=
  match alookup r.consumers name, alookup r.producers name with
  | some c, some p => some (c.1, p.1)
  | _, _ => none

inductive RegOp where
  | add (name : String) (ext : Bool) (k : IfaceClass)
  deriving Repr

def Registry.run (r : Registry) : List (String × Bool × IfaceClass) → Registry
  | [] => r
  | (n, e, k) :: rest => Registry.run (r.add n e k) rest

end Tickit
