/-
M4'' — interrupt bookkeeping of a nested scheduler (`schedulers/nested.py`:
`schedule_interrupt`, `on_tick`): interrupts of inner components are queued in `interrupts`
and raised to the enclosing scheduler as an interrupt of the system component; the next inner
tick is rooted at everything queued, and the queue is emptied BEFORE that tick starts, so that
an interrupt arriving while the inner tick runs stays queued for the next one.

`upOwed` is the obligation of the enclosing scheduler: it has been told (by an `Interrupt` of
the system component) since the last inner tick started, so — by the same theorem one level
up, or by C07 at the master — it will tick this system again.
-/
import TickitModel.Core.Basic

namespace Tickit

structure NSt where
  queued : List Comp := []
  /-- roots of the running inner tick whose update has not begun; `none` = no inner tick running -/
  ticking : Option (List Comp) := none
  upOwed : Bool := false
  /-- ghost: inner components that raised an interrupt and have not begun an update since -/
  owed : List Comp := []
  deriving Repr

inductive NAct where
  /-- an inner component's `Interrupt` is handled: queue it, raise the system's own interrupt -/
  | interrupt (c : Comp)
  /-- the enclosing scheduler ticks the system component: `on_tick` -/
  | startTick (due : List Comp)
  | beginUpdate (c : Comp)
  | endTick
  deriving Repr

def NSt.step (s : NSt) : NAct → Option NSt
  | .interrupt c => some { s with queued := sinsert s.queued c, upOwed := true, owed := sinsert s.owed c }
  | .startTick due =>
    match s.ticking with
    | some _ => none
    | none => some { s with ticking := some (sunion s.queued due), queued := [], upOwed := false }
  | .beginUpdate c =>
    match s.ticking with
    | some rem => some { s with ticking := some (rem.filter (· != c)), owed := s.owed.filter (· != c) }
    | none => none
  | .endTick =>
    match s.ticking with
    | some [] => some { s with ticking := none }
    | _ => none

def NSt.run (s : NSt) : List NAct → NSt
  | [] => s
  | a :: as => match s.step a with
    | some s' => NSt.run s' as
    | none => NSt.run s as

/-- the behaviour of a scheduler that empties the queue AFTER the inner tick (a seeded defect):
`endTick` clears `queued` instead of `startTick` -/
def NSt.stepLate (s : NSt) : NAct → Option NSt
  | .interrupt c => some { s with queued := sinsert s.queued c, upOwed := true, owed := sinsert s.owed c }
  | .startTick due =>
    match s.ticking with
    | some _ => none
    | none => some { s with ticking := some (sunion s.queued due), upOwed := false }
  | .beginUpdate c =>
    match s.ticking with
    | some rem => some { s with ticking := some (rem.filter (· != c)), owed := s.owed.filter (· != c) }
    | none => none
  | .endTick =>
    match s.ticking with
    | some [] => some { s with ticking := none, queued := [] }
    | _ => none

end Tickit
