/-
Lemmas for the resource bound of the ticker (`to_update` holds at most one entry per
component of the wiring): the extent of a tick lies inside `Wiring.components`.
(The statements about `extent` repeat `Sync.mem_extent_iff` / `Sync.extent_sub_components` of
`FlatSyncLemmas.lean` under new names, to keep the import closure of C14 small.)
-/
import TickitModel.Lemmas.TickerLemmas
import TickitModel.Lemmas.RouterBfs

namespace Tickit

theorem tres_mem_akeys_foldl_upsert {κ β : Type} [DecidableEq κ] (cs : List κ) (b : β)
    (m : List (κ × β)) (x : κ) :
    x ∈ akeys (cs.foldl (fun acc c => upsert acc c b) m) ↔ x ∈ akeys m ∨ x ∈ cs := by
  induction cs generalizing m with
  | nil => simp
  | cons c cs ih =>
    rw [List.foldl_cons, ih, mem_akeys_upsert]
    simp only [List.mem_cons]
    constructor
    · rintro ((h | h) | h)
      · exact Or.inr (Or.inl h)
      · exact Or.inl h
      · exact Or.inr (Or.inr h)
    · rintro (h | h | h)
      · exact Or.inl (Or.inr h)
      · exact Or.inl (Or.inl h)
      · exact Or.inr h

theorem tres_mem_extent_iff (w : Wiring) (roots : List Comp) (c : Comp) :
    c ∈ extent w roots ↔ ∃ r ∈ roots, c ∈ w.dependants r := by
  unfold extent Ticker.startTick
  simp only
  suffices h : ∀ (rs : List Comp) (tu : List (Comp × Bool)),
      c ∈ akeys (rs.foldl (fun acc r => (w.dependants r).foldl (fun acc c => upsert acc c false) acc) tu) ↔
        c ∈ akeys tu ∨ ∃ r ∈ rs, c ∈ w.dependants r by
    simpa using h roots []
  intro rs
  induction rs with
  | nil => intro tu; simp
  | cons r rs ih =>
    intro tu
    rw [List.foldl_cons, ih, tres_mem_akeys_foldl_upsert]
    simp only [List.mem_cons, exists_eq_or_imp]
    exact or_assoc

/-- dependants of components are components. -/
theorem tres_extent_sub_components {w : Wiring} {roots : List Comp}
    (hr : ∀ r ∈ roots, r ∈ w.components) {c : Comp} (hc : c ∈ extent w roots) :
    c ∈ w.components := by
  rw [tres_mem_extent_iff] at hc
  obtain ⟨r, hrr, hcr⟩ := hc
  unfold Wiring.dependants at hcr
  refine bfs_sound w.children (· ∈ w.components) ?_ w.bfsFuel [r] [] ?_ (by simp) c hcr
  · intro d ch _ hch b hb
    exact (Wiring.mem_components w b).2 (Or.inl (Wiring.children_subset_inputs hch b hb))
  · intro x hx
    rw [List.mem_singleton] at hx
    exact hx ▸ hr r hrr

theorem tres_extent_nodup (w : Wiring) (roots : List Comp) : (extent w roots).Nodup :=
  (startTick_fresh (Val := Unit) w 0 roots).1

/-- `EventRouter.components` is a set. -/
theorem tres_components_nodup (w : Wiring) : w.components.Nodup := by
  unfold Wiring.components
  refine nodup_sunion (nodup_sunion ?_)
  unfold Wiring.inputComponents
  exact foldl_inv List.Nodup _ w (fun e _ s hs => nodup_foldl_ports e.2 s hs) [] List.nodup_nil

theorem tres_extent_length_le {w : Wiring} {roots : List Comp}
    (hr : ∀ r ∈ roots, r ∈ w.components) : (extent w roots).length ≤ w.components.length :=
  List.Nodup.length_le_of_subset (tres_extent_nodup w roots)
    (fun _ hc => tres_extent_sub_components hr hc)

variable {Val : Type}

theorem PreInv.toUpdate_length_le {w : Wiring} {t : SimTime} {roots : List Comp}
    {tu : List (Comp × Bool)} {pending : List (Dispatch Val)} {trace : List (Ev Val)}
    (h : PreInv w t roots tu pending trace) : tu.length ≤ (extent w roots).length := by
  rw [← length_akeys]
  exact List.Nodup.length_le_of_subset h.nodup
    (fun c hc => h.keys_ext c (alookup_ne_none_iff.2 hc))

theorem PreInv.pending_length_le {w : Wiring} {t : SimTime} {roots : List Comp}
    {tu : List (Comp × Bool)} {pending : List (Dispatch Val)} {trace : List (Ev Val)}
    (h : PreInv w t roots tu pending trace) : pending.length ≤ tu.length := by
  rw [← length_akeys, ← List.length_map (f := Dispatch.comp)]
  refine List.Nodup.length_le_of_subset h.pend_nodup ?_
  intro c hc
  obtain ⟨d, hd, rfl⟩ := List.mem_map.1 hc
  have := (h.pend_flag d.comp).1 ⟨d, hd, rfl⟩
  exact alookup_ne_none_iff.1 (by rw [this]; simp)

end Tickit
