/-
Helper lemmas for the master-loop transition system (interrupts at any point).
-/
import TickitModel.Core.Master
import TickitModel.Lemmas.MiscLemmas
import TickitModel.Props.C06

namespace Tickit

/-- nothing owed is ever forgotten: an owed component is a root of the running tick that has
not begun its update yet, or it holds a pending-interrupt stamp and a wakeup no later than it. -/
structure MInv (s : MSt) : Prop where
  wakeU : UniqueKeys s.wake
  pendU : UniqueKeys s.pend
  pend_wake : ∀ c i, alookup s.pend c = some i → ∃ w, alookup s.wake c = some w ∧ w ≤ i
  owed : ∀ c ∈ s.owed, (∃ rem, s.ticking = some rem ∧ c ∈ rem) ∨ (∃ i, alookup s.pend c = some i)

/-! ### `MSt.addWakeup` -/

theorem MSt.addWakeup_unique (s : MSt) (h : UniqueKeys s.wake) (c : Comp) (w : SimTime) :
    UniqueKeys (s.addWakeup c w) := by
  unfold MSt.addWakeup
  split <;> exact h.upsert _ _

theorem MSt.addWakeup_lookup_ne (s : MSt) (c c' : Comp) (w : SimTime) (h : c' ≠ c) :
    alookup (s.addWakeup c w) c' = alookup s.wake c' := by
  unfold MSt.addWakeup
  split <;> simp [ms_alookup_upsert, h]

/-- the entry written for `c` is never later than its pending interrupt's stamp. -/
theorem MSt.addWakeup_lookup_self_pend (s : MSt) (c : Comp) (w i : SimTime)
    (h : alookup s.pend c = some i) :
    ∃ w', alookup (s.addWakeup c w) c = some w' ∧ w' ≤ i := by
  unfold MSt.addWakeup
  rw [h]
  simp only [ms_alookup_upsert, if_true]
  refine ⟨_, rfl, ?_⟩
  simp only [SimTime] at *
  split <;> omega

theorem MSt.addWakeup_lookup_self (s : MSt) (c : Comp) (w : SimTime) :
    ∃ w', alookup (s.addWakeup c w) c = some w' := by
  unfold MSt.addWakeup
  split <;> exact ⟨_, by rw [ms_alookup_upsert, if_pos rfl]⟩

/-- `add_wakeup` keeps every pending interrupt covered; for the component written, nothing
needs to be known beforehand. -/
theorem MSt.pend_wake_addWakeup (s : MSt) (c : Comp) (w : SimTime)
    (h : ∀ c' i, c' ≠ c → alookup s.pend c' = some i →
      ∃ w', alookup s.wake c' = some w' ∧ w' ≤ i) :
    ∀ c' i, alookup s.pend c' = some i →
      ∃ w', alookup (s.addWakeup c w) c' = some w' ∧ w' ≤ i := by
  intro c' i hp
  by_cases hc : c' = c
  · subst hc
    exact s.addWakeup_lookup_self_pend c' w i hp
  · rw [s.addWakeup_lookup_ne c c' w hc]
    exact h c' i hc hp

/-! ### small list facts -/

theorem mem_sinsert {α : Type} [DecidableEq α] (s : List α) (x y : α) :
    y ∈ sinsert s x ↔ y ∈ s ∨ y = x := by
  unfold sinsert
  split
  · constructor
    · exact Or.inl
    · rintro (h | rfl)
      · exact h
      · assumption
  · simp

/-- a dict holds exactly one entry for a key it contains. -/
theorem filter_key_length_one {κ β : Type} [DecidableEq κ] (m : List (κ × β)) (h : UniqueKeys m)
    (k : κ) (hk : k ∈ m.map (·.1)) :
    (m.filter (fun e => e.1 == k)).length = 1 := by
  induction m with
  | nil => simp at hk
  | cons e t ih =>
    obtain ⟨a, v⟩ := e
    simp only [UniqueKeys, List.map_cons, List.nodup_cons] at h
    by_cases ha : a = k
    · subst ha
      have hnone : t.filter (fun e => e.1 == a) = [] := by
        rw [List.filter_eq_nil_iff]
        intro e he hea
        have : e.1 = a := by simpa using hea
        exact h.1 (this ▸ List.mem_map.mpr ⟨e, he, rfl⟩)
      simp [hnone]
    · have hk' : k ∈ t.map (·.1) := by
        simp only [List.map_cons, List.mem_cons] at hk
        rcases hk with hk | hk
        · exact absurd hk.symm ha
        · exact hk
      simp only [List.filter_cons, beq_iff_eq, ha, if_false]
      exact ih h.2 hk'

/-! ### the step function, case by case -/

theorem MSt.step_startTick_eq (s s' : MSt) (hs : s.step .startTick = some s') :
    ∃ cs m, s.ticking = none ∧ firstWakeups s.wake = (cs, some m) ∧
      s' = { s with wake := delWakeups s.wake cs, pend := delWakeups s.pend cs,
                    tickerTime := m, ticking := some cs } := by
  simp only [MSt.step] at hs
  split at hs
  · rename_i cs m ht hf
    exact ⟨cs, m, ht, hf, (Option.some.inj hs).symm⟩
  · simp at hs

theorem MSt.step_beginUpdate_eq (s s' : MSt) (c : Comp) (hs : s.step (.beginUpdate c) = some s') :
    ∃ rem, s.ticking = some rem ∧
      s' = { s with ticking := some (rem.filter (· != c)), owed := s.owed.filter (· != c) } := by
  simp only [MSt.step] at hs
  split at hs
  · rename_i rem ht
    exact ⟨rem, ht, (Option.some.inj hs).symm⟩
  · simp at hs

theorem MSt.step_endTick_eq (s s' : MSt) (hs : s.step .endTick = some s') :
    s.ticking = some [] ∧ s' = { s with ticking := none } := by
  simp only [MSt.step] at hs
  split at hs
  · rename_i ht
    exact ⟨ht, (Option.some.inj hs).symm⟩
  · simp at hs

theorem MInv.init : MInv {} where
  wakeU := by simp [UniqueKeys]
  pendU := by simp [UniqueKeys]
  pend_wake := by intro c i h; simp [alookup] at h
  owed := by intro c hc; simp at hc

/-- the time recorded for an interrupt of `c` stamped `stamp`: the stamp, unless `c` already has
an EARLIER wakeup (a callback that is due but not served yet) — that one is kept. -/
def MSt.intWhen (s : MSt) (c : Comp) (stamp : SimTime) : SimTime :=
  match alookup s.wake c with
  | some w => if w < stamp then w else stamp
  | none => stamp

theorem MSt.intWhen_le (s : MSt) (c : Comp) (stamp : SimTime) : s.intWhen c stamp ≤ stamp := by
  unfold MSt.intWhen
  simp only [SimTime] at *
  split
  · split <;> omega
  · omega

theorem MSt.intWhen_none (s : MSt) (c : Comp) (stamp : SimTime) (h : alookup s.wake c = none) :
    s.intWhen c stamp = stamp := by
  unfold MSt.intWhen; rw [h]

/-- an existing wakeup not later than the stamp is what is recorded -/
theorem MSt.intWhen_of_le (s : MSt) (c : Comp) (w stamp : SimTime) (h : alookup s.wake c = some w)
    (hle : w ≤ stamp) : s.intWhen c stamp = w := by
  unfold MSt.intWhen; rw [h]
  simp only [SimTime] at *
  split <;> omega

/-- an existing wakeup not earlier than the stamp is replaced by the stamp -/
theorem MSt.intWhen_of_ge (s : MSt) (c : Comp) (w stamp : SimTime) (h : alookup s.wake c = some w)
    (hle : stamp ≤ w) : s.intWhen c stamp = stamp := by
  unfold MSt.intWhen; rw [h]
  simp only [SimTime] at *
  split <;> omega

/-- the recorded time is not later than an existing wakeup of the component -/
theorem MSt.intWhen_le_wake (s : MSt) (c : Comp) (w stamp : SimTime) (h : alookup s.wake c = some w) :
    s.intWhen c stamp ≤ w := by
  unfold MSt.intWhen; rw [h]
  simp only [SimTime] at *
  split <;> omega

theorem MSt.step_interrupt_eq (s : MSt) (c : Comp) (stamp : SimTime) :
    s.step (.interrupt c stamp) =
      some { s with
        pend := if (alookup s.pend c).isSome then s.pend else upsert s.pend c (s.intWhen c stamp)
        wake := MSt.addWakeup
          { s with pend := if (alookup s.pend c).isSome then s.pend
                           else upsert s.pend c (s.intWhen c stamp) } c (s.intWhen c stamp)
        owed := sinsert s.owed c } := rfl

theorem MInv.interrupt {s : MSt} (h : MInv s) (c : Comp) (stamp : SimTime) (s' : MSt)
    (hs : s.step (.interrupt c stamp) = some s') : MInv s' := by
  rw [MSt.step_interrupt_eq] at hs
  -- the invariant does not depend on which time is recorded
  generalize s.intWhen c stamp = when at hs
  simp only [Option.some.injEq] at hs
  subst hs
  -- the state after recording the time
  have hpl : ∀ c', c' ≠ c →
      alookup (if (alookup s.pend c).isSome then s.pend else upsert s.pend c when) c'
        = alookup s.pend c' := by
    intro c' hc'
    split
    · rfl
    · simp [ms_alookup_upsert, hc']
  have hpc : ∃ i, alookup (if (alookup s.pend c).isSome then s.pend else upsert s.pend c when) c
      = some i := by
    split
    · rename_i hsome
      exact Option.isSome_iff_exists.mp hsome
    · exact ⟨when, by simp [ms_alookup_upsert]⟩
  refine ⟨?_, ?_, ?_, ?_⟩
  · exact MSt.addWakeup_unique
      { s with pend := if (alookup s.pend c).isSome then s.pend else upsert s.pend c when }
      h.wakeU c when
  · show UniqueKeys (if (alookup s.pend c).isSome then s.pend else upsert s.pend c when)
    split
    · exact h.pendU
    · exact h.pendU.upsert _ _
  · apply MSt.pend_wake_addWakeup
      { s with pend := if (alookup s.pend c).isSome then s.pend else upsert s.pend c when }
      c when
    intro c' i hc' hp
    have : alookup s.pend c' = some i := by rw [← hpl c' hc']; exact hp
    exact h.pend_wake c' i this
  · intro c' hc'
    show _ ∨ ∃ i, alookup (if (alookup s.pend c).isSome then s.pend else upsert s.pend c when) c'
      = some i
    rcases (mem_sinsert _ _ _).mp hc' with hc' | rfl
    · rcases h.owed c' hc' with hr | ⟨i, hi⟩
      · exact Or.inl hr
      · right
        by_cases hcc : c' = c
        · subst hcc; exact hpc
        · exact ⟨i, by rw [hpl c' hcc]; exact hi⟩
    · exact Or.inr hpc

theorem MInv.output {s : MSt} (h : MInv s) (c : Comp) (callAt : Option SimTime) (s' : MSt)
    (hs : s.step (.output c callAt) = some s') : MInv s' := by
  cases callAt with
  | none =>
    simp only [MSt.step, Option.some.injEq] at hs
    subst hs; exact h
  | some w =>
    simp only [MSt.step, Option.some.injEq] at hs
    subst hs
    refine ⟨MSt.addWakeup_unique _ h.wakeU _ _, h.pendU, ?_, h.owed⟩
    exact MSt.pend_wake_addWakeup s c w (fun c' i _ hp => h.pend_wake c' i hp)

theorem MInv.startTick {s : MSt} (h : MInv s) (s' : MSt)
    (hs : s.step .startTick = some s') : MInv s' := by
  obtain ⟨cs, m, ht, hf, rfl⟩ := s.step_startTick_eq s' hs
  refine ⟨delWakeups_unique _ h.wakeU _, delWakeups_unique _ h.pendU _, ?_, ?_⟩
  · intro c i hp
    show ∃ w, alookup (delWakeups s.wake cs) c = some w ∧ w ≤ i
    have hp' : alookup (delWakeups s.pend cs) c = some i := hp
    rw [delWakeups_lookup _ h.pendU] at hp'
    rw [delWakeups_lookup _ h.wakeU]
    by_cases hc : c ∈ cs
    · simp [hc] at hp'
    · simp only [hc, if_false] at hp' ⊢
      exact h.pend_wake c i hp'
  · intro c hc
    show (∃ rem, some cs = some rem ∧ c ∈ rem) ∨ ∃ i, alookup (delWakeups s.pend cs) c = some i
    by_cases hcs : c ∈ cs
    · exact Or.inl ⟨cs, rfl, hcs⟩
    · right
      rcases h.owed c hc with ⟨rem, hr, _⟩ | ⟨i, hi⟩
      · rw [ht] at hr; cases hr
      · exact ⟨i, by rw [delWakeups_lookup _ h.pendU]; simp [hcs, hi]⟩

theorem MInv.beginUpdate {s : MSt} (h : MInv s) (c : Comp) (s' : MSt)
    (hs : s.step (.beginUpdate c) = some s') : MInv s' := by
  obtain ⟨rem, ht, rfl⟩ := s.step_beginUpdate_eq s' c hs
  refine ⟨h.wakeU, h.pendU, h.pend_wake, ?_⟩
  intro c' hc'
  have hc'' : c' ∈ s.owed.filter (· != c) := hc'
  rw [List.mem_filter] at hc''
  obtain ⟨hmem, hne⟩ := hc''
  rcases h.owed c' hmem with ⟨rem', hr, hin⟩ | hp
  · left
    rw [ht] at hr
    cases hr
    exact ⟨_, rfl, List.mem_filter.mpr ⟨hin, hne⟩⟩
  · exact Or.inr hp

theorem MInv.endTick {s : MSt} (h : MInv s) (s' : MSt)
    (hs : s.step .endTick = some s') : MInv s' := by
  obtain ⟨ht, rfl⟩ := s.step_endTick_eq s' hs
  refine ⟨h.wakeU, h.pendU, h.pend_wake, ?_⟩
  intro c hc
  rcases h.owed c hc with ⟨rem, hr, hin⟩ | hp
  · rw [ht] at hr; cases hr; simp at hin
  · exact Or.inr hp

theorem MInv.step {s s' : MSt} (h : MInv s) (a : MAct) (hs : s.step a = some s') : MInv s' := by
  cases a with
  | interrupt c stamp => exact h.interrupt c stamp s' hs
  | output c callAt => exact h.output c callAt s' hs
  | startTick => exact h.startTick s' hs
  | beginUpdate c => exact h.beginUpdate c s' hs
  | endTick => exact h.endTick s' hs

theorem MInv.run {s : MSt} (h : MInv s) (acts : List MAct) : MInv (s.run acts) := by
  induction acts generalizing s with
  | nil => exact h
  | cons a as ih =>
    simp only [MSt.run]
    split
    · rename_i s' hs
      exact ih (h.step a hs)
    · exact ih h

end Tickit
