/-
Interleaved nested tick, part 4: ONE interleaved step preserves the virtual-state invariant
`IVirt` (one lemma per rule of `IStep`), hence every run does, and a complete interleaved execution
of a tick has an ATOMIC (`TickLevelAny`) execution from the same start state with the same exposed
changes and the same key-wise view of the final state under every key (`tickInter_atomic`).
-/
import TickitModel.Lemmas.InterSim

namespace Tickit

variable {S : Static} {orc : Oracle}

theorem lt_length_of_getElem? {α : Type} {l : List α} {j : Nat} {a : α} (h : l[j]? = some a) :
    j < l.length := by
  rcases Nat.lt_or_ge j l.length with h' | h'
  · exact h'
  · rw [List.getElem?_eq_none h'] at h; cases h

/-- rule `answer`: a complete answer at the root level -/
theorem IVirt.answer_step (hS : S.Valid) {st : SimSt} {fr : IFrame} {kids : List ITree}
    {roots : List Comp} {σ0 σ : SimSt} (hv : IVirt S orc st (.node fr kids) roots σ0 σ)
    {i : Nat} {d : Dispatch V} {st' : SimSt} {outCh' changes : List (Port × V)}
    {callAt : Option SimTime} {tk' : Ticker V} {ds : List (Dispatch V)}
    (h1 : fr.pending[i]? = some d)
    (hans : AnswerNow S orc fr.L fr.inCh st fr.outCh d (st', outCh', changes, callAt))
    (h3 : fr.tk.propagate fr.L.wiring d.comp d.time changes = .ok (tk', ds)) :
    ∃ σ', IVirt S orc (anyWake st' fr.L.name d.comp callAt)
        (.node { fr with tk := tk', pending := fr.pending.eraseIdx i ++ ds, outCh := outCh' } kids)
        roots σ0 σ' ∧
      ∀ x, ¬ AtOrBelow S fr.L.name x → (anyWake st' fr.L.name d.comp callAt).loc x = st.loc x := by
  cases hv with
  | mk kr kv hL hcall hreach hown hinj hkid hrec =>
    have inv1 := hreach.inv1 hS hL (Inv1.init hcall σ0)
    have hdc : d.comp ∈ fr.L.wiring.components := inv1.pend_comp d (List.mem_of_getElem? h1)
    obtain ⟨haP, ho⟩ := hans.ansP (inner := fun _ _ _ _ _ _ => False)
    subst ho
    have hp0 : ∀ c t ro i s r, (fun _ _ _ _ _ _ => False : LevelRel) c t ro i s r →
        LevelPost1 S c s r := fun _ _ _ _ _ _ h => h.elim
    have hp2 : ∀ c t ro i s r, TickLevelAny S orc c t ro i s r → LevelPost1 S c s r :=
      fun _ _ _ _ _ _ h => tickLevelAny_post1 hS h
    have hfr : ∀ x, ¬ Foot S fr.L d.comp x → st'.loc x = st.loc x :=
      fun x hx => haP.frame_foot hS hp0 hL hdc hx
    have houtside : ∀ x, ¬ AtOrBelow S fr.L.name x →
        (anyWake st' fr.L.name d.comp callAt).loc x = st.loc x := by
      intro x hx
      have hne : x ≠ fr.L.name := fun h => hx (Or.inl h)
      rw [loc_anyWake_ne _ _ _ _ hne]
      exact hfr x (fun hf => hx (Or.inr hf.below))
    rcases hans.same_or_dev with ⟨hst, hsame⟩ | hdev
    · subst hst
      refine ⟨anyWake σ fr.L.name d.comp callAt, ?_, houtside⟩
      exact IVirt.parent_step hS kr kv hL hcall hreach hinj (fun _ h => h) hkid hrec h1
        (hsame _ σ) h3 hown (fun _ _ _ _ => ⟨rfl, rfl⟩)
    · have hkne : ∀ k ∈ kids, ∀ x, AtOrBelow S k.name x → ¬ Foot S fr.L d.comp x := by
        intro k hk x hx hf
        obtain ⟨k1, k2, _⟩ := hkid k hk
        have := Foot.unique hS (foot_of_atOrBelow k2 (hS.sys_ne_master k1) hx) hf
        rw [this, hdev] at k1
        cases k1
      have hσ : ∀ x, Foot S fr.L d.comp x → σ.loc x = st.loc x :=
        fun x hx => hown x (Or.inr hx.below) (fun k hk hxk => hkne k hk x hxk hx)
      obtain ⟨σ2, ha2, hl⟩ := haP.transplant hS (inner' := TickLevelAny S orc)
        (fun _ _ _ _ _ _ h => h.elim) hL hdc hσ
      simp only at ha2 hl
      have hfr2 : ∀ x, ¬ Foot S fr.L d.comp x → σ2.loc x = σ.loc x :=
        fun x hx => ha2.frame_foot hS hp2 hL hdc hx
      refine ⟨anyWake σ2 fr.L.name d.comp callAt, ?_, houtside⟩
      refine IVirt.parent_step hS kr kv hL hcall hreach hinj (fun _ h => h) hkid hrec h1 ha2 h3 ?_ ?_
      · intro x hx hk
        by_cases hf : Foot S fr.L d.comp x
        · exact hl x hf
        · rw [hfr2 x hf, hfr x hf]
          exact hown x hx hk
      · intro k hk x hx
        exact ⟨hfr2 x (hkne k hk x hx), hfr x (hkne k hk x hx)⟩

/-- rule `opn`: the `Input` of a system component is delivered -/
theorem IVirt.open_step (hS : S.Valid) {st : SimSt} {fr : IFrame} {kids : List ITree}
    {roots : List Comp} {σ0 σ : SimSt} (hv : IVirt S orc st (.node fr kids) roots σ0 σ)
    {i : Nat} {c : Comp} {t : SimTime} {ins : List (Port × V)} {Lc : Level} {tk : Ticker V}
    {ds : List (Dispatch V)} (h1 : fr.pending[i]? = some (.input c t ins))
    (e1 : (fr.L.name != "" && c == pseudoExternal) = false)
    (e2 : (fr.L.name != "" && c == pseudoExpose) = false) (e3 : S.isSys c = true)
    (hfresh : ∀ k ∈ kids, k.name ≠ c) (hLv : S.level c = some Lc)
    (hcall' : (Ticker.call Lc.wiring t (sysRoots S st c t) :
      Except TickErr (Ticker V × List (Dispatch V))) = .ok (tk, ds)) :
    IVirt S orc (sysPre st c t) (.node fr (kids ++ [.node ⟨Lc, t, ins, tk, ds, []⟩ []])) roots σ0 σ ∧
      ∀ x, ¬ AtOrBelow S fr.L.name x → (sysPre st c t).loc x = st.loc x := by
  cases hv with
  | mk kr kv hL hcall hreach hown hinj hkid hrec =>
    obtain ⟨hLc, hname⟩ := Static.level_some hLv
    subst hname
    have inv1 := hreach.inv1 hS hL (Inv1.init hcall σ0)
    have hdc : Lc.name ∈ fr.L.wiring.components :=
      inv1.pend_comp (.input Lc.name t ins) (List.mem_of_getElem? h1)
    have hpar := parent_of_not_pseudo hS hL hdc e1 e2
    have hcne : Lc.name ≠ "" := hS.sys_ne_master e3
    have hdisj : ∀ k ∈ kids, ∀ x, AtOrBelow S k.name x → ¬ AtOrBelow S Lc.name x := by
      intro k hk x hx hxc
      obtain ⟨k1, k2, _⟩ := hkid k hk
      exact hfresh k hk (child_regions_disjoint hS k2 hpar (hS.sys_ne_master k1) hcne hx hxc)
    have hσc : ∀ x, AtOrBelow S Lc.name x → σ.loc x = st.loc x :=
      fun x hx => hown x (Or.inr (atOrBelow_child hpar hcne hx))
        (fun k hk hxk => hdisj k hk x hxk hx)
    constructor
    · refine .mk (fun n => if n = Lc.name then sysPre σ Lc.name t else kr n)
        (fun n => if n = Lc.name then sysPre σ Lc.name t else kv n) hL hcall hreach ?_
        (hinj.snoc ?_) ?_ ?_
      · intro x hx hk
        have hxc : ¬ AtOrBelow S Lc.name x :=
          hk (.node ⟨Lc, t, ins, tk, ds, []⟩ []) (by simp)
        have hne : x ≠ Lc.name := fun h => hxc (Or.inl h)
        rw [loc_sysPre_ne _ _ _ hne]
        exact hown x hx (fun k hk' => hk k (List.mem_append_left _ hk'))
      · intro k0 hk0
        exact hfresh k0 hk0
      · intro k hk
        rcases List.mem_append.1 hk with hk | hk
        · have hne : k.name ≠ Lc.name := hfresh k hk
          simp only [if_neg hne]
          exact hkid k hk
        · simp only [List.mem_singleton] at hk
          subst hk
          refine ⟨e3, hpar, ?_⟩
          intro x _
          show ((if Lc.name = Lc.name then sysPre σ Lc.name t else kr Lc.name).loc x) = _
          rw [if_pos rfl]
          rfl
      · intro k hk
        rcases List.mem_append.1 hk with hk | hk
        · have hne : k.name ≠ Lc.name := hfresh k hk
          simp only [if_neg hne]
          refine (hrec k hk).frame hS _ ?_
          intro x hx
          exact loc_sysPre_ne _ _ _ (fun h => hdisj k hk x hx (Or.inl h))
        · simp only [List.mem_singleton] at hk
          subst hk
          show IVirt S orc (sysPre st Lc.name t) (.node ⟨Lc, t, ins, tk, ds, []⟩ [])
            (sysRoots S σ Lc.name t) (if Lc.name = Lc.name then sysPre σ Lc.name t else kr Lc.name)
            (if Lc.name = Lc.name then sysPre σ Lc.name t else kv Lc.name)
          rw [if_pos rfl, if_pos rfl]
          have hr : sysRoots S st Lc.name t = sysRoots S σ Lc.name t :=
            sysRoots_of_sched (sched_of_loc (hσc Lc.name (Or.inl rfl)).symm) t
          rw [hr] at hcall'
          exact .mk (fun _ => σ) (fun _ => σ) hLc hcall' .refl
            (fun x hx _ => loc_sysPre_congr (hσc x hx) Lc.name t) .nil (by simp) (by simp)
    · intro x hx
      have hne : x ≠ Lc.name := fun h => hx (h ▸ Or.inr (.direct hpar))
      exact loc_sysPre_ne _ _ _ hne

/-- rule `close`: an inner level whose tick is over returns its `Output` -/
theorem IVirt.close_step (hS : S.Valid) {st : SimSt} {fr : IFrame} {kids : List ITree}
    {roots : List Comp} {σ0 σ : SimSt} (hv : IVirt S orc st (.node fr kids) roots σ0 σ)
    {j : Nat} {g : IFrame} {i : Nat} {tk' : Ticker V} {ds : List (Dispatch V)}
    (hj : kids[j]? = some (.node g [])) (hgp : g.pending = [])
    (hgu : g.tk.toUpdate.isEmpty = true)
    (h1 : fr.pending[i]? = some (.input g.L.name g.t g.inCh))
    (h3 : fr.tk.propagate fr.L.wiring g.L.name g.t g.outCh = .ok (tk', ds)) :
    ∃ σ', IVirt S orc (anyWake st fr.L.name g.L.name (sysCallAt st g.L.name g.t))
        (.node { fr with tk := tk', pending := fr.pending.eraseIdx i ++ ds } (kids.eraseIdx j))
        roots σ0 σ' ∧
      ∀ x, ¬ AtOrBelow S fr.L.name x →
        (anyWake st fr.L.name g.L.name (sysCallAt st g.L.name g.t)).loc x = st.loc x := by
  cases hv with
  | mk kr kv hL hcall hreach hown hinj hkid hrec =>
    have hkm : ITree.node g [] ∈ kids := List.mem_of_getElem? hj
    obtain ⟨k1, k2, k3⟩ := hkid _ hkm
    have hvk := hrec _ hkm
    change S.isSys g.L.name = true at k1
    change alookup S.parent g.L.name = some fr.L.name at k2
    change LocOn (AtOrBelow S g.L.name) (kr g.L.name) (sysPre σ g.L.name g.t) at k3
    change IVirt S orc st (.node g []) (sysRoots S σ g.L.name g.t) (kr g.L.name) (kv g.L.name) at hvk
    cases hvk with
    | mk krk kvk hLg hcallg hreachg howng _ _ _ =>
      -- the inner tick, atomic, from the view at its opening
      have hdone : LoopP S orc (TickLevelAny S orc) g.L g.inCh
          ⟨g.tk, g.pending, g.outCh, kv g.L.name⟩ (kv g.L.name, g.outCh) := .done hgp hgu
      have hloop := hreachg.loopP hdone
      have hlv : S.level g.L.name = some g.L := hS.level_of_mem hLg
      have htick : TickLevelAny S orc g.L.name g.t (sysRoots S σ g.L.name g.t) g.inCh (kr g.L.name)
          (kv g.L.name, g.outCh) := tickLevelAny_iff.2 ⟨g.L, _, _, hlv, hcallg, hloop⟩
      -- transplanted to the parent's virtual state
      obtain ⟨σ2, htick2, hl2⟩ := tickLevelAny_transplant hS htick (sysPre σ g.L.name g.t) k3.symm
      simp only at htick2 hl2
      have hkv : ∀ x, AtOrBelow S g.L.name x → (kv g.L.name).loc x = st.loc x :=
        fun x hx => howng x hx (by simp)
      have hσ2 : ∀ x, AtOrBelow S g.L.name x → σ2.loc x = st.loc x :=
        fun x hx => (hl2 x hx).trans (hkv x hx)
      have hσ2o : ∀ x, ¬ AtOrBelow S g.L.name x → σ2.loc x = σ.loc x := by
        intro x hx
        have hne : x ≠ g.L.name := fun h => hx (Or.inl h)
        have hnb : ¬ S.Below g.L.name x := fun h => hx (Or.inr h)
        rw [(tickLevelAny_post1 hS htick2).frame x hne hnb, loc_sysPre_ne _ _ _ hne]
      obtain ⟨e1, e2⟩ := sys_not_pseudo hS k1 fr.L.name
      have ha : AnsP S orc (TickLevelAny S orc) fr.L fr.inCh σ (.input g.L.name g.t g.inCh)
          (σ2, g.outCh, sysCallAt σ2 g.L.name g.t) := .sys e1 e2 k1 htick2
      have hca : sysCallAt σ2 g.L.name g.t = sysCallAt st g.L.name g.t :=
        sysCallAt_of_sched (sched_of_loc (hσ2 g.L.name (Or.inl rfl))) _
      rw [hca] at ha
      have hexp : (exposeIns fr.L (.input g.L.name g.t g.inCh)).getD fr.outCh = fr.outCh := by
        simp [exposeIns, e1, e2]
      refine ⟨anyWake σ2 fr.L.name g.L.name (sysCallAt st g.L.name g.t), ?_, ?_⟩
      · have key := IVirt.parent_step hS (st1 := st) kr kv hL hcall hreach (hinj.eraseIdx j)
          (fun k hk => (List.eraseIdx_sublist _ _).subset hk) hkid hrec h1 ha h3 ?_ ?_
        · rw [hexp] at key
          exact key
        · intro x hx hk
          by_cases hxc : AtOrBelow S g.L.name x
          · exact hσ2 x hxc
          · rw [hσ2o x hxc]
            refine hown x hx (fun k hk' hxk => ?_)
            rcases mem_eraseIdx_or_eq hk' hj with rfl | h
            · exact hxc hxk
            · exact hk k h hxk
        · intro k hk x hx
          obtain ⟨i', hne, hi'⟩ := List.mem_eraseIdx_iff_getElem?.1 hk
          have hkm' : k ∈ kids := List.mem_of_getElem? hi'
          obtain ⟨q1, q2, _⟩ := hkid k hkm'
          have hxc : ¬ AtOrBelow S g.L.name x := by
            intro hxc
            have hn : k.name = g.L.name :=
              child_regions_disjoint hS q2 k2 (hS.sys_ne_master q1) (hS.sys_ne_master k1) hx hxc
            exact hne (hinj _ _ _ _ hi' hj hn)
          exact ⟨hσ2o x hxc, rfl⟩
      · intro x hx
        have hne : x ≠ fr.L.name := fun h => hx (Or.inl h)
        exact loc_anyWake_ne _ _ _ _ hne

/-- rule `inner`: a step inside an open inner level -/
theorem IVirt.inner_step (hS : S.Valid) {st st' : SimSt} {fr : IFrame} {kids : List ITree}
    {roots : List Comp} {σ0 σ : SimSt} (hv : IVirt S orc st (.node fr kids) roots σ0 σ)
    {j : Nat} {k k' : ITree} (hj : kids[j]? = some k)
    (hstep : ∀ rootsk σ0k σk, IVirt S orc st k rootsk σ0k σk →
      ∃ σk', IVirt S orc st' k' rootsk σ0k σk' ∧
        ∀ x, ¬ AtOrBelow S k.name x → st'.loc x = st.loc x)
    (hname : k'.name = k.name) (ht : k'.fr.t = k.fr.t) :
    IVirt S orc st' (.node fr (kids.set j k')) roots σ0 σ ∧
      ∀ x, ¬ AtOrBelow S fr.L.name x → st'.loc x = st.loc x := by
  cases hv with
  | mk kr kv hL hcall hreach hown hinj hkid hrec =>
    have hkm : k ∈ kids := List.mem_of_getElem? hj
    have hjl : j < kids.length := lt_length_of_getElem? hj
    obtain ⟨k1, k2, k3⟩ := hkid k hkm
    obtain ⟨σk', hvk', hfr⟩ := hstep _ _ _ (hrec k hkm)
    have hmem : ∀ k0 ∈ kids.set j k', k0 = k' ∨ (k0 ∈ kids ∧ k0.name ≠ k.name) := by
      intro k0 hk0
      obtain ⟨i', hi'⟩ := List.mem_iff_getElem?.1 hk0
      by_cases hij : j = i'
      · subst hij
        rw [List.getElem?_set_self hjl] at hi'
        exact Or.inl (Option.some.inj hi').symm
      · rw [List.getElem?_set_ne hij] at hi'
        exact Or.inr ⟨List.mem_of_getElem? hi', fun hn => hij (hinj _ _ _ _ hi' hj hn).symm⟩
    constructor
    · refine .mk kr (fun n => if n = k.name then σk' else kv n) hL hcall hreach ?_
        (hinj.set hj hname) ?_ ?_
      · intro x hx hk
        have hnk : ∀ k0 ∈ kids, ¬ AtOrBelow S k0.name x := by
          intro k0 hk0 hxk
          obtain ⟨i', hi'⟩ := List.mem_iff_getElem?.1 hk0
          by_cases hij : i' = j
          · subst hij
            rw [hj] at hi'
            cases hi'
            exact hk k' (List.mem_set hjl k') (hname ▸ hxk)
          · have : k0 ∈ kids.set j k' :=
              List.mem_iff_getElem?.2 ⟨i', by rw [List.getElem?_set_ne (Ne.symm hij)]; exact hi'⟩
            exact hk k0 this hxk
        rw [hown x hx hnk]
        exact (hfr x (hnk k hkm)).symm
      · intro k0 hk0
        rcases hmem k0 hk0 with rfl | ⟨h, _⟩
        · rw [hname, ht]
          exact ⟨k1, k2, k3⟩
        · exact hkid k0 h
      · intro k0 hk0
        rcases hmem k0 hk0 with rfl | ⟨h, hne⟩
        · rw [hname, ht]
          simp only [if_pos]
          exact hvk'
        · simp only [if_neg hne]
          refine (hrec k0 h).frame hS st' ?_
          intro x hx
          apply hfr
          intro hxk
          obtain ⟨q1, q2, _⟩ := hkid k0 h
          exact hne (child_regions_disjoint hS q2 k2 (hS.sys_ne_master q1) (hS.sys_ne_master k1) hx hxk)
    · intro x hx
      apply hfr
      intro hxk
      exact hx (Or.inr (atOrBelow_child k2 (hS.sys_ne_master k1) hxk))

/-- **one interleaved step preserves the invariant**, and changes the shared state only at or
below the level at the root of the configuration -/
theorem IStep.sim (hS : S.Valid) {a b : SimSt × ITree} (h : IStep S orc a b) :
    ∀ (roots : List Comp) (σ0 σ : SimSt), IVirt S orc a.1 a.2 roots σ0 σ →
      ∃ σ', IVirt S orc b.1 b.2 roots σ0 σ' ∧
        ∀ x, ¬ AtOrBelow S a.2.name x → b.1.loc x = a.1.loc x := by
  induction h with
  | answer h1 h2 h3 =>
    intro roots σ0 σ hv
    exact IVirt.answer_step hS hv h1 h2 h3
  | opn h1 e1 e2 e3 hf hLv hcall =>
    intro roots σ0 σ hv
    exact ⟨σ, IVirt.open_step hS hv h1 e1 e2 e3 hf hLv hcall⟩
  | close hj hgp hgu h1 h3 =>
    intro roots σ0 σ hv
    exact IVirt.close_step hS hv hj hgp hgu h1 h3
  | inner hj hs ih =>
    intro roots σ0 σ hv
    obtain ⟨hL, ht, _⟩ := hs.root_same
    exact ⟨σ, IVirt.inner_step hS hv hj ih (congrArg Level.name hL) ht⟩

theorem IRun.sim (hS : S.Valid) {a b : SimSt × ITree} (h : IRun S orc a b) :
    ∀ (roots : List Comp) (σ0 σ : SimSt), IVirt S orc a.1 a.2 roots σ0 σ →
      ∃ σ', IVirt S orc b.1 b.2 roots σ0 σ' ∧
        ∀ x, ¬ AtOrBelow S a.2.name x → b.1.loc x = a.1.loc x := by
  induction h with
  | refl => intro roots σ0 σ hv; exact ⟨σ, hv, fun _ _ => rfl⟩
  | @step a b c hs _ ih =>
    intro roots σ0 σ hv
    obtain ⟨σ1, hv1, hf1⟩ := hs.sim hS roots σ0 σ hv
    obtain ⟨σ2, hv2, hf2⟩ := ih roots σ0 σ1 hv1
    have hn : b.2.name = a.2.name := congrArg Level.name hs.root_same.1
    refine ⟨σ2, hv2, fun x hx => ?_⟩
    rw [hf2 x (hn ▸ hx), hf1 x hx]

/-- **every complete interleaved execution of a tick has an atomic counterpart**: a `TickLevelAny`
execution from the same start state with the same exposed output changes whose final state has,
under EVERY key, the same device state, update count, scheduler state and observation sequence. -/
theorem tickInter_atomic (hS : S.Valid) {lvl : Comp} {t : SimTime} {roots : List Comp}
    {inCh : List (Port × V)} {st : SimSt} {r : SimSt × List (Port × V)}
    (h : TickInter S orc lvl t roots inCh st r) :
    ∃ st'', TickLevelAny S orc lvl t roots inCh st (st'', r.2) ∧ ∀ x, st''.loc x = r.1.loc x := by
  obtain ⟨L, tk, ds, fr, hLv, hcall, hrun, hp, hu, ho⟩ := h.inv
  obtain ⟨hL, hname⟩ := Static.level_some hLv
  subst hname
  obtain ⟨σ', hv, hf⟩ := hrun.sim hS roots st st (IVirt.init hL hcall st)
  obtain ⟨fL, ft, fi⟩ := hrun.root_same
  simp only [ITree.fr] at fL ft fi
  change IVirt S orc r.1 (.node fr []) roots st σ' at hv
  cases hv with
  | mk kr kv hL' hcall' hreach hown _ _ _ =>
    rw [fL, ft] at hcall'
    rw [hcall] at hcall'
    cases hcall'
    rw [fL, fi] at hreach
    have hdone : LoopP S orc (TickLevelAny S orc) L inCh ⟨fr.tk, fr.pending, fr.outCh, σ'⟩
        (σ', fr.outCh) := .done hp hu
    have hloop := hreach.loopP hdone
    have htick : TickLevelAny S orc L.name t roots inCh st (σ', fr.outCh) :=
      tickLevelAny_iff.2 ⟨L, _, _, hLv, hcall, hloop⟩
    refine ⟨σ', ho ▸ htick, fun x => ?_⟩
    by_cases hx : AtOrBelow S L.name x
    · exact hown x (fL ▸ hx) (by simp)
    · have hne : x ≠ L.name := fun h => hx (Or.inl h)
      have hnb : ¬ S.Below L.name x := fun h => hx (Or.inr h)
      rw [(tickLevelAny_post1 hS htick).frame x hne hnb]
      exact (hf x hx).symm

end Tickit
