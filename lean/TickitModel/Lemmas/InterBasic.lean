/-
Interleaved nested tick (`Core/SimInter.lean`), part 1: basic facts about runs, and the ATOMIC
executions are interleaved executions: a `TickLevelAny` execution is the interleaving in which an
inner level, once opened, takes all its steps before anything else happens.
-/
import TickitModel.Core.SimInter
import TickitModel.Lemmas.AnyBasic

namespace Tickit

variable {S : Static} {orc : Oracle}

theorem IRun.single {a b : SimSt × ITree} (h : IStep S orc a b) : IRun S orc a b := .step h .refl

theorem IRun.trans {a b c : SimSt × ITree} (h1 : IRun S orc a b) (h2 : IRun S orc b c) :
    IRun S orc a c := by
  induction h1 with
  | refl => exact h2
  | step h _ ih => exact .step h (ih h2)

theorem IRun.snoc {a b c : SimSt × ITree} (h1 : IRun S orc a b) (h2 : IStep S orc b c) :
    IRun S orc a c := h1.trans (.single h2)

/-- a step keeps the level, the time and the input changes of the ticked level -/
theorem IStep.root_same {a b : SimSt × ITree} (h : IStep S orc a b) :
    b.2.fr.L = a.2.fr.L ∧ b.2.fr.t = a.2.fr.t ∧ b.2.fr.inCh = a.2.fr.inCh := by
  cases h <;> exact ⟨rfl, rfl, rfl⟩

theorem IRun.root_same {a b : SimSt × ITree} (h : IRun S orc a b) :
    b.2.fr.L = a.2.fr.L ∧ b.2.fr.t = a.2.fr.t ∧ b.2.fr.inCh = a.2.fr.inCh := by
  induction h with
  | refl => exact ⟨rfl, rfl, rfl⟩
  | step h _ ih =>
    obtain ⟨h1, h2, h3⟩ := h.root_same
    exact ⟨ih.1.trans h1, ih.2.1.trans h2, ih.2.2.trans h3⟩

/-- steps of an active inner level are steps of the whole configuration (`IStep.inner`, for runs) -/
theorem IRun.lift {a b : SimSt × ITree} (h : IRun S orc a b) :
    ∀ (fr : IFrame) (kids : List ITree) (j : Nat), kids[j]? = some a.2 →
      IRun S orc (a.1, .node fr kids) (b.1, .node fr (kids.set j b.2)) := by
  induction h with
  | @refl a =>
    intro fr kids j hj
    have : kids.set j a.2 = kids := by
      apply List.ext_getElem?
      intro n
      by_cases hn : j = n
      · subst hn
        rw [List.getElem?_set_self' , hj]
        simp
      · rw [List.getElem?_set_ne hn]
    rw [this]
    exact .refl
  | @step a b c hs _ ih =>
    intro fr kids j hj
    have h1 : IStep S orc (a.1, .node fr kids) (b.1, .node fr (kids.set j b.2)) :=
      .inner (k := a.2) (k' := b.2) hj hs
    have hj' : (kids.set j b.2)[j]? = some b.2 := by
      have hlt : j < kids.length := by
        rcases Nat.lt_or_ge j kids.length with h | h
        · exact h
        · rw [List.getElem?_eq_none h] at hj; cases hj
      rw [List.getElem?_set_self hlt]
    have := ih fr (kids.set j b.2) j hj'
    rw [List.set_set] at this
    exact .step h1 this

/-- an `AnsP` answer that is not the answer of a system component is a one-step answer -/
theorem AnsP.answerNow_of_notSys {inner : LevelRel} {L : Level} {inCh : List (Port × V)} {st : SimSt}
    {d : Dispatch V} {st' : SimSt} {ch : List (Port × V)} {ca : Option SimTime} (o : List (Port × V))
    (a : AnsP S orc inner L inCh st d (st', ch, ca))
    (hns : ∀ c t ins, d = .input c t ins → (L.name != "" && c == pseudoExternal) = false →
      (L.name != "" && c == pseudoExpose) = false → S.isSys c = false) :
    AnswerNow S orc L inCh st o d (st', (exposeIns L d).getD o, ch, ca) := by
  cases a with
  | skip => exact .skip
  | external h1 => simpa [exposeIns, h1] using AnswerNow.external (S := S) (orc := orc) (outCh0 := o) h1
  | expose h1 h2 =>
    simpa [exposeIns, h1, h2] using AnswerNow.expose (S := S) (orc := orc) (outCh0 := o) h1 h2
  | sys h1 h2 h3 _ =>
    rw [hns _ _ _ rfl h1 h2] at h3
    cases h3
  | dev h1 h2 h3 h4 h5 =>
    simpa [exposeIns, h1, h2] using AnswerNow.dev (S := S) (orc := orc) (outCh0 := o) h1 h2 h3 h4 h5

/-- a one-step answer is an `AnsP` answer, whatever the inner ticks are -/
theorem AnswerNow.ansP {inner : LevelRel} {L : Level} {inCh : List (Port × V)} {st : SimSt}
    {o : List (Port × V)} {d : Dispatch V} {st' : SimSt} {o' ch : List (Port × V)}
    {ca : Option SimTime} (a : AnswerNow S orc L inCh st o d (st', o', ch, ca)) :
    AnsP S orc inner L inCh st d (st', ch, ca) ∧ o' = (exposeIns L d).getD o := by
  cases a with
  | skip => exact ⟨.skip, rfl⟩
  | external h1 => exact ⟨.external h1, by simp [exposeIns, h1]⟩
  | expose h1 h2 => exact ⟨.expose h1 h2, by simp [exposeIns, h1, h2]⟩
  | dev h1 h2 h3 h4 h5 => exact ⟨.dev h1 h2 h3 h4 h5, by simp [exposeIns, h1, h2]⟩

/-- the answer of a system component is an inner tick -/
theorem AnsP.inv_sys {inner : LevelRel} {L : Level} {inCh : List (Port × V)} {st : SimSt}
    {c : Comp} {t : SimTime} {ins : List (Port × V)} {st' : SimSt} {ch : List (Port × V)}
    {ca : Option SimTime} (a : AnsP S orc inner L inCh st (.input c t ins) (st', ch, ca))
    (e1 : (L.name != "" && c == pseudoExternal) = false)
    (e2 : (L.name != "" && c == pseudoExpose) = false) (e3 : S.isSys c = true) :
    inner c t (sysRoots S st c t) ins (sysPre st c t) (st', ch) ∧ ca = sysCallAt st' c t := by
  cases a with
  | external e1' => rw [e1] at e1'; cases e1'
  | expose _ e2' => rw [e2] at e2'; cases e2'
  | dev _ _ e3' _ _ => rw [e3] at e3'; cases e3'
  | sys _ _ _ e4 => exact ⟨e4, rfl⟩

/-- inversion of `TickInter` -/
theorem TickInter.inv {lvl : Comp} {t : SimTime} {roots : List Comp} {inCh : List (Port × V)}
    {st : SimSt} {r : SimSt × List (Port × V)} (h : TickInter S orc lvl t roots inCh st r) :
    ∃ (L : Level) (tk : Ticker V) (ds : List (Dispatch V)) (fr : IFrame), S.level lvl = some L ∧
      (Ticker.call L.wiring t roots : Except TickErr (Ticker V × List (Dispatch V))) = .ok (tk, ds) ∧
      IRun S orc (st, .node ⟨L, t, inCh, tk, ds, []⟩ []) (r.1, .node fr []) ∧
      fr.pending = [] ∧ fr.tk.toUpdate.isEmpty = true ∧ r.2 = fr.outCh := by
  cases h with
  | mk h1 h2 h3 h4 h5 => exact ⟨_, _, _, _, h1, h2, h3, h4, h5, rfl⟩

/-- the loop of one level whose inner ticks are interleaved executions is an interleaved run of
the configuration in which only that level is active -/
theorem LoopP.interRun {L : Level} {inCh : List (Port × V)} {ls : LoopSt}
    {r : SimSt × List (Port × V)}
    (a : LoopP S orc (fun c t ro i s r => TickLevelAny S orc c t ro i s r ∧ TickInter S orc c t ro i s r)
      L inCh ls r) (t : SimTime) :
    ∃ fr' : IFrame, IRun S orc (ls.st, .node ⟨L, t, inCh, ls.tk, ls.pending, ls.outCh⟩ [])
      (r.1, .node fr' []) ∧ fr'.pending = [] ∧ fr'.tk.toUpdate.isEmpty = true ∧ fr'.outCh = r.2 := by
  induction a with
  | @done ls h1 h2 => exact ⟨_, .refl, h1, h2, rfl⟩
  | @step ls i d st' changes callAt tk' ds r h1 ha h3 _ ih =>
    obtain ⟨fr', hrun, hp, hu, ho⟩ := ih
    refine ⟨fr', ?_, hp, hu, ho⟩
    -- the first step(s)
    by_cases hsys : ∃ c t' ins, d = .input c t' ins ∧ (L.name != "" && c == pseudoExternal) = false ∧
        (L.name != "" && c == pseudoExpose) = false ∧ S.isSys c = true
    · obtain ⟨c, t', ins, rfl, e1, e2, e3⟩ := hsys
      obtain ⟨⟨_, hI⟩, rfl⟩ := ha.inv_sys e1 e2 e3
      · obtain ⟨Lc, tk, ds', g, hLv, hcall, hirun, hgp, hgu, hgo⟩ := hI.inv
        simp only at hirun hgo
        subst hgo
        · obtain ⟨gL, gt, gi⟩ := hirun.root_same
          simp only [ITree.fr] at gL gt gi
          have hname : Lc.name = c := (Static.level_some hLv).2
          -- open
          have s1 : IStep S orc (ls.st, .node ⟨L, t, inCh, ls.tk, ls.pending, ls.outCh⟩ [])
              (sysPre ls.st c t', .node ⟨L, t, inCh, ls.tk, ls.pending, ls.outCh⟩
                ([] ++ [.node ⟨Lc, t', ins, tk, ds', []⟩ []])) :=
            .opn (i := i) h1 e1 e2 e3 (by simp) hLv hcall
          -- the inner tick
          have s2 := hirun.lift ⟨L, t, inCh, ls.tk, ls.pending, ls.outCh⟩
            [.node ⟨Lc, t', ins, tk, ds', []⟩ []] 0 rfl
          simp only [List.set_cons_zero] at s2
          -- close
          have hgn : g.L.name = c := by rw [gL]; exact hname
          have s3 : IStep S orc (st', .node ⟨L, t, inCh, ls.tk, ls.pending, ls.outCh⟩ [.node g []])
              (anyWake st' L.name g.L.name (sysCallAt st' g.L.name g.t),
                .node { (⟨L, t, inCh, ls.tk, ls.pending, ls.outCh⟩ : IFrame) with
                  tk := tk', pending := ls.pending.eraseIdx i ++ ds } ([.node g []].eraseIdx 0)) := by
            refine .close (j := 0) (i := i) rfl hgp hgu ?_ ?_
            · show ls.pending[i]? = _
              rw [h1, hgn, gt, gi]
            · show ls.tk.propagate L.wiring g.L.name g.t g.outCh = _
              rw [hgn, gt]
              exact h3
          rw [hgn, gt] at s3
          have hout : (exposeIns L (.input c t' ins)).getD ls.outCh = ls.outCh := by
            simp [exposeIns, e1, e2]
          rw [hout] at hrun
          exact (IRun.step s1 (s2.snoc s3)).trans hrun
    · have hns : ∀ c t' ins, d = .input c t' ins → (L.name != "" && c == pseudoExternal) = false →
          (L.name != "" && c == pseudoExpose) = false → S.isSys c = false := by
        intro c t' ins hd e1 e2
        cases e3 : S.isSys c with
        | false => rfl
        | true => exact absurd ⟨c, t', ins, hd, e1, e2, e3⟩ hsys
      have s1 : IStep S orc (ls.st, .node ⟨L, t, inCh, ls.tk, ls.pending, ls.outCh⟩ []) _ :=
        .answer (i := i) h1 (ha.answerNow_of_notSys ls.outCh hns) h3
      exact .step s1 hrun

/-- **every atomic execution is an interleaved execution** -/
theorem tickLevelAny_inter {lvl : Comp} {t : SimTime} {roots : List Comp} {inCh : List (Port × V)}
    {st : SimSt} {r : SimSt × List (Port × V)} (h : TickLevelAny S orc lvl t roots inCh st r) :
    TickInter S orc lvl t roots inCh st r := by
  refine TickLevelAny.strong_induct (Q := TickInter S orc) ?_ h
  rintro lvl t roots inCh st r ⟨L, tk, ds, hL, hcall, hl⟩
  obtain ⟨fr', hrun, hp, hu, ho⟩ := hl.interRun t
  have : r = (r.1, fr'.outCh) := by rw [ho]
  rw [this]
  exact .mk hL hcall hrun hp hu

end Tickit
