/-
Helper lemmas for C09, part 13: the vocabulary for the device-level description of an arbitrary
(callback) tick of a nested configuration, and the static facts about `resolve` it needs.

Fixed during one tick of the master: the state `σ₀` before the tick (device states, update
counts), the set `Root` of components whose own callback is due (all of them in the initial
tick), the resolution fuel `n`.
-/
import TickitModel.Lemmas.FlattenEqs
import TickitModel.Lemmas.FlattenFrame
import TickitModel.Lemmas.FlattenFuelBound

namespace Tickit

/-! ### `resolve` leaves a system only through its `external` -/

/-- a resolution started at or below the system `c` ends at a device below `c`, or leaves `c`
through one of its input ports -/
theorem Static.Valid.resolve_exit {S : Static} (hS : S.Valid) {c : Comp} :
    ∀ (k : Nat) (L' : Level), L' ∈ S.levels → (L'.name = c ∨ S.Below c L'.name) →
      ∀ (a' : Comp) (p' : Port) (b : Comp) (q : Port), L'.wiring.Conn a' p' b q →
      ∀ y, S.resolve k L'.name a' p' = some y →
        S.Below c y.1 ∨ ∃ p'', S.resolve k c pseudoExternal p'' = some y := by
  intro k
  induction k with
  | zero => intro L' _ _ a' p' b q _ y h; rw [Static.resolve] at h; cases h
  | succ k ih =>
    intro L' hL' hpos a' p' b q hconn y h
    by_cases hx : a' = pseudoExternal
    · subst hx
      rcases hpos with hname | hbel
      · exact Or.inr ⟨p', by rw [← hname]; exact h⟩
      · -- go up one level, still at or below `c`
        have hne : L'.name ≠ "" := by
          intro h0; rw [h0] at hbel; exact hS.not_below_master _ hbel
        rw [Static.resolve_succ] at h
        simp only [beq_self_eq_true, if_true, beq_iff_eq, hne, if_false] at h
        split at h
        · cases h
        · rename_i P hP
          split at h
          · cases h
          · rename_i LP hLP
            split at h
            · cases h
            · rename_i a'' p'' hsrc
              obtain ⟨hLP1, hLP2⟩ := Static.level_some hLP
              obtain ⟨hwf, hos⟩ := hS.wiring_wf LP hLP1
              have hposP : LP.name = c ∨ S.Below c LP.name := by
                rw [hLP2]
                cases hbel with
                | direct h' => rw [hP] at h'; cases h'; exact Or.inl rfl
                | step h' _ hb => rw [hP] at h'; cases h'; exact Or.inr hb
              rw [← hLP2] at h
              rcases ih LP hLP1 hposP a'' p'' _ _ ((Wiring.sourceOf_eq_some hwf hos).1 hsrc) y h with
                h1 | ⟨p3, h3⟩
              · exact Or.inl h1
              · exact Or.inr ⟨p3, S.resolve_mono _ _ _ _ _ h3⟩
    · -- `a'` is a real component of `L'`
      have hac := (Wiring.conn_mem_components (hS.wiring_wf L' hL').1 hconn).1
      have hpar : alookup S.parent a' = some L'.name := by
        rcases hS.members L' hL' a' hac with hp | ⟨_, hp | hp⟩
        · exact hp
        · exact absurd hp hx
        · exact absurd hp (hS.pseudo_dir L' hL' _ _ _ _ hconn).2
      have hbelow : S.Below c a' := by
        rcases hpos with hname | hbel
        · rw [← hname]; exact .direct hpar
        · have hne : L'.name ≠ "" := by
            intro h0; rw [h0] at hbel; exact hS.not_below_master _ hbel
          exact .step hpar hne hbel
      by_cases hsys : S.isSys a' = true
      · obtain ⟨La, hLa, hLa2⟩ := hS.sys_level a' hsys
        obtain ⟨hLa1, _⟩ := Static.level_some hLa
        obtain ⟨hwf, hos⟩ := hS.wiring_wf La hLa1
        rw [S.resolve_sys_eq _ _ hx hsys hLa] at h
        cases hsrc : La.wiring.sourceOf pseudoExpose p' with
        | none => rw [hsrc] at h; cases h
        | some ap =>
          obtain ⟨a'', p''⟩ := ap
          rw [hsrc] at h
          simp only [Option.bind_some] at h
          rw [← hLa2] at h
          rcases ih La hLa1 (Or.inr (by rw [hLa2]; exact hbelow)) a'' p'' _ _
            ((Wiring.sourceOf_eq_some hwf hos).1 hsrc) y h with h1 | ⟨p3, h3⟩
          · exact Or.inl h1
          · exact Or.inr ⟨p3, S.resolve_mono _ _ _ _ _ h3⟩
      · have hsys' : S.isSys a' = false := by simpa using hsys
        rw [S.resolve_dev_eq _ _ hx hsys'] at h
        cases h
        exact Or.inl hbelow

/-! ### the context of one master tick -/

/-- what is fixed during one tick of the master -/
structure TickCtx (S : Static) (σ₀ : SimSt) (t : SimTime) (Root : Comp → Prop) : Prop where
  /-- a due callback inside a system makes the system due -/
  root_up : ∀ c P, alookup S.parent c = some P → P ≠ "" → Root c → Root P
  /-- the roots a nested scheduler selects -/
  roots_sys : ∀ s Ls, S.isSys s = true → S.level s = some Ls → ∀ c ∈ Ls.wiring.components,
    c ≠ pseudoExternal →
    (c ∈ sunion (sunion (sunion (σ₀.sched s).interrupts (nestedDue (σ₀.sched s).wake t))
        [pseudoExternal]) (if (σ₀.sched s).firstDone then [] else Ls.wiring.components) ↔ Root c)

theorem TickCtx.root_up_below {S : Static} {σ₀ : SimSt} {t : SimTime}
    {Root : Comp → Prop} (ctx : TickCtx S σ₀ t Root) {a x : Comp} (h : S.Below a x) (ha : a ≠ "")
    (hr : Root x) : Root a := by
  induction h with
  | direct h => exact ctx.root_up _ _ h ha hr
  | step h hp _ ih => exact ih (ctx.root_up _ _ h hp hr)

theorem TickCtx.root_up_own {S : Static} {σ₀ : SimSt} {t : SimTime}
    {Root : Comp → Prop} (ctx : TickCtx S σ₀ t Root) {a x : Comp} (h : S.Own a x)
    (hr : Root x) : Root a := by
  rcases h with rfl | ⟨ha, hb⟩
  · exact hr
  · exact ctx.root_up_below hb ha hr

/-! ### values -/

/-- the value carried in this tick by the output `(a, p)` named inside level `lvl`: the device
ultimately driving it has been updated (it is among `mobs`) and reported `v` as a change -/
def Static.ValG (S : Static) (orc : Oracle) (n : Nat) (σ₀ : SimSt) (mobs : List Obs) (lvl a : Comp)
    (p : Port) (v : V) : Prop :=
  ∃ a₀ p₀, S.resolve n lvl a p = some (a₀, p₀) ∧ a₀ ∈ mobs.map Obs.comp ∧
    alookup (stepChg orc σ₀ a₀) p₀ = some v

/-- from the point of view of level `L` with unresolved set `tu`, the update status of device
`a₀` is decided: the caller says so, or `a₀` lies below `L` but below no open component -/
def Static.DecG (S : Static) (D₀ : Comp → Prop) (L : Level) (tu : List (Comp × Bool)) (a₀ : Comp) : Prop :=
  D₀ a₀ ∨ (S.Below L.name a₀ ∧
    ∀ c, alookup S.parent c = some L.name → S.Own c a₀ → alookup tu c = none)

/-- the device driving `(a, p)` is decided -/
def Static.SrcDec (S : Static) (n : Nat) (Dec : Comp → Prop) (lvl a : Comp) (p : Port) : Prop :=
  ∀ a₀ p₀, S.resolve n lvl a p = some (a₀, p₀) → Dec a₀

theorem Static.SrcDec.mono {S : Static} {n : Nat} {Dec Dec' : Comp → Prop} {lvl a : Comp} {p : Port}
    (h : S.SrcDec n Dec lvl a p) (hd : ∀ x, Dec x → Dec' x) : S.SrcDec n Dec' lvl a p :=
  fun a₀ p₀ hr => hd _ (h a₀ p₀ hr)

/-- a decided source is not touched by observations it is decided against -/
theorem Static.ValG.congr {S : Static} {orc : Oracle} {n : Nat} {σ₀ : SimSt} {mobs mobs' : List Obs}
    {lvl a : Comp} {p : Port} {Dec : Comp → Prop} (hd : S.SrcDec n Dec lvl a p)
    (hm : ∀ x, Dec x → (x ∈ mobs.map Obs.comp ↔ x ∈ mobs'.map Obs.comp)) (v : V) :
    S.ValG orc n σ₀ mobs lvl a p v ↔ S.ValG orc n σ₀ mobs' lvl a p v := by
  constructor
  · rintro ⟨a₀, p₀, hr, hm', hv⟩
    exact ⟨a₀, p₀, hr, (hm a₀ (hd a₀ p₀ hr)).1 hm', hv⟩
  · rintro ⟨a₀, p₀, hr, hm', hv⟩
    exact ⟨a₀, p₀, hr, (hm a₀ (hd a₀ p₀ hr)).2 hm', hv⟩

/-- the answer `chs` of component `a` of level `L` -/
def Static.AnsOKG (S : Static) (orc : Oracle) (n : Nat) (σ₀ : SimSt) (Dec : Comp → Prop) (L : Level)
    (mobs : List Obs) (a : Comp) (chs : List (Port × V)) : Prop :=
  (akeys chs).Nodup ∧ ∀ p b q, L.wiring.Conn a p b q →
    (∀ v, alookup chs p = some v ↔ S.ValG orc n σ₀ mobs L.name a p v) ∧ S.SrcDec n Dec L.name a p

/-- the changes `ins` handed to component `c` of level `L` -/
def Static.PendOKG (S : Static) (orc : Oracle) (n : Nat) (σ₀ : SimSt) (Dec : Comp → Prop) (L : Level)
    (mobs : List Obs) (c : Comp) (ins : List (Port × V)) : Prop :=
  (akeys ins).Nodup ∧
  (∀ q v, alookup ins q = some v ↔ ∃ a p, L.wiring.Conn a p c q ∧ S.ValG orc n σ₀ mobs L.name a p v) ∧
  (∀ q a p, L.wiring.Conn a p c q → S.SrcDec n Dec L.name a p)

/-- nothing changed on the inputs of component `c` of level `L` -/
def Static.SkipOKG (S : Static) (orc : Oracle) (n : Nat) (σ₀ : SimSt) (Dec : Comp → Prop) (L : Level)
    (mobs : List Obs) (c : Comp) : Prop :=
  ∀ q a p, L.wiring.Conn a p c q →
    (∀ v, ¬ S.ValG orc n σ₀ mobs L.name a p v) ∧ S.SrcDec n Dec L.name a p

/-- what is known about a device whose part in this tick is over -/
structure DevValOK (S : Static) (orc : Oracle) (n : Nat) (σ₀ : SimSt) (Root : Comp → Prop)
    (Dec : Comp → Prop) (mobs : List Obs) (st : SimSt) (x : Comp) : Prop where
  upd_iff : x ∈ mobs.map Obs.comp ↔ Root x ∨ ∃ q v, S.DevIn orc n σ₀ mobs x q v
  src : ∀ q a₀ p₀, alookup (S.flatInputs n x) q = some (a₀, p₀) → Dec a₀
  upd : ∀ o ∈ mobs, o.comp = x → ∃ ins r, (akeys ins).Nodup ∧
    o.inputs = (agetD σ₀.devs x {}).merge ins ∧
    (∀ q v, alookup ins q = some v ↔ S.DevIn orc n σ₀ mobs x q v) ∧
    stepResp orc σ₀ x = some r ∧ r.raises = false ∧
    agetD st.devs x {} = ⟨o.inputs, normDict r.outs⟩ ∧
    agetD st.count x 0 = agetD σ₀.count x 0 + 1
  frame : x ∉ mobs.map Obs.comp →
    agetD st.devs x {} = agetD σ₀.devs x {} ∧ agetD st.count x 0 = agetD σ₀.count x 0

theorem Static.DevIn.congr {S : Static} {orc : Oracle} {n : Nat} {σ₀ : SimSt} {mobs mobs' : List Obs}
    {x : Comp} {Dec : Comp → Prop}
    (hsrc : ∀ q a₀ p₀, alookup (S.flatInputs n x) q = some (a₀, p₀) → Dec a₀)
    (hm : ∀ y, Dec y → (y ∈ mobs.map Obs.comp ↔ y ∈ mobs'.map Obs.comp)) (q : Port) (v : V) :
    S.DevIn orc n σ₀ mobs x q v ↔ S.DevIn orc n σ₀ mobs' x q v := by
  constructor
  · rintro ⟨a₀, p₀, hfi, hm', hv⟩
    exact ⟨a₀, p₀, hfi, (hm a₀ (hsrc q a₀ p₀ hfi)).1 hm', hv⟩
  · rintro ⟨a₀, p₀, hfi, hm', hv⟩
    exact ⟨a₀, p₀, hfi, (hm a₀ (hsrc q a₀ p₀ hfi)).2 hm', hv⟩

/-- moving `DevValOK` to a later moment: more observations (none of them of a decided device or
of `x` itself), another state that agrees on `x`, a weaker notion of "decided" -/
theorem DevValOK.transport {S : Static} {orc : Oracle} {n : Nat} {σ₀ : SimSt} {Root : Comp → Prop}
    {Dec Dec' : Comp → Prop} {mobs mobs' : List Obs} {st st' : SimSt} {x : Comp}
    (h : DevValOK S orc n σ₀ Root Dec mobs st x) (hdec : ∀ y, Dec y → Dec' y)
    (hsub : ∀ o ∈ mobs, o ∈ mobs')
    (hnew : ∀ o ∈ mobs', o ∉ mobs → o.comp ≠ x ∧ ¬ Dec o.comp)
    (hst : agetD st'.devs x {} = agetD st.devs x {} ∧ agetD st'.count x 0 = agetD st.count x 0) :
    DevValOK S orc n σ₀ Root Dec' mobs' st' x := by
  have hmem : ∀ y, (y = x ∨ Dec y) → (y ∈ mobs.map Obs.comp ↔ y ∈ mobs'.map Obs.comp) := by
    intro y hy
    constructor
    · intro hm
      obtain ⟨o, ho, rfl⟩ := List.mem_map.1 hm
      exact List.mem_map.2 ⟨o, hsub o ho, rfl⟩
    · intro hm
      obtain ⟨o, ho, rfl⟩ := List.mem_map.1 hm
      by_cases hom : o ∈ mobs
      · exact List.mem_map.2 ⟨o, hom, rfl⟩
      · obtain ⟨h1, h2⟩ := hnew o ho hom
        rcases hy with hy | hy
        · exact absurd hy h1
        · exact absurd hy h2
  have hdi : ∀ q v, S.DevIn orc n σ₀ mobs x q v ↔ S.DevIn orc n σ₀ mobs' x q v :=
    fun q v => Static.DevIn.congr h.src (fun y hy => hmem y (Or.inr hy)) q v
  exact
    { upd_iff := by
        rw [← hmem x (Or.inl rfl), h.upd_iff]
        apply or_congr Iff.rfl
        constructor
        · rintro ⟨q, v, hd⟩; exact ⟨q, v, (hdi q v).1 hd⟩
        · rintro ⟨q, v, hd⟩; exact ⟨q, v, (hdi q v).2 hd⟩
      src := fun q a₀ p₀ hfi => hdec _ (h.src q a₀ p₀ hfi)
      upd := by
        intro o ho hox
        have hom : o ∈ mobs := by
          apply Classical.byContradiction
          intro hom
          exact (hnew o ho hom).1 hox
        obtain ⟨ins, r, h1, h2, h3, h4, h5, h6, h7⟩ := h.upd o hom hox
        exact ⟨ins, r, h1, h2, fun q v => (h3 q v).trans (hdi q v), h4, h5,
          hst.1.trans h6, hst.2.trans h7⟩
      frame := by
        intro hx
        obtain ⟨f1, f2⟩ := h.frame (fun hm => hx ((hmem x (Or.inl rfl)).1 hm))
        exact ⟨hst.1.trans f1, hst.2.trans f2⟩ }

/-! ### a component that is not updated in this tick -/

/-- a child `a` of level `L` that is closed without having been ticked (skipped, or outside the
extent of the tick): none of its outputs carries a value, and no device at or below it is
updated, has a due callback, or is given a changed input -/
theorem unticked_ok {S : Static} (hS : S.Valid) {orc : Oracle} {n : Nat} (hst : S.ResolveStable n)
    {σ₀ : SimSt} {t : SimTime} {Root : Comp → Prop} (ctx : TickCtx S σ₀ t Root)
    {D₀ : Comp → Prop} {L : Level} (hL : L ∈ S.levels) {tu : List (Comp × Bool)} {mobs : List Obs}
    {st : SimSt} {a : Comp} (hpar : alookup S.parent a = some L.name) (hnr : ¬ Root a)
    (hclosed : alookup tu a = none)
    (hskip : S.SkipOKG orc n σ₀ (S.DecG D₀ L tu) L mobs a)
    (hunobs : ∀ x, S.Own a x → x ∉ mobs.map Obs.comp)
    (hfresh : ∀ x, S.Own a x →
      agetD st.devs x {} = agetD σ₀.devs x {} ∧ agetD st.count x 0 = agetD σ₀.count x 0) :
    S.AnsOKG orc n σ₀ (S.DecG D₀ L tu) L mobs a [] ∧
      ∀ x, S.isDevice x → S.Own a x → DevValOK S orc n σ₀ Root (S.DecG D₀ L tu) mobs st x := by
  obtain ⟨hwf, hos⟩ := hS.wiring_wf L hL
  have hLv : S.level L.name = some L := hS.level_of_mem hL
  have hane : a ≠ "" := hS.child_ne_master hpar
  have hax : a ≠ pseudoExternal := by
    intro h; rw [h, hS.pseudo_fresh.1] at hpar; cases hpar
  -- the two ways a resolved source can relate to `a`
  have hcase : ∀ y : CPort, (S.Own a y.1 ∨ ∃ q2 a2 p2, L.wiring.Conn a2 p2 a q2 ∧
      S.resolve n L.name a2 p2 = some y) →
      (∀ v, ¬ (y.1 ∈ mobs.map Obs.comp ∧ alookup (stepChg orc σ₀ y.1) y.2 = some v)) ∧
        S.DecG D₀ L tu y.1 := by
    rintro ⟨a₀, p₀⟩ (hown | ⟨q2, a2, p2, hconn, hr⟩)
    · refine ⟨fun v h => hunobs a₀ hown h.1, Or.inr ⟨hown.below hpar, ?_⟩⟩
      intro c' hc' hown'
      have := Static.Own.unique hS.toWF hc' hpar hown' hown
      rw [this]; exact hclosed
    · obtain ⟨h1, h2⟩ := hskip q2 a2 p2 hconn
      exact ⟨fun v h => h1 v ⟨a₀, p₀, hr, h.1, h.2⟩, h2 a₀ p₀ hr⟩
  -- a resolution started at or below `a` stays below `a` or leaves through an input of `a`
  have hexit : ∀ L' ∈ S.levels, (L'.name = a ∨ S.Below a L'.name) → ∀ a' p' b q,
      L'.wiring.Conn a' p' b q → ∀ y : CPort, S.resolve n L'.name a' p' = some y →
      (S.Own a y.1 ∨ ∃ q2 a2 p2, L.wiring.Conn a2 p2 a q2 ∧
        S.resolve n L.name a2 p2 = some y) := by
    intro L' hL' hpos a' p' b q hconn y hr
    rcases hS.resolve_exit n L' hL' hpos a' p' b q hconn y hr with hb | ⟨p2, hr'⟩
    · exact Or.inl (Or.inr ⟨hane, hb⟩)
    · obtain ⟨a2, p3, hsrc, hr2⟩ := (hst.external hane hpar hLv p2 y).1 hr'
      exact Or.inr ⟨p2, a2, p3, (Wiring.sourceOf_eq_some hwf hos).1 hsrc, hr2⟩
  -- the resolved source of an output of `a`
  have hsrcA : ∀ p a₀ p₀, S.resolve n L.name a p = some (a₀, p₀) →
      (S.Own a a₀ ∨ ∃ q2 a2 p2, L.wiring.Conn a2 p2 a q2 ∧
        S.resolve n L.name a2 p2 = some (a₀, p₀)) := by
    intro p a₀ p₀ hr
    by_cases hsys : S.isSys a = true
    · obtain ⟨La, hLa, hLa2⟩ := hS.sys_level a hsys
      obtain ⟨hLa1, _⟩ := Static.level_some hLa
      obtain ⟨hwfa, hosa⟩ := hS.wiring_wf La hLa1
      obtain ⟨a', p', hsrc, hr'⟩ := (hst.system hax hsys hLa p _).1 hr
      rw [← hLa2] at hr'
      exact hexit La hLa1 (Or.inl hLa2) a' p' _ _ ((Wiring.sourceOf_eq_some hwfa hosa).1 hsrc) _ hr'
    · have hsys' : S.isSys a = false := by simpa using hsys
      rw [hst.device hax hsys' p] at hr
      cases hr
      exact Or.inl (Static.Own.refl S a)
  refine ⟨⟨by simp, fun p b q hconn => ⟨fun v => ?_, ?_⟩⟩, ?_⟩
  · constructor
    · intro h; simp at h
    · rintro ⟨a₀, p₀, hr, hm, hv⟩
      exact absurd ⟨hm, hv⟩ ((hcase (a₀, p₀) (hsrcA p a₀ p₀ hr)).1 v)
  · intro a₀ p₀ hr
    exact (hcase (a₀, p₀) (hsrcA p a₀ p₀ hr)).2
  · -- the devices at or below `a`
    intro x hxd hown
    have hsrcx : ∀ q a₀ p₀, alookup (S.flatInputs n x) q = some (a₀, p₀) →
        (S.Own a a₀ ∨ ∃ q2 a2 p2, L.wiring.Conn a2 p2 a q2 ∧
          S.resolve n L.name a2 p2 = some (a₀, p₀)) := by
      intro q a₀ p₀ hfi
      obtain ⟨lvl', L', a', p', hp', hL', hconn, hr⟩ := (hS.flatInputs_spec n x q _).1 hfi
      obtain ⟨hL'1, hL'2⟩ := Static.level_some hL'
      rcases hown with rfl | ⟨_, hb⟩
      · rw [hpar] at hp'; cases hp'
        rw [hLv] at hL'; cases hL'
        exact Or.inr ⟨q, a', p', hconn, hr⟩
      · have hpos : L'.name = a ∨ S.Below a L'.name := by
          rw [hL'2]
          cases hb with
          | direct h' => rw [hp'] at h'; cases h'; exact Or.inl rfl
          | step h' _ hb' => rw [hp'] at h'; cases h'; exact Or.inr hb'
        rw [← hL'2] at hr
        exact hexit L' hL'1 hpos a' p' _ _ hconn _ hr
    have hnoin : ∀ q v, ¬ S.DevIn orc n σ₀ mobs x q v := by
      rintro q v ⟨a₀, p₀, hfi, hm, hv⟩
      exact (hcase (a₀, p₀) (hsrcx q a₀ p₀ hfi)).1 v ⟨hm, hv⟩
    have hxm : x ∉ mobs.map Obs.comp := hunobs x hown
    exact
      { upd_iff := by
          constructor
          · intro h; exact absurd h hxm
          · rintro (hr | ⟨q, v, hd⟩)
            · exact absurd (ctx.root_up_own hown hr) hnr
            · exact absurd hd (hnoin q v)
        src := fun q a₀ p₀ hfi => (hcase (a₀, p₀) (hsrcx q a₀ p₀ hfi)).2
        upd := by
          intro o ho hox
          exact absurd (List.mem_map.2 ⟨o, ho, hox⟩) hxm
        frame := fun _ => hfresh x hown }

end Tickit
