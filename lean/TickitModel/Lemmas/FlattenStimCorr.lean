/-
Helper lemmas for C09, part 24 (external stimuli): the tick after pending interrupts restores the
plain correspondence; both sides pick the same next tick time.
-/
import TickitModel.Lemmas.FlattenStimTick

namespace Tickit

theorem CorrP.stepResp_eq {S : Static} {orc : Oracle} {I : List Comp} {τ : SimTime} {st st' : SimSt}
    (hc : CorrP S orc I τ st st') {d : Comp} (hd : S.isDevice d) :
    stepResp orc st d = stepResp orc st' d := by
  unfold stepResp
  rw [hc.count d hd]

theorem CorrP.stepChg_eq {S : Static} {orc : Oracle} {I : List Comp} {τ : SimTime} {st st' : SimSt}
    (hc : CorrP S orc I τ st st') {d : Comp} (hd : S.isDevice d) :
    stepChg orc st d = stepChg orc st' d := by
  unfold stepChg
  rw [hc.stepResp_eq hd, (hc.devs d hd).1]

theorem CorrP.wake_keys' {S : Static} {orc : Oracle} {I : List Comp} {τ : SimTime} {st st' : SimSt}
    (hc : CorrP S orc I τ st st') (c : Comp) (h : c ∈ akeys (st'.sched "").wake) : S.isDevice c := by
  have := hc.flat_sched.wake_keys "" c h
  unfold Static.flatten at this
  rw [flt_alookup_map_mk S.devices (fun _ => "") c] at this
  by_cases hcd : c ∈ S.devices
  · exact Static.mem_devices_iff.1 hcd
  · simp [hcd] at this

theorem stepResp_mem {orc : Oracle} {σ : SimSt} {d : Comp} {r : DevResp}
    (h : stepResp orc σ d = some r) : r ∈ agetD orc d [] := by
  unfold stepResp at h
  exact List.mem_of_getElem? h

theorem firstWakeups_eq_some {w : Wakeups} (hu : UniqueKeys w) {m : SimTime}
    (hex : ∃ c, alookup w c = some m) (hle : ∀ c t, alookup w c = some t → m ≤ t) :
    (firstWakeups w).2 = some m := by
  cases hm : (firstWakeups w).2 with
  | none =>
    rw [firstWakeups_none] at hm
    obtain ⟨c, hc⟩ := hex
    rw [hm] at hc
    simp at hc
  | some m' =>
    obtain ⟨⟨c', hc'⟩, hle'⟩ := system_callback_is_min _ hu m' hm
    obtain ⟨c, hc⟩ := hex
    rw [Int.le_antisymm (hle' c m hc) (hle c' m' hc')]

/-- **same next tick**, with pending interrupts -/
theorem CorrP.firstWakeups_eq {S : Static} (hS : S.Valid) {orc : Oracle} {I : List Comp}
    {τ : SimTime} {st st' : SimSt} (hc : CorrP S orc I τ st st') :
    (firstWakeups (st.sched "").wake).2 = (firstWakeups (st'.sched "").wake).2 := by
  by_cases hI : I = []
  · subst hI
    exact hc.toCorr.firstWakeups_eq hS
  · obtain ⟨x, hx⟩ := List.exists_mem_of_ne_nil I hI
    obtain ⟨c, hcp, hown⟩ := (Static.below_master hS.toWF (hc.int_dev x hx).1).top
    rw [firstWakeups_eq_some (hc.wake_unique "") ⟨c, hc.wake_top c hcp ⟨x, hx, hown⟩⟩
        (fun a w ha => hc.ge hI "" a w ha),
      firstWakeups_eq_some (hc.flat_sched.wake_unique "") ⟨x, hc.wake_int x hx⟩ ?_]
    intro d w hw
    have hd := hc.wake_keys' d (mem_akeys_of_alookup_eq_some hw)
    by_cases hdI : d ∈ I
    · rw [hc.wake_int d hdI] at hw
      cases hw
      exact Int.le_refl _
    · obtain ⟨P, hP⟩ := Option.isSome_iff_exists.1 hd.1
      rw [hc.wake_dev d P hd hdI hP] at hw
      exact hc.ge hI P d w hw

/-- the device-level roots of the next tick are the same on both sides -/
theorem CorrP.root_iff {S : Static} (hS : S.Valid) {orc : Oracle} {I : List Comp} {τ : SimTime}
    {st st' : SimSt} (hc : CorrP S orc I τ st st') (n : Nat) {t : SimTime} (htτ : I ≠ [] → t = τ)
    {d : Comp} (hd : S.isDevice d) :
    (S.DueAt st t d ∨ S.OnPath I d) ↔ (S.flatten n).DueAt st' t d := by
  have hp' : alookup (S.flatten n).parent d = some "" := by
    rw [S.flatten_parent, if_pos (Static.mem_devices_iff.2 hd)]
  by_cases hdI : d ∈ I
  · have ht := htτ (List.ne_nil_of_mem hdI)
    constructor
    · intro _
      exact ⟨"", τ, hp', hc.wake_int d hdI, by rw [ht]; exact Int.le_refl _⟩
    · intro _
      exact Or.inr ⟨d, hdI, Static.Own.refl S d⟩
  · constructor
    · rintro (⟨P, w', hP, hw', hle⟩ | ⟨x, hx, ho⟩)
      · exact ⟨"", w', hp', by rw [hc.wake_dev d P hd hdI hP]; exact hw', hle⟩
      · rw [hS.own_device hd ho] at hx
        exact absurd hx hdI
    · rintro ⟨P', w', hP', hw', hle⟩
      rw [hp'] at hP'; cases hP'
      obtain ⟨P, hP⟩ := Option.isSome_iff_exists.1 hd.1
      exact Or.inl ⟨P, w', hP, by rw [← hc.wake_dev d P hd hdI hP]; exact hw', hle⟩

/-- **after the tick, the plain correspondence holds again** -/
theorem corrP_of_tickEqs {S : Static} (hS : S.Valid) {orc : Oracle} {n : Nat}
    (hrank : S.FlatRank n) (hS' : (S.flatten n).Valid) {I : List Comp} {τ : SimTime}
    {σ₀ σ₀' σ' σ'' : SimSt} (hc : CorrP S orc I τ σ₀ σ₀') {t : SimTime} (htτ : I ≠ [] → t = τ)
    (hsafe : ∀ x ∈ I, orc.Quiet x ∨ orc.Periodic x) {new new' : List Obs}
    (E : TickEqs S orc n σ₀ t (fun c => S.DueAt σ₀ t c ∨ S.OnPath I c) (S.DueAt σ₀ t) σ' new)
    (E' : TickEqs (S.flatten n) orc 2 σ₀' t ((S.flatten n).DueAt σ₀' t) ((S.flatten n).DueAt σ₀' t)
      σ'' new')
    (hsch : SchedOK S σ') (hsch' : SchedOK (S.flatten n) σ'') : CorrP S orc [] τ σ' σ'' := by
  have hroot : ∀ d, S.isDevice d →
      ((S.DueAt σ₀ t d ∨ S.OnPath I d) ↔ (S.flatten n).DueAt σ₀' t d) :=
    fun d hd => hc.root_iff hS n htτ hd
  have hsame := tickEqs_same_updates hS hrank hS' (fun d hd => hc.stepChg_eq hd) hroot E E'
  have hdev' : ∀ x, (S.flatten n).isDevice x ↔ S.isDevice x := by
    intro x
    rw [← Static.mem_devices_iff, ← Static.mem_devices_iff, S.flatten_devices_eq]
  have hpar' : ∀ d, S.isDevice d → alookup (S.flatten n).parent d = some "" := by
    intro d hd
    rw [S.flatten_parent, if_pos (Static.mem_devices_iff.2 hd)]
  -- interrupted devices are updated
  have hIn : ∀ d, S.isDevice d → d ∈ I → d ∈ new.map Obs.comp :=
    fun d hd hdI => (E.upd_iff d hd).2 (Or.inl (Or.inr ⟨d, hdI, Static.Own.refl S d⟩))
  -- the old entry of a quiet device that is not due
  have hqold : ∀ d P, S.isDevice d → orc.Quiet d → alookup S.parent d = some P →
      ¬ S.DueAt σ₀ t d → alookup (σ₀.sched P).wake d = none := by
    intro d P hd hq hP hnd
    refine hc.quiet d P hd hq hP ?_
    rintro ⟨rfl, hdI⟩
    have hon : S.OnPath I d := ⟨d, hdI, Static.Own.refl S d⟩
    exact hnd ⟨"", τ, hP, hc.wake_top d hP hon,
      by rw [htτ (List.ne_nil_of_mem hdI)]; exact Int.le_refl _⟩
  have hupd : ∀ o ∈ new, ∀ o' ∈ new', o.comp = o'.comp →
      o.time = o'.time ∧ MapEq o.inputs o'.inputs ∧
      (agetD σ'.devs o.comp {}).lastOutputs = (agetD σ''.devs o.comp {}).lastOutputs ∧
      MapEq (agetD σ'.devs o.comp {}).deviceInputs (agetD σ''.devs o.comp {}).deviceInputs ∧
      agetD σ'.count o.comp 0 = agetD σ''.count o.comp 0 ∧
      ∀ P, alookup S.parent o.comp = some P →
        alookup (σ''.sched "").wake o.comp = alookup (σ'.sched P).wake o.comp := by
    intro o ho o' ho' hoo
    obtain ⟨ht, hd⟩ := E.dev o ho
    obtain ⟨ht', _⟩ := E'.dev o' ho'
    obtain ⟨ins, r, hn, hin, hiv, hr, _, hdv, hcn, hwk⟩ := E.upd o ho
    obtain ⟨ins', r', hn', hin', hiv', hr', _, hdv', hcn', hwk'⟩ := E'.upd o' ho'
    rw [← hoo] at hin' hiv' hr' hdv' hcn' hwk'
    have hrr : r = r' := by
      rw [hc.stepResp_eq hd, hr'] at hr
      exact (Option.some.inj hr).symm
    subst hrr
    have hmi : MapEq ins ins' := by
      intro q
      apply option_ext_some
      intro v
      rw [hiv q v, hiv' q v]
      exact tickEqs_devIn_iff hS hS' (fun d hd => hc.stepChg_eq hd) hsame hd q v
    have hmo : MapEq o.inputs o'.inputs := by
      rw [hin, hin']
      exact Det.mapEq_aupdate (hc.devs _ hd).2 hn hn' hmi
    refine ⟨ht.trans ht'.symm, hmo, ?_, ?_, ?_, ?_⟩
    · rw [hdv, hdv']
    · rw [hdv, hdv']; exact hmo
    · rw [hcn, hcn', hc.count _ hd]
    · intro P hP
      obtain ⟨w1, w2, w3⟩ := hwk P hP
      obtain ⟨w1', w2', w3'⟩ := hwk' "" (hpar' _ hd)
      cases hca : r.callAt with
      | some w => rw [w1 w hca, w1' w hca]
      | none =>
        by_cases hdI : o.comp ∈ I
        · -- an interrupted device that does not re-request a callback never requests one
          have hq : orc.Quiet o.comp := by
            rcases hsafe _ hdI with h | h
            · exact h
            · have := h r (stepResp_mem hr)
              rw [hca] at this
              cases this
          have hflat : (S.flatten n).DueAt σ₀' t o.comp := (hroot _ hd).1 (Or.inr ⟨_, hdI, Static.Own.refl S _⟩)
          rw [w2' hca hflat]
          by_cases hdu : S.DueAt σ₀ t o.comp
          · rw [w2 hca hdu]
          · rw [w3 hca hdu, hqold _ P hd hq hP hdu]
        · have hiff : S.DueAt σ₀ t o.comp ↔ (S.flatten n).DueAt σ₀' t o.comp := by
            rw [← hroot _ hd]
            constructor
            · exact Or.inl
            · rintro (h | ⟨x, hx, ho'⟩)
              · exact h
              · rw [hS.own_device hd ho'] at hx
                exact absurd hx hdI
          by_cases hdu : S.DueAt σ₀ t o.comp
          · rw [w2 hca hdu, w2' hca (hiff.1 hdu)]
          · rw [w3 hca hdu, w3' hca (fun h => hdu (hiff.2 h))]
            exact hc.wake_dev _ P hd hdI hP
  have hcorr : Corr S σ' σ'' :=
    { devs := by
        intro d hd
        by_cases hm : d ∈ new.map Obs.comp
        · obtain ⟨o, ho, rfl⟩ := List.mem_map.1 hm
          obtain ⟨o', ho', hoo⟩ := List.mem_map.1 ((hsame _ hd).1 hm)
          obtain ⟨_, _, h3, h4, _, _⟩ := hupd o ho o' ho' hoo.symm
          exact ⟨h3, h4⟩
        · have hm' : d ∉ new'.map Obs.comp := fun h => hm ((hsame d hd).2 h)
          rw [(E.frame d hd hm).1, (E'.frame d ((hdev' d).2 hd) hm').1]
          exact hc.devs d hd
      count := by
        intro d hd
        by_cases hm : d ∈ new.map Obs.comp
        · obtain ⟨o, ho, rfl⟩ := List.mem_map.1 hm
          obtain ⟨o', ho', hoo⟩ := List.mem_map.1 ((hsame _ hd).1 hm)
          exact (hupd o ho o' ho' hoo.symm).2.2.2.2.1
        · have hm' : d ∉ new'.map Obs.comp := fun h => hm ((hsame d hd).2 h)
          rw [(E.frame d hd hm).2.1, (E'.frame d ((hdev' d).2 hd) hm').2.1]
          exact hc.count d hd
      obs := by
        intro d
        rw [SimSt.obsOf_append E.obs_eq d, SimSt.obsOf_append E'.obs_eq d]
        refine Det.obsEq_append (hc.obs d) ?_
        by_cases hd : S.isDevice d
        · by_cases hm : d ∈ new.map Obs.comp
          · obtain ⟨o, ho, rfl⟩ := List.mem_map.1 hm
            obtain ⟨o', ho', hoo⟩ := List.mem_map.1 ((hsame _ hd).1 hm)
            rw [flt_filter_comp_singleton E.nodup ho, ← hoo, flt_filter_comp_singleton E'.nodup ho']
            obtain ⟨h1, h2, _⟩ := hupd o ho o' ho' hoo.symm
            exact ⟨h1, h2, trivial⟩
          · have hm' : d ∉ new'.map Obs.comp := fun h => hm ((hsame d hd).2 h)
            have e1 : new.filter (fun o => o.comp == d) = [] := by
              rw [List.filter_eq_nil_iff]
              intro o ho h'
              exact hm (List.mem_map.2 ⟨o, ho, by simpa using h'⟩)
            have e2 : new'.filter (fun o => o.comp == d) = [] := by
              rw [List.filter_eq_nil_iff]
              intro o ho h'
              exact hm' (List.mem_map.2 ⟨o, ho, by simpa using h'⟩)
            rw [e1, e2]
            trivial
        · have e1 : new.filter (fun o => o.comp == d) = [] := by
            rw [List.filter_eq_nil_iff]
            intro o ho h'
            have : o.comp = d := by simpa using h'
            exact hd (this ▸ (E.dev o ho).2)
          have e2 : new'.filter (fun o => o.comp == d) = [] := by
            rw [List.filter_eq_nil_iff]
            intro o ho h'
            have : o.comp = d := by simpa using h'
            exact hd ((hdev' d).1 (this ▸ (E'.dev o ho).2))
          rw [e1, e2]
          trivial
      started := hsch.started
      wake_dev := by
        intro d P hd hP
        by_cases hm : d ∈ new.map Obs.comp
        · obtain ⟨o, ho, rfl⟩ := List.mem_map.1 hm
          obtain ⟨o', ho', hoo⟩ := List.mem_map.1 ((hsame _ hd).1 hm)
          exact (hupd o ho o' ho' hoo.symm).2.2.2.2.2 P hP
        · have hm' : d ∉ new'.map Obs.comp := fun h => hm ((hsame d hd).2 h)
          have hdI : d ∉ I := fun h => hm (hIn d hd h)
          rw [(E.frame d hd hm).2.2 P hP, (E'.frame d ((hdev' d).2 hd) hm').2.2 "" (hpar' d hd)]
          exact hc.wake_dev d P hd hdI hP
      wake_sys := hsch.wake_sys
      wake_keys := hsch.wake_keys
      wake_unique := hsch.wake_unique
      flat_sched := hsch'.flatten_fuel 0 }
  refine hcorr.toCorrP τ ?_
  -- quiet devices still have no wakeup entry
  intro d P hd hq hP
  by_cases hm : d ∈ new.map Obs.comp
  · obtain ⟨o, ho, rfl⟩ := List.mem_map.1 hm
    obtain ⟨_, r, _, _, _, hr, _, _, _, hwk⟩ := E.upd o ho
    obtain ⟨_, w2, w3⟩ := hwk P hP
    have hca : r.callAt = none := hq r (stepResp_mem hr)
    by_cases hdu : S.DueAt σ₀ t o.comp
    · exact w2 hca hdu
    · rw [w3 hca hdu]
      exact hqold _ P hd hq hP hdu
  · rw [(E.frame d hd hm).2.2 P hP]
    refine hc.quiet d P hd hq hP ?_
    rintro ⟨_, hdI⟩
    exact hm (hIn d hd hdI)

/-- **one more tick, with pending interrupts** -/
theorem corr_tickP {S : Static} (hS : S.Valid) {orc : Oracle} {n : Nat} (hst : S.ResolveStable n)
    (hrank : S.FlatRank n) {fuel : Nat} {I : List Comp} {τ : SimTime} {st st' : SimSt}
    (hc : CorrP S orc I τ st st') (hsafe : ∀ x ∈ I, orc.Quiet x ∨ orc.Periodic x) {w : SimTime}
    {comps comps' : List Comp}
    (hfw : firstWakeups (st.sched "").wake = (comps, some w))
    (hfw' : firstWakeups (st'.sched "").wake = (comps', some w))
    {st2 : SimSt} {out : List (Port × V)}
    (ht : tickLevel S orc fuel "" w comps [] (st.delWake comps) = .ok (st2, out)) :
    ∃ st2' out', tickLevel (S.flatten n) orc 1 "" w comps' [] (st'.delWake comps') = .ok (st2', out') ∧
      CorrP S orc [] τ st2 st2' := by
  have hS' : (S.flatten n).Valid := hS.flatten hrank
  have hmemL : (⟨"", S.flatW n⟩ : Level) ∈ (S.flatten n).levels := by
    rw [S.flatten_levels]; simp
  have htτ : I ≠ [] → w = τ := fun hI => hc.tick_time hS hfw hI
  obtain ⟨new, E, hsch⟩ := tick_eqsP hS hst hc hfw ht
  obtain ⟨hcs', _, _, _⟩ := firstWakeups_spec _ (hc.flat_sched.wake_unique "") comps' w hfw'
  have hroot : ∀ d, S.isDevice d →
      ((S.DueAt st w d ∨ S.OnPath I d) ↔ (S.flatten n).DueAt st' w d) :=
    fun d hd => hc.root_iff hS n htτ hd
  have hUroot : ∀ c ∈ comps', c ∈ new.map Obs.comp := by
    intro c hcm
    have hl := (hcs' c).1 hcm
    have hd := hc.wake_keys' c (mem_akeys_of_alookup_eq_some hl)
    have hp' : alookup (S.flatten n).parent c = some "" := by
      rw [S.flatten_parent, if_pos (Static.mem_devices_iff.2 hd)]
    exact (E.upd_iff c hd).2 (Or.inl ((hroot c hd).2 ⟨"", w, hp', hl, Int.le_refl _⟩))
  obtain ⟨⟨st2', out'⟩, hr⟩ := flat_tickLevel_gen (S := S.flatten n) (S.flatten_isSys n)
    (S.flatten_level n) (hS'.routerOK hmemL) (hS'.acyclic _ hmemL) w (roots := comps')
    (by
      intro r hr
      have hl := (hcs' r).1 hr
      have hd := hc.wake_keys' r (mem_akeys_of_alookup_eq_some hl)
      exact (S.flatW_components hS n r).2 (Static.mem_devices_iff.2 hd))
    (st'.delWake comps') (fun c => c ∈ new.map Obs.comp)
    (by
      intro c hcm
      obtain ⟨o, ho, rfl⟩ := List.mem_map.1 hcm
      obtain ⟨_, r, _, _, _, hr, hra, _⟩ := E.upd o ho
      refine ⟨r, ?_, hra⟩
      rw [stepResp_delWake, ← hc.stepResp_eq (E.dev o ho).2]
      exact hr)
    hUroot
    (by
      intro c a p q v hconn ha hv
      obtain ⟨hcd, hfi⟩ := (S.flatW_conn hS n _ _ _ _).1 hconn
      have hd := Static.mem_devices_iff.1 hcd
      have had := Static.mem_devices_iff.1 (hS.flatInputs_device hfi)
      rw [stepChg_delWake, ← hc.stepChg_eq had] at hv
      exact (E.upd_iff c hd).2 (Or.inr ⟨q, v, a, p, hfi, ha, hv⟩))
    0
  have hsch0' : SchedOK (S.flatten n) st' := hc.flat_sched.flatten_fuel n
  obtain ⟨new', E', hsch'⟩ := tick_eqs hS' (S.flatten_resolveStable n) hsch0' hfw' hr
  exact ⟨st2', out', hr, corrP_of_tickEqs hS hrank hS' hc htτ hsafe E E' hsch hsch'⟩

end Tickit
