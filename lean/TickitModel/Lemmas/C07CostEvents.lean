/-
Helper lemmas for C07 at run level with processing costs (`Props/C07Cost.lean`), part 3:

* `RunC.c07_after` — for every handled stimulus `ev` of a run (at any position of its log), the
  run that FOLLOWS it: it starts in a master state `m'` that holds the wakeup `ev.when` of `ev.top`
  — the state right after the stimulus (between ticks), or the state at the end of the tick in
  progress (mid-tick) — with `ev.k` tick records written; the stimuli handled after `ev` are those
  handled in the middle of the same tick (`mids`, whose wakeups are pending in `m'` too) followed
  by the log of that run;
* `masterRunC_budget` — a run that has used neither all its `steps` nor all its `nTicks` has
  stopped because no wakeup was left.

Core Lean only.
-/
import TickitModel.Lemmas.C07CostRun

namespace Tickit
namespace CostRun

open TimeMono Pacing C07Cost

/-! ## the run that follows a handled stimulus -/

/-- splitting the log of the stimuli handled in the middle of a tick at one of them -/
theorem midLog_split (S : Static) (fuel : Nat) (sp : Speed) (e : Int) (k : Nat) (m : MasterSt)
    (stims : List Stim) (pre : List StimEvC) (ev : StimEvC) (post : List StimEvC)
    (h : midLog S fuel sp e k m stims = pre ++ ev :: post) :
    ev ∈ midLog S fuel sp e k m stims ∧ ∀ ev' ∈ post, ev' ∈ midLog S fuel sp e k m stims := by
  rw [h]
  exact ⟨by simp, fun ev' hev' => by simp [hev']⟩

theorem RunC.c07_after {S : Static} {orc : Oracle} {fuel : Nat} {sp : Speed} {cost : Nat → Nat}
    {m : MasterSt} {stims : List Stim} {acc : List TickRec} {m2 : MasterSt} {ticks : List TickRec}
    {log : List StimEvC} (h : RunC S orc fuel sp cost m stims acc m2 ticks log) :
    ∀ pre ev post, log = pre ++ ev :: post →
      ∃ m' stims' acc' mids post', RunC S orc fuel sp cost m' stims' acc' m2 ticks post' ∧
        post = mids ++ post' ∧ acc'.length = ev.k ∧
        PendC m' (ev.top S fuel) (ev.when S fuel sp) ∧
        (∀ ev' ∈ mids, ev'.k = ev.k ∧ PendC m' (ev'.top S fuel) (ev'.when S fuel sp)) ∧
        m'.sim.obs = ev.m.sim.obs ∧ m'.tickerTime = ev.m.tickerTime ∧
        (ev.mid = false → mids = [] ∧ m' = stimStepC S fuel sp ev.m ev.st) ∧
        (ev.mid = true → m'.lastReal = ev.m.lastReal + cost (ev.k - 1) ∧
          m'.now = ev.m.lastReal + cost (ev.k - 1)) := by
  induction h with
  | stop =>
    intro pre ev post hlog
    cases pre <;> cases hlog
  | @stim m stims acc st rest m2 ticks log hsel hrun ih =>
    intro pre ev post hlog
    cases pre with
    | nil =>
      simp only [List.nil_append, List.cons.injEq] at hlog
      obtain ⟨rfl, rfl⟩ := hlog
      exact ⟨_, _, _, [], log, hrun, rfl, rfl, stimStepC_pend_self S fuel sp m st acc.length false,
        fun _ h => (by cases h), stimStepC_obs S fuel sp m st, rfl, fun _ => ⟨rfl, rfl⟩,
        fun hm => (by cases hm)⟩
    | cons p pre =>
      simp only [List.cons_append, List.cons.injEq] at hlog
      exact ih pre ev post hlog.2
  | @tick m stims acc comps w sim2 out m2 ticks log hsel hfw htick hrun ih =>
    intro pre ev post hlog
    rcases List.append_eq_append_iff.1 hlog with ⟨a', h1, h2⟩ | ⟨c', h1, h2⟩
    · -- `ev` is one of the stimuli handled later
      exact ih a' ev post h2
    · cases c' with
      | nil =>
        simp only [List.nil_append] at h2
        exact ih [] ev post h2.symm
      | cons c0 c' =>
        simp only [List.cons_append, List.cons.injEq] at h2
        obtain ⟨rfl, rfl⟩ := h2
        -- `ev` was handled in the middle of this tick
        obtain ⟨hev, hpost⟩ := midLog_split S fuel sp _ _ _ _ pre ev c' h1
        obtain ⟨e1, e2, e3⟩ := endTick_fst S fuel sp sim2 w (dueReal m sp w)
          (dueReal m sp w + cost acc.length) stims
        obtain ⟨k1, k2, k3, k4, _⟩ := midLog_events S fuel sp (dueReal m sp w + cost acc.length)
          (acc.length + 1) ⟨sim2, w, dueReal m sp w, dueReal m sp w⟩ stims (Int.le_refl _)
          (fun h => h) ev hev
        obtain ⟨hp, hobs⟩ := midLog_pend S fuel sp _ _ _ _ ev hev
        refine ⟨_, _, _, c', log, hrun, rfl, by simp [k1], hp, fun ev' hev' => ?_, ?_, ?_,
          fun hm => ?_, fun _ => ?_⟩
        · have hm' := hpost ev' hev'
          exact ⟨by rw [(midLog_k S fuel sp _ _ _ _ ev' hm').1, k1],
            (midLog_pend S fuel sp _ _ _ _ ev' hm').1⟩
        · rw [endTick_obs, hobs]
        · rw [e1, k3]
        · rw [k2] at hm; cases hm
        · rw [e2, e3, k4, k1]
          simp

/-! ## the stimuli handled in the middle of the initial tick -/

theorem masterInitialC_mid {S : Static} {orc : Oracle} {fuel : Nat} {sp : Speed}
    {cost : Nat → Nat} {t0 : SimTime} {now0 : Int} {stims0 stims : List Stim}
    {m : MasterSt} {tr : TickRec}
    (h : masterInitialC S orc fuel sp cost t0 now0 stims0 = .ok (m, tr, stims)) :
    ∀ ev ∈ initLogC S orc fuel sp cost t0 now0 stims0,
      PendC m (ev.top S fuel) (ev.when S fuel sp) ∧ m.sim.obs = ev.m.sim.obs := by
  unfold masterInitialC at h
  unfold initLogC
  cases hL : S.level "" with
  | none => rw [hL] at h; cases h
  | some L =>
    rw [hL] at h
    simp only [] at h ⊢
    cases hT : tickLevel S orc fuel "" t0 L.wiring.components [] {} with
    | error e => rw [hT] at h; cases h
    | ok r =>
      obtain ⟨st, out⟩ := r
      rw [hT] at h
      simp only [Except.ok.injEq, Prod.mk.injEq] at h ⊢
      obtain ⟨rfl, rfl, rfl⟩ := h
      intro ev hev
      obtain ⟨hp, hobs⟩ := midLog_pend S fuel sp _ _ _ _ ev hev
      exact ⟨hp, by rw [endTick_obs, hobs]⟩

/-- **the run that follows a handled stimulus**, for the stimuli handled in the middle of the
initial tick and those handled by the run alike (see `RunC.c07_after`). -/
theorem c07C_after_all {S : Static} {orc : Oracle} {fuel : Nat} {t0 : SimTime} {now0 : Int}
    {sp : Speed} {cost : Nat → Nat} {steps nTicks : Nat} {stims0 stims : List Stim}
    {m m2 : MasterSt} {tr : TickRec} {ticks : List TickRec}
    (h : masterInitialC S orc fuel sp cost t0 now0 stims0 = .ok (m, tr, stims))
    (h2 : masterRunC S orc fuel sp cost steps nTicks m stims [tr] = .ok (m2, ticks)) :
    ∀ pre ev post, initLogC S orc fuel sp cost t0 now0 stims0 ++
        runLogC S orc fuel sp cost steps nTicks m stims 1 = pre ++ ev :: post →
      ∃ m' stims' acc' mids post', RunC S orc fuel sp cost m' stims' acc' m2 ticks post' ∧
        post = mids ++ post' ∧ acc'.length = ev.k ∧
        PendC m' (ev.top S fuel) (ev.when S fuel sp) ∧
        (∀ ev' ∈ mids, ev'.k = ev.k ∧ PendC m' (ev'.top S fuel) (ev'.when S fuel sp)) ∧
        m'.sim.obs = ev.m.sim.obs ∧ m'.tickerTime = ev.m.tickerTime ∧
        (ev.mid = false → mids = [] ∧ m' = stimStepC S fuel sp ev.m ev.st) ∧
        (ev.mid = true → m'.lastReal = ev.m.lastReal + cost (ev.k - 1) ∧
          m'.now = ev.m.lastReal + cost (ev.k - 1)) := by
  obtain ⟨hrun, _⟩ := initial_runC h h2
  intro pre ev post hlog
  rcases List.append_eq_append_iff.1 hlog with ⟨a', _, h2'⟩ | ⟨c', h1, h2'⟩
  · exact hrun.c07_after a' ev post h2'
  · cases c' with
    | nil =>
      simp only [List.nil_append] at h2'
      exact hrun.c07_after [] ev post h2'.symm
    | cons c0 c' =>
      simp only [List.cons_append, List.cons.injEq] at h2'
      obtain ⟨rfl, rfl⟩ := h2'
      have hmem : ∀ ev' ∈ ev :: c', ev' ∈ initLogC S orc fuel sp cost t0 now0 stims0 := by
        intro ev' hev'
        rw [h1]
        exact List.mem_append_right _ hev'
      obtain ⟨_, hinit⟩ := masterInitialC_log h
      obtain ⟨_, _, s3, s4, s5, _⟩ := masterInitialC_shape h
      obtain ⟨k1, k2, k3, k4, _⟩ := hinit ev (hmem ev List.mem_cons_self)
      obtain ⟨hp, hobs⟩ := masterInitialC_mid h ev (hmem ev List.mem_cons_self)
      refine ⟨m, stims, [tr], c', _, hrun, rfl, by rw [k1]; rfl, hp, fun ev' hev' => ?_, hobs,
        by rw [s3, k3], fun hm => ?_, fun _ => ?_⟩
      · have hm' := hmem ev' (List.mem_cons_of_mem _ hev')
        exact ⟨by rw [(hinit ev' hm').1, k1], (masterInitialC_mid h ev' hm').1⟩
      · rw [k2] at hm; cases hm
      · rw [s4, s5, k4, k1]
        exact ⟨rfl, rfl⟩

/-! ## the budget of a run -/

/-- the number of stimuli of a log that were handled between ticks (each of them takes one
iteration of the master loop) -/
def betweenCount (log : List StimEvC) : Nat := (log.filter (fun ev => !ev.mid)).length

theorem betweenCount_append (a b : List StimEvC) :
    betweenCount (a ++ b) = betweenCount a + betweenCount b := by
  simp [betweenCount, List.filter_append]

theorem betweenCount_midLog (S : Static) (fuel : Nat) (sp : Speed) (e : Int) (k : Nat) (m : MasterSt)
    (stims : List Stim) : betweenCount (midLog S fuel sp e k m stims) = 0 := by
  unfold betweenCount
  rw [List.length_eq_zero_iff, List.filter_eq_nil_iff]
  intro ev hev
  rw [(midLog_k S fuel sp e k m stims ev hev).2]
  simp

/-- **the budget.**  `masterRunC … steps nTicks m stims acc = .ok (m2, ticks)` writes at most
`nTicks` tick records and makes at most `steps` iterations (one per tick, one per stimulus handled
between ticks); if it has used up neither, it has stopped because no wakeup was left. -/
theorem masterRunC_budget (S : Static) (orc : Oracle) (fuel : Nat) (sp : Speed) (cost : Nat → Nat) :
    ∀ (steps nTicks : Nat) (m : MasterSt) (stims : List Stim) (acc : List TickRec)
      (m2 : MasterSt) (ticks : List TickRec),
      masterRunC S orc fuel sp cost steps nTicks m stims acc = .ok (m2, ticks) →
      ticks.length ≤ acc.length + nTicks ∧
      ticks.length + betweenCount (runLogC S orc fuel sp cost steps nTicks m stims acc.length) ≤
        acc.length + steps ∧
      (ticks.length < acc.length + nTicks →
        ticks.length + betweenCount (runLogC S orc fuel sp cost steps nTicks m stims acc.length) <
          acc.length + steps →
        (firstWakeups (m2.sim.sched "").wake).2 = none) := by
  intro steps
  induction steps with
  | zero =>
    intro nTicks m stims acc m2 ticks h
    rw [masterRunC] at h
    simp only [Except.ok.injEq, Prod.mk.injEq] at h
    obtain ⟨rfl, rfl⟩ := h
    refine ⟨by omega, ?_, fun _ h2 => ?_⟩
    · rw [runLogC]; simp [betweenCount]
    · rw [runLogC] at h2; simp [betweenCount] at h2
  | succ steps ih =>
    intro nTicks m stims acc m2 ticks h
    cases nTicks with
    | zero =>
      rw [masterRunC_zero_ticks] at h
      simp only [Except.ok.injEq, Prod.mk.injEq] at h
      obtain ⟨rfl, rfl⟩ := h
      refine ⟨by omega, ?_, fun h1 _ => by omega⟩
      rw [runLogC]; simp [betweenCount]
    | succ nTicks =>
      rw [masterRunC_unfold] at h
      rw [runLogC]
      split at h
      · rename_i st rest hsel
        rw [hsel]
        simp only []
        obtain ⟨a1, a2, a3⟩ := ih _ _ _ _ _ _ h
        have hb : ∀ l : List StimEvC,
            betweenCount ((⟨⟨m, st, acc.length⟩, false⟩ : StimEvC) :: l) = betweenCount l + 1 := by
          intro l; simp [betweenCount]
        rw [hb]
        exact ⟨a1, by omega, fun h1 h2 => a3 h1 (by omega)⟩
      · rename_i hsel
        rw [hsel]
        simp only []
        split at h
        · rename_i comps w hfw
          rw [hfw]
          simp only []
          split at h
          · cases h
          · rename_i sim2 out hr
            rw [hr]
            simp only []
            obtain ⟨a1, a2, a3⟩ := ih _ _ _ _ _ _ h
            simp only [List.length_append, List.length_singleton] at a1 a2 a3
            rw [betweenCount_append]
            have h0 : betweenCount (endLog S fuel sp sim2 w (dueReal m sp w)
                (dueReal m sp w + cost acc.length) (acc.length + 1) stims) = 0 :=
              betweenCount_midLog S fuel sp _ _ _ _
            rw [h0]
            exact ⟨by omega, by omega, fun h1 h2 => a3 (by omega) (by omega)⟩
        · simp only [Except.ok.injEq, Prod.mk.injEq] at h
          obtain ⟨rfl, rfl⟩ := h
          rename_i hnone
          rw [hnone]
          exact ⟨by omega, by simp [betweenCount], fun _ _ => rfl⟩

/-- a master that holds a wakeup has first wakeups -/
theorem PendC.firstWakeups_ne_none {m : MasterSt} {top : Comp} {B : SimTime} (h : PendC m top B) :
    (firstWakeups (m.sim.sched "").wake).2 ≠ none := by
  obtain ⟨e, he, _⟩ := h
  obtain ⟨w, hw, _⟩ := firstWakeups_some_of_mem _ (top, e) (alookup_mem _ _ _ he)
  rw [hw]
  simp

end CostRun
end Tickit
