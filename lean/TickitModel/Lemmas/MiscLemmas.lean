/-
Helper lemmas for M4 (scheduler bookkeeping, pacing) and M9 (IoBox, command dispatch,
configuration dispatch).
-/
import TickitModel.Core.Sched
import TickitModel.Core.IoBox
import TickitModel.Core.Command
import TickitModel.Core.Config

namespace Tickit

/-- a Python dict: keys are unique. -/
def UniqueKeys {κ β : Type} (m : List (κ × β)) : Prop := (m.map (·.1)).Nodup

/-- the last write to address `a` in a list of writes -/
def lastWrite {A V : Type} [DecidableEq A] (ws : List (A × V)) (a : A) : Option V :=
  (ws.reverse.find? (fun w => w.1 = a)).map (·.2)

/-- run a history of writes/updates on a box, feeding every update's output into a second
box (which has no adapter writes of its own). -/
def runChained {A V : Type} [DecidableEq A] :
    List (IoOp A V) → IoBox A V × IoBox A V → IoBox A V × IoBox A V
  | [], s => s
  | .write a v :: ops, (b1, b2) => runChained ops (b1.write a v, b2)
  | .update ins :: ops, (b1, b2) =>
    let (b1', out) := b1.update ins
    runChained ops (b1', (b2.update out).1)

def runBox {A V : Type} [DecidableEq A] (ops : List (IoOp A V)) (b : IoBox A V) : IoBox A V :=
  ops.foldl (fun b op => match op with
    | .write a v => b.write a v
    | .update ins => (b.update ins).1) b

section Dict
variable {κ β : Type} [DecidableEq κ]

theorem ms_alookup_upsert (m : List (κ × β)) (k k' : κ) (v : β) :
    alookup (upsert m k v) k' = if k' = k then some v else alookup m k' := by
  induction m with
  | nil => simp [upsert, alookup, eq_comm]
  | cons e t ih =>
    obtain ⟨a, w⟩ := e
    simp only [upsert]
    split
    · subst_vars; simp only [alookup]; split <;> simp_all [eq_comm]
    · simp only [alookup, ih]; split <;> simp_all [eq_comm]

theorem keys_upsert (m : List (κ × β)) (k : κ) (v : β) :
    (upsert m k v).map (·.1) = if k ∈ m.map (·.1) then m.map (·.1) else m.map (·.1) ++ [k] := by
  induction m with
  | nil => simp [upsert]
  | cons e t ih =>
    obtain ⟨a, w⟩ := e
    simp only [upsert]
    split
    · subst_vars; simp
    · rename_i h
      simp only [List.map_cons, ih, List.mem_cons]
      have : ¬ k = a := fun h' => h h'.symm
      simp only [this, false_or]
      split <;> simp

theorem ms_alookup_isSome_iff (m : List (κ × β)) (k : κ) :
    (alookup m k).isSome ↔ k ∈ m.map (·.1) := by
  induction m with
  | nil => simp [alookup]
  | cons e t ih =>
    obtain ⟨a, w⟩ := e
    simp only [alookup]
    split
    · subst_vars; simp
    · rename_i h
      have : ¬ k = a := fun h' => h h'.symm
      simp [ih, this]

theorem ms_alookup_eq_none_iff (m : List (κ × β)) (k : κ) :
    alookup m k = none ↔ k ∉ m.map (·.1) := by
  rw [← ms_alookup_isSome_iff]; cases alookup m k <;> simp

theorem alookup_eq_some_iff (m : List (κ × β)) (h : UniqueKeys m) (k : κ) (v : β) :
    alookup m k = some v ↔ (k, v) ∈ m := by
  induction m with
  | nil => simp [alookup]
  | cons e t ih =>
    obtain ⟨a, w⟩ := e
    simp only [UniqueKeys, List.map_cons, List.nodup_cons] at h
    simp only [alookup]
    split
    · subst_vars
      simp only [Option.some.injEq, List.mem_cons, Prod.mk.injEq, true_and]
      constructor
      · exact fun h => Or.inl h.symm
      · rintro (h' | h')
        · exact h'.symm
        · exact absurd (List.mem_map.mpr ⟨_, h', rfl⟩) h.1
    · rename_i hne
      have : ¬ k = a := fun h' => hne h'.symm
      simp [ih h.2, this]

theorem alookup_mem (m : List (κ × β)) (k : κ) (v : β) (h : alookup m k = some v) : (k, v) ∈ m := by
  induction m with
  | nil => simp [alookup] at h
  | cons e t ih =>
    obtain ⟨a, w⟩ := e
    simp only [alookup] at h
    split at h
    · subst_vars; simp_all
    · simp [ih h]

theorem lastWrite_nil {A V : Type} [DecidableEq A] (a : A) : lastWrite ([] : List (A × V)) a = none := rfl

theorem lastWrite_cons {A V : Type} [DecidableEq A] (w : A × V) (ws : List (A × V)) (a : A) :
    lastWrite (w :: ws) a = (lastWrite ws a).orElse (fun _ => if w.1 = a then some w.2 else none) := by
  simp only [lastWrite, List.reverse_cons, List.find?_append]
  cases h : List.find? (fun w => decide (w.1 = a)) ws.reverse with
  | some x => simp
  | none => by_cases h' : w.1 = a <;> simp [h']

theorem alookup_applyWrites {A V : Type} [DecidableEq A] (m ws : List (A × V)) (a : A) :
    alookup (applyWrites m ws) a = (lastWrite ws a).orElse (fun _ => alookup m a) := by
  induction ws generalizing m with
  | nil => simp [applyWrites, lastWrite]
  | cons w ws ih =>
    have : applyWrites m (w :: ws) = applyWrites (upsert m w.1 w.2) ws := rfl
    rw [this, ih, lastWrite_cons, ms_alookup_upsert]
    cases lastWrite ws a with
    | some x => simp
    | none =>
      by_cases h' : w.1 = a
      · simp [h']
      · have : ¬ a = w.1 := fun h => h' h.symm
        simp [h', this]

end Dict

/-! ### IoBox (C20) -/
section IoBoxL
variable {A V : Type} [DecidableEq A]

theorem runBox_nil (b : IoBox A V) : runBox [] b = b := rfl
theorem runBox_write (a : A) (v : V) (ops : List (IoOp A V)) (b : IoBox A V) :
    runBox (.write a v :: ops) b = runBox ops (b.write a v) := rfl
theorem runBox_update (ins : List (A × V)) (ops : List (IoOp A V)) (b : IoBox A V) :
    runBox (.update ins :: ops) b = runBox ops (b.update ins).1 := rfl

theorem lastWrite_eq_none_of {ws : List (A × V)} {a : A} (h : ∀ w ∈ ws, w.1 ≠ a) :
    lastWrite ws a = none := by
  induction ws with
  | nil => rfl
  | cons w ws ih =>
    rw [lastWrite_cons, ih (fun w hw => h w (List.mem_cons_of_mem _ hw))]
    simp [h w List.mem_cons_self]

theorem runBox_read_none (ops : List (IoOp A V)) (a : A) (b : IoBox A V)
    (hm : b.read a = none) (hb : ∀ w ∈ b.buf, w.1 ≠ a)
    (hw : ∀ op ∈ ops, match op with
      | .write a' _ => a' ≠ a
      | .update ins => ∀ w ∈ ins, w.1 ≠ a) :
    (runBox ops b).read a = none := by
  induction ops generalizing b with
  | nil => exact hm
  | cons op ops ih =>
    have hop := hw op List.mem_cons_self
    have hrest := fun o ho => hw o (List.mem_cons_of_mem _ ho)
    cases op with
    | write a' v =>
      rw [runBox_write]
      refine ih (b.write a' v) hm ?_ hrest
      intro w hw'
      simp only [IoBox.write, List.mem_append, List.mem_singleton] at hw'
      rcases hw' with h | h
      · exact hb w h
      · subst h; exact hop
    | update ins =>
      rw [runBox_update]
      refine ih (b.update ins).1 ?_ ?_ hrest
      · simp only [IoBox.update, IoBox.read]
        rw [alookup_applyWrites, lastWrite_eq_none_of]
        · simpa [IoBox.read] using hm
        · intro w hw'
          rcases List.mem_append.mp hw' with h | h
          · exact hop w h
          · exact hb w h
      · simp [IoBox.update]

theorem runChained_inv (ops : List (IoOp A V)) (b1 b2 : IoBox A V)
    (hm : b1.mem = b2.mem) (hb : b2.buf = []) :
    (runChained ops (b1, b2)).1.mem = (runChained ops (b1, b2)).2.mem := by
  induction ops generalizing b1 b2 with
  | nil => exact hm
  | cons op ops ih =>
    cases op with
    | write a v => exact ih _ _ hm hb
    | update ins =>
      simp only [runChained]
      apply ih
      · simp [IoBox.update, hm, hb]
      · simp [IoBox.update]

theorem runChained_fst (ops : List (IoOp A V)) (b1 b2 : IoBox A V) :
    (runChained ops (b1, b2)).1 = runBox ops b1 := by
  induction ops generalizing b1 b2 with
  | nil => rfl
  | cons op ops ih =>
    cases op with
    | write a v => simp only [runChained, runBox_write, ih]
    | update ins => simp only [runChained, runBox_update, ih]

end IoBoxL

/-! ### scheduler bookkeeping (C06) -/
section SchedL
variable {κ β : Type} [DecidableEq κ]

theorem keys_aerase_sublist (m : List (κ × β)) (k : κ) :
    ((aerase m k).map (·.1)).Sublist (m.map (·.1)) := by
  induction m with
  | nil => simp [aerase]
  | cons e t ih =>
    obtain ⟨a, w⟩ := e
    simp only [aerase]
    split
    · simp
    · simpa using ih

theorem UniqueKeys.aerase {m : List (κ × β)} (h : UniqueKeys m) (k : κ) : UniqueKeys (aerase m k) :=
  List.Nodup.sublist (keys_aerase_sublist m k) h

theorem ms_alookup_aerase (m : List (κ × β)) (h : UniqueKeys m) (k c : κ) :
    alookup (aerase m k) c = if c = k then none else alookup m c := by
  induction m with
  | nil => simp [aerase, alookup]
  | cons e t ih =>
    obtain ⟨a, w⟩ := e
    simp only [UniqueKeys, List.map_cons, List.nodup_cons] at h
    simp only [aerase]
    split
    · subst_vars
      simp only [alookup]
      by_cases hc : c = a
      · subst hc; simp [(ms_alookup_eq_none_iff t c).mpr h.1]
      · have : ¬ a = c := fun h => hc h.symm
        simp [hc, this]
    · rename_i hne
      simp only [alookup, ih h.2]
      by_cases hc : c = k
      · subst hc; simp [hne]
      · simp [hc]

theorem UniqueKeys.upsert {m : List (κ × β)} (h : UniqueKeys m) (k : κ) (v : β) :
    UniqueKeys (upsert m k v) := by
  unfold UniqueKeys at *
  rw [keys_upsert]
  split
  · exact h
  · rename_i hk
    rw [List.nodup_append]
    refine ⟨h, by simp, ?_⟩
    intro a ha b hb
    simp only [List.mem_singleton] at hb
    subst hb
    intro hab; subst hab; exact hk ha

theorem length_upsert (m : List (κ × β)) (k : κ) (v : β) :
    (upsert m k v).length = if (alookup m k).isSome then m.length else m.length + 1 := by
  have := congrArg List.length (keys_upsert m k v)
  simp only [List.length_map] at this
  rw [this]
  by_cases hk : k ∈ m.map (·.1)
  · simp [hk, (ms_alookup_isSome_iff m k).mpr hk]
  · have : ¬ (alookup m k).isSome = true := fun h => hk ((ms_alookup_isSome_iff m k).mp h)
    simp [hk, this]

end SchedL

theorem minTime_eq_none (l : List SimTime) : minTime l = none ↔ l = [] := by
  cases l with
  | nil => simp [minTime]
  | cons t ts => simp only [minTime]; split <;> simp

theorem minTime_spec (l : List SimTime) (m : SimTime) (h : minTime l = some m) :
    m ∈ l ∧ ∀ t ∈ l, m ≤ t := by
  induction l generalizing m with
  | nil => simp [minTime] at h
  | cons t ts ih =>
    simp only [minTime] at h
    split at h
    · rename_i hn
      rw [minTime_eq_none] at hn
      subst hn
      simp only [Option.some.injEq] at h
      subst h; simp
    · rename_i m' hm'
      obtain ⟨h1, h2⟩ := ih m' hm'
      simp only [Option.some.injEq] at h
      subst h
      split
      · rename_i hle
        refine ⟨by simp, ?_⟩
        intro x hx
        rcases List.mem_cons.mp hx with rfl | hx
        · exact Int.le_refl _
        · exact Int.le_trans hle (h2 x hx)
      · rename_i hle
        refine ⟨List.mem_cons_of_mem _ h1, ?_⟩
        intro x hx
        rcases List.mem_cons.mp hx with rfl | hx
        · exact Int.le_of_lt (Int.not_le.mp hle)
        · exact h2 x hx

theorem firstWakeups_eq (w : Wakeups) (cs : List Comp) (m : SimTime) :
    firstWakeups w = (cs, some m) ↔
      minTime (w.map (·.2)) = some m ∧ cs = (w.filter (fun e => e.2 == m)).map (·.1) := by
  unfold firstWakeups
  split
  · rename_i h; simp [h]
  · rename_i m' h
    simp only [h, Prod.mk.injEq, Option.some.injEq]
    constructor
    · rintro ⟨h1, h2⟩; subst h2; exact ⟨rfl, h1.symm⟩
    · rintro ⟨h1, h2⟩; subst h1; exact ⟨h2.symm, rfl⟩

theorem firstWakeups_snd (w : Wakeups) : (firstWakeups w).2 = minTime (w.map (·.2)) := by
  unfold firstWakeups; split <;> simp_all

theorem firstWakeups_spec' (w : Wakeups) (h : UniqueKeys w) (cs : List Comp) (m : SimTime)
    (hf : firstWakeups w = (cs, some m)) :
    (∀ c, c ∈ cs ↔ alookup w c = some m) ∧
    (∀ c t, alookup w c = some t → m ≤ t) ∧
    (∃ c, alookup w c = some m) ∧ cs.Nodup := by
  rw [firstWakeups_eq] at hf
  obtain ⟨hmin, rfl⟩ := hf
  obtain ⟨hmem, hle⟩ := minTime_spec _ _ hmin
  refine ⟨?_, ?_, ?_, ?_⟩
  · intro c
    rw [alookup_eq_some_iff w h]
    simp only [List.mem_map, List.mem_filter, beq_iff_eq]
    constructor
    · rintro ⟨⟨c', t⟩, ⟨hm, ht⟩, hc⟩
      simp only at ht hc; subst ht hc; exact hm
    · intro hm; exact ⟨(c, m), ⟨hm, rfl⟩, rfl⟩
  · intro c t hc
    exact hle t (List.mem_map.mpr ⟨(c, t), alookup_mem w c t hc, rfl⟩)
  · obtain ⟨⟨c, t⟩, hm, ht⟩ := List.mem_map.mp hmem
    simp only at ht; subst ht
    exact ⟨c, (alookup_eq_some_iff w h c t).mpr hm⟩
  · exact List.Nodup.sublist (List.Sublist.map _ List.filter_sublist) h

theorem delWakeups_unique' (w : Wakeups) (h : UniqueKeys w) (cs : List Comp) :
    UniqueKeys (delWakeups w cs) := by
  induction cs generalizing w with
  | nil => exact h
  | cons c cs ih => exact ih _ (h.aerase c)

theorem delWakeups_lookup' (w : Wakeups) (h : UniqueKeys w) (cs : List Comp) (c : Comp) :
    alookup (delWakeups w cs) c = if c ∈ cs then none else alookup w c := by
  induction cs generalizing w with
  | nil => simp [delWakeups]
  | cons k cs ih =>
    have : delWakeups w (k :: cs) = delWakeups (aerase w k) cs := rfl
    rw [this, ih _ (h.aerase k), ms_alookup_aerase w h]
    by_cases h1 : c ∈ cs <;> by_cases h2 : c = k <;> simp [h1, h2]

theorem nestedDue_spec' (w : Wakeups) (h : UniqueKeys w) (t : SimTime) (c : Comp) :
    c ∈ nestedDue w t ↔ ∃ t', alookup w c = some t' ∧ t' ≤ t := by
  simp only [nestedDue, List.mem_map, List.mem_filter, decide_eq_true_eq]
  constructor
  · rintro ⟨⟨c', t'⟩, ⟨hm, ht⟩, hc⟩
    simp only at ht hc; subst hc
    exact ⟨t', (alookup_eq_some_iff w h _ _).mpr hm, ht⟩
  · rintro ⟨t', hl, ht⟩
    exact ⟨(c, t'), ⟨alookup_mem w c t' hl, ht⟩, rfl⟩


/-! ### configuration dispatch (C17) -/
section CfgL

theorem lastWrite_isSome_iff {A V : Type} [DecidableEq A] (ws : List (A × V)) (a : A) :
    (lastWrite ws a).isSome ↔ a ∈ ws.map (·.1) := by
  induction ws with
  | nil => simp [lastWrite]
  | cons w ws ih =>
    rw [lastWrite_cons]
    cases h : lastWrite ws a with
    | some x =>
      have := ih.mp (by simp [h])
      simp [this]
    | none =>
      have : a ∉ ws.map (·.1) := fun hm => by simpa [h] using ih.mpr hm
      by_cases hw : w.1 = a
      · simp [hw]
      · have hw' : ¬ a = w.1 := fun h => hw h.symm
        simpa [hw, hw'] using this

theorem lastWrite_eq_some_iff {A V : Type} [DecidableEq A] (ws : List (A × V)) (h : UniqueKeys ws)
    (a : A) (v : V) : lastWrite ws a = some v ↔ (a, v) ∈ ws := by
  induction ws with
  | nil => simp [lastWrite]
  | cons w ws ih =>
    obtain ⟨k, x⟩ := w
    simp only [UniqueKeys, List.map_cons, List.nodup_cons] at h
    rw [lastWrite_cons]
    by_cases hk : k = a
    · subst hk
      have hn : lastWrite ws k = none := by
        cases hl : lastWrite ws k with
        | none => rfl
        | some y => exact absurd ((lastWrite_isSome_iff ws k).mp (by simp [hl])) h.1
      simp only [hn, Option.orElse_none, if_true, Option.some.injEq, List.mem_cons, Prod.mk.injEq, true_and]
      constructor
      · exact fun h => Or.inl h.symm
      · rintro (h' | h')
        · exact h'.symm
        · exact absurd (List.mem_map.mpr ⟨_, h', rfl⟩) h.1
    · have hk' : ¬ a = k := fun h => hk h.symm
      simp only [hk, if_false, List.mem_cons, Prod.mk.injEq, hk', false_and, false_or]
      rw [← ih h.2]
      cases lastWrite ws a <;> simp

theorem fromConfigs_eq (cfgs : List (Comp × List (Port × CPort))) :
    InvWiring.fromConfigs cfgs = applyWrites [] cfgs := rfl

theorem alookup_fromConfigs (cfgs : List (Comp × List (Port × CPort))) (b : Comp) :
    alookup (InvWiring.fromConfigs cfgs) b = lastWrite cfgs b := by
  rw [fromConfigs_eq, alookup_applyWrites]
  cases lastWrite cfgs b <;> simp [alookup]

theorem dispatch_some_mem (reg : List ClassSig) (tag : String) (c : ClassSig)
    (h : dispatch reg tag = some c) : c ∈ reg ∧ c.tag = tag := by
  unfold dispatch at h
  exact ⟨List.mem_of_find?_eq_some h, by simpa using List.find?_some h⟩

theorem dispatch_eq_none_iff (reg : List ClassSig) (tag : String) :
    dispatch reg tag = none ↔ ∀ c ∈ reg, c.tag ≠ tag := by
  simp [dispatch]

theorem dispatch_eq_some_iff (reg : List ClassSig) (hd : (reg.map (·.tag)).Nodup) (tag : String)
    (c : ClassSig) : dispatch reg tag = some c ↔ c ∈ reg ∧ c.tag = tag := by
  refine ⟨dispatch_some_mem reg tag c, ?_⟩
  rintro ⟨hm, ht⟩
  induction reg with
  | nil => simp at hm
  | cons d ds ih =>
    simp only [List.map_cons, List.nodup_cons] at hd
    simp only [dispatch, List.find?_cons]
    rcases List.mem_cons.mp hm with rfl | hm'
    · simp [ht]
    · have : d.tag ≠ tag := by
        intro he
        exact hd.1 (List.mem_map.mpr ⟨c, hm', by rw [ht, he]⟩)
      have hb : (d.tag == tag) = false := by simpa using this
      rw [hb]
      exact ih hd.2 hm'

theorem dispatch_perm (reg reg' : List ClassSig) (hp : reg.Perm reg')
    (hd : (reg.map (·.tag)).Nodup) (tag : String) : dispatch reg tag = dispatch reg' tag := by
  have hd' : (reg'.map (·.tag)).Nodup := (hp.map _).nodup_iff.mp hd
  cases h : dispatch reg tag with
  | none =>
    symm
    rw [dispatch_eq_none_iff] at h ⊢
    exact fun c hc => h c (hp.mem_iff.mpr hc)
  | some c =>
    symm
    rw [dispatch_eq_some_iff _ hd] at h
    rw [dispatch_eq_some_iff _ hd']
    exact ⟨hp.mem_iff.mp h.1, h.2⟩

end CfgL

/-! ### command adapters (C18) -/
section CmdL
variable {Args : Type}

theorem handleFrom_unknown_iff (cmds : List (Cmd Args)) (data : Bytes) (k : Nat) :
    handleFrom cmds data k = .unknown ↔ ∀ c ∈ cmds, c.parse data = none := by
  induction cmds generalizing k with
  | nil => simp [handleFrom]
  | cons c cs ih =>
    simp only [handleFrom]
    cases h : c.parse data with
    | some a => simp [h]
    | none => simp [h, ih]

theorem handleFrom_call_iff (cmds : List (Cmd Args)) (data : Bytes) (k i : Nat) (a : Args) (intr : Bool) :
    handleFrom cmds data k = .call i a intr ↔
      ∃ j c, i = k + j ∧ cmds[j]? = some c ∧ c.parse data = some a ∧ intr = c.interrupt ∧
        ∀ j', j' < j → ∀ c', cmds[j']? = some c' → c'.parse data = none := by
  induction cmds generalizing k with
  | nil => simp [handleFrom]
  | cons c cs ih =>
    simp only [handleFrom]
    cases h : c.parse data with
    | some a0 =>
      simp only [Handled.call.injEq]
      constructor
      · rintro ⟨rfl, rfl, rfl⟩
        exact ⟨0, c, rfl, rfl, h, rfl, fun j' hj' => absurd hj' (Nat.not_lt_zero _)⟩
      · rintro ⟨j, c0, hi, hj, hp, hint, hall⟩
        cases j with
        | zero =>
          simp only [List.getElem?_cons_zero, Option.some.injEq] at hj
          subst hj
          rw [h] at hp
          simp only [Option.some.injEq] at hp
          exact ⟨hi.symm, hp, hint.symm⟩
        | succ j =>
          have := hall 0 (Nat.succ_pos _) c rfl
          rw [h] at this; simp at this
    | none =>
      simp only
      rw [ih]
      constructor
      · rintro ⟨j, c0, hi, hj, hp, hint, hall⟩
        refine ⟨j + 1, c0, by omega, by simpa using hj, hp, hint, ?_⟩
        intro j' hj' c' hc'
        cases j' with
        | zero =>
          simp only [List.getElem?_cons_zero, Option.some.injEq] at hc'
          subst hc'; exact h
        | succ j' => exact hall j' (by omega) c' (by simpa using hc')
      · rintro ⟨j, c0, hi, hj, hp, hint, hall⟩
        cases j with
        | zero =>
          simp only [List.getElem?_cons_zero, Option.some.injEq] at hj
          subst hj
          rw [h] at hp; simp at hp
        | succ j =>
          refine ⟨j, c0, by omega, by simpa using hj, hp, hint, ?_⟩
          intro j' hj' c' hc'
          exact hall (j' + 1) (by omega) c' (by simpa using hc')

theorem strip_spec {α : Type} (p : α → Bool) (s : List α) :
    let r := ((s.dropWhile p).reverse.dropWhile p).reverse
    ∃ pre post, s = pre ++ r ++ post ∧ (∀ c ∈ pre, p c = true) ∧
      (∀ c ∈ post, p c = true) ∧
      (∀ c, r.head? = some c → p c = false) ∧
      (∀ c, r.getLast? = some c → p c = false) := by
  intro r
  let d := s.dropWhile p
  have hs : s = s.takeWhile p ++ d := (List.takeWhile_append_dropWhile).symm
  have hd : d = r ++ (d.reverse.takeWhile p).reverse := by
    show d = (d.reverse.dropWhile p).reverse ++ (d.reverse.takeWhile p).reverse
    rw [← List.reverse_append, List.takeWhile_append_dropWhile, List.reverse_reverse]
  refine ⟨s.takeWhile p, (d.reverse.takeWhile p).reverse, ?_, ?_, ?_, ?_, ?_⟩
  · rw [List.append_assoc, ← hd]; exact hs
  · intro c hc; exact List.all_eq_true.mp List.all_takeWhile c hc
  · intro c hc; exact List.all_eq_true.mp List.all_takeWhile c (List.mem_reverse.mp hc)
  · intro c hc
    have hdh : d.head? = some c := by
      rw [hd]
      cases hr : r with
      | nil => rw [hr] at hc; simp at hc
      | cons x xs => rw [hr] at hc; simpa using hc
    have := List.head?_dropWhile_not p s
    rw [show s.dropWhile p = d from rfl, hdh] at this
    simpa using this
  · intro c hc
    have : r.getLast? = (d.reverse.dropWhile p).head? := by simp [r, d]
    rw [this] at hc
    have := List.head?_dropWhile_not p d.reverse
    rw [hc] at this
    simpa using this

theorem chunk_counts (cmds : List (Cmd Args)) (replies : Nat → Args → List (Option Bytes))
    (pre post : Bytes) (data : Bytes) (p q : ConnEv Args → Bool)
    (hp1 : ∀ i a, p (.invoke i a) = true) (hp2 : p .interrupt = false) (hp3 : ∀ b, p (.write b) = false)
    (hq1 : ∀ i a, q (.invoke i a) = false) (hq3 : ∀ b, q (.write b) = false) :
    let evs := tcpChunk cmds replies pre post data
    (evs.filter p).length ≤ 1 ∧ (evs.filter q).length ≤ (evs.filter p).length := by
  simp only [tcpChunk]
  cases handle cmds data with
  | unknown => simp [hp3, hq3]
  | call i a intr =>
    cases intr <;>
      simp [List.filter_map, Function.comp_def, hp1, hp2, hp3, hq1, hq3, List.filter_cons]
    split <;> simp

theorem conn_counts (cmds : List (Cmd Args)) (replies : Nat → Args → List (Option Bytes))
    (pre post : Bytes) (cs : List Bytes) (p q : ConnEv Args → Bool)
    (hp1 : ∀ i a, p (.invoke i a) = true) (hp2 : p .interrupt = false) (hp3 : ∀ b, p (.write b) = false)
    (hq1 : ∀ i a, q (.invoke i a) = false) (hq3 : ∀ b, q (.write b) = false) :
    let evs := tcpConn cmds replies pre post cs
    (evs.filter p).length ≤ cs.length ∧ (evs.filter q).length ≤ (evs.filter p).length := by
  induction cs with
  | nil => simp [tcpConn]
  | cons d ds ih =>
    have hc := chunk_counts cmds replies pre post d p q hp1 hp2 hp3 hq1 hq3
    simp only [tcpConn, List.flatMap_cons, List.filter_append, List.length_append, List.length_cons] at hc ih ⊢
    omega

end CmdL

end Tickit
