/-
Helper lemmas for M4 (scheduler bookkeeping, pacing) and M9 (IoBox, command dispatch,
configuration dispatch).
-/
import TickitModel.Core.Sched
import TickitModel.Core.IoBox
import TickitModel.Core.Command
import TickitModel.Core.Config

namespace Tickit

/-- a Python dict: keys are unique. -/
def UniqueKeys {κ β : Type} (m : List (κ × β)) : Prop := (m.map (·.1)).Nodup

/-- the last write to address `a` in a list of writes -/
def lastWrite {A V : Type} [DecidableEq A] (ws : List (A × V)) (a : A) : Option V :=
  (ws.reverse.find? (fun w => w.1 = a)).map (·.2)

/-- run a history of writes/updates on a box, feeding every update's output into a second
box (which has no adapter writes of its own). -/
def runChained {A V : Type} [DecidableEq A] :
    List (IoOp A V) → IoBox A V × IoBox A V → IoBox A V × IoBox A V
  | [], s => s
  | .write a v :: ops, (b1, b2) => runChained ops (b1.write a v, b2)
  | .update ins :: ops, (b1, b2) =>
    let (b1', out) := b1.update ins
    runChained ops (b1', (b2.update out).1)

def runBox {A V : Type} [DecidableEq A] (ops : List (IoOp A V)) (b : IoBox A V) : IoBox A V :=
  ops.foldl (fun b op => match op with
    | .write a v => b.write a v
    | .update ins => (b.update ins).1) b

end Tickit
