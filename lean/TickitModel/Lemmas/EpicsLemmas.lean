/-
Lemmas for the EPICS adapter model (Core/Epics.lean): with per-instance tables one update of a
component produces events that are a function of that component and its device's new state only;
notification counting; membership analysis of the produced events.
-/
import TickitModel.Core.Epics
import TickitModel.Lemmas.DictLemmas

namespace Tickit
namespace Epics

variable {St Val : Type}

/-! ### the table of one instance is a dict built from its link calls -/

theorem mem_upsert {κ β : Type} [DecidableEq κ] {t : List (κ × β)} {k : κ} {v : β} {x : κ × β}
    (h : x ∈ upsert t k v) : x ∈ t ∨ x = (k, v) := by
  induction t with
  | nil => simp [upsert] at h; exact Or.inr h
  | cons e t ih =>
    obtain ⟨k', w⟩ := e
    simp only [upsert] at h
    split at h
    · rename_i hk
      rcases List.mem_cons.mp h with h | h
      · right; rw [h, hk]
      · left; exact List.mem_cons_of_mem _ h
    · rcases List.mem_cons.mp h with h | h
      · left; rw [h]; exact List.mem_cons_self
      · rcases ih h with h | h
        · left; exact List.mem_cons_of_mem _ h
        · right; exact h

theorem mem_foldl_upsert {κ β : Type} [DecidableEq κ] (links : List (κ × β)) (t : List (κ × β))
    {x : κ × β} (h : x ∈ links.foldl (fun t l => upsert t l.1 l.2) t) : x ∈ t ∨ x ∈ links := by
  induction links generalizing t with
  | nil => exact Or.inl h
  | cons l links ih =>
    simp only [List.foldl_cons] at h
    rcases ih _ h with h | h
    · rcases mem_upsert h with h | h
      · exact Or.inl h
      · right; rw [h]; exact List.mem_cons_self
    · exact Or.inr (List.mem_cons_of_mem _ h)

theorem nodup_foldl_upsert {κ β : Type} [DecidableEq κ] (links : List (κ × β)) (t : List (κ × β))
    (hn : (akeys t).Nodup) : (akeys (links.foldl (fun t l => upsert t l.1 l.2) t)).Nodup := by
  induction links generalizing t with
  | nil => exact hn
  | cons l links ih => exact ih _ (nodup_akeys_upsert hn _ _)

/-- every entry of an adapter's table comes from one of its own link calls -/
theorem Adapter.mem_table {a : Adapter St Val} {x : RecName × (St → Val)} (h : x ∈ a.table) :
    x ∈ a.links := by
  rcases mem_foldl_upsert a.links [] h with h | h
  · simp at h
  · exact h

/-- a table holds each record once (it is a dict) -/
theorem Adapter.table_nodup (a : Adapter St Val) : (akeys a.table).Nodup :=
  nodup_foldl_upsert a.links [] (by simp [akeys])

/-! ### lookup -/

theorem Config.lookup_name {cfg : Config St Val} {c : Comp} {d : DevComp St Val}
    (h : cfg.lookup c = some d) : d.name = c := by
  have := List.find?_some h
  simpa using this

theorem Config.lookup_mem {cfg : Config St Val} {c : Comp} {d : DevComp St Val}
    (h : cfg.lookup c = some d) : d ∈ cfg := List.mem_of_find?_eq_some h

/-! ### per-instance tables: one update is a function of the component and its new state -/

/-- what adapter number `i` of `d` does when notified, device state `s` -/
def ownAfterUpdate (d : DevComp St Val) (s : St) (ai : Adapter St Val × Nat) : List (Ev Val) :=
  .notify (d.name, ai.2) ::
    ai.1.table.map (fun rg => .recordSet (d.name, ai.2) (d.name, ai.2) rg.1 (rg.2 s))

/-- the events of one tick of `d` whose device is then in state `s` -/
def ownEvents (d : DevComp St Val) (s : St) : List (Ev Val) :=
  [.deviceUpdate d.name] ++ d.adapters.zipIdx.flatMap (ownAfterUpdate d s) ++ [.output d.name]

theorem flatMap_congr' {α β : Type} {l : List α} {f g : α → List β} (h : ∀ x ∈ l, f x = g x) :
    l.flatMap f = l.flatMap g := by
  induction l with
  | nil => rfl
  | cons a l ih =>
    rw [List.flatMap_cons, List.flatMap_cons, h a List.mem_cons_self,
      ih (fun x hx => h x (List.mem_cons_of_mem _ hx))]

theorem onTick_fixed (cfg : Config St Val) (σ : Comp → St) (d : DevComp St Val) :
    onTick false cfg σ d = ownEvents d (σ d.name) := by
  unfold onTick ownEvents
  congr 2
  apply flatMap_congr'
  intro ai _
  simp [afterUpdate, tableSeenBy, ownTable, ownAfterUpdate, List.map_map, Function.comp_def]

theorem updateOf_fixed (cfg : Config St Val) (σ : Comp → St) (c : Comp) (s : St) :
    updateOf false cfg (setState σ c s) c =
      match cfg.lookup c with
      | some d => ownEvents d s
      | none => [] := by
  unfold updateOf
  cases h : cfg.lookup c with
  | none => rfl
  | some d =>
    simp only [onTick_fixed]
    rw [Config.lookup_name h]
    simp [setState]

theorem mem_ownEvents {d : DevComp St Val} {s : St} {ev : Ev Val} (h : ev ∈ ownEvents d s) :
    ev = .deviceUpdate d.name ∨ ev = .output d.name ∨
    ∃ i a, d.adapters[i]? = some a ∧
      (ev = .notify (d.name, i) ∨
       ∃ r g, (r, g) ∈ a.table ∧ ev = .recordSet (d.name, i) (d.name, i) r (g s)) := by
  unfold ownEvents at h
  simp only [List.mem_append, List.mem_singleton, List.mem_flatMap] at h
  rcases h with (h | ⟨ai, hai, hev⟩) | h
  · exact Or.inl h
  · right; right
    refine ⟨ai.2, ai.1, List.mem_zipIdx_iff_getElem?.mp hai, ?_⟩
    unfold ownAfterUpdate at hev
    rcases List.mem_cons.mp hev with hev | hev
    · exact Or.inl hev
    · right
      obtain ⟨rg, hrg, rfl⟩ := List.mem_map.mp hev
      exact ⟨rg.1, rg.2, hrg, rfl⟩
  · exact Or.inr (Or.inl h)

theorem ownEvents_concerns (d : DevComp St Val) (s : St) (c : Comp) (ev : Ev Val)
    (h : ev ∈ ownEvents d s) : ev.concerns c = (d.name == c) := by
  rcases mem_ownEvents h with rfl | rfl | ⟨i, a, _, rfl | ⟨r, g, _, rfl⟩⟩ <;> simp [Ev.concerns]

theorem filter_ownEvents (d : DevComp St Val) (s : St) (c : Comp) :
    (ownEvents d s).filter (Ev.concerns c) = if d.name = c then ownEvents d s else [] := by
  split
  · rename_i h
    rw [List.filter_eq_self]
    intro ev hev
    rw [ownEvents_concerns d s c ev hev]; simp [h]
  · rename_i h
    rw [List.filter_eq_nil_iff]
    intro ev hev
    rw [ownEvents_concerns d s c ev hev]; simp [h]

/-- every event of a run with per-instance tables lies in the tick of some update of the history -/
theorem mem_run_fixed {cfg : Config St Val} {σ : Comp → St} {h : List (Comp × St)} {ev : Ev Val}
    (hev : ev ∈ run false cfg σ h) :
    ∃ c s d, (c, s) ∈ h ∧ cfg.lookup c = some d ∧ ev ∈ ownEvents d s := by
  induction h generalizing σ with
  | nil => simp [run] at hev
  | cons u h ih =>
    obtain ⟨c, s⟩ := u
    simp only [run, List.mem_append] at hev
    rcases hev with hev | hev
    · rw [updateOf_fixed] at hev
      cases hl : cfg.lookup c with
      | none => simp [hl] at hev
      | some d =>
        simp only [hl] at hev
        exact ⟨c, s, d, List.mem_cons_self, hl, hev⟩
    · obtain ⟨c', s', d, hm, hl, he⟩ := ih hev
      exact ⟨c', s', d, List.mem_cons_of_mem _ hm, hl, he⟩

/-! ### one adapter's own events (per-instance tables) -/

theorem filter_byAdapter_ownAfterUpdate (d : DevComp St Val) (s : St) (a : Adapter St Val)
    (k : Nat) (c : Comp) (i : Nat) :
    (ownAfterUpdate d s (a, k)).filter (Ev.byAdapter (c, i)) =
      if d.name = c ∧ k = i then adapterEvents (c, i) a s else [] := by
  unfold ownAfterUpdate adapterEvents
  by_cases h : d.name = c ∧ k = i
  · obtain ⟨h1, h2⟩ := h
    subst h1 h2
    simp only [and_self, if_true]
    rw [List.filter_eq_self]
    intro ev hev
    rcases List.mem_cons.mp hev with rfl | hev
    · simp [Ev.byAdapter]
    · obtain ⟨rg, _, rfl⟩ := List.mem_map.mp hev
      simp [Ev.byAdapter]
  · simp only [h, if_false]
    rw [List.filter_eq_nil_iff]
    intro ev hev
    have hne : ((d.name, k) == (c, i)) = false := by
      simp only [beq_eq_false_iff_ne, ne_eq, Prod.mk.injEq]; exact h
    rcases List.mem_cons.mp hev with rfl | hev
    · simp [Ev.byAdapter, hne]
    · obtain ⟨rg, _, rfl⟩ := List.mem_map.mp hev
      simp [Ev.byAdapter, hne]

theorem filter_byAdapter_zipIdx (d : DevComp St Val) (s : St) (c : Comp) (i : Nat)
    (l : List (Adapter St Val)) (k : Nat) :
    ((l.zipIdx k).flatMap (ownAfterUpdate d s)).filter (Ev.byAdapter (c, i)) =
      match (if d.name = c ∧ k ≤ i then l[i - k]? else none) with
      | some a => adapterEvents (c, i) a s
      | none => [] := by
  induction l generalizing k with
  | nil => simp
  | cons a l ih =>
    rw [List.zipIdx_cons, List.flatMap_cons, List.filter_append, filter_byAdapter_ownAfterUpdate, ih]
    by_cases hn : d.name = c
    · by_cases hk : k = i
      · subst hk
        have : ¬ (k + 1 ≤ k) := by omega
        simp [hn, this]
      · by_cases hlt : k < i
        · have h1 : k + 1 ≤ i := by omega
          have h2 : k ≤ i := by omega
          have h3 : i - k = (i - (k + 1)) + 1 := by omega
          simp only [hn, hk, h1, h2, and_false, and_self, if_false, if_true, List.nil_append]
          rw [h3, List.getElem?_cons_succ]
        · have h1 : ¬ (k + 1 ≤ i) := by omega
          have h2 : ¬ (k ≤ i) := by omega
          simp [hn, hk, h1, h2]
    · simp [hn]

theorem filter_byAdapter_ownEvents (d : DevComp St Val) (s : St) (c : Comp) (i : Nat) :
    (ownEvents d s).filter (Ev.byAdapter (c, i)) =
      match (if d.name = c then d.adapters[i]? else none) with
      | some a => adapterEvents (c, i) a s
      | none => [] := by
  unfold ownEvents
  rw [List.filter_append, List.filter_append, filter_byAdapter_zipIdx]
  simp [Ev.byAdapter]

/-! ### notifications (either variant) -/

theorem filter_isNotify_afterUpdate (shared : Bool) (cfg : Config St Val) (σ : Comp → St)
    (ref a : AdapterRef) (ad : Adapter St Val) :
    ((afterUpdate shared cfg σ ref ad).filter (Ev.isNotify a)).length = if ref = a then 1 else 0 := by
  unfold afterUpdate
  have : ((tableSeenBy shared cfg ref ad).map
      (fun e => (Ev.recordSet ref e.1.1 e.1.2 (e.2 (σ e.1.1.1)) : Ev Val))).filter (Ev.isNotify a) = [] := by
    rw [List.filter_eq_nil_iff]
    intro ev hev
    obtain ⟨e, _, rfl⟩ := List.mem_map.mp hev
    simp [Ev.isNotify]
  rw [List.filter_cons, this]
  by_cases h : ref = a <;> simp [Ev.isNotify, h]

theorem count_notify_zipIdx (shared : Bool) (cfg : Config St Val) (σ : Comp → St) (n : Comp)
    (c : Comp) (i : Nat) (l : List (Adapter St Val)) (k : Nat) :
    (((l.zipIdx k).flatMap (fun ai => afterUpdate shared cfg σ (n, ai.2) ai.1)).filter
        (Ev.isNotify (c, i))).length =
      if n = c ∧ k ≤ i ∧ i < k + l.length then 1 else 0 := by
  induction l generalizing k with
  | nil => simp
  | cons a l ih =>
    rw [List.zipIdx_cons, List.flatMap_cons, List.filter_append, List.length_append,
      filter_isNotify_afterUpdate, ih]
    simp only [List.length_cons, Prod.mk.injEq]
    by_cases hn : n = c
    · by_cases hk : k = i
      · subst hk
        simp [hn]
        omega
      · simp only [hn, hk, and_false, if_false, true_and, Nat.zero_add]
        have : (k + 1 ≤ i ∧ i < k + 1 + l.length) ↔ (k ≤ i ∧ i < k + (l.length + 1)) := by omega
        simp only [this]
    · simp [hn]

theorem count_notify_onTick (shared : Bool) (cfg : Config St Val) (σ : Comp → St)
    (d : DevComp St Val) (c : Comp) (i : Nat) :
    ((onTick shared cfg σ d).filter (Ev.isNotify (c, i))).length =
      if d.name = c ∧ i < d.adapters.length then 1 else 0 := by
  unfold onTick
  rw [List.filter_append, List.filter_append, List.length_append, List.length_append,
    count_notify_zipIdx]
  simp [Ev.isNotify]

end Epics
end Tickit
