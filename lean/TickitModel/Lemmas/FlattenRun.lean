/-
Helper lemmas for C09, part 3: a tick of a configuration without system simulations cannot
fail — no `KeyError`, no failed assertion, no stall, enough steps — provided the wiring is
acyclic and the oracle has a (non-raising) first response for every component.
-/
import TickitModel.Lemmas.FlattenInit

namespace Tickit

theorem flt_propagate_ok {w : Wiring} {tk : Ticker V} {src : Comp} {t : SimTime}
    (changes : List (Port × V)) (h1 : alookup tk.toUpdate src ≠ none) (h2 : t = tk.time)
    (hups : ∀ e ∈ aerase tk.toUpdate src, e.2 = false → (w.ups e.1).isSome = true) :
    ∃ tk' ds, tk.propagate w src t changes = .ok (tk', ds) := by
  obtain ⟨ds, hds⟩ := scheduleLoop_ok (w := w) (tk.afterAnswer w src changes)
    (l := aerase tk.toUpdate src) hups
  simp only [Ticker.afterAnswer] at hds
  have h1' : (alookup tk.toUpdate src).isNone = false := by
    cases h : alookup tk.toUpdate src with
    | none => exact absurd h h1
    | some _ => rfl
  simp only [Ticker.propagate, h1', Bool.false_eq_true, if_false, h2, ne_eq, not_true_eq_false,
    Ticker.schedule, hds, Except.map]
  split <;> exact ⟨_, _, rfl⟩

theorem flt_call_ok {w : Wiring} (t : SimTime) {roots : List Comp}
    (hroots : ∀ c ∈ extent w roots, (w.ups c).isSome = true) :
    ∃ tk ds, (Ticker.call w t roots : Except TickErr (Ticker V × List (Dispatch V))) = .ok (tk, ds) := by
  obtain ⟨ds, hds⟩ := scheduleLoop_ok (w := w) (Ticker.startTick w t roots : Ticker V)
    (l := (Ticker.startTick w t roots : Ticker V).toUpdate)
    (fun e he _ => hroots e.1 (startTick_toUpdate (Val := V) w t roots ▸ mem_akeys_of_mem he))
  simp only [Ticker.call, Ticker.schedule, hds, Except.map]
  exact ⟨_, _, rfl⟩

/-- progress: on an acyclic wiring something is pending while anything is unresolved -/
theorem flt_progress {w : Wiring} (hacyc : w.Acyclic) {t : SimTime} {roots : List Comp}
    {tu : List (Comp × Bool)} {pending : List (Dispatch V)} {trace : List (Ev V)}
    (hp : PreInv w t roots tu pending trace) (hc : Complete w tu) (hne : tu ≠ []) : pending ≠ [] := by
  obtain ⟨rank, hr⟩ := hacyc
  have key : ∀ n c, rank c < n → alookup tu c ≠ none → pending ≠ [] := by
    intro n
    induction n with
    | zero => intro c hc; omega
    | succ n ih =>
      intro c hcn hcne
      cases hl : alookup tu c with
      | none => exact absurd hl hcne
      | some b =>
        cases b with
        | true =>
          obtain ⟨d, hd, _⟩ := (hp.pend_flag c).2 hl
          exact List.ne_nil_of_mem hd
        | false =>
          obtain ⟨us, hus, u, hu, hune⟩ := hc c hl
          have := hr c us u hus hu
          exact ih u (by omega) hune
  cases htu : tu with
  | nil => exact absurd htu hne
  | cons e rest =>
    refine key (rank e.1 + 1) e.1 (Nat.lt_succ_self _) ?_
    rw [htu, alookup_ne_none_iff]; simp

/-- the answer of a device that has not been updated yet, in a level without mock components -/
theorem flt_simAnswer_ok {S : Static} (hnosys : ∀ c, S.isSys c = false) {orc : Oracle} (fuel : Nat)
    {L : Level} (hname : L.name = "") (inCh : List (Port × V)) (st : SimSt) (out0 : List (Port × V))
    (d : Dispatch V) (horc : OrcOK orc d.comp) (hcnt : agetD st.count d.comp 0 = 0) :
    ∃ st' out' ch callAt, simAnswer S orc fuel L inCh st out0 d = .ok (st', out', ch, callAt) ∧
      ∀ x, x ≠ d.comp → agetD st'.count x 0 = agetD st.count x 0 := by
  cases d with
  | skip c t => exact ⟨st, out0, [], none, rfl, fun _ _ => rfl⟩
  | input c t ins =>
    obtain ⟨r, hr, hraise⟩ := horc
    simp only [Dispatch.comp] at hr hcnt hraise ⊢
    simp only [simAnswer, hname, bne_self_eq_false, Bool.false_and, Bool.false_eq_true, if_false,
      hnosys c, hcnt, hr, hraise]
    refine ⟨_, _, _, _, rfl, fun x hx => ?_⟩
    simp [sim_agetD_upsert, Ne.symm hx]

theorem simWake_count' (st : SimSt) (lvl c : Comp) (callAt : Option SimTime) (x : Comp) :
    agetD (simWake st lvl c callAt).count x 0 = agetD st.count x 0 := rfl

/-- **no failure of a flat tick** -/
theorem flat_tickLoop_ok {S : Static} (hnosys : ∀ c, S.isSys c = false) {orc : Oracle} (fuel : Nat)
    {L : Level} (hname : L.name = "") (hacyc : L.wiring.Acyclic) {t : SimTime} {roots : List Comp}
    (hups : ∀ c ∈ extent L.wiring roots, (L.wiring.ups c).isSome = true)
    (horc : ∀ c ∈ extent L.wiring roots, OrcOK orc c) (inCh : List (Port × V)) :
    ∀ (k steps : Nat) (ls : LoopSt) (trace : List (Ev V)),
      PreInv L.wiring t roots ls.tk.toUpdate ls.pending trace → Complete L.wiring ls.tk.toUpdate →
      ls.tk.time = t → (∀ c, alookup ls.tk.toUpdate c ≠ none → agetD ls.st.count c 0 = 0) →
      ls.tk.toUpdate.length = k → k + 1 ≤ steps →
      ∃ r, tickLoop S orc fuel steps L inCh ls = .ok r := by
  intro k
  induction k with
  | zero =>
    intro steps ls trace hp hc _ _ hk hsteps
    have htu : ls.tk.toUpdate = [] := List.eq_nil_of_length_eq_zero hk
    obtain ⟨steps', rfl⟩ : ∃ s', steps = s' + 1 := ⟨steps - 1, by omega⟩
    have hpend : ls.pending = [] := by
      cases hpd : ls.pending with
      | nil => rfl
      | cons d rest =>
        have := (hp.pend_flag d.comp).1 ⟨d, by rw [hpd]; simp, rfl⟩
        rw [htu] at this; cases this
    rw [tickLoop_nil _ _ _ _ _ _ _ hpend, htu]
    exact ⟨_, rfl⟩
  | succ k ih =>
    intro steps ls trace hp hc ht hcnt hk hsteps
    obtain ⟨steps', rfl⟩ : ∃ s', steps = s' + 1 := ⟨steps - 1, by omega⟩
    have hne : ls.tk.toUpdate ≠ [] := by
      intro h; rw [h] at hk; cases hk
    cases hpd : ls.pending with
    | nil => exact absurd hpd (flt_progress hacyc hp hc hne)
    | cons d rest =>
      have hdm : d ∈ ls.pending := by rw [hpd]; simp
      have hd0 : ls.pending[0]? = some d := by rw [hpd]; rfl
      have h0 : alookup ls.tk.toUpdate d.comp = some true := (hp.pend_flag _).1 ⟨d, hdm, rfl⟩
      have hne0 : alookup ls.tk.toUpdate d.comp ≠ none := by rw [h0]; simp
      have hext : d.comp ∈ extent L.wiring roots := hp.keys_ext _ hne0
      have hdt : d.time = ls.tk.time := (hp.disp_ext d (hp.pend_trace d hdm)).2.trans ht.symm
      obtain ⟨st', out', ch, callAt, ha, hcnt'⟩ :=
        flt_simAnswer_ok hnosys fuel hname inCh ls.st ls.outCh d (horc _ hext) (hcnt _ hne0)
      obtain ⟨tk', ds, hprop⟩ := flt_propagate_ok (w := L.wiring) ch hne0 hdt
        (fun e he _ => hups e.1 (hp.keys_ext e.1 (alookup_ne_none_iff.2
          (mem_akeys_of_mem_akeys_aerase (mem_akeys_of_mem he)))))
      obtain ⟨_, _, hsl, htu, htk, _⟩ := sim_propagate_eq_ok hprop
      have hS := (hp.answer hd0 ch).schedule (tk := ls.tk.afterAnswer L.wiring d.comp ch) ht hsl
      rw [tickLoop_cons _ _ _ _ _ _ _ _ _ hpd, ha]
      simp only [hprop]
      refine ih steps' ⟨tk', rest ++ ds, out', simWake st' L.name d.comp callAt⟩
        (trace ++ [Ev.answer d.comp ch] ++ ds.map Ev.dispatch) ?_ ?_ (htk.trans ht) ?_ ?_ (by omega)
      · have := hS.1
        rw [hpd] at this
        show PreInv L.wiring t roots tk'.toUpdate (rest ++ ds) _
        rw [htu]; exact this
      · show Complete L.wiring tk'.toUpdate
        rw [htu]; exact hS.2
      · intro c hcne
        show agetD (simWake st' L.name d.comp callAt).count c 0 = 0
        rw [simWake_count']
        have hcne' : alookup tk'.toUpdate c ≠ none := hcne
        rw [htu, Ne, alookup_markDispatched_eq_none, alookup_aerase hp.nodup] at hcne'
        by_cases hcd : c = d.comp
        · simp [hcd] at hcne'
        · simp only [hcd, if_false] at hcne'
          rw [hcnt' c hcd]
          exact hcnt c hcne'
      · show tk'.toUpdate.length = k
        rw [htu, length_markDispatched]
        have := length_aerase (alookup_ne_none_iff.1 hne0)
        omega

/-- the initial tick of a flat, acyclic configuration with a complete oracle succeeds -/
theorem flat_tickLevel_ok {S : Static} (hnosys : ∀ c, S.isSys c = false) {orc : Oracle}
    {L : Level} (hLv : S.level "" = some L) (hacyc : L.wiring.Acyclic) (t : SimTime)
    {roots : List Comp} (hroots : ∀ r ∈ roots, r ∈ L.wiring.components)
    (horc : ∀ c ∈ L.wiring.components, OrcOK orc c) (fuel : Nat) :
    ∃ r, tickLevel S orc (fuel + 1) "" t roots [] {} = .ok r := by
  have hname : L.name = "" := (Static.level_some hLv).2
  have hsub : ∀ c ∈ extent L.wiring roots, c ∈ L.wiring.components := by
    intro c hc
    obtain ⟨r, hr, hcr⟩ := (sim_mem_extent_iff L.wiring roots c).1 hc
    unfold Wiring.dependants at hcr
    refine bfs_sound L.wiring.children (· ∈ L.wiring.components) ?_ L.wiring.bfsFuel [r] [] ?_
      (by simp) c hcr
    · intro d ch _ hch b hb
      exact (Wiring.mem_components L.wiring b).2 (Or.inl (Wiring.children_subset_inputs hch b hb))
    · intro x hx
      rw [List.mem_singleton] at hx
      exact hx ▸ hroots r hr
  have hups : ∀ c ∈ extent L.wiring roots, (L.wiring.ups c).isSome = true :=
    fun c hc => (Wiring.ups_isSome_iff' L.wiring c).2 (hsub c hc)
  obtain ⟨tk, ds, hcall⟩ := flt_call_ok (w := L.wiring) t hups
  obtain ⟨hs, htu, htime, _⟩ := sim_call_eq_ok hcall
  have hpre := (PreInv.start (Val := V) L.wiring t roots).schedule rfl hs
  rw [tickLevel.eq_2, hLv]
  simp only [hcall]
  have hnd : (akeys tk.toUpdate).Nodup := by
    rw [htu]; simpa using hpre.1.nodup
  have hlen : tk.toUpdate.length ≤ L.wiring.components.length := by
    rw [← length_akeys]
    refine flt_length_le_of_nodup_subset hnd (fun x hx => hsub x ?_)
    have := alookup_ne_none_iff.2 hx
    rw [htu] at this
    exact hpre.1.keys_ext x this
  refine flat_tickLoop_ok hnosys fuel hname hacyc hups (fun c hc => horc c (hsub c hc)) []
    tk.toUpdate.length _ ⟨tk, ds, [], {}⟩ (ds.map Ev.dispatch) ?_ ?_ htime ?_ rfl ?_
  · show PreInv L.wiring t roots tk.toUpdate ds _
    rw [htu]; simpa using hpre.1
  · show Complete L.wiring tk.toUpdate
    rw [htu]; exact hpre.2
  · intro c _; rfl
  · omega

end Tickit
