/-
Transfer of the whole-simulation theorems to any-order executions, part 1: what state
equivalence (`SimSt.Equiv`, `ObsEq`) preserves.

The theorems about the FIFO model (`Props/C05`, `C09`, `C04Mono`, `C06`) speak about update counts,
observation times, the bookkeeping invariant `SimSt.Good` and the hypothesis `RunNoPast`.  All of
these depend on a state only through things `SimSt.Equiv` keeps: the per-device observation
sequences up to `ObsEq` (same length, same times, inputs equal as mappings), the update counts, the
wakeup maps as mappings with unique keys.
-/
import TickitModel.Lemmas.AnyRun
import TickitModel.Lemmas.TimeMonoLemmas

namespace Tickit

/-! ### `ObsEq` -/

theorem obsEq_length {a b : List (SimTime × List (Port × V))} (h : ObsEq a b) :
    a.length = b.length := by
  induction a generalizing b with
  | nil =>
    cases b with
    | nil => rfl
    | cons y b => simp [ObsEq] at h
  | cons x a ih =>
    cases b with
    | nil => simp [ObsEq] at h
    | cons y b =>
      obtain ⟨t1, i1⟩ := x
      obtain ⟨t2, i2⟩ := y
      simp only [ObsEq] at h
      simp [ih h.2.2]

/-- entry by entry: the same time, the same inputs as a mapping -/
theorem obsEq_getElem? {a b : List (SimTime × List (Port × V))} (h : ObsEq a b) (k : Nat)
    {x : SimTime × List (Port × V)} (hx : a[k]? = some x) :
    ∃ y, b[k]? = some y ∧ x.1 = y.1 ∧ MapEq x.2 y.2 := by
  induction a generalizing b k with
  | nil => simp at hx
  | cons x' a ih =>
    cases b with
    | nil => simp [ObsEq] at h
    | cons y b =>
      obtain ⟨t1, i1⟩ := x'
      obtain ⟨t2, i2⟩ := y
      simp only [ObsEq] at h
      cases k with
      | zero =>
        simp only [List.getElem?_cons_zero, Option.some.injEq] at hx
        subst hx
        exact ⟨(t2, i2), rfl, h.1, h.2.1⟩
      | succ k =>
        simp only [List.getElem?_cons_succ] at hx ⊢
        exact ih h.2.2 k hx

theorem obsEq_times {a b : List (SimTime × List (Port × V))} (h : ObsEq a b) :
    a.map (·.1) = b.map (·.1) := by
  induction a generalizing b with
  | nil =>
    cases b with
    | nil => rfl
    | cons y b => simp [ObsEq] at h
  | cons x a ih =>
    cases b with
    | nil => simp [ObsEq] at h
    | cons y b =>
      obtain ⟨t1, i1⟩ := x
      obtain ⟨t2, i2⟩ := y
      simp only [ObsEq] at h
      simp [h.1, ih h.2.2]

/-- membership, up to the inputs as a mapping -/
theorem obsEq_mem {a b : List (SimTime × List (Port × V))} (h : ObsEq a b)
    {x : SimTime × List (Port × V)} (hx : x ∈ a) : ∃ y ∈ b, x.1 = y.1 ∧ MapEq x.2 y.2 := by
  obtain ⟨k, hk⟩ := List.getElem?_of_mem hx
  obtain ⟨y, hy, h1, h2⟩ := obsEq_getElem? h k hk
  exact ⟨y, List.mem_of_getElem? hy, h1, h2⟩

/-- a one-element sequence -/
theorem obsEq_singleton {a : List (SimTime × List (Port × V))} {t : SimTime} {i : List (Port × V)}
    (h : ObsEq a [(t, i)]) : ∃ i', a = [(t, i')] ∧ MapEq i' i := by
  cases a with
  | nil => simp [ObsEq] at h
  | cons x a =>
    obtain ⟨t1, i1⟩ := x
    cases a with
    | nil =>
      simp only [ObsEq] at h
      exact ⟨i1, by rw [h.1], h.2.1⟩
    | cons y a =>
      obtain ⟨t2, i2⟩ := y
      simp [ObsEq] at h

/-! ### the observation log and the per-device sequences -/

theorem SimSt.obsOf_length (st : SimSt) (c : Comp) : (st.obsOf c).length = st.updates c := by
  unfold SimSt.obsOf SimSt.updates
  simp

theorem SimSt.mem_obsOf {st : SimSt} {c : Comp} {x : SimTime × List (Port × V)} :
    x ∈ st.obsOf c ↔ ∃ o ∈ st.obs, o.comp = c ∧ (o.time, o.inputs) = x := by
  unfold SimSt.obsOf
  simp only [List.mem_map, List.mem_filter, beq_iff_eq]
  constructor
  · rintro ⟨o, ⟨h1, h2⟩, h3⟩
    exact ⟨o, h1, h2, h3⟩
  · rintro ⟨o, h1, h2, h3⟩
    exact ⟨o, ⟨h1, h2⟩, h3⟩

theorem SimSt.obsOf_getElem? (st : SimSt) (c : Comp) (k : Nat) :
    (st.obsOf c)[k]? = ((st.obs.filter (fun o => o.comp == c))[k]?).map (fun o => (o.time, o.inputs)) := by
  unfold SimSt.obsOf
  rw [List.getElem?_map]

/-- an observation of one state has a counterpart (same device, same time, same inputs as a
mapping) in every equivalent state -/
theorem SimSt.Equiv.obs_mem {a b : SimSt} (h : a.Equiv b) {o : Obs} (ho : o ∈ a.obs) :
    ∃ o' ∈ b.obs, o'.comp = o.comp ∧ o'.time = o.time ∧ MapEq o.inputs o'.inputs := by
  have hm : (o.time, o.inputs) ∈ a.obsOf o.comp := SimSt.mem_obsOf.2 ⟨o, ho, rfl, rfl⟩
  obtain ⟨y, hy, h1, h2⟩ := obsEq_mem (h o.comp).ob hm
  obtain ⟨o', ho', hc, he⟩ := SimSt.mem_obsOf.1 hy
  subst he
  exact ⟨o', ho', hc, h1.symm, h2⟩

theorem SimSt.Equiv.updates_eq {a b : SimSt} (h : a.Equiv b) (c : Comp) : a.updates c = b.updates c := by
  rw [← SimSt.obsOf_length, ← SimSt.obsOf_length]
  exact obsEq_length (h c).ob

theorem SimSt.Equiv.wakeWF_left {a b : SimSt} (h : a.Equiv b) : a.WakeWF := fun s => (h s).sch.ua

theorem SimSt.Equiv.wakeWF_right {a b : SimSt} (h : a.Equiv b) : b.WakeWF := fun s => (h s).sch.ub

/-! ### `SimSt.Good` and `RunNoPast` -/

theorem SimSt.Good.wakeWF {st : SimSt} (h : st.Good) : st.WakeWF := h.wakeU

/-- the bookkeeping invariant is a property of the equivalence class -/
theorem SimSt.Good.of_equiv {a b : SimSt} (h : a.Equiv b) (hg : b.Good) : a.Good where
  count := by
    intro c
    have h1 : agetD a.count c 0 = agetD b.count c 0 := (h c).cnt
    have h2 := h.updates_eq c
    unfold SimSt.updates at h2
    rw [h1, hg.count c, h2]
  wakeU := h.wakeWF_left

/-- "no device asks to be called back in the past" is a property of the equivalence class: it
mentions only the times of the per-device observation sequences -/
theorem RunNoPast.of_equiv {orc : Oracle} {a b : SimSt} (h : a.Equiv b) (hnp : RunNoPast orc a) :
    RunNoPast orc b := by
  intro c k w hr o ho
  have hb : (b.obsOf c)[k]? = some (o.time, o.inputs) := by
    rw [SimSt.obsOf_getElem?, ho]; rfl
  have hob : ObsEq (b.obsOf c) (a.obsOf c) := obsEq_symm (h c).ob
  obtain ⟨y, hy, h1, _⟩ := obsEq_getElem? hob k hb
  rw [SimSt.obsOf_getElem?] at hy
  cases ho' : (a.obs.filter (fun o => o.comp == c))[k]? with
  | none => rw [ho'] at hy; cases hy
  | some o' =>
    rw [ho'] at hy
    simp only [Option.map_some, Option.some.injEq] at hy
    have := hnp c k w hr o' ho'
    have ht : o'.time = y.1 := by rw [← hy]
    simp only at h1
    rw [h1, ← ht]
    exact this

/-- the empty state is well-formed -/
theorem SimSt.good_empty : ({} : SimSt).Good where
  count := by intro c; simp [agetD]
  wakeU := SimSt.wakeWF_empty


/-! ### wakeup entries -/

/-- equivalent scheduler states have the same wakeup entries -/
theorem SchedSt.Equiv.mem_wake {a b : SchedSt} (h : a.Equiv b) (e : Comp × SimTime) :
    e ∈ a.wake ↔ e ∈ b.wake := by
  rw [← alookup_eq_some_iff _ h.ua e.1 e.2, ← alookup_eq_some_iff _ h.ub e.1 e.2, h.wake e.1]

theorem SimSt.Equiv.sched {a b : SimSt} (h : a.Equiv b) (l : Comp) : (a.sched l).Equiv (b.sched l) :=
  (h l).sch

theorem sysPre_eq_nestedPrep (st : SimSt) (c : Comp) (t : SimTime) : sysPre st c t = nestedPrep st c t :=
  rfl

/-- the new observation of a device update is the `k`-th of that device, `k` its update count -/
theorem devAfter_obs_getElem? {st : SimSt} (hg : st.Good) (c : Comp) (t : SimTime)
    (ins : List (Port × V)) (resp : DevResp) :
    ((devAfter st c t ins resp).1.obs.filter (fun o => o.comp == c))[agetD st.count c 0]? =
      some ⟨c, t, (agetD st.devs c {}).merge ins⟩ := by
  have hobs : (devAfter st c t ins resp).1.obs = st.obs ++ [⟨c, t, (agetD st.devs c {}).merge ins⟩] := rfl
  rw [hobs, List.filter_append, hg.count c]
  simp

/-! ### tick lists -/

theorem TicksEquiv.length_eq {l l' : List TickRec} (h : TicksEquiv l l') : l.length = l'.length := by
  have := congrArg List.length h.times.1
  simpa using this

theorem TicksEquiv.symm {l l' : List TickRec} (h : TicksEquiv l l') : TicksEquiv l' l := by
  induction h with
  | nil => exact .nil
  | cons h _ ih => exact .cons ⟨h.1.symm, h.2.1.symm, fun c => (h.2.2 c).symm⟩ ih

theorem MasterSt.Equiv.symm {a b : MasterSt} (h : a.Equiv b) : b.Equiv a :=
  ⟨h.sim.symm, h.tickerTime.symm, h.lastReal.symm, h.now.symm⟩

theorem MasterSt.Equiv.trans {a b c : MasterSt} (h : a.Equiv b) (h' : b.Equiv c) : a.Equiv c :=
  ⟨h.sim.trans h'.sim, h.tickerTime.trans h'.tickerTime, h.lastReal.trans h'.lastReal,
    h.now.trans h'.now⟩

/-- a run of zero steps -/
theorem masterRun_zero_steps (S : Static) (orc : Oracle) (fuel : Nat) (s : Speed) (nTicks : Nat)
    (m : MasterSt) (stims : List Stim) (acc : List TickRec) :
    masterRun S orc fuel s 0 nTicks m stims acc = .ok (m, acc) := by
  rw [masterRun]

end Tickit
