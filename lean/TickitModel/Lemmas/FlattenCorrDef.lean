/-
Helper lemmas for C09, part 8a: the multi-tick correspondence `Corr` between the state of a
nested simulation and the state of its flattening (between ticks).
-/
import TickitModel.Lemmas.FlattenMain
import TickitModel.Lemmas.MiscLemmas

namespace Tickit

/-- the bookkeeping of the schedulers between ticks: every nested scheduler is past its initial
tick and has no queued interrupt; a system's pending callback at its parent is the minimum of
its inner wakeups; wakeups are kept per component, for components of the level only. -/
structure SchedOK (S : Static) (σ : SimSt) : Prop where
  started : ∀ s, S.isSys s = true → (σ.sched s).firstDone = true ∧ (σ.sched s).interrupts = []
  wake_sys : ∀ s P, S.isSys s = true → alookup S.parent s = some P →
    alookup (σ.sched P).wake s = (firstWakeups (σ.sched s).wake).2
  wake_keys : ∀ L c, c ∈ akeys (σ.sched L).wake → alookup S.parent c = some L
  wake_unique : ∀ L, UniqueKeys (σ.sched L).wake

/-- `SchedOK` of a flattening does not depend on the resolution fuel -/
theorem SchedOK.flatten_fuel {S : Static} {σ : SimSt} {n : Nat} (h : SchedOK (S.flatten n) σ) (m : Nat) :
    SchedOK (S.flatten m) σ :=
  ⟨h.started, h.wake_sys, h.wake_keys, h.wake_unique⟩

/-- the nested state `st` and the flat state `st'` correspond: same device states, same update
counts, same observations, same pending callbacks — a callback requested inside a system is
represented upwards, level by level, by the minimum of the inner wakeups. -/
structure Corr (S : Static) (st st' : SimSt) : Prop where
  devs : ∀ d, S.isDevice d →
    (agetD st.devs d {}).lastOutputs = (agetD st'.devs d {}).lastOutputs ∧
    MapEq (agetD st.devs d {}).deviceInputs (agetD st'.devs d {}).deviceInputs
  count : ∀ d, S.isDevice d → agetD st.count d 0 = agetD st'.count d 0
  obs : ∀ d, ObsEq (st.obsOf d) (st'.obsOf d)
  /-- every nested scheduler is past its initial tick and has no queued interrupt -/
  started : ∀ s, S.isSys s = true → (st.sched s).firstDone = true ∧ (st.sched s).interrupts = []
  /-- a device's pending callback: in its own scheduler / in the flat master -/
  wake_dev : ∀ d P, S.isDevice d → alookup S.parent d = some P →
    alookup (st'.sched "").wake d = alookup (st.sched P).wake d
  /-- a system's pending callback at its parent is the minimum of its inner wakeups -/
  wake_sys : ∀ s P, S.isSys s = true → alookup S.parent s = some P →
    alookup (st.sched P).wake s = (firstWakeups (st.sched s).wake).2
  wake_keys : ∀ L c, c ∈ akeys (st.sched L).wake → alookup S.parent c = some L
  wake_unique : ∀ L, UniqueKeys (st.sched L).wake
  /-- the flat master keeps wakeups for devices only -/
  flat_sched : SchedOK (S.flatten 0) st'

theorem Corr.schedOK {S : Static} {st st' : SimSt} (hc : Corr S st st') : SchedOK S st :=
  ⟨hc.started, hc.wake_sys, hc.wake_keys, hc.wake_unique⟩

theorem Corr.wake_unique' {S : Static} {st st' : SimSt} (hc : Corr S st st') :
    UniqueKeys (st'.sched "").wake := hc.flat_sched.wake_unique ""

theorem Corr.wake_keys' {S : Static} {st st' : SimSt} (hc : Corr S st st') (c : Comp)
    (h : c ∈ akeys (st'.sched "").wake) : S.isDevice c := by
  have := hc.flat_sched.wake_keys "" c h
  unfold Static.flatten at this
  rw [flt_alookup_map_mk S.devices (fun _ => "") c] at this
  by_cases hcd : c ∈ S.devices
  · exact Static.mem_devices_iff.1 hcd
  · simp [hcd] at this

/-- the device part of `Corr` (all that the comparison of two ticks needs) -/
structure DevCorr (S : Static) (st st' : SimSt) : Prop where
  devs : ∀ d, S.isDevice d →
    (agetD st.devs d {}).lastOutputs = (agetD st'.devs d {}).lastOutputs ∧
    MapEq (agetD st.devs d {}).deviceInputs (agetD st'.devs d {}).deviceInputs
  count : ∀ d, S.isDevice d → agetD st.count d 0 = agetD st'.count d 0
  obs : ∀ d, ObsEq (st.obsOf d) (st'.obsOf d)
  wake_dev : ∀ d P, S.isDevice d → alookup S.parent d = some P →
    alookup (st'.sched "").wake d = alookup (st.sched P).wake d

theorem Corr.devCorr {S : Static} {st st' : SimSt} (hc : Corr S st st') : DevCorr S st st' :=
  ⟨hc.devs, hc.count, hc.obs, hc.wake_dev⟩

theorem DevCorr.empty (S : Static) : DevCorr S {} {} :=
  ⟨fun _ _ => ⟨rfl, fun _ => rfl⟩, fun _ _ => rfl, fun _ => trivial, fun _ _ _ _ => rfl⟩

/-- the master serves (removes) the wakeups of `cs` before the tick -/
def SimSt.delWake (st : SimSt) (cs : List Comp) : SimSt :=
  let sc := st.sched ""
  { st with scheds := upsert st.scheds "" { sc with wake := delWakeups sc.wake cs } }

/-- the state of the master scheduler apart from the simulation state -/
def MasterSt.SameClock (m m' : MasterSt) : Prop :=
  m.tickerTime = m'.tickerTime ∧ m.lastReal = m'.lastReal ∧ m.now = m'.now


end Tickit
