/-
Helper lemmas for C09, part 25 (external stimuli): the whole run with stimuli.
-/
import TickitModel.Lemmas.FlattenStimCorr

namespace Tickit

/-- which stimulus, if any, is handled before the next tick -/
def stimFirst (m : MasterSt) (s : Speed) (whenT : Option SimTime) :
    List Stim → Option (Stim × List Stim)
  | [] => none
  | st :: rest => match whenT.map (dueReal m s) with
    | none => some (st, rest)
    | some d => if st.real ≤ d then some (st, rest) else none

def MasterSt.stimNow (m : MasterSt) (st : Stim) : Int := if st.real < m.now then m.now else st.real

def MasterSt.stimStamp (m : MasterSt) (s : Speed) (st : Stim) : SimTime :=
  interruptStamp m.tickerTime (m.stimNow st) m.lastReal s

/-- the time the master records for an interrupt of top-level component `top` stamped `stamp`:
the stamp, unless `top` already has an earlier wakeup (`masterRun`, stimulus branch) -/
def SimSt.stimWhen (st : SimSt) (top : Comp) (stamp : SimTime) : SimTime :=
  match alookup (st.sched "").wake top with
  | some w => if w < stamp then w else stamp
  | none => stamp

/-- when no wakeup of `top` is earlier than the stamp, the stamp is recorded -/
theorem SimSt.stimWhen_eq_stamp_of_timely (st : SimSt) (top : Comp) (stamp : SimTime)
    (h : ∀ w, alookup (st.sched "").wake top = some w → stamp ≤ w) :
    st.stimWhen top stamp = stamp := by
  unfold SimSt.stimWhen
  split
  · rename_i w hw
    have := h w hw
    simp only [SimTime] at *
    split <;> omega
  · rfl

/-- the master after handling stimulus `st` -/
def MasterSt.afterStim (S : Static) (fuel : Nat) (s : Speed) (m : MasterSt) (st : Stim) : MasterSt :=
  { m with
    sim := (raiseInterrupt S fuel st.comp m.sim).1.addMasterWake
      (raiseInterrupt S fuel st.comp m.sim).2
      ((raiseInterrupt S fuel st.comp m.sim).1.stimWhen (raiseInterrupt S fuel st.comp m.sim).2
        (m.stimStamp s st))
    now := m.stimNow st }

theorem masterRun_unfold (S : Static) (orc : Oracle) (fuel : Nat) (s : Speed) (steps nTicks : Nat)
    (m : MasterSt) (stims : List Stim) (acc : List TickRec) :
    masterRun S orc fuel s (steps + 1) (nTicks + 1) m stims acc =
      match stimFirst m s (firstWakeups (m.sim.sched "").wake).2 stims with
      | some (st, rest) =>
        masterRun S orc fuel s steps (nTicks + 1) (m.afterStim S fuel s st) rest acc
      | none =>
        match firstWakeups (m.sim.sched "").wake with
        | (comps, some w) =>
          match tickLevel S orc fuel "" w comps [] (m.sim.delWake comps) with
          | .error e => .error e
          | .ok (sim2, _) =>
            masterRun S orc fuel s steps nTicks
              { sim := sim2, tickerTime := w, lastReal := dueReal m s w, now := dueReal m s w } stims
              (acc ++ [⟨w, dueReal m s w, comps⟩])
        | (_, none) => .ok (m, acc) := by
  rw [masterRun]
  cases hfw : firstWakeups (m.sim.sched "").wake with
  | mk comps whenT =>
    cases stims with
    | nil =>
      cases whenT with
      | none => simp [stimFirst]
      | some w => simp only [stimFirst, Option.map_some]; rfl
    | cons st rest =>
      cases whenT with
      | none => simp only [stimFirst, Option.map_none]; rfl
      | some w =>
        simp only [stimFirst, Option.map_some]
        by_cases hle : st.real ≤ dueReal m s w
        · simp only [hle, if_true]; rfl
        · simp only [hle, if_false]; rfl

theorem stimsTimely_unfold (S : Static) (orc : Oracle) (fuel : Nat) (s : Speed) (steps nTicks : Nat)
    (pending : Bool) (m : MasterSt) (stims : List Stim) :
    stimsTimely S orc fuel s (steps + 1) (nTicks + 1) pending m stims =
      match stimFirst m s (firstWakeups (m.sim.sched "").wake).2 stims with
      | some (st, rest) =>
        (match (firstWakeups (m.sim.sched "").wake).2 with
          | none => true
          | some w => if pending then decide (m.stimStamp s st = w) else decide (m.stimStamp s st ≤ w)) &&
        stimsTimely S orc fuel s steps (nTicks + 1) true (m.afterStim S fuel s st) rest
      | none =>
        match firstWakeups (m.sim.sched "").wake with
        | (comps, some w) =>
          match tickLevel S orc fuel "" w comps [] (m.sim.delWake comps) with
          | .error _ => true
          | .ok (sim2, _) =>
            stimsTimely S orc fuel s steps nTicks false
              { sim := sim2, tickerTime := w, lastReal := dueReal m s w, now := dueReal m s w } stims
        | (_, none) => true := by
  rw [stimsTimely]
  cases hfw : firstWakeups (m.sim.sched "").wake with
  | mk comps whenT =>
    cases stims with
    | nil =>
      cases whenT with
      | none => simp [stimFirst]
      | some w => simp only [stimFirst, Option.map_some]; rfl
    | cons st rest =>
      cases whenT with
      | none => simp only [stimFirst, Option.map_none]; rfl
      | some w =>
        simp only [stimFirst, Option.map_some]
        by_cases hle : st.real ≤ dueReal m s w
        · simp only [hle, if_true]; rfl
        · simp only [hle, if_false]; rfl

theorem stimFirst_congr {m m' : MasterSt} (h : m.SameClock m') (s : Speed) (whenT : Option SimTime)
    (stims : List Stim) : stimFirst m s whenT stims = stimFirst m' s whenT stims := by
  cases stims with
  | nil => rfl
  | cons st rest =>
    cases whenT with
    | none => rfl
    | some w => simp only [stimFirst, Option.map_some, dueReal_congr h]

theorem stimFirst_mem {m : MasterSt} {s : Speed} {whenT : Option SimTime} {stims : List Stim}
    {st : Stim} {rest : List Stim} (h : stimFirst m s whenT stims = some (st, rest)) :
    stims = st :: rest := by
  cases stims with
  | nil => simp [stimFirst] at h
  | cons st0 rest0 =>
    simp only [stimFirst] at h
    split at h
    · cases h; rfl
    · split at h
      · cases h; rfl
      · cases h

/-- **the whole run with stimuli** -/
theorem masterRun_corrP {S : Static} (hS : S.Valid) {orc : Oracle} {n : Nat} (hst : S.ResolveStable n)
    (hrank : S.FlatRank n) {fuel : Nat}
    (hup : ∀ d, S.isDevice d → ∃ k, S.Up "" d k ∧ k ≤ fuel) (sp : Speed) :
    ∀ (steps nTicks : Nat) (pending : Bool) (m m' : MasterSt) (stims : List Stim)
      (acc acc' : List TickRec) (I : List Comp) (τ : SimTime),
      CorrP S orc I τ m.sim m'.sim → (pending = false → I = []) → m.SameClock m' →
      acc.map (·.time) = acc'.map (·.time) → acc.map (·.real) = acc'.map (·.real) →
      (∀ st ∈ stims, S.isDevice st.comp) → orc.InterruptSafe stims →
      (∀ x ∈ I, orc.Quiet x ∨ orc.Periodic x) →
      stimsTimely S orc fuel sp steps nTicks pending m stims = true →
      ∀ m2 ticks, masterRun S orc fuel sp steps nTicks m stims acc = .ok (m2, ticks) →
        ∃ m2' ticks', masterRun (S.flatten n) orc 1 sp steps nTicks m' stims acc' = .ok (m2', ticks') ∧
          ticks.map (·.time) = ticks'.map (·.time) ∧ ticks.map (·.real) = ticks'.map (·.real) ∧
          ∀ d, ObsEq (m2.sim.obsOf d) (m2'.sim.obsOf d) := by
  intro steps
  induction steps with
  | zero =>
    intro nTicks pending m m' stims acc acc' I τ hc _ _ ht hr _ _ _ _ m2 ticks h
    rw [masterRun] at h
    simp only [Except.ok.injEq, Prod.mk.injEq] at h
    obtain ⟨rfl, rfl⟩ := h
    exact ⟨m', acc', by rw [masterRun], ht, hr, hc.obs⟩
  | succ steps ih =>
    intro nTicks pending m m' stims acc acc' I τ hc hpend hclk ht hr hdevs hsafe hsafeI htim m2 ticks h
    cases nTicks with
    | zero =>
      rw [masterRun.eq_2 _ _ _ _ _ _ _ _ (by simp)] at h
      simp only [Except.ok.injEq, Prod.mk.injEq] at h
      obtain ⟨rfl, rfl⟩ := h
      exact ⟨m', acc', by rw [masterRun.eq_2 _ _ _ _ _ _ _ _ (by simp)], ht, hr, hc.obs⟩
    | succ nTicks =>
      rw [masterRun_unfold] at h ⊢
      rw [stimsTimely_unfold] at htim
      have hmin := hc.firstWakeups_eq hS
      rw [← stimFirst_congr hclk, ← hmin]
      cases hsf : stimFirst m sp (firstWakeups (m.sim.sched "").wake).2 stims with
      | some p =>
        obtain ⟨st, rest⟩ := p
        rw [hsf] at h htim
        simp only [] at h htim ⊢
        have hstims := stimFirst_mem hsf
        subst hstims
        have hxd : S.isDevice st.comp := hdevs st (by simp)
        obtain ⟨k, hk1, hk2⟩ := hup st.comp hxd
        simp only [Bool.and_eq_true] at htim
        obtain ⟨htim1, htim2⟩ := htim
        -- the stamp
        have hstamp : m'.stimStamp sp st = m.stimStamp sp st := by
          obtain ⟨h1, h2, h3⟩ := hclk
          simp [MasterSt.stimStamp, MasterSt.stimNow, h1, h2, h3]
        have hnow : m'.stimNow st = m.stimNow st := by
          obtain ⟨_, _, h3⟩ := hclk
          simp [MasterSt.stimNow, h3]
        have hI : I ≠ [] → m.stimStamp sp st = τ := by
          intro hIne
          have hp : pending = true := by
            cases pending with
            | true => rfl
            | false => exact absurd (hpend rfl) hIne
          cases hfw : firstWakeups (m.sim.sched "").wake with
          | mk comps whenT =>
            rw [hfw] at htim1
            cases whenT with
            | none =>
              obtain ⟨x, hx⟩ := List.exists_mem_of_ne_nil I hIne
              obtain ⟨c, hcp, hown⟩ := (Static.below_master hS.toWF (hc.int_dev x hx).1).top
              have := hc.wake_top c hcp ⟨x, hx, hown⟩
              have hnil : (m.sim.sched "").wake = [] := by
                have := congrArg Prod.snd hfw
                simpa [firstWakeups_none] using this
              rw [hnil] at this
              simp at this
            | some w =>
              simp only [hp, if_true, decide_eq_true_eq] at htim1
              rw [htim1]
              exact hc.tick_time hS hfw hIne
        have hminw : ∀ c w, alookup (m.sim.sched "").wake c = some w → m.stimStamp sp st ≤ w := by
          intro c w hw
          cases hfw : firstWakeups (m.sim.sched "").wake with
          | mk comps whenT =>
            rw [hfw] at htim1
            cases whenT with
            | none =>
              have hnil : (m.sim.sched "").wake = [] := by
                have := congrArg Prod.snd hfw
                simpa [firstWakeups_none] using this
              rw [hnil] at hw
              simp at hw
            | some w0 =>
              obtain ⟨_, hle, _, _⟩ := firstWakeups_spec _ (hc.wake_unique "") comps w0 hfw
              have h0 : m.stimStamp sp st ≤ w0 := by
                cases pending with
                | true =>
                  simp only [if_true, decide_eq_true_eq] at htim1
                  rw [htim1]; exact Int.le_refl _
                | false =>
                  simpa using htim1
              exact Int.le_trans h0 (hle c w hw)
        have hc2 := corrP_stim hS hc hxd hk1 hk2 hI hminw n
        -- a timely stamp is not later than any wakeup of the interrupted component, on either side:
        -- the time recorded (`stimWhen`, the earlier of the two) is the stamp itself
        have hwhen : (raiseInterrupt S fuel st.comp m.sim).1.stimWhen
            (raiseInterrupt S fuel st.comp m.sim).2 (m.stimStamp sp st) = m.stimStamp sp st := by
          apply SimSt.stimWhen_eq_stamp_of_timely
          intro w hw
          obtain ⟨_, _, _, _, _, hwk, _⟩ := raise_spec hS fuel st.comp m.sim k hk1 hk2
          rw [(hwk "").1] at hw
          exact hminw _ w hw
        have hwhen' : (raiseInterrupt (S.flatten n) 1 st.comp m'.sim).1.stimWhen
            (raiseInterrupt (S.flatten n) 1 st.comp m'.sim).2 (m.stimStamp sp st) =
              m.stimStamp sp st := by
          rw [raiseInterrupt_flat S n hxd]
          apply SimSt.stimWhen_eq_stamp_of_timely
          intro w hw
          simp only [] at hw
          by_cases hxI : st.comp ∈ I
          · rw [hc.wake_int _ hxI] at hw
            cases hw
            rw [hI (List.ne_nil_of_mem hxI)]
            exact Int.le_refl _
          · obtain ⟨P, hP⟩ := Option.isSome_iff_exists.1 hxd.1
            rw [hc.wake_dev _ P hxd hxI hP] at hw
            have hb : S.Below "" st.comp := Static.below_master hS.toWF hxd.1
            obtain ⟨a, w', ha, hle⟩ := hc.dominated hS hb P w hP hw
            exact Int.le_trans (hminw a w' ha) hle
        have hm' : m'.afterStim (S.flatten n) 1 sp st =
            { m' with
              sim := (raiseInterrupt (S.flatten n) 1 st.comp m'.sim).1.addMasterWake
                (raiseInterrupt (S.flatten n) 1 st.comp m'.sim).2 (m.stimStamp sp st)
              now := m.stimNow st } := by
          simp only [MasterSt.afterStim, hstamp, hnow, hwhen']
        have hm : m.afterStim S fuel sp st =
            { m with
              sim := (raiseInterrupt S fuel st.comp m.sim).1.addMasterWake
                (raiseInterrupt S fuel st.comp m.sim).2 (m.stimStamp sp st)
              now := m.stimNow st } := by
          simp only [MasterSt.afterStim, hwhen]
        refine ih (nTicks + 1) true (m.afterStim S fuel sp st) (m'.afterStim (S.flatten n) 1 sp st)
          rest acc acc' (st.comp :: I) (m.stimStamp sp st) ?_ (fun h' => by cases h') ?_ ht hr
          (fun s hs => hdevs s (List.mem_cons_of_mem _ hs))
          (fun s hs => hsafe s (List.mem_cons_of_mem _ hs)) ?_ htim2 m2 ticks h
        · rw [hm', hm]
          exact hc2
        · rw [hm']
          exact ⟨hclk.1, hclk.2.1, rfl⟩
        · intro x hx
          rcases List.mem_cons.1 hx with rfl | hx
          · exact hsafe st (by simp)
          · exact hsafeI x hx
      | none =>
        rw [hsf] at h htim
        simp only [] at h htim ⊢
        cases hfw : firstWakeups (m.sim.sched "").wake with
        | mk comps whenT =>
          cases hfw' : firstWakeups (m'.sim.sched "").wake with
          | mk comps' whenT' =>
            rw [hfw, hfw'] at hmin
            simp only [] at hmin
            subst hmin
            rw [hfw] at h htim
            cases whenT with
            | none =>
              simp only [Except.ok.injEq, Prod.mk.injEq] at h
              obtain ⟨rfl, rfl⟩ := h
              exact ⟨m', acc', rfl, ht, hr, hc.obs⟩
            | some w =>
              simp only [] at h htim ⊢
              split at h
              · cases h
              · rename_i sim2 out htick
                rw [htick] at htim
                simp only [] at htim
                obtain ⟨sim2', out', htick', hc2⟩ := corr_tickP hS hst hrank hc hsafeI hfw hfw' htick
                rw [htick']
                simp only []
                rw [← dueReal_congr hclk sp w]
                refine ih nTicks false
                  { sim := sim2, tickerTime := w, lastReal := dueReal m sp w, now := dueReal m sp w }
                  { sim := sim2', tickerTime := w, lastReal := dueReal m sp w, now := dueReal m sp w }
                  stims _ _ [] τ hc2 (fun _ => rfl) ⟨rfl, rfl, rfl⟩ ?_ ?_ hdevs hsafe (by simp) htim
                  m2 ticks h
                · simp [ht]
                · simp [hr]

/-- **after the initial tick** the correspondence holds, with no interrupt pending -/
theorem corrP_initial {S : Static} (hS : S.Valid) {orc : Oracle} {n : Nat} (hst : S.ResolveStable n)
    (hrank : S.FlatRank n) {fuel fuel' : Nat} {t0 : SimTime} {now : Int} {m m' : MasterSt}
    {tr tr' : TickRec} (h : masterInitial S orc fuel t0 now = .ok (m, tr))
    (h' : masterInitial (S.flatten n) orc fuel' t0 now = .ok (m', tr')) :
    CorrP S orc [] t0 m.sim m'.sim := by
  have hS' : (S.flatten n).Valid := hS.flatten hrank
  obtain ⟨L, out, hL, ht⟩ := masterInitial_tick h
  obtain ⟨L', out', hL', ht'⟩ := masterInitial_tick h'
  obtain ⟨new, E, hsch⟩ := tick_eqs_initial hS hst hL ht
  obtain ⟨new', E', hsch'⟩ := tick_eqs_initial hS' (S.flatten_resolveStable n) hL' ht'
  have hcorr := corr_of_tickEqs hS hrank hS' (DevCorr.empty S) (fun _ _ => Iff.rfl) E E' hsch hsch'
  refine hcorr.toCorrP t0 ?_
  intro d P hd hq hP
  have hm : d ∈ new.map Obs.comp := (E.upd_iff d hd).2 (Or.inl trivial)
  obtain ⟨o, ho, rfl⟩ := List.mem_map.1 hm
  obtain ⟨_, r, _, _, _, hr, _, _, _, hwk⟩ := E.upd o ho
  exact (hwk P hP).2.1 (hq r (stepResp_mem hr)) trivial

end Tickit
