/-
Liveness of the multi-tick message-level model: inside a tick every action of the single-tick
bus model is mirrored by the run-level model, so every tick in progress can be completed
(`msg_tick_can_complete` lifted), whatever the start pattern of the components.
-/
import TickitModel.Lemmas.MsgRunMain

set_option autoImplicit false

namespace Tickit

open Tickit.Det

set_option linter.unusedSectionVars false

variable {Val : Type} [DecidableEq Val]

/-- inside a tick, a step of the single-tick bus model (reactions of the pre-tick state) is a
step of the run-level model with the same effect on the bus. -/
theorem TickTrack.mirror {w : Wiring} {devs : DevSeq Val} {t0 : SimTime} {n : Nat} {t : SimTime}
    {roots : List Comp} {F : FlatSt Val} {b0 : MsgSt Val} (hb0 : b0.Idle) {M : MsgRunSt Val}
    (hticks : M.ticks = n + 1) (h : TickTrack w (devs n) t roots F b0 M) {a : MsgAct} {b : MsgSt Val}
    (hstep : M.bus.step w (rxOf F.comps (devs n)) t roots a = some (.ok b)) :
    ∃ M', M.step w devs t0 (.bus a) = some (.ok M') ∧ M'.bus = b ∧ M'.ticks = n + 1 ∧
      TickTrack w (devs n) t roots F b0 M' := by
  have hdevn : devs (M.ticks - 1) = devs n := by rw [hticks]; rfl
  cases a with
  | startSched =>
    obtain ⟨htk, _⟩ := MsgSt.step_startSched_ok hstep
    exact absurd htk h.begun
  | startComp c =>
    have hb : M.bus.step w (rxOf M.comps (devs n)) M.tickTime M.tickRoots (.startComp c) =
        some (.ok b) := by
      rw [h.time, h.roots, MsgSt.step_rx_irrel _ (rxOf F.comps (devs n)) _ (by simp)]; exact hstep
    refine ⟨{ M with bus := b }, ?_, rfl, hticks, h.step_other (by simp) hb⟩
    simp only [MsgRunSt.step, hdevn, hb, Option.map_some, Except.map]
  | deliverOut c =>
    have hb : M.bus.step w (rxOf M.comps (devs n)) M.tickTime M.tickRoots (.deliverOut c) =
        some (.ok b) := by
      rw [h.time, h.roots, MsgSt.step_rx_irrel _ (rxOf F.comps (devs n)) _ (by simp)]; exact hstep
    refine ⟨{ M with bus := b }, ?_, rfl, hticks, h.step_other (by simp) hb⟩
    simp only [MsgRunSt.step, hdevn, hb, Option.map_some, Except.map]
  | deliverIn c =>
    obtain ⟨hc, μ, hμ⟩ := MsgSt.step_deliverIn_enabled hstep
    have hnone := h.reach.no_react_before_input hb0 hμ
    have hpre : M.flat.comp c = F.comp c := by
      have := h.comp c
      rw [hnone] at this
      exact (Prod.ext_iff.1 this).1
    have hrx : rxOf M.comps (devs n) c = rxOf F.comps (devs n) c := rxOf_congr _ hpre
    have hb : M.bus.step w (rxOf M.comps (devs n)) M.tickTime M.tickRoots (.deliverIn c) =
        some (.ok b) := by
      rw [h.time, h.roots, MsgSt.step_deliverIn_congr _ hrx]; exact hstep
    refine ⟨M.handle (devs n) c b (M.bus.next (.inT c)), ?_, ?_, ?_, h.step_deliverIn hb0 hb⟩
    · simp only [MsgRunSt.step, hdevn, hb, Option.map_some, Except.map]
    · cases hμ' : M.bus.next (.inT c) with
      | none => rfl
      | some μ' => cases μ' with
        | output _ _ _ _ => rfl
        | disp d => cases d <;> rfl
    · cases hμ' : M.bus.next (.inT c) with
      | none => exact hticks
      | some μ' => cases μ' with
        | output _ _ _ _ => exact hticks
        | disp d => cases d <;> exact hticks

theorem MsgRunSt.run_cons_ok {w : Wiring} {devs : DevSeq Val} {t0 : SimTime}
    {M M1 : MsgRunSt Val} {a : MsgRunAct} (h : M.step w devs t0 a = some (.ok M1))
    (as : List MsgRunAct) :
    MsgRunSt.run w devs t0 M (a :: as) = MsgRunSt.run w devs t0 M1 as := by
  simp [MsgRunSt.run, h]

theorem MsgRunSt.Reach.run {w : Wiring} {devs : DevSeq Val} {t0 : SimTime}
    {M M' : MsgRunSt Val} (h : MsgRunSt.Reach w devs t0 M) {acts : List MsgRunAct}
    (hr : MsgRunSt.run w devs t0 M acts = some M') : MsgRunSt.Reach w devs t0 M' := by
  induction acts generalizing M with
  | nil => simp [MsgRunSt.run] at hr; exact hr ▸ h
  | cons a as ih =>
    simp only [MsgRunSt.run] at hr
    cases hstep : M.step w devs t0 a with
    | none => simp [hstep] at hr
    | some r =>
      cases r with
      | error e => simp [hstep] at hr
      | ok M1 =>
        simp only [hstep] at hr
        exact ih (h.step hstep) hr

/-- a run of the single-tick bus model inside a tick is mirrored by the run-level model. -/
theorem TickTrack.mirror_run {w : Wiring} {devs : DevSeq Val} {t0 : SimTime} {n : Nat} {t : SimTime}
    {roots : List Comp} {F : FlatSt Val} {b0 : MsgSt Val} (hb0 : b0.Idle) (acts : List MsgAct) :
    ∀ {M : MsgRunSt Val} {b : MsgSt Val}, M.ticks = n + 1 → TickTrack w (devs n) t roots F b0 M →
      MsgSt.run w (rxOf F.comps (devs n)) t roots M.bus acts = some b →
      ∃ M', MsgRunSt.run w devs t0 M (acts.map .bus) = some M' ∧ M'.bus = b := by
  induction acts with
  | nil =>
    intro M b _ _ hr
    simp at hr
    exact ⟨M, rfl, hr⟩
  | cons a as ih =>
    intro M b hticks htr hr
    simp only [MsgSt.run] at hr
    cases hstep : M.bus.step w (rxOf F.comps (devs n)) t roots a with
    | none => simp [hstep] at hr
    | some r =>
      cases r with
      | error e => simp [hstep] at hr
      | ok b1 =>
        simp only [hstep] at hr
        obtain ⟨M1, hM1, hb1, hticks1, htr1⟩ := htr.mirror (t0 := t0) hb0 hticks hstep
        obtain ⟨M', hrun, hb⟩ := ih hticks1 htr1 (by rw [hb1]; exact hr)
        exact ⟨M', by rw [List.map_cons, MsgRunSt.run_cons_ok hM1]; exact hrun, hb⟩

/-- the roots of every tick are components of the wiring -/
theorem TickLink.roots_components {w : Wiring} {devs : DevSeq Val} {t0 : SimTime} {n : Nat}
    {F : FlatSt Val} {t : SimTime} {roots : List Comp} {times : List SimTime}
    (h : TickLink w devs t0 n F t roots times) : ∀ r ∈ roots, r ∈ w.components := by
  cases n with
  | zero => obtain ⟨_, _, rfl, _⟩ := h; exact fun _ h => h
  | succ n =>
    obtain ⟨st, ptimes, cs, hrun, hf, hroots, _, _⟩ := h
    intro r hr
    exact Callback.wake_keys_components hrun r (Sync.firstWakeups_sub hf r ((hroots r).1 hr))

/-- **every tick of the message-level run can be completed**, from every reachable state. -/
theorem MsgRunSt.Reach.can_complete_tick {w : Wiring} (hw : RouterOK w) (hacyc : w.Acyclic)
    {devs : DevSeq Val} (hdev : ∀ k, DevExt (devs k)) {t0 : SimTime} {M : MsgRunSt Val}
    (h : MsgRunSt.Reach w devs t0 M) :
    ∃ acts M', MsgRunSt.run w devs t0 M acts = some M' ∧ M'.bus.Complete := by
  -- inside a tick
  have inTick : ∀ {M : MsgRunSt Val}, MsgRunSt.Reach w devs t0 M → M.ticks ≠ 0 →
      ∃ acts M', MsgRunSt.run w devs t0 M acts = some M' ∧ M'.bus.Complete := by
    intro M h hne
    rcases h.inv hw hacyc hdev with ⟨S, rfl⟩ | ⟨n, F, t, roots, b0, hticks, hb0, _, _, htr, hlink⟩
    · exact absurd rfl hne
    · have hroots := Sync.hroots_of_components hlink.roots_components
      obtain ⟨acts, b, hrun, hc, _, _⟩ :=
        msg_tick_can_complete w hacyc _ t roots hroots b0 M.bus hb0 htr.reach
      obtain ⟨M', hM', hb⟩ := TickTrack.mirror_run (t0 := t0) hb0 acts hticks htr hrun
      exact ⟨acts.map .bus, M', hM', hb ▸ hc⟩
  by_cases hz : M.ticks = 0
  · -- the scheduler has not started: start it
    rcases h.inv hw hacyc hdev with ⟨S, rfl⟩ | ⟨n, _, _, _, _, hticks, _⟩
    · have hroots := Sync.hroots_of_components (w := w) (roots := w.components) (fun _ h => h)
      obtain ⟨s, hs⟩ := TickSys.init_ok_of (Val := Val) t0 hroots
      simp only [TickSys.init] at hs
      cases hcall : (Ticker.call w t0 w.components :
          Except TickErr (Ticker Val × List (Dispatch Val))) with
      | error e => simp [hcall, Except.map] at hs
      | ok r =>
        have hstep : ∃ M1, (MsgRunSt.initial S : MsgRunSt Val).step w devs t0 (.bus .startSched) =
            some (.ok M1) ∧ M1.ticks = 1 := by
          simp only [MsgRunSt.step, MsgSt.step, MsgRunSt.initial, hcall, Except.map, Option.map_some]
          exact ⟨_, rfl, rfl⟩
        obtain ⟨M1, hM1, ht1⟩ := hstep
        obtain ⟨acts, M', hrun, hc⟩ := inTick (h.step hM1) (by rw [ht1]; simp)
        exact ⟨.bus .startSched :: acts, M', by rw [MsgRunSt.run_cons_ok hM1]; exact hrun, hc⟩
    · rw [hticks] at hz; cases hz
  · exact inTick h hz

end Tickit
