/-
Association-map lemmas shared by the ticker/scheduler/device proofs
(independent of `RouterLemmas`, which has its own copies for the wiring proofs).
-/
import TickitModel.Core.Basic

namespace Tickit

variable {κ β : Type}

@[simp] theorem akeys_nil : akeys ([] : List (κ × β)) = [] := rfl

@[simp] theorem akeys_cons (e : κ × β) (m : List (κ × β)) : akeys (e :: m) = e.1 :: akeys m := rfl

@[simp] theorem akeys_append (m m' : List (κ × β)) : akeys (m ++ m') = akeys m ++ akeys m' := by
  simp [akeys]

theorem length_akeys (m : List (κ × β)) : (akeys m).length = m.length := by simp [akeys]

theorem mem_akeys_of_mem {m : List (κ × β)} {k : κ} {v : β} (h : (k, v) ∈ m) : k ∈ akeys m :=
  List.mem_map.2 ⟨(k, v), h, rfl⟩

variable [DecidableEq κ]

/-! ### `alookup` -/

@[simp] theorem alookup_nil (k : κ) : alookup ([] : List (κ × β)) k = none := rfl

theorem alookup_cons (k' : κ) (v : β) (m : List (κ × β)) (k : κ) :
    alookup ((k', v) :: m) k = if k' = k then some v else alookup m k := rfl

theorem alookup_eq_none_iff {m : List (κ × β)} {k : κ} : alookup m k = none ↔ k ∉ akeys m := by
  induction m with
  | nil => simp
  | cons e m ih =>
    obtain ⟨k', v⟩ := e
    rw [alookup_cons]
    by_cases h : k' = k
    · simp [h]
    · simp [h, ih, Ne.symm h]

theorem alookup_ne_none_iff {m : List (κ × β)} {k : κ} : alookup m k ≠ none ↔ k ∈ akeys m := by
  rw [Ne, alookup_eq_none_iff, Classical.not_not]

theorem alookup_isSome_iff {m : List (κ × β)} {k : κ} : (alookup m k).isSome = true ↔ k ∈ akeys m := by
  rw [← alookup_ne_none_iff, Option.isSome_iff_ne_none]

theorem mem_of_alookup_eq_some {m : List (κ × β)} {k : κ} {v : β} (h : alookup m k = some v) :
    (k, v) ∈ m := by
  induction m with
  | nil => simp at h
  | cons e m ih =>
    obtain ⟨k', v'⟩ := e
    rw [alookup_cons] at h
    by_cases hk : k' = k
    · simp [hk] at h; simp [hk, h]
    · simp [hk] at h; exact List.mem_cons_of_mem _ (ih h)

theorem mem_akeys_of_alookup_eq_some {m : List (κ × β)} {k : κ} {v : β} (h : alookup m k = some v) :
    k ∈ akeys m := mem_akeys_of_mem (mem_of_alookup_eq_some h)

/-- on a dict (unique keys) lookup is membership. -/
theorem alookup_eq_some_of_mem {m : List (κ × β)} (hn : (akeys m).Nodup) {k : κ} {v : β}
    (h : (k, v) ∈ m) : alookup m k = some v := by
  induction m with
  | nil => simp at h
  | cons e m ih =>
    obtain ⟨k', v'⟩ := e
    simp only [akeys_cons, List.nodup_cons] at hn
    rw [alookup_cons]
    rcases List.mem_cons.1 h with h | h
    · cases h; simp
    · have : k' ≠ k := fun hk => hn.1 (hk ▸ mem_akeys_of_mem h)
      simp [this, ih hn.2 h]

theorem alookup_eq_some_iff_mem {m : List (κ × β)} (hn : (akeys m).Nodup) {k : κ} {v : β} :
    alookup m k = some v ↔ (k, v) ∈ m :=
  ⟨mem_of_alookup_eq_some, alookup_eq_some_of_mem hn⟩

/-! ### `upsert` -/

theorem akeys_upsert (m : List (κ × β)) (k : κ) (v : β) :
    akeys (upsert m k v) = if k ∈ akeys m then akeys m else akeys m ++ [k] := by
  induction m with
  | nil => simp [upsert]
  | cons e m ih =>
    obtain ⟨k', v'⟩ := e
    simp only [upsert]
    by_cases h : k' = k
    · simp [h]
    · simp only [h, if_false, akeys_cons, ih, List.mem_cons, Ne.symm h, false_or]
      split <;> simp

theorem mem_akeys_upsert {m : List (κ × β)} {k : κ} {v : β} {x : κ} :
    x ∈ akeys (upsert m k v) ↔ x = k ∨ x ∈ akeys m := by
  rw [akeys_upsert]
  split
  · constructor
    · exact Or.inr
    · rintro (h | h)
      · subst h; assumption
      · exact h
  · simp [or_comm]

theorem nodup_akeys_upsert {m : List (κ × β)} (hn : (akeys m).Nodup) (k : κ) (v : β) :
    (akeys (upsert m k v)).Nodup := by
  rw [akeys_upsert]
  split
  · exact hn
  · rename_i h
    exact List.nodup_append.2 ⟨hn, by simp, by
      intro a ha b hb
      simp at hb; subst hb; intro hab; subst hab; exact h ha⟩

theorem alookup_upsert (m : List (κ × β)) (k : κ) (v : β) (x : κ) :
    alookup (upsert m k v) x = if k = x then some v else alookup m x := by
  induction m with
  | nil => simp [upsert, alookup_cons]
  | cons e m ih =>
    obtain ⟨k', v'⟩ := e
    simp only [upsert]
    by_cases h : k' = k
    · subst h
      simp only [if_true, alookup_cons]
      split <;> rfl
    · simp only [h, if_false, alookup_cons, ih]
      by_cases h1 : k' = x
      · have : k ≠ x := fun h2 => h (h1.trans h2.symm)
        simp [h1, this]
      · simp [h1]

/-! ### `aerase` -/

theorem akeys_aerase (m : List (κ × β)) (k : κ) : akeys (aerase m k) = (akeys m).erase k := by
  induction m with
  | nil => rfl
  | cons e m ih =>
    obtain ⟨k', v'⟩ := e
    simp only [aerase]
    by_cases h : k' = k
    · simp [h]
    · simp [h, ih, List.erase_cons_tail]

theorem nodup_akeys_aerase {m : List (κ × β)} (hn : (akeys m).Nodup) (k : κ) :
    (akeys (aerase m k)).Nodup := by
  rw [akeys_aerase]; exact hn.erase k

theorem alookup_aerase_ne (m : List (κ × β)) {k x : κ} (h : x ≠ k) :
    alookup (aerase m k) x = alookup m x := by
  induction m with
  | nil => rfl
  | cons e m ih =>
    obtain ⟨k', v'⟩ := e
    simp only [aerase]
    by_cases h1 : k' = k
    · subst h1
      simp [alookup_cons, Ne.symm h]
    · simp [h1, alookup_cons, ih]

theorem alookup_aerase_self {m : List (κ × β)} (hn : (akeys m).Nodup) (k : κ) :
    alookup (aerase m k) k = none := by
  rw [alookup_eq_none_iff, akeys_aerase]
  exact fun h => (List.Nodup.mem_erase_iff hn).1 h |>.1 rfl

theorem alookup_aerase {m : List (κ × β)} (hn : (akeys m).Nodup) (k x : κ) :
    alookup (aerase m k) x = if x = k then none else alookup m x := by
  by_cases h : x = k
  · subst h; simp [alookup_aerase_self hn]
  · simp [h, alookup_aerase_ne m h]

/-- erasing only removes keys. -/
theorem alookup_aerase_eq_none {m : List (κ × β)} {k x : κ} (h : alookup m x = none) :
    alookup (aerase m k) x = none := by
  rw [alookup_eq_none_iff] at *
  rw [akeys_aerase]
  exact fun h' => h (List.mem_of_mem_erase h')

theorem mem_akeys_of_mem_akeys_aerase {m : List (κ × β)} {k x : κ} (h : x ∈ akeys (aerase m k)) :
    x ∈ akeys m := by
  rw [akeys_aerase] at h; exact List.mem_of_mem_erase h

theorem length_aerase {m : List (κ × β)} {k : κ} (h : k ∈ akeys m) :
    (aerase m k).length + 1 = m.length := by
  rw [← length_akeys, akeys_aerase, List.length_erase_of_mem h, length_akeys]
  have : 0 < m.length := by
    rw [← length_akeys]; exact List.length_pos_of_mem h
  omega

/-! ### `agetD` -/

theorem agetD_eq (m : List (κ × β)) (k : κ) (d : β) : agetD m k d = (alookup m k).getD d := rfl

end Tickit
