/-
Helper lemmas for the nested scheduler's interrupt bookkeeping.
-/
import TickitModel.Core.NestedInt

namespace Tickit

/-- nothing owed is forgotten at a nested level: an owed inner component is a root of the running
inner tick that has not begun its update, or it is queued AND the enclosing scheduler has been told. -/
structure NInv (s : NSt) : Prop where
  owed : ∀ c ∈ s.owed, (∃ rem, s.ticking = some rem ∧ c ∈ rem) ∨ (c ∈ s.queued ∧ s.upOwed = true)

theorem ni_mem_sinsert {α : Type} [DecidableEq α] (s : List α) (x y : α) :
    y ∈ sinsert s x ↔ y ∈ s ∨ y = x := by
  unfold sinsert
  split
  · constructor
    · intro h; exact Or.inl h
    · rintro (h | h)
      · exact h
      · subst h; assumption
  · simp

theorem ni_mem_sunion_left {α : Type} [DecidableEq α] (s t : List α) (y : α) (h : y ∈ s) : y ∈ sunion s t := by
  unfold sunion
  induction t generalizing s with
  | nil => simpa using h
  | cons x xs ih =>
    simp only [List.foldl_cons]
    exact ih _ ((ni_mem_sinsert s x y).2 (Or.inl h))

theorem NSt.run_inv (P : NSt → Prop) (hstep : ∀ s s' a, P s → s.step a = some s' → P s') :
    ∀ (acts : List NAct) (s : NSt), P s → P (s.run acts) := by
  intro acts
  induction acts with
  | nil => intro s h; simpa [NSt.run] using h
  | cons a as ih =>
    intro s h
    simp only [NSt.run]
    cases hs : s.step a with
    | none => simpa [hs] using ih s h
    | some s' => simpa [hs] using ih s' (hstep s s' a h hs)

theorem NInv.init : NInv {} := ⟨by intro c hc; simp at hc⟩

theorem NInv.step (s s' : NSt) (a : NAct) (h : NInv s) (hs : s.step a = some s') : NInv s' := by
  cases a with
  | interrupt c =>
    simp only [NSt.step, Option.some.injEq] at hs
    subst hs
    refine ⟨?_⟩
    intro c' hc'
    simp only [ni_mem_sinsert] at hc' ⊢
    rcases hc' with hc' | hc'
    · rcases h.owed c' hc' with hl | ⟨hq, _⟩
      · exact Or.inl hl
      · exact Or.inr ⟨Or.inl hq, trivial⟩
    · exact Or.inr ⟨Or.inr hc', trivial⟩
  | startTick due =>
    simp only [NSt.step] at hs
    cases ht : s.ticking with
    | some r => simp [ht] at hs
    | none =>
      simp only [ht, Option.some.injEq] at hs
      subst hs
      refine ⟨?_⟩
      intro c hc
      rcases h.owed c hc with ⟨rem, hr, _⟩ | ⟨hq, _⟩
      · simp [ht] at hr
      · exact Or.inl ⟨_, rfl, ni_mem_sunion_left _ _ _ hq⟩
  | beginUpdate c =>
    simp only [NSt.step] at hs
    cases ht : s.ticking with
    | none => simp [ht] at hs
    | some rem =>
      simp only [ht, Option.some.injEq] at hs
      subst hs
      refine ⟨?_⟩
      intro c' hc'
      simp only [List.mem_filter, bne_iff_ne, ne_eq] at hc'
      rcases h.owed c' hc'.1 with ⟨rem', hr, hm⟩ | hr
      · left
        refine ⟨_, rfl, ?_⟩
        rw [ht] at hr
        cases hr
        simp only [List.mem_filter, bne_iff_ne, ne_eq]
        exact ⟨hm, hc'.2⟩
      · exact Or.inr hr
  | endTick =>
    simp only [NSt.step] at hs
    cases ht : s.ticking with
    | none => simp [ht] at hs
    | some rem =>
      cases rem with
      | cons x xs => simp [ht] at hs
      | nil =>
        simp only [ht, Option.some.injEq] at hs
        subst hs
        refine ⟨?_⟩
        intro c hc
        rcases h.owed c hc with ⟨rem', hr, hm⟩ | hr
        · rw [ht] at hr; cases hr; simp at hm
        · exact Or.inr hr

end Tickit
