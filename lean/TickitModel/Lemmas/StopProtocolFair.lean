/-
Fair schedules of the stop protocol exist: from every state with a reported failure the greedy
execution (scheduler / bus steps until none is enabled) followed by wakeups for ever is weakly
fair.  So the hypothesis of `fair_run_returns` (Props/C11Stop.lean) is satisfiable everywhere.
-/
import TickitModel.Lemmas.StopProtocolOnce

namespace Tickit

variable {cfg : StopCfg} {s s' : StopSt}

theorem stop_exists_sys_of_not_quiescent (hq : ¬ s.quiescent cfg) :
    ∃ a s1, a.isSys = true ∧ s.step cfg a = some s1 := by
  apply Classical.byContradiction
  intro hno
  apply hq
  intro a ha
  cases hst : s.step cfg a with
  | none => rfl
  | some s1 => exact absurd ⟨a, s1, ha, hst⟩ hno

/-- the greedy execution: only scheduler / bus steps, at most `measure` of them, ending in a
state where none is enabled - which is a state where the run call has returned. -/
theorem StopInv.exists_exec_quiescent (hcfg : cfg.stopOnce = false) :
    ∀ (k : Nat) {s : StopSt}, StopInv cfg s → s.reports ≠ [] → s.measure cfg ≤ k →
      ∃ as s', as.length ≤ k ∧ (∀ a ∈ as, a.isSys = true) ∧ s.exec cfg as = some s' ∧
        s'.quiescent cfg ∧ s'.runReturned cfg
  | 0, s, h, hne, hk => by
    by_cases hq : s.quiescent cfg
    · exact ⟨[], s, Nat.le_refl _, by simp, rfl, hq, h.quiescent_returned hne hq⟩
    · exfalso
      obtain ⟨a, s1, ha, hs1⟩ := stop_exists_sys_of_not_quiescent hq
      have := (h.measure_step hne a hs1).2 ha
      omega
  | k + 1, s, h, hne, hk => by
    by_cases hq : s.quiescent cfg
    · exact ⟨[], s, Nat.zero_le _, by simp, rfl, hq, h.quiescent_returned hne hq⟩
    · obtain ⟨a, s1, ha, hs1⟩ := stop_exists_sys_of_not_quiescent hq
      have hlt := (h.measure_step hne a hs1).2 ha
      obtain ⟨as, s', hl, hsys, he, hq', hr⟩ := StopInv.exists_exec_quiescent hcfg k
        (h.step hcfg a hs1) (StopSt.step_reports_ne_nil a hs1 hne) (by omega)
      refine ⟨a :: as, s', by simp; omega, ?_, ?_, hq', hr⟩
      · intro b hb
        rcases List.mem_cons.mp hb with hb | hb
        · subst hb; exact ha
        · exact hsys b hb
      · simp only [StopSt.exec, hs1]
        exact he

/-- the schedule that plays a list of actions and then wakeups for ever. -/
def stopSchedOf (as : List StopAct) : Nat → StopAct := fun n => as.getD n .wakeup

theorem StopSt.sched_shift (σ : Nat → StopAct) :
    ∀ n, s.sched cfg σ (n + 1) = (((s.step cfg (σ 0)).getD s).sched cfg (fun k => σ (k + 1)) n)
  | 0 => rfl
  | n + 1 => by
    rw [StopSt.sched_succ, StopSt.sched_shift σ n, StopSt.sched_succ]

theorem StopSt.quiescent_wakeup (hq : s.quiescent cfg) (hp : s.pc = .exited) :
    ({ s with hasWakeups := true, newWakeup := true } : StopSt).quiescent cfg := by
  intro a ha
  cases a with
  | loop => simp [StopSt.step, StopSt.loopStep, hp]
  | handler i =>
    have := hq (.handler i) rfl
    simp only [StopSt.step, StopSt.handlerStep] at this ⊢
    repeat' split at this
    all_goals first | rfl | (simp_all; done) | cases this
  | produceStop i c =>
    have := hq (.produceStop i c) rfl
    simp only [StopSt.step, StopSt.produceStep] at this ⊢
    repeat' split at this
    all_goals first | rfl | (simp_all; done) | cases this
  | deliverStop c =>
    have := hq (.deliverStop c) rfl
    simp only [StopSt.step] at this ⊢
    split at this
    · cases this
    · simp_all
  | _ => cases ha

/-- after the list is exhausted: only wakeups, the state stays quiescent. -/
theorem StopSt.sched_wakeups_quiescent (hq : s.quiescent cfg) (hp : s.pc = .exited) :
    ∀ n, (s.sched cfg (stopSchedOf []) n).quiescent cfg ∧ (s.sched cfg (stopSchedOf []) n).pc = .exited
  | 0 => ⟨hq, hp⟩
  | n + 1 => by
    obtain ⟨ih1, ih2⟩ := StopSt.sched_wakeups_quiescent hq hp n
    rw [StopSt.sched_succ]
    have : stopSchedOf [] n = .wakeup := by simp [stopSchedOf]
    rw [this]
    simp only [StopSt.step, Option.getD_some]
    exact ⟨StopSt.quiescent_wakeup ih1 ih2, ih2⟩

theorem stopSchedOf_cons (a : StopAct) (as : List StopAct) :
    (fun k => stopSchedOf (a :: as) (k + 1)) = stopSchedOf as := by
  funext k
  simp [stopSchedOf]

/-- a list of enabled scheduler / bus steps ending in a quiescent, exited state, followed by
wakeups for ever, is a weakly fair schedule. -/
theorem StopSt.fair_of_exec :
    ∀ (as : List StopAct) {s s' : StopSt}, (∀ a ∈ as, a.isSys = true) → s.exec cfg as = some s' →
      s'.quiescent cfg → s'.pc = .exited → s.fair cfg (stopSchedOf as)
  | [], s, s', _, hs, hq, hp => by
    simp only [StopSt.exec, Option.some.injEq] at hs
    subst hs
    intro n hn
    exact absurd (StopSt.sched_wakeups_quiescent hq hp n).1 hn
  | a :: as, s, s', hsys, hs, hq, hp => by
    simp only [StopSt.exec] at hs
    split at hs
    · rename_i s1 h1
      have ih := StopSt.fair_of_exec as (fun b hb => hsys b (List.mem_cons_of_mem _ hb)) hs hq hp
      have h0 : stopSchedOf (a :: as) 0 = a := by simp [stopSchedOf]
      intro n hn
      cases n with
      | zero =>
        refine ⟨0, Nat.le_refl _, ?_, ?_⟩
        · rw [h0]; exact hsys a (List.mem_cons_self ..)
        · show (s.step cfg (stopSchedOf (a :: as) 0)).isSome = true
          rw [h0, h1]; rfl
      | succ n =>
        have hsh : ∀ m, s.sched cfg (stopSchedOf (a :: as)) (m + 1) = s1.sched cfg (stopSchedOf as) m := by
          intro m
          rw [StopSt.sched_shift, h0, h1, stopSchedOf_cons]
          rfl
        rw [hsh] at hn
        obtain ⟨m, hnm, hm1, hm2⟩ := ih n hn
        refine ⟨m + 1, by omega, ?_, ?_⟩
        · have : stopSchedOf (a :: as) (m + 1) = stopSchedOf as m := by simp [stopSchedOf]
          rw [this]; exact hm1
        · have : stopSchedOf (a :: as) (m + 1) = stopSchedOf as m := by simp [stopSchedOf]
          rw [hsh, this]; exact hm2
    · cases hs

end Tickit
