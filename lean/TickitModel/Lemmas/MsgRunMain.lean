/-
The multi-tick message-level model refines `FlatRun`: by induction over every reachable state,
the run is either before the scheduler's start, or inside tick `n` whose pre-tick state is
(component by component) equivalent to the state of a `FlatRun` with `n` ticks.
-/
import TickitModel.Lemmas.MsgRunTick
import TickitModel.Lemmas.CallbackLemmas

set_option autoImplicit false

namespace Tickit

open Tickit.Det

set_option linter.unusedSectionVars false

variable {Val : Type} [DecidableEq Val]

/-! ### the shape of the run-level steps -/

theorem map_map_eq_ok {ε α β : Type} {x : Option (Except ε α)} {f : α → β} {y : β}
    (h : x.map (fun r => r.map f) = some (.ok y)) : ∃ b, x = some (.ok b) ∧ y = f b := by
  cases x with
  | none => simp at h
  | some r =>
    cases r with
    | error e => simp [Except.map] at h
    | ok b =>
      simp only [Option.map_some, Except.map, Option.some.injEq, Except.ok.injEq] at h
      exact ⟨b, rfl, h.symm⟩

theorem MsgRunSt.step_startSched_ok {w : Wiring} {devs : DevSeq Val} {t0 : SimTime}
    {M M' : MsgRunSt Val} (h : M.step w devs t0 (.bus .startSched) = some (.ok M')) :
    ∃ b, M.bus.step w (rxOf M.comps (devs 0)) t0 w.components .startSched = some (.ok b) ∧
      M' = { M with bus := b, ticks := 1, tickTime := t0, tickRoots := w.components,
                    times := [t0] } :=
  map_map_eq_ok h

theorem MsgRunSt.step_deliverIn_ok {w : Wiring} {devs : DevSeq Val} {t0 : SimTime}
    {M M' : MsgRunSt Val} {c : Comp} (h : M.step w devs t0 (.bus (.deliverIn c)) = some (.ok M')) :
    ∃ b, M.bus.step w (rxOf M.comps (devs (M.ticks - 1))) M.tickTime M.tickRoots (.deliverIn c) =
        some (.ok b) ∧
      M' = M.handle (devs (M.ticks - 1)) c b (M.bus.next (.inT c)) :=
  map_map_eq_ok h

theorem MsgRunSt.step_startComp_ok {w : Wiring} {devs : DevSeq Val} {t0 : SimTime}
    {M M' : MsgRunSt Val} {c : Comp} (h : M.step w devs t0 (.bus (.startComp c)) = some (.ok M')) :
    ∃ b, M.bus.step w (rxOf M.comps (devs (M.ticks - 1))) M.tickTime M.tickRoots (.startComp c) =
        some (.ok b) ∧ M' = { M with bus := b } :=
  map_map_eq_ok h

theorem MsgRunSt.step_deliverOut_ok {w : Wiring} {devs : DevSeq Val} {t0 : SimTime}
    {M M' : MsgRunSt Val} {c : Comp} (h : M.step w devs t0 (.bus (.deliverOut c)) = some (.ok M')) :
    ∃ b, M.bus.step w (rxOf M.comps (devs (M.ticks - 1))) M.tickTime M.tickRoots (.deliverOut c) =
        some (.ok b) ∧ M' = { M with bus := b } :=
  map_map_eq_ok h

/-- the bus from which the next tick is begun -/
def MsgRunSt.resetBus (M : MsgRunSt Val) (cs : List Comp) : MsgSt Val :=
  { M.bus with tk := none, hist := [], wake := delWakeups M.bus.wake cs }

theorem MsgRunSt.step_nextTick_ok {w : Wiring} {devs : DevSeq Val} {t0 : SimTime}
    {M M' : MsgRunSt Val} (h : M.step w devs t0 .nextTick = some (.ok M')) :
    ∃ tk cs when b, M.bus.tk = some tk ∧ tk.toUpdate = [] ∧
      firstWakeups M.bus.wake = (cs, some when) ∧
      (M.resetBus cs).step w (rxOf M.comps (devs M.ticks)) when cs .startSched = some (.ok b) ∧
      M' = { M with bus := b, ticks := M.ticks + 1, tickTime := when, tickRoots := cs,
                    times := when :: M.times } := by
  simp only [MsgRunSt.step] at h
  cases htk : M.bus.tk with
  | none => simp [htk] at h
  | some tk =>
    simp only [htk] at h
    split at h
    · rename_i hemp
      cases hf : firstWakeups M.bus.wake with
      | mk cs o =>
        cases o with
        | none => simp [hf] at h
        | some when =>
          simp only [hf] at h
          obtain ⟨b, hb, rfl⟩ := map_map_eq_ok h
          exact ⟨tk, cs, when, b, rfl, by simpa using hemp, rfl, hb, rfl⟩
    · cases h

theorem MsgSt.Idle.no_delivery {w : Wiring} {rx : MsgReact Val} {t : SimTime} {roots : List Comp}
    {m : MsgSt Val} (hI : m.Idle) (c : Comp) :
    m.step w rx t roots (.deliverIn c) = none ∧ m.step w rx t roots (.deliverOut c) = none := by
  have hnone : m.next (.inT c) = none := by simp [MsgSt.next, hI.2.2]
  constructor
  · simp only [MsgSt.step, hnone]; split <;> rfl
  · simp [MsgSt.step, hI.1]

/-! ### the link to `FlatRun` -/

/-- the pre-tick state `F`, time and roots of tick `n` of the message-level run are those of a
`FlatRun` with `n` ticks, up to the order inside the scheduler's dicts. -/
def TickLink (w : Wiring) (devs : DevSeq Val) (t0 : SimTime) :
    Nat → FlatSt Val → SimTime → List Comp → List SimTime → Prop
  | 0, F, t, roots, times => F = {} ∧ t = t0 ∧ roots = w.components ∧ times = [t0]
  | n + 1, F, t, roots, times => ∃ st ptimes cs, FlatRun w devs t0 n st ptimes ∧
      firstWakeups st.wake = (cs, some t) ∧ (∀ c, c ∈ roots ↔ c ∈ cs) ∧
      (∀ c, (loc F c).Equiv (loc { st with wake := delWakeups st.wake cs } c)) ∧
      times = t :: ptimes

/-- **the run invariant** -/
def RunInv (w : Wiring) (devs : DevSeq Val) (t0 : SimTime) (M : MsgRunSt Val) : Prop :=
  (∃ S, M = MsgRunSt.initial S) ∨
  ∃ n F t roots b0, M.ticks = n + 1 ∧ b0.Idle ∧ b0.wake = F.wake ∧ UniqueKeys F.wake ∧
    TickTrack w (devs n) t roots F b0 M ∧ TickLink w devs t0 n F t roots M.times

theorem Loc.Equiv.rfl' (L : Loc Val) : L.Equiv L :=
  ⟨fun _ => rfl, fun _ => rfl, rfl, obsEq_refl _⟩

theorem Loc.Equiv.of_eq {L1 L2 L3 : Loc Val} (h : L1 = L2) (h' : L2.Equiv L3) : L1.Equiv L3 :=
  h ▸ h'

/-- **at the end of tick `n`** the message-level state is equivalent to the state of a
`FlatRun` with `n` ticks. -/
theorem tick_boundary {w : Wiring} (hw : RouterOK w) (hacyc : w.Acyclic) {devs : DevSeq Val}
    (hdev : ∀ k, DevExt (devs k)) {t0 : SimTime} {n : Nat} {F : FlatSt Val} {t : SimTime}
    {roots : List Comp} {b0 : MsgSt Val} {M : MsgRunSt Val} (hb0 : b0.Idle)
    (hwake : b0.wake = F.wake) (huniq : UniqueKeys F.wake)
    (htr : TickTrack w (devs n) t roots F b0 M) (hlink : TickLink w devs t0 n F t roots M.times)
    (hc : M.bus.Complete) :
    ∃ st, FlatRun w devs t0 n st M.times ∧ (∀ c, (loc M.flat c).Equiv (loc st c)) ∧
      UniqueKeys M.bus.wake := by
  obtain ⟨s, hr, hnil, _, _, hloc⟩ := htr.complete hb0 hwake hc
  have hu : UniqueKeys M.bus.wake := (htr.reach.wakeInv hb0).unique (hwake ▸ huniq)
  have hrun : TickRun w (devs n) F t roots (F.afterTick (devs n) s.trace) := ⟨s, hr, hnil, rfl⟩
  cases n with
  | zero =>
    obtain ⟨rfl, rfl, rfl, htimes⟩ := hlink
    refine ⟨_, htimes ▸ FlatRun.initial hrun, fun c => ?_, hu⟩
    rw [hloc c]; exact Loc.Equiv.rfl' _
  | succ n =>
    obtain ⟨st, ptimes, cs, hprev, hf, hroots, hF, htimes⟩ := hlink
    have hne : st.wake ≠ [] := by
      intro h
      have := (firstWakeups_none st.wake).2 h
      rw [hf] at this; cases this
    obtain ⟨cs', m', st', hf', hrun'⟩ := Callback.can_step hacyc hprev hne
    rw [hf] at hf'
    obtain ⟨rfl, rfl⟩ : cs = cs' ∧ t = m' := by
      simp only [Prod.mk.injEq, Option.some.injEq] at hf'; exact hf'
    refine ⟨st', htimes ▸ FlatRun.tick hprev hf hrun', fun c => ?_, hu⟩
    rw [hloc c]
    exact tickRun_loc_equiv hw hacyc (hdev (n + 1)) hroots hF hrun hrun' c

/-- **the run invariant holds in every reachable state.** -/
theorem MsgRunSt.Reach.inv {w : Wiring} (hw : RouterOK w) (hacyc : w.Acyclic) {devs : DevSeq Val}
    (hdev : ∀ k, DevExt (devs k)) {t0 : SimTime} {M : MsgRunSt Val}
    (h : MsgRunSt.Reach w devs t0 M) : RunInv w devs t0 M := by
  induction h with
  | init S => exact Or.inl ⟨S, rfl⟩
  | @step M M' a _ hstep ih =>
    rcases ih with ⟨S, rfl⟩ | ⟨n, F, t, roots, b0, hticks, hb0, hwake, huniq, htr, hlink⟩
    · -- before the scheduler has started
      have hI : (MsgRunSt.initial S : MsgRunSt Val).bus.Idle := ⟨rfl, rfl, fun _ => rfl⟩
      cases a with
      | nextTick =>
        obtain ⟨tk, _, _, _, htk, _⟩ := MsgRunSt.step_nextTick_ok hstep
        cases htk
      | bus a =>
        cases a with
        | startSched =>
          obtain ⟨b, hb, rfl⟩ := MsgRunSt.step_startSched_ok hstep
          exact Or.inr ⟨0, _, t0, w.components, _, rfl, hI, rfl,
            by simp [UniqueKeys, MsgRunSt.initial],
            TickTrack.start (dev := devs 0) hI _ hb _ [] [] rfl rfl rfl rfl rfl, rfl, rfl, rfl, rfl⟩
        | startComp c =>
          obtain ⟨b, hb, rfl⟩ := MsgRunSt.step_startComp_ok hstep
          obtain ⟨_, rfl⟩ := MsgSt.step_startComp_ok hb
          exact Or.inl ⟨c :: S, rfl⟩
        | deliverIn c =>
          obtain ⟨b, hb, _⟩ := MsgRunSt.step_deliverIn_ok hstep
          rw [(hI.no_delivery c).1] at hb; cases hb
        | deliverOut c =>
          obtain ⟨b, hb, _⟩ := MsgRunSt.step_deliverOut_ok hstep
          rw [(hI.no_delivery c).2] at hb; cases hb
    · -- inside tick `n`
      have hdevn : devs (M.ticks - 1) = devs n := by rw [hticks]; rfl
      cases a with
      | bus a =>
        cases a with
        | startSched =>
          obtain ⟨b, hb, _⟩ := MsgRunSt.step_startSched_ok hstep
          obtain ⟨htk, _⟩ := MsgSt.step_startSched_ok hb
          exact absurd htk htr.begun
        | startComp c =>
          obtain ⟨b, hb, rfl⟩ := MsgRunSt.step_startComp_ok hstep
          rw [hdevn] at hb
          exact Or.inr ⟨n, F, t, roots, b0, hticks, hb0, hwake, huniq,
            htr.step_other (by simp) hb, hlink⟩
        | deliverOut c =>
          obtain ⟨b, hb, rfl⟩ := MsgRunSt.step_deliverOut_ok hstep
          rw [hdevn] at hb
          exact Or.inr ⟨n, F, t, roots, b0, hticks, hb0, hwake, huniq,
            htr.step_other (by simp) hb, hlink⟩
        | deliverIn c =>
          obtain ⟨b, hb, rfl⟩ := MsgRunSt.step_deliverIn_ok hstep
          rw [hdevn] at hb ⊢
          have htr' := htr.step_deliverIn hb0 hb
          refine Or.inr ⟨n, F, t, roots, b0, ?_, hb0, hwake, huniq, htr', ?_⟩
          · cases hμ : M.bus.next (.inT c) with
            | none => exact hticks
            | some μ => cases μ with
              | output _ _ _ _ => exact hticks
              | disp d => cases d <;> exact hticks
          · have : (M.handle (devs n) c b (M.bus.next (.inT c))).times = M.times := by
              cases hμ : M.bus.next (.inT c) with
              | none => rfl
              | some μ => cases μ with
                | output _ _ _ _ => rfl
                | disp d => cases d <;> rfl
            rw [this]; exact hlink
      | nextTick =>
        obtain ⟨tk, cs, when, b, htk, hnil, hf, hb, rfl⟩ := MsgRunSt.step_nextTick_ok hstep
        have hc : M.bus.Complete := ⟨tk, htk, hnil⟩
        obtain ⟨st, hrun, heq, hu⟩ := tick_boundary hw hacyc hdev hb0 hwake huniq htr hlink hc
        -- the reset bus is idle
        obtain ⟨s, hr, hs, hnil'⟩ := hc.sim hb0 htr.reach
        have hI : (M.resetBus cs).Idle := by
          refine ⟨rfl, rfl, fun T => ?_⟩
          have hall := msg_complete_all_consumed w _ t roots M.bus s hs hr hnil'
          cases T with
          | inT c => exact (hall c).1
          | outT c => exact (hall c).2
        -- the flat run finds the same wakeups
        have hmap : ∀ c, alookup M.bus.wake c = alookup st.wake c := fun c => (heq c).wk
        have hust := flatRun_uniqueKeys hrun
        obtain ⟨_, _, ⟨x, hx⟩, _⟩ := firstWakeups_spec M.bus.wake hu cs when hf
        have hne : st.wake ≠ [] := Callback.wake_ne_nil_of_lookup ((hmap x).symm.trans hx)
        have hsome : (firstWakeups st.wake).2 ≠ none := fun h => hne ((firstWakeups_none _).1 h)
        obtain ⟨m', hm'⟩ := Option.ne_none_iff_exists'.1 hsome
        have hf' : firstWakeups st.wake = ((firstWakeups st.wake).1, some m') := by rw [← hm']
        obtain ⟨rfl, hcs⟩ := firstWakeups_congr hu hust hmap hf hf'
        rw [hticks] at hb
        refine Or.inr ⟨n + 1, _, when, cs, _, by simp [hticks], hI, rfl,
          delWakeups_unique _ hu cs,
          TickTrack.start (dev := devs (n + 1)) hI _ hb _ M.comps M.obs rfl rfl rfl rfl rfl,
          st, M.times, _, hrun, hf', hcs, fun c => ?_, rfl⟩
        refine ⟨(heq c).ins, (heq c).outs, ?_, (heq c).ob⟩
        show alookup (delWakeups M.bus.wake cs) c = alookup (delWakeups st.wake _) c
        rw [delWakeups_lookup _ hu, delWakeups_lookup _ hust]
        by_cases hcc : c ∈ cs
        · rw [if_pos hcc, if_pos ((hcs c).1 hcc)]
        · rw [if_neg hcc, if_neg (fun h => hcc ((hcs c).2 h))]
          exact hmap c

end Tickit
