/-
Helper lemmas for M1: `components`, `children` (component tree) and `inverseTree`/`ups`.
-/
import TickitModel.Lemmas.RouterWiring

namespace Tickit

/-! ## collecting targets -/

theorem mem_foldl_targets (ins : List CPort) (acc : List Comp) (c : Comp) :
    c ∈ ins.foldl (fun acc (bq : CPort) => sinsert acc bq.1) acc ↔ c ∈ acc ∨ ∃ bq ∈ ins, c = bq.1 :=
  foldl_view_iff (σ := List Comp) (γ := Comp) (view := fun s c => c ∈ s)
    (f := fun acc (bq : CPort) => sinsert acc bq.1) (P := fun bq c => c = bq.1) ins
    (fun _ _ _ _ => mem_sinsert) acc c

theorem mem_foldl_ports (ports : List (Port × List CPort)) (acc : List Comp) (c : Comp) :
    c ∈ ports.foldl (fun acc (pe : Port × List CPort) =>
        pe.2.foldl (fun acc (bq : CPort) => sinsert acc bq.1) acc) acc ↔
      c ∈ acc ∨ ∃ pe ∈ ports, ∃ bq ∈ pe.2, c = bq.1 :=
  foldl_view_iff (σ := List Comp) (γ := Comp) (view := fun s c => c ∈ s)
    (f := fun acc (pe : Port × List CPort) =>
      pe.2.foldl (fun acc (bq : CPort) => sinsert acc bq.1) acc)
    (P := fun pe c => ∃ bq ∈ pe.2, c = bq.1) ports
    (fun pe _ s c => mem_foldl_targets pe.2 s c) acc c

theorem nodup_foldl_ports (ports : List (Port × List CPort)) (acc : List Comp) (h : acc.Nodup) :
    (ports.foldl (fun acc (pe : Port × List CPort) =>
        pe.2.foldl (fun acc (bq : CPort) => sinsert acc bq.1) acc) acc).Nodup :=
  foldl_inv List.Nodup _ ports
    (fun pe _ s hs => foldl_inv List.Nodup _ pe.2 (fun _ _ _ hs => nodup_sinsert hs) s hs) acc h

/-! ## components -/

theorem Wiring.mem_inputComponents (w : Wiring) (c : Comp) :
    c ∈ w.inputComponents ↔ ∃ ent ∈ w, ∃ pe ∈ ent.2, ∃ bq ∈ pe.2, c = bq.1 := by
  unfold Wiring.inputComponents
  have key := foldl_view_iff (σ := List Comp) (γ := Comp) (view := fun s c => c ∈ s)
    (f := fun acc (e : Comp × List (Port × List CPort)) =>
      e.2.foldl (fun acc (pe : Port × List CPort) =>
        pe.2.foldl (fun acc (bq : CPort) => sinsert acc bq.1) acc) acc)
    (P := fun ent c => ∃ pe ∈ ent.2, ∃ bq ∈ pe.2, c = bq.1) w
    (fun ent _ s c => mem_foldl_ports ent.2 s c) [] c
  simpa using key

theorem Wiring.mem_inputComponents_iff_conn {w : Wiring} (h : w.WF) (c : Comp) :
    c ∈ w.inputComponents ↔ ∃ a p q, w.Conn a p c q := by
  rw [Wiring.mem_inputComponents]
  constructor
  · rintro ⟨ent, hent, pe, hpe, ⟨b, q⟩, hbq, rfl⟩
    refine ⟨ent.1, pe.1, q, ?_⟩
    rw [← Wiring.writes_iff_conn h]
    exact ⟨ent, hent, pe, hpe, hbq, rfl⟩
  · rintro ⟨a, p, q, hc⟩
    rw [← Wiring.writes_iff_conn h] at hc
    obtain ⟨ent, hent, pe, hpe, hm, _⟩ := hc
    exact ⟨ent, hent, pe, hpe, (c, q), hm, rfl⟩

theorem Wiring.mem_akeys_of_mem_outputComponents {w : Wiring} {c : Comp}
    (h : c ∈ w.outputComponents) : c ∈ akeys w := by
  unfold Wiring.outputComponents at h
  obtain ⟨e, he, rfl⟩ := List.mem_map.1 h
  exact rt_mem_akeys_of_mem (List.mem_filter.1 he).1

theorem Wiring.mem_components (w : Wiring) (c : Comp) :
    c ∈ w.components ↔ c ∈ w.inputComponents ∨ c ∈ akeys w := by
  unfold Wiring.components Wiring.isolatedComponents
  simp only [mem_sunion, List.mem_filter, decide_eq_true_eq]
  constructor
  · rintro ((h | h) | h)
    · exact Or.inl h
    · exact Or.inr (Wiring.mem_akeys_of_mem_outputComponents h)
    · exact Or.inr h.1
  · rintro (h | h)
    · exact Or.inl (Or.inl h)
    · by_cases h1 : c ∈ w.inputComponents
      · exact Or.inl (Or.inl h1)
      · by_cases h2 : c ∈ w.outputComponents
        · exact Or.inl (Or.inr h2)
        · exact Or.inr ⟨h, h1, h2⟩

theorem Wiring.mem_components_iff' {w : Wiring} (h : w.WF) (c : Comp) :
    c ∈ w.components ↔ c ∈ akeys w ∨ ∃ a p q, w.Conn a p c q := by
  rw [Wiring.mem_components, Wiring.mem_inputComponents_iff_conn h, or_comm]

/-! ## children -/

theorem Wiring.children_eq_some {w : Wiring} {a : Comp} {ch : List Comp} (h : w.children a = some ch) :
    ∃ ports, alookup w a = some ports ∧
      ch = ports.foldl (fun acc (pe : Port × List CPort) =>
        pe.2.foldl (fun acc (bq : CPort) => sinsert acc bq.1) acc) [] := by
  unfold Wiring.children at h
  cases hl : alookup w a with
  | none => simp [hl] at h
  | some ports =>
    simp only [hl, Option.map_some, Option.some.injEq] at h
    exact ⟨ports, rfl, h.symm⟩

theorem Wiring.children_of_alookup {w : Wiring} {a : Comp} {ports : List (Port × List CPort)}
    (h : alookup w a = some ports) : ∃ ch, w.children a = some ch := by
  unfold Wiring.children
  simp [h]

theorem Wiring.mem_children {w : Wiring} {a : Comp} {ch : List Comp} (h : w.children a = some ch)
    (b : Comp) :
    b ∈ ch ↔ ∃ ports, alookup w a = some ports ∧ ∃ pe ∈ ports, ∃ bq ∈ pe.2, b = bq.1 := by
  obtain ⟨ports, h1, rfl⟩ := Wiring.children_eq_some h
  rw [mem_foldl_ports]
  simp only [List.not_mem_nil, false_or]
  constructor
  · intro hm
    exact ⟨ports, h1, hm⟩
  · rintro ⟨ports', h1', hm⟩
    rw [h1] at h1'
    cases h1'
    exact hm

theorem Wiring.children_nodup {w : Wiring} {a : Comp} {ch : List Comp} (h : w.children a = some ch) :
    ch.Nodup := by
  obtain ⟨ports, _, rfl⟩ := Wiring.children_eq_some h
  exact nodup_foldl_ports ports [] List.nodup_nil

theorem Wiring.children_subset_inputs {w : Wiring} {a : Comp} {ch : List Comp}
    (h : w.children a = some ch) : ∀ b ∈ ch, b ∈ w.inputComponents := by
  intro b hb
  rw [Wiring.mem_children h] at hb
  obtain ⟨ports, h1, pe, hpe, bq, hbq, rfl⟩ := hb
  rw [Wiring.mem_inputComponents]
  exact ⟨(a, ports), mem_of_alookup h1, pe, hpe, bq, hbq, rfl⟩

/-- every edge shows up in the children (no well-formedness needed). -/
theorem Wiring.children_of_edge {w : Wiring} {a b : Comp} (h : w.Edge a b) :
    ∃ ch, w.children a = some ch ∧ b ∈ ch := by
  obtain ⟨p, q, ports, ins, h1, h2, hm⟩ := h
  obtain ⟨ch, hch⟩ := Wiring.children_of_alookup h1
  refine ⟨ch, hch, ?_⟩
  rw [Wiring.mem_children hch]
  exact ⟨ports, h1, (p, ins), mem_of_alookup h2, (b, q), hm, rfl⟩

theorem Wiring.mem_children_iff' {w : Wiring} (h : w.WF) {a : Comp} {ch : List Comp}
    (hc : w.children a = some ch) (b : Comp) : b ∈ ch ↔ w.Edge a b := by
  constructor
  · intro hb
    rw [Wiring.mem_children hc] at hb
    obtain ⟨ports, h1, ⟨p, ins⟩, hpe, ⟨b', q⟩, hbq, rfl⟩ := hb
    exact ⟨p, q, ports, ins, h1, alookup_of_mem (h.2 _ (mem_of_alookup h1)).1 hpe, hbq⟩
  · intro he
    obtain ⟨ch', hch', hb⟩ := Wiring.children_of_edge he
    rw [hc] at hch'
    cases hch'
    exact hb

/-! ## inverse tree -/

theorem agetD_map_nil (l : List Comp) (b : Comp) :
    agetD (l.map (fun c => (c, ([] : List Comp)))) b [] = [] := by
  rcases agetD_mem_or (m := l.map (fun c => (c, ([] : List Comp)))) (k := b) (d := []) with h | h
  · exact h
  · obtain ⟨c, _, hc⟩ := List.mem_map.1 h
    simp only [Prod.mk.injEq] at hc
    exact hc.2.symm

theorem akeys_map_nil (l : List Comp) : akeys (l.map (fun c => (c, ([] : List Comp)))) = l := by
  induction l with
  | nil => rfl
  | cons x l ih => simp [ih]

theorem mem_agetD_upsert_sinsert (acc : List (Comp × List Comp)) (dep a b a' : Comp) :
    a' ∈ agetD (upsert acc dep (sinsert (agetD acc dep []) a)) b [] ↔
      a' ∈ agetD acc b [] ∨ (dep = b ∧ a' = a) := by
  unfold agetD
  rw [alookup_upsert]
  by_cases h : dep = b
  · subst h
    simp
  · simp [h]

/-- one step of `inverseTree`: register `e.1` as an upstream of each of its children. -/
def invStep (acc : List (Comp × List Comp)) (e : Comp × List Comp) : List (Comp × List Comp) :=
  e.2.foldl (fun acc dep => upsert acc dep (sinsert (agetD acc dep []) e.1)) acc

theorem Wiring.inverseTree_eq (w : Wiring) :
    w.inverseTree = w.componentTree.foldl invStep (w.components.map (fun c => (c, []))) := rfl

theorem mem_agetD_invStep (acc : List (Comp × List Comp)) (e : Comp × List Comp) (b a : Comp) :
    a ∈ agetD (invStep acc e) b [] ↔ a ∈ agetD acc b [] ∨ (b ∈ e.2 ∧ a = e.1) := by
  unfold invStep
  have key := foldl_view_iff (σ := List (Comp × List Comp)) (γ := Comp × Comp)
    (view := fun acc c => c.2 ∈ agetD acc c.1 [])
    (f := fun acc dep => upsert acc dep (sinsert (agetD acc dep []) e.1))
    (P := fun dep c => dep = c.1 ∧ c.2 = e.1) e.2
    (fun dep _ s c => mem_agetD_upsert_sinsert s dep e.1 c.1 c.2) acc (b, a)
  rw [key]
  constructor
  · rintro (h | ⟨dep, hdep, rfl, h⟩)
    · exact Or.inl h
    · exact Or.inr ⟨hdep, h⟩
  · rintro (h | ⟨hb, h⟩)
    · exact Or.inl h
    · exact Or.inr ⟨b, hb, rfl, h⟩

theorem mem_akeys_invStep (acc : List (Comp × List Comp)) (e : Comp × List Comp) (b : Comp) :
    b ∈ akeys (invStep acc e) ↔ b ∈ akeys acc ∨ b ∈ e.2 := by
  unfold invStep
  have key := foldl_view_iff (σ := List (Comp × List Comp)) (γ := Comp)
    (view := fun acc c => c ∈ akeys acc)
    (f := fun acc dep => upsert acc dep (sinsert (agetD acc dep []) e.1))
    (P := fun dep c => c = dep) e.2
    (fun dep _ s c => rt_mem_akeys_upsert) acc b
  simpa using key

theorem Wiring.mem_agetD_inverseTree (w : Wiring) (b a : Comp) :
    a ∈ agetD w.inverseTree b [] ↔ ∃ ent ∈ w, b ∈ (w.children ent.1).getD [] ∧ a = ent.1 := by
  rw [Wiring.inverseTree_eq]
  have key := foldl_view_iff (σ := List (Comp × List Comp)) (γ := Comp × Comp)
    (view := fun acc c => c.2 ∈ agetD acc c.1 [])
    (f := invStep) (P := fun e c => c.1 ∈ e.2 ∧ c.2 = e.1) w.componentTree
    (fun e _ s c => mem_agetD_invStep s e c.1 c.2)
    (w.components.map (fun c => (c, []))) (b, a)
  simp only [agetD_map_nil, List.not_mem_nil, false_or] at key
  rw [key]
  unfold Wiring.componentTree
  constructor
  · rintro ⟨e, he, hb, ha⟩
    obtain ⟨ent, hent, rfl⟩ := List.mem_map.1 he
    exact ⟨ent, hent, hb, ha⟩
  · rintro ⟨ent, hent, hb, ha⟩
    exact ⟨_, List.mem_map.2 ⟨ent, hent, rfl⟩, hb, ha⟩

theorem Wiring.mem_akeys_inverseTree (w : Wiring) (b : Comp) :
    b ∈ akeys w.inverseTree ↔ b ∈ w.components ∨ ∃ ent ∈ w, b ∈ (w.children ent.1).getD [] := by
  rw [Wiring.inverseTree_eq]
  have key := foldl_view_iff (σ := List (Comp × List Comp)) (γ := Comp)
    (view := fun acc c => c ∈ akeys acc)
    (f := invStep) (P := fun e c => c ∈ e.2) w.componentTree
    (fun e _ s c => mem_akeys_invStep s e c)
    (w.components.map (fun c => (c, []))) b
  simp only [akeys_map_nil] at key
  rw [key]
  unfold Wiring.componentTree
  constructor
  · rintro (h | ⟨e, he, hb⟩)
    · exact Or.inl h
    · obtain ⟨ent, hent, rfl⟩ := List.mem_map.1 he
      exact Or.inr ⟨ent, hent, hb⟩
  · rintro (h | ⟨ent, hent, hb⟩)
    · exact Or.inl h
    · exact Or.inr ⟨_, List.mem_map.2 ⟨ent, hent, rfl⟩, hb⟩

theorem Wiring.mem_getD_children_iff {w : Wiring} (h : w.WF) {ent : Comp × List (Port × List CPort)}
    (hent : ent ∈ w) (b : Comp) : b ∈ (w.children ent.1).getD [] ↔ w.Edge ent.1 b := by
  have h1 : alookup w ent.1 = some ent.2 := alookup_of_mem h.1 hent
  obtain ⟨ch, hch⟩ := Wiring.children_of_alookup h1
  rw [hch, Option.getD_some]
  exact Wiring.mem_children_iff' h hch b

theorem Wiring.mem_ups_iff' {w : Wiring} (h : w.WF) {b : Comp} {us : List Comp}
    (hu : w.ups b = some us) (a : Comp) : a ∈ us ↔ w.Edge a b := by
  have hus : us = agetD w.inverseTree b [] := by
    unfold Wiring.ups at hu
    simp [agetD, hu]
  rw [hus, Wiring.mem_agetD_inverseTree]
  constructor
  · rintro ⟨ent, hent, hb, rfl⟩
    exact (Wiring.mem_getD_children_iff h hent b).1 hb
  · intro he
    obtain ⟨p, q, ports, ins, h1, _⟩ := id he
    have hent : (a, ports) ∈ w := mem_of_alookup h1
    exact ⟨(a, ports), hent, (Wiring.mem_getD_children_iff h hent b).2 he, rfl⟩

theorem Wiring.ups_isSome_iff' (w : Wiring) (b : Comp) : (w.ups b).isSome ↔ b ∈ w.components := by
  unfold Wiring.ups
  rw [rt_alookup_isSome_iff, Wiring.mem_akeys_inverseTree]
  constructor
  · rintro (h | ⟨ent, _, hb⟩)
    · exact h
    · cases hch : w.children ent.1 with
      | none => simp [hch] at hb
      | some ch =>
        rw [hch, Option.getD_some] at hb
        exact (Wiring.mem_components w b).2 (Or.inl (Wiring.children_subset_inputs hch b hb))
  · exact Or.inl

end Tickit
