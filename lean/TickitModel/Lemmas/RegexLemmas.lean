/-
Helper lemmas for the derivative-based matcher.
-/
import TickitModel.Core.Regex

namespace Tickit

namespace Regex

/-! ### inversion of the denotational semantics, one lemma per constructor -/

theorem matches_empty_iff {w : List Char} : Matches .empty w ↔ False :=
  ⟨fun h => (by cases h), False.elim⟩

theorem matches_eps_iff {w : List Char} : Matches .eps w ↔ w = [] :=
  ⟨fun h => (by cases h; rfl), fun h => h ▸ Matches.eps⟩

theorem matches_chr_iff {d : Char} {w : List Char} : Matches (.chr d) w ↔ w = [d] :=
  ⟨fun h => (by cases h; rfl), fun h => h ▸ Matches.chr d⟩

theorem matches_cls_iff {rs : List (Char × Char)} {neg : Bool} {w : List Char} :
    Matches (.cls rs neg) w ↔ ∃ c, w = [c] ∧ (inRanges c rs != neg) = true := by
  constructor
  · intro h
    cases h with
    | cls c _ _ hc => exact ⟨c, rfl, hc⟩
  · rintro ⟨c, rfl, hc⟩
    exact Matches.cls c rs neg hc

theorem matches_any_iff {w : List Char} : Matches .any w ↔ ∃ c, w = [c] ∧ c ≠ '\n' := by
  constructor
  · intro h
    cases h with
    | any c hc => exact ⟨c, rfl, hc⟩
  · rintro ⟨c, rfl, hc⟩
    exact Matches.any c hc

theorem matches_seq_iff {r s : Regex} {w : List Char} :
    Matches (.seq r s) w ↔ ∃ u v, w = u ++ v ∧ Matches r u ∧ Matches s v := by
  constructor
  · intro h
    cases h with
    | seq hr hs => exact ⟨_, _, rfl, hr, hs⟩
  · rintro ⟨u, v, rfl, hr, hs⟩
    exact Matches.seq hr hs

theorem matches_alt_iff {r s : Regex} {w : List Char} :
    Matches (.alt r s) w ↔ Matches r w ∨ Matches s w := by
  constructor
  · intro h
    cases h with
    | altL h => exact Or.inl h
    | altR h => exact Or.inr h
  · rintro (h | h)
    · exact Matches.altL h
    · exact Matches.altR h

/-- a match of `star r` is empty or starts with a NON-EMPTY iteration of `r` -/
theorem matches_star_inv {r : Regex} {w : List Char} (h : Matches (.star r) w) :
    w = [] ∨ ∃ u v, u ≠ [] ∧ w = u ++ v ∧ Matches r u ∧ Matches (.star r) v := by
  generalize hq : Regex.star r = q at h
  induction h with
  | starNil => exact Or.inl rfl
  | @starCons r' u v hu hv _ ih =>
    cases hq
    cases u with
    | nil => simpa using ih rfl
    | cons c u => exact Or.inr ⟨c :: u, v, by simp, rfl, hu, hv⟩
  | _ => cases hq

theorem matches_star_iff {r : Regex} {w : List Char} :
    Matches (.star r) w ↔
      w = [] ∨ ∃ u v, u ≠ [] ∧ w = u ++ v ∧ Matches r u ∧ Matches (.star r) v := by
  constructor
  · exact matches_star_inv
  · rintro (rfl | ⟨u, v, _, rfl, hu, hv⟩)
    · exact Matches.starNil
    · exact Matches.starCons hu hv

/-- a match of `star r` on `c :: w`: the first iteration consumes `c` -/
theorem matches_star_cons_iff {r : Regex} {c : Char} {w : List Char} :
    Matches (.star r) (c :: w) ↔
      ∃ u v, w = u ++ v ∧ Matches r (c :: u) ∧ Matches (.star r) v := by
  constructor
  · intro h
    rcases matches_star_inv h with h0 | ⟨u, v, hne, hw, hu, hv⟩
    · cases h0
    · cases u with
      | nil => exact absurd rfl hne
      | cons d u =>
        simp only [List.cons_append, List.cons.injEq] at hw
        obtain ⟨rfl, rfl⟩ := hw
        exact ⟨u, v, rfl, hu, hv⟩
  · rintro ⟨u, v, rfl, hu, hv⟩
    exact Matches.starCons hu hv

/-- a match of `seq r s` on `c :: w`: either `r` consumes `c`, or `r` matches `[]` and `s`
consumes `c` -/
theorem matches_seq_cons_iff {r s : Regex} {c : Char} {w : List Char} :
    Matches (.seq r s) (c :: w) ↔
      (∃ u v, w = u ++ v ∧ Matches r (c :: u) ∧ Matches s v) ∨
      (Matches r [] ∧ Matches s (c :: w)) := by
  constructor
  · intro h
    obtain ⟨u, v, hw, hu, hv⟩ := matches_seq_iff.mp h
    cases u with
    | nil =>
      simp only [List.nil_append] at hw
      subst hw
      exact Or.inr ⟨hu, hv⟩
    | cons d u =>
      simp only [List.cons_append, List.cons.injEq] at hw
      obtain ⟨rfl, rfl⟩ := hw
      exact Or.inl ⟨u, v, rfl, hu, hv⟩
  · rintro (⟨u, v, rfl, hu, hv⟩ | ⟨hr, hs⟩)
    · exact Matches.seq hu hv
    · exact Matches.seq (u := []) hr hs

/-! ### (1) `nullable` decides membership of the empty string -/

theorem nullable_iff (r : Regex) : r.nullable = true ↔ Matches r [] := by
  induction r with
  | empty => simp [nullable, matches_empty_iff]
  | eps => simp [nullable, matches_eps_iff]
  | chr d => simp [nullable, matches_chr_iff]
  | cls rs neg => simp [nullable, matches_cls_iff]
  | any => simp [nullable, matches_any_iff]
  | seq r s ihr ihs =>
    simp only [nullable, Bool.and_eq_true, ihr, ihs, matches_seq_iff]
    constructor
    · rintro ⟨hr, hs⟩
      exact ⟨[], [], rfl, hr, hs⟩
    · rintro ⟨u, v, hw, hr, hs⟩
      have h := List.append_eq_nil_iff.mp hw.symm
      obtain ⟨rfl, rfl⟩ := h
      exact ⟨hr, hs⟩
  | alt r s ihr ihs =>
    simp only [nullable, Bool.or_eq_true, ihr, ihs, matches_alt_iff]
  | star r _ =>
    simp only [nullable, true_iff]
    exact Matches.starNil

/-! ### (2) the derivative is the left quotient -/

theorem deriv_matches (r : Regex) (c : Char) (w : List Char) :
    Matches (r.deriv c) w ↔ Matches r (c :: w) := by
  induction r generalizing w with
  | empty => simp [deriv, matches_empty_iff]
  | eps => simp [deriv, matches_empty_iff, matches_eps_iff]
  | chr d =>
    simp only [deriv, matches_chr_iff]
    by_cases h : c = d
    · simp [h, matches_eps_iff]
    · simp [h, matches_empty_iff]
  | cls rs neg =>
    simp only [deriv, matches_cls_iff]
    by_cases h : (inRanges c rs != neg) = true
    · rw [if_pos h, matches_eps_iff]
      constructor
      · rintro rfl
        exact ⟨c, rfl, h⟩
      · rintro ⟨d, hd, _⟩
        simp only [List.cons.injEq] at hd
        exact hd.2
    · rw [if_neg h, matches_empty_iff, false_iff]
      rintro ⟨d, hd, hd'⟩
      simp only [List.cons.injEq] at hd
      obtain ⟨rfl, _⟩ := hd
      exact h hd'
  | any =>
    simp only [deriv, matches_any_iff]
    by_cases h : c = '\n'
    · rw [if_pos h, matches_empty_iff, false_iff]
      rintro ⟨d, hd, hd'⟩
      simp only [List.cons.injEq] at hd
      exact hd' (hd.1.symm.trans h)
    · rw [if_neg h, matches_eps_iff]
      constructor
      · rintro rfl
        exact ⟨c, rfl, h⟩
      · rintro ⟨d, hd, _⟩
        simp only [List.cons.injEq] at hd
        exact hd.2
  | seq r s ihr ihs =>
    rw [matches_seq_cons_iff]
    simp only [deriv]
    by_cases hn : r.nullable = true
    · have hr : Matches r [] := (nullable_iff r).mp hn
      rw [if_pos hn]
      simp only [matches_alt_iff, matches_seq_iff, ihr, ihs]
      constructor
      · rintro (h | h)
        · exact Or.inl h
        · exact Or.inr ⟨hr, h⟩
      · rintro (h | ⟨_, h⟩)
        · exact Or.inl h
        · exact Or.inr h
    · have hr : ¬ Matches r [] := fun h => hn ((nullable_iff r).mpr h)
      rw [if_neg hn]
      simp only [matches_seq_iff, ihr]
      constructor
      · intro h
        exact Or.inl h
      · rintro (h | ⟨h, _⟩)
        · exact h
        · exact absurd h hr
  | alt r s ihr ihs =>
    simp only [deriv, matches_alt_iff, ihr, ihs]
  | star r ih =>
    rw [matches_star_cons_iff]
    simp only [deriv, matches_seq_iff, ih]

/-! ### (3) the matcher -/

theorem accepts_iff (r : Regex) (s : List Char) : r.accepts s = true ↔ Matches r s := by
  induction s generalizing r with
  | nil => simpa [accepts] using nullable_iff r
  | cons c cs ih =>
    simp only [accepts]
    rw [ih, deriv_matches]

end Regex

end Tickit
