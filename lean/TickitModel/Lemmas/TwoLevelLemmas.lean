/-
Helper lemmas for the two-level composition (master scheduler + one nested scheduler).
-/
import TickitModel.Core.TwoLevel
import TickitModel.Lemmas.MasterLemmas
import TickitModel.Lemmas.NestedIntLemmas

namespace Tickit.TwoLevel
open Tickit

/-! ### what the constituent steps do to the fields the link talks about -/

theorem m_interrupt {s s' : MSt} {c : Comp} {stamp : SimTime}
    (hs : s.step (.interrupt c stamp) = some s') :
    s'.ticking = s.ticking ∧ s'.owed = sinsert s.owed c := by
  rw [MSt.step_interrupt_eq] at hs
  simp only [Option.some.injEq] at hs
  subst hs
  exact ⟨rfl, rfl⟩

theorem m_output {s s' : MSt} {c : Comp} {callAt : Option SimTime}
    (hs : s.step (.output c callAt) = some s') :
    s'.ticking = s.ticking ∧ s'.owed = s.owed := by
  cases callAt <;> simp only [MSt.step, Option.some.injEq] at hs <;> subst hs <;> exact ⟨rfl, rfl⟩

theorem m_startTick {s s' : MSt} (hs : s.step .startTick = some s') :
    s.ticking = none ∧ (∃ cs, s'.ticking = some cs) ∧ s'.owed = s.owed := by
  obtain ⟨cs, m, ht, _, rfl⟩ := s.step_startTick_eq s' hs
  exact ⟨ht, ⟨cs, rfl⟩, rfl⟩

theorem m_beginUpdate {s s' : MSt} {c : Comp} (hs : s.step (.beginUpdate c) = some s') :
    ∃ rem, s.ticking = some rem ∧ s'.ticking = some (rem.filter (· != c)) ∧
      s'.owed = s.owed.filter (· != c) := by
  obtain ⟨rem, ht, rfl⟩ := s.step_beginUpdate_eq s' c hs
  exact ⟨rem, ht, rfl, rfl⟩

theorem m_endTick {s s' : MSt} (hs : s.step .endTick = some s') :
    s.ticking = some [] ∧ s'.ticking = none ∧ s'.owed = s.owed := by
  obtain ⟨ht, rfl⟩ := s.step_endTick_eq s' hs
  exact ⟨ht, rfl, rfl⟩

theorem n_interrupt {s s' : NSt} {c : Comp} (hs : s.step (.interrupt c) = some s') :
    s' = { s with queued := sinsert s.queued c, upOwed := true, owed := sinsert s.owed c } := by
  simp only [NSt.step, Option.some.injEq] at hs
  exact hs.symm

theorem n_startTick {s s' : NSt} {due : List Comp} (hs : s.step (.startTick due) = some s') :
    s.ticking = none ∧
      s' = { s with ticking := some (sunion s.queued due), queued := [], upOwed := false } := by
  simp only [NSt.step] at hs
  cases ht : s.ticking with
  | some r => simp [ht] at hs
  | none =>
    simp only [ht, Option.some.injEq] at hs
    exact ⟨rfl, hs.symm⟩

theorem n_beginUpdate {s s' : NSt} {c : Comp} (hs : s.step (.beginUpdate c) = some s') :
    ∃ rem, s.ticking = some rem ∧
      s' = { s with ticking := some (rem.filter (· != c)), owed := s.owed.filter (· != c) } := by
  simp only [NSt.step] at hs
  cases ht : s.ticking with
  | none => simp [ht] at hs
  | some rem =>
    simp only [ht, Option.some.injEq] at hs
    exact ⟨rem, rfl, hs.symm⟩

theorem n_endTick {s s' : NSt} (hs : s.step .endTick = some s') :
    s.ticking = some [] ∧ s' = { s with ticking := none } := by
  simp only [NSt.step] at hs
  cases ht : s.ticking with
  | none => simp [ht] at hs
  | some rem =>
    cases rem with
    | cons x xs => simp [ht] at hs
    | nil =>
      simp only [ht, Option.some.injEq] at hs
      exact ⟨rfl, hs.symm⟩

/-! ### the composed step, action by action -/

section
variable {sys : Comp} {s s' : TSt}

theorem step_innerInterrupt {c : Comp} {stamp : SimTime}
    (hs : s.step sys (.innerInterrupt c stamp) = some s') :
    ∃ m' n', s.m.step (.interrupt sys stamp) = some m' ∧ s.n.step (.interrupt c) = some n' ∧
      s' = { m := m', n := n' } := by
  simp only [TSt.step] at hs
  cases hm : s.m.step (.interrupt sys stamp) with
  | none => simp [hm] at hs
  | some m' =>
    cases hn : s.n.step (.interrupt c) with
    | none => simp [hm, hn] at hs
    | some n' =>
      simp only [hm, hn, Option.some.injEq] at hs
      exact ⟨m', n', rfl, rfl, hs.symm⟩

theorem step_topInterrupt {c : Comp} {stamp : SimTime}
    (hs : s.step sys (.topInterrupt c stamp) = some s') :
    c ≠ sys ∧ ∃ m', s.m.step (.interrupt c stamp) = some m' ∧ s' = { s with m := m' } := by
  simp only [TSt.step] at hs
  split at hs
  · cases hs
  · rename_i hne
    obtain ⟨m', hm, rfl⟩ := Option.map_eq_some_iff.mp hs
    exact ⟨hne, m', hm, rfl⟩

theorem step_output {c : Comp} {callAt : Option SimTime}
    (hs : s.step sys (.output c callAt) = some s') :
    (c = sys → s.n.ticking = none) ∧
      ∃ m', s.m.step (.output c callAt) = some m' ∧ s' = { s with m := m' } := by
  simp only [TSt.step] at hs
  split at hs
  · cases hs
  · rename_i hne
    obtain ⟨m', hm, rfl⟩ := Option.map_eq_some_iff.mp hs
    refine ⟨?_, m', hm, rfl⟩
    intro hc
    cases ht : s.n.ticking with
    | none => rfl
    | some r => exact absurd ⟨hc, by simp [ht]⟩ hne

theorem step_startTick (hs : s.step sys .startTick = some s') :
    ∃ m', s.m.step .startTick = some m' ∧ s' = { s with m := m' } := by
  simp only [TSt.step] at hs
  obtain ⟨m', hm, rfl⟩ := Option.map_eq_some_iff.mp hs
  exact ⟨m', hm, rfl⟩

theorem step_beginUpdate {c : Comp} (hs : s.step sys (.beginUpdate c) = some s') :
    c ≠ sys ∧ ∃ m', s.m.step (.beginUpdate c) = some m' ∧ s' = { s with m := m' } := by
  simp only [TSt.step] at hs
  split at hs
  · cases hs
  · rename_i hne
    obtain ⟨m', hm, rfl⟩ := Option.map_eq_some_iff.mp hs
    exact ⟨hne, m', hm, rfl⟩

theorem step_beginSys {due : List Comp} (hs : s.step sys (.beginSys due) = some s') :
    ∃ m' n', s.m.step (.beginUpdate sys) = some m' ∧ s.n.step (.startTick due) = some n' ∧
      s' = { m := m', n := n' } := by
  simp only [TSt.step] at hs
  cases hm : s.m.step (.beginUpdate sys) with
  | none => simp [hm] at hs
  | some m' =>
    cases hn : s.n.step (.startTick due) with
    | none => simp [hm, hn] at hs
    | some n' =>
      simp only [hm, hn, Option.some.injEq] at hs
      exact ⟨m', n', rfl, rfl, hs.symm⟩

theorem step_innerBegin {c : Comp} (hs : s.step sys (.innerBegin c) = some s') :
    ∃ n', s.n.step (.beginUpdate c) = some n' ∧ s' = { s with n := n' } := by
  simp only [TSt.step] at hs
  obtain ⟨n', hn, rfl⟩ := Option.map_eq_some_iff.mp hs
  exact ⟨n', hn, rfl⟩

theorem step_innerEnd (hs : s.step sys .innerEnd = some s') :
    ∃ n', s.n.step .endTick = some n' ∧ s' = { s with n := n' } := by
  simp only [TSt.step] at hs
  obtain ⟨n', hn, rfl⟩ := Option.map_eq_some_iff.mp hs
  exact ⟨n', hn, rfl⟩

theorem step_endTick (hs : s.step sys .endTick = some s') :
    s.n.ticking = none ∧ ∃ m', s.m.step .endTick = some m' ∧ s' = { s with m := m' } := by
  simp only [TSt.step] at hs
  split at hs
  · cases hs
  · rename_i hne
    obtain ⟨m', hm, rfl⟩ := Option.map_eq_some_iff.mp hs
    refine ⟨?_, m', hm, rfl⟩
    cases ht : s.n.ticking with
    | none => rfl
    | some r => exact absurd (by simp [ht]) hne

end

/-! ### the invariant of the composition -/

/-- both levels keep their own invariant, and they are linked: whenever the nested scheduler
believes the enclosing one has been told (`upOwed`), the master does owe `sys` an update; and an
inner tick only runs inside a master tick. -/
structure TInv (sys : Comp) (s : TSt) : Prop where
  m : MInv s.m
  n : NInv s.n
  link : s.n.upOwed = true → sys ∈ s.m.owed
  tick : s.m.ticking = none → s.n.ticking = none
  /-- everything queued has been passed up (also components that are not owed an update) -/
  told : ∀ c ∈ s.n.queued, s.n.upOwed = true

theorem TInv.init (sys : Comp) : TInv sys {} where
  m := MInv.init
  n := NInv.init
  link := by intro h; cases h
  tick := by intro _; rfl
  told := by intro c hc; cases hc

theorem mem_filter_ne {c x : Comp} {l : List Comp} (h : x ∈ l) (hne : x ≠ c) :
    x ∈ l.filter (· != c) := by
  rw [List.mem_filter]
  exact ⟨h, by simpa using hne⟩

theorem TInv.step {sys : Comp} {s s' : TSt} (h : TInv sys s) (a : TAct)
    (hs : s.step sys a = some s') : TInv sys s' := by
  cases a with
  | innerInterrupt c stamp =>
    obtain ⟨m', n', hm, hn, rfl⟩ := step_innerInterrupt hs
    obtain ⟨hmt, hmo⟩ := m_interrupt hm
    have hn' := n_interrupt hn
    refine ⟨h.m.step _ hm, NInv.step _ _ _ h.n hn, ?_, ?_, ?_⟩
    · intro _
      show sys ∈ m'.owed
      rw [hmo]
      exact (mem_sinsert _ _ _).mpr (Or.inr rfl)
    · intro ht
      show n'.ticking = none
      rw [hn']
      exact h.tick (hmt ▸ ht)
    · intro _ _
      show n'.upOwed = true
      rw [hn']
  | topInterrupt c stamp =>
    obtain ⟨_, m', hm, rfl⟩ := step_topInterrupt hs
    obtain ⟨hmt, hmo⟩ := m_interrupt hm
    refine ⟨h.m.step _ hm, h.n, ?_, ?_, h.told⟩
    · intro hu
      show sys ∈ m'.owed
      rw [hmo]
      exact (mem_sinsert _ _ _).mpr (Or.inl (h.link hu))
    · intro ht
      exact h.tick (hmt ▸ ht)
  | output c callAt =>
    obtain ⟨_, m', hm, rfl⟩ := step_output hs
    obtain ⟨hmt, hmo⟩ := m_output hm
    refine ⟨h.m.step _ hm, h.n, ?_, ?_, h.told⟩
    · intro hu
      show sys ∈ m'.owed
      rw [hmo]
      exact h.link hu
    · intro ht
      exact h.tick (hmt ▸ ht)
  | startTick =>
    obtain ⟨m', hm, rfl⟩ := step_startTick hs
    obtain ⟨_, ⟨cs, hcs⟩, hmo⟩ := m_startTick hm
    refine ⟨h.m.step _ hm, h.n, ?_, ?_, h.told⟩
    · intro hu
      show sys ∈ m'.owed
      rw [hmo]
      exact h.link hu
    · intro ht
      have ht' : m'.ticking = none := ht
      rw [hcs] at ht'
      cases ht'
  | beginUpdate c =>
    obtain ⟨hne, m', hm, rfl⟩ := step_beginUpdate hs
    obtain ⟨rem, _, hmt, hmo⟩ := m_beginUpdate hm
    refine ⟨h.m.step _ hm, h.n, ?_, ?_, h.told⟩
    · intro hu
      show sys ∈ m'.owed
      rw [hmo]
      exact mem_filter_ne (h.link hu) (Ne.symm hne)
    · intro ht
      have ht' : m'.ticking = none := ht
      rw [hmt] at ht'
      cases ht'
  | beginSys due =>
    obtain ⟨m', n', hm, hn, rfl⟩ := step_beginSys hs
    obtain ⟨rem, _, hmt, _⟩ := m_beginUpdate hm
    obtain ⟨_, hn'⟩ := n_startTick hn
    refine ⟨h.m.step _ hm, NInv.step _ _ _ h.n hn, ?_, ?_, ?_⟩
    · intro hu
      have hu' : n'.upOwed = true := hu
      rw [hn'] at hu'
      cases hu'
    · intro ht
      have ht' : m'.ticking = none := ht
      rw [hmt] at ht'
      cases ht'
    · intro c hc
      have hc' : c ∈ n'.queued := hc
      rw [hn'] at hc'
      cases hc'
  | innerBegin c =>
    obtain ⟨n', hn, rfl⟩ := step_innerBegin hs
    obtain ⟨rem, hnt, hn'⟩ := n_beginUpdate hn
    refine ⟨h.m, NInv.step _ _ _ h.n hn, ?_, ?_, ?_⟩
    · intro hu
      have hu' : n'.upOwed = true := hu
      rw [hn'] at hu'
      exact h.link hu'
    · intro ht
      have := h.tick ht
      rw [hnt] at this
      cases this
    · intro c hc
      have hc' : c ∈ n'.queued := hc
      show n'.upOwed = true
      rw [hn'] at hc' ⊢
      exact h.told c hc'
  | innerEnd =>
    obtain ⟨n', hn, rfl⟩ := step_innerEnd hs
    obtain ⟨_, hn'⟩ := n_endTick hn
    refine ⟨h.m, NInv.step _ _ _ h.n hn, ?_, ?_, ?_⟩
    · intro hu
      have hu' : n'.upOwed = true := hu
      rw [hn'] at hu'
      exact h.link hu'
    · intro _
      show n'.ticking = none
      rw [hn']
    · intro c hc
      have hc' : c ∈ n'.queued := hc
      show n'.upOwed = true
      rw [hn'] at hc' ⊢
      exact h.told c hc'
  | endTick =>
    obtain ⟨hnt, m', hm, rfl⟩ := step_endTick hs
    obtain ⟨_, _, hmo⟩ := m_endTick hm
    refine ⟨h.m.step _ hm, h.n, ?_, ?_, h.told⟩
    · intro hu
      show sys ∈ m'.owed
      rw [hmo]
      exact h.link hu
    · intro _
      exact hnt

/-! ### histories -/

theorem run_nil (s : TSt) (sys : Comp) : s.run sys [] = s := rfl

theorem run_cons_some {s s' : TSt} {sys : Comp} {a : TAct} (hs : s.step sys a = some s')
    (h : List TAct) : s.run sys (a :: h) = s'.run sys h := by
  simp only [TSt.run, hs]

theorem run_cons_none {s : TSt} {sys : Comp} {a : TAct} (hs : s.step sys a = none)
    (h : List TAct) : s.run sys (a :: h) = s.run sys h := by
  simp only [TSt.run, hs]

theorem run_append (s : TSt) (sys : Comp) (h1 h2 : List TAct) :
    s.run sys (h1 ++ h2) = (s.run sys h1).run sys h2 := by
  induction h1 generalizing s with
  | nil => rfl
  | cons a h1 ih =>
    cases hs : s.step sys a with
    | none => rw [List.cons_append, run_cons_none hs, run_cons_none hs, ih]
    | some s' => rw [List.cons_append, run_cons_some hs, run_cons_some hs, ih]

theorem TInv.run {sys : Comp} {s : TSt} (h : TInv sys s) (acts : List TAct) :
    TInv sys (s.run sys acts) := by
  induction acts generalizing s with
  | nil => exact h
  | cons a as ih =>
    cases hs : s.step sys a with
    | none => rw [run_cons_none hs]; exact ih h
    | some s' => rw [run_cons_some hs]; exact ih (h.step a hs)

/-! ### executed actions -/

theorem exec_here {s : TSt} {sys : Comp} {a : TAct} {B : TAct → Prop} (hB : B a)
    (hs : (s.step sys a).isSome = true) (h : List TAct) : s.Executes sys (a :: h) B :=
  ⟨[], a, h, rfl, hB, hs⟩

theorem exec_cons_some {s s' : TSt} {sys : Comp} {a : TAct} {B : TAct → Prop}
    (hs : s.step sys a = some s') {h : List TAct} (he : s'.Executes sys h B) :
    s.Executes sys (a :: h) B := by
  obtain ⟨h1, b, h2, rfl, hB, hen⟩ := he
  exact ⟨a :: h1, b, h2, rfl, hB, by rw [run_cons_some hs]; exact hen⟩

theorem exec_cons_none {s : TSt} {sys : Comp} {a : TAct} {B : TAct → Prop}
    (hs : s.step sys a = none) {h : List TAct} (he : s.Executes sys h B) :
    s.Executes sys (a :: h) B := by
  obtain ⟨h1, b, h2, rfl, hB, hen⟩ := he
  exact ⟨a :: h1, b, h2, rfl, hB, by rw [run_cons_none hs]; exact hen⟩

theorem exec_append_right {s : TSt} {sys : Comp} {B : TAct → Prop} {h : List TAct}
    (he : s.Executes sys h B) (h' : List TAct) : s.Executes sys (h ++ h') B := by
  obtain ⟨h1, b, h2, rfl, hB, hen⟩ := he
  exact ⟨h1, b, h2 ++ h', by simp, hB, hen⟩

theorem exec_append_left {s : TSt} {sys : Comp} {B : TAct → Prop} (h : List TAct)
    {h' : List TAct} (he : (s.run sys h).Executes sys h' B) : s.Executes sys (h ++ h') B := by
  obtain ⟨h1, b, h2, rfl, hB, hen⟩ := he
  exact ⟨h ++ h1, b, h2, by simp, hB, by rw [run_append]; exact hen⟩

/-- a property that only actions in `B` can destroy holds after a history, unless an action in
`B` was executed in it. -/
theorem persists {sys : Comp} (P : TSt → Prop) (B : TAct → Prop)
    (hstep : ∀ s s' a, P s → s.step sys a = some s' → ¬ B a → P s') :
    ∀ (h : List TAct) (s : TSt), P s → s.Executes sys h B ∨ P (s.run sys h) := by
  intro h
  induction h with
  | nil => intro s hP; exact Or.inr hP
  | cons a h ih =>
    intro s hP
    cases hs : s.step sys a with
    | none =>
      rw [run_cons_none hs]
      rcases ih s hP with he | hP'
      · exact Or.inl (exec_cons_none hs he)
      · exact Or.inr hP'
    | some s' =>
      rw [run_cons_some hs]
      by_cases hB : B a
      · exact Or.inl (exec_here hB (by rw [hs]; rfl) h)
      · rcases ih s' (hstep s s' a hP hs hB) with he | hP'
        · exact Or.inl (exec_cons_some hs he)
        · exact Or.inr hP'

/-! ### the obligations and what can discharge them -/

/-- the nested scheduler still has to update `c`: it is an unbegun root of the running inner
tick, or it is queued for the next one -/
def InnerObl (c : Comp) (s : TSt) : Prop := s.InnerRoot c ∨ c ∈ s.n.queued

theorem innerObl_of_owed {s : TSt} (hn : NInv s.n) {c : Comp} (hc : c ∈ s.n.owed) :
    InnerObl c s := by
  rcases hn.owed c hc with hr | ⟨hq, _⟩
  · exact Or.inl hr
  · exact Or.inr hq

/-- only the beginning of `c`'s update discharges the nested obligation -/
theorem innerObl_step {sys : Comp} {c : Comp} (s s' : TSt) (a : TAct) (hP : InnerObl c s)
    (hs : s.step sys a = some s') (hB : ¬ a = TAct.innerBegin c) : InnerObl c s' := by
  cases a with
  | innerInterrupt c' stamp =>
    obtain ⟨m', n', _, hn, rfl⟩ := step_innerInterrupt hs
    have hn' := n_interrupt hn
    subst hn'
    rcases hP with hr | hq
    · exact Or.inl hr
    · exact Or.inr ((mem_sinsert _ _ _).mpr (Or.inl hq))
  | topInterrupt c' stamp =>
    obtain ⟨_, m', _, rfl⟩ := step_topInterrupt hs
    exact hP
  | output c' callAt =>
    obtain ⟨_, m', _, rfl⟩ := step_output hs
    exact hP
  | startTick =>
    obtain ⟨m', _, rfl⟩ := step_startTick hs
    exact hP
  | beginUpdate c' =>
    obtain ⟨_, m', _, rfl⟩ := step_beginUpdate hs
    exact hP
  | beginSys due =>
    obtain ⟨m', n', _, hn, rfl⟩ := step_beginSys hs
    obtain ⟨hnt, hn'⟩ := n_startTick hn
    subst hn'
    rcases hP with ⟨rem, hr, _⟩ | hq
    · rw [hnt] at hr; cases hr
    · exact Or.inl ⟨_, rfl, ni_mem_sunion_left _ _ _ hq⟩
  | innerBegin c' =>
    obtain ⟨n', hn, rfl⟩ := step_innerBegin hs
    obtain ⟨rem, hnt, hn'⟩ := n_beginUpdate hn
    subst hn'
    have hne : c ≠ c' := by
      intro heq
      exact hB (by rw [heq])
    rcases hP with ⟨rem', hr, hin⟩ | hq
    · rw [hnt] at hr
      cases hr
      exact Or.inl ⟨_, rfl, mem_filter_ne hin hne⟩
    · exact Or.inr hq
  | innerEnd =>
    obtain ⟨n', hn, rfl⟩ := step_innerEnd hs
    obtain ⟨hnt, hn'⟩ := n_endTick hn
    subst hn'
    rcases hP with ⟨rem', hr, hin⟩ | hq
    · rw [hnt] at hr
      cases hr
      cases hin
    · exact Or.inr hq
  | endTick =>
    obtain ⟨_, m', _, rfl⟩ := step_endTick hs
    exact hP

/-- once `c` is a root of the running inner tick, only the beginning of its update changes that:
the inner tick cannot end, and no new inner tick can start -/
theorem innerRoot_step {sys : Comp} {c : Comp} (s s' : TSt) (a : TAct) (hP : s.InnerRoot c)
    (hs : s.step sys a = some s') (hB : ¬ a = TAct.innerBegin c) : s'.InnerRoot c := by
  obtain ⟨rem, hr, hin⟩ := hP
  cases a with
  | innerInterrupt c' stamp =>
    obtain ⟨m', n', _, hn, rfl⟩ := step_innerInterrupt hs
    have hn' := n_interrupt hn
    subst hn'
    exact ⟨rem, hr, hin⟩
  | topInterrupt c' stamp =>
    obtain ⟨_, m', _, rfl⟩ := step_topInterrupt hs
    exact ⟨rem, hr, hin⟩
  | output c' callAt =>
    obtain ⟨_, m', _, rfl⟩ := step_output hs
    exact ⟨rem, hr, hin⟩
  | startTick =>
    obtain ⟨m', _, rfl⟩ := step_startTick hs
    exact ⟨rem, hr, hin⟩
  | beginUpdate c' =>
    obtain ⟨_, m', _, rfl⟩ := step_beginUpdate hs
    exact ⟨rem, hr, hin⟩
  | beginSys due =>
    obtain ⟨m', n', _, hn, rfl⟩ := step_beginSys hs
    obtain ⟨hnt, _⟩ := n_startTick hn
    rw [hnt] at hr; cases hr
  | innerBegin c' =>
    obtain ⟨n', hn, rfl⟩ := step_innerBegin hs
    obtain ⟨rem', hnt, hn'⟩ := n_beginUpdate hn
    subst hn'
    have hne : c ≠ c' := by
      intro heq
      exact hB (by rw [heq])
    rw [hnt] at hr
    cases hr
    exact ⟨_, rfl, mem_filter_ne hin hne⟩
  | innerEnd =>
    obtain ⟨n', hn, rfl⟩ := step_innerEnd hs
    obtain ⟨hnt, _⟩ := n_endTick hn
    rw [hnt] at hr
    cases hr
    cases hin
  | endTick =>
    obtain ⟨_, m', _, rfl⟩ := step_endTick hs
    exact ⟨rem, hr, hin⟩

/-- once `sys` is a root of the running master tick, only `on_tick` of `sys` changes that: the
master tick cannot end, and no new master tick can start -/
theorem sysRoot_step {sys : Comp} (s s' : TSt) (a : TAct) (hP : s.SysRoot sys)
    (hs : s.step sys a = some s') (hB : ¬ ∃ due, a = TAct.beginSys due) : s'.SysRoot sys := by
  obtain ⟨rem, hr, hin⟩ := hP
  cases a with
  | innerInterrupt c' stamp =>
    obtain ⟨m', n', hm, _, rfl⟩ := step_innerInterrupt hs
    obtain ⟨hmt, _⟩ := m_interrupt hm
    exact ⟨rem, hmt.trans hr, hin⟩
  | topInterrupt c' stamp =>
    obtain ⟨_, m', hm, rfl⟩ := step_topInterrupt hs
    obtain ⟨hmt, _⟩ := m_interrupt hm
    exact ⟨rem, hmt.trans hr, hin⟩
  | output c' callAt =>
    obtain ⟨_, m', hm, rfl⟩ := step_output hs
    obtain ⟨hmt, _⟩ := m_output hm
    exact ⟨rem, hmt.trans hr, hin⟩
  | startTick =>
    obtain ⟨m', hm, rfl⟩ := step_startTick hs
    obtain ⟨hmt, _⟩ := m_startTick hm
    rw [hmt] at hr; cases hr
  | beginUpdate c' =>
    obtain ⟨hne, m', hm, rfl⟩ := step_beginUpdate hs
    obtain ⟨rem', hmt, hmt', _⟩ := m_beginUpdate hm
    rw [hmt] at hr
    cases hr
    exact ⟨_, hmt', mem_filter_ne hin (Ne.symm hne)⟩
  | beginSys due => exact absurd ⟨due, rfl⟩ hB
  | innerBegin c' =>
    obtain ⟨n', _, rfl⟩ := step_innerBegin hs
    exact ⟨rem, hr, hin⟩
  | innerEnd =>
    obtain ⟨n', _, rfl⟩ := step_innerEnd hs
    exact ⟨rem, hr, hin⟩
  | endTick =>
    obtain ⟨_, m', hm, rfl⟩ := step_endTick hs
    obtain ⟨hmt, _⟩ := m_endTick hm
    rw [hmt] at hr
    cases hr
    cases hin

/-- an executed `innerBegin c`, in the form used by the property statements -/
theorem begins_of_exec {sys : Comp} {s : TSt} {h : List TAct} {c : Comp}
    (he : s.Executes sys h (fun a => a = TAct.innerBegin c)) : s.Begins sys h c := by
  obtain ⟨h1, a, h2, rfl, rfl, hen⟩ := he
  obtain ⟨s', hs'⟩ := Option.isSome_iff_exists.mp hen
  refine ⟨h1, h2, s', rfl, hs', ?_⟩
  obtain ⟨n', hn, rfl⟩ := step_innerBegin hs'
  obtain ⟨rem, _, hn'⟩ := n_beginUpdate hn
  subst hn'
  intro hmem
  have hmem' : c ∈ (s.run sys h1).n.owed.filter (· != c) := hmem
  rw [List.mem_filter] at hmem'
  simp at hmem'

theorem begins_append_right {sys : Comp} {s : TSt} {h : List TAct} {c : Comp}
    (hb : s.Begins sys h c) (h' : List TAct) : s.Begins sys (h ++ h') c := by
  obtain ⟨h1, h2, s', rfl, hs, hc⟩ := hb
  exact ⟨h1, h2 ++ h', s', by simp, hs, hc⟩

theorem begins_append_left {sys : Comp} {s : TSt} (h : List TAct) {h' : List TAct} {c : Comp}
    (hb : (s.run sys h).Begins sys h' c) : s.Begins sys (h ++ h') c := by
  obtain ⟨h1, h2, s', rfl, hs, hc⟩ := hb
  exact ⟨h ++ h1, h2, s', by simp, by rw [run_append]; exact hs, hc⟩

/-- the nested obligation survives any history in which `c`'s update does not begin -/
theorem innerObl_run {sys : Comp} {c : Comp} (h : List TAct) (s : TSt) (hP : InnerObl c s) :
    s.Begins sys h c ∨ InnerObl c (s.run sys h) := by
  rcases persists (sys := sys) (InnerObl c) (fun a => a = TAct.innerBegin c)
      (fun s s' a hP hs hB => innerObl_step s s' a hP hs hB) h s hP with he | hP'
  · exact Or.inl (begins_of_exec he)
  · exact Or.inr hP'

theorem innerRoot_run {sys : Comp} {c : Comp} (h : List TAct) (s : TSt) (hP : s.InnerRoot c) :
    s.Begins sys h c ∨ (s.run sys h).InnerRoot c := by
  rcases persists (sys := sys) (fun s => s.InnerRoot c) (fun a => a = TAct.innerBegin c)
      (fun s s' a hP hs hB => innerRoot_step s s' a hP hs hB) h s hP with he | hP'
  · exact Or.inl (begins_of_exec he)
  · exact Or.inr hP'

theorem sysRoot_run {sys : Comp} (h : List TAct) (s : TSt) (hP : s.SysRoot sys) :
    s.Executes sys h (fun a => ∃ due, a = TAct.beginSys due) ∨ (s.run sys h).SysRoot sys :=
  persists (sys := sys) (fun s => s.SysRoot sys) (fun a => ∃ due, a = TAct.beginSys due)
    (fun s s' a hP hs hB => sysRoot_step s s' a hP hs hB) h s hP

/-- `on_tick` of `sys` turns the nested obligation into membership of the new inner tick's roots -/
theorem innerRoot_of_beginSys {sys : Comp} {c : Comp} {s s' : TSt} {due : List Comp}
    (hP : InnerObl c s) (hs : s.step sys (.beginSys due) = some s') : s'.InnerRoot c := by
  obtain ⟨m', n', _, hn, rfl⟩ := step_beginSys hs
  obtain ⟨hnt, hn'⟩ := n_startTick hn
  subst hn'
  rcases hP with ⟨rem, hr, _⟩ | hq
  · rw [hnt] at hr; cases hr
  · exact ⟨_, rfl, ni_mem_sunion_left _ _ _ hq⟩

/-- the master tick cannot end while an inner root has not begun its update -/
theorem endTick_disabled_of_innerRoot {sys : Comp} {c : Comp} {s : TSt} (hP : s.InnerRoot c) :
    s.step sys .endTick = none := by
  cases hs : s.step sys .endTick with
  | none => rfl
  | some s' =>
    obtain ⟨hnt, _⟩ := step_endTick hs
    obtain ⟨rem, hr, _⟩ := hP
    rw [hnt] at hr; cases hr

/-- the master tick cannot end while `sys` has not begun its update -/
theorem endTick_disabled_of_sysRoot {sys : Comp} {s : TSt} (hP : s.SysRoot sys) :
    s.step sys .endTick = none := by
  cases hs : s.step sys .endTick with
  | none => rfl
  | some s' =>
    obtain ⟨_, m', hm, _⟩ := step_endTick hs
    obtain ⟨hmt, _⟩ := m_endTick hm
    obtain ⟨rem, hr, hin⟩ := hP
    rw [hmt] at hr
    cases hr
    cases hin

/-- core of the chain: the nested obligation for `c`, an executed `on_tick` of `sys`, a later
executed master `endTick` — `c`'s update began before that `endTick`. -/
theorem chain_core {sys : Comp} {c : Comp} (s : TSt) (hP : InnerObl c s)
    (pre mid : List TAct) (due : List Comp)
    (hb : ((s.run sys pre).step sys (.beginSys due)).isSome = true)
    (he : ((s.run sys (pre ++ TAct.beginSys due :: mid)).step sys .endTick).isSome = true) :
    s.Begins sys (pre ++ TAct.beginSys due :: mid) c := by
  rcases innerObl_run (sys := sys) pre s hP with hbg | hP1
  · exact begins_append_right hbg _
  · obtain ⟨s1, hs1⟩ := Option.isSome_iff_exists.mp hb
    have hroot : s1.InnerRoot c := innerRoot_of_beginSys hP1 hs1
    have hrun : s.run sys (pre ++ TAct.beginSys due :: mid) = s1.run sys mid := by
      rw [run_append, run_cons_some hs1]
    rcases innerRoot_run (sys := sys) mid s1 hroot with hbg | hroot'
    · apply begins_append_left pre
      obtain ⟨h1, h2, s', rfl, hs, hc⟩ := hbg
      exact ⟨TAct.beginSys due :: h1, h2, s', rfl, by rw [run_cons_some hs1]; exact hs, hc⟩
    · rw [hrun, endTick_disabled_of_innerRoot hroot'] at he
      cases he

/-- the inner tick cannot end while one of its roots has not begun its update -/
theorem innerEnd_disabled_of_innerRoot {sys : Comp} {c : Comp} {s : TSt} (hP : s.InnerRoot c) :
    s.step sys .innerEnd = none := by
  cases hs : s.step sys .innerEnd with
  | none => rfl
  | some s' =>
    obtain ⟨n', hn, _⟩ := step_innerEnd hs
    obtain ⟨hnt, _⟩ := n_endTick hn
    obtain ⟨rem, hr, hin⟩ := hP
    rw [hnt] at hr
    cases hr
    cases hin

/-- the obligation is already attached to the running ticks (`c` is an unbegun inner root, or
`sys` is an unbegun root of the master tick): the NEXT master `endTick` comes after `c`'s update
has begun. -/
theorem chain_current {sys : Comp} {c : Comp} (s : TSt) (hP : InnerObl c s)
    (hroot : s.InnerRoot c ∨ s.SysRoot sys) (pre : List TAct)
    (he : ((s.run sys pre).step sys .endTick).isSome = true) : s.Begins sys pre c := by
  rcases hroot with hr | hr
  · rcases innerRoot_run (sys := sys) pre s hr with hbg | hr'
    · exact hbg
    · rw [endTick_disabled_of_innerRoot hr'] at he
      cases he
  · rcases sysRoot_run pre s hr with hex | hr'
    · obtain ⟨p1, a, p2, rfl, ⟨due, rfl⟩, hen⟩ := hex
      exact chain_core s hP p1 p2 due hen he
    · rw [endTick_disabled_of_sysRoot hr'] at he
      cases he

/-- a master tick that starts with `sys` among its roots does not end before `c`'s update has
begun. -/
theorem chain_tick {sys : Comp} {c : Comp} (s : TSt) (hP : InnerObl c s)
    (pre mid : List TAct) (s1 : TSt) (hst : (s.run sys pre).step sys .startTick = some s1)
    (hroot : s1.SysRoot sys)
    (he : ((s.run sys (pre ++ TAct.startTick :: mid)).step sys .endTick).isSome = true) :
    s.Begins sys (pre ++ TAct.startTick :: mid) c := by
  have hrun : s.run sys (pre ++ TAct.startTick :: mid) = s1.run sys mid := by
    rw [run_append, run_cons_some hst]
  rcases sysRoot_run mid s1 hroot with hex | hr'
  · obtain ⟨m1, a, m2, rfl, ⟨due, rfl⟩, hen⟩ := hex
    have hl : pre ++ TAct.startTick :: (m1 ++ TAct.beginSys due :: m2)
        = (pre ++ TAct.startTick :: m1) ++ TAct.beginSys due :: m2 := by simp
    rw [hl] at he ⊢
    apply chain_core s hP _ m2 due _ he
    rw [run_append, run_cons_some hst]
    exact hen
  · rw [hrun, endTick_disabled_of_sysRoot hr'] at he
    cases he

end Tickit.TwoLevel
