/-
Any-order nested tick, part 5: the invariant of the loop of ONE level under arbitrary answer
orders, with a ghost trace of the level's ticker and a ghost record of every answer given so far.

The footprint of answering a child `c` of level `L` is `Foot S L c` (what belongs to `c`: itself and
everything below it) plus the wakeup entry of `c` in the level's own scheduler state; the mock
components `external` / `expose` have an empty footprint.  The invariant says that every answer was
computed from a state that agrees with the tick's start state `st0` on its footprint, that the
current state agrees with the answer's result on that footprint, and that everything outside all
footprints is untouched.
-/
import TickitModel.Lemmas.AnyFrame
import TickitModel.Lemmas.AnyTrace

namespace Tickit

/-- what belongs to the child `c` of level `L` -/
def Foot (S : Static) (L : Level) (c x : Comp) : Prop := alookup S.parent c = some L.name ∧ S.Own c x

/-- ghost record of one answer: the dispatch, the state it was computed in, the state it produced
(before the level's `add_wakeup`), the `Output.changes` and the `call_at` -/
structure AnsRec where
  d : Dispatch V
  pre : SimSt
  post : SimSt
  ch : List (Port × V)
  ca : Option SimTime

/-- the exposed output changes after the recorded answers -/
def outOf (L : Level) (recs : List AnsRec) : List (Port × V) :=
  recs.foldl (fun o r => (exposeIns L r.d).getD o) []

theorem outOf_append_one (L : Level) (recs : List AnsRec) (r : AnsRec) :
    outOf L (recs ++ [r]) = (exposeIns L r.d).getD (outOf L recs) := by
  simp [outOf, List.foldl_append]

theorem outOf_cases (L : Level) (recs : List AnsRec) :
    (outOf L recs = [] ∧ ∀ r ∈ recs, exposeIns L r.d = none) ∨
      ∃ r ∈ recs, exposeIns L r.d = some (outOf L recs) := by
  suffices key : ∀ (o : List (Port × V)),
      (recs.foldl (fun o r => (exposeIns L r.d).getD o) o = o ∧ ∀ r ∈ recs, exposeIns L r.d = none) ∨
        ∃ r ∈ recs, exposeIns L r.d = some (recs.foldl (fun o r => (exposeIns L r.d).getD o) o) from
    key []
  induction recs with
  | nil => intro o; exact Or.inl ⟨rfl, by simp⟩
  | cons r recs ih =>
    intro o
    rw [List.foldl_cons]
    rcases ih ((exposeIns L r.d).getD o) with ⟨h1, h2⟩ | ⟨r', hr', h'⟩
    · cases he : exposeIns L r.d with
      | none =>
        left
        rw [he] at h1
        refine ⟨h1, ?_⟩
        intro r'' hr''
        rcases List.mem_cons.1 hr'' with rfl | h
        · exact he
        · exact h2 r'' h
      | some ins =>
        right
        refine ⟨r, by simp, ?_⟩
        rw [he] at h1
        rw [h1]
        exact he
    · exact Or.inr ⟨r', List.mem_cons_of_mem _ hr', h'⟩

theorem exposeIns_some {L : Level} {d : Dispatch V} {ins : List (Port × V)}
    (h : exposeIns L d = some ins) : ∃ t, d = .input pseudoExpose t ins := by
  cases d with
  | skip c t => simp [exposeIns] at h
  | input c t i =>
    simp only [exposeIns] at h
    split at h
    · cases h
    · split at h
      · rename_i h2
        simp only [Bool.and_eq_true, beq_iff_eq] at h2
        cases h
        exact ⟨t, by rw [h2.2]⟩
      · cases h

theorem exposeIns_equiv {L : Level} {d d' : Dispatch V} (he : Dispatch.Equiv d d')
    {ins : List (Port × V)} (h : exposeIns L d = some ins) :
    ∃ ins', exposeIns L d' = some ins' ∧ ∀ q, alookup ins q = alookup ins' q := by
  cases d with
  | skip c t => simp [exposeIns] at h
  | input c t i =>
    cases d' with
    | skip c' t' => exact he.elim
    | input c' t' i' =>
      obtain ⟨rfl, _, hi⟩ := he
      simp only [exposeIns] at h ⊢
      split at h
      · cases h
      · rename_i h1
        split at h
        · rename_i h2
          cases h
          rw [if_neg h1, if_pos h2]
          exact ⟨i', rfl, hi⟩
        · cases h

/-- **the invariant of the loop of level `L`** (tick time `t`, roots `roots`, started in `st0`)
under arbitrary answer orders -/
structure Inv2 (S : Static) (orc : Oracle) (inner : LevelRel) (L : Level) (inCh : List (Port × V))
    (t : SimTime) (roots : List Comp) (st0 : SimSt) (ls : LoopSt) (tr : List (Ev V))
    (recs : List AnsRec) : Prop where
  pre : PreInv L.wiring t roots ls.tk.toUpdate ls.pending tr
  time : ls.tk.time = t
  troots : ls.tk.roots = roots
  eq : TrPre L.wiring t roots ls.tk.inputs tr
  ins : Det.InsInv ls.tk.inputs tr
  /-- the answers of the trace are the recorded ones -/
  recs_tr : ∀ a ch, Ev.answer a ch ∈ tr ↔ ∃ r ∈ recs, r.d.comp = a ∧ r.ch = ch
  /-- every recorded answer: computed by `AnsP` from a state that agrees with `st0` on the
  footprint; the current state agrees with its result on the footprint; the wakeup entry -/
  recs_ok : ∀ r ∈ recs, Ev.dispatch r.d ∈ tr ∧
    AnsP S orc inner L inCh r.pre r.d (r.post, r.ch, r.ca) ∧
    (∀ x, Foot S L r.d.comp x → r.pre.loc x = st0.loc x) ∧
    (∀ x, Foot S L r.d.comp x → ls.st.loc x = r.post.loc x) ∧
    alookup (ls.st.sched L.name).wake r.d.comp =
      r.ca.orElse (fun _ => alookup (st0.sched L.name).wake r.d.comp)
  /-- outside all footprints nothing has changed -/
  untouched : ∀ x, x ≠ L.name → (∀ r ∈ recs, ¬ Foot S L r.d.comp x) → ls.st.loc x = st0.loc x
  /-- under the level's own key only the wakeups change -/
  own : (ls.st.loc L.name).dev = (st0.loc L.name).dev ∧ (ls.st.loc L.name).cnt = (st0.loc L.name).cnt ∧
    (ls.st.loc L.name).ob = (st0.loc L.name).ob ∧
    (ls.st.sched L.name).interrupts = (st0.sched L.name).interrupts ∧
    (ls.st.sched L.name).firstDone = (st0.sched L.name).firstDone
  own_unique : UniqueKeys (st0.sched L.name).wake → UniqueKeys (ls.st.sched L.name).wake
  wake_other : ∀ a, (∀ r ∈ recs, r.d.comp ≠ a) →
    alookup (ls.st.sched L.name).wake a = alookup (st0.sched L.name).wake a
  outch : ls.outCh = outOf L recs

section

variable {S : Static} {orc : Oracle} {inner : LevelRel}

theorem Foot.ne_level (hS : S.Valid) {L : Level} {c x : Comp} (h : Foot S L c x) : x ≠ L.name := by
  intro hx
  subst hx
  exact hS.own_not_parent h.1 h.2

theorem Foot.unique (hS : S.Valid) {L : Level} {c c' x : Comp} (h : Foot S L c x) (h' : Foot S L c' x) :
    c = c' :=
  Static.Own.unique hS.toWF h.1 h'.1 h.2 h'.2

theorem Foot.below {L : Level} {c x : Comp} (h : Foot S L c x) : S.Below L.name x := h.2.below h.1

/-- the state after an answer agrees with the state before it outside the footprint -/
theorem AnsP.frame_foot (hS : S.Valid)
    (hin : ∀ c t ro i s r, inner c t ro i s r → LevelPost1 S c s r)
    {L : Level} (hL : L ∈ S.levels) {inCh : List (Port × V)} {st : SimSt} {d : Dispatch V}
    {res : SimSt × List (Port × V) × Option SimTime} (a : AnsP S orc inner L inCh st d res)
    (hdc : d.comp ∈ L.wiring.components) {x : Comp} (hx : ¬ Foot S L d.comp x) :
    res.1.loc x = st.loc x := by
  rcases hS.comp_cases hL hdc with hpar | ⟨hne, hps⟩
  · exact a.frame hS hin (fun ho => hx ⟨hpar, ho⟩)
  · rw [a.pseudo_same hne hps]

/-- the state in which the tick of a level starts satisfies the invariant -/
theorem Inv2.init {L : Level} {inCh : List (Port × V)} {t : SimTime} {roots : List Comp}
    {st : SimSt} {tk : Ticker V} {ds : List (Dispatch V)}
    (hcall : (Ticker.call L.wiring t roots : Except TickErr (Ticker V × List (Dispatch V))) = .ok (tk, ds)) :
    Inv2 S orc inner L inCh t roots st ⟨tk, ds, [], st⟩ (ds.map Ev.dispatch) [] := by
  obtain ⟨hs, htu, htime, hroots⟩ := sim_call_eq_ok hcall
  obtain ⟨hin0, _⟩ := call_facts hcall
  have hpre := (PreInv.start (Val := V) L.wiring t roots).schedule rfl hs
  have heq := (TrPre.start (Val := V) L.wiring t roots).schedule
    (tk := (Ticker.startTick L.wiring t roots : Ticker V)) rfl rfl hs
  have h0 : Det.InsInv (Ticker.startTick L.wiring t roots : Ticker V).inputs [] :=
    ⟨fun c => by simp [Ticker.startTick, agetD], by simp⟩
  have hins := h0.schedule hs
  exact
    { pre := by
        show PreInv L.wiring t roots tk.toUpdate ds _
        rw [htu]
        simpa using hpre.1
      time := htime
      troots := hroots
      eq := by
        show TrPre L.wiring t roots tk.inputs _
        rw [hin0]
        simpa [Ticker.startTick] using heq
      ins := by
        show Det.InsInv tk.inputs _
        rw [hin0]
        simpa [Ticker.startTick] using hins
      recs_tr := by simp
      recs_ok := by simp
      untouched := fun _ _ _ => rfl
      own := ⟨rfl, rfl, rfl, rfl, rfl⟩
      own_unique := fun h => h
      wake_other := fun _ _ => rfl
      outch := rfl }

/-- one answer, any pending dispatch: the invariant is preserved -/
theorem Inv2.step (hS : S.Valid)
    (hin : ∀ c t ro i s r, inner c t ro i s r → LevelPost1 S c s r)
    {L : Level} (hL : L ∈ S.levels) {inCh : List (Port × V)} (hinCh : (akeys inCh).Nodup)
    {t : SimTime} {roots : List Comp} {st0 : SimSt} {ls : LoopSt} {tr : List (Ev V)}
    {recs : List AnsRec} (inv : Inv2 S orc inner L inCh t roots st0 ls tr recs)
    {i : Nat} {d : Dispatch V} (hd : ls.pending[i]? = some d)
    {st' : SimSt} {ch : List (Port × V)} {ca : Option SimTime}
    (ha : AnsP S orc inner L inCh ls.st d (st', ch, ca))
    {tk' : Ticker V} {ds : List (Dispatch V)}
    (hprop : ls.tk.propagate L.wiring d.comp d.time ch = .ok (tk', ds)) :
    Inv2 S orc inner L inCh t roots st0
      ⟨tk', ls.pending.eraseIdx i ++ ds, (exposeIns L d).getD ls.outCh, anyWake st' L.name d.comp ca⟩
      (tr ++ [Ev.answer d.comp ch] ++ ds.map Ev.dispatch) (recs ++ [⟨d, ls.st, st', ch, ca⟩]) := by
  have hw := hS.routerOK hL
  obtain ⟨_, _, hsl, htu, htk, hroots⟩ := sim_propagate_eq_ok hprop
  have hinp := propagate_inputs hprop
  have hdm : d ∈ ls.pending := List.mem_of_getElem? hd
  have hdtr : Ev.dispatch d ∈ tr := inv.pre.pend_trace d hdm
  have hdc : d.comp ∈ L.wiring.components :=
    (Wiring.ups_isSome_iff' L.wiring d.comp).1 (inv.eq.ups d hdtr)
  have hfresh := inv.pre.pending_fresh hdm
  have hchn : (akeys ch).Nodup := ha.nodup hin hinCh
  have hpre := (inv.pre.answer hd ch).schedule
    (tk := ls.tk.afterAnswer L.wiring d.comp ch) inv.time hsl
  have heq := (inv.eq.answer hw inv.pre hdm hchn).schedule
    (tk := ls.tk.afterAnswer L.wiring d.comp ch) inv.troots inv.time hsl
  have hins := (inv.ins.answer hw d.comp ch).schedule
    (tk := ls.tk.afterAnswer L.wiring d.comp ch) hsl
  -- recorded components differ from the one answered now
  have hrne : ∀ r ∈ recs, r.d.comp ≠ d.comp := by
    intro r hr he
    exact hfresh r.ch (he ▸ (inv.recs_tr r.d.comp r.ch).2 ⟨r, hr, rfl, rfl⟩)
  have hdisj : ∀ r ∈ recs, ∀ x, Foot S L r.d.comp x → ¬ Foot S L d.comp x :=
    fun r hr x h1 h2 => hrne r hr (Foot.unique hS h1 h2)
  have hframe : ∀ x, ¬ Foot S L d.comp x → st'.loc x = ls.st.loc x :=
    fun x hx => ha.frame_foot hS hin hL hdc hx
  have hnl : ¬ Foot S L d.comp L.name := fun h => Foot.ne_level hS h rfl
  have hschL : st'.sched L.name = ls.st.sched L.name := congrArg SLoc.sch (hframe _ hnl)
  have hnewL : (anyWake st' L.name d.comp ca).sched L.name = wakeUpd (ls.st.sched L.name) d.comp ca := by
    rw [sched_anyWake_self, hschL]
  exact
    { pre := by
        show PreInv L.wiring t roots tk'.toUpdate _ _
        rw [htu]
        exact hpre.1
      time := htk.trans inv.time
      troots := hroots.trans inv.troots
      eq := by
        show TrPre L.wiring t roots tk'.inputs _
        rw [hinp]
        exact heq
      ins := by
        show Det.InsInv tk'.inputs _
        rw [hinp]
        exact hins
      recs_tr := by
        intro a c'
        simp only [List.mem_append, List.mem_singleton, List.mem_map, reduceCtorEq, and_false,
          exists_false, or_false, Ev.answer.injEq]
        constructor
        · rintro (h | ⟨rfl, rfl⟩)
          · obtain ⟨r, hr, h1, h2⟩ := (inv.recs_tr a c').1 h
            exact ⟨r, Or.inl hr, h1, h2⟩
          · exact ⟨_, Or.inr rfl, rfl, rfl⟩
        · rintro ⟨r, hr | rfl, h1, h2⟩
          · exact Or.inl ((inv.recs_tr a c').2 ⟨r, hr, h1, h2⟩)
          · exact Or.inr ⟨h1.symm, h2.symm⟩
      recs_ok := by
        intro r hr
        rcases List.mem_append.1 hr with hr | hr
        · obtain ⟨h1, h2, h3, h4, h5⟩ := inv.recs_ok r hr
          refine ⟨by simp [h1], h2, h3, ?_, ?_⟩
          · intro x hx
            show (anyWake st' L.name d.comp ca).loc x = _
            rw [loc_anyWake_ne _ _ _ _ (Foot.ne_level hS hx), hframe x (hdisj r hr x hx)]
            exact h4 x hx
          · show alookup ((anyWake st' L.name d.comp ca).sched L.name).wake r.d.comp = _
            rw [hnewL, wakeUpd_lookup, if_neg (hrne r hr)]
            exact h5
        · simp only [List.mem_singleton] at hr
          subst hr
          refine ⟨by simp [hdtr], ha, ?_, ?_, ?_⟩
          · intro x hx
            exact inv.untouched x (Foot.ne_level hS hx) (fun r hr h => hdisj r hr x h hx)
          · intro x hx
            show (anyWake st' L.name d.comp ca).loc x = _
            rw [loc_anyWake_ne _ _ _ _ (Foot.ne_level hS hx)]
          · show alookup ((anyWake st' L.name d.comp ca).sched L.name).wake d.comp = _
            rw [hnewL, wakeUpd_lookup, if_pos rfl, inv.wake_other d.comp hrne]
      untouched := by
        intro x hx hno
        show (anyWake st' L.name d.comp ca).loc x = _
        rw [loc_anyWake_ne _ _ _ _ hx,
          hframe x (hno ⟨d, ls.st, st', ch, ca⟩ (by simp))]
        exact inv.untouched x hx (fun r hr => hno r (List.mem_append_left _ hr))
      own := by
        obtain ⟨o1, o2, o3, o4, o5⟩ := inv.own
        have hl := hframe _ hnl
        refine ⟨?_, ?_, ?_, ?_, ?_⟩
        · show ((anyWake st' L.name d.comp ca).loc L.name).dev = _
          rw [loc_anyWake_self]
          exact (congrArg SLoc.dev hl).trans o1
        · show ((anyWake st' L.name d.comp ca).loc L.name).cnt = _
          rw [loc_anyWake_self]
          exact (congrArg SLoc.cnt hl).trans o2
        · show ((anyWake st' L.name d.comp ca).loc L.name).ob = _
          rw [loc_anyWake_self]
          exact (congrArg SLoc.ob hl).trans o3
        · show ((anyWake st' L.name d.comp ca).sched L.name).interrupts = _
          rw [hnewL, wakeUpd_interrupts]
          exact o4
        · show ((anyWake st' L.name d.comp ca).sched L.name).firstDone = _
          rw [hnewL, wakeUpd_firstDone]
          exact o5
      own_unique := by
        intro h
        show UniqueKeys ((anyWake st' L.name d.comp ca).sched L.name).wake
        rw [hnewL]
        exact wakeUpd_unique (inv.own_unique h) _ _
      wake_other := by
        intro a hno
        have had : a ≠ d.comp := fun h => hno ⟨d, ls.st, st', ch, ca⟩ (by simp) h.symm
        show alookup ((anyWake st' L.name d.comp ca).sched L.name).wake a = _
        rw [hnewL, wakeUpd_lookup, if_neg had]
        exact inv.wake_other a (fun r hr => hno r (List.mem_append_left _ hr))
      outch := by
        show (exposeIns L d).getD ls.outCh = _
        rw [outOf_append_one, inv.outch] }

/-- every execution of the loop ends in a state satisfying the invariant, with nothing pending
and nothing left to update -/
theorem LoopP.run_inv2 (hS : S.Valid)
    (hin : ∀ c t ro i s r, inner c t ro i s r → LevelPost1 S c s r)
    {L : Level} (hL : L ∈ S.levels) {inCh : List (Port × V)} (hinCh : (akeys inCh).Nodup)
    {t : SimTime} {roots : List Comp} {st0 : SimSt} {ls : LoopSt} {r : SimSt × List (Port × V)}
    (a : LoopP S orc inner L inCh ls r) :
    ∀ {tr : List (Ev V)} {recs : List AnsRec}, Inv2 S orc inner L inCh t roots st0 ls tr recs →
      ∃ ls' tr' recs', Inv2 S orc inner L inCh t roots st0 ls' tr' recs' ∧ ls'.pending = [] ∧
        ls'.tk.toUpdate = [] ∧ r = (ls'.st, ls'.outCh) := by
  induction a with
  | @done ls h1 h2 =>
    intro tr recs inv
    exact ⟨ls, tr, recs, inv, h1, by simpa using h2, rfl⟩
  | step h1 h2 h3 _ ih =>
    intro tr recs inv
    exact ih (inv.step hS hin hL hinCh h1 h2 h3)

end

end Tickit
