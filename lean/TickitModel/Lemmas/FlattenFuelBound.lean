/-
Helper lemmas for C09, part 7: the layout of the (level, component) pairs and the proof that
`Σ_L |components L| + 1` units of fuel are enough for `Static.resolve` (see `FlattenFuel.lean`).
-/
import TickitModel.Lemmas.FlattenFuel

namespace Tickit

theorem Wiring.components_nodup (w : Wiring) : w.components.Nodup := by
  unfold Wiring.components
  refine nodup_sunion (nodup_sunion ?_)
  unfold Wiring.inputComponents
  exact foldl_inv List.Nodup _ w (fun e _ s hs => nodup_foldl_ports e.2 s hs) [] List.nodup_nil

/-- nothing is above the master -/
theorem Static.Valid.not_below_master {S : Static} (hS : S.Valid) (a : Comp) : ¬ S.Below a "" := by
  intro h
  cases h with
  | direct h => rw [hS.master_fresh] at h; cases h
  | step h _ _ => rw [hS.master_fresh] at h; cases h

theorem Static.Valid.child_ne_master {S : Static} (hS : S.Valid) {x s : Comp}
    (h : alookup S.parent x = some s) : x ≠ "" := by
  intro hx
  rw [hx, hS.master_fresh] at h
  cases h

/-! ### weights -/

open Classical in
/-- number of (level, component) pairs at or below the level named `s` -/
noncomputable def Static.subW (S : Static) (s : Comp) : Nat :=
  lsum S.levels (fun L' => if (L'.name = s ∨ S.Below s L'.name) then L'.wiring.components.length else 0)

/-- weight of a component: itself plus, for a system, everything inside -/
noncomputable def Static.wt (S : Static) (x : Comp) : Nat := if S.isSys x then 1 + S.subW x else 1

theorem Static.one_le_wt (S : Static) (x : Comp) : 1 ≤ S.wt x := by
  unfold Static.wt; split <;> omega

theorem Static.subW_le (S : Static) (s : Comp) :
    S.subW s ≤ lsum S.levels (fun L => L.wiring.components.length) := by
  unfold Static.subW
  exact lsum_le_lsum (fun L _ => by split <;> omega)

open Classical in
/-- the weights of the components of a level add up to at most the pairs at or below it -/
theorem Static.Valid.lsum_wt_le {S : Static} (hS : S.Valid) {Ls : Level} (hLs : Ls ∈ S.levels) :
    lsum Ls.wiring.components S.wt ≤ S.subW Ls.name := by
  obtain ⟨depth, hdepth⟩ := hS.nesting
  let f : Level → Nat := fun L' => L'.wiring.components.length
  let G : Comp → Level → Nat := fun x L' =>
    if S.isSys x = true ∧ (L'.name = x ∨ S.Below x L'.name) then f L' else 0
  have hwt : ∀ x, S.wt x = 1 + lsum S.levels (G x) := by
    intro x
    unfold Static.wt
    by_cases hx : S.isSys x = true
    · simp only [hx, if_true, Static.subW, Nat.add_left_cancel_iff]
      unfold lsum
      congr 1
      apply List.map_congr_left
      intro L' _
      simp only [G, hx, true_and]
      rfl
    · have : lsum S.levels (G x) = 0 := by
        rw [show lsum S.levels (G x) = lsum S.levels (fun _ => 0) from by
          unfold lsum; congr 1; apply List.map_congr_left; intro L' _; simp [G, hx]]
        exact lsum_zero _
      simp [hx, this]
  have hb : lsum Ls.wiring.components S.wt =
      Ls.wiring.components.length +
        lsum S.levels (fun L' => lsum Ls.wiring.components (fun x => G x L')) := by
    rw [show lsum Ls.wiring.components S.wt =
        lsum Ls.wiring.components (fun x => (fun _ => 1) x + (fun x => lsum S.levels (G x)) x) from by
      unfold lsum; congr 1; apply List.map_congr_left; intro x _; exact hwt x]
    rw [lsum_add, lsum_one, lsum_comm]
  have hc : Ls.wiring.components.length ≤
      lsum S.levels (fun L' => if L'.name = Ls.name then f L' else 0) := by
    have := lsum_mem_le hLs (fun L' => if L'.name = Ls.name then f L' else 0)
    simpa [f] using this
  -- facts about a component `x` of `Ls` with a non-zero contribution at `L'`
  have hfact : ∀ x ∈ Ls.wiring.components, ∀ L', G x L' ≠ 0 →
      alookup S.parent x = some Ls.name ∧ S.Own x L'.name := by
    intro x hx L' hG
    simp only [G] at hG
    split at hG
    · rename_i hcond
      obtain ⟨hsys, hown⟩ := hcond
      have hpar : alookup S.parent x = some Ls.name := by
        rcases hS.members Ls hLs x hx with h | ⟨_, h | h⟩
        · exact h
        · rw [h, hS.pseudo_fresh.2.2.1] at hsys; cases hsys
        · rw [h, hS.pseudo_fresh.2.2.2] at hsys; cases hsys
      refine ⟨hpar, ?_⟩
      rcases hown with h | h
      · exact Or.inl h
      · exact Or.inr ⟨hS.child_ne_master hpar, h⟩
    · exact absurd rfl hG
  have hd : ∀ L' ∈ S.levels,
      (if L'.name = Ls.name then f L' else 0) + lsum Ls.wiring.components (fun x => G x L') ≤
        (if (L'.name = Ls.name ∨ S.Below Ls.name L'.name) then f L' else 0) := by
    intro L' _
    by_cases hname : L'.name = Ls.name
    · have hz : lsum Ls.wiring.components (fun x => G x L') = 0 := by
        rw [show lsum Ls.wiring.components (fun x => G x L') = lsum Ls.wiring.components (fun _ => 0) from by
          unfold lsum; congr 1; apply List.map_congr_left
          intro x hx
          apply Classical.byContradiction
          intro hG
          obtain ⟨hpar, hown⟩ := hfact x hx L' hG
          have hxne := hS.child_ne_master hpar
          rw [hname] at hown
          by_cases hs : Ls.name = ""
          · rcases hown with h | ⟨_, h⟩
            · exact hxne (h ▸ hs)
            · rw [hs] at h; exact hS.not_below_master _ h
          · have h1 := hdepth x Ls.name hpar hs
            rcases hown with h | ⟨_, h⟩
            · rw [h] at h1; exact Nat.lt_irrefl _ h1
            · have h2 := h.depth_lt hdepth hxne
              omega]
        exact lsum_zero _
      simp [hname, hz]
    · simp only [hname, if_false, false_or, Nat.zero_add]
      by_cases hbel : S.Below Ls.name L'.name
      · simp only [hbel, if_true]
        refine lsum_le_of_at_most_one (Wiring.components_nodup _) ?_ ?_
        · intro x hx y hy hGx hGy
          obtain ⟨hpx, hox⟩ := hfact x hx L' hGx
          obtain ⟨hpy, hoy⟩ := hfact y hy L' hGy
          exact Static.Own.unique hS.toWF hpx hpy hox hoy
        · intro x _
          simp only [G]
          split <;> omega
      · simp only [hbel, if_false, Nat.le_zero_eq]
        rw [show lsum Ls.wiring.components (fun x => G x L') = lsum Ls.wiring.components (fun _ => 0) from by
          unfold lsum; congr 1; apply List.map_congr_left
          intro x hx
          apply Classical.byContradiction
          intro hG
          obtain ⟨hpar, hown⟩ := hfact x hx L' hG
          exact hbel (hown.below hpar)]
        exact lsum_zero _
  have he := lsum_le_lsum hd
  rw [lsum_add] at he
  show lsum Ls.wiring.components S.wt ≤
    lsum S.levels (fun L' => if (L'.name = Ls.name ∨ S.Below Ls.name L'.name) then f L' else 0)
  rw [hb]
  omega

/-! ### the layout -/

/-- position of component `a` inside its level: everything strictly upstream, then `a` -/
noncomputable def Static.cost (S : Static) (rk : Comp → Nat) (C : List Comp) (a : Comp) : Nat :=
  lsum C (fun x => if rk x < rk a then S.wt x else 0) + S.wt a

theorem Static.one_le_cost (S : Static) (rk : Comp → Nat) (C : List Comp) (a : Comp) :
    1 ≤ S.cost rk C a := by
  have := S.one_le_wt a
  unfold Static.cost; omega

theorem Static.cost_le (S : Static) (rk : Comp → Nat) {C : List Comp} {a : Comp} (ha : a ∈ C) :
    S.cost rk C a ≤ lsum C S.wt :=
  lsum_below_add_le ha rk S.wt

/-- what the enclosing level guarantees: `b` units are enough at every source of an input of
the system `L.name` -/
def Static.FuelHyp (S : Static) (L : Level) (b : Nat) : Prop :=
  ∀ P LP p a' p', alookup S.parent L.name = some P → S.level P = some LP →
    LP.wiring.sourceOf L.name p = some (a', p') → S.Suff b P a' p'

/-- the layout of level `L` and of everything below it, starting at `b` -/
def Static.FuelRes (S : Static) (rk : Comp → Comp → Nat) (L : Level) (b : Nat) : Prop :=
  (∀ a ∈ L.wiring.components, ∀ p,
    S.Suff (b + S.cost (rk L.name) L.wiring.components a) L.name a p) ∧
  (∀ s', S.isSys s' = true → S.Below L.name s' → ∀ Ls', S.level s' = some Ls' →
    ∀ a ∈ Ls'.wiring.components, ∀ p, S.Suff (b + S.subW L.name) s' a p)

theorem Static.Valid.fuel_level {S : Static} (hS : S.Valid) {rk : Comp → Comp → Nat}
    (hrk : ∀ L ∈ S.levels, ∀ c us u, L.wiring.ups c = some us → u ∈ us → rk L.name u < rk L.name c)
    {L : Level} (hL : L ∈ S.levels) (hroot : L.name = "" ∨ S.isSys L.name = true) (b : Nat)
    (IHsys : ∀ a ∈ L.wiring.components, S.isSys a = true → ∀ La, S.level a = some La →
      ∀ b', S.FuelHyp La b' → S.FuelRes rk La b')
    (hyp : L.name ≠ "" → S.FuelHyp L b) : S.FuelRes rk L b := by
  obtain ⟨hwf, hos⟩ := hS.wiring_wf L hL
  have hLv : S.level L.name = some L := hS.level_of_mem hL
  -- `below a`: everything strictly upstream of `a`
  let below : Comp → Nat := fun a =>
    lsum L.wiring.components (fun x => if rk L.name x < rk L.name a then S.wt x else 0)
  have hcost : ∀ a, S.cost (rk L.name) L.wiring.components a = below a + S.wt a := fun _ => rfl
  have hparsys : ∀ a ∈ L.wiring.components, S.isSys a = true → alookup S.parent a = some L.name := by
    intro a ha hsys
    rcases hS.members L hL a ha with h | ⟨_, h | h⟩
    · exact h
    · rw [h, hS.pseudo_fresh.2.2.1] at hsys; cases hsys
    · rw [h, hS.pseudo_fresh.2.2.2] at hsys; cases hsys
  have key : ∀ n a, a ∈ L.wiring.components → rk L.name a < n →
      (∀ p, S.Suff (b + S.cost (rk L.name) L.wiring.components a) L.name a p) ∧
      (S.isSys a = true → ∀ La, S.level a = some La → S.FuelRes rk La (b + below a)) := by
    intro n
    induction n with
    | zero => intro a _ h; omega
    | succ n ih =>
      intro a ha hlt
      have hres : S.isSys a = true → ∀ La, S.level a = some La → S.FuelRes rk La (b + below a) := by
        intro hsys La hLa
        obtain ⟨hLa1, hLa2⟩ := Static.level_some hLa
        refine IHsys a ha hsys La hLa _ ?_
        intro P LP p a'' p'' hP hLP hsrc
        rw [hLa2, hparsys a ha hsys] at hP
        cases hP
        rw [hLv] at hLP
        cases hLP
        rw [hLa2] at hsrc
        have hconn := (Wiring.sourceOf_eq_some hwf hos).1 hsrc
        have ha'' := (Wiring.conn_mem_components hwf hconn).1
        obtain ⟨us, hus⟩ := Option.isSome_iff_exists.1 (hS.ups_defined L hL a ha)
        have hmem : a'' ∈ us := (Wiring.mem_ups_iff' hwf hus a'').2 ⟨p'', p, hconn⟩
        have hr := hrk L hL a us a'' hus hmem
        refine ((ih a'' ha'' (by omega)).1 p'').mono ?_
        have : below a'' + S.wt a'' ≤ below a := lsum_below_add_le_below ha'' (rk L.name) hr S.wt
        rw [hcost]
        show b + (below a'' + S.wt a'') ≤ b + below a
        omega
      refine ⟨fun p => ?_, hres⟩
      have h1 := S.one_le_cost (rk L.name) L.wiring.components a
      by_cases hx : a = pseudoExternal
      · subst hx
        by_cases hm : L.name = ""
        · rw [hm]
          exact Static.suff_of_none (fun k => S.resolve_ext_master k p) _
        · have hsysL : S.isSys L.name = true := by
            rcases hroot with h | h
            · exact absurd h hm
            · exact h
          obtain ⟨P, hP⟩ := Option.isSome_iff_exists.1 (hS.sys_parent _ hsysL)
          obtain ⟨LP, hLP, _, _⟩ := hS.parent_level _ _ hP
          refine (Static.suff_ext (k := b) hm hP hLP p ?_).mono (by omega)
          intro a' p' hsrc
          exact hyp hm P LP p a' p' hP hLP hsrc
      · by_cases hsys : S.isSys a = true
        · obtain ⟨La, hLa, hLa2⟩ := hS.sys_level a hsys
          obtain ⟨hLa1, _⟩ := Static.level_some hLa
          obtain ⟨hwfa, hosa⟩ := hS.wiring_wf La hLa1
          have hr := (hres hsys La hLa).1
          have hwa : S.wt a = 1 + S.subW a := by unfold Static.wt; simp [hsys]
          refine (Static.suff_sys (k := b + below a + S.subW a) L.name hx hsys hLa p ?_).mono ?_
          · intro a' p' hsrc
            have hconn := (Wiring.sourceOf_eq_some hwfa hosa).1 hsrc
            have ha' := (Wiring.conn_mem_components hwfa hconn).1
            have := hr a' ha' p'
            rw [hLa2] at this
            refine this.mono ?_
            have h2 := S.cost_le (rk a) ha'
            have h3 := hS.lsum_wt_le hLa1
            rw [hLa2] at h3
            omega
          · rw [hcost, hwa]; omega
        · have hsys' : S.isSys a = false := by simpa using hsys
          exact (S.suff_dev L.name hx hsys' p).mono (by omega)
  have hQ : ∀ a ∈ L.wiring.components,
      (∀ p, S.Suff (b + S.cost (rk L.name) L.wiring.components a) L.name a p) ∧
      (S.isSys a = true → ∀ La, S.level a = some La → S.FuelRes rk La (b + below a)) :=
    fun a ha => key (rk L.name a + 1) a ha (Nat.lt_succ_self _)
  refine ⟨fun a ha p => (hQ a ha).1 p, ?_⟩
  intro s' hsys' hbel Ls' hLs' a' ha' p
  obtain ⟨c, hc, hown⟩ := hbel.top
  have hcC : c ∈ L.wiring.components := by
    obtain ⟨L0, hL0, hcm, _⟩ := hS.parent_level c L.name hc
    rw [hLv] at hL0; cases hL0
    exact hcm
  have hcne : c ≠ "" := hS.child_ne_master hc
  have hcsys : S.isSys c = true := by
    rcases hown with h | ⟨_, h⟩
    · rw [← h]; exact hsys'
    · rcases h.isSys hS.toWF with h' | h'
      · exact absurd h' hcne
      · exact h'
  obtain ⟨Lc, hLc, hLc2⟩ := hS.sys_level c hcsys
  obtain ⟨hLc1, _⟩ := Static.level_some hLc
  have hr := (hQ c hcC).2 hcsys Lc hLc
  have hwc : S.wt c = 1 + S.subW c := by unfold Static.wt; simp [hcsys]
  have hb1 : below c + S.wt c ≤ S.subW L.name := by
    have h2 := S.cost_le (rk L.name) hcC
    have h3 := hS.lsum_wt_le hL
    rw [hcost] at h2
    omega
  rcases hown with h | ⟨_, h⟩
  · subst h
    rw [hLc] at hLs'; cases hLs'
    have := hr.1 a' ha' p
    rw [hLc2] at this
    refine this.mono ?_
    have h2 := S.cost_le (rk s') ha'
    have h3 := hS.lsum_wt_le hLc1
    rw [hLc2] at h3
    omega
  · have := hr.2 s' hsys' (by rw [hLc2]; exact h) Ls' hLs' a' ha' p
    refine this.mono ?_
    rw [hLc2]
    omega

/-- **enough fuel at every (level, component) pair** of the master and of every system -/
theorem Static.Valid.fuel_all {S : Static} (hS : S.Valid) {L : Level} (hL : L ∈ S.levels)
    (hroot : L.name = "" ∨ S.isSys L.name = true) {a : Comp} (ha : a ∈ L.wiring.components)
    (p : Port) : S.Suff (S.subW "") L.name a p := by
  obtain ⟨depth, hdepth⟩ := hS.nesting
  -- a rank function for every level
  have hex : ∀ L : Level, ∃ rank : Comp → Nat, L ∈ S.levels →
      ∀ c us u, L.wiring.ups c = some us → u ∈ us → rank u < rank c := by
    intro L
    by_cases hL : L ∈ S.levels
    · obtain ⟨rank, h⟩ := hS.acyclic L hL
      exact ⟨rank, fun _ => h⟩
    · exact ⟨fun _ => 0, fun h => absurd h hL⟩
  obtain ⟨R, hR⟩ := Classical.axiomOfChoice hex
  let rk : Comp → Comp → Nat := fun s a => match S.level s with
    | some L => R L a
    | none => 0
  have hrk : ∀ L ∈ S.levels, ∀ c us u, L.wiring.ups c = some us → u ∈ us →
      rk L.name u < rk L.name c := by
    intro L hL c us u hus hu
    simp only [rk, hS.level_of_mem hL]
    exact hR L hL c us u hus hu
  let D := 1 + lsum S.levels (fun L => depth L.name)
  have hD : ∀ L ∈ S.levels, depth L.name < D := by
    intro L hL
    have := lsum_mem_le hL (fun L => depth L.name)
    show depth L.name < 1 + lsum S.levels (fun L => depth L.name)
    omega
  have claim : ∀ j, ∀ L ∈ S.levels, L.name ≠ "" → S.isSys L.name = true → D ≤ depth L.name + j →
      ∀ b, S.FuelHyp L b → S.FuelRes rk L b := by
    intro j
    induction j with
    | zero =>
      intro L hL _ _ hj
      have := hD L hL
      omega
    | succ j ih =>
      intro L hL hne hsys hj b hyp
      refine hS.fuel_level hrk hL (Or.inr hsys) b ?_ (fun _ => hyp)
      intro a ha hsa La hLa b' hyp'
      obtain ⟨hLa1, hLa2⟩ := Static.level_some hLa
      have hpar : alookup S.parent a = some L.name := by
        rcases hS.members L hL a ha with h | ⟨_, h | h⟩
        · exact h
        · rw [h, hS.pseudo_fresh.2.2.1] at hsa; cases hsa
        · rw [h, hS.pseudo_fresh.2.2.2] at hsa; cases hsa
      have hd := hdepth a L.name hpar hne
      refine ih La hLa1 ?_ ?_ ?_ b' hyp'
      · rw [hLa2]; exact hS.child_ne_master hpar
      · rw [hLa2]; exact hsa
      · rw [hLa2]; omega
  -- the master level
  have hmaster : ∀ Lm, S.level "" = some Lm → S.FuelRes rk Lm 0 := by
    intro Lm hLm
    obtain ⟨hLm1, hLm2⟩ := Static.level_some hLm
    refine hS.fuel_level hrk hLm1 (Or.inl hLm2) 0 ?_ (fun h => absurd hLm2 h)
    intro a ha hsa La hLa b' hyp'
    obtain ⟨hLa1, hLa2⟩ := Static.level_some hLa
    have hpar : alookup S.parent a = some Lm.name := by
      rcases hS.members Lm hLm1 a ha with h | ⟨_, h | h⟩
      · exact h
      · rw [h, hS.pseudo_fresh.2.2.1] at hsa; cases hsa
      · rw [h, hS.pseudo_fresh.2.2.2] at hsa; cases hsa
    refine claim D La hLa1 ?_ ?_ (by omega) b' hyp'
    · rw [hLa2]; exact hS.child_ne_master hpar
    · rw [hLa2]; exact hsa
  rcases hroot with hm | hsys
  · have hLm : S.level "" = some L := by rw [← hm]; exact hS.level_of_mem hL
    have := (hmaster L hLm).1 a ha p
    rw [hm] at this ⊢
    refine this.mono ?_
    have h2 := S.cost_le (rk "") ha
    have h3 := hS.lsum_wt_le hL
    rw [hm] at h3
    omega
  · have hbel : S.Below "" L.name := Static.below_master hS.toWF (hS.sys_parent _ hsys)
    obtain ⟨y, hy⟩ := hbel.exists_child
    obtain ⟨Lm, hLm, _, _⟩ := hS.parent_level y "" hy
    obtain ⟨_, hLm2⟩ := Static.level_some hLm
    have := (hmaster Lm hLm).2 L.name hsys (by rw [hLm2]; exact hbel) L (hS.level_of_mem hL) a ha p
    rw [hLm2] at this
    simpa using this

/-- a computable amount of fuel for `Static.resolve` -/
def Static.resolveFuel (S : Static) : Nat :=
  (S.levels.map (fun L => L.wiring.components.length)).sum + S.levels.length + 1

/-- **`S.resolveFuel` units of fuel are enough** in a valid configuration -/
theorem Static.Valid.resolveStable {S : Static} (hS : S.Valid) {n : Nat} (hn : S.resolveFuel ≤ n) :
    S.ResolveStable n := by
  have hN : S.subW "" + 1 ≤ n := by
    have := S.subW_le ""
    unfold Static.resolveFuel at hn
    unfold lsum at this
    omega
  have hnode : ∀ L ∈ S.levels, (L.name = "" ∨ S.isSys L.name = true) → ∀ a ∈ L.wiring.components,
      ∀ p, S.Suff (S.subW "") L.name a p := fun L hL hroot a ha p => hS.fuel_all hL hroot ha p
  apply Static.resolveStable_of_suff
  intro lvl a p
  by_cases hx : a = pseudoExternal
  · subst hx
    by_cases hm : lvl = ""
    · rw [hm]; exact Static.suff_of_none (fun k => S.resolve_ext_master k p) _
    · cases hP : alookup S.parent lvl with
      | none => exact Static.suff_of_none (fun k => S.resolve_ext_noparent k hP p) _
      | some P =>
        obtain ⟨LP, hLP, _, hroot⟩ := hS.parent_level _ _ hP
        obtain ⟨hLP1, hLP2⟩ := Static.level_some hLP
        obtain ⟨hwf, hos⟩ := hS.wiring_wf LP hLP1
        refine (Static.suff_ext (k := S.subW "") hm hP hLP p ?_).mono hN
        intro a' p' hsrc
        have hconn := (Wiring.sourceOf_eq_some hwf hos).1 hsrc
        have := hnode LP hLP1 (by rw [hLP2]; exact hroot) a' (Wiring.conn_mem_components hwf hconn).1 p'
        rwa [hLP2] at this
  · by_cases hsys : S.isSys a = true
    · obtain ⟨La, hLa, hLa2⟩ := hS.sys_level a hsys
      obtain ⟨hLa1, _⟩ := Static.level_some hLa
      obtain ⟨hwf, hos⟩ := hS.wiring_wf La hLa1
      refine (Static.suff_sys (k := S.subW "") lvl hx hsys hLa p ?_).mono hN
      intro a' p' hsrc
      have hconn := (Wiring.sourceOf_eq_some hwf hos).1 hsrc
      have := hnode La hLa1 (by rw [hLa2]; exact Or.inr hsys) a' (Wiring.conn_mem_components hwf hconn).1 p'
      rwa [hLa2] at this
    · have hsys' : S.isSys a = false := by simpa using hsys
      exact (S.suff_dev lvl hx hsys' p).mono (by omega)

end Tickit
