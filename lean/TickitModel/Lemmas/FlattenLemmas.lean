/-
Helper lemmas for C09 (transparency of system simulations).
-/
import TickitModel.Core.Flatten
import TickitModel.Core.Flat
import TickitModel.Lemmas.SimLoop

namespace Tickit

/-- well-formedness needed for transparency, beyond `Static.WF`: at every level the wiring is
a well-formed dict-of-dicts with one source per input port and no cycle. -/
structure Static.Valid (S : Static) : Prop extends Static.WF S where
  level_names : (S.levels.map (·.name)).Nodup
  wiring_wf : ∀ L ∈ S.levels, L.wiring.WF ∧ L.wiring.OneSource
  acyclic : ∀ L ∈ S.levels, L.wiring.Acyclic
  parent_unique : (akeys S.parent).Nodup
  /-- nothing is wired INTO `external` and nothing is wired FROM `expose` -/
  pseudo_dir : ∀ L ∈ S.levels, ∀ a p b q, L.wiring.Conn a p b q → b ≠ pseudoExternal ∧ a ≠ pseudoExpose

end Tickit
