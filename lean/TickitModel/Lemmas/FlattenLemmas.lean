/-
Helper lemmas for C09 (transparency of system simulations), part 1: structural facts about
valid configurations, `Static.resolve`, `Static.flatInputs` and the flattened configuration.
-/
import TickitModel.Core.Flatten
import TickitModel.Core.Flat
import TickitModel.Lemmas.SimLoop
import TickitModel.Lemmas.TickEqLemmas
import TickitModel.Lemmas.RouterLemmas

set_option linter.unusedSectionVars false

namespace Tickit

/-- well-formedness needed for transparency, beyond `Static.WF`: at every level the wiring is
a well-formed dict-of-dicts with one source per input port and no cycle. -/
structure Static.Valid (S : Static) : Prop extends Static.WF S where
  level_names : (S.levels.map (·.name)).Nodup
  wiring_wf : ∀ L ∈ S.levels, L.wiring.WF ∧ L.wiring.OneSource
  acyclic : ∀ L ∈ S.levels, L.wiring.Acyclic
  parent_unique : (akeys S.parent).Nodup
  /-- nothing is wired INTO `external` and nothing is wired FROM `expose` -/
  pseudo_dir : ∀ L ∈ S.levels, ∀ a p b q, L.wiring.Conn a p b q → b ≠ pseudoExternal ∧ a ≠ pseudoExpose
  /-- the master scheduler (level name `""`) is not itself a component -/
  master_fresh : alookup S.parent "" = none

/-- the fuel given to `Static.resolve` is enough: one more unit changes nothing (so the
function `S.resolve n` satisfies the recursion equations of `resolve` without fuel). -/
def Static.ResolveStable (S : Static) (n : Nat) : Prop :=
  ∀ lvl a p, S.resolve (n + 1) lvl a p = S.resolve n lvl a p

/-- the (input-independent) output changes of device `c` in the initial tick: everything its
first response reports. -/
def outC (orc : Oracle) (c : Comp) : List (Port × V) :=
  match (agetD orc c [])[0]? with
  | some r => outChanges [] (normDict r.outs)
  | none => []

/-- the oracle has a first response for `c`, and it does not raise -/
def OrcOK (orc : Oracle) (c : Comp) : Prop :=
  ∃ r, (agetD orc c [])[0]? = some r ∧ r.raises = false

/-! ### generic list / dict facts -/

section Dict
variable {κ β γ : Type} [DecidableEq κ]

theorem flt_alookup_filterMap {m : List (κ × β)} (hn : (akeys m).Nodup) (f : β → Option γ) (k : κ) :
    alookup (m.filterMap (fun e => (f e.2).map (fun y => (e.1, y)))) k = (alookup m k).bind f := by
  induction m with
  | nil => rfl
  | cons e m ih =>
    obtain ⟨k', v⟩ := e
    simp only [akeys_cons, List.nodup_cons] at hn
    rw [List.filterMap_cons]
    by_cases hk : k' = k
    · subst hk
      cases hf : f v with
      | none =>
        simp only [Option.map_none]
        rw [ih hn.2, alookup_eq_none_iff.2 hn.1]
        simp [hf]
      | some y =>
        simp [hf]
    · cases hf : f v with
      | none => simp [ih hn.2, hk]
      | some y => simp [ih hn.2, hk]

theorem flt_akeys_filterMap_sublist (m : List (κ × β)) (f : β → Option γ) :
    (akeys (m.filterMap (fun e => (f e.2).map (fun y => (e.1, y))))).Sublist (akeys m) := by
  induction m with
  | nil => simp
  | cons e m ih =>
    rw [List.filterMap_cons]
    cases hf : f e.2 with
    | none => simpa [hf] using ih.cons e.1
    | some y => simpa [hf] using ih.cons_cons e.1

theorem flt_alookup_map_mk (l : List κ) (f : κ → β) (k : κ) :
    alookup (l.map (fun c => (c, f c))) k = if k ∈ l then some (f k) else none := by
  induction l with
  | nil => simp
  | cons c l ih =>
    rw [List.map_cons]
    by_cases hk : c = k
    · subst hk; simp
    · have : k ≠ c := fun h => hk h.symm
      simp [hk, ih, this]

theorem flt_akeys_map_mk (l : List κ) (f : κ → β) : akeys (l.map (fun c => (c, f c))) = l := by
  induction l with
  | nil => rfl
  | cons c l ih => simp [ih]

theorem flt_length_le_of_nodup_subset {α : Type} [DecidableEq α] {l m : List α} (hn : l.Nodup)
    (hs : ∀ x ∈ l, x ∈ m) : l.length ≤ m.length := by
  induction l generalizing m with
  | nil => simp
  | cons a l ih =>
    simp only [List.nodup_cons] at hn
    have ham : a ∈ m := hs a (by simp)
    have := ih (m := m.erase a) hn.2 (fun x hx => by
      have hxa : x ≠ a := fun h => hn.1 (h ▸ hx)
      exact (List.mem_erase_of_ne hxa).2 (hs x (List.mem_cons_of_mem _ hx)))
    rw [List.length_erase_of_mem ham] at this
    have hpos : 0 < m.length := List.length_pos_of_mem ham
    simp only [List.length_cons]
    omega

end Dict

/-! ### levels and wires of a valid configuration -/

theorem Static.Valid.level_of_mem {S : Static} (hS : S.Valid) {L : Level} (hL : L ∈ S.levels) :
    S.level L.name = some L := by
  have key : ∀ ls : List Level, (ls.map (·.name)).Nodup → L ∈ ls →
      ls.find? (·.name == L.name) = some L := by
    intro ls
    induction ls with
    | nil => intro _ h; simp at h
    | cons L' ls ih =>
      intro hn hL
      simp only [List.map_cons, List.nodup_cons] at hn
      rcases List.mem_cons.1 hL with rfl | hL
      · simp
      · have hne : L'.name ≠ L.name := fun h => hn.1 (h ▸ List.mem_map.2 ⟨L, hL, rfl⟩)
        rw [List.find?_cons]
        have : (L'.name == L.name) = false := by simpa using hne
        rw [this]
        exact ih hn.2 hL
  exact key S.levels hS.level_names hL

theorem Static.Valid.routerOK {S : Static} (hS : S.Valid) {L : Level} (hL : L ∈ S.levels) :
    RouterOK L.wiring := by
  obtain ⟨h, h1⟩ := hS.wiring_wf L hL
  exact
    { oneSource := h1
      route_exact := fun a ch hch b q v => Wiring.route_exact' L.wiring h1 a ch hch b q v
      route_wf := fun a ch =>
        ⟨(Wiring.route_wf2 L.wiring a ch).1, fun e he =>
          ⟨(Wiring.route_wf2 L.wiring a ch).2 e he,
            Wiring.route_noEmpty L.wiring a ch e.1 e.2
              (alookup_eq_some_of_mem (Wiring.route_wf2 L.wiring a ch).1 he)⟩⟩
      ups_edge := fun b us hu a => Wiring.mem_ups_iff' h hu a }

theorem Wiring.conn_mem_components {w : Wiring} (h : w.WF) {a : Comp} {p : Port} {b : Comp} {q : Port}
    (hc : w.Conn a p b q) : a ∈ w.components ∧ b ∈ w.components :=
  ⟨(Wiring.mem_components_iff' h a).2 (Or.inl (Wiring.mem_akeys_of_conn hc)),
    (Wiring.mem_components_iff' h b).2 (Or.inr ⟨a, p, q, hc⟩)⟩

theorem Wiring.sourceOf_eq_some {w : Wiring} (h : w.WF) (h1 : w.OneSource) {c : Comp} {q : Port}
    {a : Comp} {p : Port} : w.sourceOf c q = some (a, p) ↔ w.Conn a p c q := by
  rw [← InvWiring.conn_fromWiring' w h h1, InvWiring.conn_iff_get2]
  rfl

theorem Static.mem_devices_iff {S : Static} {c : Comp} : c ∈ S.devices ↔ S.isDevice c := by
  unfold Static.devices Static.isDevice
  simp only [List.mem_map, List.mem_filter, Bool.not_eq_true']
  constructor
  · rintro ⟨e, ⟨he, hs⟩, rfl⟩
    exact ⟨alookup_isSome_iff.2 (mem_akeys_of_mem (v := e.2) he), hs⟩
  · rintro ⟨hp, hs⟩
    obtain ⟨x, hx⟩ := Option.isSome_iff_exists.1 hp
    exact ⟨(c, x), ⟨mem_of_alookup_eq_some hx, hs⟩, rfl⟩

theorem Static.Valid.devices_nodup {S : Static} (hS : S.Valid) : S.devices.Nodup := by
  unfold Static.devices
  exact List.Sublist.nodup (List.Sublist.map _ List.filter_sublist) hS.parent_unique

theorem Static.flatten_devices_eq (S : Static) (fuel : Nat) : (S.flatten fuel).devices = S.devices := by
  have h : ∀ x, (S.flatten fuel).isSys x = false := fun x => by simp [Static.flatten, Static.isSys]
  simp only [Static.devices, h, Bool.not_false]
  rw [List.filter_eq_self.2 (fun _ _ => rfl)]
  simp only [Static.flatten, List.map_map]
  conv => lhs; rw [show ((fun (x : Comp × Comp) => x.1) ∘ fun c => (c, "")) = id from rfl, List.map_id]
  rfl

/-! ### `Static.resolve` -/

theorem Static.resolve_succ (S : Static) (n : Nat) (lvl a : Comp) (p : Port) :
    S.resolve (n + 1) lvl a p =
      if a == pseudoExternal then
        if lvl == "" then none
        else match alookup S.parent lvl with
          | none => none
          | some P => match S.level P with
            | none => none
            | some LP => match LP.wiring.sourceOf lvl p with
              | none => none
              | some (a', p') => S.resolve n P a' p'
      else if S.isSys a then
        match S.level a with
        | none => none
        | some La => match La.wiring.sourceOf pseudoExpose p with
          | none => none
          | some (a', p') => S.resolve n a a' p'
      else some (a, p) := by
  rw [Static.resolve]
  rfl

/-- with enough fuel: `external` resolves through the enclosing system's input wire -/
theorem Static.ResolveStable.external {S : Static} {n : Nat} (h : S.ResolveStable n) {lvl P : Comp}
    {LP : Level} (hne : lvl ≠ "") (hP : alookup S.parent lvl = some P) (hLP : S.level P = some LP)
    (p : Port) (x : CPort) :
    S.resolve n lvl pseudoExternal p = some x ↔
      ∃ a' p', LP.wiring.sourceOf lvl p = some (a', p') ∧ S.resolve n P a' p' = some x := by
  rw [← h, Static.resolve_succ]
  simp only [beq_self_eq_true, if_true, beq_iff_eq, hne, if_false, hP, hLP]
  cases hs : LP.wiring.sourceOf lvl p with
  | none => simp
  | some ap =>
    obtain ⟨a', p'⟩ := ap
    simp only [Option.some.injEq, Prod.mk.injEq]
    constructor
    · intro h; exact ⟨_, _, ⟨rfl, rfl⟩, h⟩
    · rintro ⟨_, _, ⟨rfl, rfl⟩, h⟩; exact h

/-- with enough fuel: a system's output resolves through its `expose` wiring -/
theorem Static.ResolveStable.system {S : Static} {n : Nat} (h : S.ResolveStable n) {lvl a : Comp}
    {La : Level} (hne : a ≠ pseudoExternal) (hs : S.isSys a = true) (hLa : S.level a = some La)
    (p : Port) (x : CPort) :
    S.resolve n lvl a p = some x ↔
      ∃ a' p', La.wiring.sourceOf pseudoExpose p = some (a', p') ∧ S.resolve n a a' p' = some x := by
  rw [← h, Static.resolve_succ]
  simp only [beq_iff_eq, hne, if_false, hs, if_true, hLa]
  cases hs : La.wiring.sourceOf pseudoExpose p with
  | none => simp
  | some ap =>
    obtain ⟨a', p'⟩ := ap
    simp only [Option.some.injEq, Prod.mk.injEq]
    constructor
    · intro h; exact ⟨_, _, ⟨rfl, rfl⟩, h⟩
    · rintro ⟨_, _, ⟨rfl, rfl⟩, h⟩; exact h

/-- with enough fuel: a device output resolves to itself -/
theorem Static.ResolveStable.device {S : Static} {n : Nat} (h : S.ResolveStable n) {lvl a : Comp}
    (hne : a ≠ pseudoExternal) (hs : S.isSys a = false) (p : Port) :
    S.resolve n lvl a p = some (a, p) := by
  rw [← h, Static.resolve_succ]
  simp [hne, hs]

/-- `resolve` only ever returns devices -/
theorem Static.Valid.resolve_device {S : Static} (hS : S.Valid) :
    ∀ (n : Nat) (L : Level), L ∈ S.levels → ∀ (a : Comp) (p : Port) (b : Comp) (q : Port),
      L.wiring.Conn a p b q → ∀ a₀ p₀, S.resolve n L.name a p = some (a₀, p₀) → S.isDevice a₀ := by
  intro n
  induction n with
  | zero => intro L _ a p b q _ a₀ p₀ h; simp [Static.resolve] at h
  | succ n ih =>
    intro L hL a p b q hc a₀ p₀ h
    rw [Static.resolve_succ] at h
    by_cases hx : a = pseudoExternal
    · simp only [hx, beq_self_eq_true, if_true, beq_iff_eq] at h
      split at h
      · cases h
      · split at h
        · cases h
        · rename_i P hP
          split at h
          · cases h
          · rename_i LP hLP
            split at h
            · cases h
            · rename_i a' p' hsrc
              obtain ⟨hLP1, hLP2⟩ := Static.level_some hLP
              obtain ⟨hwf, hos⟩ := hS.wiring_wf LP hLP1
              rw [← hLP2] at h
              exact ih LP hLP1 a' p' _ _ ((Wiring.sourceOf_eq_some hwf hos).1 hsrc) a₀ p₀ h
    · simp only [beq_iff_eq, hx, if_false] at h
      split at h
      · rename_i hsys
        split at h
        · cases h
        · rename_i La hLa
          split at h
          · cases h
          · rename_i a' p' hsrc
            obtain ⟨hLa1, hLa2⟩ := Static.level_some hLa
            obtain ⟨hwf, hos⟩ := hS.wiring_wf La hLa1
            rw [← hLa2] at h
            exact ih La hLa1 a' p' _ _ ((Wiring.sourceOf_eq_some hwf hos).1 hsrc) a₀ p₀ h
      · rename_i hsys
        simp only [Option.some.injEq, Prod.mk.injEq] at h
        obtain ⟨rfl, rfl⟩ := h
        have hac := (Wiring.conn_mem_components (hS.wiring_wf L hL).1 hc).1
        rcases hS.members L hL a hac with hp | ⟨_, hp | hp⟩
        · exact ⟨by rw [hp]; rfl, by simpa using hsys⟩
        · exact absurd hp hx
        · exact absurd hp (hS.pseudo_dir L hL _ _ _ _ hc).2

/-! ### `Static.flatInputs` -/

theorem Static.flatInputs_nodup (S : Static) (n : Nat) (c : Comp) : (akeys (S.flatInputs n c)).Nodup := by
  unfold Static.flatInputs
  cases hp : alookup S.parent c with
  | none => simp
  | some lvl =>
    cases hL : S.level lvl with
    | none => simp [hL]
    | some L =>
      simp only [hL]
      refine List.Sublist.nodup (flt_akeys_filterMap_sublist _ (fun e : CPort => S.resolve n lvl e.1 e.2)) ?_
      exact DictWF_agetD (InvWiring.wf_fromWiring' L.wiring).2 c

/-- the resolved source of an input port of a component -/
theorem Static.Valid.flatInputs_spec {S : Static} (hS : S.Valid) (n : Nat) (c : Comp) (q : Port)
    (x : CPort) :
    alookup (S.flatInputs n c) q = some x ↔
      ∃ lvl L a p, alookup S.parent c = some lvl ∧ S.level lvl = some L ∧ L.wiring.Conn a p c q ∧
        S.resolve n lvl a p = some x := by
  unfold Static.flatInputs
  cases hp : alookup S.parent c with
  | none => simp
  | some lvl =>
    cases hL : S.level lvl with
    | none => simp [hL]
    | some L =>
      obtain ⟨hL1, _⟩ := Static.level_some hL
      obtain ⟨hwf, hos⟩ := hS.wiring_wf L hL1
      simp only [hL, Option.some.injEq, exists_and_left, exists_eq_left']
      rw [flt_alookup_filterMap (DictWF_agetD (InvWiring.wf_fromWiring' L.wiring).2 c)
        (fun e : CPort => S.resolve n lvl e.1 e.2)]
      constructor
      · intro h
        cases hs : alookup (agetD (InvWiring.fromWiring L.wiring) c []) q with
        | none => simp [hs] at h
        | some ap =>
          obtain ⟨a, p⟩ := ap
          rw [hs] at h
          exact ⟨a, p, (Wiring.sourceOf_eq_some hwf hos).1 hs, h⟩
      · rintro ⟨a, p, hc, hr⟩
        have hs : alookup (agetD (InvWiring.fromWiring L.wiring) c []) q = some (a, p) :=
          (Wiring.sourceOf_eq_some hwf hos).2 hc
        rw [hs]
        exact hr

end Tickit
