/-
Helper lemmas for C08 / C04 (determinism and time monotonicity of the flat multi-tick system).
All declarations here live in namespace `Tickit.Det` to avoid clashes.
-/
import TickitModel.Lemmas.FlatLemmas
import TickitModel.Lemmas.MiscLemmas
import TickitModel.Props.C06

namespace Tickit.Det

open Tickit

set_option linter.unusedSectionVars false

variable {Val : Type} [DecidableEq Val]

/-! ### unfolding `afterTick` -/

theorem afterTick_nil (st : FlatSt Val) (dev : DevFn Val) : st.afterTick dev [] = st := rfl

theorem afterTick_cons_dispatch (st : FlatSt Val) (dev : DevFn Val) (d : Dispatch Val)
    (tr : List (Ev Val)) :
    st.afterTick dev (Ev.dispatch d :: tr) = (st.absorb dev d).afterTick dev tr := rfl

theorem afterTick_cons_answer (st : FlatSt Val) (dev : DevFn Val) (a : Comp)
    (ch : List (Port × Val)) (tr : List (Ev Val)) :
    st.afterTick dev (Ev.answer a ch :: tr) = st.afterTick dev tr := rfl

/-! ### C04: what a tick adds to the observation log and to the wakeups -/

/-- an observation present after a tick was there before or stems from an `Input` of the tick. -/
theorem mem_obs_afterTick {st : FlatSt Val} {dev : DevFn Val} {tr : List (Ev Val)}
    {o : Comp × SimTime × List (Port × Val)} (h : o ∈ (st.afterTick dev tr).obs) :
    o ∈ st.obs ∨ ∃ c t ins, Ev.dispatch (.input c t ins) ∈ tr ∧ o.2.1 = t := by
  induction tr generalizing st with
  | nil => exact Or.inl h
  | cons e tr ih =>
    cases e with
    | answer a ch =>
      rw [afterTick_cons_answer] at h
      rcases ih h with h | ⟨c, t, ins, hm, ht⟩
      · exact Or.inl h
      · exact Or.inr ⟨c, t, ins, List.mem_cons_of_mem _ hm, ht⟩
    | dispatch d =>
      rw [afterTick_cons_dispatch] at h
      rcases ih h with h | ⟨c, t, ins, hm, ht⟩
      · cases d with
        | skip c t => exact Or.inl h
        | input c t ins =>
          simp only [FlatSt.absorb, List.mem_append, List.mem_singleton] at h
          rcases h with h | rfl
          · exact Or.inl h
          · exact Or.inr ⟨c, t, ins, by simp, rfl⟩
      · exact Or.inr ⟨c, t, ins, List.mem_cons_of_mem _ hm, ht⟩

/-- a wakeup present after a tick was there before or was requested by a device updated in
the tick. -/
theorem wake_afterTick_cases {st : FlatSt Val} {dev : DevFn Val} {tr : List (Ev Val)} {c : Comp}
    {x : SimTime} (h : alookup (st.afterTick dev tr).wake c = some x) :
    alookup st.wake c = some x ∨
      ∃ t ins given, Ev.dispatch (.input c t ins) ∈ tr ∧ (dev c t given).callAt = some x := by
  induction tr generalizing st with
  | nil => exact Or.inl h
  | cons e tr ih =>
    cases e with
    | answer a ch =>
      rw [afterTick_cons_answer] at h
      rcases ih h with h | ⟨t, ins, g, hm, ht⟩
      · exact Or.inl h
      · exact Or.inr ⟨t, ins, g, List.mem_cons_of_mem _ hm, ht⟩
    | dispatch d =>
      rw [afterTick_cons_dispatch] at h
      rcases ih h with h | ⟨t, ins, g, hm, ht⟩
      · cases d with
        | skip c' t => exact Or.inl h
        | input c' t ins =>
          simp only [FlatSt.absorb] at h
          split at h
          · rename_i x' hx'
            rw [addWakeup_lookup] at h
            by_cases hcc : c = c'
            · subst hcc
              rw [if_pos rfl] at h
              exact Or.inr ⟨t, ins, _, by simp, hx'.trans h⟩
            · rw [if_neg hcc] at h
              exact Or.inl h
          · exact Or.inl h
      · exact Or.inr ⟨t, ins, g, List.mem_cons_of_mem _ hm, ht⟩

theorem uniqueKeys_wake_absorb {st : FlatSt Val} (dev : DevFn Val) (d : Dispatch Val)
    (h : UniqueKeys st.wake) : UniqueKeys (st.absorb dev d).wake := by
  cases d with
  | skip c t => exact h
  | input c t ins =>
    simp only [FlatSt.absorb]
    split
    · exact addWakeup_unique _ h _ _
    · exact h

theorem uniqueKeys_wake_afterTick {st : FlatSt Val} (dev : DevFn Val) (tr : List (Ev Val))
    (h : UniqueKeys st.wake) : UniqueKeys (st.afterTick dev tr).wake := by
  induction tr generalizing st with
  | nil => exact h
  | cons e tr ih =>
    cases e with
    | answer a ch => exact ih h
    | dispatch d => exact ih (uniqueKeys_wake_absorb dev d h)

theorem tickRun_uniqueKeys {w : Wiring} {dev : DevFn Val} {st st' : FlatSt Val} {t : SimTime}
    {roots : List Comp} (hrun : TickRun w dev st t roots st') (h : UniqueKeys st.wake) :
    UniqueKeys st'.wake := by
  obtain ⟨s, _, _, rfl⟩ := hrun
  exact uniqueKeys_wake_afterTick dev s.trace h

/-- the wakeups of every reachable state of a flat run form a dict. -/
theorem flatRun_uniqueKeys {w : Wiring} {devs : DevSeq Val} {t0 : SimTime} {n : Nat}
    {st : FlatSt Val} {times : List SimTime} (hrun : FlatRun w devs t0 n st times) :
    UniqueKeys st.wake := by
  induction hrun with
  | initial h => exact tickRun_uniqueKeys h (by simp [UniqueKeys])
  | tick _ _ h ih => exact tickRun_uniqueKeys h (delWakeups_unique _ ih _)

/-- after a tick at `t` every wakeup is an old one or at/after `t`. -/
theorem tickRun_wake_ge {w : Wiring} {dev : DevFn Val} {st st' : FlatSt Val} {t : SimTime}
    {roots : List Comp} (hpast : ∀ c t ins x, (dev c t ins).callAt = some x → t ≤ x)
    (hrun : TickRun w dev st t roots st') {c : Comp} {x : SimTime}
    (h : alookup st'.wake c = some x) : alookup st.wake c = some x ∨ t ≤ x := by
  obtain ⟨s, hs, _, rfl⟩ := hrun
  rcases wake_afterTick_cases h with h | ⟨t', ins, g, hm, hx⟩
  · exact Or.inl h
  · have := (hs.inv.pre.disp_ext _ hm).2
    simp only [Dispatch.time] at this
    subst this
    exact Or.inr (hpast _ _ _ _ hx)

/-- invariant of a flat run: the wakeups are a dict whose entries are all at or after the
latest tick time. -/
theorem flatRun_wake_ge {w : Wiring} {devs : DevSeq Val}
    (hpast : ∀ k c t ins x, ((devs k) c t ins).callAt = some x → t ≤ x)
    {t0 : SimTime} {n : Nat} {st : FlatSt Val} {times : List SimTime}
    (hrun : FlatRun w devs t0 n st times) :
    ∃ tl rest, times = tl :: rest ∧ ∀ c t, alookup st.wake c = some t → tl ≤ t := by
  cases hrun with
  | initial h =>
    refine ⟨t0, [], rfl, fun c t hc => ?_⟩
    rcases tickRun_wake_ge (hpast 0) h hc with h' | h'
    · simp at h'
    · exact h'
  | @tick n st0 _ times0 cs m hprev hf h =>
    refine ⟨m, times0, rfl, fun c t hc => ?_⟩
    rcases tickRun_wake_ge (hpast (n + 1)) h hc with h' | h'
    · exact Int.le_of_lt (served_then_later _ (flatRun_uniqueKeys hprev) cs m hf c t h')
    · exact h'

/-! ### C08, part 0: association-list facts -/

theorem mapEq_aupdate_left {κ β : Type} [DecidableEq κ] {a b : List (κ × β)} (h : MapEq a b)
    (o : List (κ × β)) : MapEq (aupdate a o) (aupdate b o) := by
  intro x
  rw [alookup_aupdate a, alookup_aupdate b, h x]

theorem mapEq_aupdate {κ β : Type} [DecidableEq κ] {a b i1 i2 : List (κ × β)} (h : MapEq a b)
    (hn1 : (akeys i1).Nodup) (hn2 : (akeys i2).Nodup) (hi : MapEq i1 i2) :
    MapEq (aupdate a i1) (aupdate b i2) := by
  intro x
  rw [alookup_aupdate_of_nodup a hn1, alookup_aupdate_of_nodup b hn2, h x, hi x]

theorem outChanges_congr {l1 l2 : List (Port × Val)} (h : MapEq l1 l2) (outs : List (Port × Val)) :
    outChanges l1 outs = outChanges l2 outs := by
  unfold outChanges
  congr 1
  funext kv
  rw [h kv.1]

theorem nodup_akeys_filter {κ β : Type} {m : List (κ × β)} (hn : (akeys m).Nodup)
    (p : κ × β → Bool) : (akeys (m.filter p)).Nodup := by
  unfold akeys at *
  exact hn.sublist (List.Sublist.map _ List.filter_sublist)

theorem nodup_akeys_normDict (items : List (Port × Val)) : (akeys (normDict items)).Nodup :=
  nodup_akeys_aupdate (m := []) (by simp) items

/-! ### C08, part 1: the reaction function of a flat state -/

/-- reactions depend on the input changes as a mapping, for changes that are dicts -/
def ReactExtN (react : React Val) : Prop :=
  ∀ c i1 i2, (akeys i1).Nodup → (akeys i2).Nodup → MapEq i1 i2 → react c i1 = react c i2

theorem react_wf (st : FlatSt Val) (dev : DevFn Val) (t : SimTime) : ReactWF (st.react dev t) := by
  intro c ins
  exact nodup_akeys_filter (nodup_akeys_normDict _) _

theorem react_extN (st : FlatSt Val) {dev : DevFn Val} (hdev : DevExt dev) (t : SimTime) :
    ReactExtN (st.react dev t) := by
  intro c i1 i2 h1 h2 hi
  simp only [FlatSt.react, DevComp.merge]
  rw [hdev c t _ _ (mapEq_aupdate (fun _ => rfl) h1 h2 hi)]

/-- states that agree on inputs and last outputs as mappings react identically. -/
theorem react_congr {a b : FlatSt Val} {dev : DevFn Val} (hdev : DevExt dev) (t : SimTime)
    (h : ∀ c, MapEq (a.comp c).deviceInputs (b.comp c).deviceInputs ∧
      MapEq (a.comp c).lastOutputs (b.comp c).lastOutputs) :
    a.react dev t = b.react dev t := by
  funext c ins
  simp only [FlatSt.react, DevComp.merge]
  rw [hdev c t _ _ (mapEq_aupdate_left (h c).1 ins), outChanges_congr (h c).2]

/-! ### C08, part 2: the changes carried by an `Input` form a dict -/

def InsNodup : Dispatch Val → Prop
  | .input _ _ ins => (akeys ins).Nodup
  | .skip _ _ => True

/-- every per-component accumulator is a dict, and so are the changes of every dispatch. -/
def InsInv (inputs : List (Comp × List (Port × Val))) (tr : List (Ev Val)) : Prop :=
  (∀ c, (akeys (agetD inputs c [])).Nodup) ∧ ∀ d, Ev.dispatch d ∈ tr → InsNodup d

theorem insNodup_decide {tk : Ticker Val} (h : ∀ c, (akeys (agetD tk.inputs c [])).Nodup)
    (c : Comp) : InsNodup (tk.decide c) := by
  rcases tk.decide_cases c with ⟨h1, _⟩ | ⟨h1, _⟩
  · rw [h1]; exact h c
  · rw [h1]; trivial

theorem InsInv.schedule {w : Wiring} {tk : Ticker Val} {tr : List (Ev Val)}
    {l : List (Comp × Bool)} {ds : List (Dispatch Val)} (h : InsInv tk.inputs tr)
    (hs : Ticker.scheduleLoop w tk l = .ok ds) : InsInv tk.inputs (tr ++ ds.map Ev.dispatch) := by
  obtain ⟨hspec, _⟩ := scheduleLoop_spec hs
  refine ⟨h.1, fun d hd => ?_⟩
  rcases List.mem_append.1 hd with hd | hd
  · exact h.2 d hd
  · simp only [List.mem_map, Ev.dispatch.injEq, exists_eq_right] at hd
    rw [hspec] at hd
    obtain ⟨e, _, rfl⟩ := List.mem_map.1 hd
    exact insNodup_decide h.1 e.1

theorem InsInv.answer {w : Wiring} (hw : RouterOK w) {inputs : List (Comp × List (Port × Val))}
    {tr : List (Ev Val)} (h : InsInv inputs tr) (src : Comp) (chs : List (Port × Val)) :
    InsInv (addInputs inputs (w.route src chs)) (tr ++ [Ev.answer src chs]) := by
  refine ⟨fun c => ?_, fun d hd => ?_⟩
  · rw [agetD_addInputs _ (hw.route_wf src chs).1]
    exact nodup_akeys_aupdate (h.1 c) _
  · simp only [List.mem_append, List.mem_singleton, reduceCtorEq, or_false] at hd
    exact h.2 d hd

theorem reachable_insInv {w : Wiring} (hw : RouterOK w) {react : React Val} {t : SimTime}
    {roots : List Comp} {s : TickSys Val} (hs : s.Reachable w react t roots) :
    InsInv s.tk.inputs s.trace := by
  induction hs with
  | init h =>
    obtain ⟨ds, hsl, _, _, _, _, htr⟩ := TickSys.init_eq_ok h
    obtain ⟨_, hin⟩ := TickSys.init_tk h
    have h0 : InsInv (Ticker.startTick w t roots : Ticker Val).inputs [] :=
      ⟨fun c => by simp [Ticker.startTick, agetD], by simp⟩
    have := h0.schedule hsl
    rw [hin, htr]
    simpa [Ticker.startTick] using this
  | step _ h ih =>
    obtain ⟨d, ds, hd, _, _, hsl, _, _, _, _, htr⟩ := TickSys.step_eq_ok h
    obtain ⟨_, hin⟩ := TickSys.step_tk h hd
    have := InsInv.schedule (tk := _root_.Tickit.Ticker.afterAnswer w _ d.comp (answerOf react d))
      (ih.answer hw d.comp (answerOf react d)) hsl
    rw [hin, htr]
    exact this

/-! ### C08, part 3: the extent depends on the roots as a set -/

theorem mem_akeys_foldl_upsert (cs : List Comp) (tu : List (Comp × Bool)) (x : Comp) :
    x ∈ akeys (cs.foldl (fun acc c => upsert acc c false) tu) ↔ x ∈ akeys tu ∨ x ∈ cs := by
  induction cs generalizing tu with
  | nil => simp
  | cons c cs ih =>
    rw [List.foldl_cons, ih, mem_akeys_upsert, List.mem_cons]
    constructor
    · rintro ((h | h) | h)
      · exact Or.inr (Or.inl h)
      · exact Or.inl h
      · exact Or.inr (Or.inr h)
    · rintro (h | h | h)
      · exact Or.inl (Or.inr h)
      · exact Or.inl (Or.inl h)
      · exact Or.inr h

theorem mem_extent_iff (w : Wiring) (roots : List Comp) (x : Comp) :
    x ∈ extent w roots ↔ ∃ r ∈ roots, x ∈ w.dependants r := by
  suffices h : ∀ (rs : List Comp) (tu : List (Comp × Bool)),
      x ∈ akeys (rs.foldl (fun acc r => (w.dependants r).foldl (fun acc c => upsert acc c false) acc) tu) ↔
        x ∈ akeys tu ∨ ∃ r ∈ rs, x ∈ w.dependants r by
    have := h roots []
    simpa [extent, Ticker.startTick] using this
  intro rs
  induction rs with
  | nil => simp
  | cons r rs ih =>
    intro tu
    rw [List.foldl_cons, ih, mem_akeys_foldl_upsert]
    simp only [List.mem_cons, exists_eq_or_imp, or_assoc]

theorem extent_congr (w : Wiring) {roots roots' : List Comp} (h : ∀ c, c ∈ roots ↔ c ∈ roots')
    (x : Comp) : x ∈ extent w roots ↔ x ∈ extent w roots' := by
  rw [mem_extent_iff, mem_extent_iff]
  constructor
  · rintro ⟨r, hr, hx⟩; exact ⟨r, (h r).1 hr, hx⟩
  · rintro ⟨r, hr, hx⟩; exact ⟨r, (h r).2 hr, hx⟩

/-! ### C08, part 4: schedule independence of one tick, for root lists equal as sets -/

theorem equiv_answerOf_eq {react : React Val} (hext : ReactExtN react) {d1 d2 : Dispatch Val}
    (h : Dispatch.Equiv d1 d2) (h1 : InsNodup d1) (h2 : InsNodup d2) :
    answerOf react d1 = answerOf react d2 := by
  cases d1 <;> cases d2 <;> simp only [Dispatch.Equiv] at h
  · obtain ⟨rfl, _, h⟩ := h
    exact hext _ _ _ h1 h2 h
  · rfl

theorem sameDispatch_answer {react : React Val} (hext : ReactExtN react) {tr1 tr2 : List (Ev Val)}
    (hn1 : ∀ d, Ev.dispatch d ∈ tr1 → InsNodup d) (hn2 : ∀ d, Ev.dispatch d ∈ tr2 → InsNodup d)
    {a : Comp} (h : SameDispatch (dispatchOf tr1 a) (dispatchOf tr2 a)) :
    (dispatchOf tr1 a).map (answerOf react) = (dispatchOf tr2 a).map (answerOf react) := by
  cases h1 : dispatchOf tr1 a with
  | none =>
    cases h2 : dispatchOf tr2 a with
    | none => rfl
    | some d2 => rw [h1, h2] at h; exact h.elim
  | some d1 =>
    cases h2 : dispatchOf tr2 a with
    | none => rw [h1, h2] at h; exact h.elim
    | some d2 =>
      rw [h1, h2] at h
      simp only [Option.map_some, Option.some.injEq]
      exact equiv_answerOf_eq hext h (hn1 _ (dispatchOf_eq_some h1).1) (hn2 _ (dispatchOf_eq_some h2).1)

theorem fed_of_answer_eq {w : Wiring} {react : React Val} {tr1 tr2 : List (Ev Val)} {c : Comp}
    (h : ∀ a p q, w.Conn a p c q →
      (dispatchOf tr1 a).map (answerOf react) = (dispatchOf tr2 a).map (answerOf react))
    {q : Port} {v : Val} (hf : Fed w react tr1 c q v) : Fed w react tr2 c q v := by
  obtain ⟨a, p, d, hconn, hd, hv⟩ := hf
  have := h a p q hconn
  rw [hd, Option.map_some] at this
  obtain ⟨d', hd', he⟩ := Option.map_eq_some_iff.1 this.symm
  exact ⟨a, p, d', hconn, hd', he ▸ hv⟩

/-- **schedule independence of one tick**, for two root lists with the same members and
reactions that are extensional on dicts. -/
theorem sameDispatch_of_complete' {w : Wiring} (hw : RouterOK w) (hacyc : w.Acyclic)
    {react : React Val} (hr : ReactWF react) (hext : ReactExtN react) {t : SimTime}
    {roots roots' : List Comp} (hroots : ∀ c, c ∈ roots ↔ c ∈ roots') {s1 s2 : TickSys Val}
    (h1 : s1.Reachable w react t roots) (h2 : s2.Reachable w react t roots')
    (hf1 : s1.tk.toUpdate = []) (hf2 : s2.tk.toUpdate = [])
    (c : Comp) : SameDispatch (dispatchOf s1.trace c) (dispatchOf s2.trace c) := by
  obtain ⟨rank, hrank⟩ := hacyc
  have hn1 := (reachable_insInv hw h1).2
  have hn2 := (reachable_insInv hw h2).2
  suffices key : ∀ n c, rank c < n →
      SameDispatch (dispatchOf s1.trace c) (dispatchOf s2.trace c) from
    key _ c (Nat.lt_succ_self _)
  intro n
  induction n with
  | zero => intro c hc; omega
  | succ n ih =>
    intro c hc
    cases h1c : dispatchOf s1.trace c with
    | none =>
      have hce := (dispatchOf_eq_none_iff_of_complete hw hr h1 hf1 c).1 h1c
      rw [(dispatchOf_eq_none_iff_of_complete hw hr h2 hf2 c).2
        (fun h => hce ((extent_congr w hroots c).2 h))]
      trivial
    | some d1 =>
      obtain ⟨hce, ⟨us, hus⟩, hsp1⟩ := dispatch_spec hw hr h1 h1c
      cases h2c : dispatchOf s2.trace c with
      | none =>
        exact absurd ((extent_congr w hroots c).1 hce)
          ((dispatchOf_eq_none_iff_of_complete hw hr h2 hf2 c).1 h2c)
      | some d2 =>
        obtain ⟨_, _, hsp2⟩ := dispatch_spec hw hr h2 h2c
        have hP : ∀ a p q, w.Conn a p c q →
            (dispatchOf s1.trace a).map (answerOf react) =
              (dispatchOf s2.trace a).map (answerOf react) := by
          intro a p q hconn
          have := hrank c us a hus ((hw.ups_edge c us hus a).2 ⟨p, q, hconn⟩)
          exact sameDispatch_answer hext hn1 hn2 (ih a (by omega))
        have hfed : ∀ q v, Fed w react s1.trace c q v ↔ Fed w react s2.trace c q v :=
          fun q v => ⟨fed_of_answer_eq hP, fed_of_answer_eq (fun a p q h => (hP a p q h).symm)⟩
        rcases hsp1 with ⟨i1, rfl, hr1, hi1⟩ | ⟨rfl, hnr1, hno1⟩ <;>
          rcases hsp2 with ⟨i2, rfl, hr2, hi2⟩ | ⟨rfl, hnr2, hno2⟩
        · exact ⟨rfl, rfl, fun q => option_ext_some (fun v =>
            (hi1 q v).trans ((hfed q v).trans (hi2 q v).symm))⟩
        · rcases hr1 with hr1 | ⟨q, v, hr1⟩
          · exact absurd ((hroots c).1 hr1) hnr2
          · exact absurd ((hfed q v).1 hr1) (hno2 q v)
        · rcases hr2 with hr2 | ⟨q, v, hr2⟩
          · exact absurd ((hroots c).2 hr2) hnr1
          · exact absurd ((hfed q v).2 hr2) (hno1 q v)
        · exact ⟨rfl, rfl⟩

/-! ### C08, part 5: the effect of a tick on one component -/

/-- the part of a flat state that belongs to one component: its state, its pending wakeup and
its observations. -/
structure Loc (Val : Type) where
  dc : DevComp Val
  wk : Option SimTime
  ob : List (SimTime × List (Port × Val))

def loc (st : FlatSt Val) (c : Comp) : Loc Val := ⟨st.comp c, alookup st.wake c, st.obsOf c⟩

/-- the effect on `c` of the dispatch (if any) `c` received in a tick. -/
def Loc.absorb (dev : DevFn Val) (c : Comp) (L : Loc Val) : Option (Dispatch Val) → Loc Val
  | some (.input _ t ins) =>
    ⟨⟨L.dc.merge ins, normDict (dev c t (L.dc.merge ins)).outs⟩,
      match (dev c t (L.dc.merge ins)).callAt with
      | some x => some x
      | none => L.wk,
      L.ob ++ [(t, L.dc.merge ins)]⟩
  | some (.skip _ _) => L
  | none => L

theorem loc_absorb_ne (st : FlatSt Val) (dev : DevFn Val) {d : Dispatch Val} {c : Comp}
    (h : d.comp ≠ c) : loc (st.absorb dev d) c = loc st c := by
  cases d with
  | skip c' t => rfl
  | input c' t ins =>
    simp only [Dispatch.comp] at h
    simp only [loc, FlatSt.absorb, Loc.mk.injEq]
    refine ⟨?_, ?_, ?_⟩
    · simp only [FlatSt.comp, agetD, alookup_upsert, if_neg h]
    · split
      · rw [addWakeup_lookup, if_neg (Ne.symm h)]
      · rfl
    · simp [FlatSt.obsOf, List.filter_append, h]

theorem loc_absorb_eq (st : FlatSt Val) (dev : DevFn Val) {d : Dispatch Val} {c : Comp}
    (h : d.comp = c) : loc (st.absorb dev d) c = (loc st c).absorb dev c (some d) := by
  cases d with
  | skip c' t => rfl
  | input c' t ins =>
    simp only [Dispatch.comp] at h
    subst h
    simp only [loc, FlatSt.absorb, Loc.absorb, Loc.mk.injEq]
    refine ⟨?_, ?_, ?_⟩
    · simp [FlatSt.comp, agetD, alookup_upsert]
    · split
      · rename_i x hx
        rw [addWakeup_lookup, if_pos rfl]
        simp only [FlatSt.comp] at hx ⊢
        rw [hx]
      · rename_i hx
        simp only [FlatSt.comp] at hx ⊢
        rw [hx]
    · simp [FlatSt.obsOf, List.filter_append]

/-- with at most one dispatch per component, the state of `c` after a tick is its state
before, transformed by the dispatch `c` received. -/
theorem loc_afterTick (dev : DevFn Val) {tr : List (Ev Val)}
    (hcount : ∀ c, (tr.filter (Ev.isDispatchOf c)).length ≤ 1) (st : FlatSt Val) (c : Comp) :
    loc (st.afterTick dev tr) c = (loc st c).absorb dev c (dispatchOf tr c) := by
  induction tr generalizing st with
  | nil => rfl
  | cons e tr ih =>
    cases e with
    | answer a ch =>
      rw [afterTick_cons_answer, dispatchOf_cons_answer]
      exact ih (fun c' => by simpa [Ev.isDispatchOf] using hcount c') st
    | dispatch d =>
      have htail : ∀ c', (tr.filter (Ev.isDispatchOf c')).length ≤ 1 := by
        intro c'
        have := hcount c'
        rw [List.filter_cons] at this
        split at this
        · simp only [List.length_cons] at this; omega
        · exact this
      rw [afterTick_cons_dispatch, dispatchOf_cons_dispatch, ih htail]
      by_cases hc : d.comp = c
      · rw [if_pos hc]
        have hnone : dispatchOf tr c = none := by
          rw [dispatchOf_eq_none_iff]
          intro d' hd' hdc
          have := hcount c
          rw [List.filter_cons, if_pos (by simp [Ev.isDispatchOf, hc])] at this
          have h0 : (tr.filter (Ev.isDispatchOf c)).length = 0 := by
            simp only [List.length_cons] at this; omega
          have hm : Ev.dispatch d' ∈ tr.filter (Ev.isDispatchOf c) :=
            List.mem_filter.2 ⟨hd', by simp [Ev.isDispatchOf, hdc]⟩
          rw [List.length_eq_zero_iff.1 h0] at hm
          simp at hm
        rw [hnone, loc_absorb_eq st dev hc]
        rfl
      · rw [if_neg hc, loc_absorb_ne st dev hc]

/-! observation sequences -/

theorem obsEq_append {a b a' b' : List (SimTime × List (Port × Val))} (h : ObsEq a b)
    (h' : ObsEq a' b') : ObsEq (a ++ a') (b ++ b') := by
  induction a generalizing b with
  | nil =>
    cases b with
    | nil => exact h'
    | cons y b => simp [ObsEq] at h
  | cons x a ih =>
    cases b with
    | nil => simp [ObsEq] at h
    | cons y b =>
      obtain ⟨t1, i1⟩ := x
      obtain ⟨t2, i2⟩ := y
      simp only [ObsEq, List.cons_append] at h ⊢
      exact ⟨h.1, h.2.1, ih h.2.2⟩

/-- local equivalence of two states at one component -/
structure Loc.Equiv (L1 L2 : Loc Val) : Prop where
  ins : MapEq L1.dc.deviceInputs L2.dc.deviceInputs
  outs : MapEq L1.dc.lastOutputs L2.dc.lastOutputs
  wk : L1.wk = L2.wk
  ob : ObsEq L1.ob L2.ob

/-- equivalent dispatches take equivalent local states to equivalent local states. -/
theorem Loc.Equiv.absorb {dev : DevFn Val} (hdev : DevExt dev) (c : Comp) {L1 L2 : Loc Val}
    (h : L1.Equiv L2) {o1 o2 : Option (Dispatch Val)} (ho : SameDispatch o1 o2)
    (hn1 : ∀ d, o1 = some d → InsNodup d) (hn2 : ∀ d, o2 = some d → InsNodup d) :
    (L1.absorb dev c o1).Equiv (L2.absorb dev c o2) := by
  cases o1 with
  | none =>
    cases o2 with
    | none => exact h
    | some d2 => exact ho.elim
  | some d1 =>
    cases o2 with
    | none => exact ho.elim
    | some d2 =>
      have hd1 := hn1 d1 rfl
      have hd2 := hn2 d2 rfl
      cases d1 with
      | skip c1 t1 =>
        cases d2 with
        | skip c2 t2 => exact h
        | input c2 t2 i2 => exact ho.elim
      | input c1 t1 i1 =>
        cases d2 with
        | skip c2 t2 => exact ho.elim
        | input c2 t2 i2 =>
          obtain ⟨_, rfl, hi⟩ : c1 = c2 ∧ t1 = t2 ∧ ∀ q, alookup i1 q = alookup i2 q := ho
          have hg : MapEq (L1.dc.merge i1) (L2.dc.merge i2) := mapEq_aupdate h.ins hd1 hd2 hi
          have hr := hdev c t1 _ _ hg
          simp only [Loc.absorb]
          refine ⟨hg, ?_, ?_, obsEq_append h.ob ?_⟩
          · rw [hr]; exact fun _ => rfl
          · simp only [hr, h.wk]
          · exact ⟨rfl, hg, trivial⟩

/-- **one tick**, local form: from locally equivalent states, two complete runs of the same
tick (any answer orders, root lists equal as sets) end in locally equivalent states. -/
theorem tickRun_loc_equiv {w : Wiring} (hw : RouterOK w) (hacyc : w.Acyclic) {dev : DevFn Val}
    (hdev : DevExt dev) {a b a' b' : FlatSt Val} {t : SimTime} {roots roots' : List Comp}
    (hroots : ∀ c, c ∈ roots ↔ c ∈ roots')
    (hab : ∀ c, (loc a c).Equiv (loc b c)) (ha : TickRun w dev a t roots a')
    (hb : TickRun w dev b t roots' b') (c : Comp) : (loc a' c).Equiv (loc b' c) := by
  obtain ⟨s1, h1, hf1, rfl⟩ := ha
  obtain ⟨s2, h2, hf2, rfl⟩ := hb
  have hre : b.react dev t = a.react dev t :=
    (react_congr hdev t (fun c => ⟨(hab c).ins, (hab c).outs⟩)).symm
  rw [hre] at h2
  have hsame := sameDispatch_of_complete' hw hacyc (react_wf a dev t) (react_extN a hdev t)
    hroots h1 h2 hf1 hf2 c
  rw [loc_afterTick dev (fun c => (h1.inv.pre.count c).1),
    loc_afterTick dev (fun c => (h2.inv.pre.count c).1)]
  exact (hab c).absorb hdev c hsame
    (fun d hd => (reachable_insInv hw h1).2 d (dispatchOf_eq_some hd).1)
    (fun d hd => (reachable_insInv hw h2).2 d (dispatchOf_eq_some hd).1)

/-! ### C08, part 6: many ticks -/

theorem obsEq_refl (l : List (SimTime × List (Port × Val))) : ObsEq l l := by
  induction l with
  | nil => trivial
  | cons x l ih =>
    obtain ⟨t, i⟩ := x
    exact ⟨rfl, fun _ => rfl, ih⟩

/-- `get_first_wakeups` of two dicts that are equal as mappings: same time, same components. -/
theorem firstWakeups_congr {w1 w2 : Wakeups} (h1 : UniqueKeys w1) (h2 : UniqueKeys w2)
    (h : MapEq w1 w2) {cs1 cs2 : List Comp} {m1 m2 : SimTime}
    (hf1 : firstWakeups w1 = (cs1, some m1)) (hf2 : firstWakeups w2 = (cs2, some m2)) :
    m1 = m2 ∧ ∀ c, c ∈ cs1 ↔ c ∈ cs2 := by
  obtain ⟨hc1, hle1, ⟨x1, hx1⟩, _⟩ := firstWakeups_spec w1 h1 cs1 m1 hf1
  obtain ⟨hc2, hle2, ⟨x2, hx2⟩, _⟩ := firstWakeups_spec w2 h2 cs2 m2 hf2
  have hm : m1 = m2 :=
    Int.le_antisymm (hle1 x2 m2 ((h x2).trans hx2)) (hle2 x1 m1 ((h x1).symm.trans hx1))
  subst hm
  exact ⟨rfl, fun c => by rw [hc1, hc2, h c]⟩

/-- **C08**, local form. -/
theorem flatRun_loc_equiv {w : Wiring} (hw : RouterOK w) (hacyc : w.Acyclic) {devs : DevSeq Val}
    (hdev : ∀ k, DevExt (devs k)) {t0 : SimTime} {n : Nat} {st1 : FlatSt Val}
    {times1 : List SimTime} (h1 : FlatRun w devs t0 n st1 times1) :
    ∀ {st2 : FlatSt Val} {times2 : List SimTime}, FlatRun w devs t0 n st2 times2 →
      times1 = times2 ∧ ∀ c, (loc st1 c).Equiv (loc st2 c) := by
  induction h1 with
  | initial hr1 =>
    intro st2 times2 h2
    cases h2 with
    | initial hr2 =>
      refine ⟨rfl, tickRun_loc_equiv hw hacyc (hdev 0) (fun _ => Iff.rfl) (fun c => ?_) hr1 hr2⟩
      exact ⟨fun _ => rfl, fun _ => rfl, rfl, obsEq_refl _⟩
  | @tick n sa sa' timesa csa ma hpa hfa hra ih =>
    intro st2 times2 h2
    cases h2 with
    | @tick _ sb _ timesb csb mb hpb hfb hrb =>
      obtain ⟨hti, hloc⟩ := ih hpb
      have hua := flatRun_uniqueKeys hpa
      have hub := flatRun_uniqueKeys hpb
      obtain ⟨hm, hcs⟩ := firstWakeups_congr hua hub (fun c => (hloc c).wk) hfa hfb
      subst hm
      refine ⟨by rw [hti], tickRun_loc_equiv hw hacyc (hdev (n + 1)) hcs (fun c => ?_) hra hrb⟩
      refine ⟨(hloc c).ins, (hloc c).outs, ?_, (hloc c).ob⟩
      show alookup (delWakeups sa.wake csa) c = alookup (delWakeups sb.wake csb) c
      rw [delWakeups_lookup _ hua, delWakeups_lookup _ hub]
      by_cases hc : c ∈ csa
      · rw [if_pos hc, if_pos ((hcs c).1 hc)]
      · rw [if_neg hc, if_neg (fun h => hc ((hcs c).2 h))]
        exact (hloc c).wk

end Tickit.Det
