/-
Helper lemmas for C08 / C04 (determinism and time monotonicity of the flat multi-tick system).
All declarations here live in namespace `Tickit.Det` to avoid clashes.
-/
import TickitModel.Lemmas.FlatLemmas
import TickitModel.Lemmas.MiscLemmas
import TickitModel.Props.C06

namespace Tickit.Det

end Tickit.Det
