/-
Helper lemmas for C09, part 16: the device-level description of an arbitrary tick of one level of
a nested configuration (`GenPost`), by induction over the nesting depth.
-/
import TickitModel.Lemmas.FlattenGenLoop

namespace Tickit

theorem Static.DecG.final {S : Static} {D₀ : Comp → Prop} {L : Level} {tu : List (Comp × Bool)}
    {y : Comp} (h : S.DecG D₀ L tu y) : D₀ y ∨ S.Below L.name y :=
  h.elim Or.inl (fun h' => Or.inr h'.1)

/-- the state of the loop right after `Ticker.call` -/
theorem GenVal.start {S : Static} (hS : S.Valid) {orc : Oracle} {n : Nat} (hst : S.ResolveStable n)
    {σ₀ : SimSt} {t : SimTime} {Root : Comp → Prop} (ctx : TickCtx S σ₀ t Root)
    {D₀ : Comp → Prop} {L : Level} (hL : L ∈ S.levels) {roots : List Comp} {st : SimSt}
    {mobs0 : List Obs} {inCh : List (Port × V)}
    (hpre0 : GenPre S orc n σ₀ Root D₀ L.name L roots inCh st mobs0)
    {tk : Ticker V} {ds : List (Dispatch V)} (hcall : Ticker.call L.wiring t roots = .ok (tk, ds)) :
    GenVal S orc n σ₀ t Root D₀ L roots st mobs0 ⟨tk, ds, [], st⟩ (ds.map Ev.dispatch) [] := by
  obtain ⟨hwf, hos⟩ := hS.wiring_wf L hL
  obtain ⟨hs, htu, htime, hroots⟩ := sim_call_eq_ok hcall
  have hinp := flt_call_inputs hcall
  have hpre := (PreInv.start (Val := V) L.wiring t roots).schedule rfl hs
  have hP : PreInv L.wiring t roots tk.toUpdate ds (ds.map Ev.dispatch) := by
    rw [htu]; simpa using hpre.1
  have hrootsC := sim_call_ok_roots hcall
  -- `to_update` holds exactly the extent
  have hnone : ∀ c, alookup tk.toUpdate c = none ↔ c ∉ extent L.wiring roots := by
    intro c
    rw [htu, alookup_markDispatched_eq_none, alookup_eq_none_iff, startTick_toUpdate]
  have hbelow : ∀ c, alookup S.parent c = some L.name → ∀ x, S.Own c x → S.Below L.name x :=
    fun c hc x hx => hx.below hc
  -- components outside the extent
  obtain ⟨rank, hrank⟩ := hS.acyclic L hL
  have key : ∀ k a, rank a < k → a ∈ L.wiring.components → a ∉ extent L.wiring roots →
      S.AnsOKG orc n σ₀ (S.DecG D₀ L tk.toUpdate) L mobs0 a [] ∧
      (alookup S.parent a = some L.name → ∀ x, S.isDevice x → S.Own a x →
        DevValOK S orc n σ₀ Root (S.DecG D₀ L tk.toUpdate) mobs0 st x) := by
    intro k
    induction k with
    | zero => intro a h; omega
    | succ k ih =>
      intro a hk ha hae
      by_cases hpar : alookup S.parent a = some L.name
      · have hax : a ≠ pseudoExternal := by
          intro he; rw [he, hS.pseudo_fresh.1] at hpar; cases hpar
        have hnr : ¬ Root a := by
          intro hr
          exact hae (sim_root_mem_extent _ ((hpre0.hroots a ha hax).2 hr))
        have hskip : S.SkipOKG orc n σ₀ (S.DecG D₀ L tk.toUpdate) L mobs0 a := by
          intro q a2 p2 hconn
          have ha2 := (Wiring.conn_mem_components hwf hconn).1
          have ha2e : a2 ∉ extent L.wiring roots :=
            fun h => hae (flt_extent_closed h ⟨p2, q, hconn⟩)
          obtain ⟨us, hus⟩ := Option.isSome_iff_exists.1 (hS.ups_defined L hL a ha)
          have hmem : a2 ∈ us := (Wiring.mem_ups_iff' hwf hus a2).2 ⟨p2, q, hconn⟩
          have hr := hrank a us a2 hus hmem
          obtain ⟨hok, _⟩ := ih a2 (by omega) ha2 ha2e
          obtain ⟨h1, h2⟩ := hok.2 p2 a q hconn
          exact ⟨fun v hv => by have := (h1 v).2 hv; simp at this, h2⟩
        have hres := unticked_ok hS hst ctx hL (st := st) hpar hnr ((hnone a).2 hae) hskip
          (fun x hx => hpre0.fresh_obs x (hbelow a hpar x hx))
          (fun x hx => hpre0.fresh_dev x (hbelow a hpar x hx))
        exact ⟨hres.1, fun _ => hres.2⟩
      · refine ⟨?_, fun h => absurd h hpar⟩
        rcases hS.members L hL a ha with h' | ⟨hnn, h' | h'⟩
        · exact absurd h' hpar
        · exact absurd (sim_root_mem_extent _ (h' ▸ hpre0.ext_root hnn)) hae
        · refine ⟨by simp, fun p b q hconn => ?_⟩
          exact absurd h' (hS.pseudo_dir L hL _ _ _ _ hconn).2
  have hout : ∀ a ∈ L.wiring.components, a ∉ extent L.wiring roots →
      S.AnsOKG orc n σ₀ (S.DecG D₀ L tk.toUpdate) L mobs0 a [] :=
    fun a ha hae => (key (rank a + 1) a (Nat.lt_succ_self _) ha hae).1
  have hstart := (startTick_fresh (Val := V) L.wiring t roots)
  have hpend := gen_sched_pend_ok hS (orc := orc) (n := n) (σ₀ := σ₀)
    (Dec := S.DecG D₀ L tk.toUpdate) hL (roots := roots) (t := t)
    (tk1 := (Ticker.startTick L.wiring t roots : Ticker V)) (trace1 := []) (mobs := mobs0)
    hstart.1 rfl rfl (by simpa [Ticker.startTick] using InputsInv.nil (Val := V) L.wiring)
    (by intro c; simp [Ticker.startTick, agetD]) (by simp) hout
    (by
      intro c hc hn
      exfalso
      rw [alookup_eq_none_iff, startTick_toUpdate] at hn
      exact hn hc) hs
  exact
    { pre := hP
      obs_eq := by simp
      inputs := by
        show InputsInv L.wiring tk.inputs _
        rw [hinp]
        exact (InputsInv.nil (Val := V) L.wiring).congr (by simp)
      ins_nodup := by
        intro c
        show (akeys (agetD tk.inputs c [])).Nodup
        rw [hinp]; simp [agetD]
      ans_ext := by simp
      ans_ok := by simp
      out_ok := by simpa using hout
      pend_ok := by simpa using hpend
      closed_dev := by
        intro c hc hcn x hxd hown
        have hce : c ∉ extent L.wiring roots := (hnone c).1 hcn
        obtain ⟨Lc, hLc, hcm, _⟩ := hS.parent_level c L.name hc
        rw [hS.level_of_mem hL] at hLc; cases hLc
        simpa using (key (rank c + 1) c (Nat.lt_succ_self _) hcm hce).2 hc x hxd hown
      open_fresh := by
        intro c hc _
        refine ⟨fun x hx => ?_, fun s hs => hpre0.fresh_sched s (hbelow c hc s hs)⟩
        have hb := hbelow c hc x hx
        exact ⟨by simpa using hpre0.fresh_obs x hb, hpre0.fresh_dev x hb⟩
      out_none := fun _ => rfl
      out_exp := by simp }

/-- a finished loop establishes the device-level description of the level's tick -/
theorem GenVal.finish {S : Static} (hS : S.Valid) {orc : Oracle} {n : Nat} {σ₀ : SimSt} {t : SimTime}
    {Root : Comp → Prop} {D₀ : Comp → Prop} {L : Level} (hL : L ∈ S.levels) {roots : List Comp}
    {st0 : SimSt} {mobs0 : List Obs} {ls : LoopSt} {trace : List (Ev V)} {new : List Obs}
    (iv : GenVal S orc n σ₀ t Root D₀ L roots st0 mobs0 ls trace new) (htu : ls.tk.toUpdate = []) :
    GenPost S orc n σ₀ Root D₀ L.name L st0 ls.st ls.outCh mobs0 := by
  have hwf := (hS.wiring_wf L hL).1
  refine ⟨new, iv.obs_eq, ?_, ?_⟩
  · intro x hxd hb
    obtain ⟨c, hc, hown⟩ := hb.top
    exact (iv.closed_dev c hc (by rw [htu]; rfl) x hxd hown).transport
      (fun y hy => hy.final) (fun o ho => ho) (fun o ho hno => absurd ho hno) ⟨rfl, rfl⟩
  · by_cases hex : ∃ ch, Ev.answer pseudoExpose ch ∈ trace
    · exact (iv.out_exp hex).transport (fun y hy => hy.final) (fun _ _ => Iff.rfl)
    · rw [iv.out_none (fun ch hm => hex ⟨ch, hm⟩)]
      -- `expose` was not part of the tick, so neither were the sources of its inputs
      have hsrc : ∀ a p q, L.wiring.Conn a p pseudoExpose q →
          S.AnsOKG orc n σ₀ (S.DecG D₀ L ls.tk.toUpdate) L (mobs0 ++ new) a [] := by
        intro a p q hconn
        obtain ⟨hac, hec⟩ := Wiring.conn_mem_components hwf hconn
        refine iv.out_ok a hac (fun hae => ?_)
        have hee := flt_extent_closed hae ⟨p, q, hconn⟩
        exact hex ((iv.pre.resolved _ hee).1 (by rw [htu]; rfl))
      refine ⟨by simp, fun q v => ?_, fun q a p hconn => ?_⟩
      · constructor
        · intro h; simp at h
        · rintro ⟨a, p, hconn, hv⟩
          have := (((hsrc a p q hconn).2 p _ _ hconn).1 v).2 hv
          simp at this
      · exact (((hsrc a p q hconn).2 p _ _ hconn).2).mono (fun y hy => hy.final)

theorem tickLoop_gen {S : Static} (hS : S.Valid) {orc : Oracle} {n : Nat} (hst : S.ResolveStable n)
    {σ₀ : SimSt} {t : SimTime} {Root : Comp → Prop} (ctx : TickCtx S σ₀ t Root) {fuel : Nat}
    (IH : GenIH S orc n σ₀ t Root fuel) {D₀ : Comp → Prop} {L : Level} (hL : L ∈ S.levels)
    {roots : List Comp} {st0 : SimSt} {mobs0 : List Obs} {inCh : List (Port × V)}
    (hpre0 : GenPre S orc n σ₀ Root D₀ L.name L roots inCh st0 mobs0) :
    ∀ (steps : Nat) (ls : LoopSt) (tr_ : List (Ev V)) (new_ : List Obs) (trace : List (Ev V))
      (new : List Obs), LoopInv S L t roots st0 ls tr_ new_ →
      GenVal S orc n σ₀ t Root D₀ L roots st0 mobs0 ls trace new →
      ∀ st' out, tickLoop S orc fuel steps L inCh ls = .ok (st', out) →
        GenPost S orc n σ₀ Root D₀ L.name L st0 st' out mobs0 := by
  intro steps
  induction steps with
  | zero =>
    intro ls _ _ _ _ _ _ st' out h
    rw [tickLoop_zero] at h; cases h
  | succ steps ih =>
    intro ls tr_ new_ trace new linv iv st' out h
    cases hp : ls.pending with
    | nil =>
      rw [tickLoop_nil _ _ _ _ _ _ _ hp] at h
      split at h
      · rename_i he
        simp only [Except.ok.injEq, Prod.mk.injEq] at h
        obtain ⟨rfl, rfl⟩ := h
        exact iv.finish hS hL (by simpa using he)
      · cases h
    | cons d rest =>
      rw [tickLoop_cons _ _ _ _ _ _ _ _ _ hp] at h
      split at h
      · cases h
      · rename_i st1 outCh1 changes callAt ha
        split at h
        · cases h
        · rename_i tk' ds hprop
          have IHpost : ∀ lvl t roots inCh st st' out,
              tickLevel S orc fuel lvl t roots inCh st = .ok (st', out) →
                LevelPost S lvl t roots st st' :=
            fun lvl t roots inCh st st' out => tickLevel_post hS.toWF orc fuel lvl t roots inCh st st' out
          obtain ⟨tr_', new_', linv'⟩ := linv.step hS.toWF IHpost hL hp ha hprop
          obtain ⟨new1, iv'⟩ := iv.step hS hst ctx IH hL hpre0 linv hp ha hprop
          exact ih _ tr_' new_' _ _ linv' iv' st' out h

/-- **every tick of every level, at device level** -/
theorem tickLevel_gen {S : Static} (hS : S.Valid) (orc : Oracle) {n : Nat} (hst : S.ResolveStable n)
    {σ₀ : SimSt} {t : SimTime} {Root : Comp → Prop} (ctx : TickCtx S σ₀ t Root) :
    ∀ fuel, GenIH S orc n σ₀ t Root fuel := by
  intro fuel
  induction fuel with
  | zero =>
    intro D₀ lvl L roots inCh st st' out mobs h
    rw [tickLevel] at h; cases h
  | succ fuel IH =>
    intro D₀ lvl L roots inCh st st' out mobs h hLv hpre0
    rw [tickLevel.eq_2] at h
    rw [hLv] at h
    simp only [] at h
    obtain ⟨hL, hname⟩ := Static.level_some hLv
    subst hname
    split at h
    · cases h
    · rename_i tk ds hcall
      obtain ⟨hs, htu, htime, hroots⟩ := sim_call_eq_ok hcall
      have hpre := (PreInv.start (Val := V) L.wiring t roots).schedule rfl hs
      have hnone : ∀ c ∈ extent L.wiring roots, alookup tk.toUpdate c ≠ none := by
        intro c hc
        rw [htu, Ne, alookup_markDispatched_eq_none, alookup_eq_none_iff, startTick_toUpdate]
        exact fun h => h hc
      have hP : PreInv L.wiring t roots tk.toUpdate ds (ds.map Ev.dispatch) := by
        rw [htu]
        simpa using hpre.1
      have linv : LoopInv S L t roots st ⟨tk, ds, [], st⟩ (ds.map Ev.dispatch) [] :=
        { pre := hP
          time := htime
          troots := hroots
          pend_comp := fun d hd => (sim_scheduleLoop_mem hs hd).1
          pend_input := fun d hd hr => (sim_scheduleLoop_mem hs hd).2 hr
          obs_eq := by simp
          obs_nodup := by simp
          obs_own := by simp
          changed := fun s hs => absurd rfl hs
          done := fun _ _ c hce hcn _ => absurd hcn (hnone c hce) }
      have iv := GenVal.start hS hst ctx hL hpre0 hcall
      exact tickLoop_gen hS hst ctx IH hL hpre0 _ _ _ _ _ _ linv iv st' out h

end Tickit
