/-
The loop invariant of `tickLoop` (one tick of one scheduler level of the nested
whole-simulation model) and the resulting post-condition of `tickLevel`.
-/
import TickitModel.Lemmas.SimLemmas

namespace Tickit

/-! ### `tickLoop`, one step at a time -/

/-- the answer of the addressed component to one dispatch (the `answer` of `tickLoop`). -/
def simAnswer (S : Static) (orc : Oracle) (fuel : Nat) (L : Level) (inCh : List (Port × V))
    (st : SimSt) (outCh0 : List (Port × V)) (d : Dispatch V) :
    Except SimErr (SimSt × List (Port × V) × List (Port × V) × Option SimTime) :=
  let isNested := L.name != ""
  match d with
  | .skip _ _ => .ok (st, outCh0, [], none)
  | .input c t ins =>
    if isNested && c == pseudoExternal then .ok (st, outCh0, inCh, none)
    else if isNested && c == pseudoExpose then .ok (st, ins, [], none)
    else if S.isSys c then
      let sc := st.sched c
      let due := nestedDue sc.wake t
      let all := match S.level c with | some Lc => Lc.wiring.components | none => []
      let roots := sunion (sunion (sunion sc.interrupts due) [pseudoExternal]) (if sc.firstDone then [] else all)
      let sc' : SchedSt := { wake := delWakeups sc.wake due, interrupts := [], firstDone := true }
      let st1 := { st with scheds := upsert st.scheds c sc' }
      match tickLevel S orc fuel c t roots ins st1 with
      | .error e => .error e
      | .ok (st2, outCh) =>
        let sc2 := st2.sched c
        let callAt := if sc2.interrupts.isEmpty then (firstWakeups sc2.wake).2 else some t
        .ok (st2, outCh0, outCh, callAt)
    else
      let k := agetD st.count c 0
      match (agetD orc c [])[k]? with
      | none => .error (.noOracle c k)
      | some resp =>
        let dc := agetD st.devs c {}
        let merged := dc.merge ins
        let st1 := { st with obs := st.obs ++ [(⟨c, t, merged⟩ : Obs)], count := upsert st.count c (k + 1) }
        if resp.raises then .error (.deviceRaised c)
        else
          let (dc', ch) := dc.onTick ins (normDict resp.outs)
          .ok ({ st1 with devs := upsert st1.devs c dc' }, outCh0, ch, resp.callAt)

/-- the wakeup bookkeeping of the level after an answer -/
def simWake (st : SimSt) (lvl c : Comp) (callAt : Option SimTime) : SimSt :=
  let sc := st.sched lvl
  let sc' := match callAt with
    | some w => { sc with wake := addWakeup sc.wake c w }
    | none => sc
  { st with scheds := upsert st.scheds lvl sc' }

theorem tickLoop_zero (S : Static) (orc : Oracle) (fuel : Nat) (L : Level) (inCh : List (Port × V))
    (ls : LoopSt) : tickLoop S orc fuel 0 L inCh ls = .error .fuel := by
  rw [tickLoop]

theorem tickLoop_nil (S : Static) (orc : Oracle) (fuel steps : Nat) (L : Level) (inCh : List (Port × V))
    (ls : LoopSt) (h : ls.pending = []) :
    tickLoop S orc fuel (steps + 1) L inCh ls =
      if ls.tk.toUpdate.isEmpty then .ok (ls.st, ls.outCh) else .error (.stall L.name) := by
  rw [tickLoop.eq_2, h]

theorem tickLoop_cons (S : Static) (orc : Oracle) (fuel steps : Nat) (L : Level) (inCh : List (Port × V))
    (ls : LoopSt) (d : Dispatch V) (rest : List (Dispatch V)) (h : ls.pending = d :: rest) :
    tickLoop S orc fuel (steps + 1) L inCh ls =
      match simAnswer S orc fuel L inCh ls.st ls.outCh d with
      | .error e => .error e
      | .ok (st', outCh', changes, callAt) =>
        match ls.tk.propagate L.wiring d.comp d.time changes with
        | .error e => .error (.tick L.name e)
        | .ok (tk', ds) =>
          tickLoop S orc fuel steps L inCh ⟨tk', rest ++ ds, outCh', simWake st' L.name d.comp callAt⟩ := by
  rw [tickLoop.eq_2, h]
  rfl

/-! ### ticker facts -/

section TickerFacts
variable {Val : Type}

theorem sim_propagate_eq_ok {w : Wiring} {tk tk' : Ticker Val} {src : Comp} {t : SimTime}
    {changes : List (Port × Val)} {ds : List (Dispatch Val)}
    (h : tk.propagate w src t changes = .ok (tk', ds)) :
    alookup tk.toUpdate src ≠ none ∧ t = tk.time ∧
      Ticker.scheduleLoop w (tk.afterAnswer w src changes) (aerase tk.toUpdate src) = .ok ds ∧
      tk'.toUpdate = markDispatched (aerase tk.toUpdate src) (ds.map Dispatch.comp) ∧
      tk'.time = tk.time ∧ tk'.roots = tk.roots := by
  simp only [Ticker.propagate] at h
  by_cases h1 : (alookup tk.toUpdate src).isNone = true
  · simp [h1] at h
  · simp only [h1, Bool.false_eq_true, if_false] at h
    by_cases h2 : t ≠ tk.time
    · simp [h2] at h
    · simp only [h2, if_false, Ticker.schedule] at h
      cases hr : Ticker.scheduleLoop w (tk.afterAnswer w src changes) (aerase tk.toUpdate src) with
      | error e =>
        simp only [Ticker.afterAnswer] at hr
        simp [hr, Except.map] at h
      | ok ds' =>
        simp only [Ticker.afterAnswer] at hr
        simp only [hr, Except.map, Except.ok.injEq] at h
        have hds : ds' = ds := by
          split at h <;> (cases h; rfl)
        subst hds
        refine ⟨by simpa using h1, by simpa using h2, rfl, ?_, ?_, ?_⟩
        · split at h <;> (cases h; rfl)
        · split at h <;> (cases h; rfl)
        · split at h <;> (cases h; rfl)

theorem sim_call_eq_ok {w : Wiring} {t : SimTime} {roots : List Comp} {tk : Ticker Val}
    {ds : List (Dispatch Val)} (h : Ticker.call w t roots = .ok (tk, ds)) :
    Ticker.scheduleLoop w (Ticker.startTick w t roots : Ticker Val)
        (Ticker.startTick w t roots : Ticker Val).toUpdate = .ok ds ∧
      tk.toUpdate = markDispatched (Ticker.startTick w t roots : Ticker Val).toUpdate
        (ds.map Dispatch.comp) ∧
      tk.time = t ∧ tk.roots = roots := by
  simp only [Ticker.call, Ticker.schedule] at h
  cases hr : Ticker.scheduleLoop w (Ticker.startTick w t roots : Ticker Val)
      (Ticker.startTick w t roots : Ticker Val).toUpdate with
  | error e => simp [hr, Except.map] at h
  | ok ds' =>
    simp only [hr, Except.map, Except.ok.injEq, Prod.mk.injEq] at h
    obtain ⟨h1, h2⟩ := h
    subst h1 h2
    exact ⟨rfl, rfl, rfl, rfl⟩

/-- what one scheduling pass hands out: known components; roots get an `Input`. -/
theorem sim_scheduleLoop_mem {w : Wiring} {tk : Ticker Val} {l : List (Comp × Bool)}
    {ds : List (Dispatch Val)} (h : Ticker.scheduleLoop w tk l = .ok ds) {d : Dispatch Val}
    (hd : d ∈ ds) :
    d.comp ∈ w.components ∧ (d.comp ∈ tk.roots → ∃ ins, d = .input d.comp tk.time ins) := by
  obtain ⟨h1, h2⟩ := scheduleLoop_spec h
  rw [h1] at hd
  obtain ⟨e, he, rfl⟩ := List.mem_map.1 hd
  obtain ⟨hel, hsel⟩ := List.mem_filter.1 he
  simp only [Ticker.selects, Bool.and_eq_true, Bool.not_eq_true'] at hsel
  refine ⟨?_, ?_⟩
  · rw [Ticker.decide_comp]
    exact (Wiring.ups_isSome_iff' w e.1).1 (h2 e hel hsel.1)
  · rw [Ticker.decide_comp]
    intro hr
    refine ⟨agetD tk.inputs e.1 [], ?_⟩
    simp [Ticker.decide, hr]

theorem sim_mem_akeys_foldl_upsert {κ β : Type} [DecidableEq κ] (cs : List κ) (b : β)
    (m : List (κ × β)) (x : κ) :
    x ∈ akeys (cs.foldl (fun acc c => upsert acc c b) m) ↔ x ∈ akeys m ∨ x ∈ cs := by
  induction cs generalizing m with
  | nil => simp
  | cons c cs ih =>
    rw [List.foldl_cons, ih, mem_akeys_upsert, List.mem_cons]
    constructor
    · rintro ((h | h) | h)
      · exact Or.inr (Or.inl h)
      · exact Or.inl h
      · exact Or.inr (Or.inr h)
    · rintro (h | h | h)
      · exact Or.inl (Or.inr h)
      · exact Or.inl (Or.inl h)
      · exact Or.inr h

theorem sim_mem_extent_iff (w : Wiring) (roots : List Comp) (x : Comp) :
    x ∈ extent w roots ↔ ∃ r ∈ roots, x ∈ w.dependants r := by
  suffices h : ∀ (rs : List Comp) (tu : List (Comp × Bool)),
      x ∈ akeys (rs.foldl (fun acc r => (w.dependants r).foldl (fun acc c => upsert acc c false) acc) tu) ↔
        x ∈ akeys tu ∨ ∃ r ∈ rs, x ∈ w.dependants r by
    have := h roots []
    simpa [extent, Ticker.startTick] using this
  intro rs
  induction rs with
  | nil => simp
  | cons r rs ih =>
    intro tu
    rw [List.foldl_cons, ih, sim_mem_akeys_foldl_upsert]
    simp only [List.mem_cons, exists_eq_or_imp, or_assoc]

/-- every root is in the extent of its tick -/
theorem sim_root_mem_extent (w : Wiring) {roots : List Comp} {r : Comp} (h : r ∈ roots) :
    r ∈ extent w roots :=
  (sim_mem_extent_iff w roots r).2 ⟨r, h, (Wiring.dependants_closed w r).1⟩

/-- a successful `Ticker.call` knows all its roots -/
theorem sim_call_ok_roots {w : Wiring} {t : SimTime} {roots : List Comp} {tk : Ticker Val}
    {ds : List (Dispatch Val)} (h : Ticker.call w t roots = .ok (tk, ds)) :
    ∀ r ∈ roots, r ∈ w.components := by
  intro r hr
  obtain ⟨hs, _⟩ := sim_call_eq_ok h
  have hfresh := startTick_fresh (Val := Val) w t roots
  have hmem : r ∈ akeys (Ticker.startTick w t roots : Ticker Val).toUpdate := by
    rw [startTick_toUpdate]; exact sim_root_mem_extent w hr
  obtain ⟨e, he, rfl⟩ := List.mem_map.1 hmem
  obtain ⟨c, b⟩ := e
  have hl := alookup_eq_some_of_mem hfresh.1 he
  have hb : b = false := by
    cases b with
    | false => rfl
    | true => exact absurd hl (hfresh.2 c)
  subst hb
  exact (Wiring.ups_isSome_iff' w c).1 ((scheduleLoop_spec hs).2 (c, false) he rfl)

end TickerFacts

/-! ### post-conditions -/

/-- what one tick of level `lvl` does to the observations and the `firstDone` marks. -/
def LevelPost (S : Static) (lvl : Comp) (t : SimTime) (roots : List Comp) (st st' : SimSt) : Prop :=
  ∃ new : List Obs, st'.obs = st.obs ++ new ∧ (new.map Obs.comp).Nodup ∧
    (∀ o ∈ new, o.time = t ∧ S.isDevice o.comp ∧ S.Below lvl o.comp) ∧
    (∀ s, ¬ S.Below lvl s → (st'.sched s).firstDone = (st.sched s).firstDone) ∧
    ((∀ L, S.level lvl = some L → ∀ c ∈ L.wiring.components, c ∈ roots) →
     (∀ s, S.Below lvl s → S.isSys s = true → (st.sched s).firstDone = false) →
       (∀ x, S.Below lvl x → S.isDevice x → x ∈ new.map Obs.comp) ∧
       (∀ s, S.Below lvl s → S.isSys s = true → (st'.sched s).firstDone = true))

/-- what the answer to one dispatch `d` of level `lvl` does. -/
def AnsPost (S : Static) (lvl : Comp) (d : Dispatch V) (st st' : SimSt) : Prop :=
  ∃ new : List Obs, st'.obs = st.obs ++ new ∧ (new.map Obs.comp).Nodup ∧
    (∀ o ∈ new, o.time = d.time ∧ S.isDevice o.comp ∧ alookup S.parent d.comp = some lvl ∧
      S.Own d.comp o.comp) ∧
    (∀ s, (st'.sched s).firstDone ≠ (st.sched s).firstDone →
      alookup S.parent d.comp = some lvl ∧ S.Own d.comp s) ∧
    ((∃ ins, d = .input d.comp d.time ins) → alookup S.parent d.comp = some lvl →
      (∀ s, S.Own d.comp s → S.isSys s = true → (st.sched s).firstDone = false) →
        (∀ x, S.Own d.comp x → S.isDevice x → x ∈ new.map Obs.comp) ∧
        (∀ s, S.Own d.comp s → S.isSys s = true → (st'.sched s).firstDone = true))

theorem AnsPost.of_eq {S : Static} {lvl : Comp} {d : Dispatch V} (st : SimSt)
    (hno : (∃ ins, d = .input d.comp d.time ins) → alookup S.parent d.comp = some lvl → False) :
    AnsPost S lvl d st st :=
  ⟨[], by simp, by simp, by simp, fun s h => absurd rfl h, fun h1 h2 => (hno h1 h2).elim⟩

theorem simAnswer_spec {S : Static} (hS : S.WF) {orc : Oracle} {fuel : Nat}
    (IH : ∀ lvl t roots inCh st st' out,
      tickLevel S orc fuel lvl t roots inCh st = .ok (st', out) → LevelPost S lvl t roots st st')
    {L : Level} (hL : L ∈ S.levels) {inCh : List (Port × V)} {st : SimSt} {outCh0 : List (Port × V)}
    {d : Dispatch V} (hc : d.comp ∈ L.wiring.components)
    {st' : SimSt} {outCh' changes : List (Port × V)} {callAt : Option SimTime}
    (h : simAnswer S orc fuel L inCh st outCh0 d = .ok (st', outCh', changes, callAt)) :
    AnsPost S L.name d st st' := by
  cases d with
  | skip c t =>
    simp only [simAnswer, Except.ok.injEq, Prod.mk.injEq] at h
    obtain ⟨rfl, _⟩ := h
    exact AnsPost.of_eq _ (by rintro ⟨ins, h⟩; cases h)
  | input c t ins =>
    simp only [Dispatch.comp] at hc
    simp only [simAnswer] at h
    have hmem := hS.members L hL c hc
    split at h
    · -- `external`
      rename_i hx
      simp only [Bool.and_eq_true, bne_iff_ne, ne_eq, beq_iff_eq] at hx
      simp only [Except.ok.injEq, Prod.mk.injEq] at h
      obtain ⟨rfl, _⟩ := h
      refine AnsPost.of_eq _ (fun _ hp => ?_)
      simp only [Dispatch.comp, hx.2, hS.pseudo_fresh.1] at hp
      cases hp
    · rename_i hx
      split at h
      · -- `expose`
        rename_i hy
        simp only [Bool.and_eq_true, bne_iff_ne, ne_eq, beq_iff_eq] at hy
        simp only [Except.ok.injEq, Prod.mk.injEq] at h
        obtain ⟨rfl, _⟩ := h
        refine AnsPost.of_eq _ (fun _ hp => ?_)
        simp only [Dispatch.comp, hy.2, hS.pseudo_fresh.2.1] at hp
        cases hp
      · rename_i hy
        have hpar : alookup S.parent c = some L.name := by
          rcases hmem with h' | ⟨hne, h' | h'⟩
          · exact h'
          · exact absurd (by simp [hne, h']) hx
          · exact absurd (by simp [hne, h']) hy
        split at h
        · -- a system component
          rename_i hsys
          trace_state
          sorry
        · -- a device
          rename_i hsys
          trace_state
          sorry

end Tickit
